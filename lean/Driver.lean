/-
  Driver: the model side of the line protocol (see /verif/PROTOCOL.md).
  Reads request lines on stdin, answers each from the executable model.
  Imports only the import-free model, so it links as a native executable.
-/
import SqlDt.Model.Serde
import SqlDt.Spec.Munch
import SqlDt.Spec.Units
import SqlDt.Spec.Values
import SqlDt.Spec.Reading
open SqlDt

namespace Drv

inductive Arg where
  | int (v : Int)
  | f64 (bits : Nat)
  | bytes (b : Bytes)
  | word (s : String)
  | pct
  deriving Inhabited

inductive Val where
  | int (v : Int)
  | none
  | f64 (x : F64)
  | bytes (b : Bytes)
  | str (s : String)

inductive Res where
  | ok (vs : List Val)
  | err (e : Err)
  | badRecv | badArg | badClock | skipUtf8 | badOp

/-! ### text helpers -/

def hexDigit (n : Nat) : Char := if n < 10 then Char.ofNat (48 + n) else Char.ofNat (87 + n)

def hex2 (b : Nat) : String := String.ofList [hexDigit (b / 16 % 16), hexDigit (b % 16)]

def hexBytes (bs : Bytes) : String := String.ofList (bs.foldr (fun b acc => hexDigit (b / 16 % 16) :: hexDigit (b % 16) :: acc) [])

def hex16 (n : Nat) : String :=
  String.ofList ((List.range 16).map fun i => hexDigit ((n >>> (4 * (15 - i))) % 16))

def hexVal (c : Char) : Option Nat :=
  if '0' ≤ c ∧ c ≤ '9' then some (c.toNat - 48)
  else if 'a' ≤ c ∧ c ≤ 'f' then some (c.toNat - 87)
  else none

def parseHexBytes : List Char → Option Bytes
  | [] => some []
  | a :: b :: rest => do
    let x ← hexVal a
    let y ← hexVal b
    let r ← parseHexBytes rest
    pure ((x * 16 + y) :: r)
  | _ => none

def parseHexNat (cs : List Char) : Option Nat :=
  cs.foldl (fun acc c => do let a ← acc; let v ← hexVal c; pure (a * 16 + v)) (some 0)

def parseArg (s : String) : Option Arg :=
  if s == "%" then some .pct
  else if s.startsWith "s:" then (parseHexBytes (s.toList.drop 2)).map .bytes
  else if s.startsWith "x" && s.length == 17 then (parseHexNat (s.toList.drop 1)).map .f64
  else match s.toInt? with
    | some v => some (.int v)
    | none => some (.word s)

def valStr : Val → String
  | .int v => toString v
  | .none => "-"
  | .f64 x => if x.isNan then "xnan" else "x" ++ hex16 x.toBits
  | .bytes b => "s:" ++ hexBytes b
  | .str s => s

def resStr : Res → String
  | .ok vs => vs.foldl (fun acc v => acc ++ " " ++ valStr v) "ok"
  | .err .Panic => "panic"
  | .err e => "err " ++ e.name
  | .badRecv => "bad-recv"
  | .badArg => "bad-arg"
  | .badClock => "bad-clock"
  | .skipUtf8 => "skip-utf8"
  | .badOp => "bad-op"

/-- Strict UTF-8 validity (what `String::from_utf8` accepts). -/
def validUtf8 : Bytes → Bool
  | [] => true
  | b0 :: rest =>
    if b0 < 0x80 then validUtf8 rest
    else if 0xC2 ≤ b0 ∧ b0 ≤ 0xDF then
      match rest with
      | b1 :: r => (0x80 ≤ b1 && b1 ≤ 0xBF) && validUtf8 r
      | _ => false
    else if 0xE0 ≤ b0 ∧ b0 ≤ 0xEF then
      match rest with
      | b1 :: b2 :: r =>
        let lo := if b0 == 0xE0 then 0xA0 else 0x80
        let hi := if b0 == 0xED then 0x9F else 0xBF
        (lo ≤ b1 && b1 ≤ hi) && (0x80 ≤ b2 && b2 ≤ 0xBF) && validUtf8 r
      | _ => false
    else if 0xF0 ≤ b0 ∧ b0 ≤ 0xF4 then
      match rest with
      | b1 :: b2 :: b3 :: r =>
        let lo := if b0 == 0xF0 then 0x90 else 0x80
        let hi := if b0 == 0xF4 then 0x8F else 0xBF
        (lo ≤ b1 && b1 ≤ hi) && (0x80 ≤ b2 && b2 ≤ 0xBF) && (0x80 ≤ b3 && b3 ≤ 0xBF) && validUtf8 r
      | _ => false
    else false

/-! ### argument combinators -/

def chkInt : Chk Int → Res
  | .ok v => .ok [.int v]
  | .error e => .err e

def okInt (v : Int) : Res := .ok [.int v]
def okBool (b : Bool) : Res := .ok [.int (if b then 1 else 0)]

def recv (ty : Ty) (a : Arg) (k : Int → Res) : Res :=
  match a with
  | .int v => if ty.Valid v then k v else .badRecv
  | _ => .badOp

def i32 (a : Arg) (k : Int → Res) : Res :=
  match a with
  | .int v => if fitsI32 v then k v else .badArg
  | _ => .badOp

def u32 (a : Arg) (k : Int → Res) : Res :=
  match a with
  | .int v => if fitsU32 v then k v else .badArg
  | _ => .badOp

def i64 (a : Arg) (k : Int → Res) : Res :=
  match a with
  | .int v => if fitsI64 v then k v else .badArg
  | _ => .badOp

def f64 (a : Arg) (k : F64 → Res) : Res :=
  match a with
  | .f64 b => k (F64.ofBits b)
  | _ => .badOp

def text (a : Arg) (k : Bytes → Res) : Res :=
  match a with
  | .bytes b => if validUtf8 b then k b else .skipUtf8
  | _ => .badOp

def tyOf : Arg → Option Ty
  | .word "D" => some .D | .word "T" => some .T | .word "TS" => some .TS
  | .word "YM" => some .YM | .word "DT" => some .DT | .word "OD" => some .OD
  | _ => none

def unitOf : Arg → Option TUnit
  | .word "century" => some .century | .word "year" => some .year | .word "iso_year" => some .isoYear
  | .word "quarter" => some .quarter | .word "month" => some .month | .word "week" => some .week
  | .word "iso_week" => some .isoWeek | .word "month_start_week" => some .monthStartWeek
  | .word "day" => some .day | .word "sunday_start_week" => some .sundayStartWeek
  | .word "hour" => some .hour | .word "minute" => some .minute
  | _ => none

def isLeapProleptic (y : Int) : Bool := y % 4 == 0 && (y % 100 != 0 || y % 400 == 0)

def clockOf (as : List Arg) (k : Clock → Res) : Res :=
  match as with
  | [.int y, .int mo, .int d, .int h, .int mi, .int s, .int us] =>
    let dim : Int :=
      if mo == 2 then (if isLeapProleptic y then 29 else 28)
      else if mo == 4 || mo == 6 || mo == 9 || mo == 11 then 30 else 31
    if y < -262000 || y > 262000 || mo < 1 || mo > 12 || d < 1 || d > dim || h < 0 || h > 23 || mi < 0 || mi > 59
        || s < 0 || s > 59 || us < 0 || us > 999999 then .badClock
    else k { year := y, month := mo, day := d, hour := h, minute := mi, second := s, usec := us }
  | _ => .badOp

def cmpRes (a b : Int) : Res :=
  .ok [.int (if a = b then 1 else 0), .int (if a < b then -1 else if a = b then 0 else 1)]

def accRes (year month day hour minute : Option Int) (second : Option F64) (date : Option Int) : Res :=
  let oi : Option Int → Val := fun o => match o with | some v => .int v | none => .none
  .ok [oi year, oi month, oi day, oi hour, oi minute,
       (match second with | some x => .f64 x | none => .none), oi date]

def fieldStr : Field → String
  | .Invalid => "Invalid"
  | .Blank n => s!"Blank({n})"
  | .Hyphen => "Hyphen" | .Colon => "Colon" | .Slash => "Slash" | .Backslash => "Backslash"
  | .Comma => "Comma" | .Dot => "Dot" | .Semicolon => "Semicolon" | .T => "T"
  | .Year n => s!"Year({n})"
  | .Month => "Month" | .Day => "Day"
  | .DayName s => "DayName(" ++ styleStr s ++ ")"
  | .MonthName s => "MonthName(" ++ styleStr s ++ ")"
  | .Hour24 => "Hour24" | .Hour12 => "Hour12" | .Minute => "Minute" | .Second => "Second"
  | .Fraction (some p) => s!"Fraction(Some({p}))"
  | .Fraction none => "Fraction(None)"
  | .AmPm s => "AmPm(" ++ (match s with | .Upper => "Upper" | .Lower => "Lower" | .UpperDot => "UpperDot" | .LowerDot => "LowerDot") ++ ")"
  | .DayOfWeek => "DayOfWeek" | .DayOfYear => "DayOfYear" | .WeekOfMonth => "WeekOfMonth" | .WeekOfYear => "WeekOfYear"
where styleStr : NameStyle → String
  | .Capital => "Capital" | .Lower => "Lower" | .Upper => "Upper"
  | .AbbrCapital => "AbbrCapital" | .AbbrLower => "AbbrLower" | .AbbrUpper => "AbbrUpper"

def fieldsStr (fs : List Field) : String := "[" ++ ",".intercalate (fs.map fieldStr) ++ "]"

/-- Accessors of the `DateTime` trait. -/
def acc (ty : Ty) (v : Int) : Res :=
  match ty with
  | .D => accRes (some (Date.year v)) (some (Date.month v)) (some (Date.day v)) none none none (some v)
  | .T => accRes none none none (some (Time.hour v)) (some (Time.minute v)) (some (Time.second v)) none
  | .TS | .OD =>
    let d := Timestamp.date v
    let t := Timestamp.time v
    accRes (some (Date.year d)) (some (Date.month d)) (some (Date.day d)) (some (Time.hour t)) (some (Time.minute t))
      (some (Time.second t)) (some d)
  | .YM => accRes (some (IntervalYM.year v)) (some (IntervalYM.month v)) none none none none none
  | .DT => accRes none none (some (IntervalDT.day v)) (some (IntervalDT.hour v)) (some (IntervalDT.minute v))
      (some (IntervalDT.second v)) none

def withUnit (u : Arg) (k : TUnit → Res) : Res :=
  match unitOf u with | some u => k u | none => .badOp

def withTy (t : Arg) (k : Ty → Res) : Res :=
  match tyOf t with | some t => k t | none => .badOp

def dummyClock : Clock := { year := 2000, month := 1, day := 1, hour := 0, minute := 0, second := 0, usec := 0 }

/-! ### readings (Spec/Reading): one word per picture token -/

def maskOf (s : String) : Option (List Bool) :=
  if s == "-" then some [] else s.toList.mapM (fun c => if c == '1' then some true else if c == '0' then some false else none)

def digitsOf (s : String) : Option (List Nat) :=
  if s == "-" then some [] else s.toList.mapM (fun c => if '0' ≤ c ∧ c ≤ '9' then some (c.toNat - 48) else none)

/-- `n.B.S.Z.N` number (S: 0 none, 1 '+', 2 '-'), `a.B.K.ABBR.MASK` name, `m.B.PM.MASK` meridian, `f.B.DIGITS` fraction,
    `p.B` punctuation, `b.COUNT` blank token, `w.B.D` weekday number, `o` left out. -/
def lexOf (w : String) : Option Spec.Lex :=
  match w.splitOn "." with
  | ["n", b, sg, z, n] => do
    let sign ← (match sg with | "0" => some Spec.Sign.none | "1" => some .plus | "2" => some .minus | _ => none)
    pure (.num (← b.toNat?) sign (← z.toNat?) (← n.toNat?))
  | ["a", b, k, ab, mask] => do pure (.name (← b.toNat?) (← k.toNat?) (ab == "1") (← maskOf mask))
  | ["m", b, pm, mask] => do pure (.meridian (← b.toNat?) (pm == "1") (← maskOf mask))
  | ["f", b, ds] => do pure (.frac (← b.toNat?) (← digitsOf ds))
  | ["p", b] => do pure (.punct (← b.toNat?))
  | ["b", c] => do pure (.blank (← c.toNat?))
  | ["w", b, d] => do pure (.dowNum (← b.toNat?) (← d.toNat?))
  | ["o"] => some .omitted
  | _ => none

/-- `R.read TY s:PIC TB CLOCK(7) LEX…` → `s:TEXT fits delimited value|-`: the text of the reading and what it denotes. -/
def readOp : List Arg → Res
  | ty :: p :: .int tb :: y :: mo :: d :: h :: mi :: sc :: us :: lexes =>
    withTy ty fun ty => text p fun p => clockOf [y, mo, d, h, mi, sc, us] fun now =>
      match Spec.munch p with
      | .error _ => .badArg
      | .ok fields =>
        let ls := lexes.map (fun a => match a with | .word w => lexOf w | _ => none)
        if tb < 0 ∨ ls.length ≠ fields.length ∨ ls.any Option.isNone then .badArg
        else
          let items := fields.zip (ls.map (·.getD .omitted))
          let fits := items.all (fun q => Spec.Lex.fits ty q.1 q.2)
          .ok [.bytes (Spec.write items tb.toNat), .int (if fits then 1 else 0),
               .int (if Spec.Delimited ty items then 1 else 0),
               (match Spec.denote ty items now with | some v => .int v | none => .none)]
  | _ => .badOp

/-- Spec oracle mode (`--spec`): operations answered by the independent specifications of `SqlDt/Spec`. -/
def specHandler (name : String) : Option (List Arg → Res) :=
  match name with
  | "F.try_new" => some fun | [p] => text p fun p => (match Spec.munch p with | .ok fs => .ok [.str (fieldsStr fs)] | .error e => .err e) | _ => .badOp
  | "F.try_new_idx" => some fun
    | [.bytes alpha, .int len, .int idx] =>
      if ¬ validUtf8 alpha then .skipUtf8
      else if alpha.isEmpty ∨ len < 0 ∨ len > 64 ∨ idx < 0 then .badArg
      else
        let n := alpha.length
        let (buf, rest) := (List.range len.toNat).foldl
          (fun (acc : Bytes × Nat) _ => (alpha.getD (acc.2 % n) 0 :: acc.1, acc.2 / n)) ([], idx.toNat)
        if rest ≠ 0 then .badArg
        else if ¬ validUtf8 buf then .skipUtf8
        else (match Spec.munch buf with | .ok fs => .ok [.str (fieldsStr fs)] | .error e => .err e)
    | _ => .badOp
  | "F.format" => some fun
    | [ty, n, p, .int cap] => withTy ty fun ty => recv ty n fun n => text p fun p =>
        if cap ≥ 0 then .badOp else
        (match Spec.formatSpec ty n p with | .ok t => .ok [.bytes t] | .error e => .err e)
    | _ => .badOp
  | "F.display" => some fun
    | [ty, n, p] => withTy ty fun ty => recv ty n fun n => text p fun p =>
        (match Spec.formatSpec ty n p with | .ok t => .ok [.bytes t] | .error e => .err e)
    | _ => .badOp
  | "D.trunc" => some fun | [u, n] => withUnit u (fun u => recv .D n fun n => chkInt (Spec.truncDate u n)) | _ => .badOp
  | "D.round" => some fun | [u, n] => withUnit u (fun u => recv .D n fun n => chkInt (Spec.roundDate u n)) | _ => .badOp
  | "TS.trunc" => some fun | [u, n] => withUnit u (fun u => recv .TS n fun n => chkInt (Spec.truncTs u n)) | _ => .badOp
  | "TS.round" => some fun | [u, n] => withUnit u (fun u => recv .TS n fun n => chkInt (Spec.roundTs u n)) | _ => .badOp
  | "OD.trunc" => some fun | [u, n] => withUnit u (fun u => recv .OD n fun n => chkInt (Spec.truncTs u n)) | _ => .badOp
  | "OD.round" => some fun | [u, n] => withUnit u (fun u => recv .OD n fun n => chkInt (Spec.roundTs u n)) | _ => .badOp
  | "D.extract" => some fun | [n] => recv .D n fun n => let (y, m, d) := Spec.civil n; .ok [.int y, .int m, .int d] | _ => .badOp
  | "D.dow" => some fun | [n] => recv .D n fun n => okInt (Spec.weekday n + 1) | _ => .badOp
  | "D.try_from_ymd" => some fun | [y, m, d] => i32 y fun y => u32 m fun m => u32 d fun d =>
      (if y < 1 ∨ y > 9999 then .err .DateOutOfRange else if m < 1 ∨ m > 12 then .err .InvalidMonth
       else if d < 1 ∨ d > 31 then .err .InvalidDay else if d > Spec.dim y m then .err .InvalidDate
       else okInt (Spec.dayNumber y m d)) | _ => .badOp
  | "D.last_day" => some fun | [n] => recv .D n fun n => let (y, m, _) := Spec.civil n; okInt (Spec.dayNumber y m (Spec.dim y m)) | _ => .badOp
  | "R.read" => some readOp
  | "S.ser_str" => some fun
    | [ty, n] => withTy ty fun ty => recv ty n fun n =>
        (match Spec.formatSpec ty n (Serde.picture ty) with | .ok t => .ok [.bytes t] | .error _ => .err .Serde)
    | _ => .badOp
  | _ => none

/-- The operation table: name → handler. -/
def handler (spec : Bool) (name : String) : Option (List Arg → Res) :=
  if spec then specHandler name else
  match name with
  -- Date
  | "D.try_from_ymd" => some fun | [y, m, d] => i32 y fun y => u32 m fun m => u32 d fun d => chkInt (Date.tryFromYmd y m d) | _ => .badOp
  | "D.is_valid" => some fun | [y, m, d] => i32 y fun y => u32 m fun m => u32 d fun d => okBool (Date.isValid y m d) | _ => .badOp
  | "D.try_from_days" => some fun | [k] => i32 k fun k => chkInt (Date.tryFromDays k) | _ => .badOp
  | "D.extract" => some fun | [n] => recv .D n fun n => let (y, m, d) := Date.extract n; .ok [.int y, .int m, .int d] | _ => .badOp
  | "D.dow" => some fun | [n] => recv .D n fun n => okInt (Date.dayOfWeek n) | _ => .badOp
  | "D.and_hms" => some fun | [n, h, mi, s, us] => recv .D n fun n => u32 h fun h => u32 mi fun mi => u32 s fun s => u32 us fun us => chkInt (Timestamp.andHms n h mi s us) | _ => .badOp
  | "D.and_time" => some fun | [n, t] => recv .D n fun n => recv .T t fun t => okInt (Timestamp.new n t) | _ => .badOp
  | "D.add_days" => some fun | [n, k] => recv .D n fun n => i32 k fun k => chkInt (Date.addDays n k) | _ => .badOp
  | "D.sub_days" => some fun | [n, k] => recv .D n fun n => i32 k fun k => chkInt (Date.subDays n k) | _ => .badOp
  | "D.sub_date" => some fun | [a, b] => recv .D a fun a => recv .D b fun b => okInt (Date.subDate a b) | _ => .badOp
  | "D.add_ym" => some fun | [n, i] => recv .D n fun n => recv .YM i fun i => chkInt (do let d ← Date.addIntervalYmInternal n i; pure (Timestamp.new d 0)) | _ => .badOp
  | "D.sub_ym" => some fun | [n, i] => recv .D n fun n => recv .YM i fun i => chkInt (do let d ← Date.addIntervalYmInternal n (IntervalYM.negate i); pure (Timestamp.new d 0)) | _ => .badOp
  | "D.add_dt" => some fun | [n, i] => recv .D n fun n => recv .DT i fun i => chkInt (Timestamp.addIntervalDt (Timestamp.new n 0) i) | _ => .badOp
  | "D.sub_dt" => some fun | [n, i] => recv .D n fun n => recv .DT i fun i => chkInt (Timestamp.subIntervalDt (Timestamp.new n 0) i) | _ => .badOp
  | "D.add_time" => some fun | [n, t] => recv .D n fun n => recv .T t fun t => okInt (Timestamp.new n t) | _ => .badOp
  | "D.sub_time" => some fun | [n, t] => recv .D n fun n => recv .T t fun t => chkInt (Timestamp.subTime (Timestamp.new n 0) t) | _ => .badOp
  | "D.sub_ts" => some fun | [n, ts] => recv .D n fun n => recv .TS ts fun ts => okInt (Timestamp.subTimestamp (Timestamp.new n 0) ts) | _ => .badOp
  | "D.last_day" => some fun | [n] => recv .D n fun n => okInt (Date.lastDayOfMonth n) | _ => .badOp
  | "D.trunc" => some fun | [u, n] => withUnit u (fun u => recv .D n fun n => chkInt (Date.trunc u n)) | _ => .badOp
  | "D.round" => some fun | [u, n] => withUnit u (fun u => recv .D n fun n => chkInt (Date.round u n)) | _ => .badOp
  | "D.acc" => some fun | [n] => recv .D n fun n => acc .D n | _ => .badOp
  | "D.cmp_TS" => some fun | [n, ts] => recv .D n fun n => recv .TS ts fun ts => cmpRes (Timestamp.new n 0) ts | _ => .badOp
  | "D.cmp_OD" => some fun | [n, od] => recv .D n fun n => recv .OD od fun od => cmpRes (Timestamp.new n 0) od | _ => .badOp
  | "D.cmp" => some fun | [a, b] => recv .D a fun a => recv .D b fun b => cmpRes a b | _ => .badOp
  | "D.now" => some fun as => clockOf as fun c => chkInt (Date.now c)
  | "D.to_TS" => some fun | [n] => recv .D n fun n => okInt (Timestamp.new n 0) | _ => .badOp
  -- Time
  | "T.try_from_hms" => some fun | [h, mi, s, us] => u32 h fun h => u32 mi fun mi => u32 s fun s => u32 us fun us => chkInt (Time.tryFromHms h mi s us) | _ => .badOp
  | "T.is_valid" => some fun | [h, mi, s, us] => u32 h fun h => u32 mi fun mi => u32 s fun s => u32 us fun us => okBool (Time.isValid h mi s us) | _ => .badOp
  | "T.try_from_usecs" => some fun | [k] => i64 k fun k => chkInt (Time.tryFromUsecs k) | _ => .badOp
  | "T.extract" => some fun | [t] => recv .T t fun t => let (h, mi, s, us) := Time.extract t; .ok [.int h, .int mi, .int s, .int us] | _ => .badOp
  | "T.sub_time" => some fun | [a, b] => recv .T a fun a => recv .T b fun b => okInt (Time.subTime a b) | _ => .badOp
  | "T.add_dt" => some fun | [t, i] => recv .T t fun t => recv .DT i fun i => okInt (Time.addIntervalDt t i) | _ => .badOp
  | "T.sub_dt" => some fun | [t, i] => recv .T t fun t => recv .DT i fun i => okInt (Time.subIntervalDt t i) | _ => .badOp
  | "T.mul_f64" => some fun | [t, x] => recv .T t fun t => f64 x fun x => chkInt (IntervalDT.mulF64 t x) | _ => .badOp
  | "T.div_f64" => some fun | [t, x] => recv .T t fun t => f64 x fun x => chkInt (IntervalDT.divF64 t x) | _ => .badOp
  | "T.acc" => some fun | [t] => recv .T t fun t => acc .T t | _ => .badOp
  | "T.from_TS" => some fun | [ts] => recv .TS ts fun ts => okInt (Timestamp.time ts) | _ => .badOp
  | "T.from_DT" => some fun | [i] => recv .DT i fun i => okInt (Time.fromIntervalDt i) | _ => .badOp
  | "T.from_OD" => some fun | [od] => recv .OD od fun od => okInt (Timestamp.time od) | _ => .badOp
  | "T.cmp_DT" => some fun | [t, i] => recv .T t fun t => recv .DT i fun i => cmpRes t i | _ => .badOp
  | "T.cmp" => some fun | [a, b] => recv .T a fun a => recv .T b fun b => cmpRes a b | _ => .badOp
  -- Timestamp
  | "TS.new" => some fun | [d, t] => recv .D d fun d => recv .T t fun t => okInt (Timestamp.new d t) | _ => .badOp
  | "TS.extract" => some fun | [ts] => recv .TS ts fun ts => let (d, t) := Timestamp.extract ts; .ok [.int d, .int t] | _ => .badOp
  | "TS.try_from_usecs" => some fun | [k] => i64 k fun k => chkInt (Timestamp.tryFromUsecs k) | _ => .badOp
  | "TS.add_dt" => some fun | [ts, i] => recv .TS ts fun ts => recv .DT i fun i => chkInt (Timestamp.addIntervalDt ts i) | _ => .badOp
  | "TS.sub_dt" => some fun | [ts, i] => recv .TS ts fun ts => recv .DT i fun i => chkInt (Timestamp.subIntervalDt ts i) | _ => .badOp
  | "TS.add_ym" => some fun | [ts, i] => recv .TS ts fun ts => recv .YM i fun i => chkInt (Timestamp.addIntervalYm ts i) | _ => .badOp
  | "TS.sub_ym" => some fun | [ts, i] => recv .TS ts fun ts => recv .YM i fun i => chkInt (Timestamp.subIntervalYm ts i) | _ => .badOp
  | "TS.add_time" => some fun | [ts, t] => recv .TS ts fun ts => recv .T t fun t => chkInt (Timestamp.addTime ts t) | _ => .badOp
  | "TS.sub_time" => some fun | [ts, t] => recv .TS ts fun ts => recv .T t fun t => chkInt (Timestamp.subTime ts t) | _ => .badOp
  | "TS.add_days" => some fun | [ts, x] => recv .TS ts fun ts => f64 x fun x => chkInt (Timestamp.addDays ts x) | _ => .badOp
  | "TS.sub_days" => some fun | [ts, x] => recv .TS ts fun ts => f64 x fun x => chkInt (Timestamp.subDays ts x) | _ => .badOp
  | "TS.sub_date" => some fun | [ts, d] => recv .TS ts fun ts => recv .D d fun d => okInt (Timestamp.subDate ts d) | _ => .badOp
  | "TS.sub_ts" => some fun | [a, b] => recv .TS a fun a => recv .TS b fun b => okInt (Timestamp.subTimestamp a b) | _ => .badOp
  | "TS.last_day" => some fun | [ts] => recv .TS ts fun ts => okInt (Timestamp.lastDayOfMonth ts) | _ => .badOp
  | "TS.trunc" => some fun | [u, n] => withUnit u (fun u => recv .TS n fun n => chkInt (Timestamp.trunc u n)) | _ => .badOp
  | "TS.round" => some fun | [u, n] => withUnit u (fun u => recv .TS n fun n => chkInt (Timestamp.round u n)) | _ => .badOp
  | "TS.acc" => some fun | [ts] => recv .TS ts fun ts => acc .TS ts | _ => .badOp
  | "TS.cmp_D" => some fun | [ts, d] => recv .TS ts fun ts => recv .D d fun d => cmpRes ts (Timestamp.new d 0) | _ => .badOp
  | "TS.cmp_OD" => some fun | [ts, od] => recv .TS ts fun ts => recv .OD od fun od => cmpRes ts od | _ => .badOp
  | "TS.cmp" => some fun | [a, b] => recv .TS a fun a => recv .TS b fun b => cmpRes a b | _ => .badOp
  | "TS.now" => some fun as => clockOf as fun c => chkInt (Timestamp.now c)
  | "TS.from_T" => some fun | t :: c => recv .T t fun t => clockOf c fun c => chkInt (Timestamp.fromTime t c) | _ => .badOp
  | "TS.oracle_sub_date" => some fun | [ts, od] => recv .TS ts fun ts => recv .OD od fun od => okInt (Timestamp.subTimestamp ts od) | _ => .badOp
  | "TS.oracle_add_days" => some fun | [ts, x] => recv .TS ts fun ts => f64 x fun x => chkInt (OracleDate.addDays (OracleDate.fromTimestamp ts) x) | _ => .badOp
  | "TS.oracle_sub_days" => some fun | [ts, x] => recv .TS ts fun ts => f64 x fun x => chkInt (OracleDate.addDays (OracleDate.fromTimestamp ts) (F64.neg x)) | _ => .badOp
  -- IntervalYM
  | "YM.try_from_ym" => some fun | [y, m] => u32 y fun y => u32 m fun m => chkInt (IntervalYM.tryFromYm y m) | _ => .badOp
  | "YM.is_valid_ym" => some fun | [y, m] => u32 y fun y => u32 m fun m => okBool (IntervalYM.isValidYm y m) | _ => .badOp
  | "YM.try_from_months" => some fun | [k] => i32 k fun k => chkInt (IntervalYM.tryFromMonths k) | _ => .badOp
  | "YM.extract" => some fun | [i] => recv .YM i fun i => let (s, y, m) := IntervalYM.extract i; .ok [.int s, .int y, .int m] | _ => .badOp
  | "YM.add_ym" => some fun | [a, b] => recv .YM a fun a => recv .YM b fun b => chkInt (IntervalYM.addIntervalYm a b) | _ => .badOp
  | "YM.sub_ym" => some fun | [a, b] => recv .YM a fun a => recv .YM b fun b => chkInt (IntervalYM.subIntervalYm a b) | _ => .badOp
  | "YM.mul_f64" => some fun | [i, x] => recv .YM i fun i => f64 x fun x => chkInt (IntervalYM.mulF64 i x) | _ => .badOp
  | "YM.div_f64" => some fun | [i, x] => recv .YM i fun i => f64 x fun x => chkInt (IntervalYM.divF64 i x) | _ => .badOp
  | "YM.neg" => some fun | [i] => recv .YM i fun i => okInt (IntervalYM.negate i) | _ => .badOp
  | "YM.acc" => some fun | [i] => recv .YM i fun i => acc .YM i | _ => .badOp
  | "YM.cmp" => some fun | [a, b] => recv .YM a fun a => recv .YM b fun b => cmpRes a b | _ => .badOp
  -- IntervalDT
  | "DT.try_from_dhms" => some fun | [d, h, mi, s, us] => u32 d fun d => u32 h fun h => u32 mi fun mi => u32 s fun s => u32 us fun us => chkInt (IntervalDT.tryFromDhms d h mi s us) | _ => .badOp
  | "DT.is_valid" => some fun | [d, h, mi, s, us] => u32 d fun d => u32 h fun h => u32 mi fun mi => u32 s fun s => u32 us fun us => okBool (IntervalDT.isValid d h mi s us) | _ => .badOp
  | "DT.try_from_usecs" => some fun | [k] => i64 k fun k => chkInt (IntervalDT.tryFromUsecs k) | _ => .badOp
  | "DT.extract" => some fun | [i] => recv .DT i fun i => let (sg, d, h, mi, s, us) := IntervalDT.extract i; .ok [.int sg, .int d, .int h, .int mi, .int s, .int us] | _ => .badOp
  | "DT.add_dt" => some fun | [a, b] => recv .DT a fun a => recv .DT b fun b => chkInt (IntervalDT.addIntervalDt a b) | _ => .badOp
  | "DT.sub_dt" => some fun | [a, b] => recv .DT a fun a => recv .DT b fun b => chkInt (IntervalDT.subIntervalDt a b) | _ => .badOp
  | "DT.mul_f64" => some fun | [i, x] => recv .DT i fun i => f64 x fun x => chkInt (IntervalDT.mulF64 i x) | _ => .badOp
  | "DT.div_f64" => some fun | [i, x] => recv .DT i fun i => f64 x fun x => chkInt (IntervalDT.divF64 i x) | _ => .badOp
  | "DT.sub_time" => some fun | [i, t] => recv .DT i fun i => recv .T t fun t => chkInt (IntervalDT.subTime i t) | _ => .badOp
  | "DT.neg" => some fun | [i] => recv .DT i fun i => okInt (IntervalDT.negate i) | _ => .badOp
  | "DT.acc" => some fun | [i] => recv .DT i fun i => acc .DT i | _ => .badOp
  | "DT.from_T" => some fun | [t] => recv .T t fun t => okInt t | _ => .badOp
  | "DT.cmp_T" => some fun | [i, t] => recv .DT i fun i => recv .T t fun t => cmpRes i t | _ => .badOp
  | "DT.cmp" => some fun | [a, b] => recv .DT a fun a => recv .DT b fun b => cmpRes a b | _ => .badOp
  -- OracleDate
  | "OD.new" => some fun | [d, t] => recv .D d fun d => recv .T t fun t => okInt (OracleDate.new d t) | _ => .badOp
  | "OD.extract" => some fun | [od] => recv .OD od fun od => let (d, t) := Timestamp.extract od; .ok [.int d, .int t] | _ => .badOp
  | "OD.try_from_usecs" => some fun | [k] => i64 k fun k => chkInt (OracleDate.tryFromUsecs k) | _ => .badOp
  | "OD.add_dt" => some fun | [od, i] => recv .OD od fun od => recv .DT i fun i => chkInt (OracleDate.addIntervalDt od i) | _ => .badOp
  | "OD.sub_dt" => some fun | [od, i] => recv .OD od fun od => recv .DT i fun i => chkInt (OracleDate.subIntervalDt od i) | _ => .badOp
  | "OD.add_ym" => some fun | [od, i] => recv .OD od fun od => recv .YM i fun i => chkInt (OracleDate.addIntervalYm od i) | _ => .badOp
  | "OD.sub_ym" => some fun | [od, i] => recv .OD od fun od => recv .YM i fun i => chkInt (OracleDate.subIntervalYm od i) | _ => .badOp
  | "OD.add_time" => some fun | [od, t] => recv .OD od fun od => recv .T t fun t => chkInt (Timestamp.addTime od t) | _ => .badOp
  | "OD.sub_time" => some fun | [od, t] => recv .OD od fun od => recv .T t fun t => chkInt (Timestamp.subTime od t) | _ => .badOp
  | "OD.add_days" => some fun | [od, x] => recv .OD od fun od => f64 x fun x => chkInt (OracleDate.addDays od x) | _ => .badOp
  | "OD.sub_days" => some fun | [od, x] => recv .OD od fun od => f64 x fun x => chkInt (OracleDate.subDays od x) | _ => .badOp
  | "OD.sub_date" => some fun | [a, b] => recv .OD a fun a => recv .OD b fun b => .ok [.f64 (OracleDate.subDate a b)] | _ => .badOp
  | "OD.sub_ts" => some fun | [od, ts] => recv .OD od fun od => recv .TS ts fun ts => okInt (Timestamp.subTimestamp od ts) | _ => .badOp
  | "OD.last_day" => some fun | [od] => recv .OD od fun od => okInt (OracleDate.lastDayOfMonth od) | _ => .badOp
  | "OD.trunc" => some fun | [u, n] => withUnit u (fun u => recv .OD n fun n => chkInt (OracleDate.trunc u n)) | _ => .badOp
  | "OD.round" => some fun | [u, n] => withUnit u (fun u => recv .OD n fun n => chkInt (OracleDate.round u n)) | _ => .badOp
  | "OD.acc" => some fun | [od] => recv .OD od fun od => acc .OD od | _ => .badOp
  | "OD.from_TS" => some fun | [ts] => recv .TS ts fun ts => okInt (OracleDate.fromTimestamp ts) | _ => .badOp
  | "OD.to_TS" => some fun | [od] => recv .OD od fun od => okInt od | _ => .badOp
  | "OD.from_T" => some fun | t :: c => recv .T t fun t => clockOf c fun c => chkInt (OracleDate.fromTime t c) | _ => .badOp
  | "OD.now" => some fun as => clockOf as fun c => chkInt (OracleDate.now c)
  | "OD.cmp_TS" => some fun | [od, ts] => recv .OD od fun od => recv .TS ts fun ts => cmpRes od ts | _ => .badOp
  | "OD.cmp_D" => some fun | [od, d] => recv .OD od fun od => recv .D d fun d => cmpRes od (Timestamp.new d 0) | _ => .badOp
  | "OD.cmp" => some fun | [a, b] => recv .OD a fun a => recv .OD b fun b => cmpRes a b | _ => .badOp
  -- Formatter
  | "F.try_new" => some fun | [p] => text p fun p => (match Lexer.tryNew p with | .ok fs => .ok [.str (fieldsStr fs)] | .error e => .err e) | _ => .badOp
  | "F.try_new_idx" => some fun
    | [.bytes alpha, .int len, .int idx] =>
      if ¬ validUtf8 alpha then .skipUtf8
      else if alpha.isEmpty ∨ len < 0 ∨ len > 64 ∨ idx < 0 then .badArg
      else
        let n := alpha.length
        let (buf, rest) := (List.range len.toNat).foldl
          (fun (acc : Bytes × Nat) _ => (alpha.getD (acc.2 % n) 0 :: acc.1, acc.2 / n)) ([], idx.toNat)
        if rest ≠ 0 then .badArg
        else if ¬ validUtf8 buf then .skipUtf8
        else (match Lexer.tryNew buf with | .ok fs => .ok [.str (fieldsStr fs)] | .error e => .err e)
    | _ => .badOp
  | "F.roundtrip" => some fun
    | ty :: n :: p :: c => withTy ty fun ty => recv ty n fun n => text p fun p => clockOf c fun c =>
        (match Lexer.tryNew p with
         | .error e => .err e
         | .ok fields =>
           match Formatter.format ty n fields none with
           | .error e => .err e
           | .ok t =>
             match Parser.parse ty fields t c with
             | .error e => .ok [.bytes t, .str "parse", .str (resStr (.err e))]
             | .ok (v2, reads) =>
               match Formatter.format ty v2 fields none with
               | .error e => .ok [.bytes t, .int v2, .int reads, .str "format", .str (resStr (.err e))]
               | .ok t2 => .ok [.bytes t, .int v2, .int reads, .bytes t2])
    | _ => .badOp
  | "F.format" => some fun
    | [ty, n, p, .int cap] => withTy ty fun ty => recv ty n fun n => text p fun p =>
        (match formatValue ty n p (if cap < 0 then none else some cap.toNat) with | .ok t => .ok [.bytes t] | .error e => .err e)
    | _ => .badOp
  | "F.display" => some fun
    | [ty, n, p] => withTy ty fun ty => recv ty n fun n => text p fun p =>
        (match formatValue ty n p none with | .ok t => .ok [.bytes t] | .error e => .err e)
    | _ => .badOp
  | "F.parse" | "F.parse_t" => some fun
    | ty :: t :: p :: c => withTy ty fun ty => text t fun t => text p fun p => clockOf c fun c =>
        (match parseValue ty t p c with | .ok (v, reads) => .ok [.int v, .int reads] | .error e => .err e)
    | _ => .badOp
  | "K.consts" => some fun
    | [] => .ok [.int DATE_MIN_DAYS, .int DATE_MAX_DAYS, .int 0, .int (Gen.USECONDS_PER_DAY - 1), .int TIMESTAMP_MIN, .int TIMESTAMP_MAX,
                 .int (-Gen.INTERVAL_MAX_MONTH), .int 0, .int Gen.INTERVAL_MAX_MONTH,
                 .int (-Gen.INTERVAL_MAX_USECONDS), .int 0, .int Gen.INTERVAL_MAX_USECONDS,
                 .int TIMESTAMP_MIN, .int OracleDate.MAX]
    | _ => .badOp
  | "F.parse2" => some fun
    | [ty, t, p, a1, a2, a3, a4, a5, a6, a7, b1, b2, b3, b4, b5, b6, b7] =>
      withTy ty fun ty => text t fun t => text p fun p => clockOf [a1, a2, a3, a4, a5, a6, a7] fun _ =>
        clockOf [b1, b2, b3, b4, b5, b6, b7] fun c =>
        (match parseValue ty t p c with | .ok (v, reads) => .ok [.int v, .int reads] | .error e => .err e)
    | _ => .badOp
  -- serde
  | "S.ser_str" => some fun
    | [ty, n] => withTy ty fun ty => recv ty n fun n =>
        (match Serde.serStr ty n with | .ok t => .ok [.bytes t] | .error e => .err e)
    | _ => .badOp
  | "S.de_str" => some fun
    | [ty, t] => withTy ty fun ty => text t fun t => chkInt (Serde.deStr ty t dummyClock)
    | _ => .badOp
  | "S.ser_bin" => some fun
    | [ty, n] => withTy ty fun ty => recv ty n fun n => okInt (Serde.serBin ty n)
    | _ => .badOp
  | "S.de_bin" => some fun
    | [ty, .int k] => withTy ty fun ty =>
        let fits := match ty with | .D | .YM => decide (fitsI32 k) | _ => decide (fitsI64 k)
        if fits then chkInt (Serde.deBin ty k) else .badArg
    | _ => .badOp
  -- f64
  | "f64.mul" => some fun | [x, y] => f64 x fun x => f64 y fun y => .ok [.f64 (F64.mul x y)] | _ => .badOp
  | "f64.div" => some fun | [x, y] => f64 x fun x => f64 y fun y => .ok [.f64 (F64.div x y)] | _ => .badOp
  | "f64.of_i64" => some fun | [k] => i64 k fun k => .ok [.f64 (F64.ofInt k)] | _ => .badOp
  | "f64.round" => some fun | [x] => f64 x fun x => .ok [.f64 (F64.roundHalfAway x)] | _ => .badOp
  | "f64.neg" => some fun | [x] => f64 x fun x => .ok [.f64 (F64.neg x)] | _ => .badOp
  | "f64.to_i64" => some fun | [x] => f64 x fun x => okInt (F64.toI64 x) | _ => .badOp
  | "f64.to_i32" => some fun | [x] => f64 x fun x => okInt (F64.toI32 x) | _ => .badOp
  | "f64.to_u32" => some fun | [x] => f64 x fun x => okInt (F64.toU32 x) | _ => .badOp
  | "f64.is" => some fun | [x] => f64 x fun x => .ok [.int (boolToInt x.isNan), .int (boolToInt x.isInfinite), .int (boolToInt x.isZero)] | _ => .badOp
  | _ => none

/-! ### main loop -/

def FNV_OFFSET : UInt64 := 0xcbf29ce484222325
def FNV_PRIME : UInt64 := 0x100000001b3

def fnvStr (h : UInt64) (s : String) : UInt64 :=
  let h := s.toUTF8.foldl (fun h b => (h ^^^ b.toUInt64) * FNV_PRIME) h
  (h ^^^ 10) * FNV_PRIME

def substPct (as : List Arg) (i : Int) : List Arg :=
  as.map fun a => match a with | .pct => .int i | a => a

def runOp (spec : Bool) (words : List String) : String :=
  match words with
  | [] => "bad-op"
  | name :: rest =>
    match handler spec name with
    | none => "bad-op"
    | some h =>
      match rest.mapM parseArg with
      | none => "bad-op"
      | some as => resStr (h as)

partial def rangeLoop (out : IO.FS.Stream) (h : List Arg → Res) (as : List Arg) (hi step blk : Int)
    (i first count : Int) (hash : UInt64) : IO Unit := do
  if i > hi then
    if count > 0 then out.putStrLn s!"#blk {first} {count} {hex16 hash.toNat}"
    return ()
  let line := resStr (h (substPct as i))
  let hash := fnvStr hash line
  let count := count + 1
  if count ≥ blk then
    out.putStrLn s!"#blk {first} {count} {hex16 hash.toNat}"
    rangeLoop out h as hi step blk (i + step) (i + step) 0 FNV_OFFSET
  else
    rangeLoop out h as hi step blk (i + step) first count hash

def runRange (spec : Bool) (out : IO.FS.Stream) (words : List String) : IO Unit := do
  match words with
  | lo :: hi :: step :: blk :: name :: rest =>
    match lo.toInt?, hi.toInt?, step.toInt?, blk.toInt?, handler spec name, rest.mapM parseArg with
    | some lo, some hi, some step, some blk, some h, some as =>
      if step ≤ 0 ∨ blk ≤ 0 then out.putStrLn "bad-op"
      else rangeLoop out h as hi step blk lo lo 0 FNV_OFFSET
    | _, _, _, _, _, _ => out.putStrLn "bad-op"
  | _ => out.putStrLn "bad-op"

partial def loop (spec : Bool) (inp out : IO.FS.Stream) : IO Unit := do
  let line ← inp.getLine
  if line.isEmpty then return ()
  let l := (line.dropEndWhile fun c => c == '\n' || c == '\r').toString
  if l.isEmpty || l.startsWith "#" then
    out.putStrLn l
  else
    let words := l.splitOn " "
    match words with
    | "@range" :: rest => runRange spec out rest
    | _ => out.putStrLn (runOp spec words)
  loop spec inp out

end Drv

def main (args : List String) : IO Unit := do
  let spec := args.contains "--spec"
  let inp ← IO.getStdin
  let out ← IO.getStdout
  Drv.loop spec inp out
  out.flush
