/- Everything added for the "denoted value" specification of the picture parser (C05) and the lossless round trip (C06):
   `lake build SqlDt.ReadingAll` checks the specification, its examples and all proofs. -/
import SqlDt.Spec.Reading
import SqlDt.Spec.Lossless
import SqlDt.Spec.ReadingExamples
import SqlDt.Lemmas.ReadingMain
import SqlDt.Lemmas.ReadingRoundTrip
import SqlDt.Lemmas.ReadingExamples
