/-
  GENERATED FILE - do not edit.  Written by tools/rs2lean.py from <repo>/src/*.rs on every run.
  Each definition is the mechanical translation of the Rust body named in its doc comment
  (unbounded `Int` arithmetic; `rdiv`/`rrem` = Rust's signed `/` `%`; `as` casts wrap).
  `-- UNTRANSLATED` definitions are aliases of the hand-written model (see TranslatedStatus.json).
-/
import SqlDt.Generated
import SqlDt.Model.Basic
import SqlDt.Model.F64     -- the model's soft-float (core Lean, imports Model.Basic only)
import SqlDt.Model.Format  -- only for the structure `NDT` that `format::NaiveDateTime` is mapped onto
set_option linter.unusedVariables false
namespace SqlDt.Tr
open SqlDt SqlDt.Gen

/-! ### Helpers of the translation (machine-integer operations the model has no name for) -/

/-- `x as i8/i16/i64/u16/u64(usize)`: two's complement wrap. -/
def asI8 (x : Int) : Int := let r := x % 256; if r ≥ 128 then r - 256 else r
def asI16 (x : Int) : Int := let r := x % 65536; if r ≥ 32768 then r - 65536 else r
def asI64 (x : Int) : Int :=
  let r := x % 18446744073709551616
  if r ≥ 9223372036854775808 then r - 18446744073709551616 else r
def asU16 (x : Int) : Int := x % 65536
def asU64 (x : Int) : Int := x % 18446744073709551616

/-- `i32::abs` / `i64::abs` with release-mode wrapping: `MIN.abs() = MIN`. -/
def absI32 (x : Int) : Int := if x = -2147483648 then x else if x < 0 then -x else x
def absI64 (x : Int) : Int := if x = -9223372036854775808 then x else if x < 0 then -x else x
def absI (x : Int) : Int := if x < 0 then -x else x
/-- `unsigned_abs` (never overflows). -/
def uabs (x : Int) : Int := if x < 0 then -x else x
def signum (x : Int) : Int := if x < 0 then -1 else if x = 0 then 0 else 1
def checkedU32 (x : Int) : Option Int := if 0 ≤ x ∧ x ≤ 4294967295 then some x else none
def checkedU64 (x : Int) : Option Int := if 0 ≤ x ∧ x ≤ 18446744073709551615 then some x else none
def fitsI8 (x : Int) : Prop := -128 ≤ x ∧ x ≤ 127
def fitsI16 (x : Int) : Prop := -32768 ≤ x ∧ x ≤ 32767
def fitsU8 (x : Int) : Prop := 0 ≤ x ∧ x ≤ 255
def fitsU16 (x : Int) : Prop := 0 ≤ x ∧ x ≤ 65535
/-- `u64` and (on the 64-bit targets the crate is built for) `usize`. -/
def fitsU64 (x : Int) : Prop := 0 ≤ x ∧ x ≤ 18446744073709551615
instance (x : Int) : Decidable (fitsI8 x) := by unfold fitsI8; exact inferInstance
instance (x : Int) : Decidable (fitsI16 x) := by unfold fitsI16; exact inferInstance
instance (x : Int) : Decidable (fitsU8 x) := by unfold fitsU8; exact inferInstance
instance (x : Int) : Decidable (fitsU16 x) := by unfold fitsU16; exact inferInstance
instance (x : Int) : Decidable (fitsU64 x) := by unfold fitsU64; exact inferInstance
/-- `Ord::cmp` on integers, as the discriminant of `std::cmp::Ordering` (Less = -1, Equal = 0, Greater = 1). -/
def cmpInt (a b : Int) : Int := if a < b then -1 else if a = b then 0 else 1

/-- `common.rs::date2julian` (common.rs:38), body sha1 6583629bd642 -/
def date2julian (year : Int) (month : Int) (day : Int) : Int :=
  -- common.rs:39: let (y, m) = if month > 2 {
  let y_m : Int × Int := if month > 2 then (year + 4800, month + 1) else (year + 4799, month + 13)
  let y : Int := y_m.1
  let m : Int := y_m.2
  -- common.rs:45: let century = y / 100;
  let century : Int := rdiv y 100
  -- common.rs:47: let mut julian = y * 365 - 32167;
  let julian : Int := y * 365 - 32167
  -- common.rs:48: julian += y / 4 - century + century / 4;
  let julian : Int := julian + (rdiv y 4 - century + rdiv century 4)
  -- common.rs:49: julian += 7834 * m as i32 / 256 + day as i32;
  let julian : Int := julian + (rdiv (7834 * asI32 m) 256 + asI32 day)
  julian

/-- No arithmetic node of `common.rs::date2julian` leaves its Rust integer type, no division by zero, no index out of range
    (path-sensitive; calls contribute the callee's predicate). -/
def date2julian_safe (year : Int) (month : Int) (day : Int) : Prop :=
  (month > 2 → fitsI32 (year + 4800) ∧ fitsU32 (month + 1)) ∧
  (¬ month > 2 → fitsI32 (year + 4799) ∧ fitsU32 (month + 13)) ∧
  let y_m : Int × Int := if month > 2 then (year + 4800, month + 1) else (year + 4799, month + 13)
  let y : Int := y_m.1
  let m : Int := y_m.2
  let century : Int := rdiv y 100
  fitsI32 (y * 365) ∧
  fitsI32 (y * 365 - 32167) ∧
  let julian : Int := y * 365 - 32167
  fitsI32 (rdiv y 4 - century) ∧
  fitsI32 (rdiv y 4 - century + rdiv century 4) ∧
  fitsI32 (julian + (rdiv y 4 - century + rdiv century 4)) ∧
  let julian : Int := julian + (rdiv y 4 - century + rdiv century 4)
  fitsI32 (7834 * asI32 m) ∧
  fitsI32 (rdiv (7834 * asI32 m) 256 + asI32 day) ∧
  fitsI32 (julian + (rdiv (7834 * asI32 m) 256 + asI32 day))

/-- `common.rs::julian2date` (common.rs:56), body sha1 d5169557e5c5 -/
def julian2date (julian_day : Int) : Int × Int × Int :=
  -- common.rs:57: let mut julian = julian_day as u32 + 32044;
  let julian : Int := asU32 julian_day + 32044
  -- common.rs:58: let mut quad = julian / 146097;
  let quad : Int := julian / 146097
  -- common.rs:59: let extra = (julian - quad * 146097) * 4 + 3;
  let extra : Int := (julian - quad * 146097) * 4 + 3
  -- common.rs:60: julian += 60 + quad * 3 + extra / 146097;
  let julian : Int := julian + (60 + quad * 3 + extra / 146097)
  -- common.rs:61: quad = julian / 1461;
  let quad : Int := julian / 1461
  -- common.rs:62: julian -= quad * 1461;
  let julian : Int := julian - quad * 1461
  -- common.rs:64: let mut y: i32 = (julian * 4 / 1461) as i32;
  let y : Int := asI32 (julian * 4 / 1461)
  -- common.rs:65: julian = if y != 0 {
  let julian : Int := if y ≠ 0 then (julian + 305) % 365 + 123 else (julian + 306) % 366 + 123
  -- common.rs:70: y += (quad * 4) as i32;
  let y : Int := y + asI32 (quad * 4)
  -- common.rs:71: let year = y - 4800;
  let year : Int := y - 4800
  -- common.rs:72: quad = julian * 2141 / 65_536;
  let quad : Int := julian * 2141 / 65536
  -- common.rs:74: let day = julian - 7834 * quad / 256;
  let day : Int := julian - 7834 * quad / 256
  -- common.rs:75: let month = (quad + 10) % MONTHS_PER_YEAR as u32 + 1;
  let month : Int := (quad + 10) % MONTHS_PER_YEAR + 1
  (year, month, day)

/-- No arithmetic node of `common.rs::julian2date` leaves its Rust integer type, no division by zero, no index out of range
    (path-sensitive; calls contribute the callee's predicate). -/
def julian2date_safe (julian_day : Int) : Prop :=
  fitsU32 (asU32 julian_day + 32044) ∧
  let julian : Int := asU32 julian_day + 32044
  let quad : Int := julian / 146097
  fitsU32 (quad * 146097) ∧
  fitsU32 (julian - quad * 146097) ∧
  fitsU32 ((julian - quad * 146097) * 4) ∧
  fitsU32 ((julian - quad * 146097) * 4 + 3) ∧
  let extra : Int := (julian - quad * 146097) * 4 + 3
  fitsU32 (quad * 3) ∧
  fitsU32 (60 + quad * 3) ∧
  fitsU32 (60 + quad * 3 + extra / 146097) ∧
  fitsU32 (julian + (60 + quad * 3 + extra / 146097)) ∧
  let julian : Int := julian + (60 + quad * 3 + extra / 146097)
  let quad : Int := julian / 1461
  fitsU32 (quad * 1461) ∧
  fitsU32 (julian - quad * 1461) ∧
  let julian : Int := julian - quad * 1461
  fitsU32 (julian * 4) ∧
  let y : Int := asI32 (julian * 4 / 1461)
  (y ≠ 0 → fitsU32 (julian + 305) ∧ fitsU32 ((julian + 305) % 365 + 123)) ∧
  (¬ y ≠ 0 → fitsU32 (julian + 306) ∧ fitsU32 ((julian + 306) % 366 + 123)) ∧
  let julian : Int := if y ≠ 0 then (julian + 305) % 365 + 123 else (julian + 306) % 366 + 123
  fitsU32 (quad * 4) ∧
  fitsI32 (y + asI32 (quad * 4)) ∧
  let y : Int := y + asI32 (quad * 4)
  fitsI32 (y - 4800) ∧
  let year : Int := y - 4800
  fitsU32 (julian * 2141) ∧
  let quad : Int := julian * 2141 / 65536
  fitsU32 (7834 * quad) ∧
  fitsU32 (julian - 7834 * quad / 256) ∧
  let day : Int := julian - 7834 * quad / 256
  fitsU32 (quad + 10) ∧ fitsU32 ((quad + 10) % MONTHS_PER_YEAR + 1)

/-- `common.rs::is_leap_year` (common.rs:96), body sha1 413b1f1bdff9 -/
def is_leap_year (year : Int) : Bool :=
  decide (rrem year 4 = 0 ∧ (rrem year 100 ≠ 0 ∨ rrem year 400 = 0))

/-- No arithmetic node of `common.rs::is_leap_year` leaves its Rust integer type, no division by zero, no index out of range
    (path-sensitive; calls contribute the callee's predicate). -/
def is_leap_year_safe (year : Int) : Prop :=
  True

/-- `common.rs::DATE_MAX_JULIAN` (common.rs:20), body sha1 3ee690762649 -/
def DATE_MAX_JULIAN : Int :=
  Tr.date2julian DATE_MAX_YEAR 12 31

/-- `common.rs::DATE_MIN_JULIAN` (common.rs:19), body sha1 ebbd574b3f11 -/
def DATE_MIN_JULIAN : Int :=
  Tr.date2julian DATE_MIN_YEAR 1 1

/-- `common.rs::UNIX_EPOCH_JULIAN` (common.rs:17), body sha1 aa3b5ac4bdcf -/
def UNIX_EPOCH_JULIAN : Int :=
  Tr.date2julian 1970 1 1

/-- `common.rs::is_valid_date` (common.rs:81), body sha1 db3f1e7c48c2 -/
def is_valid_date (date : Int) : Bool :=
  decide (date ≥ Tr.DATE_MIN_JULIAN - Tr.UNIX_EPOCH_JULIAN ∧ date ≤ Tr.DATE_MAX_JULIAN - Tr.UNIX_EPOCH_JULIAN)

/-- No arithmetic node of `common.rs::is_valid_date` leaves its Rust integer type, no division by zero, no index out of range
    (path-sensitive; calls contribute the callee's predicate). -/
def is_valid_date_safe (date : Int) : Prop :=
  fitsI32 (Tr.DATE_MIN_JULIAN - Tr.UNIX_EPOCH_JULIAN) ∧
  (date ≥ Tr.DATE_MIN_JULIAN - Tr.UNIX_EPOCH_JULIAN → fitsI32 (Tr.DATE_MAX_JULIAN - Tr.UNIX_EPOCH_JULIAN))

/-- `common.rs::TIMESTAMP_MAX` (common.rs:23), body sha1 f57282fab179 -/
def TIMESTAMP_MAX : Int :=
  (Tr.date2julian 10000 1 1 - Tr.UNIX_EPOCH_JULIAN) * USECONDS_PER_DAY - 1

/-- `common.rs::TIMESTAMP_MIN` (common.rs:22), body sha1 6a04aedc106b -/
def TIMESTAMP_MIN : Int :=
  (Tr.DATE_MIN_JULIAN - Tr.UNIX_EPOCH_JULIAN) * USECONDS_PER_DAY

/-- `common.rs::is_valid_timestamp` (common.rs:86), body sha1 2b96f96f3716 -/
def is_valid_timestamp (timestamp : Int) : Bool :=
  decide (timestamp ≥ Tr.TIMESTAMP_MIN ∧ timestamp ≤ Tr.TIMESTAMP_MAX)

/-- No arithmetic node of `common.rs::is_valid_timestamp` leaves its Rust integer type, no division by zero, no index out of range
    (path-sensitive; calls contribute the callee's predicate). -/
def is_valid_timestamp_safe (timestamp : Int) : Prop :=
  True

/-- `common.rs::is_valid_time` (common.rs:91), body sha1 987484afbf6f -/
def is_valid_time (time : Int) : Bool :=
  decide (time ≥ 0 ∧ time < USECONDS_PER_DAY)

/-- No arithmetic node of `common.rs::is_valid_time` leaves its Rust integer type, no division by zero, no index out of range
    (path-sensitive; calls contribute the callee's predicate). -/
def is_valid_time_safe (time : Int) : Prop :=
  True

/-- `common.rs::days_of_month` (common.rs:101), body sha1 f5fee08a3795 -/
def days_of_month (year : Int) (month : Int) : Int :=
  -- common.rs:102: const DAY_TABLE: [[u32; 13]; 2] = [
  let DAY_TABLE : List (List Int) :=
    [[0, 31, 28, 31, 30, 31, 30, 31, 31, 30, 31, 30, 31], [0, 31, 29, 31, 30, 31, 30, 31, 31, 30, 31, 30, 31]]
  idxD (idxD DAY_TABLE (boolToInt (Tr.is_leap_year year)) []) month 0

/-- No arithmetic node of `common.rs::days_of_month` leaves its Rust integer type, no division by zero, no index out of range
    (path-sensitive; calls contribute the callee's predicate). -/
def days_of_month_safe (year : Int) (month : Int) : Prop :=
  let DAY_TABLE : List (List Int) :=
    [[0, 31, 28, 31, 30, 31, 30, 31, 31, 30, 31, 30, 31], [0, 31, 29, 31, 30, 31, 30, 31, 31, 30, 31, 30, 31]]
  Tr.is_leap_year_safe year ∧
  0 ≤ boolToInt (Tr.is_leap_year year) ∧
  boolToInt (Tr.is_leap_year year) < 2 ∧
  0 ≤ month ∧
  month < 13

/-- `common.rs::the_day_of_year` (common.rs:111), body sha1 f1d32c956be0 -/
def the_day_of_year (year : Int) (month : Int) (day : Int) : Int :=
  idxD (idxD SUM_OF_DAYS_TABLE (boolToInt (Tr.is_leap_year year)) []) (month - 1) 0 + day

/-- No arithmetic node of `common.rs::the_day_of_year` leaves its Rust integer type, no division by zero, no index out of range
    (path-sensitive; calls contribute the callee's predicate). -/
def the_day_of_year_safe (year : Int) (month : Int) (day : Int) : Prop :=
  Tr.is_leap_year_safe year ∧
  0 ≤ boolToInt (Tr.is_leap_year year) ∧
  boolToInt (Tr.is_leap_year year) < 2 ∧
  fitsU64 (month - 1) ∧
  0 ≤ month - 1 ∧
  month - 1 < 12 ∧
  fitsU32 (idxD (idxD SUM_OF_DAYS_TABLE (boolToInt (Tr.is_leap_year year)) []) (month - 1) 0 + day)

/-- `timestamp.rs::Timestamp::new` (timestamp.rs:28), body sha1 0c7c487ad319 -/
def Timestamp.new (date : Int) (time : Int) : Int :=
  -- timestamp.rs:29: let usecs = date.days() as i64 * USECONDS_PER_DAY + time.usecs();
  let usecs : Int := date * USECONDS_PER_DAY + time
  usecs

/-- No arithmetic node of `timestamp.rs::Timestamp::new` leaves its Rust integer type, no division by zero, no index out of range
    (path-sensitive; calls contribute the callee's predicate). -/
def Timestamp.new_safe (date : Int) (time : Int) : Prop :=
  fitsI64 (date * USECONDS_PER_DAY) ∧ fitsI64 (date * USECONDS_PER_DAY + time)

/-- `timestamp.rs::Timestamp::extract` (timestamp.rs:35), body sha1 c842109270fa -/
def Timestamp.extract (self : Int) : Int × Int :=
  -- timestamp.rs:36: let (date, time) = if self.0.is_negative() {
  let date_time : Int × Int :=
    if self < 0 then
      -- timestamp.rs:37: let temp_time = self.0 % USECONDS_PER_DAY;
      let temp_time : Int := rrem self USECONDS_PER_DAY
      if temp_time < 0 then
        (rdiv self USECONDS_PER_DAY - 1, temp_time + USECONDS_PER_DAY)
      else
        (rdiv self USECONDS_PER_DAY, temp_time)
    else
      (rdiv self USECONDS_PER_DAY, rrem self USECONDS_PER_DAY)
  let date : Int := date_time.1
  let time : Int := date_time.2
  (asI32 date, time)

/-- No arithmetic node of `timestamp.rs::Timestamp::extract` leaves its Rust integer type, no division by zero, no index out of range
    (path-sensitive; calls contribute the callee's predicate). -/
def Timestamp.extract_safe (self : Int) : Prop :=
  (self < 0 →
    let temp_time : Int := rrem self USECONDS_PER_DAY
    temp_time < 0 → fitsI64 (rdiv self USECONDS_PER_DAY - 1) ∧ fitsI64 (temp_time + USECONDS_PER_DAY))

/-- `timestamp.rs::Timestamp::date` (timestamp.rs:56), body sha1 249cddec1f9a -/
def Timestamp.date (self : Int) : Int :=
  -- timestamp.rs:57: let date = if self.0.is_negative() && self.0 % USECONDS_PER_DAY != 0 {
  let date : Int :=
    if self < 0 ∧ rrem self USECONDS_PER_DAY ≠ 0 then
      rdiv self USECONDS_PER_DAY - 1
    else
      rdiv self USECONDS_PER_DAY
  asI32 date

/-- No arithmetic node of `timestamp.rs::Timestamp::date` leaves its Rust integer type, no division by zero, no index out of range
    (path-sensitive; calls contribute the callee's predicate). -/
def Timestamp.date_safe (self : Int) : Prop :=
  self < 0 ∧ rrem self USECONDS_PER_DAY ≠ 0 → fitsI64 (rdiv self USECONDS_PER_DAY - 1)

/-- `timestamp.rs::Timestamp::time` (timestamp.rs:66), body sha1 89f0811f3a24 -/
def Timestamp.time (self : Int) : Int :=
  -- timestamp.rs:67: let temp_time = self.0 % USECONDS_PER_DAY;
  let temp_time : Int := rrem self USECONDS_PER_DAY
  if temp_time < 0 then temp_time + USECONDS_PER_DAY else temp_time

/-- No arithmetic node of `timestamp.rs::Timestamp::time` leaves its Rust integer type, no division by zero, no index out of range
    (path-sensitive; calls contribute the callee's predicate). -/
def Timestamp.time_safe (self : Int) : Prop :=
  let temp_time : Int := rrem self USECONDS_PER_DAY
  temp_time < 0 → fitsI64 (temp_time + USECONDS_PER_DAY)

/-- `timestamp.rs::Timestamp::try_from_usecs` (timestamp.rs:107), body sha1 ae764f2ba50c -/
def Timestamp.try_from_usecs (usecs : Int) : Chk Int :=
  if Tr.is_valid_timestamp usecs = true then Except.ok usecs else Except.error Err.DateOutOfRange

/-- No arithmetic node of `timestamp.rs::Timestamp::try_from_usecs` leaves its Rust integer type, no division by zero, no index out of range
    (path-sensitive; calls contribute the callee's predicate). -/
def Timestamp.try_from_usecs_safe (usecs : Int) : Prop :=
  Tr.is_valid_timestamp_safe usecs

/-- `timestamp.rs::Timestamp::add_interval_dt` (timestamp.rs:117), body sha1 685bb2db92c0 -/
def Timestamp.add_interval_dt (self : Int) (interval : Int) : Chk Int :=
  -- timestamp.rs:118: let result = self.usecs().checked_add(interval.usecs());
  let result : Option Int := checkedI64 (self + interval)
  match result with
  | some ts => Tr.Timestamp.try_from_usecs ts
  | none => Except.error Err.DateOutOfRange

/-- No arithmetic node of `timestamp.rs::Timestamp::add_interval_dt` leaves its Rust integer type, no division by zero, no index out of range
    (path-sensitive; calls contribute the callee's predicate). -/
def Timestamp.add_interval_dt_safe (self : Int) (interval : Int) : Prop :=
  let result : Option Int := checkedI64 (self + interval)
  match result with
  | some ts => Tr.Timestamp.try_from_usecs_safe ts
  | none => True

/-- `interval.rs::IntervalDT::negate` (interval.rs:447), body sha1 7069a994e602 -/
def IntervalDT.negate (self : Int) : Int :=
  -self

/-- No arithmetic node of `interval.rs::IntervalDT::negate` leaves its Rust integer type, no division by zero, no index out of range
    (path-sensitive; calls contribute the callee's predicate). -/
def IntervalDT.negate_safe (self : Int) : Prop :=
  fitsI64 (-self)

/-- `timestamp.rs::Timestamp::sub_interval_dt` (timestamp.rs:181), body sha1 31860c72f51f -/
def Timestamp.sub_interval_dt (self : Int) (interval : Int) : Chk Int :=
  Tr.Timestamp.add_interval_dt self (Tr.IntervalDT.negate interval)

/-- No arithmetic node of `timestamp.rs::Timestamp::sub_interval_dt` leaves its Rust integer type, no division by zero, no index out of range
    (path-sensitive; calls contribute the callee's predicate). -/
def Timestamp.sub_interval_dt_safe (self : Int) (interval : Int) : Prop :=
  Tr.IntervalDT.negate_safe interval ∧ Tr.Timestamp.add_interval_dt_safe self (Tr.IntervalDT.negate interval)

/-- `timestamp.rs::Timestamp::add_time` (timestamp.rs:138), body sha1 1d2cb056a758 -/
def Timestamp.add_time (self : Int) (time : Int) : Chk Int :=
  Tr.Timestamp.try_from_usecs (self + time)

/-- No arithmetic node of `timestamp.rs::Timestamp::add_time` leaves its Rust integer type, no division by zero, no index out of range
    (path-sensitive; calls contribute the callee's predicate). -/
def Timestamp.add_time_safe (self : Int) (time : Int) : Prop :=
  fitsI64 (self + time) ∧ Tr.Timestamp.try_from_usecs_safe (self + time)

/-- `timestamp.rs::Timestamp::sub_time` (timestamp.rs:168), body sha1 48deb3e4ce0f -/
def Timestamp.sub_time (self : Int) (time : Int) : Chk Int :=
  Tr.Timestamp.try_from_usecs (self - time)

/-- No arithmetic node of `timestamp.rs::Timestamp::sub_time` leaves its Rust integer type, no division by zero, no index out of range
    (path-sensitive; calls contribute the callee's predicate). -/
def Timestamp.sub_time_safe (self : Int) (time : Int) : Prop :=
  fitsI64 (self - time) ∧ Tr.Timestamp.try_from_usecs_safe (self - time)

/-- `timestamp.rs::Timestamp::sub_timestamp` (timestamp.rs:174), body sha1 83c104be17c5 -/
def Timestamp.sub_timestamp (self : Int) (timestamp : Int) : Int :=
  -- timestamp.rs:175: let microseconds = self.usecs() - timestamp.usecs();
  let microseconds : Int := self - timestamp
  microseconds

/-- No arithmetic node of `timestamp.rs::Timestamp::sub_timestamp` leaves its Rust integer type, no division by zero, no index out of range
    (path-sensitive; calls contribute the callee's predicate). -/
def Timestamp.sub_timestamp_safe (self : Int) (timestamp : Int) : Prop :=
  fitsI64 (self - timestamp)

/-- `time.rs::Time::from_hms_unchecked` (time.rs:32), body sha1 d863b5d59e6b -/
def Time.from_hms_unchecked (hour : Int) (minute : Int) (sec : Int) (usec : Int) : Int :=
  -- time.rs:33: let time = hour as i64 * USECONDS_PER_HOUR
  let time : Int := hour * USECONDS_PER_HOUR + minute * USECONDS_PER_MINUTE + sec * USECONDS_PER_SECOND + usec
  time

/-- No arithmetic node of `time.rs::Time::from_hms_unchecked` leaves its Rust integer type, no division by zero, no index out of range
    (path-sensitive; calls contribute the callee's predicate). -/
def Time.from_hms_unchecked_safe (hour : Int) (minute : Int) (sec : Int) (usec : Int) : Prop :=
  fitsI64 (hour * USECONDS_PER_HOUR) ∧
  fitsI64 (minute * USECONDS_PER_MINUTE) ∧
  fitsI64 (hour * USECONDS_PER_HOUR + minute * USECONDS_PER_MINUTE) ∧
  fitsI64 (sec * USECONDS_PER_SECOND) ∧
  fitsI64 (hour * USECONDS_PER_HOUR + minute * USECONDS_PER_MINUTE + sec * USECONDS_PER_SECOND) ∧
  fitsI64 (hour * USECONDS_PER_HOUR + minute * USECONDS_PER_MINUTE + sec * USECONDS_PER_SECOND + usec)

/-- `date.rs::Date::and_zero_time` (date.rs:244), body sha1 186c41eea3a3 -/
def Date.and_zero_time (self : Int) : Int :=
  Tr.Timestamp.new self (Tr.Time.from_hms_unchecked 0 0 0 0)

/-- No arithmetic node of `date.rs::Date::and_zero_time` leaves its Rust integer type, no division by zero, no index out of range
    (path-sensitive; calls contribute the callee's predicate). -/
def Date.and_zero_time_safe (self : Int) : Prop :=
  Tr.Time.from_hms_unchecked_safe 0 0 0 0 ∧ Tr.Timestamp.new_safe self (Tr.Time.from_hms_unchecked 0 0 0 0)

/-- `timestamp.rs::Timestamp::sub_date` (timestamp.rs:161), body sha1 0421d481b3e1 -/
def Timestamp.sub_date (self : Int) (date : Int) : Int :=
  -- timestamp.rs:162: let temp_timestamp = date.and_zero_time();
  let temp_timestamp : Int := Tr.Date.and_zero_time date
  Tr.Timestamp.sub_timestamp self temp_timestamp

/-- No arithmetic node of `timestamp.rs::Timestamp::sub_date` leaves its Rust integer type, no division by zero, no index out of range
    (path-sensitive; calls contribute the callee's predicate). -/
def Timestamp.sub_date_safe (self : Int) (date : Int) : Prop :=
  Tr.Date.and_zero_time_safe date ∧
  let temp_timestamp : Int := Tr.Date.and_zero_time date
  Tr.Timestamp.sub_timestamp_safe self temp_timestamp

/-- `date.rs::Date::extract` (date.rs:209), body sha1 8bc0426b1834 -/
def Date.extract (self : Int) : Int × Int × Int :=
  Tr.julian2date (self + Tr.UNIX_EPOCH_JULIAN)

/-- No arithmetic node of `date.rs::Date::extract` leaves its Rust integer type, no division by zero, no index out of range
    (path-sensitive; calls contribute the callee's predicate). -/
def Date.extract_safe (self : Int) : Prop :=
  fitsI32 (self + Tr.UNIX_EPOCH_JULIAN) ∧ Tr.julian2date_safe (self + Tr.UNIX_EPOCH_JULIAN)

/-- `date.rs::Date::from_ymd_unchecked` (date.rs:110), body sha1 b4349545ced2 -/
def Date.from_ymd_unchecked (year : Int) (month : Int) (day : Int) : Int :=
  -- date.rs:111: let date = date2julian(year, month, day) - UNIX_EPOCH_JULIAN;
  let date : Int := Tr.date2julian year month day - Tr.UNIX_EPOCH_JULIAN
  date

/-- No arithmetic node of `date.rs::Date::from_ymd_unchecked` leaves its Rust integer type, no division by zero, no index out of range
    (path-sensitive; calls contribute the callee's predicate). -/
def Date.from_ymd_unchecked_safe (year : Int) (month : Int) (day : Int) : Prop :=
  Tr.date2julian_safe year month day ∧ fitsI32 (Tr.date2julian year month day - Tr.UNIX_EPOCH_JULIAN)

/-- `date.rs::Date::try_from_ymd` (date.rs:117), body sha1 641a4eab8d28 -/
def Date.try_from_ymd (year : Int) (month : Int) (day : Int) : Chk Int :=
  -- date.rs:118: if year < DATE_MIN_YEAR || year > DATE_MAX_YEAR {
  if year < DATE_MIN_YEAR ∨ year > DATE_MAX_YEAR then
    -- date.rs:119: return Err(Error::DateOutOfRange);
    Except.error Err.DateOutOfRange
  -- date.rs:122: if month < 1 || month > MONTHS_PER_YEAR {
  else if month < 1 ∨ month > MONTHS_PER_YEAR then
    -- date.rs:123: return Err(Error::InvalidMonth);
    Except.error Err.InvalidMonth
  -- date.rs:126: if day < 1 || day > 31 {
  else if day < 1 ∨ day > 31 then
    -- date.rs:127: return Err(Error::InvalidDay);
    Except.error Err.InvalidDay
  -- date.rs:130: if day > days_of_month(year, month) {
  else if day > Tr.days_of_month year month then
    -- date.rs:131: return Err(Error::InvalidDate);
    Except.error Err.InvalidDate
  else
    Except.ok (Tr.Date.from_ymd_unchecked year month day)

/-- No arithmetic node of `date.rs::Date::try_from_ymd` leaves its Rust integer type, no division by zero, no index out of range
    (path-sensitive; calls contribute the callee's predicate). -/
def Date.try_from_ymd_safe (year : Int) (month : Int) (day : Int) : Prop :=
  (¬ (year < DATE_MIN_YEAR ∨ year > DATE_MAX_YEAR) →
    (¬ (month < 1 ∨ month > MONTHS_PER_YEAR) →
      (¬ (day < 1 ∨ day > 31) →
        Tr.days_of_month_safe year month ∧
        (¬ day > Tr.days_of_month year month → Tr.Date.from_ymd_unchecked_safe year month day))))

/-- `date.rs::Date::add_interval_ym_internal` (date.rs:259), body sha1 0877a06ce1d3 -/
def Date.add_interval_ym_internal (self : Int) (interval : Int) : Chk Int :=
  -- date.rs:260: let (year, month, day) = self.extract();
  let year_month_day : Int × Int × Int := Tr.Date.extract self
  let year : Int := year_month_day.1
  let month : Int := year_month_day.2.1
  let day : Int := year_month_day.2.2
  -- date.rs:262: let mut new_month = month as i32 + interval.months();
  let new_month : Int := asI32 month + interval
  -- date.rs:263: let mut new_year = year;
  let new_year : Int := year
  -- date.rs:265: if new_month > MONTHS_PER_YEAR as i32 {
  let new_month_new_year : Int × Int :=
    if new_month > MONTHS_PER_YEAR then
      -- date.rs:266: new_year += (new_month - 1) / MONTHS_PER_YEAR as i32;
      let new_year : Int := new_year + rdiv (new_month - 1) MONTHS_PER_YEAR
      -- date.rs:267: new_month = (new_month - 1) % MONTHS_PER_YEAR as i32 + 1;
      let new_month : Int := rrem (new_month - 1) MONTHS_PER_YEAR + 1
      (new_month, new_year)
    else
      let new_month_new_year : Int × Int :=
        if new_month < 1 then
          -- date.rs:269: new_year += new_month / MONTHS_PER_YEAR as i32 - 1;
          let new_year : Int := new_year + (rdiv new_month MONTHS_PER_YEAR - 1)
          -- date.rs:270: new_month = new_month % MONTHS_PER_YEAR as i32 + MONTHS_PER_YEAR as i32;
          let new_month : Int := rrem new_month MONTHS_PER_YEAR + MONTHS_PER_YEAR
          (new_month, new_year)
        else
          (new_month, new_year)
      let new_month : Int := new_month_new_year.1
      let new_year : Int := new_month_new_year.2
      (new_month, new_year)
  let new_month : Int := new_month_new_year.1
  let new_year : Int := new_month_new_year.2
  Tr.Date.try_from_ymd new_year (asU32 new_month) day

/-- No arithmetic node of `date.rs::Date::add_interval_ym_internal` leaves its Rust integer type, no division by zero, no index out of range
    (path-sensitive; calls contribute the callee's predicate). -/
def Date.add_interval_ym_internal_safe (self : Int) (interval : Int) : Prop :=
  Tr.Date.extract_safe self ∧
  let year_month_day : Int × Int × Int := Tr.Date.extract self
  let year : Int := year_month_day.1
  let month : Int := year_month_day.2.1
  let day : Int := year_month_day.2.2
  fitsI32 (asI32 month + interval) ∧
  let new_month : Int := asI32 month + interval
  let new_year : Int := year
  (new_month > MONTHS_PER_YEAR →
    fitsI32 (new_month - 1) ∧
    fitsI32 (new_year + rdiv (new_month - 1) MONTHS_PER_YEAR) ∧
    let new_year : Int := new_year + rdiv (new_month - 1) MONTHS_PER_YEAR
    fitsI32 (new_month - 1) ∧ fitsI32 (rrem (new_month - 1) MONTHS_PER_YEAR + 1)) ∧
  (¬ new_month > MONTHS_PER_YEAR →
    (new_month < 1 →
      fitsI32 (rdiv new_month MONTHS_PER_YEAR - 1) ∧
      fitsI32 (new_year + (rdiv new_month MONTHS_PER_YEAR - 1)) ∧
      let new_year : Int := new_year + (rdiv new_month MONTHS_PER_YEAR - 1)
      fitsI32 (rrem new_month MONTHS_PER_YEAR + MONTHS_PER_YEAR))) ∧
  let new_month_new_year : Int × Int :=
    if new_month > MONTHS_PER_YEAR then
      -- date.rs:266: new_year += (new_month - 1) / MONTHS_PER_YEAR as i32;
      let new_year : Int := new_year + rdiv (new_month - 1) MONTHS_PER_YEAR
      -- date.rs:267: new_month = (new_month - 1) % MONTHS_PER_YEAR as i32 + 1;
      let new_month : Int := rrem (new_month - 1) MONTHS_PER_YEAR + 1
      (new_month, new_year)
    else
      let new_month_new_year : Int × Int :=
        if new_month < 1 then
          -- date.rs:269: new_year += new_month / MONTHS_PER_YEAR as i32 - 1;
          let new_year : Int := new_year + (rdiv new_month MONTHS_PER_YEAR - 1)
          -- date.rs:270: new_month = new_month % MONTHS_PER_YEAR as i32 + MONTHS_PER_YEAR as i32;
          let new_month : Int := rrem new_month MONTHS_PER_YEAR + MONTHS_PER_YEAR
          (new_month, new_year)
        else
          (new_month, new_year)
      let new_month : Int := new_month_new_year.1
      let new_year : Int := new_month_new_year.2
      (new_month, new_year)
  let new_month : Int := new_month_new_year.1
  let new_year : Int := new_month_new_year.2
  Tr.Date.try_from_ymd_safe new_year (asU32 new_month) day

/-- `timestamp.rs::Timestamp::add_interval_ym` (timestamp.rs:127), body sha1 f8d2fdb0495d -/
def Timestamp.add_interval_ym (self : Int) (interval : Int) : Chk Int :=
  -- timestamp.rs:128: let (date, time) = self.extract();
  let date_time : Int × Int := Tr.Timestamp.extract self
  let date : Int := date_time.1
  let time : Int := date_time.2
  match Tr.Date.add_interval_ym_internal date interval with
  | Except.error err => Except.error err
  | Except.ok r1 => Except.ok (Tr.Timestamp.new r1 time)

/-- No arithmetic node of `timestamp.rs::Timestamp::add_interval_ym` leaves its Rust integer type, no division by zero, no index out of range
    (path-sensitive; calls contribute the callee's predicate). -/
def Timestamp.add_interval_ym_safe (self : Int) (interval : Int) : Prop :=
  Tr.Timestamp.extract_safe self ∧
  let date_time : Int × Int := Tr.Timestamp.extract self
  let date : Int := date_time.1
  let time : Int := date_time.2
  Tr.Date.add_interval_ym_internal_safe date interval ∧
  (match Tr.Date.add_interval_ym_internal date interval with
   | Except.error err => True
   | Except.ok r1 => Tr.Timestamp.new_safe r1 time)

/-- `interval.rs::IntervalYM::negate` (interval.rs:143), body sha1 1a64313d1145 -/
def IntervalYM.negate (self : Int) : Int :=
  -self

/-- No arithmetic node of `interval.rs::IntervalYM::negate` leaves its Rust integer type, no division by zero, no index out of range
    (path-sensitive; calls contribute the callee's predicate). -/
def IntervalYM.negate_safe (self : Int) : Prop :=
  fitsI32 (-self)

/-- `timestamp.rs::Timestamp::sub_interval_ym` (timestamp.rs:187), body sha1 6f9bc0d5fbbc -/
def Timestamp.sub_interval_ym (self : Int) (interval : Int) : Chk Int :=
  Tr.Timestamp.add_interval_ym self (Tr.IntervalYM.negate interval)

/-- No arithmetic node of `timestamp.rs::Timestamp::sub_interval_ym` leaves its Rust integer type, no division by zero, no index out of range
    (path-sensitive; calls contribute the callee's predicate). -/
def Timestamp.sub_interval_ym_safe (self : Int) (interval : Int) : Prop :=
  Tr.IntervalYM.negate_safe interval ∧ Tr.Timestamp.add_interval_ym_safe self (Tr.IntervalYM.negate interval)

/-- `timestamp.rs::Timestamp::last_day_of_month` (timestamp.rs:216), body sha1 888d12db1660 -/
def Timestamp.last_day_of_month (self : Int) : Int :=
  -- timestamp.rs:217: let (sqldate, _) = self.extract();
  let t1 : Int × Int := Tr.Timestamp.extract self
  let sqldate : Int := t1.1
  -- timestamp.rs:218: let (year, month, day) = sqldate.extract();
  let year_month_day : Int × Int × Int := Tr.Date.extract sqldate
  let year : Int := year_month_day.1
  let month : Int := year_month_day.2.1
  let day : Int := year_month_day.2.2
  -- timestamp.rs:220: let result_day = days_of_month(year, month);
  let result_day : Int := Tr.days_of_month year month
  -- timestamp.rs:221: let result = self.usecs() + (result_day - day) as i64 * USECONDS_PER_DAY;
  let result : Int := self + (result_day - day) * USECONDS_PER_DAY
  result

/-- No arithmetic node of `timestamp.rs::Timestamp::last_day_of_month` leaves its Rust integer type, no division by zero, no index out of range
    (path-sensitive; calls contribute the callee's predicate). -/
def Timestamp.last_day_of_month_safe (self : Int) : Prop :=
  Tr.Timestamp.extract_safe self ∧
  let t1 : Int × Int := Tr.Timestamp.extract self
  let sqldate : Int := t1.1
  Tr.Date.extract_safe sqldate ∧
  let year_month_day : Int × Int × Int := Tr.Date.extract sqldate
  let year : Int := year_month_day.1
  let month : Int := year_month_day.2.1
  let day : Int := year_month_day.2.2
  Tr.days_of_month_safe year month ∧
  let result_day : Int := Tr.days_of_month year month
  fitsU32 (result_day - day) ∧
  fitsI64 ((result_day - day) * USECONDS_PER_DAY) ∧
  fitsI64 (self + (result_day - day) * USECONDS_PER_DAY)

/-- `timestamp.rs::Trunc for Timestamp::trunc_day` (timestamp.rs:269), body sha1 4804b16cd691 -/
def Timestamp.trunc_day (self : Int) : Chk Int :=
  Except.ok (Tr.Date.and_zero_time (Tr.Timestamp.date self))

/-- No arithmetic node of `timestamp.rs::Trunc for Timestamp::trunc_day` leaves its Rust integer type, no division by zero, no index out of range
    (path-sensitive; calls contribute the callee's predicate). -/
def Timestamp.trunc_day_safe (self : Int) : Prop :=
  Tr.Timestamp.date_safe self ∧ Tr.Date.and_zero_time_safe (Tr.Timestamp.date self)

/-- `date.rs::Date::and_time` (date.rs:224), body sha1 d58f4fe29e38 -/
def Date.and_time (self : Int) (time : Int) : Int :=
  Tr.Timestamp.new self time

/-- No arithmetic node of `date.rs::Date::and_time` leaves its Rust integer type, no division by zero, no index out of range
    (path-sensitive; calls contribute the callee's predicate). -/
def Date.and_time_safe (self : Int) (time : Int) : Prop :=
  Tr.Timestamp.new_safe self time

/-- `timestamp.rs::Trunc for Timestamp::trunc_hour` (timestamp.rs:279), body sha1 f8f7f61d3de7 -/
-- inlined helpers: time.rs::DateTime for Time::hour, timestamp.rs::DateTime for Timestamp::hour
def Timestamp.trunc_hour (self : Int) : Chk Int :=
  Except.ok (Tr.Date.and_time (Tr.Timestamp.date self) (Tr.Time.from_hms_unchecked (asU32 ((fun (self : Int) => (fun (self : Int) => asI32 (rdiv self USECONDS_PER_HOUR)) (Tr.Timestamp.time self)) self)) 0 0 0))

/-- No arithmetic node of `timestamp.rs::Trunc for Timestamp::trunc_hour` leaves its Rust integer type, no division by zero, no index out of range
    (path-sensitive; calls contribute the callee's predicate). -/
def Timestamp.trunc_hour_safe (self : Int) : Prop :=
  Tr.Timestamp.date_safe self ∧
  (fun (self : Int) => Tr.Timestamp.time_safe self) self ∧
  (Tr.Time.from_hms_unchecked_safe (asU32 ((fun (self : Int) => (fun (self : Int) => asI32 (rdiv self USECONDS_PER_HOUR)) (Tr.Timestamp.time self)) self)) 0 0 0) ∧
  (Tr.Date.and_time_safe (Tr.Timestamp.date self) (Tr.Time.from_hms_unchecked (asU32 ((fun (self : Int) => (fun (self : Int) => asI32 (rdiv self USECONDS_PER_HOUR)) (Tr.Timestamp.time self)) self)) 0 0 0))

/-- `time.rs::Time::extract` (time.rs:131), body sha1 66bb0ca0a670 -/
def Time.extract (self : Int) : Int × Int × Int × Int :=
  -- time.rs:132: let mut time = self.0;
  let time : Int := self
  -- time.rs:134: let hour = (time / USECONDS_PER_HOUR) as u32;
  let hour : Int := asU32 (rdiv time USECONDS_PER_HOUR)
  -- time.rs:135: time -= hour as i64 * USECONDS_PER_HOUR;
  let time : Int := time - hour * USECONDS_PER_HOUR
  -- time.rs:137: let minute = (time / USECONDS_PER_MINUTE) as u32;
  let minute : Int := asU32 (rdiv time USECONDS_PER_MINUTE)
  -- time.rs:138: time -= minute as i64 * USECONDS_PER_MINUTE;
  let time : Int := time - minute * USECONDS_PER_MINUTE
  -- time.rs:140: let sec = (time / USECONDS_PER_SECOND) as u32;
  let sec : Int := asU32 (rdiv time USECONDS_PER_SECOND)
  -- time.rs:141: time -= sec as i64 * USECONDS_PER_SECOND;
  let time : Int := time - sec * USECONDS_PER_SECOND
  -- time.rs:143: let usec = time as u32;
  let usec : Int := asU32 time
  (hour, minute, sec, usec)

/-- No arithmetic node of `time.rs::Time::extract` leaves its Rust integer type, no division by zero, no index out of range
    (path-sensitive; calls contribute the callee's predicate). -/
def Time.extract_safe (self : Int) : Prop :=
  let time : Int := self
  let hour : Int := asU32 (rdiv time USECONDS_PER_HOUR)
  fitsI64 (hour * USECONDS_PER_HOUR) ∧
  fitsI64 (time - hour * USECONDS_PER_HOUR) ∧
  let time : Int := time - hour * USECONDS_PER_HOUR
  let minute : Int := asU32 (rdiv time USECONDS_PER_MINUTE)
  fitsI64 (minute * USECONDS_PER_MINUTE) ∧
  fitsI64 (time - minute * USECONDS_PER_MINUTE) ∧
  let time : Int := time - minute * USECONDS_PER_MINUTE
  let sec : Int := asU32 (rdiv time USECONDS_PER_SECOND)
  fitsI64 (sec * USECONDS_PER_SECOND) ∧ fitsI64 (time - sec * USECONDS_PER_SECOND)

/-- `timestamp.rs::Trunc for Timestamp::trunc_minute` (timestamp.rs:286), body sha1 a63ca5368add -/
def Timestamp.trunc_minute (self : Int) : Chk Int :=
  -- timestamp.rs:287: let (hour, minute, _, _) = self.time().extract();
  let hour_minute : Int × Int × Int × Int := Tr.Time.extract (Tr.Timestamp.time self)
  let hour : Int := hour_minute.1
  let minute : Int := hour_minute.2.1
  Except.ok (Tr.Date.and_time (Tr.Timestamp.date self) (Tr.Time.from_hms_unchecked hour minute 0 0))

/-- No arithmetic node of `timestamp.rs::Trunc for Timestamp::trunc_minute` leaves its Rust integer type, no division by zero, no index out of range
    (path-sensitive; calls contribute the callee's predicate). -/
def Timestamp.trunc_minute_safe (self : Int) : Prop :=
  Tr.Timestamp.time_safe self ∧
  Tr.Time.extract_safe (Tr.Timestamp.time self) ∧
  let hour_minute : Int × Int × Int × Int := Tr.Time.extract (Tr.Timestamp.time self)
  let hour : Int := hour_minute.1
  let minute : Int := hour_minute.2.1
  Tr.Timestamp.date_safe self ∧
  Tr.Time.from_hms_unchecked_safe hour minute 0 0 ∧
  Tr.Date.and_time_safe (Tr.Timestamp.date self) (Tr.Time.from_hms_unchecked hour minute 0 0)

/-- `time.rs::Time::try_from_hms` (time.rs:42), body sha1 2eb688ad901b -/
def Time.try_from_hms (hour : Int) (minute : Int) (sec : Int) (usec : Int) : Chk Int :=
  -- time.rs:43: if hour >= HOURS_PER_DAY {
  if hour ≥ HOURS_PER_DAY then
    -- time.rs:44: return Err(Error::TimeOutOfRange);
    Except.error Err.TimeOutOfRange
  -- time.rs:47: if minute >= MINUTES_PER_HOUR {
  else if minute ≥ MINUTES_PER_HOUR then
    -- time.rs:48: return Err(Error::InvalidMinute);
    Except.error Err.InvalidMinute
  -- time.rs:51: if sec >= SECONDS_PER_MINUTE {
  else if sec ≥ SECONDS_PER_MINUTE then
    -- time.rs:52: return Err(Error::InvalidSecond);
    Except.error Err.InvalidSecond
  -- time.rs:55: if usec > USECONDS_MAX {
  else if usec > USECONDS_MAX then
    -- time.rs:56: return Err(Error::InvalidFraction);
    Except.error Err.InvalidFraction
  else
    Except.ok (Tr.Time.from_hms_unchecked hour minute sec usec)

/-- No arithmetic node of `time.rs::Time::try_from_hms` leaves its Rust integer type, no division by zero, no index out of range
    (path-sensitive; calls contribute the callee's predicate). -/
def Time.try_from_hms_safe (hour : Int) (minute : Int) (sec : Int) (usec : Int) : Prop :=
  (¬ hour ≥ HOURS_PER_DAY →
    (¬ minute ≥ MINUTES_PER_HOUR →
      (¬ sec ≥ SECONDS_PER_MINUTE →
        ¬ usec > USECONDS_MAX → Tr.Time.from_hms_unchecked_safe hour minute sec usec)))

/-- `time.rs::Time::is_valid` (time.rs:64), body sha1 825c4e08b0b7 -/
def Time.is_valid (hour : Int) (minute : Int) (sec : Int) (usec : Int) : Bool :=
  -- time.rs:65: if hour >= HOURS_PER_DAY {
  if hour ≥ HOURS_PER_DAY then
    -- time.rs:66: return false;
    false
  -- time.rs:69: if minute >= MINUTES_PER_HOUR {
  else if minute ≥ MINUTES_PER_HOUR then
    -- time.rs:70: return false;
    false
  -- time.rs:73: if sec >= SECONDS_PER_MINUTE {
  else if sec ≥ SECONDS_PER_MINUTE then
    -- time.rs:74: return false;
    false
  -- time.rs:77: if usec > USECONDS_MAX {
  else if usec > USECONDS_MAX then
    -- time.rs:78: return false;
    false
  else
    true

/-- No arithmetic node of `time.rs::Time::is_valid` leaves its Rust integer type, no division by zero, no index out of range
    (path-sensitive; calls contribute the callee's predicate). -/
def Time.is_valid_safe (hour : Int) (minute : Int) (sec : Int) (usec : Int) : Prop :=
  True

/-- `time.rs::Time::validate_hms` (time.rs:86), body sha1 e0f71a096de5 -/
def Time.validate_hms (hour : Int) (minute : Int) (sec : Int) : Chk Unit :=
  -- time.rs:87: if hour >= HOURS_PER_DAY {
  if hour ≥ HOURS_PER_DAY then
    -- time.rs:88: return Err(Error::TimeOutOfRange);
    Except.error Err.TimeOutOfRange
  -- time.rs:91: if minute >= MINUTES_PER_HOUR {
  else if minute ≥ MINUTES_PER_HOUR then
    -- time.rs:92: return Err(Error::InvalidMinute);
    Except.error Err.InvalidMinute
  -- time.rs:95: if sec >= SECONDS_PER_MINUTE {
  else if sec ≥ SECONDS_PER_MINUTE then
    -- time.rs:96: return Err(Error::InvalidSecond);
    Except.error Err.InvalidSecond
  else
    Except.ok ()

/-- No arithmetic node of `time.rs::Time::validate_hms` leaves its Rust integer type, no division by zero, no index out of range
    (path-sensitive; calls contribute the callee's predicate). -/
def Time.validate_hms_safe (hour : Int) (minute : Int) (sec : Int) : Prop :=
  True

/-- `time.rs::Time::try_from_usecs` (time.rs:121), body sha1 4cd32462594e -/
def Time.try_from_usecs (usecs : Int) : Chk Int :=
  if Tr.is_valid_time usecs = true then Except.ok usecs else Except.error Err.TimeOutOfRange

/-- No arithmetic node of `time.rs::Time::try_from_usecs` leaves its Rust integer type, no division by zero, no index out of range
    (path-sensitive; calls contribute the callee's predicate). -/
def Time.try_from_usecs_safe (usecs : Int) : Prop :=
  Tr.is_valid_time_safe usecs

/-- `time.rs::Time::sub_time` (time.rs:164), body sha1 e74efdddd606 -/
def Time.sub_time (self : Int) (time : Int) : Int :=
  self - time

/-- No arithmetic node of `time.rs::Time::sub_time` leaves its Rust integer type, no division by zero, no index out of range
    (path-sensitive; calls contribute the callee's predicate). -/
def Time.sub_time_safe (self : Int) (time : Int) : Prop :=
  fitsI64 (self - time)

/-- `time.rs::Time::add_interval_dt` (time.rs:170), body sha1 f9e10331260e -/
def Time.add_interval_dt (self : Int) (interval : Int) : Int :=
  -- time.rs:171: let temp_result = self.usecs() + interval.usecs() % USECONDS_PER_DAY;
  let temp_result : Int := self + rrem interval USECONDS_PER_DAY
  if temp_result ≥ 0 then rrem temp_result USECONDS_PER_DAY else temp_result + USECONDS_PER_DAY

/-- No arithmetic node of `time.rs::Time::add_interval_dt` leaves its Rust integer type, no division by zero, no index out of range
    (path-sensitive; calls contribute the callee's predicate). -/
def Time.add_interval_dt_safe (self : Int) (interval : Int) : Prop :=
  fitsI64 (self + rrem interval USECONDS_PER_DAY) ∧
  let temp_result : Int := self + rrem interval USECONDS_PER_DAY
  ¬ temp_result ≥ 0 → fitsI64 (temp_result + USECONDS_PER_DAY)

/-- `time.rs::Time::sub_interval_dt` (time.rs:181), body sha1 31860c72f51f -/
def Time.sub_interval_dt (self : Int) (interval : Int) : Int :=
  Tr.Time.add_interval_dt self (Tr.IntervalDT.negate interval)

/-- No arithmetic node of `time.rs::Time::sub_interval_dt` leaves its Rust integer type, no division by zero, no index out of range
    (path-sensitive; calls contribute the callee's predicate). -/
def Time.sub_interval_dt_safe (self : Int) (interval : Int) : Prop :=
  Tr.IntervalDT.negate_safe interval ∧ Tr.Time.add_interval_dt_safe self (Tr.IntervalDT.negate interval)

/-- `time.rs::From<IntervalDT> for Time::from` (time.rs:222), body sha1 dd0830b2e669 -/
def Time.from_interval_dt (interval : Int) : Int :=
  -- time.rs:223: let usec = interval.usecs().abs() % USECONDS_PER_DAY;
  let usec : Int := rrem (absI64 interval) USECONDS_PER_DAY
  usec

/-- No arithmetic node of `time.rs::From<IntervalDT> for Time::from` leaves its Rust integer type, no division by zero, no index out of range
    (path-sensitive; calls contribute the callee's predicate). -/
def Time.from_interval_dt_safe (interval : Int) : Prop :=
  fitsI64 (absI interval)

/-- `interval.rs::IntervalYM::from_ym_unchecked` (interval.rs:52), body sha1 27c5c8c30a92 -/
def IntervalYM.from_ym_unchecked (year : Int) (month : Int) : Int :=
  asI32 (year * MONTHS_PER_YEAR + month)

/-- No arithmetic node of `interval.rs::IntervalYM::from_ym_unchecked` leaves its Rust integer type, no division by zero, no index out of range
    (path-sensitive; calls contribute the callee's predicate). -/
def IntervalYM.from_ym_unchecked_safe (year : Int) (month : Int) : Prop :=
  fitsU32 (year * MONTHS_PER_YEAR) ∧ fitsU32 (year * MONTHS_PER_YEAR + month)

/-- `interval.rs::IntervalYM::try_from_ym` (interval.rs:68), body sha1 1a21bcd1a78d -/
def IntervalYM.try_from_ym (year : Int) (month : Int) : Chk Int :=
  -- interval.rs:69: if year >= INTERVAL_MAX_YEAR as u32 && (year != INTERVAL_MAX_YEAR as u32 || month != 0) {
  if year ≥ INTERVAL_MAX_YEAR ∧ (year ≠ INTERVAL_MAX_YEAR ∨ month ≠ 0) then
    -- interval.rs:70: return Err(Error::IntervalOutOfRange);
    Except.error Err.IntervalOutOfRange
  -- interval.rs:73: if month >= MONTHS_PER_YEAR {
  else if month ≥ MONTHS_PER_YEAR then
    -- interval.rs:74: return Err(Error::InvalidMonth);
    Except.error Err.InvalidMonth
  else
    Except.ok (Tr.IntervalYM.from_ym_unchecked year month)

/-- No arithmetic node of `interval.rs::IntervalYM::try_from_ym` leaves its Rust integer type, no division by zero, no index out of range
    (path-sensitive; calls contribute the callee's predicate). -/
def IntervalYM.try_from_ym_safe (year : Int) (month : Int) : Prop :=
  (¬ (year ≥ INTERVAL_MAX_YEAR ∧ (year ≠ INTERVAL_MAX_YEAR ∨ month ≠ 0)) →
    ¬ month ≥ MONTHS_PER_YEAR → Tr.IntervalYM.from_ym_unchecked_safe year month)

/-- `interval.rs::IntervalYM::is_valid_ym` (interval.rs:92), body sha1 8db3a4846a79 -/
def IntervalYM.is_valid_ym (year : Int) (month : Int) : Bool :=
  -- interval.rs:93: if year >= INTERVAL_MAX_YEAR as u32 && (year != INTERVAL_MAX_YEAR as u32 || month != 0) {
  if year ≥ INTERVAL_MAX_YEAR ∧ (year ≠ INTERVAL_MAX_YEAR ∨ month ≠ 0) then
    -- interval.rs:94: return false;
    false
  -- interval.rs:97: if month >= MONTHS_PER_YEAR {
  else if month ≥ MONTHS_PER_YEAR then
    -- interval.rs:98: return false;
    false
  else
    true

/-- No arithmetic node of `interval.rs::IntervalYM::is_valid_ym` leaves its Rust integer type, no division by zero, no index out of range
    (path-sensitive; calls contribute the callee's predicate). -/
def IntervalYM.is_valid_ym_safe (year : Int) (month : Int) : Prop :=
  True

/-- `interval.rs::IntervalYM::is_valid_months` (interval.rs:106), body sha1 a9ce84d8e75e -/
def IntervalYM.is_valid_months (months : Int) : Bool :=
  decide (months ≤ INTERVAL_MAX_MONTH ∧ months ≥ -INTERVAL_MAX_MONTH)

/-- No arithmetic node of `interval.rs::IntervalYM::is_valid_months` leaves its Rust integer type, no division by zero, no index out of range
    (path-sensitive; calls contribute the callee's predicate). -/
def IntervalYM.is_valid_months_safe (months : Int) : Prop :=
  months ≤ INTERVAL_MAX_MONTH → fitsI32 (-INTERVAL_MAX_MONTH)

/-- `interval.rs::IntervalYM::try_from_months` (interval.rs:82), body sha1 6ac464751b75 -/
def IntervalYM.try_from_months (months : Int) : Chk Int :=
  if Tr.IntervalYM.is_valid_months months = true then
    Except.ok months
  else
    Except.error Err.IntervalOutOfRange

/-- No arithmetic node of `interval.rs::IntervalYM::try_from_months` leaves its Rust integer type, no division by zero, no index out of range
    (path-sensitive; calls contribute the callee's predicate). -/
def IntervalYM.try_from_months_safe (months : Int) : Prop :=
  Tr.IntervalYM.is_valid_months_safe months

/-- `interval.rs::IntervalYM::extract` (interval.rs:118), body sha1 6dc21805b26c -/
def IntervalYM.extract (self : Int) : Int × Int × Int :=
  if self < 0 then
    -- interval.rs:120: let year = -self.0 as u32 / MONTHS_PER_YEAR;
    let year : Int := asU32 (-self) / MONTHS_PER_YEAR
    (-1, year, asU32 (-self) - year * MONTHS_PER_YEAR)
  else
    -- interval.rs:123: let year = self.0 as u32 / MONTHS_PER_YEAR;
    let year : Int := asU32 self / MONTHS_PER_YEAR
    (1, year, asU32 self - year * MONTHS_PER_YEAR)

/-- No arithmetic node of `interval.rs::IntervalYM::extract` leaves its Rust integer type, no division by zero, no index out of range
    (path-sensitive; calls contribute the callee's predicate). -/
def IntervalYM.extract_safe (self : Int) : Prop :=
  (self < 0 →
    fitsI32 (-self) ∧
    let year : Int := asU32 (-self) / MONTHS_PER_YEAR
    (fitsI32 (-self) ∧ fitsU32 (year * MONTHS_PER_YEAR)) ∧ fitsU32 (asU32 (-self) - year * MONTHS_PER_YEAR)) ∧
  (¬ self < 0 →
    let year : Int := asU32 self / MONTHS_PER_YEAR
    fitsU32 (year * MONTHS_PER_YEAR) ∧ fitsU32 (asU32 self - year * MONTHS_PER_YEAR))

/-- `interval.rs::IntervalYM::add_interval_ym` (interval.rs:149), body sha1 1ece819c0f2d -/
def IntervalYM.add_interval_ym (self : Int) (interval : Int) : Chk Int :=
  -- interval.rs:150: let result = self.months().checked_add(interval.months());
  let result : Option Int := checkedI32 (self + interval)
  match result with
  | some i => Tr.IntervalYM.try_from_months i
  | none => Except.error Err.IntervalOutOfRange

/-- No arithmetic node of `interval.rs::IntervalYM::add_interval_ym` leaves its Rust integer type, no division by zero, no index out of range
    (path-sensitive; calls contribute the callee's predicate). -/
def IntervalYM.add_interval_ym_safe (self : Int) (interval : Int) : Prop :=
  let result : Option Int := checkedI32 (self + interval)
  match result with
  | some i => Tr.IntervalYM.try_from_months_safe i
  | none => True

/-- `interval.rs::IntervalYM::sub_interval_ym` (interval.rs:159), body sha1 6f9bc0d5fbbc -/
def IntervalYM.sub_interval_ym (self : Int) (interval : Int) : Chk Int :=
  Tr.IntervalYM.add_interval_ym self (Tr.IntervalYM.negate interval)

/-- No arithmetic node of `interval.rs::IntervalYM::sub_interval_ym` leaves its Rust integer type, no division by zero, no index out of range
    (path-sensitive; calls contribute the callee's predicate). -/
def IntervalYM.sub_interval_ym_safe (self : Int) (interval : Int) : Prop :=
  Tr.IntervalYM.negate_safe interval ∧ Tr.IntervalYM.add_interval_ym_safe self (Tr.IntervalYM.negate interval)

/-- `interval.rs::Ord for IntervalYM::cmp` (interval.rs:32), body sha1 955539a817ee -/
def IntervalYM.cmp (self : Int) (other : Int) : Int :=
  cmpInt self other

/-- No arithmetic node of `interval.rs::Ord for IntervalYM::cmp` leaves its Rust integer type, no division by zero, no index out of range
    (path-sensitive; calls contribute the callee's predicate). -/
def IntervalYM.cmp_safe (self : Int) (other : Int) : Prop :=
  True

/-- `interval.rs::IntervalDT::from_dhms_unchecked` (interval.rs:294), body sha1 768275a14bff -/
def IntervalDT.from_dhms_unchecked (day : Int) (hour : Int) (minute : Int) (sec : Int) (usec : Int) : Int :=
  -- interval.rs:301: let time = hour as i64 * USECONDS_PER_HOUR
  let time : Int := hour * USECONDS_PER_HOUR + minute * USECONDS_PER_MINUTE + sec * USECONDS_PER_SECOND + usec
  -- interval.rs:305: let us = day as i64 * USECONDS_PER_DAY + time;
  let us : Int := day * USECONDS_PER_DAY + time
  us

/-- No arithmetic node of `interval.rs::IntervalDT::from_dhms_unchecked` leaves its Rust integer type, no division by zero, no index out of range
    (path-sensitive; calls contribute the callee's predicate). -/
def IntervalDT.from_dhms_unchecked_safe (day : Int) (hour : Int) (minute : Int) (sec : Int) (usec : Int) : Prop :=
  fitsI64 (hour * USECONDS_PER_HOUR) ∧
  fitsI64 (minute * USECONDS_PER_MINUTE) ∧
  fitsI64 (hour * USECONDS_PER_HOUR + minute * USECONDS_PER_MINUTE) ∧
  fitsI64 (sec * USECONDS_PER_SECOND) ∧
  fitsI64 (hour * USECONDS_PER_HOUR + minute * USECONDS_PER_MINUTE + sec * USECONDS_PER_SECOND) ∧
  fitsI64 (hour * USECONDS_PER_HOUR + minute * USECONDS_PER_MINUTE + sec * USECONDS_PER_SECOND + usec) ∧
  let time : Int := hour * USECONDS_PER_HOUR + minute * USECONDS_PER_MINUTE + sec * USECONDS_PER_SECOND + usec
  fitsI64 (day * USECONDS_PER_DAY) ∧ fitsI64 (day * USECONDS_PER_DAY + time)

/-- `interval.rs::IntervalDT::try_from_dhms` (interval.rs:311), body sha1 1cf1ce606462 -/
def IntervalDT.try_from_dhms (day : Int) (hour : Int) (minute : Int) (sec : Int) (usec : Int) : Chk Int :=
  -- interval.rs:318: if day >= INTERVAL_MAX_DAY as u32
  if day ≥ INTERVAL_MAX_DAY ∧ ((((day ≠ INTERVAL_MAX_DAY ∨ hour ≠ 0) ∨ minute ≠ 0) ∨ sec ≠ 0) ∨ usec ≠ 0) then
    -- interval.rs:321: return Err(Error::IntervalOutOfRange);
    Except.error Err.IntervalOutOfRange
  -- interval.rs:324: if hour >= HOURS_PER_DAY {
  else if hour ≥ HOURS_PER_DAY then
    -- interval.rs:325: return Err(Error::TimeOutOfRange);
    Except.error Err.TimeOutOfRange
  -- interval.rs:328: if minute >= MINUTES_PER_HOUR {
  else if minute ≥ MINUTES_PER_HOUR then
    -- interval.rs:329: return Err(Error::InvalidMinute);
    Except.error Err.InvalidMinute
  -- interval.rs:332: if sec >= SECONDS_PER_MINUTE {
  else if sec ≥ SECONDS_PER_MINUTE then
    -- interval.rs:333: return Err(Error::InvalidSecond);
    Except.error Err.InvalidSecond
  -- interval.rs:336: if usec > USECONDS_MAX {
  else if usec > USECONDS_MAX then
    -- interval.rs:337: return Err(Error::InvalidFraction);
    Except.error Err.InvalidFraction
  else
    Except.ok (Tr.IntervalDT.from_dhms_unchecked day hour minute sec usec)

/-- No arithmetic node of `interval.rs::IntervalDT::try_from_dhms` leaves its Rust integer type, no division by zero, no index out of range
    (path-sensitive; calls contribute the callee's predicate). -/
def IntervalDT.try_from_dhms_safe (day : Int) (hour : Int) (minute : Int) (sec : Int) (usec : Int) : Prop :=
  (¬ (day ≥ INTERVAL_MAX_DAY ∧ ((((day ≠ INTERVAL_MAX_DAY ∨ hour ≠ 0) ∨ minute ≠ 0) ∨ sec ≠ 0) ∨ usec ≠ 0)) →
    (¬ hour ≥ HOURS_PER_DAY →
      (¬ minute ≥ MINUTES_PER_HOUR →
        (¬ sec ≥ SECONDS_PER_MINUTE →
          ¬ usec > USECONDS_MAX → Tr.IntervalDT.from_dhms_unchecked_safe day hour minute sec usec))))

/-- `interval.rs::IntervalDT::is_valid` (interval.rs:365), body sha1 30e539255bf9 -/
def IntervalDT.is_valid (day : Int) (hour : Int) (minute : Int) (sec : Int) (usec : Int) : Bool :=
  -- interval.rs:366: if day >= INTERVAL_MAX_DAY as u32
  if day ≥ INTERVAL_MAX_DAY ∧ ((((day ≠ INTERVAL_MAX_DAY ∨ hour ≠ 0) ∨ minute ≠ 0) ∨ sec ≠ 0) ∨ usec ≠ 0) then
    -- interval.rs:369: return false;
    false
  -- interval.rs:372: if hour >= HOURS_PER_DAY {
  else if hour ≥ HOURS_PER_DAY then
    -- interval.rs:373: return false;
    false
  -- interval.rs:376: if minute >= MINUTES_PER_HOUR {
  else if minute ≥ MINUTES_PER_HOUR then
    -- interval.rs:377: return false;
    false
  -- interval.rs:380: if sec >= SECONDS_PER_MINUTE {
  else if sec ≥ SECONDS_PER_MINUTE then
    -- interval.rs:381: return false;
    false
  -- interval.rs:384: if usec > USECONDS_MAX {
  else if usec > USECONDS_MAX then
    -- interval.rs:385: return false;
    false
  else
    true

/-- No arithmetic node of `interval.rs::IntervalDT::is_valid` leaves its Rust integer type, no division by zero, no index out of range
    (path-sensitive; calls contribute the callee's predicate). -/
def IntervalDT.is_valid_safe (day : Int) (hour : Int) (minute : Int) (sec : Int) (usec : Int) : Prop :=
  True

/-- `interval.rs::IntervalDT::is_valid_usecs` (interval.rs:392), body sha1 7c8de32752e9 -/
def IntervalDT.is_valid_usecs (usecs : Int) : Bool :=
  decide (usecs ≤ INTERVAL_MAX_USECONDS ∧ usecs ≥ -INTERVAL_MAX_USECONDS)

/-- No arithmetic node of `interval.rs::IntervalDT::is_valid_usecs` leaves its Rust integer type, no division by zero, no index out of range
    (path-sensitive; calls contribute the callee's predicate). -/
def IntervalDT.is_valid_usecs_safe (usecs : Int) : Prop :=
  usecs ≤ INTERVAL_MAX_USECONDS → fitsI64 (-INTERVAL_MAX_USECONDS)

/-- `interval.rs::IntervalDT::try_from_usecs` (interval.rs:355), body sha1 bdefa3a79b7c -/
def IntervalDT.try_from_usecs (usecs : Int) : Chk Int :=
  if Tr.IntervalDT.is_valid_usecs usecs = true then Except.ok usecs else Except.error Err.IntervalOutOfRange

/-- No arithmetic node of `interval.rs::IntervalDT::try_from_usecs` leaves its Rust integer type, no division by zero, no index out of range
    (path-sensitive; calls contribute the callee's predicate). -/
def IntervalDT.try_from_usecs_safe (usecs : Int) : Prop :=
  Tr.IntervalDT.is_valid_usecs_safe usecs

/-- `interval.rs::IntervalDT::extract` (interval.rs:404), body sha1 589973dce0e1 -/
def IntervalDT.extract (self : Int) : Int × Int × Int × Int × Int × Int :=
  -- interval.rs:405: let (sign, day, mut time) = if self.0.is_negative() {
  let sign_day_time : Int × Int × Int :=
    if self < 0 then
      -- interval.rs:406: let day = -self.0 / USECONDS_PER_DAY;
      let day : Int := rdiv (-self) USECONDS_PER_DAY
      (-1, day, -self - day * USECONDS_PER_DAY)
    else
      -- interval.rs:409: let day = self.0 / USECONDS_PER_DAY;
      let day : Int := rdiv self USECONDS_PER_DAY
      (1, day, self - day * USECONDS_PER_DAY)
  let sign : Int := sign_day_time.1
  let day : Int := sign_day_time.2.1
  let time : Int := sign_day_time.2.2
  -- interval.rs:413: let hour = time / USECONDS_PER_HOUR;
  let hour : Int := rdiv time USECONDS_PER_HOUR
  -- interval.rs:414: time -= hour * USECONDS_PER_HOUR;
  let time : Int := time - hour * USECONDS_PER_HOUR
  -- interval.rs:416: let minute = time / USECONDS_PER_MINUTE;
  let minute : Int := rdiv time USECONDS_PER_MINUTE
  -- interval.rs:417: time -= minute * USECONDS_PER_MINUTE;
  let time : Int := time - minute * USECONDS_PER_MINUTE
  -- interval.rs:419: let sec = time / USECONDS_PER_SECOND;
  let sec : Int := rdiv time USECONDS_PER_SECOND
  -- interval.rs:420: let usec = time - sec * USECONDS_PER_SECOND;
  let usec : Int := time - sec * USECONDS_PER_SECOND
  (sign, asU32 day, asU32 hour, asU32 minute, asU32 sec, asU32 usec)

/-- No arithmetic node of `interval.rs::IntervalDT::extract` leaves its Rust integer type, no division by zero, no index out of range
    (path-sensitive; calls contribute the callee's predicate). -/
def IntervalDT.extract_safe (self : Int) : Prop :=
  (self < 0 →
    fitsI64 (-self) ∧
    let day : Int := rdiv (-self) USECONDS_PER_DAY
    (fitsI64 (-self) ∧ fitsI64 (day * USECONDS_PER_DAY)) ∧ fitsI64 (-self - day * USECONDS_PER_DAY)) ∧
  (¬ self < 0 →
    let day : Int := rdiv self USECONDS_PER_DAY
    fitsI64 (day * USECONDS_PER_DAY) ∧ fitsI64 (self - day * USECONDS_PER_DAY)) ∧
  let sign_day_time : Int × Int × Int :=
    if self < 0 then
      -- interval.rs:406: let day = -self.0 / USECONDS_PER_DAY;
      let day : Int := rdiv (-self) USECONDS_PER_DAY
      (-1, day, -self - day * USECONDS_PER_DAY)
    else
      -- interval.rs:409: let day = self.0 / USECONDS_PER_DAY;
      let day : Int := rdiv self USECONDS_PER_DAY
      (1, day, self - day * USECONDS_PER_DAY)
  let sign : Int := sign_day_time.1
  let day : Int := sign_day_time.2.1
  let time : Int := sign_day_time.2.2
  let hour : Int := rdiv time USECONDS_PER_HOUR
  fitsI64 (hour * USECONDS_PER_HOUR) ∧
  fitsI64 (time - hour * USECONDS_PER_HOUR) ∧
  let time : Int := time - hour * USECONDS_PER_HOUR
  let minute : Int := rdiv time USECONDS_PER_MINUTE
  fitsI64 (minute * USECONDS_PER_MINUTE) ∧
  fitsI64 (time - minute * USECONDS_PER_MINUTE) ∧
  let time : Int := time - minute * USECONDS_PER_MINUTE
  let sec : Int := rdiv time USECONDS_PER_SECOND
  fitsI64 (sec * USECONDS_PER_SECOND) ∧ fitsI64 (time - sec * USECONDS_PER_SECOND)

/-- `interval.rs::IntervalDT::add_interval_dt` (interval.rs:453), body sha1 0b9ffbe30cfb -/
def IntervalDT.add_interval_dt (self : Int) (interval : Int) : Chk Int :=
  -- interval.rs:454: let result = self.usecs().checked_add(interval.usecs());
  let result : Option Int := checkedI64 (self + interval)
  match result with
  | some i => Tr.IntervalDT.try_from_usecs i
  | none => Except.error Err.IntervalOutOfRange

/-- No arithmetic node of `interval.rs::IntervalDT::add_interval_dt` leaves its Rust integer type, no division by zero, no index out of range
    (path-sensitive; calls contribute the callee's predicate). -/
def IntervalDT.add_interval_dt_safe (self : Int) (interval : Int) : Prop :=
  let result : Option Int := checkedI64 (self + interval)
  match result with
  | some i => Tr.IntervalDT.try_from_usecs_safe i
  | none => True

/-- `interval.rs::IntervalDT::sub_interval_dt` (interval.rs:463), body sha1 31860c72f51f -/
def IntervalDT.sub_interval_dt (self : Int) (interval : Int) : Chk Int :=
  Tr.IntervalDT.add_interval_dt self (Tr.IntervalDT.negate interval)

/-- No arithmetic node of `interval.rs::IntervalDT::sub_interval_dt` leaves its Rust integer type, no division by zero, no index out of range
    (path-sensitive; calls contribute the callee's predicate). -/
def IntervalDT.sub_interval_dt_safe (self : Int) (interval : Int) : Prop :=
  Tr.IntervalDT.negate_safe interval ∧ Tr.IntervalDT.add_interval_dt_safe self (Tr.IntervalDT.negate interval)

/-- `interval.rs::IntervalDT::sub_time` (interval.rs:502), body sha1 3df68ce792e2 -/
def IntervalDT.sub_time (self : Int) (time : Int) : Chk Int :=
  Tr.IntervalDT.try_from_usecs (self - time)

/-- No arithmetic node of `interval.rs::IntervalDT::sub_time` leaves its Rust integer type, no division by zero, no index out of range
    (path-sensitive; calls contribute the callee's predicate). -/
def IntervalDT.sub_time_safe (self : Int) (time : Int) : Prop :=
  fitsI64 (self - time) ∧ Tr.IntervalDT.try_from_usecs_safe (self - time)

/-- `interval.rs::IntervalYM::mul_f64` (interval.rs:165), body sha1 4c83c916e4c3 -/
def IntervalYM.mul_f64 (self : Int) (number : F64) : Chk Int :=
  -- interval.rs:166: let months = self.months() as f64;
  let months : F64 := F64.ofInt self
  -- interval.rs:167: let result = months * number;
  let result : F64 := F64.mul months number
  if F64.isInfinite result = true then
    Except.error Err.NumericOverflow
  else if F64.isNan result = true then
    Except.error Err.InvalidNumber
  else
    Tr.IntervalYM.try_from_months (F64.toI32 result)

/-- No arithmetic node of `interval.rs::IntervalYM::mul_f64` leaves its Rust integer type, no division by zero, no index out of range
    (path-sensitive; calls contribute the callee's predicate). -/
def IntervalYM.mul_f64_safe (self : Int) (number : F64) : Prop :=
  let months : F64 := F64.ofInt self
  let result : F64 := F64.mul months number
  (¬ F64.isInfinite result = true →
    ¬ F64.isNan result = true → Tr.IntervalYM.try_from_months_safe (F64.toI32 result))

/-- `interval.rs::IntervalYM::div_f64` (interval.rs:180), body sha1 b901a3914a1c -/
def IntervalYM.div_f64 (self : Int) (number : F64) : Chk Int :=
  -- interval.rs:181: if number == 0.0 {
  if F64.isZero number = true then
    -- interval.rs:182: return Err(Error::DivideByZero);
    Except.error Err.DivideByZero
  else
    -- interval.rs:184: let months = self.months() as f64;
    let months : F64 := F64.ofInt self
    -- interval.rs:185: let result = months / number;
    let result : F64 := F64.div months number
    if F64.isInfinite result = true then
      Except.error Err.NumericOverflow
    else if F64.isNan result = true then
      Except.error Err.InvalidNumber
    else
      Tr.IntervalYM.try_from_months (F64.toI32 result)

/-- No arithmetic node of `interval.rs::IntervalYM::div_f64` leaves its Rust integer type, no division by zero, no index out of range
    (path-sensitive; calls contribute the callee's predicate). -/
def IntervalYM.div_f64_safe (self : Int) (number : F64) : Prop :=
  (¬ F64.isZero number = true →
    let months : F64 := F64.ofInt self
    let result : F64 := F64.div months number
    (¬ F64.isInfinite result = true →
      ¬ F64.isNan result = true → Tr.IntervalYM.try_from_months_safe (F64.toI32 result)))

/-- `interval.rs::IntervalDT::mul_f64` (interval.rs:469), body sha1 40886ff102a5 -/
def IntervalDT.mul_f64 (self : Int) (number : F64) : Chk Int :=
  -- interval.rs:470: let usecs = self.usecs() as f64;
  let usecs : F64 := F64.ofInt self
  -- interval.rs:471: let result = usecs * number;
  let result : F64 := F64.mul usecs number
  if F64.isInfinite result = true then
    Except.error Err.NumericOverflow
  else if F64.isNan result = true then
    Except.error Err.InvalidNumber
  else
    Tr.IntervalDT.try_from_usecs (F64.toI64 result)

/-- No arithmetic node of `interval.rs::IntervalDT::mul_f64` leaves its Rust integer type, no division by zero, no index out of range
    (path-sensitive; calls contribute the callee's predicate). -/
def IntervalDT.mul_f64_safe (self : Int) (number : F64) : Prop :=
  let usecs : F64 := F64.ofInt self
  let result : F64 := F64.mul usecs number
  (¬ F64.isInfinite result = true →
    ¬ F64.isNan result = true → Tr.IntervalDT.try_from_usecs_safe (F64.toI64 result))

/-- `interval.rs::IntervalDT::div_f64` (interval.rs:484), body sha1 1bf6c52fe61c -/
def IntervalDT.div_f64 (self : Int) (number : F64) : Chk Int :=
  -- interval.rs:485: if number == 0.0 {
  if F64.isZero number = true then
    -- interval.rs:486: return Err(Error::DivideByZero);
    Except.error Err.DivideByZero
  else
    -- interval.rs:488: let usecs = self.usecs() as f64;
    let usecs : F64 := F64.ofInt self
    -- interval.rs:489: let result = usecs / number;
    let result : F64 := F64.div usecs number
    if F64.isInfinite result = true then
      Except.error Err.NumericOverflow
    else if F64.isNan result = true then
      Except.error Err.InvalidNumber
    else
      Tr.IntervalDT.try_from_usecs (F64.toI64 result)

/-- No arithmetic node of `interval.rs::IntervalDT::div_f64` leaves its Rust integer type, no division by zero, no index out of range
    (path-sensitive; calls contribute the callee's predicate). -/
def IntervalDT.div_f64_safe (self : Int) (number : F64) : Prop :=
  (¬ F64.isZero number = true →
    let usecs : F64 := F64.ofInt self
    let result : F64 := F64.div usecs number
    (¬ F64.isInfinite result = true →
      ¬ F64.isNan result = true → Tr.IntervalDT.try_from_usecs_safe (F64.toI64 result)))

/-- `interval.rs::DateTime for IntervalDT::second` (interval.rs:600), body sha1 146d3cbcbe07 -/
def IntervalDT.second (self : Int) : Option F64 :=
  -- interval.rs:601: let remain_time = self.usecs() % USECONDS_PER_MINUTE;
  let remain_time : Int := rrem self USECONDS_PER_MINUTE
  some (F64.div (F64.ofInt remain_time) (F64.ofInt USECONDS_PER_SECOND))

/-- No arithmetic node of `interval.rs::DateTime for IntervalDT::second` leaves its Rust integer type, no division by zero, no index out of range
    (path-sensitive; calls contribute the callee's predicate). -/
def IntervalDT.second_safe (self : Int) : Prop :=
  True

/-- `time.rs::Time::mul_f64` (time.rs:187), body sha1 a2a71080114a -/
def Time.mul_f64 (self : Int) (number : F64) : Chk Int :=
  Tr.IntervalDT.mul_f64 self number

/-- No arithmetic node of `time.rs::Time::mul_f64` leaves its Rust integer type, no division by zero, no index out of range
    (path-sensitive; calls contribute the callee's predicate). -/
def Time.mul_f64_safe (self : Int) (number : F64) : Prop :=
  Tr.IntervalDT.mul_f64_safe self number

/-- `time.rs::Time::div_f64` (time.rs:193), body sha1 cbc22b280a4b -/
def Time.div_f64 (self : Int) (number : F64) : Chk Int :=
  Tr.IntervalDT.div_f64 self number

/-- No arithmetic node of `time.rs::Time::div_f64` leaves its Rust integer type, no division by zero, no index out of range
    (path-sensitive; calls contribute the callee's predicate). -/
def Time.div_f64_safe (self : Int) (number : F64) : Prop :=
  Tr.IntervalDT.div_f64_safe self number

/-- `time.rs::DateTime for Time::second` (time.rs:294), body sha1 146d3cbcbe07 -/
def Time.second (self : Int) : Option F64 :=
  -- time.rs:295: let remain_time = self.usecs() % USECONDS_PER_MINUTE;
  let remain_time : Int := rrem self USECONDS_PER_MINUTE
  some (F64.div (F64.ofInt remain_time) (F64.ofInt USECONDS_PER_SECOND))

/-- No arithmetic node of `time.rs::DateTime for Time::second` leaves its Rust integer type, no division by zero, no index out of range
    (path-sensitive; calls contribute the callee's predicate). -/
def Time.second_safe (self : Int) : Prop :=
  True

/-- `timestamp.rs::Timestamp::add_days` (timestamp.rs:144), body sha1 0493de9d165b -/
def Timestamp.add_days (self : Int) (days : F64) : Chk Int :=
  -- timestamp.rs:145: let microseconds = (days * USECONDS_PER_DAY as f64).round();
  let microseconds : F64 := F64.roundHalfAway (F64.mul days (F64.ofInt USECONDS_PER_DAY))
  if F64.isInfinite microseconds = true then
    Except.error Err.NumericOverflow
  else if F64.isNan microseconds = true then
    Except.error Err.InvalidNumber
  else
    -- timestamp.rs:151: let result = self.usecs().checked_add(microseconds as i64);
    let result : Option Int := checkedI64 (self + F64.toI64 microseconds)
    match result with
    | some d => Tr.Timestamp.try_from_usecs d
    | none => Except.error Err.DateOutOfRange

/-- No arithmetic node of `timestamp.rs::Timestamp::add_days` leaves its Rust integer type, no division by zero, no index out of range
    (path-sensitive; calls contribute the callee's predicate). -/
def Timestamp.add_days_safe (self : Int) (days : F64) : Prop :=
  let microseconds : F64 := F64.roundHalfAway (F64.mul days (F64.ofInt USECONDS_PER_DAY))
  (¬ F64.isInfinite microseconds = true →
    (¬ F64.isNan microseconds = true →
      let result : Option Int := checkedI64 (self + F64.toI64 microseconds)
      match result with
      | some d => Tr.Timestamp.try_from_usecs_safe d
      | none => True))

/-- `timestamp.rs::Timestamp::sub_days` (timestamp.rs:193), body sha1 1ac4837eab3c -/
def Timestamp.sub_days (self : Int) (days : F64) : Chk Int :=
  Tr.Timestamp.add_days self (F64.neg days)

/-- No arithmetic node of `timestamp.rs::Timestamp::sub_days` leaves its Rust integer type, no division by zero, no index out of range
    (path-sensitive; calls contribute the callee's predicate). -/
def Timestamp.sub_days_safe (self : Int) (days : F64) : Prop :=
  Tr.Timestamp.add_days_safe self (F64.neg days)

/-- `timestamp.rs::DateTime for Timestamp::second` (timestamp.rs:511), body sha1 cc7ecfc1a890 -/
def Timestamp.second (self : Int) : Option F64 :=
  Tr.Time.second (Tr.Timestamp.time self)

/-- No arithmetic node of `timestamp.rs::DateTime for Timestamp::second` leaves its Rust integer type, no division by zero, no index out of range
    (path-sensitive; calls contribute the callee's predicate). -/
def Timestamp.second_safe (self : Int) : Prop :=
  Tr.Timestamp.time_safe self ∧ Tr.Time.second_safe (Tr.Timestamp.time self)

/-- `oracle.rs::OracleDate::add_days` (oracle.rs:121), body sha1 8ef2f2dd1ce9 -/
def OracleDate.add_days (self : Int) (days : F64) : Chk Int :=
  match Tr.Timestamp.add_days self days with
  | Except.error err => Except.error err
  | Except.ok r1 =>
      -- oracle.rs:122: let timestamp = self.0.add_days(days)?;
      let timestamp : Int := r1
      -- oracle.rs:125: let usecs = timestamp.usecs();
      let usecs : Int := timestamp
      -- oracle.rs:126: let mut secs = usecs / USECONDS_PER_SECOND;
      let secs : Int := rdiv usecs USECONDS_PER_SECOND
      -- oracle.rs:127: if (usecs % USECONDS_PER_SECOND).abs() * 2 >= USECONDS_PER_SECOND {
      let secs : Int :=
        if absI64 (rrem usecs USECONDS_PER_SECOND) * 2 ≥ USECONDS_PER_SECOND then
          -- oracle.rs:128: secs += usecs.signum();
          let secs : Int := secs + signum usecs
          secs
        else
          secs
      match Tr.Timestamp.try_from_usecs (secs * USECONDS_PER_SECOND) with
      | Except.error err => Except.error err
      | Except.ok r2 => Except.ok r2

/-- No arithmetic node of `oracle.rs::OracleDate::add_days` leaves its Rust integer type, no division by zero, no index out of range
    (path-sensitive; calls contribute the callee's predicate). -/
def OracleDate.add_days_safe (self : Int) (days : F64) : Prop :=
  Tr.Timestamp.add_days_safe self days ∧
  (match Tr.Timestamp.add_days self days with
   | Except.error err => True
   | Except.ok r1 =>
       let timestamp : Int := r1
       let usecs : Int := timestamp
       let secs : Int := rdiv usecs USECONDS_PER_SECOND
       fitsI64 (absI (rrem usecs USECONDS_PER_SECOND)) ∧
       fitsI64 (absI64 (rrem usecs USECONDS_PER_SECOND) * 2) ∧
       (absI64 (rrem usecs USECONDS_PER_SECOND) * 2 ≥ USECONDS_PER_SECOND → fitsI64 (secs + signum usecs)) ∧
       let secs : Int :=
         if absI64 (rrem usecs USECONDS_PER_SECOND) * 2 ≥ USECONDS_PER_SECOND then
           -- oracle.rs:128: secs += usecs.signum();
           let secs : Int := secs + signum usecs
           secs
         else
           secs
       fitsI64 (secs * USECONDS_PER_SECOND) ∧ Tr.Timestamp.try_from_usecs_safe (secs * USECONDS_PER_SECOND))

/-- `oracle.rs::OracleDate::sub_days` (oracle.rs:165), body sha1 1ac4837eab3c -/
def OracleDate.sub_days (self : Int) (days : F64) : Chk Int :=
  Tr.OracleDate.add_days self (F64.neg days)

/-- No arithmetic node of `oracle.rs::OracleDate::sub_days` leaves its Rust integer type, no division by zero, no index out of range
    (path-sensitive; calls contribute the callee's predicate). -/
def OracleDate.sub_days_safe (self : Int) (days : F64) : Prop :=
  Tr.OracleDate.add_days_safe self (F64.neg days)

/-- `oracle.rs::OracleDate::sub_date` (oracle.rs:135), body sha1 0cda7f6b9fd2 -/
def OracleDate.sub_date (self : Int) (date : Int) : F64 :=
  F64.div (F64.ofInt (self - date)) (F64.ofInt USECONDS_PER_DAY)

/-- No arithmetic node of `oracle.rs::OracleDate::sub_date` leaves its Rust integer type, no division by zero, no index out of range
    (path-sensitive; calls contribute the callee's predicate). -/
def OracleDate.sub_date_safe (self : Int) (date : Int) : Prop :=
  fitsI64 (self - date)

/-- `oracle.rs::From<Timestamp> for OracleDate::from` (oracle.rs:371), body sha1 4c99cc211bfc -/
def OracleDate.from_timestamp (timestamp : Int) : Int :=
  -- oracle.rs:372: let usecs = timestamp.usecs();
  let usecs : Int := timestamp
  -- oracle.rs:373: let temp = usecs / USECONDS_PER_SECOND * USECONDS_PER_SECOND;
  let temp : Int := rdiv usecs USECONDS_PER_SECOND * USECONDS_PER_SECOND
  -- oracle.rs:374: let result = if usecs < 0 && temp > usecs {
  let result : Int := if usecs < 0 ∧ temp > usecs then temp - USECONDS_PER_SECOND else temp
  result

/-- No arithmetic node of `oracle.rs::From<Timestamp> for OracleDate::from` leaves its Rust integer type, no division by zero, no index out of range
    (path-sensitive; calls contribute the callee's predicate). -/
def OracleDate.from_timestamp_safe (timestamp : Int) : Prop :=
  let usecs : Int := timestamp
  fitsI64 (rdiv usecs USECONDS_PER_SECOND * USECONDS_PER_SECOND) ∧
  let temp : Int := rdiv usecs USECONDS_PER_SECOND * USECONDS_PER_SECOND
  usecs < 0 ∧ temp > usecs → fitsI64 (temp - USECONDS_PER_SECOND)

/-- `oracle.rs::Timestamp::oracle_add_days` (oracle.rs:321), body sha1 5a4365df5fd3 -/
def Timestamp.oracle_add_days (self : Int) (days : F64) : Chk Int :=
  Tr.OracleDate.add_days (Tr.OracleDate.from_timestamp self) days

/-- No arithmetic node of `oracle.rs::Timestamp::oracle_add_days` leaves its Rust integer type, no division by zero, no index out of range
    (path-sensitive; calls contribute the callee's predicate). -/
def Timestamp.oracle_add_days_safe (self : Int) (days : F64) : Prop :=
  Tr.OracleDate.from_timestamp_safe self ∧
  Tr.OracleDate.add_days_safe (Tr.OracleDate.from_timestamp self) days

/-- `oracle.rs::Timestamp::oracle_sub_days` (oracle.rs:327), body sha1 4e8bad1bbcb1 -/
def Timestamp.oracle_sub_days (self : Int) (days : F64) : Chk Int :=
  Tr.OracleDate.add_days (Tr.OracleDate.from_timestamp self) (F64.neg days)

/-- No arithmetic node of `oracle.rs::Timestamp::oracle_sub_days` leaves its Rust integer type, no division by zero, no index out of range
    (path-sensitive; calls contribute the callee's predicate). -/
def Timestamp.oracle_sub_days_safe (self : Int) (days : F64) : Prop :=
  Tr.OracleDate.from_timestamp_safe self ∧
  Tr.OracleDate.add_days_safe (Tr.OracleDate.from_timestamp self) (F64.neg days)

/-- `format.rs::NaiveDateTime::new` (format.rs:327), body sha1 219f380c2b4d -/
def NDT.new  : SqlDt.NDT :=
  ({ year := DATE_MIN_YEAR, month := 0, day := 1, hour := 0, minute := 0, sec := 0, usec := 0, ampm := none, negative := false } : SqlDt.NDT)

/-- No arithmetic node of `format.rs::NaiveDateTime::new` leaves its Rust integer type, no division by zero, no index out of range
    (path-sensitive; calls contribute the callee's predicate). -/
def NDT.new_safe  : Prop :=
  True

/-- `format.rs::NaiveDateTime::hour12` (format.rs:362), body sha1 0921a2c3f081 -/
def NDT.hour12 (self : SqlDt.NDT) : Int :=
  let m1 : Int := self.hour
  if m1 = 0 then 12 else if 1 ≤ m1 ∧ m1 ≤ 12 then self.hour else self.hour - 12

/-- No arithmetic node of `format.rs::NaiveDateTime::hour12` leaves its Rust integer type, no division by zero, no index out of range
    (path-sensitive; calls contribute the callee's predicate). -/
def NDT.hour12_safe (self : SqlDt.NDT) : Prop :=
  let m1 : Int := self.hour
  ¬ m1 = 0 → ¬ (1 ≤ m1 ∧ m1 ≤ 12) → fitsU32 (self.hour - 12)

/-- `format.rs::NaiveDateTime::adjust_hour12` (format.rs:397), body sha1 f891da308067 -/
def NDT.adjust_hour12 (self : SqlDt.NDT) : SqlDt.NDT :=
  let self : SqlDt.NDT :=
    match self.ampm with
    | some ampm =>
        -- format.rs:399: let hour24 = match ampm {
        let hour24 : Int :=
          if ampm = false then
            if self.hour = 12 then 0 else self.hour
          else if self.hour = 12 then
            12
          else
            self.hour + 12
        -- format.rs:416: self.hour = hour24 as u32;
        let self : SqlDt.NDT := { self with hour := hour24 }
        self
    | _ => self
  self

/-- No arithmetic node of `format.rs::NaiveDateTime::adjust_hour12` leaves its Rust integer type, no division by zero, no index out of range
    (path-sensitive; calls contribute the callee's predicate). -/
def NDT.adjust_hour12_safe (self : SqlDt.NDT) : Prop :=
  match self.ampm with
  | some ampm => ¬ ampm = false → ¬ self.hour = 12 → fitsU32 (self.hour + 12)
  | _ => True

/-- `date.rs::From<Date> for NaiveDateTime::from` (date.rs:712), body sha1 7f54a49d3756 -/
def NDT.of_date (date : Int) : SqlDt.NDT :=
  -- date.rs:713: let (year, month, day) = date.extract();
  let year_month_day : Int × Int × Int := Tr.Date.extract date
  let year : Int := year_month_day.1
  let month : Int := year_month_day.2.1
  let day : Int := year_month_day.2.2
  { Tr.NDT.new with year := year, month := month, day := day }

/-- No arithmetic node of `date.rs::From<Date> for NaiveDateTime::from` leaves its Rust integer type, no division by zero, no index out of range
    (path-sensitive; calls contribute the callee's predicate). -/
def NDT.of_date_safe (date : Int) : Prop :=
  Tr.Date.extract_safe date ∧
  let year_month_day : Int × Int × Int := Tr.Date.extract date
  let year : Int := year_month_day.1
  let month : Int := year_month_day.2.1
  let day : Int := year_month_day.2.2
  Tr.NDT.new_safe

/-- `time.rs::From<Time> for NaiveDateTime::from` (time.rs:200), body sha1 7979379a6dec -/
def NDT.of_time (time : Int) : SqlDt.NDT :=
  -- time.rs:201: let (hour, minute, sec, usec) = time.extract();
  let hour_minute_sec_usec : Int × Int × Int × Int := Tr.Time.extract time
  let hour : Int := hour_minute_sec_usec.1
  let minute : Int := hour_minute_sec_usec.2.1
  let sec : Int := hour_minute_sec_usec.2.2.1
  let usec : Int := hour_minute_sec_usec.2.2.2
  { Tr.NDT.new with hour := hour, minute := minute, sec := sec, usec := usec }

/-- No arithmetic node of `time.rs::From<Time> for NaiveDateTime::from` leaves its Rust integer type, no division by zero, no index out of range
    (path-sensitive; calls contribute the callee's predicate). -/
def NDT.of_time_safe (time : Int) : Prop :=
  Tr.Time.extract_safe time ∧
  let hour_minute_sec_usec : Int × Int × Int × Int := Tr.Time.extract time
  let hour : Int := hour_minute_sec_usec.1
  let minute : Int := hour_minute_sec_usec.2.1
  let sec : Int := hour_minute_sec_usec.2.2.1
  let usec : Int := hour_minute_sec_usec.2.2.2
  Tr.NDT.new_safe

/-- `timestamp.rs::From<Timestamp> for NaiveDateTime::from` (timestamp.rs:410), body sha1 b9e2cfb37c87 -/
def NDT.of_timestamp (ts : Int) : SqlDt.NDT :=
  -- timestamp.rs:411: let (date, time) = ts.extract();
  let date_time : Int × Int := Tr.Timestamp.extract ts
  let date : Int := date_time.1
  let time : Int := date_time.2
  -- timestamp.rs:412: let (year, month, day) = date.extract();
  let year_month_day : Int × Int × Int := Tr.Date.extract date
  let year : Int := year_month_day.1
  let month : Int := year_month_day.2.1
  let day : Int := year_month_day.2.2
  -- timestamp.rs:413: let (hour, minute, sec, usec) = time.extract();
  let hour_minute_sec_usec : Int × Int × Int × Int := Tr.Time.extract time
  let hour : Int := hour_minute_sec_usec.1
  let minute : Int := hour_minute_sec_usec.2.1
  let sec : Int := hour_minute_sec_usec.2.2.1
  let usec : Int := hour_minute_sec_usec.2.2.2
  ({ year := year, month := month, day := day, hour := hour, minute := minute, sec := sec, usec := usec, ampm := none, negative := false } : SqlDt.NDT)

/-- No arithmetic node of `timestamp.rs::From<Timestamp> for NaiveDateTime::from` leaves its Rust integer type, no division by zero, no index out of range
    (path-sensitive; calls contribute the callee's predicate). -/
def NDT.of_timestamp_safe (ts : Int) : Prop :=
  Tr.Timestamp.extract_safe ts ∧
  let date_time : Int × Int := Tr.Timestamp.extract ts
  let date : Int := date_time.1
  let time : Int := date_time.2
  Tr.Date.extract_safe date ∧
  let year_month_day : Int × Int × Int := Tr.Date.extract date
  let year : Int := year_month_day.1
  let month : Int := year_month_day.2.1
  let day : Int := year_month_day.2.2
  Tr.Time.extract_safe time

/-- `interval.rs::From<IntervalYM> for NaiveDateTime::from` (interval.rs:199), body sha1 b3cf790dcbda -/
def NDT.of_interval_ym (interval : Int) : SqlDt.NDT :=
  -- interval.rs:200: let (sign, year, month) = interval.extract();
  let sign_year_month : Int × Int × Int := Tr.IntervalYM.extract interval
  let sign : Int := sign_year_month.1
  let year : Int := sign_year_month.2.1
  let month : Int := sign_year_month.2.2
  -- interval.rs:201: let negative = sign == Negative;
  let negative : Bool := decide (sign = (-1))
  { Tr.NDT.new with year := asI32 year, month := month, negative := negative }

/-- No arithmetic node of `interval.rs::From<IntervalYM> for NaiveDateTime::from` leaves its Rust integer type, no division by zero, no index out of range
    (path-sensitive; calls contribute the callee's predicate). -/
def NDT.of_interval_ym_safe (interval : Int) : Prop :=
  Tr.IntervalYM.extract_safe interval ∧
  let sign_year_month : Int × Int × Int := Tr.IntervalYM.extract interval
  let sign : Int := sign_year_month.1
  let year : Int := sign_year_month.2.1
  let month : Int := sign_year_month.2.2
  let negative : Bool := decide (sign = (-1))
  Tr.NDT.new_safe

/-- `interval.rs::From<IntervalDT> for NaiveDateTime::from` (interval.rs:509), body sha1 54791c39468a -/
def NDT.of_interval_dt (interval : Int) : SqlDt.NDT :=
  -- interval.rs:510: let (sign, day, hour, minute, sec, usec) = interval.extract();
  let sign_day_hour_minute_sec_usec : Int × Int × Int × Int × Int × Int := Tr.IntervalDT.extract interval
  let sign : Int := sign_day_hour_minute_sec_usec.1
  let day : Int := sign_day_hour_minute_sec_usec.2.1
  let hour : Int := sign_day_hour_minute_sec_usec.2.2.1
  let minute : Int := sign_day_hour_minute_sec_usec.2.2.2.1
  let sec : Int := sign_day_hour_minute_sec_usec.2.2.2.2.1
  let usec : Int := sign_day_hour_minute_sec_usec.2.2.2.2.2
  -- interval.rs:511: let negative = sign == Sign::Negative;
  let negative : Bool := decide (sign = (-1))
  { Tr.NDT.new with day := day, hour := hour, minute := minute, sec := sec, usec := usec, negative := negative }

/-- No arithmetic node of `interval.rs::From<IntervalDT> for NaiveDateTime::from` leaves its Rust integer type, no division by zero, no index out of range
    (path-sensitive; calls contribute the callee's predicate). -/
def NDT.of_interval_dt_safe (interval : Int) : Prop :=
  Tr.IntervalDT.extract_safe interval ∧
  let sign_day_hour_minute_sec_usec : Int × Int × Int × Int × Int × Int := Tr.IntervalDT.extract interval
  let sign : Int := sign_day_hour_minute_sec_usec.1
  let day : Int := sign_day_hour_minute_sec_usec.2.1
  let hour : Int := sign_day_hour_minute_sec_usec.2.2.1
  let minute : Int := sign_day_hour_minute_sec_usec.2.2.2.1
  let sec : Int := sign_day_hour_minute_sec_usec.2.2.2.2.1
  let usec : Int := sign_day_hour_minute_sec_usec.2.2.2.2.2
  let negative : Bool := decide (sign = (-1))
  Tr.NDT.new_safe

/-- `oracle.rs::From<OracleDate> for NaiveDateTime::from` (oracle.rs:415), body sha1 33d9fe7002af -/
-- inlined helpers: oracle.rs::Date::extract
def NDT.of_oracle_date (dt : Int) : SqlDt.NDT :=
  -- oracle.rs:416: let (date, time) = dt.extract();
  let date_time : Int × Int := (fun (self : Int) => Tr.Timestamp.extract self) dt
  let date : Int := date_time.1
  let time : Int := date_time.2
  -- oracle.rs:417: let (year, month, day) = date.extract();
  let year_month_day : Int × Int × Int := Tr.Date.extract date
  let year : Int := year_month_day.1
  let month : Int := year_month_day.2.1
  let day : Int := year_month_day.2.2
  -- oracle.rs:418: let (hour, minute, sec, usec) = time.extract();
  let hour_minute_sec_usec : Int × Int × Int × Int := Tr.Time.extract time
  let hour : Int := hour_minute_sec_usec.1
  let minute : Int := hour_minute_sec_usec.2.1
  let sec : Int := hour_minute_sec_usec.2.2.1
  let usec : Int := hour_minute_sec_usec.2.2.2
  ({ year := year, month := month, day := day, hour := hour, minute := minute, sec := sec, usec := usec, ampm := none, negative := false } : SqlDt.NDT)

/-- No arithmetic node of `oracle.rs::From<OracleDate> for NaiveDateTime::from` leaves its Rust integer type, no division by zero, no index out of range
    (path-sensitive; calls contribute the callee's predicate). -/
def NDT.of_oracle_date_safe (dt : Int) : Prop :=
  (fun (self : Int) => Tr.Timestamp.extract_safe self) dt ∧
  let date_time : Int × Int := (fun (self : Int) => Tr.Timestamp.extract self) dt
  let date : Int := date_time.1
  let time : Int := date_time.2
  Tr.Date.extract_safe date ∧
  let year_month_day : Int × Int × Int := Tr.Date.extract date
  let year : Int := year_month_day.1
  let month : Int := year_month_day.2.1
  let day : Int := year_month_day.2.2
  Tr.Time.extract_safe time

/-- `date.rs::TryFrom<&NaiveDateTime> for Date::try_from` (date.rs:742), body sha1 8fb9f3db59bc -/
def Date.try_from_ndt_ref (dt : SqlDt.NDT) : Chk Int :=
  Tr.Date.try_from_ymd dt.year dt.month dt.day

/-- No arithmetic node of `date.rs::TryFrom<&NaiveDateTime> for Date::try_from` leaves its Rust integer type, no division by zero, no index out of range
    (path-sensitive; calls contribute the callee's predicate). -/
def Date.try_from_ndt_ref_safe (dt : SqlDt.NDT) : Prop :=
  Tr.Date.try_from_ymd_safe dt.year dt.month dt.day

/-- `date.rs::TryFrom<NaiveDateTime> for Date::try_from` (date.rs:751), body sha1 0b58f5647373 -/
def Date.try_from_ndt (dt : SqlDt.NDT) : Chk Int :=
  Tr.Date.try_from_ndt_ref dt

/-- No arithmetic node of `date.rs::TryFrom<NaiveDateTime> for Date::try_from` leaves its Rust integer type, no division by zero, no index out of range
    (path-sensitive; calls contribute the callee's predicate). -/
def Date.try_from_ndt_safe (dt : SqlDt.NDT) : Prop :=
  Tr.Date.try_from_ndt_ref_safe dt

/-- `time.rs::TryFrom<&NaiveDateTime> for Time::try_from` (time.rs:246), body sha1 97ca26e286bd -/
def Time.try_from_ndt_ref (dt : SqlDt.NDT) : Chk Int :=
  match Tr.Time.validate_hms dt.hour dt.minute dt.sec with
  | Except.error err => Except.error err
  | Except.ok r1 =>
      -- time.rs:248: let total_usec = dt.hour as i64 * USECONDS_PER_HOUR
      let total_usec : Int :=
        dt.hour * USECONDS_PER_HOUR + dt.minute * USECONDS_PER_MINUTE + dt.sec * USECONDS_PER_SECOND + dt.usec
      Tr.Time.try_from_usecs total_usec

/-- No arithmetic node of `time.rs::TryFrom<&NaiveDateTime> for Time::try_from` leaves its Rust integer type, no division by zero, no index out of range
    (path-sensitive; calls contribute the callee's predicate). -/
def Time.try_from_ndt_ref_safe (dt : SqlDt.NDT) : Prop :=
  Tr.Time.validate_hms_safe dt.hour dt.minute dt.sec ∧
  (match Tr.Time.validate_hms dt.hour dt.minute dt.sec with
   | Except.error err => True
   | Except.ok r1 =>
       fitsI64 (dt.hour * USECONDS_PER_HOUR) ∧
       fitsI64 (dt.minute * USECONDS_PER_MINUTE) ∧
       fitsI64 (dt.hour * USECONDS_PER_HOUR + dt.minute * USECONDS_PER_MINUTE) ∧
       fitsI64 (dt.sec * USECONDS_PER_SECOND) ∧
       (fitsI64 (dt.hour * USECONDS_PER_HOUR + dt.minute * USECONDS_PER_MINUTE + dt.sec * USECONDS_PER_SECOND)) ∧
       (fitsI64 (dt.hour * USECONDS_PER_HOUR + dt.minute * USECONDS_PER_MINUTE + dt.sec * USECONDS_PER_SECOND + dt.usec)) ∧
       let total_usec : Int :=
         dt.hour * USECONDS_PER_HOUR + dt.minute * USECONDS_PER_MINUTE + dt.sec * USECONDS_PER_SECOND + dt.usec
       Tr.Time.try_from_usecs_safe total_usec)

/-- `time.rs::TryFrom<NaiveDateTime> for Time::try_from` (time.rs:261), body sha1 c3fda3dbaaad -/
def Time.try_from_ndt (dt : SqlDt.NDT) : Chk Int :=
  Tr.Time.try_from_ndt_ref dt

/-- No arithmetic node of `time.rs::TryFrom<NaiveDateTime> for Time::try_from` leaves its Rust integer type, no division by zero, no index out of range
    (path-sensitive; calls contribute the callee's predicate). -/
def Time.try_from_ndt_safe (dt : SqlDt.NDT) : Prop :=
  Tr.Time.try_from_ndt_ref_safe dt

/-- `date.rs::Date::validate_ymd` (date.rs:161), body sha1 07259a877af1 -/
def Date.validate_ymd (year : Int) (month : Int) (day : Int) : Chk Unit :=
  -- date.rs:162: if year < DATE_MIN_YEAR || year > DATE_MAX_YEAR {
  if year < DATE_MIN_YEAR ∨ year > DATE_MAX_YEAR then
    -- date.rs:163: return Err(Error::DateOutOfRange);
    Except.error Err.DateOutOfRange
  -- date.rs:166: if month < 1 || month > MONTHS_PER_YEAR {
  else if month < 1 ∨ month > MONTHS_PER_YEAR then
    -- date.rs:167: return Err(Error::InvalidMonth);
    Except.error Err.InvalidMonth
  -- date.rs:170: if day < 1 || day > 31 {
  else if day < 1 ∨ day > 31 then
    -- date.rs:171: return Err(Error::InvalidDay);
    Except.error Err.InvalidDay
  -- date.rs:174: if day > days_of_month(year, month) {
  else if day > Tr.days_of_month year month then
    -- date.rs:175: return Err(Error::InvalidDate);
    Except.error Err.InvalidDate
  else
    Except.ok ()

/-- No arithmetic node of `date.rs::Date::validate_ymd` leaves its Rust integer type, no division by zero, no index out of range
    (path-sensitive; calls contribute the callee's predicate). -/
def Date.validate_ymd_safe (year : Int) (month : Int) (day : Int) : Prop :=
  (¬ (year < DATE_MIN_YEAR ∨ year > DATE_MAX_YEAR) →
    ¬ (month < 1 ∨ month > MONTHS_PER_YEAR) → ¬ (day < 1 ∨ day > 31) → Tr.days_of_month_safe year month)

/-- `timestamp.rs::TryFrom<NaiveDateTime> for Timestamp::try_from` (timestamp.rs:433), body sha1 9576d6afd913 -/
def Timestamp.try_from_ndt (dt : SqlDt.NDT) : Chk Int :=
  match Tr.Date.validate_ymd dt.year dt.month dt.day with
  | Except.error err => Except.error err
  | Except.ok r1 =>
      match Tr.Time.validate_hms dt.hour dt.minute dt.sec with
      | Except.error err => Except.error err
      | Except.ok r2 =>
          -- timestamp.rs:437: let days = date2julian(dt.year, dt.month, dt.day) - UNIX_EPOCH_JULIAN;
          let days : Int := Tr.date2julian dt.year dt.month dt.day - Tr.UNIX_EPOCH_JULIAN
          -- timestamp.rs:438: let total_usec = days as i64 * USECONDS_PER_DAY
          let total_usec : Int :=
            days * USECONDS_PER_DAY + dt.hour * USECONDS_PER_HOUR + dt.minute * USECONDS_PER_MINUTE + dt.sec * USECONDS_PER_SECOND + dt.usec
          Tr.Timestamp.try_from_usecs total_usec

/-- No arithmetic node of `timestamp.rs::TryFrom<NaiveDateTime> for Timestamp::try_from` leaves its Rust integer type, no division by zero, no index out of range
    (path-sensitive; calls contribute the callee's predicate). -/
def Timestamp.try_from_ndt_safe (dt : SqlDt.NDT) : Prop :=
  Tr.Date.validate_ymd_safe dt.year dt.month dt.day ∧
  (match Tr.Date.validate_ymd dt.year dt.month dt.day with
   | Except.error err => True
   | Except.ok r1 =>
       Tr.Time.validate_hms_safe dt.hour dt.minute dt.sec ∧
       (match Tr.Time.validate_hms dt.hour dt.minute dt.sec with
        | Except.error err => True
        | Except.ok r2 =>
            Tr.date2julian_safe dt.year dt.month dt.day ∧
            fitsI32 (Tr.date2julian dt.year dt.month dt.day - Tr.UNIX_EPOCH_JULIAN) ∧
            let days : Int := Tr.date2julian dt.year dt.month dt.day - Tr.UNIX_EPOCH_JULIAN
            fitsI64 (days * USECONDS_PER_DAY) ∧
            fitsI64 (dt.hour * USECONDS_PER_HOUR) ∧
            fitsI64 (days * USECONDS_PER_DAY + dt.hour * USECONDS_PER_HOUR) ∧
            fitsI64 (dt.minute * USECONDS_PER_MINUTE) ∧
            (fitsI64 (days * USECONDS_PER_DAY + dt.hour * USECONDS_PER_HOUR + dt.minute * USECONDS_PER_MINUTE)) ∧
            fitsI64 (dt.sec * USECONDS_PER_SECOND) ∧
            (fitsI64 (days * USECONDS_PER_DAY + dt.hour * USECONDS_PER_HOUR + dt.minute * USECONDS_PER_MINUTE + dt.sec * USECONDS_PER_SECOND)) ∧
            (fitsI64 (days * USECONDS_PER_DAY + dt.hour * USECONDS_PER_HOUR + dt.minute * USECONDS_PER_MINUTE + dt.sec * USECONDS_PER_SECOND + dt.usec)) ∧
            let total_usec : Int :=
              days * USECONDS_PER_DAY + dt.hour * USECONDS_PER_HOUR + dt.minute * USECONDS_PER_MINUTE + dt.sec * USECONDS_PER_SECOND + dt.usec
            Tr.Timestamp.try_from_usecs_safe total_usec))

/-- `interval.rs::TryFrom<NaiveDateTime> for IntervalYM::try_from` (interval.rs:215), body sha1 ad5148935dff -/
-- inlined helpers: interval.rs::Neg for IntervalYM::neg
def IntervalYM.try_from_ndt (dt : SqlDt.NDT) : Chk Int :=
  if dt.negative = true then
    match Tr.IntervalYM.try_from_ym (asU32 (-dt.year)) dt.month with
    | Except.error err => Except.error err
    | Except.ok r1 => Except.ok ((fun (self : Int) => Tr.IntervalYM.negate self) r1)
  else
    Tr.IntervalYM.try_from_ym (asU32 dt.year) dt.month

/-- No arithmetic node of `interval.rs::TryFrom<NaiveDateTime> for IntervalYM::try_from` leaves its Rust integer type, no division by zero, no index out of range
    (path-sensitive; calls contribute the callee's predicate). -/
def IntervalYM.try_from_ndt_safe (dt : SqlDt.NDT) : Prop :=
  (dt.negative = true →
    fitsI32 (-dt.year) ∧
    Tr.IntervalYM.try_from_ym_safe (asU32 (-dt.year)) dt.month ∧
    (match Tr.IntervalYM.try_from_ym (asU32 (-dt.year)) dt.month with
     | Except.error err => True
     | Except.ok r1 => (fun (self : Int) => Tr.IntervalYM.negate_safe self) r1)) ∧
  (¬ dt.negative = true → Tr.IntervalYM.try_from_ym_safe (asU32 dt.year) dt.month)

/-- `interval.rs::TryFrom<NaiveDateTime> for IntervalDT::try_from` (interval.rs:528), body sha1 de671168c7ca -/
def IntervalDT.try_from_ndt (dt : SqlDt.NDT) : Chk Int :=
  match Tr.IntervalDT.try_from_dhms dt.day dt.hour dt.minute dt.sec 0 with
  | Except.error err => Except.error err
  | Except.ok r1 =>
      -- interval.rs:531: let whole = IntervalDT::try_from_dhms(dt.day, dt.hour, dt.minute, dt.sec, 0)?;
      let whole : Int := r1
      match Tr.IntervalDT.try_from_usecs (whole + dt.usec) with
      | Except.error err => Except.error err
      | Except.ok r2 =>
          -- interval.rs:532: let interval = IntervalDT::try_from_usecs(whole.usecs() + dt.usec as i64)?;
          let interval : Int := r2
          if dt.negative = true then Except.ok (Tr.IntervalDT.negate interval) else Except.ok interval

/-- No arithmetic node of `interval.rs::TryFrom<NaiveDateTime> for IntervalDT::try_from` leaves its Rust integer type, no division by zero, no index out of range
    (path-sensitive; calls contribute the callee's predicate). -/
def IntervalDT.try_from_ndt_safe (dt : SqlDt.NDT) : Prop :=
  Tr.IntervalDT.try_from_dhms_safe dt.day dt.hour dt.minute dt.sec 0 ∧
  (match Tr.IntervalDT.try_from_dhms dt.day dt.hour dt.minute dt.sec 0 with
   | Except.error err => True
   | Except.ok r1 =>
       let whole : Int := r1
       fitsI64 (whole + dt.usec) ∧
       Tr.IntervalDT.try_from_usecs_safe (whole + dt.usec) ∧
       (match Tr.IntervalDT.try_from_usecs (whole + dt.usec) with
        | Except.error err => True
        | Except.ok r2 =>
            let interval : Int := r2
            dt.negative = true → Tr.IntervalDT.negate_safe interval))

/-- `oracle.rs::TryFrom<NaiveDateTime> for OracleDate::try_from` (oracle.rs:438), body sha1 dc5664669c4c -/
def OracleDate.try_from_ndt (dt : SqlDt.NDT) : Chk Int :=
  match Tr.Timestamp.try_from_ndt dt with
  | Except.error err => Except.error err
  | Except.ok r1 => Except.ok (Tr.OracleDate.from_timestamp r1)

/-- No arithmetic node of `oracle.rs::TryFrom<NaiveDateTime> for OracleDate::try_from` leaves its Rust integer type, no division by zero, no index out of range
    (path-sensitive; calls contribute the callee's predicate). -/
def OracleDate.try_from_ndt_safe (dt : SqlDt.NDT) : Prop :=
  Tr.Timestamp.try_from_ndt_safe dt ∧
  (match Tr.Timestamp.try_from_ndt dt with
   | Except.error err => True
   | Except.ok r1 => Tr.OracleDate.from_timestamp_safe r1)

/-- `date.rs::Date::is_valid` (date.rs:139), body sha1 4487b69d9774 -/
def Date.is_valid (year : Int) (month : Int) (day : Int) : Bool :=
  -- date.rs:140: if year < DATE_MIN_YEAR || year > DATE_MAX_YEAR {
  if year < DATE_MIN_YEAR ∨ year > DATE_MAX_YEAR then
    -- date.rs:141: return false;
    false
  -- date.rs:144: if month < 1 || month > MONTHS_PER_YEAR {
  else if month < 1 ∨ month > MONTHS_PER_YEAR then
    -- date.rs:145: return false;
    false
  -- date.rs:148: if day < 1 || day > 31 {
  else if day < 1 ∨ day > 31 then
    -- date.rs:149: return false;
    false
  -- date.rs:152: if day > days_of_month(year, month) {
  else if day > Tr.days_of_month year month then
    -- date.rs:153: return false;
    false
  else
    true

/-- No arithmetic node of `date.rs::Date::is_valid` leaves its Rust integer type, no division by zero, no index out of range
    (path-sensitive; calls contribute the callee's predicate). -/
def Date.is_valid_safe (year : Int) (month : Int) (day : Int) : Prop :=
  (¬ (year < DATE_MIN_YEAR ∨ year > DATE_MAX_YEAR) →
    ¬ (month < 1 ∨ month > MONTHS_PER_YEAR) → ¬ (day < 1 ∨ day > 31) → Tr.days_of_month_safe year month)

/-- `date.rs::Date::try_from_days` (date.rs:199), body sha1 53ce2411f8b9 -/
def Date.try_from_days (days : Int) : Chk Int :=
  if Tr.is_valid_date days = true then Except.ok days else Except.error Err.DateOutOfRange

/-- No arithmetic node of `date.rs::Date::try_from_days` leaves its Rust integer type, no division by zero, no index out of range
    (path-sensitive; calls contribute the callee's predicate). -/
def Date.try_from_days_safe (days : Int) : Prop :=
  Tr.is_valid_date_safe days

/-- `date.rs::Date::and_hms` (date.rs:215), body sha1 1a9b12d70ac7 -/
def Date.and_hms (self : Int) (hour : Int) (minute : Int) (sec : Int) (usec : Int) : Chk Int :=
  match Tr.Time.try_from_hms hour minute sec usec with
  | Except.error err => Except.error err
  | Except.ok r1 => Except.ok (Tr.Timestamp.new self r1)

/-- No arithmetic node of `date.rs::Date::and_hms` leaves its Rust integer type, no division by zero, no index out of range
    (path-sensitive; calls contribute the callee's predicate). -/
def Date.and_hms_safe (self : Int) (hour : Int) (minute : Int) (sec : Int) (usec : Int) : Prop :=
  Tr.Time.try_from_hms_safe hour minute sec usec ∧
  (match Tr.Time.try_from_hms hour minute sec usec with
   | Except.error err => True
   | Except.ok r1 => Tr.Timestamp.new_safe self r1)

/-- `date.rs::Date::add_days` (date.rs:250), body sha1 05ae08d4404a -/
def Date.add_days (self : Int) (days : Int) : Chk Int :=
  -- date.rs:251: let result = self.days().checked_add(days);
  let result : Option Int := checkedI32 (self + days)
  match result with
  | some d => Tr.Date.try_from_days d
  | none => Except.error Err.DateOutOfRange

/-- No arithmetic node of `date.rs::Date::add_days` leaves its Rust integer type, no division by zero, no index out of range
    (path-sensitive; calls contribute the callee's predicate). -/
def Date.add_days_safe (self : Int) (days : Int) : Prop :=
  let result : Option Int := checkedI32 (self + days)
  match result with
  | some d => Tr.Date.try_from_days_safe d
  | none => True

/-- `date.rs::Date::sub_days` (date.rs:302), body sha1 8f083bddcede -/
def Date.sub_days (self : Int) (days : Int) : Chk Int :=
  -- date.rs:303: let result = self.days().checked_sub(days);
  let result : Option Int := checkedI32 (self - days)
  match result with
  | some d => Tr.Date.try_from_days d
  | none => Except.error Err.DateOutOfRange

/-- No arithmetic node of `date.rs::Date::sub_days` leaves its Rust integer type, no division by zero, no index out of range
    (path-sensitive; calls contribute the callee's predicate). -/
def Date.sub_days_safe (self : Int) (days : Int) : Prop :=
  let result : Option Int := checkedI32 (self - days)
  match result with
  | some d => Tr.Date.try_from_days_safe d
  | none => True

/-- `date.rs::Date::sub_date` (date.rs:296), body sha1 6400ee669c9e -/
def Date.sub_date (self : Int) (date : Int) : Int :=
  self - date

/-- No arithmetic node of `date.rs::Date::sub_date` leaves its Rust integer type, no division by zero, no index out of range
    (path-sensitive; calls contribute the callee's predicate). -/
def Date.sub_date_safe (self : Int) (date : Int) : Prop :=
  fitsI32 (self - date)

/-- `date.rs::Date::day_of_week` (date.rs:336), body sha1 fcef22488d54 -/
def Date.day_of_week (self : Int) : Int :=
  -- date.rs:338: let mut date = self.days() + UNIX_EPOCH_DOW as i32 - 1;
  let date : Int := self + UNIX_EPOCH_DOW - 1
  -- date.rs:339: date %= 7;
  let date : Int := rrem date 7
  -- date.rs:340: if date < 0 {
  let date : Int :=
    if date < 0 then
      -- date.rs:341: date += 7;
      let date : Int := date + 7
      date
    else
      date
  asU64 date + 1

/-- No arithmetic node of `date.rs::Date::day_of_week` leaves its Rust integer type, no division by zero, no index out of range
    (path-sensitive; calls contribute the callee's predicate). -/
def Date.day_of_week_safe (self : Int) : Prop :=
  fitsI32 (self + UNIX_EPOCH_DOW) ∧
  fitsI32 (self + UNIX_EPOCH_DOW - 1) ∧
  let date : Int := self + UNIX_EPOCH_DOW - 1
  let date : Int := rrem date 7
  (date < 0 → fitsI32 (date + 7)) ∧
  let date : Int :=
    if date < 0 then
      -- date.rs:341: date += 7;
      let date : Int := date + 7
      date
    else
      date
  fitsU64 (asU64 date + 1)

/-- `date.rs::Date::last_day_of_month` (date.rs:439), body sha1 dbf884a9ec17 -/
def Date.last_day_of_month (self : Int) : Int :=
  -- date.rs:440: let (year, month, day) = self.extract();
  let year_month_day : Int × Int × Int := Tr.Date.extract self
  let year : Int := year_month_day.1
  let month : Int := year_month_day.2.1
  let day : Int := year_month_day.2.2
  -- date.rs:442: let result_day = days_of_month(year, month);
  let result_day : Int := Tr.days_of_month year month
  -- date.rs:443: let result = self.days() + result_day as i32 - day as i32;
  let result : Int := self + asI32 result_day - asI32 day
  result

/-- No arithmetic node of `date.rs::Date::last_day_of_month` leaves its Rust integer type, no division by zero, no index out of range
    (path-sensitive; calls contribute the callee's predicate). -/
def Date.last_day_of_month_safe (self : Int) : Prop :=
  Tr.Date.extract_safe self ∧
  let year_month_day : Int × Int × Int := Tr.Date.extract self
  let year : Int := year_month_day.1
  let month : Int := year_month_day.2.1
  let day : Int := year_month_day.2.2
  Tr.days_of_month_safe year month ∧
  let result_day : Int := Tr.days_of_month year month
  fitsI32 (self + asI32 result_day) ∧ fitsI32 (self + asI32 result_day - asI32 day)

/-- `date.rs::PartialOrd<Timestamp> for Date::partial_cmp` (date.rs:733), body sha1 3d6897ee7ff8 -/
def Date.partial_cmp_timestamp (self : Int) (other : Int) : Option Int :=
  some (cmpInt (Tr.Date.and_zero_time self) other)

/-- No arithmetic node of `date.rs::PartialOrd<Timestamp> for Date::partial_cmp` leaves its Rust integer type, no division by zero, no index out of range
    (path-sensitive; calls contribute the callee's predicate). -/
def Date.partial_cmp_timestamp_safe (self : Int) (other : Int) : Prop :=
  Tr.Date.and_zero_time_safe self

/-- `date.rs::PartialEq<Timestamp> for Date::eq` (date.rs:726), body sha1 de5589ae20c4 -/
def Date.eq_timestamp (self : Int) (other : Int) : Bool :=
  decide (Tr.Date.and_zero_time self = other)

/-- No arithmetic node of `date.rs::PartialEq<Timestamp> for Date::eq` leaves its Rust integer type, no division by zero, no index out of range
    (path-sensitive; calls contribute the callee's predicate). -/
def Date.eq_timestamp_safe (self : Int) (other : Int) : Prop :=
  Tr.Date.and_zero_time_safe self

/-- `time.rs::PartialEq<IntervalDT> for Time::eq` (time.rs:230), body sha1 9f91ab262cdf -/
def Time.eq_interval_dt (self : Int) (other : Int) : Bool :=
  decide (self = other)

/-- No arithmetic node of `time.rs::PartialEq<IntervalDT> for Time::eq` leaves its Rust integer type, no division by zero, no index out of range
    (path-sensitive; calls contribute the callee's predicate). -/
def Time.eq_interval_dt_safe (self : Int) (other : Int) : Prop :=
  True

/-- `time.rs::PartialOrd<IntervalDT> for Time::partial_cmp` (time.rs:237), body sha1 1bb081df4722 -/
def Time.partial_cmp_interval_dt (self : Int) (other : Int) : Option Int :=
  some (cmpInt self other)

/-- No arithmetic node of `time.rs::PartialOrd<IntervalDT> for Time::partial_cmp` leaves its Rust integer type, no division by zero, no index out of range
    (path-sensitive; calls contribute the callee's predicate). -/
def Time.partial_cmp_interval_dt_safe (self : Int) (other : Int) : Prop :=
  True

/-- `interval.rs::PartialEq<Time> for IntervalDT::eq` (interval.rs:550), body sha1 9f91ab262cdf -/
def IntervalDT.eq_time (self : Int) (other : Int) : Bool :=
  decide (self = other)

/-- No arithmetic node of `interval.rs::PartialEq<Time> for IntervalDT::eq` leaves its Rust integer type, no division by zero, no index out of range
    (path-sensitive; calls contribute the callee's predicate). -/
def IntervalDT.eq_time_safe (self : Int) (other : Int) : Prop :=
  True

/-- `interval.rs::PartialOrd<Time> for IntervalDT::partial_cmp` (interval.rs:557), body sha1 1bb081df4722 -/
def IntervalDT.partial_cmp_time (self : Int) (other : Int) : Option Int :=
  some (cmpInt self other)

/-- No arithmetic node of `interval.rs::PartialOrd<Time> for IntervalDT::partial_cmp` leaves its Rust integer type, no division by zero, no index out of range
    (path-sensitive; calls contribute the callee's predicate). -/
def IntervalDT.partial_cmp_time_safe (self : Int) (other : Int) : Prop :=
  True

/-- `timestamp.rs::PartialEq<Date> for Timestamp::eq` (timestamp.rs:450), body sha1 0ce3e734b950 -/
def Timestamp.eq_date (self : Int) (other : Int) : Bool :=
  decide (self = Tr.Date.and_zero_time other)

/-- No arithmetic node of `timestamp.rs::PartialEq<Date> for Timestamp::eq` leaves its Rust integer type, no division by zero, no index out of range
    (path-sensitive; calls contribute the callee's predicate). -/
def Timestamp.eq_date_safe (self : Int) (other : Int) : Prop :=
  Tr.Date.and_zero_time_safe other

/-- `timestamp.rs::PartialOrd<Date> for Timestamp::partial_cmp` (timestamp.rs:457), body sha1 5e3a9be59337 -/
def Timestamp.partial_cmp_date (self : Int) (other : Int) : Option Int :=
  some (cmpInt self (Tr.Date.and_zero_time other))

/-- No arithmetic node of `timestamp.rs::PartialOrd<Date> for Timestamp::partial_cmp` leaves its Rust integer type, no division by zero, no index out of range
    (path-sensitive; calls contribute the callee's predicate). -/
def Timestamp.partial_cmp_date_safe (self : Int) (other : Int) : Prop :=
  Tr.Date.and_zero_time_safe other

/-- `oracle.rs::PartialEq<OracleDate> for Timestamp::eq` (oracle.rs:453), body sha1 651a63a43748 -/
def Timestamp.eq_oracle_date (self : Int) (other : Int) : Bool :=
  decide (self = other)

/-- No arithmetic node of `oracle.rs::PartialEq<OracleDate> for Timestamp::eq` leaves its Rust integer type, no division by zero, no index out of range
    (path-sensitive; calls contribute the callee's predicate). -/
def Timestamp.eq_oracle_date_safe (self : Int) (other : Int) : Prop :=
  True

/-- `oracle.rs::PartialEq<Timestamp> for OracleDate::eq` (oracle.rs:467), body sha1 60eb141c4194 -/
def OracleDate.eq_timestamp (self : Int) (other : Int) : Bool :=
  decide (self = other)

/-- No arithmetic node of `oracle.rs::PartialEq<Timestamp> for OracleDate::eq` leaves its Rust integer type, no division by zero, no index out of range
    (path-sensitive; calls contribute the callee's predicate). -/
def OracleDate.eq_timestamp_safe (self : Int) (other : Int) : Prop :=
  True

/-- `oracle.rs::PartialEq<OracleDate> for Date::eq` (oracle.rs:481), body sha1 864f3b63a69d -/
def Date.eq_oracle_date (self : Int) (other : Int) : Bool :=
  decide (Tr.Date.and_zero_time self = other)

/-- No arithmetic node of `oracle.rs::PartialEq<OracleDate> for Date::eq` leaves its Rust integer type, no division by zero, no index out of range
    (path-sensitive; calls contribute the callee's predicate). -/
def Date.eq_oracle_date_safe (self : Int) (other : Int) : Prop :=
  Tr.Date.and_zero_time_safe self

/-- `oracle.rs::PartialEq<Date> for OracleDate::eq` (oracle.rs:495), body sha1 fa1a398a53c8 -/
def OracleDate.eq_date (self : Int) (other : Int) : Bool :=
  decide (self = Tr.Date.and_zero_time other)

/-- No arithmetic node of `oracle.rs::PartialEq<Date> for OracleDate::eq` leaves its Rust integer type, no division by zero, no index out of range
    (path-sensitive; calls contribute the callee's predicate). -/
def OracleDate.eq_date_safe (self : Int) (other : Int) : Prop :=
  Tr.Date.and_zero_time_safe other

/-- `oracle.rs::OracleDate::new` (oracle.rs:29), body sha1 3879069e29cc -/
def OracleDate.new (date : Int) (time : Int) : Int :=
  -- oracle.rs:30: let time = if time.usecs() % USECONDS_PER_SECOND != 0 {
  let time : Int :=
    if rrem time USECONDS_PER_SECOND ≠ 0 then rdiv time USECONDS_PER_SECOND * USECONDS_PER_SECOND else time
  Tr.Timestamp.new date time

/-- No arithmetic node of `oracle.rs::OracleDate::new` leaves its Rust integer type, no division by zero, no index out of range
    (path-sensitive; calls contribute the callee's predicate). -/
def OracleDate.new_safe (date : Int) (time : Int) : Prop :=
  (rrem time USECONDS_PER_SECOND ≠ 0 → fitsI64 (rdiv time USECONDS_PER_SECOND * USECONDS_PER_SECOND)) ∧
  let time : Int :=
    if rrem time USECONDS_PER_SECOND ≠ 0 then rdiv time USECONDS_PER_SECOND * USECONDS_PER_SECOND else time
  Tr.Timestamp.new_safe date time

/-- `oracle.rs::OracleDate::is_valid_date` (oracle.rs:83), body sha1 d2a018e4f20d -/
def OracleDate.is_valid_date (usecs : Int) : Bool :=
  decide (Tr.is_valid_timestamp usecs = true ∧ rrem usecs USECONDS_PER_SECOND = 0)

/-- No arithmetic node of `oracle.rs::OracleDate::is_valid_date` leaves its Rust integer type, no division by zero, no index out of range
    (path-sensitive; calls contribute the callee's predicate). -/
def OracleDate.is_valid_date_safe (usecs : Int) : Prop :=
  Tr.is_valid_timestamp_safe usecs

/-- `oracle.rs::OracleDate::try_from_usecs` (oracle.rs:74), body sha1 97a0fdb9e32f -/
def OracleDate.try_from_usecs (usecs : Int) : Chk Int :=
  if Tr.OracleDate.is_valid_date usecs = true then Except.ok usecs else Except.error Err.DateOutOfRange

/-- No arithmetic node of `oracle.rs::OracleDate::try_from_usecs` leaves its Rust integer type, no division by zero, no index out of range
    (path-sensitive; calls contribute the callee's predicate). -/
def OracleDate.try_from_usecs_safe (usecs : Int) : Prop :=
  Tr.OracleDate.is_valid_date_safe usecs

/-- `oracle.rs::OracleDate::add_interval_dt` (oracle.rs:103), body sha1 d1969c965f82 -/
def OracleDate.add_interval_dt (self : Int) (interval : Int) : Chk Int :=
  match Tr.Timestamp.add_interval_dt self interval with
  | Except.error err => Except.error err
  | Except.ok r1 => Except.ok (Tr.OracleDate.from_timestamp r1)

/-- No arithmetic node of `oracle.rs::OracleDate::add_interval_dt` leaves its Rust integer type, no division by zero, no index out of range
    (path-sensitive; calls contribute the callee's predicate). -/
def OracleDate.add_interval_dt_safe (self : Int) (interval : Int) : Prop :=
  Tr.Timestamp.add_interval_dt_safe self interval ∧
  (match Tr.Timestamp.add_interval_dt self interval with
   | Except.error err => True
   | Except.ok r1 => Tr.OracleDate.from_timestamp_safe r1)

/-- `oracle.rs::OracleDate::add_interval_ym` (oracle.rs:109), body sha1 07e765ef9457 -/
def OracleDate.add_interval_ym (self : Int) (interval : Int) : Chk Int :=
  match Tr.Timestamp.add_interval_ym self interval with
  | Except.error err => Except.error err
  | Except.ok r1 => Except.ok (Tr.OracleDate.from_timestamp r1)

/-- No arithmetic node of `oracle.rs::OracleDate::add_interval_ym` leaves its Rust integer type, no division by zero, no index out of range
    (path-sensitive; calls contribute the callee's predicate). -/
def OracleDate.add_interval_ym_safe (self : Int) (interval : Int) : Prop :=
  Tr.Timestamp.add_interval_ym_safe self interval ∧
  (match Tr.Timestamp.add_interval_ym self interval with
   | Except.error err => True
   | Except.ok r1 => Tr.OracleDate.from_timestamp_safe r1)

/-- `oracle.rs::OracleDate::sub_interval_dt` (oracle.rs:147), body sha1 7f4f0a2870ec -/
-- inlined helpers: interval.rs::Neg for IntervalDT::neg
def OracleDate.sub_interval_dt (self : Int) (interval : Int) : Chk Int :=
  Tr.OracleDate.add_interval_dt self ((fun (self : Int) => Tr.IntervalDT.negate self) interval)

/-- No arithmetic node of `oracle.rs::OracleDate::sub_interval_dt` leaves its Rust integer type, no division by zero, no index out of range
    (path-sensitive; calls contribute the callee's predicate). -/
def OracleDate.sub_interval_dt_safe (self : Int) (interval : Int) : Prop :=
  (fun (self : Int) => Tr.IntervalDT.negate_safe self) interval ∧
  Tr.OracleDate.add_interval_dt_safe self ((fun (self : Int) => Tr.IntervalDT.negate self) interval)

/-- `oracle.rs::OracleDate::sub_interval_ym` (oracle.rs:159), body sha1 451b3f2358fc -/
-- inlined helpers: interval.rs::Neg for IntervalYM::neg
def OracleDate.sub_interval_ym (self : Int) (interval : Int) : Chk Int :=
  Tr.OracleDate.add_interval_ym self ((fun (self : Int) => Tr.IntervalYM.negate self) interval)

/-- No arithmetic node of `oracle.rs::OracleDate::sub_interval_ym` leaves its Rust integer type, no division by zero, no index out of range
    (path-sensitive; calls contribute the callee's predicate). -/
def OracleDate.sub_interval_ym_safe (self : Int) (interval : Int) : Prop :=
  (fun (self : Int) => Tr.IntervalYM.negate_safe self) interval ∧
  Tr.OracleDate.add_interval_ym_safe self ((fun (self : Int) => Tr.IntervalYM.negate self) interval)

/-- `date.rs::sub_to_date` (date.rs:554), body sha1 1737fa7cc08a -/
def sub_to_date (date : Int) (sub_day : Int) : Chk Int :=
  Tr.Date.sub_days date sub_day

/-- No arithmetic node of `date.rs::sub_to_date` leaves its Rust integer type, no division by zero, no index out of range
    (path-sensitive; calls contribute the callee's predicate). -/
def sub_to_date_safe (date : Int) (sub_day : Int) : Prop :=
  Tr.Date.sub_days_safe date sub_day

/-- `date.rs::current_date` (date.rs:549), body sha1 f7f17e245f29 -/
def current_date (date : Int) (_sub_day : Int) : Chk Int :=
  Except.ok date

/-- No arithmetic node of `date.rs::current_date` leaves its Rust integer type, no division by zero, no index out of range
    (path-sensitive; calls contribute the callee's predicate). -/
def current_date_safe (date : Int) (_sub_day : Int) : Prop :=
  True

/-- `date.rs::week_day_of_julian` (date.rs:361), body sha1 f8d25d08c977 -/
def week_day_of_julian (date : Int) : Int :=
  -- date.rs:362: let mut date = date;
  let date : Int := date
  -- date.rs:363: date %= 7;
  let date : Int := rrem date 7
  -- date.rs:365: if date < 0 {
  let date : Int :=
    if date < 0 then
      -- date.rs:366: date += 7;
      let date : Int := date + 7
      date
    else
      date
  date

/-- No arithmetic node of `date.rs::week_day_of_julian` leaves its Rust integer type, no division by zero, no index out of range
    (path-sensitive; calls contribute the callee's predicate). -/
def week_day_of_julian_safe (date : Int) : Prop :=
  let date : Int := date
  let date : Int := rrem date 7
  date < 0 → fitsI32 (date + 7)

/-- `date.rs::Date::date_to_iso_year` (date.rs:358), body sha1 c12168ba3170 -/
-- inlined helpers: date.rs::DateTime for Date::year
def Date.date_to_iso_year (self : Int) : Int :=
  -- date.rs:371: let mut year = self.year().unwrap();
  let year : Int :=
    (fun (self : Int) => let t1 : Int × Int × Int := Tr.Date.extract self; let year : Int := t1.1; year) self
  -- date.rs:373: let current_julian_day = self.days() + UNIX_EPOCH_JULIAN;
  let current_julian_day : Int := self + Tr.UNIX_EPOCH_JULIAN
  -- date.rs:375: let mut fourth_julian_day = date2julian(year, 1, 4);
  let fourth_julian_day : Int := Tr.date2julian year 1 4
  -- date.rs:377: let mut offset_to_monday = week_day_of_julian(fourth_julian_day);
  let offset_to_monday : Int := Tr.week_day_of_julian fourth_julian_day
  -- date.rs:381: if current_julian_day < fourth_julian_day - offset_to_monday {
  let year_fourth_julian_day_offset_to_monday : Int × Int × Int :=
    if current_julian_day < fourth_julian_day - offset_to_monday then
      -- date.rs:382: fourth_julian_day = date2julian(year - 1, 1, 4);
      let fourth_julian_day : Int := Tr.date2julian (year - 1) 1 4
      -- date.rs:383: offset_to_monday = week_day_of_julian(fourth_julian_day);
      let offset_to_monday : Int := Tr.week_day_of_julian fourth_julian_day
      -- date.rs:384: year -= 1;
      let year : Int := year - 1
      (year, fourth_julian_day, offset_to_monday)
    else
      (year, fourth_julian_day, offset_to_monday)
  let year : Int := year_fourth_julian_day_offset_to_monday.1
  let fourth_julian_day : Int := year_fourth_julian_day_offset_to_monday.2.1
  let offset_to_monday : Int := year_fourth_julian_day_offset_to_monday.2.2
  -- date.rs:389: let num_of_week = (current_julian_day - (fourth_julian_day - offset_to_monday)) / 7 + 1;
  let num_of_week : Int := rdiv (current_julian_day - (fourth_julian_day - offset_to_monday)) 7 + 1
  -- date.rs:390: if num_of_week >= 52 {
  let year_fourth_julian_day_offset_to_monday : Int × Int × Int :=
    if num_of_week ≥ 52 then
      -- date.rs:391: fourth_julian_day = date2julian(year + 1, 1, 4);
      let fourth_julian_day : Int := Tr.date2julian (year + 1) 1 4
      -- date.rs:392: offset_to_monday = week_day_of_julian(fourth_julian_day);
      let offset_to_monday : Int := Tr.week_day_of_julian fourth_julian_day
      let year : Int :=
        if current_julian_day ≥ fourth_julian_day - offset_to_monday then
          -- date.rs:394: year += 1;
          let year : Int := year + 1
          year
        else
          year
      (year, fourth_julian_day, offset_to_monday)
    else
      (year, fourth_julian_day, offset_to_monday)
  let year : Int := year_fourth_julian_day_offset_to_monday.1
  let fourth_julian_day : Int := year_fourth_julian_day_offset_to_monday.2.1
  let offset_to_monday : Int := year_fourth_julian_day_offset_to_monday.2.2
  year

/-- No arithmetic node of `date.rs::Date::date_to_iso_year` leaves its Rust integer type, no division by zero, no index out of range
    (path-sensitive; calls contribute the callee's predicate). -/
def Date.date_to_iso_year_safe (self : Int) : Prop :=
  (fun (self : Int) => Tr.Date.extract_safe self) self ∧
  let year : Int :=
    (fun (self : Int) => let t1 : Int × Int × Int := Tr.Date.extract self; let year : Int := t1.1; year) self
  fitsI32 (self + Tr.UNIX_EPOCH_JULIAN) ∧
  let current_julian_day : Int := self + Tr.UNIX_EPOCH_JULIAN
  Tr.date2julian_safe year 1 4 ∧
  let fourth_julian_day : Int := Tr.date2julian year 1 4
  Tr.week_day_of_julian_safe fourth_julian_day ∧
  let offset_to_monday : Int := Tr.week_day_of_julian fourth_julian_day
  fitsI32 (fourth_julian_day - offset_to_monday) ∧
  (current_julian_day < fourth_julian_day - offset_to_monday →
    fitsI32 (year - 1) ∧
    Tr.date2julian_safe (year - 1) 1 4 ∧
    let fourth_julian_day : Int := Tr.date2julian (year - 1) 1 4
    Tr.week_day_of_julian_safe fourth_julian_day ∧
    let offset_to_monday : Int := Tr.week_day_of_julian fourth_julian_day
    fitsI32 (year - 1)) ∧
  let year_fourth_julian_day_offset_to_monday : Int × Int × Int :=
    if current_julian_day < fourth_julian_day - offset_to_monday then
      -- date.rs:382: fourth_julian_day = date2julian(year - 1, 1, 4);
      let fourth_julian_day : Int := Tr.date2julian (year - 1) 1 4
      -- date.rs:383: offset_to_monday = week_day_of_julian(fourth_julian_day);
      let offset_to_monday : Int := Tr.week_day_of_julian fourth_julian_day
      -- date.rs:384: year -= 1;
      let year : Int := year - 1
      (year, fourth_julian_day, offset_to_monday)
    else
      (year, fourth_julian_day, offset_to_monday)
  let year : Int := year_fourth_julian_day_offset_to_monday.1
  let fourth_julian_day : Int := year_fourth_julian_day_offset_to_monday.2.1
  let offset_to_monday : Int := year_fourth_julian_day_offset_to_monday.2.2
  fitsI32 (fourth_julian_day - offset_to_monday) ∧
  fitsI32 (current_julian_day - (fourth_julian_day - offset_to_monday)) ∧
  fitsI32 (rdiv (current_julian_day - (fourth_julian_day - offset_to_monday)) 7 + 1) ∧
  let num_of_week : Int := rdiv (current_julian_day - (fourth_julian_day - offset_to_monday)) 7 + 1
  (num_of_week ≥ 52 →
    fitsI32 (year + 1) ∧
    Tr.date2julian_safe (year + 1) 1 4 ∧
    let fourth_julian_day : Int := Tr.date2julian (year + 1) 1 4
    Tr.week_day_of_julian_safe fourth_julian_day ∧
    let offset_to_monday : Int := Tr.week_day_of_julian fourth_julian_day
    fitsI32 (fourth_julian_day - offset_to_monday) ∧
    (current_julian_day ≥ fourth_julian_day - offset_to_monday → fitsI32 (year + 1)))

/-- `date.rs::Date::round_week_internal` (date.rs:402), body sha1 247aed71a25e -/
def Date.round_week_internal (self : Int) (year : Int) : Chk Int :=
  -- date.rs:403: const WEEK_TABLE: [(DateSubMethod, i32); 8] = [
  let WEEK_TABLE : List (Bool × Int) :=
    [(false, 0), (true, 1), (true, 2), (true, 3), (true, -3), (true, -2), (true, -1), (true, 0)]
  -- date.rs:414: let week_day = self.sub_date({ Date::from_ymd_unchecked(year, 1, 1) }) % 7;
  let week_day : Int := rrem (Tr.Date.sub_date self (Tr.Date.from_ymd_unchecked year 1 1)) 7
  -- date.rs:415: let (to_first_date_of_week, remain_day) = WEEK_TABLE[week_day as usize];
  let to_first_date_of_week_remain_day : Bool × Int := idxD WEEK_TABLE (asU64 week_day) (false, 0)
  let to_first_date_of_week : Bool := to_first_date_of_week_remain_day.1
  let remain_day : Int := to_first_date_of_week_remain_day.2
  if to_first_date_of_week = true then Tr.sub_to_date self remain_day else Tr.current_date self remain_day

/-- No arithmetic node of `date.rs::Date::round_week_internal` leaves its Rust integer type, no division by zero, no index out of range
    (path-sensitive; calls contribute the callee's predicate). -/
def Date.round_week_internal_safe (self : Int) (year : Int) : Prop :=
  let WEEK_TABLE : List (Bool × Int) :=
    [(false, 0), (true, 1), (true, 2), (true, 3), (true, -3), (true, -2), (true, -1), (true, 0)]
  Tr.Date.from_ymd_unchecked_safe year 1 1 ∧
  Tr.Date.sub_date_safe self (Tr.Date.from_ymd_unchecked year 1 1) ∧
  let week_day : Int := rrem (Tr.Date.sub_date self (Tr.Date.from_ymd_unchecked year 1 1)) 7
  0 ≤ asU64 week_day ∧
  asU64 week_day < 8 ∧
  let to_first_date_of_week_remain_day : Bool × Int := idxD WEEK_TABLE (asU64 week_day) (false, 0)
  let to_first_date_of_week : Bool := to_first_date_of_week_remain_day.1
  let remain_day : Int := to_first_date_of_week_remain_day.2
  (to_first_date_of_week = true → Tr.sub_to_date_safe self remain_day) ∧
  (¬ to_first_date_of_week = true → Tr.current_date_safe self remain_day)

/-- `date.rs::Date::round_month_start_week_internal` (date.rs:420), body sha1 350a2329bddd -/
def Date.round_month_start_week_internal (self : Int) (day : Int) : Chk Int :=
  -- date.rs:421: const MONTH_START_WEEK_TABLE: [(DateSubMethod, i32); 8] = [
  let MONTH_START_WEEK_TABLE : List (Bool × Int) :=
    [(true, -1), (false, 0), (true, 1), (true, 2), (true, 3), (true, -3), (true, -2), (true, 0)]
  -- date.rs:432: let week_day = day % 7;
  let week_day : Int := rrem day 7
  -- date.rs:433: let (to_first_date_of_week, remain_day) = MONTH_START_WEEK_TABLE[week_day as usize];
  let to_first_date_of_week_remain_day : Bool × Int := idxD MONTH_START_WEEK_TABLE (asU64 week_day) (false, 0)
  let to_first_date_of_week : Bool := to_first_date_of_week_remain_day.1
  let remain_day : Int := to_first_date_of_week_remain_day.2
  if to_first_date_of_week = true then Tr.sub_to_date self remain_day else Tr.current_date self remain_day

/-- No arithmetic node of `date.rs::Date::round_month_start_week_internal` leaves its Rust integer type, no division by zero, no index out of range
    (path-sensitive; calls contribute the callee's predicate). -/
def Date.round_month_start_week_internal_safe (self : Int) (day : Int) : Prop :=
  let MONTH_START_WEEK_TABLE : List (Bool × Int) :=
    [(true, -1), (false, 0), (true, 1), (true, 2), (true, 3), (true, -3), (true, -2), (true, 0)]
  let week_day : Int := rrem day 7
  0 ≤ asU64 week_day ∧
  asU64 week_day < 8 ∧
  let to_first_date_of_week_remain_day : Bool × Int := idxD MONTH_START_WEEK_TABLE (asU64 week_day) (false, 0)
  let to_first_date_of_week : Bool := to_first_date_of_week_remain_day.1
  let remain_day : Int := to_first_date_of_week_remain_day.2
  (to_first_date_of_week = true → Tr.sub_to_date_safe self remain_day) ∧
  (¬ to_first_date_of_week = true → Tr.current_date_safe self remain_day)

/-- `date.rs::Trunc for Date::trunc_century` (date.rs:451), body sha1 18e029996a6b -/
-- inlined helpers: date.rs::DateTime for Date::year
def Date.trunc_century (self : Int) : Chk Int :=
  -- date.rs:452: let mut year = self.year().unwrap();
  let year : Int :=
    (fun (self : Int) => let t1 : Int × Int × Int := Tr.Date.extract self; let year : Int := t1.1; year) self
  -- date.rs:454: if year % 100 == 0 {
  let year : Int :=
    if rrem year 100 = 0 then
      -- date.rs:455: year -= 1;
      let year : Int := year - 1
      year
    else
      year
  -- date.rs:458: year = year / 100 * 100 + 1;
  let year : Int := rdiv year 100 * 100 + 1
  Except.ok (Tr.Date.from_ymd_unchecked year 1 1)

/-- No arithmetic node of `date.rs::Trunc for Date::trunc_century` leaves its Rust integer type, no division by zero, no index out of range
    (path-sensitive; calls contribute the callee's predicate). -/
def Date.trunc_century_safe (self : Int) : Prop :=
  (fun (self : Int) => Tr.Date.extract_safe self) self ∧
  let year : Int :=
    (fun (self : Int) => let t1 : Int × Int × Int := Tr.Date.extract self; let year : Int := t1.1; year) self
  (rrem year 100 = 0 → fitsI32 (year - 1)) ∧
  let year : Int :=
    if rrem year 100 = 0 then
      -- date.rs:455: year -= 1;
      let year : Int := year - 1
      year
    else
      year
  fitsI32 (rdiv year 100 * 100) ∧
  fitsI32 (rdiv year 100 * 100 + 1) ∧
  let year : Int := rdiv year 100 * 100 + 1
  Tr.Date.from_ymd_unchecked_safe year 1 1

/-- `timestamp.rs::Trunc for Timestamp::trunc_century` (timestamp.rs:229), body sha1 388438bd6799 -/
def Timestamp.trunc_century (self : Int) : Chk Int :=
  match Tr.Date.trunc_century (Tr.Timestamp.date self) with
  | Except.error err => Except.error err
  | Except.ok r1 => Except.ok (Tr.Date.and_zero_time r1)

/-- No arithmetic node of `timestamp.rs::Trunc for Timestamp::trunc_century` leaves its Rust integer type, no division by zero, no index out of range
    (path-sensitive; calls contribute the callee's predicate). -/
def Timestamp.trunc_century_safe (self : Int) : Prop :=
  Tr.Timestamp.date_safe self ∧
  Tr.Date.trunc_century_safe (Tr.Timestamp.date self) ∧
  (match Tr.Date.trunc_century (Tr.Timestamp.date self) with
   | Except.error err => True
   | Except.ok r1 => Tr.Date.and_zero_time_safe r1)

/-- `oracle.rs::Trunc for OracleDate::trunc_century` (oracle.rs:190), body sha1 045f9ecc363f -/
def OracleDate.trunc_century (self : Int) : Chk Int :=
  match Tr.Timestamp.trunc_century self with
  | Except.error err => Except.error err
  | Except.ok r1 => Except.ok (Tr.OracleDate.from_timestamp r1)

/-- No arithmetic node of `oracle.rs::Trunc for OracleDate::trunc_century` leaves its Rust integer type, no division by zero, no index out of range
    (path-sensitive; calls contribute the callee's predicate). -/
def OracleDate.trunc_century_safe (self : Int) : Prop :=
  Tr.Timestamp.trunc_century_safe self ∧
  (match Tr.Timestamp.trunc_century self with
   | Except.error err => True
   | Except.ok r1 => Tr.OracleDate.from_timestamp_safe r1)

/-- `date.rs::Trunc for Date::trunc_year` (date.rs:463), body sha1 8042d0203977 -/
-- inlined helpers: date.rs::DateTime for Date::year
def Date.trunc_year (self : Int) : Chk Int :=
  Except.ok (Tr.Date.from_ymd_unchecked ((fun (self : Int) => let t1 : Int × Int × Int := Tr.Date.extract self; let year : Int := t1.1; year) self) 1 1)

/-- No arithmetic node of `date.rs::Trunc for Date::trunc_year` leaves its Rust integer type, no division by zero, no index out of range
    (path-sensitive; calls contribute the callee's predicate). -/
def Date.trunc_year_safe (self : Int) : Prop :=
  (fun (self : Int) => Tr.Date.extract_safe self) self ∧
  (Tr.Date.from_ymd_unchecked_safe ((fun (self : Int) => let t1 : Int × Int × Int := Tr.Date.extract self; let year : Int := t1.1; year) self) 1 1)

/-- `timestamp.rs::Trunc for Timestamp::trunc_year` (timestamp.rs:234), body sha1 8aeaddd2ebf1 -/
def Timestamp.trunc_year (self : Int) : Chk Int :=
  match Tr.Date.trunc_year (Tr.Timestamp.date self) with
  | Except.error err => Except.error err
  | Except.ok r1 => Except.ok (Tr.Date.and_zero_time r1)

/-- No arithmetic node of `timestamp.rs::Trunc for Timestamp::trunc_year` leaves its Rust integer type, no division by zero, no index out of range
    (path-sensitive; calls contribute the callee's predicate). -/
def Timestamp.trunc_year_safe (self : Int) : Prop :=
  Tr.Timestamp.date_safe self ∧
  Tr.Date.trunc_year_safe (Tr.Timestamp.date self) ∧
  (match Tr.Date.trunc_year (Tr.Timestamp.date self) with
   | Except.error err => True
   | Except.ok r1 => Tr.Date.and_zero_time_safe r1)

/-- `oracle.rs::Trunc for OracleDate::trunc_year` (oracle.rs:195), body sha1 99e94a38064f -/
def OracleDate.trunc_year (self : Int) : Chk Int :=
  match Tr.Timestamp.trunc_year self with
  | Except.error err => Except.error err
  | Except.ok r1 => Except.ok (Tr.OracleDate.from_timestamp r1)

/-- No arithmetic node of `oracle.rs::Trunc for OracleDate::trunc_year` leaves its Rust integer type, no division by zero, no index out of range
    (path-sensitive; calls contribute the callee's predicate). -/
def OracleDate.trunc_year_safe (self : Int) : Prop :=
  Tr.Timestamp.trunc_year_safe self ∧
  (match Tr.Timestamp.trunc_year self with
   | Except.error err => True
   | Except.ok r1 => Tr.OracleDate.from_timestamp_safe r1)

/-- `date.rs::Trunc for Date::trunc_iso_year` (date.rs:468), body sha1 2d1d5d8766e4 -/
def Date.trunc_iso_year (self : Int) : Chk Int :=
  -- date.rs:469: let iso_year = self.date_to_iso_year();
  let iso_year : Int := Tr.Date.date_to_iso_year self
  -- date.rs:470: let first_date = { Date::from_ymd_unchecked(iso_year, 1, 1) };
  let first_date : Int := Tr.Date.from_ymd_unchecked iso_year 1 1
  -- date.rs:471: let week_day = first_date.day_of_week() as usize;
  let week_day : Int := Tr.Date.day_of_week first_date
  -- date.rs:472: let (to_first_date_of_week, remain_day) = ISO_YEAR_TABLE[week_day];
  let to_first_date_of_week_remain_day : Bool × Int := idxD ISO_YEAR_TABLE week_day (false, 0)
  let to_first_date_of_week : Bool := to_first_date_of_week_remain_day.1
  let remain_day : Int := to_first_date_of_week_remain_day.2
  if to_first_date_of_week = true then
    Tr.sub_to_date first_date remain_day
  else
    Tr.current_date first_date remain_day

/-- No arithmetic node of `date.rs::Trunc for Date::trunc_iso_year` leaves its Rust integer type, no division by zero, no index out of range
    (path-sensitive; calls contribute the callee's predicate). -/
def Date.trunc_iso_year_safe (self : Int) : Prop :=
  Tr.Date.date_to_iso_year_safe self ∧
  let iso_year : Int := Tr.Date.date_to_iso_year self
  Tr.Date.from_ymd_unchecked_safe iso_year 1 1 ∧
  let first_date : Int := Tr.Date.from_ymd_unchecked iso_year 1 1
  Tr.Date.day_of_week_safe first_date ∧
  let week_day : Int := Tr.Date.day_of_week first_date
  0 ≤ week_day ∧
  week_day < 8 ∧
  let to_first_date_of_week_remain_day : Bool × Int := idxD ISO_YEAR_TABLE week_day (false, 0)
  let to_first_date_of_week : Bool := to_first_date_of_week_remain_day.1
  let remain_day : Int := to_first_date_of_week_remain_day.2
  (to_first_date_of_week = true → Tr.sub_to_date_safe first_date remain_day) ∧
  (¬ to_first_date_of_week = true → Tr.current_date_safe first_date remain_day)

/-- `timestamp.rs::Trunc for Timestamp::trunc_iso_year` (timestamp.rs:239), body sha1 3fe4ec971f06 -/
def Timestamp.trunc_iso_year (self : Int) : Chk Int :=
  match Tr.Date.trunc_iso_year (Tr.Timestamp.date self) with
  | Except.error err => Except.error err
  | Except.ok r1 => Except.ok (Tr.Date.and_zero_time r1)

/-- No arithmetic node of `timestamp.rs::Trunc for Timestamp::trunc_iso_year` leaves its Rust integer type, no division by zero, no index out of range
    (path-sensitive; calls contribute the callee's predicate). -/
def Timestamp.trunc_iso_year_safe (self : Int) : Prop :=
  Tr.Timestamp.date_safe self ∧
  Tr.Date.trunc_iso_year_safe (Tr.Timestamp.date self) ∧
  (match Tr.Date.trunc_iso_year (Tr.Timestamp.date self) with
   | Except.error err => True
   | Except.ok r1 => Tr.Date.and_zero_time_safe r1)

/-- `oracle.rs::Trunc for OracleDate::trunc_iso_year` (oracle.rs:200), body sha1 c5841d20c7f8 -/
def OracleDate.trunc_iso_year (self : Int) : Chk Int :=
  match Tr.Timestamp.trunc_iso_year self with
  | Except.error err => Except.error err
  | Except.ok r1 => Except.ok (Tr.OracleDate.from_timestamp r1)

/-- No arithmetic node of `oracle.rs::Trunc for OracleDate::trunc_iso_year` leaves its Rust integer type, no division by zero, no index out of range
    (path-sensitive; calls contribute the callee's predicate). -/
def OracleDate.trunc_iso_year_safe (self : Int) : Prop :=
  Tr.Timestamp.trunc_iso_year_safe self ∧
  (match Tr.Timestamp.trunc_iso_year self with
   | Except.error err => True
   | Except.ok r1 => Tr.OracleDate.from_timestamp_safe r1)

/-- `date.rs::Trunc for Date::trunc_quarter` (date.rs:477), body sha1 cd9b00ea0e1d -/
def Date.trunc_quarter (self : Int) : Chk Int :=
  -- date.rs:478: const QUARTER_FIRST_MONTH: [u32; 12] = [1, 1, 1, 4, 4, 4, 7, 7, 7, 10, 10, 10];
  let QUARTER_FIRST_MONTH : List Int := [1, 1, 1, 4, 4, 4, 7, 7, 7, 10, 10, 10]
  -- date.rs:480: let (year, month, _) = self.extract();
  let year_month : Int × Int × Int := Tr.Date.extract self
  let year : Int := year_month.1
  let month : Int := year_month.2.1
  -- date.rs:481: let quarter_month = QUARTER_FIRST_MONTH[month as usize - 1];
  let quarter_month : Int := idxD QUARTER_FIRST_MONTH (month - 1) 0
  Except.ok (Tr.Date.from_ymd_unchecked year quarter_month 1)

/-- No arithmetic node of `date.rs::Trunc for Date::trunc_quarter` leaves its Rust integer type, no division by zero, no index out of range
    (path-sensitive; calls contribute the callee's predicate). -/
def Date.trunc_quarter_safe (self : Int) : Prop :=
  let QUARTER_FIRST_MONTH : List Int := [1, 1, 1, 4, 4, 4, 7, 7, 7, 10, 10, 10]
  Tr.Date.extract_safe self ∧
  let year_month : Int × Int × Int := Tr.Date.extract self
  let year : Int := year_month.1
  let month : Int := year_month.2.1
  fitsU64 (month - 1) ∧
  0 ≤ month - 1 ∧
  month - 1 < 12 ∧
  let quarter_month : Int := idxD QUARTER_FIRST_MONTH (month - 1) 0
  Tr.Date.from_ymd_unchecked_safe year quarter_month 1

/-- `timestamp.rs::Trunc for Timestamp::trunc_quarter` (timestamp.rs:244), body sha1 d5f8b7fbedc2 -/
def Timestamp.trunc_quarter (self : Int) : Chk Int :=
  match Tr.Date.trunc_quarter (Tr.Timestamp.date self) with
  | Except.error err => Except.error err
  | Except.ok r1 => Except.ok (Tr.Date.and_zero_time r1)

/-- No arithmetic node of `timestamp.rs::Trunc for Timestamp::trunc_quarter` leaves its Rust integer type, no division by zero, no index out of range
    (path-sensitive; calls contribute the callee's predicate). -/
def Timestamp.trunc_quarter_safe (self : Int) : Prop :=
  Tr.Timestamp.date_safe self ∧
  Tr.Date.trunc_quarter_safe (Tr.Timestamp.date self) ∧
  (match Tr.Date.trunc_quarter (Tr.Timestamp.date self) with
   | Except.error err => True
   | Except.ok r1 => Tr.Date.and_zero_time_safe r1)

/-- `oracle.rs::Trunc for OracleDate::trunc_quarter` (oracle.rs:205), body sha1 270dbf18a4ee -/
def OracleDate.trunc_quarter (self : Int) : Chk Int :=
  match Tr.Timestamp.trunc_quarter self with
  | Except.error err => Except.error err
  | Except.ok r1 => Except.ok (Tr.OracleDate.from_timestamp r1)

/-- No arithmetic node of `oracle.rs::Trunc for OracleDate::trunc_quarter` leaves its Rust integer type, no division by zero, no index out of range
    (path-sensitive; calls contribute the callee's predicate). -/
def OracleDate.trunc_quarter_safe (self : Int) : Prop :=
  Tr.Timestamp.trunc_quarter_safe self ∧
  (match Tr.Timestamp.trunc_quarter self with
   | Except.error err => True
   | Except.ok r1 => Tr.OracleDate.from_timestamp_safe r1)

/-- `date.rs::Trunc for Date::trunc_month` (date.rs:487), body sha1 72100addc94c -/
def Date.trunc_month (self : Int) : Chk Int :=
  -- date.rs:488: let (year, month, _) = self.extract();
  let year_month : Int × Int × Int := Tr.Date.extract self
  let year : Int := year_month.1
  let month : Int := year_month.2.1
  Except.ok (Tr.Date.from_ymd_unchecked year month 1)

/-- No arithmetic node of `date.rs::Trunc for Date::trunc_month` leaves its Rust integer type, no division by zero, no index out of range
    (path-sensitive; calls contribute the callee's predicate). -/
def Date.trunc_month_safe (self : Int) : Prop :=
  Tr.Date.extract_safe self ∧
  let year_month : Int × Int × Int := Tr.Date.extract self
  let year : Int := year_month.1
  let month : Int := year_month.2.1
  Tr.Date.from_ymd_unchecked_safe year month 1

/-- `timestamp.rs::Trunc for Timestamp::trunc_month` (timestamp.rs:249), body sha1 71a055e3b107 -/
def Timestamp.trunc_month (self : Int) : Chk Int :=
  match Tr.Date.trunc_month (Tr.Timestamp.date self) with
  | Except.error err => Except.error err
  | Except.ok r1 => Except.ok (Tr.Date.and_zero_time r1)

/-- No arithmetic node of `timestamp.rs::Trunc for Timestamp::trunc_month` leaves its Rust integer type, no division by zero, no index out of range
    (path-sensitive; calls contribute the callee's predicate). -/
def Timestamp.trunc_month_safe (self : Int) : Prop :=
  Tr.Timestamp.date_safe self ∧
  Tr.Date.trunc_month_safe (Tr.Timestamp.date self) ∧
  (match Tr.Date.trunc_month (Tr.Timestamp.date self) with
   | Except.error err => True
   | Except.ok r1 => Tr.Date.and_zero_time_safe r1)

/-- `oracle.rs::Trunc for OracleDate::trunc_month` (oracle.rs:210), body sha1 a747e9d97220 -/
def OracleDate.trunc_month (self : Int) : Chk Int :=
  match Tr.Timestamp.trunc_month self with
  | Except.error err => Except.error err
  | Except.ok r1 => Except.ok (Tr.OracleDate.from_timestamp r1)

/-- No arithmetic node of `oracle.rs::Trunc for OracleDate::trunc_month` leaves its Rust integer type, no division by zero, no index out of range
    (path-sensitive; calls contribute the callee's predicate). -/
def OracleDate.trunc_month_safe (self : Int) : Prop :=
  Tr.Timestamp.trunc_month_safe self ∧
  (match Tr.Timestamp.trunc_month self with
   | Except.error err => True
   | Except.ok r1 => Tr.OracleDate.from_timestamp_safe r1)

/-- `date.rs::Trunc for Date::trunc_week` (date.rs:493), body sha1 097a9672699e -/
-- inlined helpers: date.rs::DateTime for Date::year
def Date.trunc_week (self : Int) : Chk Int :=
  -- date.rs:494: let trunc_day =
  let trunc_day : Int :=
    rrem (Tr.Date.sub_date self (Tr.Date.from_ymd_unchecked ((fun (self : Int) => let t1 : Int × Int × Int := Tr.Date.extract self; let year : Int := t1.1; year) self) 1 1)) 7
  match Tr.Date.sub_days self trunc_day with
  | Except.error err => Except.error err
  | Except.ok r2 =>
      -- date.rs:496: let res_date = self.sub_days(trunc_day)?;
      let res_date : Int := r2
      Except.ok res_date

/-- No arithmetic node of `date.rs::Trunc for Date::trunc_week` leaves its Rust integer type, no division by zero, no index out of range
    (path-sensitive; calls contribute the callee's predicate). -/
def Date.trunc_week_safe (self : Int) : Prop :=
  (fun (self : Int) => Tr.Date.extract_safe self) self ∧
  (Tr.Date.from_ymd_unchecked_safe ((fun (self : Int) => let t1 : Int × Int × Int := Tr.Date.extract self; let year : Int := t1.1; year) self) 1 1) ∧
  (Tr.Date.sub_date_safe self (Tr.Date.from_ymd_unchecked ((fun (self : Int) => let t1 : Int × Int × Int := Tr.Date.extract self; let year : Int := t1.1; year) self) 1 1)) ∧
  let trunc_day : Int :=
    rrem (Tr.Date.sub_date self (Tr.Date.from_ymd_unchecked ((fun (self : Int) => let t1 : Int × Int × Int := Tr.Date.extract self; let year : Int := t1.1; year) self) 1 1)) 7
  Tr.Date.sub_days_safe self trunc_day

/-- `timestamp.rs::Trunc for Timestamp::trunc_week` (timestamp.rs:254), body sha1 70e64fa8dbc1 -/
def Timestamp.trunc_week (self : Int) : Chk Int :=
  match Tr.Date.trunc_week (Tr.Timestamp.date self) with
  | Except.error err => Except.error err
  | Except.ok r1 => Except.ok (Tr.Date.and_zero_time r1)

/-- No arithmetic node of `timestamp.rs::Trunc for Timestamp::trunc_week` leaves its Rust integer type, no division by zero, no index out of range
    (path-sensitive; calls contribute the callee's predicate). -/
def Timestamp.trunc_week_safe (self : Int) : Prop :=
  Tr.Timestamp.date_safe self ∧
  Tr.Date.trunc_week_safe (Tr.Timestamp.date self) ∧
  (match Tr.Date.trunc_week (Tr.Timestamp.date self) with
   | Except.error err => True
   | Except.ok r1 => Tr.Date.and_zero_time_safe r1)

/-- `oracle.rs::Trunc for OracleDate::trunc_week` (oracle.rs:215), body sha1 b88c651e8dc8 -/
def OracleDate.trunc_week (self : Int) : Chk Int :=
  match Tr.Timestamp.trunc_week self with
  | Except.error err => Except.error err
  | Except.ok r1 => Except.ok (Tr.OracleDate.from_timestamp r1)

/-- No arithmetic node of `oracle.rs::Trunc for OracleDate::trunc_week` leaves its Rust integer type, no division by zero, no index out of range
    (path-sensitive; calls contribute the callee's predicate). -/
def OracleDate.trunc_week_safe (self : Int) : Prop :=
  Tr.Timestamp.trunc_week_safe self ∧
  (match Tr.Timestamp.trunc_week self with
   | Except.error err => True
   | Except.ok r1 => Tr.OracleDate.from_timestamp_safe r1)

/-- `date.rs::Trunc for Date::trunc_iso_week` (date.rs:501), body sha1 96c7f86a1711 -/
def Date.trunc_iso_week (self : Int) : Chk Int :=
  -- date.rs:502: const ISO_WEEK_TABLE: [(DateSubMethod, i32); 8] = [
  let ISO_WEEK_TABLE : List (Bool × Int) :=
    [(true, 0), (true, 6), (false, 0), (true, 1), (true, 2), (true, 3), (true, 4), (true, 5)]
  -- date.rs:513: let week_day = self.day_of_week() as usize;
  let week_day : Int := Tr.Date.day_of_week self
  -- date.rs:514: let (to_first_date_of_week, remain_day) = ISO_WEEK_TABLE[week_day];
  let to_first_date_of_week_remain_day : Bool × Int := idxD ISO_WEEK_TABLE week_day (false, 0)
  let to_first_date_of_week : Bool := to_first_date_of_week_remain_day.1
  let remain_day : Int := to_first_date_of_week_remain_day.2
  if to_first_date_of_week = true then Tr.sub_to_date self remain_day else Tr.current_date self remain_day

/-- No arithmetic node of `date.rs::Trunc for Date::trunc_iso_week` leaves its Rust integer type, no division by zero, no index out of range
    (path-sensitive; calls contribute the callee's predicate). -/
def Date.trunc_iso_week_safe (self : Int) : Prop :=
  let ISO_WEEK_TABLE : List (Bool × Int) :=
    [(true, 0), (true, 6), (false, 0), (true, 1), (true, 2), (true, 3), (true, 4), (true, 5)]
  Tr.Date.day_of_week_safe self ∧
  let week_day : Int := Tr.Date.day_of_week self
  0 ≤ week_day ∧
  week_day < 8 ∧
  let to_first_date_of_week_remain_day : Bool × Int := idxD ISO_WEEK_TABLE week_day (false, 0)
  let to_first_date_of_week : Bool := to_first_date_of_week_remain_day.1
  let remain_day : Int := to_first_date_of_week_remain_day.2
  (to_first_date_of_week = true → Tr.sub_to_date_safe self remain_day) ∧
  (¬ to_first_date_of_week = true → Tr.current_date_safe self remain_day)

/-- `timestamp.rs::Trunc for Timestamp::trunc_iso_week` (timestamp.rs:259), body sha1 81adfb1116ec -/
def Timestamp.trunc_iso_week (self : Int) : Chk Int :=
  match Tr.Date.trunc_iso_week (Tr.Timestamp.date self) with
  | Except.error err => Except.error err
  | Except.ok r1 => Except.ok (Tr.Date.and_zero_time r1)

/-- No arithmetic node of `timestamp.rs::Trunc for Timestamp::trunc_iso_week` leaves its Rust integer type, no division by zero, no index out of range
    (path-sensitive; calls contribute the callee's predicate). -/
def Timestamp.trunc_iso_week_safe (self : Int) : Prop :=
  Tr.Timestamp.date_safe self ∧
  Tr.Date.trunc_iso_week_safe (Tr.Timestamp.date self) ∧
  (match Tr.Date.trunc_iso_week (Tr.Timestamp.date self) with
   | Except.error err => True
   | Except.ok r1 => Tr.Date.and_zero_time_safe r1)

/-- `oracle.rs::Trunc for OracleDate::trunc_iso_week` (oracle.rs:220), body sha1 d184c312d899 -/
def OracleDate.trunc_iso_week (self : Int) : Chk Int :=
  match Tr.Timestamp.trunc_iso_week self with
  | Except.error err => Except.error err
  | Except.ok r1 => Except.ok (Tr.OracleDate.from_timestamp r1)

/-- No arithmetic node of `oracle.rs::Trunc for OracleDate::trunc_iso_week` leaves its Rust integer type, no division by zero, no index out of range
    (path-sensitive; calls contribute the callee's predicate). -/
def OracleDate.trunc_iso_week_safe (self : Int) : Prop :=
  Tr.Timestamp.trunc_iso_week_safe self ∧
  (match Tr.Timestamp.trunc_iso_week self with
   | Except.error err => True
   | Except.ok r1 => Tr.OracleDate.from_timestamp_safe r1)

/-- `date.rs::Trunc for Date::trunc_month_start_week` (date.rs:519), body sha1 e5fad7e3023e -/
-- inlined helpers: date.rs::DateTime for Date::day
def Date.trunc_month_start_week (self : Int) : Chk Int :=
  -- date.rs:520: let remain_day = self.day().unwrap() % 7;
  let remain_day : Int :=
    rrem ((fun (self : Int) => let t1 : Int × Int × Int := Tr.Date.extract self; let day : Int := t1.2.2; asI32 day) self) 7
  -- date.rs:521: let trunc_day = if remain_day == 0 { 6 } else { remain_day - 1 };
  let trunc_day : Int := if remain_day = 0 then 6 else remain_day - 1
  match Tr.Date.sub_days self trunc_day with
  | Except.error err => Except.error err
  | Except.ok r2 =>
      -- date.rs:522: let res_date = self.sub_days(trunc_day)?;
      let res_date : Int := r2
      Except.ok res_date

/-- No arithmetic node of `date.rs::Trunc for Date::trunc_month_start_week` leaves its Rust integer type, no division by zero, no index out of range
    (path-sensitive; calls contribute the callee's predicate). -/
def Date.trunc_month_start_week_safe (self : Int) : Prop :=
  (fun (self : Int) => Tr.Date.extract_safe self) self ∧
  let remain_day : Int :=
    rrem ((fun (self : Int) => let t1 : Int × Int × Int := Tr.Date.extract self; let day : Int := t1.2.2; asI32 day) self) 7
  (¬ remain_day = 0 → fitsI32 (remain_day - 1)) ∧
  let trunc_day : Int := if remain_day = 0 then 6 else remain_day - 1
  Tr.Date.sub_days_safe self trunc_day

/-- `timestamp.rs::Trunc for Timestamp::trunc_month_start_week` (timestamp.rs:264), body sha1 3204ffb7d701 -/
def Timestamp.trunc_month_start_week (self : Int) : Chk Int :=
  match Tr.Date.trunc_month_start_week (Tr.Timestamp.date self) with
  | Except.error err => Except.error err
  | Except.ok r1 => Except.ok (Tr.Date.and_zero_time r1)

/-- No arithmetic node of `timestamp.rs::Trunc for Timestamp::trunc_month_start_week` leaves its Rust integer type, no division by zero, no index out of range
    (path-sensitive; calls contribute the callee's predicate). -/
def Timestamp.trunc_month_start_week_safe (self : Int) : Prop :=
  Tr.Timestamp.date_safe self ∧
  Tr.Date.trunc_month_start_week_safe (Tr.Timestamp.date self) ∧
  (match Tr.Date.trunc_month_start_week (Tr.Timestamp.date self) with
   | Except.error err => True
   | Except.ok r1 => Tr.Date.and_zero_time_safe r1)

/-- `oracle.rs::Trunc for OracleDate::trunc_month_start_week` (oracle.rs:225), body sha1 475f956b5ad3 -/
def OracleDate.trunc_month_start_week (self : Int) : Chk Int :=
  match Tr.Timestamp.trunc_month_start_week self with
  | Except.error err => Except.error err
  | Except.ok r1 => Except.ok (Tr.OracleDate.from_timestamp r1)

/-- No arithmetic node of `oracle.rs::Trunc for OracleDate::trunc_month_start_week` leaves its Rust integer type, no division by zero, no index out of range
    (path-sensitive; calls contribute the callee's predicate). -/
def OracleDate.trunc_month_start_week_safe (self : Int) : Prop :=
  Tr.Timestamp.trunc_month_start_week_safe self ∧
  (match Tr.Timestamp.trunc_month_start_week self with
   | Except.error err => True
   | Except.ok r1 => Tr.OracleDate.from_timestamp_safe r1)

/-- `date.rs::Trunc for Date::trunc_day` (date.rs:527), body sha1 77e10b773168 -/
def Date.trunc_day (self : Int) : Chk Int :=
  Except.ok self

/-- No arithmetic node of `date.rs::Trunc for Date::trunc_day` leaves its Rust integer type, no division by zero, no index out of range
    (path-sensitive; calls contribute the callee's predicate). -/
def Date.trunc_day_safe (self : Int) : Prop :=
  True

/-- `oracle.rs::Trunc for OracleDate::trunc_day` (oracle.rs:230), body sha1 4713f5482522 -/
def OracleDate.trunc_day (self : Int) : Chk Int :=
  match Tr.Timestamp.trunc_day self with
  | Except.error err => Except.error err
  | Except.ok r1 => Except.ok (Tr.OracleDate.from_timestamp r1)

/-- No arithmetic node of `oracle.rs::Trunc for OracleDate::trunc_day` leaves its Rust integer type, no division by zero, no index out of range
    (path-sensitive; calls contribute the callee's predicate). -/
def OracleDate.trunc_day_safe (self : Int) : Prop :=
  Tr.Timestamp.trunc_day_safe self ∧
  (match Tr.Timestamp.trunc_day self with
   | Except.error err => True
   | Except.ok r1 => Tr.OracleDate.from_timestamp_safe r1)

/-- `date.rs::Trunc for Date::trunc_sunday_start_week` (date.rs:532), body sha1 b9658a6798be -/
def Date.trunc_sunday_start_week (self : Int) : Chk Int :=
  match Tr.Date.sub_days self (Tr.Date.day_of_week self - 1) with
  | Except.error err => Except.error err
  | Except.ok r1 =>
      -- date.rs:533: let res_date = self.sub_days(self.day_of_week() as i32 - 1)?;
      let res_date : Int := r1
      Except.ok res_date

/-- No arithmetic node of `date.rs::Trunc for Date::trunc_sunday_start_week` leaves its Rust integer type, no division by zero, no index out of range
    (path-sensitive; calls contribute the callee's predicate). -/
def Date.trunc_sunday_start_week_safe (self : Int) : Prop :=
  Tr.Date.day_of_week_safe self ∧
  fitsI32 (Tr.Date.day_of_week self - 1) ∧
  Tr.Date.sub_days_safe self (Tr.Date.day_of_week self - 1)

/-- `timestamp.rs::Trunc for Timestamp::trunc_sunday_start_week` (timestamp.rs:274), body sha1 31c7237a7611 -/
def Timestamp.trunc_sunday_start_week (self : Int) : Chk Int :=
  match Tr.Date.trunc_sunday_start_week (Tr.Timestamp.date self) with
  | Except.error err => Except.error err
  | Except.ok r1 => Except.ok (Tr.Date.and_zero_time r1)

/-- No arithmetic node of `timestamp.rs::Trunc for Timestamp::trunc_sunday_start_week` leaves its Rust integer type, no division by zero, no index out of range
    (path-sensitive; calls contribute the callee's predicate). -/
def Timestamp.trunc_sunday_start_week_safe (self : Int) : Prop :=
  Tr.Timestamp.date_safe self ∧
  Tr.Date.trunc_sunday_start_week_safe (Tr.Timestamp.date self) ∧
  (match Tr.Date.trunc_sunday_start_week (Tr.Timestamp.date self) with
   | Except.error err => True
   | Except.ok r1 => Tr.Date.and_zero_time_safe r1)

/-- `oracle.rs::Trunc for OracleDate::trunc_sunday_start_week` (oracle.rs:235), body sha1 437f00478ddf -/
def OracleDate.trunc_sunday_start_week (self : Int) : Chk Int :=
  match Tr.Timestamp.trunc_sunday_start_week self with
  | Except.error err => Except.error err
  | Except.ok r1 => Except.ok (Tr.OracleDate.from_timestamp r1)

/-- No arithmetic node of `oracle.rs::Trunc for OracleDate::trunc_sunday_start_week` leaves its Rust integer type, no division by zero, no index out of range
    (path-sensitive; calls contribute the callee's predicate). -/
def OracleDate.trunc_sunday_start_week_safe (self : Int) : Prop :=
  Tr.Timestamp.trunc_sunday_start_week_safe self ∧
  (match Tr.Timestamp.trunc_sunday_start_week self with
   | Except.error err => True
   | Except.ok r1 => Tr.OracleDate.from_timestamp_safe r1)

/-- `date.rs::Trunc for Date::trunc_hour` (date.rs:538), body sha1 77e10b773168 -/
def Date.trunc_hour (self : Int) : Chk Int :=
  Except.ok self

/-- No arithmetic node of `date.rs::Trunc for Date::trunc_hour` leaves its Rust integer type, no division by zero, no index out of range
    (path-sensitive; calls contribute the callee's predicate). -/
def Date.trunc_hour_safe (self : Int) : Prop :=
  True

/-- `oracle.rs::Trunc for OracleDate::trunc_hour` (oracle.rs:240), body sha1 cd0c7b88030b -/
def OracleDate.trunc_hour (self : Int) : Chk Int :=
  match Tr.Timestamp.trunc_hour self with
  | Except.error err => Except.error err
  | Except.ok r1 => Except.ok (Tr.OracleDate.from_timestamp r1)

/-- No arithmetic node of `oracle.rs::Trunc for OracleDate::trunc_hour` leaves its Rust integer type, no division by zero, no index out of range
    (path-sensitive; calls contribute the callee's predicate). -/
def OracleDate.trunc_hour_safe (self : Int) : Prop :=
  Tr.Timestamp.trunc_hour_safe self ∧
  (match Tr.Timestamp.trunc_hour self with
   | Except.error err => True
   | Except.ok r1 => Tr.OracleDate.from_timestamp_safe r1)

/-- `date.rs::Trunc for Date::trunc_minute` (date.rs:543), body sha1 77e10b773168 -/
def Date.trunc_minute (self : Int) : Chk Int :=
  Except.ok self

/-- No arithmetic node of `date.rs::Trunc for Date::trunc_minute` leaves its Rust integer type, no division by zero, no index out of range
    (path-sensitive; calls contribute the callee's predicate). -/
def Date.trunc_minute_safe (self : Int) : Prop :=
  True

/-- `oracle.rs::Trunc for OracleDate::trunc_minute` (oracle.rs:245), body sha1 e721738e03f7 -/
def OracleDate.trunc_minute (self : Int) : Chk Int :=
  match Tr.Timestamp.trunc_minute self with
  | Except.error err => Except.error err
  | Except.ok r1 => Except.ok (Tr.OracleDate.from_timestamp r1)

/-- No arithmetic node of `oracle.rs::Trunc for OracleDate::trunc_minute` leaves its Rust integer type, no division by zero, no index out of range
    (path-sensitive; calls contribute the callee's predicate). -/
def OracleDate.trunc_minute_safe (self : Int) : Prop :=
  Tr.Timestamp.trunc_minute_safe self ∧
  (match Tr.Timestamp.trunc_minute self with
   | Except.error err => True
   | Except.ok r1 => Tr.OracleDate.from_timestamp_safe r1)

/-- `date.rs::Round for Date::round_century` (date.rs:560), body sha1 e210c0b6b268 -/
-- inlined helpers: date.rs::DateTime for Date::year
def Date.round_century (self : Int) : Chk Int :=
  -- date.rs:561: let input_year = self.year().unwrap();
  let input_year : Int :=
    (fun (self : Int) => let t1 : Int × Int × Int := Tr.Date.extract self; let year : Int := t1.1; year) self
  -- date.rs:562: if input_year > DATE_MAX_YEAR - 49 {
  if input_year > DATE_MAX_YEAR - 49 then
    -- date.rs:563: return Err(Error::DateOutOfRange);
    Except.error Err.DateOutOfRange
  else
    -- date.rs:566: let mut century = input_year / 100;
    let century : Int := rdiv input_year 100
    -- date.rs:567: if input_year % 100 == 0 {
    let century : Int :=
      if rrem input_year 100 = 0 then
        -- date.rs:568: century -= 1;
        let century : Int := century - 1
        century
      else
        let century : Int :=
          if rrem input_year 100 > 50 then
            -- date.rs:570: century += 1;
            let century : Int := century + 1
            century
          else
            century
        century
    -- date.rs:573: let res_year = century * 100 + 1;
    let res_year : Int := century * 100 + 1
    Except.ok (Tr.Date.from_ymd_unchecked res_year 1 1)

/-- No arithmetic node of `date.rs::Round for Date::round_century` leaves its Rust integer type, no division by zero, no index out of range
    (path-sensitive; calls contribute the callee's predicate). -/
def Date.round_century_safe (self : Int) : Prop :=
  (fun (self : Int) => Tr.Date.extract_safe self) self ∧
  let input_year : Int :=
    (fun (self : Int) => let t1 : Int × Int × Int := Tr.Date.extract self; let year : Int := t1.1; year) self
  fitsI32 (DATE_MAX_YEAR - 49) ∧
  (¬ input_year > DATE_MAX_YEAR - 49 →
    let century : Int := rdiv input_year 100
    (rrem input_year 100 = 0 → fitsI32 (century - 1)) ∧
    (¬ rrem input_year 100 = 0 → rrem input_year 100 > 50 → fitsI32 (century + 1)) ∧
    let century : Int :=
      if rrem input_year 100 = 0 then
        -- date.rs:568: century -= 1;
        let century : Int := century - 1
        century
      else
        let century : Int :=
          if rrem input_year 100 > 50 then
            -- date.rs:570: century += 1;
            let century : Int := century + 1
            century
          else
            century
        century
    fitsI32 (century * 100) ∧
    fitsI32 (century * 100 + 1) ∧
    let res_year : Int := century * 100 + 1
    Tr.Date.from_ymd_unchecked_safe res_year 1 1)

/-- `timestamp.rs::Round for Timestamp::round_century` (timestamp.rs:296), body sha1 f4118cc3c45c -/
def Timestamp.round_century (self : Int) : Chk Int :=
  match Tr.Date.round_century (Tr.Timestamp.date self) with
  | Except.error err => Except.error err
  | Except.ok r1 => Except.ok (Tr.Date.and_zero_time r1)

/-- No arithmetic node of `timestamp.rs::Round for Timestamp::round_century` leaves its Rust integer type, no division by zero, no index out of range
    (path-sensitive; calls contribute the callee's predicate). -/
def Timestamp.round_century_safe (self : Int) : Prop :=
  Tr.Timestamp.date_safe self ∧
  Tr.Date.round_century_safe (Tr.Timestamp.date self) ∧
  (match Tr.Date.round_century (Tr.Timestamp.date self) with
   | Except.error err => True
   | Except.ok r1 => Tr.Date.and_zero_time_safe r1)

/-- `oracle.rs::Round for OracleDate::round_century` (oracle.rs:252), body sha1 56d1e885dbc1 -/
def OracleDate.round_century (self : Int) : Chk Int :=
  match Tr.Timestamp.round_century self with
  | Except.error err => Except.error err
  | Except.ok r1 => Except.ok (Tr.OracleDate.from_timestamp r1)

/-- No arithmetic node of `oracle.rs::Round for OracleDate::round_century` leaves its Rust integer type, no division by zero, no index out of range
    (path-sensitive; calls contribute the callee's predicate). -/
def OracleDate.round_century_safe (self : Int) : Prop :=
  Tr.Timestamp.round_century_safe self ∧
  (match Tr.Timestamp.round_century self with
   | Except.error err => True
   | Except.ok r1 => Tr.OracleDate.from_timestamp_safe r1)

/-- `date.rs::Round for Date::round_year` (date.rs:578), body sha1 111354e617d7 -/
def Date.round_year (self : Int) : Chk Int :=
  -- date.rs:579: let (mut year, month, _) = self.extract();
  let year_month : Int × Int × Int := Tr.Date.extract self
  let year : Int := year_month.1
  let month : Int := year_month.2.1
  -- date.rs:580: if month >= 7 {
  if month ≥ 7 then
    -- date.rs:581: if year == DATE_MAX_YEAR {
    if year = DATE_MAX_YEAR then
      -- date.rs:582: return Err(Error::DateOutOfRange);
      Except.error Err.DateOutOfRange
    else
      -- date.rs:584: year += 1;
      let year : Int := year + 1
      Except.ok (Tr.Date.from_ymd_unchecked year 1 1)
  else
    Except.ok (Tr.Date.from_ymd_unchecked year 1 1)

/-- No arithmetic node of `date.rs::Round for Date::round_year` leaves its Rust integer type, no division by zero, no index out of range
    (path-sensitive; calls contribute the callee's predicate). -/
def Date.round_year_safe (self : Int) : Prop :=
  Tr.Date.extract_safe self ∧
  let year_month : Int × Int × Int := Tr.Date.extract self
  let year : Int := year_month.1
  let month : Int := year_month.2.1
  (month ≥ 7 →
    (¬ year = DATE_MAX_YEAR →
      fitsI32 (year + 1) ∧
      let year : Int := year + 1
      Tr.Date.from_ymd_unchecked_safe year 1 1)) ∧
  (¬ month ≥ 7 → Tr.Date.from_ymd_unchecked_safe year 1 1)

/-- `timestamp.rs::Round for Timestamp::round_year` (timestamp.rs:301), body sha1 4bc84285ad9e -/
def Timestamp.round_year (self : Int) : Chk Int :=
  match Tr.Date.round_year (Tr.Timestamp.date self) with
  | Except.error err => Except.error err
  | Except.ok r1 => Except.ok (Tr.Date.and_zero_time r1)

/-- No arithmetic node of `timestamp.rs::Round for Timestamp::round_year` leaves its Rust integer type, no division by zero, no index out of range
    (path-sensitive; calls contribute the callee's predicate). -/
def Timestamp.round_year_safe (self : Int) : Prop :=
  Tr.Timestamp.date_safe self ∧
  Tr.Date.round_year_safe (Tr.Timestamp.date self) ∧
  (match Tr.Date.round_year (Tr.Timestamp.date self) with
   | Except.error err => True
   | Except.ok r1 => Tr.Date.and_zero_time_safe r1)

/-- `oracle.rs::Round for OracleDate::round_year` (oracle.rs:257), body sha1 109c5c89de0c -/
def OracleDate.round_year (self : Int) : Chk Int :=
  match Tr.Timestamp.round_year self with
  | Except.error err => Except.error err
  | Except.ok r1 => Except.ok (Tr.OracleDate.from_timestamp r1)

/-- No arithmetic node of `oracle.rs::Round for OracleDate::round_year` leaves its Rust integer type, no division by zero, no index out of range
    (path-sensitive; calls contribute the callee's predicate). -/
def OracleDate.round_year_safe (self : Int) : Prop :=
  Tr.Timestamp.round_year_safe self ∧
  (match Tr.Timestamp.round_year self with
   | Except.error err => True
   | Except.ok r1 => Tr.OracleDate.from_timestamp_safe r1)

/-- `date.rs::Round for Date::round_iso_year` (date.rs:590), body sha1 506265c48629 -/
def Date.round_iso_year (self : Int) : Chk Int :=
  -- date.rs:591: let (year, month, _) = self.extract();
  let year_month : Int × Int × Int := Tr.Date.extract self
  let year : Int := year_month.1
  let month : Int := year_month.2.1
  -- date.rs:592: let mut date = self;
  let date : Int := self
  -- date.rs:593: if month >= 7 {
  if month ≥ 7 then
    -- date.rs:594: if year == DATE_MAX_YEAR {
    if year = DATE_MAX_YEAR then
      -- date.rs:595: return Err(Error::DateOutOfRange);
      Except.error Err.DateOutOfRange
    else
      -- date.rs:598: date = { Date::from_ymd_unchecked(year + 1, 1, 4) };
      let date : Int := Tr.Date.from_ymd_unchecked (year + 1) 1 4
      Tr.Date.trunc_iso_year date
  else
    Tr.Date.trunc_iso_year date

/-- No arithmetic node of `date.rs::Round for Date::round_iso_year` leaves its Rust integer type, no division by zero, no index out of range
    (path-sensitive; calls contribute the callee's predicate). -/
def Date.round_iso_year_safe (self : Int) : Prop :=
  Tr.Date.extract_safe self ∧
  let year_month : Int × Int × Int := Tr.Date.extract self
  let year : Int := year_month.1
  let month : Int := year_month.2.1
  let date : Int := self
  (month ≥ 7 →
    (¬ year = DATE_MAX_YEAR →
      fitsI32 (year + 1) ∧
      Tr.Date.from_ymd_unchecked_safe (year + 1) 1 4 ∧
      let date : Int := Tr.Date.from_ymd_unchecked (year + 1) 1 4
      Tr.Date.trunc_iso_year_safe date)) ∧
  (¬ month ≥ 7 → Tr.Date.trunc_iso_year_safe date)

/-- `timestamp.rs::Round for Timestamp::round_iso_year` (timestamp.rs:306), body sha1 37958209f9a8 -/
def Timestamp.round_iso_year (self : Int) : Chk Int :=
  match Tr.Date.round_iso_year (Tr.Timestamp.date self) with
  | Except.error err => Except.error err
  | Except.ok r1 => Except.ok (Tr.Date.and_zero_time r1)

/-- No arithmetic node of `timestamp.rs::Round for Timestamp::round_iso_year` leaves its Rust integer type, no division by zero, no index out of range
    (path-sensitive; calls contribute the callee's predicate). -/
def Timestamp.round_iso_year_safe (self : Int) : Prop :=
  Tr.Timestamp.date_safe self ∧
  Tr.Date.round_iso_year_safe (Tr.Timestamp.date self) ∧
  (match Tr.Date.round_iso_year (Tr.Timestamp.date self) with
   | Except.error err => True
   | Except.ok r1 => Tr.Date.and_zero_time_safe r1)

/-- `oracle.rs::Round for OracleDate::round_iso_year` (oracle.rs:262), body sha1 a8487c8396f5 -/
def OracleDate.round_iso_year (self : Int) : Chk Int :=
  match Tr.Timestamp.round_iso_year self with
  | Except.error err => Except.error err
  | Except.ok r1 => Except.ok (Tr.OracleDate.from_timestamp r1)

/-- No arithmetic node of `oracle.rs::Round for OracleDate::round_iso_year` leaves its Rust integer type, no division by zero, no index out of range
    (path-sensitive; calls contribute the callee's predicate). -/
def OracleDate.round_iso_year_safe (self : Int) : Prop :=
  Tr.Timestamp.round_iso_year_safe self ∧
  (match Tr.Timestamp.round_iso_year self with
   | Except.error err => True
   | Except.ok r1 => Tr.OracleDate.from_timestamp_safe r1)

/-- `date.rs::Round for Date::round_quarter` (date.rs:604), body sha1 97bfa585e2e7 -/
def Date.round_quarter (self : Int) : Chk Int :=
  -- date.rs:605: const QUARTER_ROUND_MONTH: [u32; 12] = [1, 4, 4, 4, 7, 7, 7, 10, 10, 10, 1, 1];
  let QUARTER_ROUND_MONTH : List Int := [1, 4, 4, 4, 7, 7, 7, 10, 10, 10, 1, 1]
  -- date.rs:606: const QUARTER_TRUNC_MONTH: [u32; 12] = [1, 1, 4, 4, 4, 7, 7, 7, 10, 10, 10, 1];
  let QUARTER_TRUNC_MONTH : List Int := [1, 1, 4, 4, 4, 7, 7, 7, 10, 10, 10, 1]
  -- date.rs:608: let (mut year, month, day) = self.extract();
  let year_month_day : Int × Int × Int := Tr.Date.extract self
  let year : Int := year_month_day.1
  let month : Int := year_month_day.2.1
  let day : Int := year_month_day.2.2
  -- date.rs:609: let is_round = day >= ROUNDS_UP_DAY;
  let is_round : Bool := decide (day ≥ ROUNDS_UP_DAY)
  -- date.rs:611: let index = month as usize - 1;
  let index : Int := month - 1
  -- date.rs:612: let quarter_month = if is_round {
  let quarter_month_year : Int × Int :=
    if is_round = true then
      -- date.rs:613: if month >= 11 {
      let year : Int :=
        if month ≥ 11 then
          -- date.rs:614: year += 1;
          let year : Int := year + 1
          year
        else
          year
      (idxD QUARTER_ROUND_MONTH index 0, year)
    else
      -- date.rs:618: if month == 12 {
      let year : Int :=
        if month = 12 then
          -- date.rs:619: year += 1;
          let year : Int := year + 1
          year
        else
          year
      (idxD QUARTER_TRUNC_MONTH index 0, year)
  let quarter_month : Int := quarter_month_year.1
  let year : Int := quarter_month_year.2
  -- date.rs:624: if year > DATE_MAX_YEAR {
  if year > DATE_MAX_YEAR then
    -- date.rs:625: return Err(Error::DateOutOfRange);
    Except.error Err.DateOutOfRange
  else
    Except.ok (Tr.Date.from_ymd_unchecked year quarter_month 1)

/-- No arithmetic node of `date.rs::Round for Date::round_quarter` leaves its Rust integer type, no division by zero, no index out of range
    (path-sensitive; calls contribute the callee's predicate). -/
def Date.round_quarter_safe (self : Int) : Prop :=
  let QUARTER_ROUND_MONTH : List Int := [1, 4, 4, 4, 7, 7, 7, 10, 10, 10, 1, 1]
  let QUARTER_TRUNC_MONTH : List Int := [1, 1, 4, 4, 4, 7, 7, 7, 10, 10, 10, 1]
  Tr.Date.extract_safe self ∧
  let year_month_day : Int × Int × Int := Tr.Date.extract self
  let year : Int := year_month_day.1
  let month : Int := year_month_day.2.1
  let day : Int := year_month_day.2.2
  let is_round : Bool := decide (day ≥ ROUNDS_UP_DAY)
  fitsU64 (month - 1) ∧
  let index : Int := month - 1
  (is_round = true →
    (month ≥ 11 → fitsI32 (year + 1)) ∧
    let year : Int :=
      if month ≥ 11 then
        -- date.rs:614: year += 1;
        let year : Int := year + 1
        year
      else
        year
    0 ≤ index ∧ index < 12) ∧
  (¬ is_round = true →
    (month = 12 → fitsI32 (year + 1)) ∧
    let year : Int :=
      if month = 12 then
        -- date.rs:619: year += 1;
        let year : Int := year + 1
        year
      else
        year
    0 ≤ index ∧ index < 12) ∧
  let quarter_month_year : Int × Int :=
    if is_round = true then
      -- date.rs:613: if month >= 11 {
      let year : Int :=
        if month ≥ 11 then
          -- date.rs:614: year += 1;
          let year : Int := year + 1
          year
        else
          year
      (idxD QUARTER_ROUND_MONTH index 0, year)
    else
      -- date.rs:618: if month == 12 {
      let year : Int :=
        if month = 12 then
          -- date.rs:619: year += 1;
          let year : Int := year + 1
          year
        else
          year
      (idxD QUARTER_TRUNC_MONTH index 0, year)
  let quarter_month : Int := quarter_month_year.1
  let year : Int := quarter_month_year.2
  ¬ year > DATE_MAX_YEAR → Tr.Date.from_ymd_unchecked_safe year quarter_month 1

/-- `timestamp.rs::Round for Timestamp::round_quarter` (timestamp.rs:311), body sha1 8706d8555200 -/
def Timestamp.round_quarter (self : Int) : Chk Int :=
  match Tr.Date.round_quarter (Tr.Timestamp.date self) with
  | Except.error err => Except.error err
  | Except.ok r1 => Except.ok (Tr.Date.and_zero_time r1)

/-- No arithmetic node of `timestamp.rs::Round for Timestamp::round_quarter` leaves its Rust integer type, no division by zero, no index out of range
    (path-sensitive; calls contribute the callee's predicate). -/
def Timestamp.round_quarter_safe (self : Int) : Prop :=
  Tr.Timestamp.date_safe self ∧
  Tr.Date.round_quarter_safe (Tr.Timestamp.date self) ∧
  (match Tr.Date.round_quarter (Tr.Timestamp.date self) with
   | Except.error err => True
   | Except.ok r1 => Tr.Date.and_zero_time_safe r1)

/-- `oracle.rs::Round for OracleDate::round_quarter` (oracle.rs:267), body sha1 56e9db780dd4 -/
def OracleDate.round_quarter (self : Int) : Chk Int :=
  match Tr.Timestamp.round_quarter self with
  | Except.error err => Except.error err
  | Except.ok r1 => Except.ok (Tr.OracleDate.from_timestamp r1)

/-- No arithmetic node of `oracle.rs::Round for OracleDate::round_quarter` leaves its Rust integer type, no division by zero, no index out of range
    (path-sensitive; calls contribute the callee's predicate). -/
def OracleDate.round_quarter_safe (self : Int) : Prop :=
  Tr.Timestamp.round_quarter_safe self ∧
  (match Tr.Timestamp.round_quarter self with
   | Except.error err => True
   | Except.ok r1 => Tr.OracleDate.from_timestamp_safe r1)

/-- `date.rs::Round for Date::round_month` (date.rs:632), body sha1 772e386c966b -/
def Date.round_month (self : Int) : Chk Int :=
  -- date.rs:633: let (mut year, mut month, day) = self.extract();
  let year_month_day : Int × Int × Int := Tr.Date.extract self
  let year : Int := year_month_day.1
  let month : Int := year_month_day.2.1
  let day : Int := year_month_day.2.2
  -- date.rs:634: if day >= ROUNDS_UP_DAY {
  if day ≥ ROUNDS_UP_DAY then
    if month = 12 then
      -- date.rs:636: if year == DATE_MAX_YEAR {
      if year = DATE_MAX_YEAR then
        -- date.rs:637: return Err(Error::DateOutOfRange);
        Except.error Err.DateOutOfRange
      else
        -- date.rs:639: year += 1;
        let year : Int := year + 1
        -- date.rs:640: month = 1;
        let month : Int := 1
        Except.ok (Tr.Date.from_ymd_unchecked year 1 1)
    else
      -- date.rs:642: month += 1;
      let month : Int := month + 1
      Except.ok (Tr.Date.from_ymd_unchecked year month 1)
  else
    Except.ok (Tr.Date.from_ymd_unchecked year month 1)

/-- No arithmetic node of `date.rs::Round for Date::round_month` leaves its Rust integer type, no division by zero, no index out of range
    (path-sensitive; calls contribute the callee's predicate). -/
def Date.round_month_safe (self : Int) : Prop :=
  Tr.Date.extract_safe self ∧
  let year_month_day : Int × Int × Int := Tr.Date.extract self
  let year : Int := year_month_day.1
  let month : Int := year_month_day.2.1
  let day : Int := year_month_day.2.2
  (day ≥ ROUNDS_UP_DAY →
    (month = 12 →
      (¬ year = DATE_MAX_YEAR →
        fitsI32 (year + 1) ∧
        let year : Int := year + 1
        let month : Int := 1
        Tr.Date.from_ymd_unchecked_safe year 1 1)) ∧
    (¬ month = 12 →
      fitsU32 (month + 1) ∧
      let month : Int := month + 1
      Tr.Date.from_ymd_unchecked_safe year month 1)) ∧
  (¬ day ≥ ROUNDS_UP_DAY → Tr.Date.from_ymd_unchecked_safe year month 1)

/-- `timestamp.rs::Round for Timestamp::round_month` (timestamp.rs:316), body sha1 ed885a40a955 -/
def Timestamp.round_month (self : Int) : Chk Int :=
  match Tr.Date.round_month (Tr.Timestamp.date self) with
  | Except.error err => Except.error err
  | Except.ok r1 => Except.ok (Tr.Date.and_zero_time r1)

/-- No arithmetic node of `timestamp.rs::Round for Timestamp::round_month` leaves its Rust integer type, no division by zero, no index out of range
    (path-sensitive; calls contribute the callee's predicate). -/
def Timestamp.round_month_safe (self : Int) : Prop :=
  Tr.Timestamp.date_safe self ∧
  Tr.Date.round_month_safe (Tr.Timestamp.date self) ∧
  (match Tr.Date.round_month (Tr.Timestamp.date self) with
   | Except.error err => True
   | Except.ok r1 => Tr.Date.and_zero_time_safe r1)

/-- `oracle.rs::Round for OracleDate::round_month` (oracle.rs:272), body sha1 ca0ede669816 -/
def OracleDate.round_month (self : Int) : Chk Int :=
  match Tr.Timestamp.round_month self with
  | Except.error err => Except.error err
  | Except.ok r1 => Except.ok (Tr.OracleDate.from_timestamp r1)

/-- No arithmetic node of `oracle.rs::Round for OracleDate::round_month` leaves its Rust integer type, no division by zero, no index out of range
    (path-sensitive; calls contribute the callee's predicate). -/
def OracleDate.round_month_safe (self : Int) : Prop :=
  Tr.Timestamp.round_month_safe self ∧
  (match Tr.Timestamp.round_month self with
   | Except.error err => True
   | Except.ok r1 => Tr.OracleDate.from_timestamp_safe r1)

/-- `date.rs::Round for Date::round_week` (date.rs:649), body sha1 7e5368b46b38 -/
-- inlined helpers: date.rs::DateTime for Date::year
def Date.round_week (self : Int) : Chk Int :=
  Tr.Date.round_week_internal self ((fun (self : Int) => let t1 : Int × Int × Int := Tr.Date.extract self; let year : Int := t1.1; year) self)

/-- No arithmetic node of `date.rs::Round for Date::round_week` leaves its Rust integer type, no division by zero, no index out of range
    (path-sensitive; calls contribute the callee's predicate). -/
def Date.round_week_safe (self : Int) : Prop :=
  (fun (self : Int) => Tr.Date.extract_safe self) self ∧
  (Tr.Date.round_week_internal_safe self ((fun (self : Int) => let t1 : Int × Int × Int := Tr.Date.extract self; let year : Int := t1.1; year) self))

/-- `timestamp.rs::Round for Timestamp::round_week` (timestamp.rs:321), body sha1 08f4d1f53216 -/
-- inlined helpers: time.rs::DateTime for Time::hour
def Timestamp.round_week (self : Int) : Chk Int :=
  -- timestamp.rs:322: let (mut date, time) = self.extract();
  let date_time : Int × Int := Tr.Timestamp.extract self
  let date : Int := date_time.1
  let time : Int := date_time.2
  -- timestamp.rs:323: if time.hour().unwrap() >= 12 {
  if (fun (self : Int) => asI32 (rdiv self USECONDS_PER_HOUR)) time ≥ 12 then
    match Tr.Date.add_days date 1 with
    | Except.error err => Except.error err
    | Except.ok r1 =>
        -- timestamp.rs:324: date = date.add_days(1)?;
        let date : Int := r1
        -- timestamp.rs:326: let year = date.extract().0;
        let year : Int := (Tr.Date.extract date).1
        match Tr.Date.round_week_internal date year with
        | Except.error err => Except.error err
        | Except.ok r2 => Except.ok (Tr.Date.and_zero_time r2)
  else
    -- timestamp.rs:326: let year = date.extract().0;
    let year : Int := (Tr.Date.extract date).1
    match Tr.Date.round_week_internal date year with
    | Except.error err => Except.error err
    | Except.ok r3 => Except.ok (Tr.Date.and_zero_time r3)

/-- No arithmetic node of `timestamp.rs::Round for Timestamp::round_week` leaves its Rust integer type, no division by zero, no index out of range
    (path-sensitive; calls contribute the callee's predicate). -/
def Timestamp.round_week_safe (self : Int) : Prop :=
  Tr.Timestamp.extract_safe self ∧
  let date_time : Int × Int := Tr.Timestamp.extract self
  let date : Int := date_time.1
  let time : Int := date_time.2
  ((fun (self : Int) => asI32 (rdiv self USECONDS_PER_HOUR)) time ≥ 12 →
    Tr.Date.add_days_safe date 1 ∧
    (match Tr.Date.add_days date 1 with
     | Except.error err => True
     | Except.ok r1 =>
         let date : Int := r1
         Tr.Date.extract_safe date ∧
         let year : Int := (Tr.Date.extract date).1
         Tr.Date.round_week_internal_safe date year ∧
         (match Tr.Date.round_week_internal date year with
          | Except.error err => True
          | Except.ok r2 => Tr.Date.and_zero_time_safe r2))) ∧
  (¬ (fun (self : Int) => asI32 (rdiv self USECONDS_PER_HOUR)) time ≥ 12 →
    Tr.Date.extract_safe date ∧
    let year : Int := (Tr.Date.extract date).1
    Tr.Date.round_week_internal_safe date year ∧
    (match Tr.Date.round_week_internal date year with
     | Except.error err => True
     | Except.ok r3 => Tr.Date.and_zero_time_safe r3))

/-- `oracle.rs::Round for OracleDate::round_week` (oracle.rs:277), body sha1 a9d6712bed15 -/
def OracleDate.round_week (self : Int) : Chk Int :=
  match Tr.Timestamp.round_week self with
  | Except.error err => Except.error err
  | Except.ok r1 => Except.ok (Tr.OracleDate.from_timestamp r1)

/-- No arithmetic node of `oracle.rs::Round for OracleDate::round_week` leaves its Rust integer type, no division by zero, no index out of range
    (path-sensitive; calls contribute the callee's predicate). -/
def OracleDate.round_week_safe (self : Int) : Prop :=
  Tr.Timestamp.round_week_safe self ∧
  (match Tr.Timestamp.round_week self with
   | Except.error err => True
   | Except.ok r1 => Tr.OracleDate.from_timestamp_safe r1)

/-- `date.rs::Round for Date::round_iso_week` (date.rs:654), body sha1 c772596f367b -/
def Date.round_iso_week (self : Int) : Chk Int :=
  -- date.rs:655: const ISO_WEEK_TABLE: [(DateSubMethod, i32); 8] = [
  let ISO_WEEK_TABLE : List (Bool × Int) :=
    [(true, 0), (true, -1), (false, 0), (true, 1), (true, 2), (true, 3), (true, -3), (true, -2)]
  -- date.rs:666: let week_day = self.day_of_week() as usize;
  let week_day : Int := Tr.Date.day_of_week self
  -- date.rs:667: let (to_first_date_of_week, remain_day) = ISO_WEEK_TABLE[week_day];
  let to_first_date_of_week_remain_day : Bool × Int := idxD ISO_WEEK_TABLE week_day (false, 0)
  let to_first_date_of_week : Bool := to_first_date_of_week_remain_day.1
  let remain_day : Int := to_first_date_of_week_remain_day.2
  if to_first_date_of_week = true then Tr.sub_to_date self remain_day else Tr.current_date self remain_day

/-- No arithmetic node of `date.rs::Round for Date::round_iso_week` leaves its Rust integer type, no division by zero, no index out of range
    (path-sensitive; calls contribute the callee's predicate). -/
def Date.round_iso_week_safe (self : Int) : Prop :=
  let ISO_WEEK_TABLE : List (Bool × Int) :=
    [(true, 0), (true, -1), (false, 0), (true, 1), (true, 2), (true, 3), (true, -3), (true, -2)]
  Tr.Date.day_of_week_safe self ∧
  let week_day : Int := Tr.Date.day_of_week self
  0 ≤ week_day ∧
  week_day < 8 ∧
  let to_first_date_of_week_remain_day : Bool × Int := idxD ISO_WEEK_TABLE week_day (false, 0)
  let to_first_date_of_week : Bool := to_first_date_of_week_remain_day.1
  let remain_day : Int := to_first_date_of_week_remain_day.2
  (to_first_date_of_week = true → Tr.sub_to_date_safe self remain_day) ∧
  (¬ to_first_date_of_week = true → Tr.current_date_safe self remain_day)

/-- `timestamp.rs::Round for Timestamp::round_iso_week` (timestamp.rs:332), body sha1 735017aef19d -/
-- inlined helpers: time.rs::DateTime for Time::hour
def Timestamp.round_iso_week (self : Int) : Chk Int :=
  -- timestamp.rs:333: let (mut date, time) = self.extract();
  let date_time : Int × Int := Tr.Timestamp.extract self
  let date : Int := date_time.1
  let time : Int := date_time.2
  -- timestamp.rs:334: if time.hour().unwrap() >= 12 {
  if (fun (self : Int) => asI32 (rdiv self USECONDS_PER_HOUR)) time ≥ 12 then
    match Tr.Date.add_days date 1 with
    | Except.error err => Except.error err
    | Except.ok r1 =>
        -- timestamp.rs:335: date = date.add_days(1)?;
        let date : Int := r1
        match Tr.Date.round_iso_week date with
        | Except.error err => Except.error err
        | Except.ok r2 => Except.ok (Tr.Date.and_zero_time r2)
  else
    match Tr.Date.round_iso_week date with
    | Except.error err => Except.error err
    | Except.ok r3 => Except.ok (Tr.Date.and_zero_time r3)

/-- No arithmetic node of `timestamp.rs::Round for Timestamp::round_iso_week` leaves its Rust integer type, no division by zero, no index out of range
    (path-sensitive; calls contribute the callee's predicate). -/
def Timestamp.round_iso_week_safe (self : Int) : Prop :=
  Tr.Timestamp.extract_safe self ∧
  let date_time : Int × Int := Tr.Timestamp.extract self
  let date : Int := date_time.1
  let time : Int := date_time.2
  ((fun (self : Int) => asI32 (rdiv self USECONDS_PER_HOUR)) time ≥ 12 →
    Tr.Date.add_days_safe date 1 ∧
    (match Tr.Date.add_days date 1 with
     | Except.error err => True
     | Except.ok r1 =>
         let date : Int := r1
         Tr.Date.round_iso_week_safe date ∧
         (match Tr.Date.round_iso_week date with
          | Except.error err => True
          | Except.ok r2 => Tr.Date.and_zero_time_safe r2))) ∧
  (¬ (fun (self : Int) => asI32 (rdiv self USECONDS_PER_HOUR)) time ≥ 12 →
    Tr.Date.round_iso_week_safe date ∧
    (match Tr.Date.round_iso_week date with
     | Except.error err => True
     | Except.ok r3 => Tr.Date.and_zero_time_safe r3))

/-- `oracle.rs::Round for OracleDate::round_iso_week` (oracle.rs:282), body sha1 15f00e773707 -/
def OracleDate.round_iso_week (self : Int) : Chk Int :=
  match Tr.Timestamp.round_iso_week self with
  | Except.error err => Except.error err
  | Except.ok r1 => Except.ok (Tr.OracleDate.from_timestamp r1)

/-- No arithmetic node of `oracle.rs::Round for OracleDate::round_iso_week` leaves its Rust integer type, no division by zero, no index out of range
    (path-sensitive; calls contribute the callee's predicate). -/
def OracleDate.round_iso_week_safe (self : Int) : Prop :=
  Tr.Timestamp.round_iso_week_safe self ∧
  (match Tr.Timestamp.round_iso_week self with
   | Except.error err => True
   | Except.ok r1 => Tr.OracleDate.from_timestamp_safe r1)

/-- `date.rs::Round for Date::round_month_start_week` (date.rs:672), body sha1 9f664faacb59 -/
-- inlined helpers: date.rs::DateTime for Date::day
def Date.round_month_start_week (self : Int) : Chk Int :=
  Tr.Date.round_month_start_week_internal self ((fun (self : Int) => let t1 : Int × Int × Int := Tr.Date.extract self; let day : Int := t1.2.2; asI32 day) self)

/-- No arithmetic node of `date.rs::Round for Date::round_month_start_week` leaves its Rust integer type, no division by zero, no index out of range
    (path-sensitive; calls contribute the callee's predicate). -/
def Date.round_month_start_week_safe (self : Int) : Prop :=
  (fun (self : Int) => Tr.Date.extract_safe self) self ∧
  (Tr.Date.round_month_start_week_internal_safe self ((fun (self : Int) => let t1 : Int × Int × Int := Tr.Date.extract self; let day : Int := t1.2.2; asI32 day) self))

/-- `timestamp.rs::Round for Timestamp::round_month_start_week` (timestamp.rs:341), body sha1 987d77e5b9f2 -/
-- inlined helpers: time.rs::DateTime for Time::hour
def Timestamp.round_month_start_week (self : Int) : Chk Int :=
  -- timestamp.rs:342: let (mut date, time) = self.extract();
  let date_time : Int × Int := Tr.Timestamp.extract self
  let date : Int := date_time.1
  let time : Int := date_time.2
  -- timestamp.rs:343: if time.hour().unwrap() >= 12 {
  if (fun (self : Int) => asI32 (rdiv self USECONDS_PER_HOUR)) time ≥ 12 then
    match Tr.Date.add_days date 1 with
    | Except.error err => Except.error err
    | Except.ok r1 =>
        -- timestamp.rs:344: date = date.add_days(1)?;
        let date : Int := r1
        -- timestamp.rs:346: let day = date.extract().2;
        let day : Int := (Tr.Date.extract date).2.2
        match Tr.Date.round_month_start_week_internal date (asI32 day) with
        | Except.error err => Except.error err
        | Except.ok r2 => Except.ok (Tr.Date.and_zero_time r2)
  else
    -- timestamp.rs:346: let day = date.extract().2;
    let day : Int := (Tr.Date.extract date).2.2
    match Tr.Date.round_month_start_week_internal date (asI32 day) with
    | Except.error err => Except.error err
    | Except.ok r3 => Except.ok (Tr.Date.and_zero_time r3)

/-- No arithmetic node of `timestamp.rs::Round for Timestamp::round_month_start_week` leaves its Rust integer type, no division by zero, no index out of range
    (path-sensitive; calls contribute the callee's predicate). -/
def Timestamp.round_month_start_week_safe (self : Int) : Prop :=
  Tr.Timestamp.extract_safe self ∧
  let date_time : Int × Int := Tr.Timestamp.extract self
  let date : Int := date_time.1
  let time : Int := date_time.2
  ((fun (self : Int) => asI32 (rdiv self USECONDS_PER_HOUR)) time ≥ 12 →
    Tr.Date.add_days_safe date 1 ∧
    (match Tr.Date.add_days date 1 with
     | Except.error err => True
     | Except.ok r1 =>
         let date : Int := r1
         Tr.Date.extract_safe date ∧
         let day : Int := (Tr.Date.extract date).2.2
         Tr.Date.round_month_start_week_internal_safe date (asI32 day) ∧
         (match Tr.Date.round_month_start_week_internal date (asI32 day) with
          | Except.error err => True
          | Except.ok r2 => Tr.Date.and_zero_time_safe r2))) ∧
  (¬ (fun (self : Int) => asI32 (rdiv self USECONDS_PER_HOUR)) time ≥ 12 →
    Tr.Date.extract_safe date ∧
    let day : Int := (Tr.Date.extract date).2.2
    Tr.Date.round_month_start_week_internal_safe date (asI32 day) ∧
    (match Tr.Date.round_month_start_week_internal date (asI32 day) with
     | Except.error err => True
     | Except.ok r3 => Tr.Date.and_zero_time_safe r3))

/-- `oracle.rs::Round for OracleDate::round_month_start_week` (oracle.rs:287), body sha1 df7e3b20b77c -/
def OracleDate.round_month_start_week (self : Int) : Chk Int :=
  match Tr.Timestamp.round_month_start_week self with
  | Except.error err => Except.error err
  | Except.ok r1 => Except.ok (Tr.OracleDate.from_timestamp r1)

/-- No arithmetic node of `oracle.rs::Round for OracleDate::round_month_start_week` leaves its Rust integer type, no division by zero, no index out of range
    (path-sensitive; calls contribute the callee's predicate). -/
def OracleDate.round_month_start_week_safe (self : Int) : Prop :=
  Tr.Timestamp.round_month_start_week_safe self ∧
  (match Tr.Timestamp.round_month_start_week self with
   | Except.error err => True
   | Except.ok r1 => Tr.OracleDate.from_timestamp_safe r1)

/-- `date.rs::Round for Date::round_day` (date.rs:677), body sha1 77e10b773168 -/
def Date.round_day (self : Int) : Chk Int :=
  Except.ok self

/-- No arithmetic node of `date.rs::Round for Date::round_day` leaves its Rust integer type, no division by zero, no index out of range
    (path-sensitive; calls contribute the callee's predicate). -/
def Date.round_day_safe (self : Int) : Prop :=
  True

/-- `timestamp.rs::Round for Timestamp::round_day` (timestamp.rs:354), body sha1 7cc38ff4a192 -/
-- inlined helpers: time.rs::DateTime for Time::hour, timestamp.rs::DateTime for Timestamp::hour
def Timestamp.round_day (self : Int) : Chk Int :=
  -- timestamp.rs:355: let mut date = self.date();
  let date : Int := Tr.Timestamp.date self
  -- timestamp.rs:356: if self.hour().unwrap() >= 12 {
  if (fun (self : Int) => (fun (self : Int) => asI32 (rdiv self USECONDS_PER_HOUR)) (Tr.Timestamp.time self)) self ≥ 12 then
    match Tr.Date.add_days date 1 with
    | Except.error err => Except.error err
    | Except.ok r1 =>
        -- timestamp.rs:357: date = date.add_days(1)?;
        let date : Int := r1
        Except.ok (Tr.Date.and_zero_time date)
  else
    Except.ok (Tr.Date.and_zero_time date)

/-- No arithmetic node of `timestamp.rs::Round for Timestamp::round_day` leaves its Rust integer type, no division by zero, no index out of range
    (path-sensitive; calls contribute the callee's predicate). -/
def Timestamp.round_day_safe (self : Int) : Prop :=
  Tr.Timestamp.date_safe self ∧
  let date : Int := Tr.Timestamp.date self
  (fun (self : Int) => Tr.Timestamp.time_safe self) self ∧
  ((fun (self : Int) => (fun (self : Int) => asI32 (rdiv self USECONDS_PER_HOUR)) (Tr.Timestamp.time self)) self ≥ 12 →
    Tr.Date.add_days_safe date 1 ∧
    (match Tr.Date.add_days date 1 with
     | Except.error err => True
     | Except.ok r1 =>
         let date : Int := r1
         Tr.Date.and_zero_time_safe date)) ∧
  (¬ (fun (self : Int) => (fun (self : Int) => asI32 (rdiv self USECONDS_PER_HOUR)) (Tr.Timestamp.time self)) self ≥ 12 →
    Tr.Date.and_zero_time_safe date)

/-- `oracle.rs::Round for OracleDate::round_day` (oracle.rs:292), body sha1 e99934e3c195 -/
def OracleDate.round_day (self : Int) : Chk Int :=
  match Tr.Timestamp.round_day self with
  | Except.error err => Except.error err
  | Except.ok r1 => Except.ok (Tr.OracleDate.from_timestamp r1)

/-- No arithmetic node of `oracle.rs::Round for OracleDate::round_day` leaves its Rust integer type, no division by zero, no index out of range
    (path-sensitive; calls contribute the callee's predicate). -/
def OracleDate.round_day_safe (self : Int) : Prop :=
  Tr.Timestamp.round_day_safe self ∧
  (match Tr.Timestamp.round_day self with
   | Except.error err => True
   | Except.ok r1 => Tr.OracleDate.from_timestamp_safe r1)

/-- `date.rs::Round for Date::round_sunday_start_week` (date.rs:682), body sha1 defd31267fa0 -/
def Date.round_sunday_start_week (self : Int) : Chk Int :=
  -- date.rs:683: const SUNDAY_START_WEEK_TABLE: [(DateSubMethod, i32); 8] = [
  let SUNDAY_START_WEEK_TABLE : List (Bool × Int) :=
    [(true, 0), (false, 0), (true, 1), (true, 2), (true, 3), (true, -3), (true, -2), (true, -1)]
  -- date.rs:694: let week_day = self.day_of_week() as usize;
  let week_day : Int := Tr.Date.day_of_week self
  -- date.rs:695: let (to_first_date_of_week, remain_day) = SUNDAY_START_WEEK_TABLE[week_day];
  let to_first_date_of_week_remain_day : Bool × Int := idxD SUNDAY_START_WEEK_TABLE week_day (false, 0)
  let to_first_date_of_week : Bool := to_first_date_of_week_remain_day.1
  let remain_day : Int := to_first_date_of_week_remain_day.2
  if to_first_date_of_week = true then Tr.sub_to_date self remain_day else Tr.current_date self remain_day

/-- No arithmetic node of `date.rs::Round for Date::round_sunday_start_week` leaves its Rust integer type, no division by zero, no index out of range
    (path-sensitive; calls contribute the callee's predicate). -/
def Date.round_sunday_start_week_safe (self : Int) : Prop :=
  let SUNDAY_START_WEEK_TABLE : List (Bool × Int) :=
    [(true, 0), (false, 0), (true, 1), (true, 2), (true, 3), (true, -3), (true, -2), (true, -1)]
  Tr.Date.day_of_week_safe self ∧
  let week_day : Int := Tr.Date.day_of_week self
  0 ≤ week_day ∧
  week_day < 8 ∧
  let to_first_date_of_week_remain_day : Bool × Int := idxD SUNDAY_START_WEEK_TABLE week_day (false, 0)
  let to_first_date_of_week : Bool := to_first_date_of_week_remain_day.1
  let remain_day : Int := to_first_date_of_week_remain_day.2
  (to_first_date_of_week = true → Tr.sub_to_date_safe self remain_day) ∧
  (¬ to_first_date_of_week = true → Tr.current_date_safe self remain_day)

/-- `timestamp.rs::Round for Timestamp::round_sunday_start_week` (timestamp.rs:363), body sha1 019d248e1505 -/
-- inlined helpers: time.rs::DateTime for Time::hour
def Timestamp.round_sunday_start_week (self : Int) : Chk Int :=
  -- timestamp.rs:364: let (mut date, time) = self.extract();
  let date_time : Int × Int := Tr.Timestamp.extract self
  let date : Int := date_time.1
  let time : Int := date_time.2
  -- timestamp.rs:365: if time.hour().unwrap() >= 12 {
  if (fun (self : Int) => asI32 (rdiv self USECONDS_PER_HOUR)) time ≥ 12 then
    match Tr.Date.add_days date 1 with
    | Except.error err => Except.error err
    | Except.ok r1 =>
        -- timestamp.rs:366: date = date.add_days(1)?;
        let date : Int := r1
        match Tr.Date.round_sunday_start_week date with
        | Except.error err => Except.error err
        | Except.ok r2 => Except.ok (Tr.Date.and_zero_time r2)
  else
    match Tr.Date.round_sunday_start_week date with
    | Except.error err => Except.error err
    | Except.ok r3 => Except.ok (Tr.Date.and_zero_time r3)

/-- No arithmetic node of `timestamp.rs::Round for Timestamp::round_sunday_start_week` leaves its Rust integer type, no division by zero, no index out of range
    (path-sensitive; calls contribute the callee's predicate). -/
def Timestamp.round_sunday_start_week_safe (self : Int) : Prop :=
  Tr.Timestamp.extract_safe self ∧
  let date_time : Int × Int := Tr.Timestamp.extract self
  let date : Int := date_time.1
  let time : Int := date_time.2
  ((fun (self : Int) => asI32 (rdiv self USECONDS_PER_HOUR)) time ≥ 12 →
    Tr.Date.add_days_safe date 1 ∧
    (match Tr.Date.add_days date 1 with
     | Except.error err => True
     | Except.ok r1 =>
         let date : Int := r1
         Tr.Date.round_sunday_start_week_safe date ∧
         (match Tr.Date.round_sunday_start_week date with
          | Except.error err => True
          | Except.ok r2 => Tr.Date.and_zero_time_safe r2))) ∧
  (¬ (fun (self : Int) => asI32 (rdiv self USECONDS_PER_HOUR)) time ≥ 12 →
    Tr.Date.round_sunday_start_week_safe date ∧
    (match Tr.Date.round_sunday_start_week date with
     | Except.error err => True
     | Except.ok r3 => Tr.Date.and_zero_time_safe r3))

/-- `oracle.rs::Round for OracleDate::round_sunday_start_week` (oracle.rs:297), body sha1 21c5700aa63e -/
def OracleDate.round_sunday_start_week (self : Int) : Chk Int :=
  match Tr.Timestamp.round_sunday_start_week self with
  | Except.error err => Except.error err
  | Except.ok r1 => Except.ok (Tr.OracleDate.from_timestamp r1)

/-- No arithmetic node of `oracle.rs::Round for OracleDate::round_sunday_start_week` leaves its Rust integer type, no division by zero, no index out of range
    (path-sensitive; calls contribute the callee's predicate). -/
def OracleDate.round_sunday_start_week_safe (self : Int) : Prop :=
  Tr.Timestamp.round_sunday_start_week_safe self ∧
  (match Tr.Timestamp.round_sunday_start_week self with
   | Except.error err => True
   | Except.ok r1 => Tr.OracleDate.from_timestamp_safe r1)

/-- `date.rs::Round for Date::round_hour` (date.rs:700), body sha1 77e10b773168 -/
def Date.round_hour (self : Int) : Chk Int :=
  Except.ok self

/-- No arithmetic node of `date.rs::Round for Date::round_hour` leaves its Rust integer type, no division by zero, no index out of range
    (path-sensitive; calls contribute the callee's predicate). -/
def Date.round_hour_safe (self : Int) : Prop :=
  True

/-- `timestamp.rs::Round for Timestamp::round_hour` (timestamp.rs:372), body sha1 a31468d82781 -/
def Timestamp.round_hour (self : Int) : Chk Int :=
  -- timestamp.rs:373: let mut date = self.date();
  let date : Int := Tr.Timestamp.date self
  -- timestamp.rs:374: let (mut hour, minute, _, _) = self.time().extract();
  let hour_minute : Int × Int × Int × Int := Tr.Time.extract (Tr.Timestamp.time self)
  let hour : Int := hour_minute.1
  let minute : Int := hour_minute.2.1
  -- timestamp.rs:375: if minute >= 30 {
  if minute ≥ 30 then
    if hour ≥ 23 then
      match Tr.Date.add_days date 1 with
      | Except.error err => Except.error err
      | Except.ok r1 =>
          -- timestamp.rs:377: date = date.add_days(1)?;
          let date : Int := r1
          -- timestamp.rs:378: hour = 0;
          let hour : Int := 0
          Except.ok (Tr.Date.and_time date (Tr.Time.from_hms_unchecked 0 0 0 0))
    else
      -- timestamp.rs:380: hour += 1
      let hour : Int := hour + 1
      Except.ok (Tr.Date.and_time date (Tr.Time.from_hms_unchecked hour 0 0 0))
  else
    Except.ok (Tr.Date.and_time date (Tr.Time.from_hms_unchecked hour 0 0 0))

/-- No arithmetic node of `timestamp.rs::Round for Timestamp::round_hour` leaves its Rust integer type, no division by zero, no index out of range
    (path-sensitive; calls contribute the callee's predicate). -/
def Timestamp.round_hour_safe (self : Int) : Prop :=
  Tr.Timestamp.date_safe self ∧
  let date : Int := Tr.Timestamp.date self
  Tr.Timestamp.time_safe self ∧
  Tr.Time.extract_safe (Tr.Timestamp.time self) ∧
  let hour_minute : Int × Int × Int × Int := Tr.Time.extract (Tr.Timestamp.time self)
  let hour : Int := hour_minute.1
  let minute : Int := hour_minute.2.1
  (minute ≥ 30 →
    (hour ≥ 23 →
      Tr.Date.add_days_safe date 1 ∧
      (match Tr.Date.add_days date 1 with
       | Except.error err => True
       | Except.ok r1 =>
           let date : Int := r1
           let hour : Int := 0
           Tr.Time.from_hms_unchecked_safe 0 0 0 0 ∧
           Tr.Date.and_time_safe date (Tr.Time.from_hms_unchecked 0 0 0 0))) ∧
    (¬ hour ≥ 23 →
      fitsU32 (hour + 1) ∧
      let hour : Int := hour + 1
      Tr.Time.from_hms_unchecked_safe hour 0 0 0 ∧
      Tr.Date.and_time_safe date (Tr.Time.from_hms_unchecked hour 0 0 0))) ∧
  (¬ minute ≥ 30 →
    Tr.Time.from_hms_unchecked_safe hour 0 0 0 ∧
    Tr.Date.and_time_safe date (Tr.Time.from_hms_unchecked hour 0 0 0))

/-- `oracle.rs::Round for OracleDate::round_hour` (oracle.rs:302), body sha1 cd1aa3cb7a1f -/
def OracleDate.round_hour (self : Int) : Chk Int :=
  match Tr.Timestamp.round_hour self with
  | Except.error err => Except.error err
  | Except.ok r1 => Except.ok (Tr.OracleDate.from_timestamp r1)

/-- No arithmetic node of `oracle.rs::Round for OracleDate::round_hour` leaves its Rust integer type, no division by zero, no index out of range
    (path-sensitive; calls contribute the callee's predicate). -/
def OracleDate.round_hour_safe (self : Int) : Prop :=
  Tr.Timestamp.round_hour_safe self ∧
  (match Tr.Timestamp.round_hour self with
   | Except.error err => True
   | Except.ok r1 => Tr.OracleDate.from_timestamp_safe r1)

/-- `date.rs::Round for Date::round_minute` (date.rs:705), body sha1 77e10b773168 -/
def Date.round_minute (self : Int) : Chk Int :=
  Except.ok self

/-- No arithmetic node of `date.rs::Round for Date::round_minute` leaves its Rust integer type, no division by zero, no index out of range
    (path-sensitive; calls contribute the callee's predicate). -/
def Date.round_minute_safe (self : Int) : Prop :=
  True

/-- `timestamp.rs::Round for Timestamp::round_minute` (timestamp.rs:387), body sha1 dd397222df08 -/
def Timestamp.round_minute (self : Int) : Chk Int :=
  -- timestamp.rs:388: let mut date = self.date();
  let date : Int := Tr.Timestamp.date self
  -- timestamp.rs:389: let (mut hour, mut minute, sec, _) = self.time().extract();
  let hour_minute_sec : Int × Int × Int × Int := Tr.Time.extract (Tr.Timestamp.time self)
  let hour : Int := hour_minute_sec.1
  let minute : Int := hour_minute_sec.2.1
  let sec : Int := hour_minute_sec.2.2.1
  -- timestamp.rs:390: if sec >= 30 {
  if sec ≥ 30 then
    if minute = 59 then
      -- timestamp.rs:392: if hour == 23 {
      if hour = 23 then
        match Tr.Date.add_days date 1 with
        | Except.error err => Except.error err
        | Except.ok r1 =>
            -- timestamp.rs:393: date = date.add_days(1)?;
            let date : Int := r1
            -- timestamp.rs:394: hour = 0;
            let hour : Int := 0
            -- timestamp.rs:398: minute = 0;
            let minute : Int := 0
            Except.ok (Tr.Date.and_time date (Tr.Time.from_hms_unchecked 0 0 0 0))
      else
        -- timestamp.rs:396: hour += 1;
        let hour : Int := hour + 1
        -- timestamp.rs:398: minute = 0;
        let minute : Int := 0
        Except.ok (Tr.Date.and_time date (Tr.Time.from_hms_unchecked hour 0 0 0))
    else
      -- timestamp.rs:400: minute += 1;
      let minute : Int := minute + 1
      Except.ok (Tr.Date.and_time date (Tr.Time.from_hms_unchecked hour minute 0 0))
  else
    Except.ok (Tr.Date.and_time date (Tr.Time.from_hms_unchecked hour minute 0 0))

/-- No arithmetic node of `timestamp.rs::Round for Timestamp::round_minute` leaves its Rust integer type, no division by zero, no index out of range
    (path-sensitive; calls contribute the callee's predicate). -/
def Timestamp.round_minute_safe (self : Int) : Prop :=
  Tr.Timestamp.date_safe self ∧
  let date : Int := Tr.Timestamp.date self
  Tr.Timestamp.time_safe self ∧
  Tr.Time.extract_safe (Tr.Timestamp.time self) ∧
  let hour_minute_sec : Int × Int × Int × Int := Tr.Time.extract (Tr.Timestamp.time self)
  let hour : Int := hour_minute_sec.1
  let minute : Int := hour_minute_sec.2.1
  let sec : Int := hour_minute_sec.2.2.1
  (sec ≥ 30 →
    (minute = 59 →
      (hour = 23 →
        Tr.Date.add_days_safe date 1 ∧
        (match Tr.Date.add_days date 1 with
         | Except.error err => True
         | Except.ok r1 =>
             let date : Int := r1
             let hour : Int := 0
             let minute : Int := 0
             Tr.Time.from_hms_unchecked_safe 0 0 0 0 ∧
             Tr.Date.and_time_safe date (Tr.Time.from_hms_unchecked 0 0 0 0))) ∧
      (¬ hour = 23 →
        fitsU32 (hour + 1) ∧
        let hour : Int := hour + 1
        let minute : Int := 0
        Tr.Time.from_hms_unchecked_safe hour 0 0 0 ∧
        Tr.Date.and_time_safe date (Tr.Time.from_hms_unchecked hour 0 0 0))) ∧
    (¬ minute = 59 →
      fitsU32 (minute + 1) ∧
      let minute : Int := minute + 1
      Tr.Time.from_hms_unchecked_safe hour minute 0 0 ∧
      Tr.Date.and_time_safe date (Tr.Time.from_hms_unchecked hour minute 0 0))) ∧
  (¬ sec ≥ 30 →
    Tr.Time.from_hms_unchecked_safe hour minute 0 0 ∧
    Tr.Date.and_time_safe date (Tr.Time.from_hms_unchecked hour minute 0 0))

/-- `oracle.rs::Round for OracleDate::round_minute` (oracle.rs:307), body sha1 d71d292b5987 -/
def OracleDate.round_minute (self : Int) : Chk Int :=
  match Tr.Timestamp.round_minute self with
  | Except.error err => Except.error err
  | Except.ok r1 => Except.ok (Tr.OracleDate.from_timestamp r1)

/-- No arithmetic node of `oracle.rs::Round for OracleDate::round_minute` leaves its Rust integer type, no division by zero, no index out of range
    (path-sensitive; calls contribute the callee's predicate). -/
def OracleDate.round_minute_safe (self : Int) : Prop :=
  Tr.Timestamp.round_minute_safe self ∧
  (match Tr.Timestamp.round_minute self with
   | Except.error err => True
   | Except.ok r1 => Tr.OracleDate.from_timestamp_safe r1)

end SqlDt.Tr
