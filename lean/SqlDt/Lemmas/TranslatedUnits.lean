/-
  Lemmas/TranslatedUnits (hand-written, stable; phase 5b): `Tr.f = model f` for the calendar units
  (`impl Trunc / Round for Date | Timestamp | oracle::Date`) that are not already in Lemmas/TranslatedEq.
  Same namespace (`SqlDt.TrEq`) and attribute (`tr_eq`) as there; a separate file so that lake builds it in parallel.
-/
import SqlDt.Lemmas.TranslatedEq
import SqlDt.Lemmas.Calendar
set_option linter.unusedVariables false
set_option linter.unusedSimpArgs false
namespace SqlDt.TrEq
open SqlDt SqlDt.Gen SqlDt.TrTactic

/-! ### indexing: the model's panicking `idx` against the translation's `idxD` -/

theorem idx_ok_int (xs : List Int) (i : Int) (h0 : 0 ≤ i) (h1 : i < (xs.length : Int)) :
    idx xs i = .ok (idxD xs i 0) := by
  unfold idx idxD
  have hn : ¬ i < 0 := by omega
  have hl : i.toNat < xs.length := by omega
  simp only [hn, ↓reduceIte, List.getD_eq_getElem?_getD, List.getElem?_eq_getElem hl, Option.getD_some]

theorem idx_ok_pair (xs : List (Bool × Int)) (i : Int) (h0 : 0 ≤ i) (h1 : i < (xs.length : Int)) :
    idx xs i = .ok (idxD xs i (false, 0)) := by
  unfold idx idxD
  have hn : ¬ i < 0 := by omega
  have hl : i.toNat < xs.length := by omega
  simp only [hn, ↓reduceIte, List.getD_eq_getElem?_getD, List.getElem?_eq_getElem hl, Option.getD_some]

theorem dayOfWeek_range (d : Int) : 1 ≤ Date.dayOfWeek d ∧ Date.dayOfWeek d ≤ 7 := by
  unfold Date.dayOfWeek UNIX_EPOCH_DOW
  dsimp only
  have h := rrem_spec (d + 5 - 1) 7
  generalize rrem (d + 5 - 1) 7 = r at *
  first | omega | (split <;> omega)

/-- the model's table step with the index known to be in range -/
theorem applyWeekTable_eq (tbl : List (Bool × Int)) (i d : Int) (h0 : 0 ≤ i) (h1 : i < (tbl.length : Int)) :
    Date.applyWeekTable tbl i d =
      (if (idxD tbl i (false, 0)).1 = true then Date.subDays d (idxD tbl i (false, 0)).2 else Except.ok d) := by
  unfold Date.applyWeekTable
  rw [idx_ok_pair tbl i h0 h1]
  simp only [bind, Except.bind, pure, Except.pure]

/-- closes `Tr.f d = Date.applyWeekTable TABLE i d`-shaped goals after the callees have been rewritten -/
macro "tr_table" : tactic => `(tactic| (
  try simp (disch := omega) only [tr_eq]
  simp only [Date.trunc, Date.round, Date.truncIsoWeek, Date.roundIsoWeek, Date.roundSundayStartWeek, Date.roundWeek,
    Date.roundMonthStartWeek, Date.roundWeekInternal, Date.roundMonthStartWeekInternal, Date.truncIsoYear]
  first
  | (with_reducible_and_instances rfl)
  | (rw [applyWeekTable_eq _ _ _ (by omega) (by simp only [TRUNC_ISO_WEEK_TABLE, ROUND_ISO_WEEK_TABLE,
        SUNDAY_START_WEEK_TABLE, WEEK_TABLE, MONTH_START_WEEK_TABLE, ISO_YEAR_TABLE, List.length_cons, List.length_nil]; omega)]
     simp only [TRUNC_ISO_WEEK_TABLE, ROUND_ISO_WEEK_TABLE, SUNDAY_START_WEEK_TABLE, WEEK_TABLE, MONTH_START_WEEK_TABLE,
       ISO_YEAR_TABLE]
     first | done | (with_reducible_and_instances rfl) | tr_auto)))

/-! ## `Date`: the table-driven units -/

@[tr_eq] theorem Date.trunc_iso_week_eq (d : Int) :
    Tr.Date.trunc_iso_week d = Date.trunc .isoWeek d := by
  unfold Tr.Date.trunc_iso_week
  first
  | (with_reducible_and_instances rfl)
  | (have hw := dayOfWeek_range d
     tr_table)

@[tr_eq] theorem Date.round_iso_week_eq (d : Int) :
    Tr.Date.round_iso_week d = Date.round .isoWeek d := by
  unfold Tr.Date.round_iso_week
  first
  | (with_reducible_and_instances rfl)
  | (have hw := dayOfWeek_range d
     tr_table)

@[tr_eq] theorem Date.round_sunday_start_week_eq (d : Int) :
    Tr.Date.round_sunday_start_week d = Date.round .sundayStartWeek d := by
  unfold Tr.Date.round_sunday_start_week
  first
  | (with_reducible_and_instances rfl)
  | (have hw := dayOfWeek_range d
     tr_table)

theorem valid_date_range' (d : Int) (hd : isValidDate d) : -2440588 ≤ d ∧ d ≤ 2145043059 := by
  rw [isValidDate_iff] at hd; omega

/-- within one year the Julian day grows with (month, day) -/
theorem date2julian_first_le (y m dd : Int) (hm : 1 ≤ m ∧ m ≤ 12) (hd : 1 ≤ dd) :
    date2julian y 1 1 ≤ date2julian y m dd := by
  unfold date2julian
  dsimp only
  have e1 : ¬ ((1:Int) > 2) := by omega
  simp only [e1, ↓reduceIte]
  by_cases h : m > 2
  · simp only [h, ↓reduceIte]
    have a1 := rdiv_spec (y + 4799) 100; have a2 := rdiv_spec (y + 4799) 4
    have b1 := rdiv_spec (y + 4800) 100; have b2 := rdiv_spec (y + 4800) 4
    generalize rdiv (y + 4799) 100 = c1 at *; generalize rdiv (y + 4799) 4 = q1 at *
    generalize rdiv (y + 4800) 100 = c2 at *; generalize rdiv (y + 4800) 4 = q2 at *
    have a3 := rdiv_spec c1 4; have b3 := rdiv_spec c2 4
    generalize rdiv c1 4 = cc1 at *; generalize rdiv c2 4 = cc2 at *
    have w1 := rdiv_spec (7834 * (1 + 13)) 256; have w2 := rdiv_spec (7834 * (m + 1)) 256
    generalize rdiv (7834 * (1 + 13)) 256 = v1 at *; generalize rdiv (7834 * (m + 1)) 256 = v2 at *
    omega
  · simp only [h, ↓reduceIte]
    have w1 := rdiv_spec (7834 * (1 + 13)) 256; have w2 := rdiv_spec (7834 * (m + 13)) 256
    generalize rdiv (7834 * (1 + 13)) 256 = v1 at *; generalize rdiv (7834 * (m + 13)) 256 = v2 at *
    omega

/-- a valid date is not before the first day of its own year -/
theorem first_of_year_le (d : Int) (hd : isValidDate d) : Date.fromYmdUnchecked (Date.extract d).1 1 1 ≤ d := by
  obtain ⟨⟨y1, y9, m1, m12, d1, dd⟩, hb⟩ := SqlDt.Lemmas.extract_roundtrip d hd
  have h := date2julian_first_le (Date.extract d).1 (Date.extract d).2.1 (Date.extract d).2.2 ⟨m1, m12⟩ d1
  unfold Date.fromYmdUnchecked at hb ⊢
  omega

@[tr_eq] theorem Date.round_month_start_week_internal_eq (d day : Int) (hday : 0 ≤ day) :
    Tr.Date.round_month_start_week_internal d day = Date.roundMonthStartWeekInternal d day := by
  unfold Tr.Date.round_month_start_week_internal
  first
  | (with_reducible_and_instances rfl)
  | (have hr := rrem_spec day 7
     simp (disch := omega) only [asU64_eq]
     tr_table)

@[tr_eq] theorem Date.round_week_internal_eq (d year : Int) (hy : Date.fromYmdUnchecked year 1 1 ≤ d) :
    Tr.Date.round_week_internal d year = Date.roundWeekInternal d year := by
  unfold Tr.Date.round_week_internal
  first
  | (with_reducible_and_instances rfl)
  | (simp (disch := omega) only [tr_eq]
     unfold Date.subDate
     have hr := rrem_spec (d - Date.fromYmdUnchecked year 1 1) 7
     simp (disch := omega) only [asU64_eq]
     simp only [Date.roundWeekInternal, Date.subDate]
     rw [applyWeekTable_eq _ _ _ (by omega) (by simp only [WEEK_TABLE, List.length_cons, List.length_nil]; omega)]
     simp only [WEEK_TABLE]
     first | done | (with_reducible_and_instances rfl) | tr_auto)

@[tr_eq] theorem Date.round_week_eq (d : Int) (hd : isValidDate d) :
    Tr.Date.round_week d = Date.round .week d := by
  unfold Tr.Date.round_week
  first
  | (with_reducible_and_instances rfl)
  | (have hr := valid_date_range' d hd
     have hf := first_of_year_le d hd
     simp (disch := omega) only [tr_eq]
     try dsimp only
     try rw [Date.round_week_internal_eq _ _ hf]
     simp only [Date.round, Date.roundWeek, Date.year])

@[tr_eq] theorem Date.round_month_start_week_eq (d : Int) (h0 : -2440588 ≤ d) (h1 : d ≤ 2145043059) :
    Tr.Date.round_month_start_week d = Date.round .monthStartWeek d := by
  unfold Tr.Date.round_month_start_week
  first
  | (with_reducible_and_instances rfl)
  | (have hdd := extract_day_range d h0
     simp (disch := omega) only [tr_eq]
     try dsimp only
     simp (disch := omega) only [asI32_eq, Date.round_month_start_week_internal_eq]
     simp only [Date.round, Date.roundMonthStartWeek, Date.day])

@[tr_eq] theorem Date.trunc_month_start_week_eq (d : Int) (h0 : -2440588 ≤ d) (h1 : d ≤ 2145043059) :
    Tr.Date.trunc_month_start_week d = Date.trunc .monthStartWeek d := by
  unfold Tr.Date.trunc_month_start_week
  first
  | (with_reducible_and_instances rfl)
  | (have hdd := extract_day_range d h0
     try simp (disch := omega) only [tr_eq]
     try tr_units
     first | done | (with_reducible_and_instances rfl) | tr_auto)

/-! ## `Date`: century, quarter and month units -/

set_option hygiene false in
/-- common preparation: callees rewritten, the model's unit opened, `Date::extract d` named `(y, m, dd)` with its
    month in 1..12 and day ≥ 0 -/
macro "tr_ymd" d:ident h0:ident : tactic => `(tactic| (
  have hm := extract_month_range $d
  have hdd := extract_day_range $d $h0
  try simp (disch := omega) only [tr_eq]
  try tr_units
  first
  | done
  | (rcases hE : Date.extract $d with ⟨y, m, dd⟩
     simp only [hE] at *
     all_goals try dsimp only at *)))

@[tr_eq] theorem Date.trunc_century_eq (d : Int) (h0 : -2440588 ≤ d) (h1 : d ≤ 2145043059) :
    Tr.Date.trunc_century d = Date.trunc .century d := by
  unfold Tr.Date.trunc_century
  first
  | (with_reducible_and_instances rfl)
  | (try simp (disch := omega) only [tr_eq]
     try tr_units
     -- both sides are now the same term up to the `Decidable` instance of the `if`: decide the condition
     by_cases hc : rrem (Date.extract d).fst 100 = 0 <;> simp only [hc, ↓reduceIte])

@[tr_eq] theorem Date.trunc_month_eq (d : Int) (h0 : -2440588 ≤ d) (h1 : d ≤ 2145043059) :
    Tr.Date.trunc_month d = Date.trunc .month d := by
  unfold Tr.Date.trunc_month
  first
  | (with_reducible_and_instances rfl)
  | (tr_ymd d h0
     first | done | (with_reducible_and_instances rfl) | tr_auto)

@[tr_eq] theorem Date.round_month_eq (d : Int) (h0 : -2440588 ≤ d) (h1 : d ≤ 2145043059) :
    Tr.Date.round_month d = Date.round .month d := by
  unfold Tr.Date.round_month
  first
  | (with_reducible_and_instances rfl)
  | (tr_ymd d h0
     first | done | (with_reducible_and_instances rfl) | tr_auto)

set_option hygiene false in
macro "tr_month_cases" : tactic => `(tactic| (
  have hc : m = 1 ∨ m = 2 ∨ m = 3 ∨ m = 4 ∨ m = 5 ∨ m = 6 ∨ m = 7 ∨ m = 8 ∨ m = 9 ∨ m = 10 ∨ m = 11 ∨ m = 12 := by omega
  rcases hc with h | h | h | h | h | h | h | h | h | h | h | h <;> subst h <;>
    simp [idx, idxD, QUARTER_FIRST_MONTH, QUARTER_ROUND_MONTH, QUARTER_TRUNC_MONTH] <;>
    first | done | tr_auto))

@[tr_eq] theorem Date.trunc_quarter_eq (d : Int) (h0 : -2440588 ≤ d) (h1 : d ≤ 2145043059) :
    Tr.Date.trunc_quarter d = Date.trunc .quarter d := by
  unfold Tr.Date.trunc_quarter
  first
  | (with_reducible_and_instances rfl)
  | (tr_ymd d h0
     tr_month_cases)

@[tr_eq] theorem Date.round_quarter_eq (d : Int) (h0 : -2440588 ≤ d) (h1 : d ≤ 2145043059) :
    Tr.Date.round_quarter d = Date.round .quarter d := by
  unfold Tr.Date.round_quarter
  first
  | (with_reducible_and_instances rfl)
  | (tr_ymd d h0
     tr_month_cases)

end SqlDt.TrEq
