/-
  Lemmas/FloatUseAux: helpers for Lemmas/FloatUse (sign-generic `roundHalfAway`, exact conversion of `M·2^t`,
  the refined rounding fact behind the relative-error bound).
-/
import SqlDt.Lemmas.FloatFrac
namespace SqlDt.Lemmas
open SqlDt

theorem roundHalfAway_fin_neg' (s : Bool) (m : Nat) (e : Int) (he : e < 0) :
    F64.roundHalfAway (F64.fin s m e) =
      F64.round s (if 2 * (m % 2 ^ (-e).toNat) ≥ 2 ^ (-e).toNat then m / 2 ^ (-e).toNat + 1
        else m / 2 ^ (-e).toNat) 1 := by
  unfold F64.roundHalfAway
  have : ¬ e ≥ 0 := by omega
  simp only [this, ↓reduceIte, pow2_eq]

theorem ofInt_isFin (n : Int) (h : n.natAbs ≤ 9007199254740992) :
    ∃ s m e, F64.ofInt n = F64.fin s m e := by
  by_cases h0 : n = 0
  · subst h0; exact ⟨false, 0, F64.EMIN, by decide +kernel⟩
  · obtain ⟨m, e, h1, _⟩ := ofInt_fin n h0 h
    exact ⟨_, m, e, h1⟩

theorem ofInt_million : ∃ m e, F64.ofInt 1000000 = F64.fin false m e ∧ Rep m e 1000000 1 ∧ m ≠ 0 := by
  obtain ⟨m2, e2, g2, _, r2, hm2⟩ := ofInt_nat_rep 1000000 (by decide)
  exact ⟨m2, e2, g2, r2, by have := hm2 (by decide); omega⟩

theorem rep_shift {m M : Nat} {e : Int} (t : Nat) (h : Rep m e M 1) : Rep m (e + t) (M * 2 ^ t) 1 := by
  unfold Rep at *
  rw [Nat.mul_one] at *
  apply Nat.eq_of_mul_eq_mul_right (show 0 < 2 ^ e.toNat by positivity)
  calc m * 2 ^ (e + t).toNat * 2 ^ e.toNat = (m * 2 ^ e.toNat) * 2 ^ (e + t).toNat := by ring
    _ = M * 2 ^ ((-e).toNat + (e + t).toNat) := by rw [h, Nat.pow_add]; ring
    _ = M * 2 ^ (t + (-(e + t)).toNat + e.toNat) := by congr 2; omega
    _ = _ := by rw [Nat.pow_add, Nat.pow_add]; ring

/-- `(M·2^t) as f64` is exact for `M ≤ 2^53`. -/
theorem ofInt_fin_shift (n : Int) (M t : Nat) (hn : n.natAbs = M * 2 ^ t) (hM0 : 0 < M) (hM : M ≤ 2 ^ 53)
    (ht : t ≤ 900) :
    ∃ m e, F64.ofInt n = F64.fin (decide (n < 0)) m e ∧ Rep m e n.natAbs 1 ∧ m ≠ 0 := by
  obtain ⟨m, e, ⟨c1, c2, c3, c4⟩, hm, hr⟩ := exists_rep_nat M hM0 hM
  have he : e ≤ 1 := by
    by_contra hc
    unfold Rep at hr
    have e1 : (-e).toNat = 0 := by omega
    rw [e1, Nat.pow_zero, Nat.mul_one, Nat.mul_one] at hr
    have : 2 ^ 2 ≤ 2 ^ e.toNat := Nat.pow_le_pow_right (by decide) (by omega)
    have : 2 ^ 52 * 2 ^ 2 ≤ m * 2 ^ e.toNat := Nat.mul_le_mul hm this
    omega
  have hE : F64.EMIN = -1074 := rfl
  have hE' : F64.EMAX = 971 := rfl
  refine ⟨m, e + t, ?_, ?_, by omega⟩
  · unfold F64.ofInt
    apply round_exact _ _ _ _ _ (by decide) ⟨c1, by omega, by omega, Or.inl hm⟩
    rw [hn]; exact rep_shift t hr
  · rw [hn]; exact rep_shift t hr

/-- Above the subnormal range, a result with `m = 2^52` reached from below comes from the carry case and has
    a quarter-ulp error. -/
theorem roundPos_fine (num den m : Nat) (e : Int) (hn : 0 < num) (hd : 0 < den)
    (h : F64.roundPos num den = some (m, e)) (he : F64.EMIN < e) :
    m * 2 ^ e.toNat * den ≤ num * 2 ^ (-e).toNat ∨ 2 ^ 52 + 1 ≤ m ∨
    4 * ((m * 2 ^ e.toNat * den : Nat) - (num * 2 ^ (-e).toNat : Nat) : Int).natAbs ≤ 2 ^ e.toNat * den := by
  rw [roundPos_eq] at h
  obtain ⟨hb1, hb2⟩ := rpE2_bracket num den hn hd
  obtain ⟨hE1, hE2, hE3⟩ := rpE_ge num den
  generalize rpE num den = E at *
  generalize rpE2 num den = E2 at *
  simp only [pow2_eq] at h
  have hdpos : 0 < den * 2 ^ E.toNat := by positivity
  obtain ⟨hq1, hq2, hq3⟩ := rpQ_spec (num * 2 ^ (-E).toNat) (den * 2 ^ E.toNat) hdpos
  generalize hQ : rpQ (num * 2 ^ (-E).toNat) (den * 2 ^ E.toNat) = Q at *
  unfold rpFin at h
  simp only [P53_eq, P52_eq] at h
  by_cases hc : Q = 2 ^ 53
  · simp only [hc, if_true] at h
    split at h
    · exact absurd h (by simp)
    · simp only [Option.some.injEq, Prod.mk.injEq] at h
      obtain ⟨rfl, rfl⟩ := h
      right; right
      rw [hc] at hq1
      by_cases hneg : E < 0
      · have e1 : (E + 1).toNat = E.toNat := by omega
        have e2 : (-E).toNat = (-(E + 1)).toNat + 1 := by omega
        rw [e1]
        have hY : num * 2 ^ (-E).toNat = 2 * (num * 2 ^ (-(E + 1)).toNat) := by rw [e2, pow_succ]; ring
        have hX : 2 ^ 53 * (den * 2 ^ E.toNat) = 2 * (2 ^ 52 * 2 ^ E.toNat * den) := by ring
        have hD : 2 ^ E.toNat * den = den * 2 ^ E.toNat := Nat.mul_comm _ _
        rw [hY, hX] at hq1
        rw [hD]
        generalize 2 ^ 52 * 2 ^ E.toNat * den = X at *
        generalize num * 2 ^ (-(E + 1)).toNat = Y at *
        generalize den * 2 ^ E.toNat = D at *
        omega
      · have e1 : (E + 1).toNat = E.toNat + 1 := by omega
        have e2 : (-(E + 1)).toNat = (-E).toNat := by omega
        rw [e1, e2]
        have hX : 2 ^ 52 * 2 ^ (E.toNat + 1) * den = 2 ^ 53 * (den * 2 ^ E.toNat) := by rw [pow_succ]; ring
        have hD : 2 ^ (E.toNat + 1) * den = 2 * (den * 2 ^ E.toNat) := by rw [pow_succ]; ring
        rw [hX, hD]
        generalize 2 ^ 53 * (den * 2 ^ E.toNat) = X at *
        generalize num * 2 ^ (-E).toNat = Y at *
        generalize den * 2 ^ E.toNat = D at *
        omega
  · simp only [hc, if_false] at h
    split at h
    · exact absurd h (by simp)
    · simp only [Option.some.injEq, Prod.mk.injEq] at h
      obtain ⟨rfl, rfl⟩ := h
      have hEE : E = E2 := by rcases hE3 with h3 | h3; exact h3; omega
      subst hEE
      by_cases hm : 2 ^ 52 + 1 ≤ Q
      · right; left; exact hm
      · left
        -- Q ≤ 2^52, and 2^52 · d ≤ n
        have hQle : Q ≤ 2 ^ 52 := by omega
        calc Q * 2 ^ E.toNat * den ≤ 2 ^ 52 * 2 ^ E.toNat * den :=
              Nat.mul_le_mul_right _ (Nat.mul_le_mul_right _ hQle)
          _ = den * 2 ^ (52 + E.toNat) := by rw [Nat.pow_add]; ring
          _ ≤ _ := hb1

end SqlDt.Lemmas
