/-
  Lemmas/Digits: the digit loop of `write_u32` (model) equals the zero-padded decimal (spec).
-/
import SqlDt.Spec.Render
namespace SqlDt
open Spec

theorem digitsRev_fuel_irrel : ∀ (f g v : Nat), v < 10 ^ (f + 1) → v < 10 ^ (g + 1) →
    digitsRev (f + 1) v = digitsRev (g + 1) v := by
  intro f
  induction f with
  | zero =>
    intro g v hf _
    have : ¬ v ≥ 10 := by simp at hf; omega
    simp [digitsRev, this]
  | succ f ih =>
    intro g v hf hg
    simp only [digitsRev]
    by_cases h : v ≥ 10
    · simp only [h, ↓reduceIte]
      cases g with
      | zero => simp at hg; omega
      | succ g =>
        congr 1
        apply ih
        · have : 10 ^ (f + 1 + 1) = 10 * 10 ^ (f + 1) := by rw [Nat.pow_succ]; omega
          omega
        · have : 10 ^ (g + 1 + 1) = 10 * 10 ^ (g + 1) := by rw [Nat.pow_succ]; omega
          omega
    · simp only [h, ↓reduceIte]

theorem digitsAux_eq : ∀ (f v : Nat) (acc : List Nat), v < 10 ^ f →
    Spec.digitsAux f v acc = (digitsRev f v).reverse ++ acc := by
  intro f
  induction f with
  | zero => intro v acc h; simp at h; subst h; simp [Spec.digitsAux, digitsRev]
  | succ f ih =>
    intro v acc h
    simp only [Spec.digitsAux, digitsRev]
    by_cases h10 : v < 10
    · have : ¬ v ≥ 10 := by omega
      simp [h10, this]
    · have h10' : v ≥ 10 := by omega
      simp only [h10, h10', ↓reduceIte]
      have hp : 10 ^ (f + 1) = 10 * 10 ^ f := by rw [Nat.pow_succ]; omega
      rw [ih (v / 10) _ (by omega)]
      simp

/-- For every value below 10^11 (in particular every `u32`) and every width:
    `write_u32(value, width)` is the zero-padded decimal. -/
theorem writeU32_eq_pad (v w : Nat) (hv : v < 100000000000) : writeU32 (Int.ofNat v) w = Spec.pad w v := by
  unfold writeU32 Spec.pad Spec.digits
  have h11 : v < 10 ^ 11 := by omega
  have h20 : v < 10 ^ 20 := by omega
  rw [digitsAux_eq 20 v [] h20, digitsRev_fuel_irrel 19 10 v h20 h11]
  simp

theorem displayU32_eq_digits (v : Nat) (hv : v < 100000000000) : displayU32 (Int.ofNat v) = Spec.digits v := by
  unfold displayU32 Spec.digits
  have h11 : v < 10 ^ 11 := by omega
  have h20 : v < 10 ^ 20 := by omega
  rw [digitsAux_eq 20 v [] h20, digitsRev_fuel_irrel 19 10 v h20 h11]
  simp

end SqlDt
