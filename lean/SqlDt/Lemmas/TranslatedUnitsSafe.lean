/-
  Lemmas/TranslatedUnitsSafe (hand-written, stable; phase 5b): the safety predicates `Tr.f_safe` of the calendar units
  proved in Lemmas/TranslatedUnits.  Same namespace (`SqlDt.TrSafe`) and attribute (`tr_safe`) as Lemmas/TranslatedSafe.
-/
import SqlDt.Lemmas.TranslatedSafe
import SqlDt.Lemmas.TranslatedUnits
set_option linter.unusedVariables false
set_option linter.unusedSimpArgs false
namespace SqlDt.TrSafe
open SqlDt SqlDt.Gen SqlDt.TrTactic SqlDt.TrEq

set_option hygiene false in
/-- preparation for a `Date` unit: facts about `Date::extract d` (Lemmas/Calendar), named `(y, m, dd)` -/
macro "tr_sdate" d:ident hd:ident : tactic => `(tactic| (
  have hx := extract_valid $d $hd
  have hr := valid_date_range $d $hd
  have hw := dayOfWeek_range $d
  try simp (disch := tr_sdisch) only [SqlDt.TrEq.Date.extract_eq $d hr.1 hr.2, SqlDt.TrEq.Date.day_of_week_eq]
  first
  | done
  | (rcases hE : Date.extract $d with ⟨y, m, dd⟩
     simp only [hE] at *
     all_goals try dsimp only at *)))

set_option hygiene false in
/-- a table index that is a day of the week: go through its seven values (the table entries become numerals) -/
macro "tr_dow_cases" d:ident : tactic => `(tactic| (
  generalize Date.dayOfWeek $d = w at *
  have hc : w = 1 ∨ w = 2 ∨ w = 3 ∨ w = 4 ∨ w = 5 ∨ w = 6 ∨ w = 7 := by omega
  rcases hc with h | h | h | h | h | h | h <;> subst h <;> simp [idxD] <;> first | done | tr_safe_auto))

@[tr_safe] theorem Date.trunc_century_safe (d : Int) (hd : isValidDate d) : Tr.Date.trunc_century_safe d := by
  first
  | (unfold Tr.Date.trunc_century_safe; exact True.intro)
  | (unfold Tr.Date.trunc_century_safe
     tr_sdate d hd
     first | done | tr_safe_auto)

@[tr_safe] theorem Date.trunc_month_safe (d : Int) (hd : isValidDate d) : Tr.Date.trunc_month_safe d := by
  first
  | (unfold Tr.Date.trunc_month_safe; exact True.intro)
  | (unfold Tr.Date.trunc_month_safe
     tr_sdate d hd
     first | done | tr_safe_auto)

@[tr_safe] theorem Date.round_month_safe (d : Int) (hd : isValidDate d) : Tr.Date.round_month_safe d := by
  first
  | (unfold Tr.Date.round_month_safe; exact True.intro)
  | (unfold Tr.Date.round_month_safe
     tr_sdate d hd
     first | done | tr_safe_auto)

@[tr_safe] theorem Date.trunc_iso_week_safe (d : Int) (hd : isValidDate d) : Tr.Date.trunc_iso_week_safe d := by
  first
  | (unfold Tr.Date.trunc_iso_week_safe; exact True.intro)
  | (unfold Tr.Date.trunc_iso_week_safe
     tr_sdate d hd
     tr_dow_cases d)

@[tr_safe] theorem Date.round_iso_week_safe (d : Int) (hd : isValidDate d) : Tr.Date.round_iso_week_safe d := by
  first
  | (unfold Tr.Date.round_iso_week_safe; exact True.intro)
  | (unfold Tr.Date.round_iso_week_safe
     tr_sdate d hd
     tr_dow_cases d)

@[tr_safe] theorem Date.round_sunday_start_week_safe (d : Int) (hd : isValidDate d) :
    Tr.Date.round_sunday_start_week_safe d := by
  first
  | (unfold Tr.Date.round_sunday_start_week_safe; exact True.intro)
  | (unfold Tr.Date.round_sunday_start_week_safe
     tr_sdate d hd
     tr_dow_cases d)

set_option hygiene false in
/-- the month of `Date::extract` as an index into the quarter tables: go through its twelve values -/
macro "tr_smonth_cases" : tactic => `(tactic| (
  have hc : m = 1 ∨ m = 2 ∨ m = 3 ∨ m = 4 ∨ m = 5 ∨ m = 6 ∨ m = 7 ∨ m = 8 ∨ m = 9 ∨ m = 10 ∨ m = 11 ∨ m = 12 := by omega
  rcases hc with h | h | h | h | h | h | h | h | h | h | h | h <;> subst h <;> simp [idxD] <;> first | done | tr_safe_auto))

@[tr_safe] theorem Date.trunc_quarter_safe (d : Int) (hd : isValidDate d) : Tr.Date.trunc_quarter_safe d := by
  first
  | (unfold Tr.Date.trunc_quarter_safe; exact True.intro)
  | (unfold Tr.Date.trunc_quarter_safe
     tr_sdate d hd
     tr_smonth_cases)

@[tr_safe] theorem Date.round_quarter_safe (d : Int) (hd : isValidDate d) : Tr.Date.round_quarter_safe d := by
  first
  | (unfold Tr.Date.round_quarter_safe; exact True.intro)
  | (unfold Tr.Date.round_quarter_safe
     tr_sdate d hd
     tr_smonth_cases)

@[tr_safe] theorem Date.trunc_month_start_week_safe (d : Int) (hd : isValidDate d) :
    Tr.Date.trunc_month_start_week_safe d := by
  first
  | (unfold Tr.Date.trunc_month_start_week_safe; exact True.intro)
  | (unfold Tr.Date.trunc_month_start_week_safe
     tr_sdate d hd
     first | done | tr_safe_auto)

set_option hygiene false in
/-- a table index `x % 7` with `x ≥ 0`: go through its seven values -/
macro "tr_rem7_cases" x:term : tactic => `(tactic| (
  have hq := rrem_spec $x 7
  generalize rrem $x 7 = w at *
  have hc : w = 0 ∨ w = 1 ∨ w = 2 ∨ w = 3 ∨ w = 4 ∨ w = 5 ∨ w = 6 := by omega
  rcases hc with h | h | h | h | h | h | h <;> subst h <;> simp [idxD, Tr.asU64] <;> first | done | tr_safe_auto))

/-- CONTRACT (crate-internal helper): `day` is a day of the month (non-negative). -/
@[tr_safe] theorem Date.round_month_start_week_internal_safe (d day : Int) (hd : isValidDate d) (hday : fitsI32 day)
    (hc : 0 ≤ day) : Tr.Date.round_month_start_week_internal_safe d day := by
  first
  | (unfold Tr.Date.round_month_start_week_internal_safe; exact True.intro)
  | (unfold Tr.Date.round_month_start_week_internal_safe
     dsimp only
     tr_rem7_cases day)

/-- CONTRACT (crate-internal helper): `year` is a year 0..10000 whose first day is not after the date. -/
@[tr_safe] theorem Date.round_week_internal_safe (d year : Int) (hd : isValidDate d) (hy : 0 ≤ year ∧ year ≤ 10000)
    (hc : Date.fromYmdUnchecked year 1 1 ≤ d) (hc2 : isValidDate (Date.fromYmdUnchecked year 1 1)) :
    Tr.Date.round_week_internal_safe d year := by
  first
  | (unfold Tr.Date.round_week_internal_safe; exact True.intro)
  | (unfold Tr.Date.round_week_internal_safe
     dsimp only
     simp (disch := tr_sdisch) only [tr_eq, tr_safe, Date.subDate]
     tr_rem7_cases (d - Date.fromYmdUnchecked year 1 1))

theorem first_of_year_valid (d : Int) (hd : isValidDate d) :
    isValidDate (Date.fromYmdUnchecked (Date.extract d).1 1 1) := by
  have hx := extract_valid d hd
  refine (SqlDt.Lemmas.extract_fromYmd _ 1 1 ⟨hx.1, hx.2.1, by omega, by omega, by omega, ?_⟩).1
  unfold Spec.dim
  simp

@[tr_safe] theorem Date.round_week_safe (d : Int) (hd : isValidDate d) : Tr.Date.round_week_safe d := by
  first
  | (unfold Tr.Date.round_week_safe; exact True.intro)
  | (unfold Tr.Date.round_week_safe
     have hx := extract_valid d hd
     have hr := valid_date_range d hd
     have hf := first_of_year_le d hd
     have hv := first_of_year_valid d hd
     simp (disch := tr_sdisch) only [SqlDt.TrEq.Date.extract_eq d hr.1 hr.2, tr_safe]
     first
     | done
     | (try dsimp only
        first
        | done
        | exact Date.round_week_internal_safe d _ hd ⟨by omega, by omega⟩ hf hv
        | (refine ⟨?_, ?_⟩ <;>
             first
             | exact True.intro
             | exact Date.extract_safe d hd
             | exact Date.round_week_internal_safe d _ hd ⟨by omega, by omega⟩ hf hv)))

@[tr_safe] theorem Date.round_month_start_week_safe (d : Int) (hd : isValidDate d) :
    Tr.Date.round_month_start_week_safe d := by
  first
  | (unfold Tr.Date.round_month_start_week_safe; exact True.intro)
  | (unfold Tr.Date.round_month_start_week_safe
     tr_sdate d hd
     first | done | tr_safe_auto)

end SqlDt.TrSafe
