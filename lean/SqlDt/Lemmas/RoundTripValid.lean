/-
  Lemmas/RoundTripValid: whatever `Formatter::parse` returns lies in the type's range (every picture, text, clock).
  Only the last step (`TryFrom<NaiveDateTime>`) matters; the year-month interval additionally needs the parser
  invariant "the month field is never negative".
-/
import SqlDt.Lemmas.NoPanic
import SqlDt.Props.C13
import SqlDt.Props.C01
import SqlDt.Props.C02
import SqlDt.Props.C16
import SqlDt.Model.Serde
namespace SqlDt.Lemmas
open SqlDt Gen Spec Parser

/-! ### the month field of the parser state is never negative -/

def MonthOK (st : St) : Prop := 0 ≤ st.dt.month

theorem parseMonthName_nonneg (s : Bytes) (m : Int) (r : Bytes) (h : parseMonthName s = .ok (m, r)) : 0 ≤ m := by
  unfold parseMonthName perr at h
  split at h
  · cases h; simp
  · split at h
    · cases h; simp
    · cases h

theorem expectChar_dt (st st' : St) (ch : Nat) (t : Bool) (h : expectChar st ch t = .ok st') : st'.dt = st.dt := by
  unfold expectChar at h
  split at h
  · split at h
    · cases h; rfl
    · cases h
  · split at h
    · cases h; rfl
    · cases h

theorem expectNumber_dt (st : St) (k : Nat) (v : Int × Bool × St) (h : expectNumber st k = .ok v) :
    v.2.2.dt = st.dt := by
  unfold expectNumber at h
  cases hp : parseNumber st.s k with
  | error e => simp [hp, bind, Except.bind] at h
  | ok w =>
    obtain ⟨a, b, c⟩ := w
    simp [hp, bind, Except.bind, pure, Except.pure] at h
    subst h; rfl

theorem expectNumberTol_dt (st : St) (k : Nat) (d : Int) (v : Int × Bool × St) (h : expectNumberTol st k d = .ok v) :
    v.2.2.dt = st.dt := by
  unfold expectNumberTol at h
  split at h
  · cases h; rfl
  · exact expectNumber_dt st k v h

theorem adjustHour12_month (dt : NDT) : dt.adjustHour12.month = dt.month := by
  unfold NDT.adjustHour12; split <;> rfl

theorem parseField_monthOK (ty : Ty) (c : Clock) (st st' : St) (f : Field) (h : parseField ty c st f = .ok st')
    (hd : MonthOK st) : MonthOK st' := by
  unfold MonthOK at *
  cases f <;> simp only [parseField, perr, bind, Except.bind, pure, Except.pure] at h
  all_goals
    first
    | (have := expectChar_dt _ _ _ _ h; simp_all; done)
    | (cases h; simpa using hd)
    | (repeat' (split at h)
       all_goals
         first
         | (cases h; done)
         | (have := expectNumber_dt _ _ _ (by assumption); cases h; simp_all; done)
         | (have := expectNumberTol_dt _ _ _ _ (by assumption); cases h; simp_all [adjustHour12_month]; done)
         | (have := parseMonthName_nonneg _ _ _ (by assumption); cases h; simp_all; done)
         | (cases h; simp_all; exact parseNumber_nonneg _ _ _ _ (by assumption))
         | (cases h; simp_all [adjustHour12_month]; done))

theorem parseFields_monthOK (ty : Ty) (c : Clock) : ∀ (fields : List Field) (st st' : St),
    parseFields ty c st fields = .ok st' → MonthOK st → MonthOK st' := by
  intro fields
  induction fields with
  | nil => intro st st' h hd; simp only [parseFields] at h; cases h; exact hd
  | cons f fs ih =>
    intro st st' h hd
    unfold parseFields at h
    cases hf : parseField ty c st f with
    | error e => simp [hf, bind, Except.bind] at h
    | ok st1 =>
      simp only [hf, bind, Except.bind] at h
      exact ih st1 st' h (parseField_monthOK ty c st st1 f hf hd)

theorem theMonthDayOfDays_month (d : Int) (leap : Bool) (m dd : Int) (h : theMonthDayOfDays d leap = .ok (m, dd)) : 0 ≤ m := by
  unfold theMonthDayOfDays binarySearch at h
  simp only [bind, Except.bind, pure, Except.pure] at h
  split at h
  · cases h
  · cases h; simp

theorem resolveDoy_month (st : St) (dt dt' : NDT) (h : resolveDoy st dt = .ok dt') (hm : 0 ≤ dt.month) : 0 ≤ dt'.month := by
  unfold resolveDoy perr at h
  split at h
  · cases h; exact hm
  · simp only [bind, Except.bind, pure, Except.pure] at h
    split at h
    · cases h
    · split at h
      · cases h
      · rename_i v hv
        obtain ⟨m, dd⟩ := v
        have := theMonthDayOfDays_month _ _ _ _ hv
        repeat' (split at h)
        all_goals first | (cases h; done) | (cases h; simpa using hm) | (cases h; simpa using this)

/-! ### whatever `TryFrom<NaiveDateTime>` returns is valid -/

theorem tryFromYmd_valid (y m d v : Int) (h : Date.tryFromYmd y m d = .ok v) : isValidDate v := by
  have hc := h
  rw [C01.tryFromYmd_classify] at hc
  split at hc; · cases hc
  split at hc; · cases hc
  split at hc; · cases hc
  split at hc; · cases hc
  rename_i c1 c2 c3 c4
  rw [daysOfMonth_eq _ _ (by omega) (by omega)] at c4
  have hv : ValidYMD y m d := ⟨by omega, by omega, by omega, by omega, by omega, by omega⟩
  obtain ⟨e, hvalid, _⟩ := C01.tryFromYmd_roundtrip y m d hv
  rw [e] at h; cases h; exact hvalid

theorem asU32_nonneg (x : Int) : 0 ≤ asU32 x := by unfold asU32; omega

theorem tryFromNDT_valid (ty : Ty) (dt : NDT) (v : Int) (hm : ty = .YM → 0 ≤ dt.month) (h : tryFromNDT ty dt = .ok v) : ty.Valid v := by
  cases ty <;> simp only [tryFromNDT, bind, Except.bind, pure, Except.pure] at h <;> simp only [Ty.Valid]
  · exact tryFromYmd_valid _ _ _ _ h
  · split at h
    · cases h
    · exact C02.gate_valid h
  · split at h
    · cases h
    · split at h
      · cases h
      · exact C02.gate_valid h
  · split at h
    · split at h
      · cases h
      · rename_i w hw
        cases h
        exact C13.ym_negate_valid _ (C13.ym_tryFromYm_valid _ _ _ (asU32_nonneg _) (hm rfl) hw)
    · exact C13.ym_tryFromYm_valid _ _ _ (asU32_nonneg _) (hm rfl) h
  · split at h
    · cases h
    · split at h
      · cases h
      · rename_i w hw
        have hv := C02.gate_valid hw
        cases h
        split
        · exact C13.dt_negate_valid _ hv
        · exact hv
  · split at h
    · cases h
    · split at h
      · cases h
      · split at h
        · cases h
        · rename_i w hw
          cases h
          exact C16.fromTimestamp_valid _ (C02.gate_valid hw)

theorem applyDefaults_month (ty : Ty) (st : St) (now : Clock) (hty : ty.info.HAS_DATE = false) :
    (applyDefaults ty st now).1 = st.dt := by
  unfold applyDefaults; simp [hty]


theorem parse_valid' (ty : Ty) (fields : List Field) (input : Bytes) (now : Clock) (v : Int) (r : Nat)
    (h : Parser.parse ty fields input now = .ok (v, r)) : ty.Valid v := by
  unfold parse at h
  cases hp : parseFields ty now (initSt ty input) fields with
  | error e => simp [hp, bind, Except.bind] at h
  | ok st =>
    simp only [hp, bind, Except.bind] at h
    have hmo : MonthOK st := parseFields_monthOK ty now fields _ st hp (by unfold MonthOK initSt initNDT; split <;> (try split) <;> simp)
    split at h
    · cases h
    · cases hr : resolveDoy st (applyDefaults ty st now).1 with
      | error e => simp [hr] at h
      | ok dt =>
        simp only [hr] at h
        have hm : ty = .YM → 0 ≤ dt.month := by
          intro hty; subst hty
          rw [applyDefaults_month _ _ _ rfl] at hr
          exact resolveDoy_month st _ _ hr hmo
        unfold finish at h
        simp only [bind, Except.bind, pure, Except.pure] at h
        split at h
        · split at h
          · cases h
          · split at h
            · cases h
            · split at h
              · cases h
              · rename_i w hw
                cases h
                exact tryFromNDT_valid ty dt _ hm hw
        · split at h
          · cases h
          · rename_i w hw
            cases h
            exact tryFromNDT_valid ty dt _ hm hw

theorem deStr_valid' (ty : Ty) (text : Bytes) (now : Clock) (v : Int) (h : Serde.deStr ty text now = .ok v) : ty.Valid v := by
  unfold Serde.deStr parseValue at h
  simp only [bind, Except.bind] at h
  split at h
  · rename_i v' n hv
    cases h
    split at hv
    · cases hv
    · exact parse_valid' _ _ _ _ _ _ hv
  · cases h
  · cases h

end SqlDt.Lemmas
