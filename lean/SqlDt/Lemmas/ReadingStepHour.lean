/-
  Lemmas/ReadingStepHour: the hour tokens (`HH24`, `HH12`) on a numeric lexeme, and hour / minute / second left out at
  the end of the text.
-/
import SqlDt.Lemmas.ReadingStepNum
namespace SqlDt.Lemmas
open SqlDt Gen Spec Parser

theorem expectNumberTol_empty (st0 : St) (hs : eatWhitespaces st0.s = []) (k : Nat) (d : Int) :
    expectNumberTol { st0 with s := eatWhitespaces st0.s } k d =
      .ok (d, decide (d < 0), { st0 with s := eatWhitespaces st0.s }) := by
  simp only [expectNumberTol, hs, List.isEmpty_nil, ↓reduceIte]

theorem hasTime_of_clock12 (ty : Ty) (h : clock12 ty = true) : hasTime ty = true ∧ ty ≠ .DT := by
  cases ty <;> simp [clock12, hasTime] at h ⊢

/-! ### HH24 -/

theorem step_hour24 (ty : Ty) (now : Clock) (p : Parts) (s : Bytes) (r : Nat) (b : Nat) (sg : Sign) (z n : Nat) (rest : Bytes)
    (happ : applicable ty .Hour24 = true)
    (hw : numWidth z n ≤ maxDigits ty .Hour24) (hn : n < 10 ^ 9)
    (hstop : Stops (numDigits z n) rest (maxDigits ty .Hour24))
    (hs : eatWhitespaces s = eatWhitespaces ((Lex.num b sg z n).text .Hour24 ++ rest)) :
    StepGoal ty now p s r .Hour24 (.num b sg z n) rest := by
  have hrun := run_numDigits z n _ hw hn
  rw [eatWs_numText _ _ _ _ _ _ _ hrun] at hs
  have happ' : hasTime ty = true := happ
  simp only [maxDigits] at hrun hstop
  unfold StepGoal step
  simp only [happ, Bool.not_true, Bool.false_eq_true, ↓reduceIte]
  generalize hst : conc ty p s r = st0
  have hs0 : st0.s = s := by rw [← hst]; rfl
  have hh0 : st0.isHour24Set = p.hour.map (·.1) := by rw [← hst]; rfl
  have ha0 : st0.isAmPmSet = p.meridianSeen := by rw [← hst]; rfl
  rw [← hs0] at hs
  have e1 := expectNumber_lex st0 hrun sg rest hstop hs
  have e2 := expectNumberTol_lex st0 hrun sg rest hstop hs 0
  cases hh : p.hour with
  | some v =>
    simp only [Option.isSome_some, Bool.true_or, ↓reduceIte]
    refine ⟨.ParseError, ?_⟩
    simp only [parseField, info_hasTime, happ', ↓reduceIte, hh0, hh, Option.map_some, Option.isSome_some, perr]
  | none =>
    cases hmer : p.meridianSeen with
    | true =>
      simp only [Option.isSome_none, Bool.or_true, ↓reduceIte]
      refine ⟨.ParseError, ?_⟩
      simp only [parseField, info_hasTime, happ', ↓reduceIte, hh0, hh, Option.map_none, Option.isSome_none,
        Bool.false_eq_true, ha0, hmer, perr]
    | false =>
      simp only [Option.isSome_none, Bool.or_self, Bool.false_eq_true, ↓reduceIte]
      simp only [hh0, hh, Option.map_none, ha0, hmer] at e1 e2
      cases hm : isMinus sg with
      | true =>
        simp only [↓reduceIte]
        refine ⟨.ParseError, ?_⟩
        simp only [parseField, info_hasTime, happ', ↓reduceIte, hh0, hh, Option.map_none, Option.isSome_none,
          Bool.false_eq_true, ha0, hmer, perr, e1, e2, hm, bind, Except.bind, ite_self]
      | false =>
        simp only [Bool.false_eq_true, ↓reduceIte]
        refine ⟨rest, r, ?_, rfl⟩
        simp only [parseField, info_hasTime, happ', ↓reduceIte, hh0, hh, Option.map_none, Option.isSome_none,
          Bool.false_eq_true, ha0, hmer, e1, e2, hm, bind, Except.bind, ite_self, pure, Except.pure]
        subst hst
        simp [conc, yearRep, dayRep, hourOf, hh]

theorem step_hour24_omitted (ty : Ty) (now : Clock) (p : Parts) (s : Bytes) (r : Nat) (rest : Bytes)
    (happ : applicable ty .Hour24 = true) (hty : ty ≠ .DT)
    (hs : eatWhitespaces s = []) (hrest : eatWhitespaces rest = []) :
    StepGoal ty now p s r .Hour24 .omitted rest := by
  have happ' : hasTime ty = true := happ
  unfold StepGoal step
  simp only [happ, Bool.not_true, Bool.false_eq_true, ↓reduceIte]
  generalize hst : conc ty p s r = st0
  have hs0 : st0.s = s := by rw [← hst]; rfl
  have hh0 : st0.isHour24Set = p.hour.map (·.1) := by rw [← hst]; rfl
  have ha0 : st0.isAmPmSet = p.meridianSeen := by rw [← hst]; rfl
  rw [← hs0] at hs
  have e2 := expectNumberTol_empty st0 hs ty.info.HOUR_MAX_LENGTH 0
  have idt : ty.info.IS_INTERVAL_DT = false := by rw [info_dt]; simp [hty]
  cases hh : p.hour with
  | some v =>
    simp only [Option.isSome_some, Bool.true_or, ↓reduceIte]
    refine ⟨.ParseError, ?_⟩
    simp only [parseField, info_hasTime, happ', ↓reduceIte, hh0, hh, Option.map_some, Option.isSome_some, perr]
  | none =>
    cases hmer : p.meridianSeen with
    | true =>
      simp only [Option.isSome_none, Bool.or_true, ↓reduceIte]
      refine ⟨.ParseError, ?_⟩
      simp only [parseField, info_hasTime, happ', ↓reduceIte, hh0, hh, Option.map_none, Option.isSome_none,
        Bool.false_eq_true, ha0, hmer, perr]
    | false =>
      simp only [Option.isSome_none, Bool.or_self, Bool.false_eq_true, ↓reduceIte]
      simp only [hh0, hh, Option.map_none, ha0, hmer] at e2
      refine ⟨eatWhitespaces s, r, ?_, by rw [eatWs_idem, ← hs0, hs, hrest]⟩
      simp only [parseField, info_hasTime, happ', ↓reduceIte, hh0, hh, Option.map_none, Option.isSome_none,
        Bool.false_eq_true, ha0, hmer, idt, e2, bind, Except.bind, pure, Except.pure]
      subst hst
      simp [conc, yearRep, dayRep, hourOf, hh]

/-! ### HH12 -/

theorem hour12_cast (n : Nat) (pm : Bool) :
    (((if n = 12 then 0 else n) + (if pm = true then 12 else 0) : Nat) : Int) =
      (match some pm with
        | none => (n : Int)
        | some false => if (n : Int) = 12 then 0 else (n : Int)
        | some true => if (n : Int) = 12 then 12 else (n : Int) + 12) := by
  cases pm <;> simp <;> split <;> omega

theorem step_hour12 (ty : Ty) (now : Clock) (p : Parts) (s : Bytes) (r : Nat) (b : Nat) (sg : Sign) (z n : Nat) (rest : Bytes)
    (happ : applicable ty .Hour12 = true)
    (hw : numWidth z n ≤ maxDigits ty .Hour12) (hn : n < 10 ^ 9)
    (hstop : Stops (numDigits z n) rest (maxDigits ty .Hour12))
    (hs : eatWhitespaces s = eatWhitespaces ((Lex.num b sg z n).text .Hour12 ++ rest)) :
    StepGoal ty now p s r .Hour12 (.num b sg z n) rest := by
  have hrun := run_numDigits z n _ hw hn
  rw [eatWs_numText _ _ _ _ _ _ _ hrun] at hs
  obtain ⟨ht, hty⟩ := hasTime_of_clock12 ty happ
  have happ' : (ty.info.HAS_TIME && !ty.info.IS_INTERVAL_DT) = true := by
    rw [info_hasTime, info_dt, ht]; simp [hty]
  simp only [maxDigits] at hrun hstop
  unfold StepGoal step
  simp only [happ, Bool.not_true, Bool.false_eq_true, ↓reduceIte]
  generalize hst : conc ty p s r = st0
  have hs0 : st0.s = s := by rw [← hst]; rfl
  have hh0 : st0.isHour24Set = p.hour.map (·.1) := by rw [← hst]; rfl
  rw [← hs0] at hs
  have e2 := expectNumberTol_lex st0 hrun sg rest hstop hs 12
  cases hh : p.hour with
  | some v =>
    simp only [Option.isSome_some, ↓reduceIte]
    refine ⟨.ParseError, ?_⟩
    simp only [parseField, happ', ↓reduceIte, hh0, hh, Option.map_some, Option.isSome_some, perr]
  | none =>
    simp only [Option.isSome_none, Bool.false_eq_true, ↓reduceIte]
    simp only [hh0, hh, Option.map_none] at e2
    cases hm : isMinus sg with
    | true =>
      simp only [Bool.true_or, ↓reduceIte]
      refine ⟨.ParseError, ?_⟩
      simp only [parseField, happ', ↓reduceIte, hh0, hh, Option.map_none, Option.isSome_none, Bool.false_eq_true, e2, hm,
        bind, Except.bind, true_or, perr]
    | false =>
      by_cases hr : n < 1 ∨ n > 12
      · have : (false || decide (n < 1) || decide (n > 12)) = true := by
          rcases hr with h | h <;> simp [h]
        simp only [this, ↓reduceIte]
        refine ⟨.ParseError, ?_⟩
        simp only [parseField, happ', ↓reduceIte, hh0, hh, Option.map_none, Option.isSome_none, Bool.false_eq_true, e2, hm,
          bind, Except.bind, perr]
        rw [if_pos (by simp only [false_or]; omega)]
      · have : (false || decide (n < 1) || decide (n > 12)) = false := by
          simp; omega
        simp only [this, Bool.false_eq_true, ↓reduceIte]
        refine ⟨rest, r, ?_, rfl⟩
        simp only [parseField, happ', ↓reduceIte, hh0, hh, Option.map_none, Option.isSome_none, Bool.false_eq_true, e2, hm,
          bind, Except.bind, pure, Except.pure]
        rw [if_neg (by simp only [false_or]; omega)]
        subst hst
        cases hmer : p.meridian with
        | none => simp [conc, yearRep, dayRep, hourOf, hh, hmer, NDT.adjustHour12]
        | some pm =>
          have := hour12_cast n pm
          cases pm <;> simp [conc, yearRep, dayRep, hourOf, hh, hmer, NDT.adjustHour12] at this ⊢ <;> exact this.symm

end SqlDt.Lemmas
