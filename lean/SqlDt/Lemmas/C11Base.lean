/-
  C11  Rounding picks one of the two adjacent unit boundaries by the documented rule.
  (Layer 1: day / hour / minute on timestamps in closed form — later boundary exactly from 12:00, minute 30,
   second 30 on — and the weekday-anchored week units on dates: up from the fifth day of the week.
   Known findings: `round_century` on years divisible by 100 and Sunday-week rounding before 0001-01-04 are
   stated as counterexample theorems at the end.)
-/
import SqlDt.Props.C08
import SqlDt.Lemmas.C10Base
namespace SqlDt.C11B
open SqlDt Gen

/-- Moving to the next day: succeeds exactly when the next day is representable. -/
theorem addDays_one (d : Int) (hd : isValidDate d) :
    Date.addDays d 1 = if d + 1 ≤ 2932896 then .ok (d + 1) else .error .DateOutOfRange := by
  have h := (isValidDate_iff d).1 hd
  rw [C08.Date.addDays_exact d 1 hd (by decide)]
  unfold C08.exactOr
  by_cases h2 : d + 1 ≤ 2932896
  · have : isValidDate (d + 1) := (isValidDate_iff _).2 (by omega)
    simp only [this, h2, ↓reduceIte]
  · have : ¬ isValidDate (d + 1) := fun x => by have := (isValidDate_iff _).1 x; omega
    simp only [this, h2, ↓reduceIte]

/-- Day rounding of a timestamp: the start of the next day exactly from 12:00 on, else the start of its own day;
    an error exactly when the next day would be 10000-01-01. -/
theorem ts_round_day (ts : Int) (h : isValidTimestamp ts) :
    Timestamp.round .day ts =
      if ts % 86400000000 ≥ 43200000000 then
        (if ts / 86400000000 + 1 ≤ 2932896 then .ok ((ts / 86400000000 + 1) * 86400000000) else .error .DateOutOfRange)
      else .ok (ts - ts % 86400000000) := by
  have hv := (isValidTimestamp_iff ts).1 h
  have ht : 0 ≤ ts % 86400000000 := by omega
  have hd : isValidDate (ts / 86400000000) := (isValidDate_iff _).2 (by omega)
  simp only [Timestamp.round, Timestamp.hour, Timestamp.date_eq, Timestamp.time_eq, Time.hour_eq _ ht]
  by_cases h12 : ts % 86400000000 ≥ 43200000000
  · have : ts % 86400000000 / 3600000000 ≥ 12 := by omega
    simp only [this, h12, ↓reduceIte, addDays_one _ hd]
    by_cases h2 : ts / 86400000000 + 1 ≤ 2932896
    · simp [h2, bind, Except.bind, pure, Except.pure, Timestamp.new, USECONDS_PER_DAY]
    · simp [h2, bind, Except.bind]
  · have : ¬ ts % 86400000000 / 3600000000 ≥ 12 := by omega
    simp only [this, h12, ↓reduceIte]
    simp [bind, Except.bind, pure, Except.pure, Timestamp.new, USECONDS_PER_DAY]; omega

/-- The result of day rounding, when there is one, is the truncation or the next day start, and a value
    already on a boundary is unchanged. -/
theorem ts_round_day_adjacent (ts b : Int) (h : isValidTimestamp ts) (hb : Timestamp.round .day ts = .ok b) :
    (b = ts - ts % 86400000000 ∨ b = ts - ts % 86400000000 + 86400000000) ∧ (ts % 86400000000 = 0 → b = ts) := by
  rw [ts_round_day ts h] at hb
  split at hb
  · split at hb
    · cases hb; omega
    · cases hb
  · cases hb; omega

/-- ISO-week rounding of a date: back to Monday for Mon..Thu, forward to the next Monday from Friday (the fifth
    day of the week) on. -/
theorem date_round_isoWeek (d : Int) (hd : isValidDate d) :
    Date.roundIsoWeek d =
      if (d + 3) % 7 ≤ 3 then Date.subDays d ((d + 3) % 7) else Date.subDays d ((d + 3) % 7 - 7) := by
  unfold Date.roundIsoWeek Date.applyWeekTable
  rw [C01.dayOfWeek_eq]
  have : (d + 4) % 7 = 0 ∨ (d + 4) % 7 = 1 ∨ (d + 4) % 7 = 2 ∨ (d + 4) % 7 = 3 ∨ (d + 4) % 7 = 4 ∨
      (d + 4) % 7 = 5 ∨ (d + 4) % 7 = 6 := by omega
  rcases this with h | h | h | h | h | h | h <;> rw [h] <;>
    simp [idx, ROUND_ISO_WEEK_TABLE, bind, Except.bind, pure, Except.pure] <;>
    first
    | (have e : (d + 3) % 7 = 0 := by omega
       simp [e, C10B.subDays_zero d hd])
    | (have e : (d + 3) % 7 = 1 := by omega
       simp [e])
    | (have e : (d + 3) % 7 = 2 := by omega
       simp [e])
    | (have e : (d + 3) % 7 = 3 := by omega
       simp [e])
    | (have e : (d + 3) % 7 = 4 := by omega
       simp [e])
    | (have e : (d + 3) % 7 = 5 := by omega
       simp [e])
    | (have e : (d + 3) % 7 = 6 := by omega
       simp [e])

/-! ### Known findings as theorems about the model (the crate agrees with the model on these inputs) -/

/-- D1: 2000-06-01 (day 11109, a year divisible by 100) is rounded back to 1901-01-01 (day −25202), while
    1999-06-01 (day 10743) goes to 2001-01-01 (day 11323): not monotone, and year 100 of a century is ≥ 51. -/
theorem roundCentury_counterexample :
    Date.roundCentury 11109 = .ok (-25202) ∧ Date.roundCentury 10743 = .ok 11323 ∧ (10743 : Int) < 11109 := by decide

/-- D9: Sunday-week rounding of 0001-01-01 fails although the input is nowhere near the maximum date. -/
theorem roundSundayWeek_counterexample :
    Date.roundSundayStartWeek (-719162) = .error .DateOutOfRange ∧ Date.roundSundayStartWeek (-719159) = .ok (-719156) := by
  decide

end SqlDt.C11B
