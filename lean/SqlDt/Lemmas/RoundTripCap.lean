/-
  Lemmas/RoundTripCap: the six serde pictures compiled, and `Formatter::format` into a bounded sink (the 32-byte stack
  buffer) = the specified rendering whenever that rendering fits.
-/
import SqlDt.Lemmas.RenderAll
import SqlDt.Lemmas.WellFormed
import SqlDt.Model.Serde
namespace SqlDt.Lemmas
open SqlDt Gen Spec Parser

/-! ### the six pictures, compiled -/

theorem tryNew_D : Lexer.tryNew (Serde.picture .D) = .ok [.Year 4, .Hyphen, .Month, .Hyphen, .Day] := by decide +kernel
theorem tryNew_TS : Lexer.tryNew (Serde.picture .TS) =
    .ok [.Year 4, .Hyphen, .Month, .Hyphen, .Day, .Blank 1, .Hour24, .Colon, .Minute, .Colon, .Second, .Dot, .Fraction (some 6)] := by
  decide +kernel
theorem tryNew_T : Lexer.tryNew (Serde.picture .T) =
    .ok [.Hour24, .Colon, .Minute, .Colon, .Second, .Dot, .Fraction (some 6)] := by decide +kernel
theorem tryNew_YM : Lexer.tryNew (Serde.picture .YM) = .ok [.Year 4, .Hyphen, .Month] := by decide +kernel
theorem tryNew_DT : Lexer.tryNew (Serde.picture .DT) =
    .ok [.Day, .Blank 1, .Hour24, .Colon, .Minute, .Colon, .Second, .Dot, .Fraction (some 6)] := by decide +kernel
theorem tryNew_OD : Lexer.tryNew (Serde.picture .OD) =
    .ok [.Year 4, .Hyphen, .Month, .Hyphen, .Day, .Blank 1, .Hour24, .Colon, .Minute, .Colon, .Second] := by decide +kernel

/-! ### a bounded sink behaves like the unbounded one while the text fits -/

theorem formatFields_eq_render_cap (ty : Ty) (v : Int) (dt : NDT) (c : Comps) (h : Agrees ty v dt c) (hfr : FractionOK dt c)
    (cap : Nat) :
    ∀ (fields : List Field) (w : Sink) (bs : Bytes), w.cap = some cap → (∀ f ∈ fields, Field.WellFormed f) →
      renderAll ty c fields = some bs → w.buf.length + bs.length ≤ cap →
      Formatter.formatFields ty v dt w fields = .ok { w with buf := w.buf ++ bs } := by
  intro fields
  induction fields with
  | nil =>
    intro w bs _ _ hr _
    simp only [renderAll, Option.some.injEq] at hr; subst hr
    simp [Formatter.formatFields]
  | cons f fs ih =>
    intro w bs hc hwf hr hl
    unfold Formatter.formatFields
    rw [formatField_eq_render ty v dt c w f h (hwf f (by simp)) hfr]
    simp only [renderAll, bind, Option.bind] at hr
    cases hrf : renderField ty c f with
    | none => simp [hrf] at hr
    | some a =>
      simp only [hrf] at hr
      cases hra : renderAll ty c fs with
      | none => simp [hra] at hr
      | some b =>
        simp only [hra, pure, Option.some.injEq] at hr
        subst hr
        simp only [List.length_append] at hl
        have hfit : ¬ (w.buf.length + a.length > cap) := by omega
        simp only [outcome, Sink.write, hc, hfit, ↓reduceIte, bind, Except.bind]
        rw [ih { buf := w.buf ++ a, cap := some cap } b rfl (fun g hg => hwf g (by simp [hg])) hra
          (by simp only [List.length_append]; omega)]
        simp [List.append_assoc]

theorem format_cap (ty : Ty) (v : Int) (c : Comps) (h : Agrees ty v (NDT.ofValue ty v) c)
    (hfr : FractionOK (NDT.ofValue ty v) c) (hneg : (NDT.ofValue ty v).negative = c.neg)
    (fields : List Field) (hwf : ∀ f ∈ fields, Field.WellFormed f) (cap : Nat) (t : Bytes)
    (hr : render ty c fields = some t) (hl : t.length ≤ cap) :
    Formatter.format ty v fields (some cap) = .ok t := by
  obtain ⟨h1, h2, h3, h4, h5⟩ := info_cases ty
  unfold render at hr
  cases hra : renderAll ty c fields with
  | none => simp [hra] at hr
  | some body =>
    simp only [hra, bind, Option.bind, pure, Option.some.injEq] at hr
    subst hr
    simp only [List.length_append] at hl
    unfold Formatter.format
    simp only [hneg, h4, h5, bind, Except.bind, pure, Except.pure]
    by_cases hn : c.neg = true
    · simp only [hn, ↓reduceIte, List.length_cons, List.length_nil] at hl
      have hfit : ¬ (0 + 1 > cap) := by omega
      simp only [hn, ↓reduceIte, Sink.write, List.length_nil, List.length_cons, hfit]
      rw [formatFields_eq_render_cap ty v _ c h hfr cap fields _ body rfl hwf hra (by simp; omega)]
      simp; rfl
    · simp only [hn, Bool.false_eq_true, ↓reduceIte] at hl ⊢
      by_cases hi : ty = .YM ∨ ty = .DT
      · have : (decide (ty = .YM) || decide (ty = .DT)) = true := by
          rcases hi with rfl | rfl <;> decide
        simp only [hi, ↓reduceIte, List.length_cons, List.length_nil] at hl
        have hfit : ¬ (0 + 1 > cap) := by omega
        simp only [this, ↓reduceIte, Sink.write, List.length_nil, List.length_cons, hfit]
        rw [formatFields_eq_render_cap ty v _ c h hfr cap fields _ body rfl hwf hra (by simp; omega)]
        simp [hi]; rfl
      · have : (decide (ty = .YM) || decide (ty = .DT)) = false := by
          cases ty <;> simp at hi ⊢
        simp only [hi, ↓reduceIte, List.length_nil] at hl
        simp only [this, Bool.false_eq_true, ↓reduceIte]
        rw [formatFields_eq_render_cap ty v _ c h hfr cap fields _ body rfl hwf hra (by simp; omega)]
        simp [hi]

end SqlDt.Lemmas
