/-
  Lemmas/ReadingDoy: the crate's day-of-year decoding (`the_month_day_of_days`: binary search in the cumulative month
  table) is the calendar's "month in which the ordinal day falls" of Spec/Reading, and `resolveDoy` is `monthDayOf`.
-/
import SqlDt.Lemmas.ReadingFinalTime
import SqlDt.Lemmas.Calendar
namespace SqlDt.Lemmas
open SqlDt Gen Spec Parser

/-- `daysBeforeMonth` with the leap flag as a parameter -/
def dbmL (leap : Bool) (m : Int) : Int :=
  let c : Int :=
    if m = 1 then 0 else if m = 2 then 31 else if m = 3 then 59 else if m = 4 then 90 else if m = 5 then 120
    else if m = 6 then 151 else if m = 7 then 181 else if m = 8 then 212 else if m = 9 then 243
    else if m = 10 then 273 else if m = 11 then 304 else 334
  if m > 2 ∧ leap = true then c + 1 else c

theorem dbm_eq_L (y m : Int) : daysBeforeMonth y m = dbmL (isLeap y) m := rfl

def monthOfOrdinalL (leap : Bool) (n : Int) : Int :=
  ((((List.range 12).filter (fun (k : Nat) => dbmL leap ((k : Int) + 1) < n)).length : Nat) : Int)

theorem monthOfOrdinal_eq_L (y n : Int) : monthOfOrdinal y n = monthOfOrdinalL (isLeap y) n := rfl

/-- The finite table: for both kinds of year and every ordinal 1..366. -/
theorem doy_table : ∀ leap : Bool, ∀ n : Nat, n < 367 → 1 ≤ n →
    theMonthDayOfDays (Int.ofNat n) leap =
      .ok (monthOfOrdinalL leap (Int.ofNat n), Int.ofNat n - dbmL leap (monthOfOrdinalL leap (Int.ofNat n))) := by
  decide +kernel

theorem theMonthDayOfDays_spec (y : Int) (n : Nat) (h1 : 1 ≤ n) (h366 : n ≤ 366) :
    theMonthDayOfDays (n : Int) (isLeap y) =
      .ok (monthOfOrdinal y n, (n : Int) - daysBeforeMonth y (monthOfOrdinal y n)) := by
  have := doy_table (isLeap y) n (by omega) h1
  simp only [Int.ofNat_eq_natCast] at this
  rw [this, monthOfOrdinal_eq_L, dbm_eq_L]

/-- `resolveDoy` on a state whose flags and date fields come from the components `p`, for a year in range. -/
theorem resolveDoy_spec (st : St) (dt : NDT) (p : Parts) (now : Clock) (hY : 1 ≤ dt.year ∧ dt.year ≤ 9999)
    (hdoy : st.doy = p.doy.map Int.ofNat) (hms : st.isMonthSet = p.month.isSome) (hds : st.isDaySet = p.day.isSome)
    (hm : dt.month = (p.month.map Int.ofNat).getD now.month) (hd : dt.day = ((p.day.getD 1 : Nat) : Int)) :
    resolveDoy st dt =
      match monthDayOf p now dt.year with
      | some (m, d) => .ok { dt with month := m, day := d }
      | none => .error .ParseError := by
  unfold resolveDoy monthDayOf
  rw [hdoy]
  cases hn : p.doy with
  | none =>
    simp only [Option.map_none, pure, Except.pure]
    rw [← hm, ← hd]
  | some n =>
    simp only [Option.map_some, Int.ofNat_eq_natCast]
    rw [isLeapYear_eq _ (by omega)]
    by_cases hr : 1 ≤ n ∧ n ≤ (if isLeap dt.year = true then 366 else 365)
    · have h366 : n ≤ 366 := by
        have := hr.2; split at this <;> omega
      have hno : ¬ ((n : Int) = 0 ∨ (¬ isLeap dt.year = true ∧ (n : Int) > 365) ∨ (isLeap dt.year = true ∧ (n : Int) > 366)) := by
        have := hr.2
        cases hl : isLeap dt.year <;> simp [hl] at this ⊢ <;> omega
      rw [if_neg hno, theMonthDayOfDays_spec dt.year n hr.1 h366]
      simp only [hr, not_true_eq_false, ↓reduceIte, bind, Except.bind, hms, hds, perr, pure, Except.pure]
      generalize monthOfOrdinal dt.year ↑n = M
      generalize (n : Int) - daysBeforeMonth dt.year M = D
      cases hpm : p.month with
      | none =>
        cases hpd : p.day with
        | none => simp
        | some dd =>
          simp only [hpd, Option.getD_some] at hd
          simp only [Option.isSome_none, Option.isSome_some, Option.all_none, Option.all_some, decide_eq_true_eq, true_and]
          by_cases hc : (dd : Int) = D
          · have : ¬ D ≠ dt.day := by rw [hd]; simp [hc]
            simp [hc, this]
            rw [hd, hc]
          · have : D ≠ dt.day := by rw [hd]; exact fun h => hc h.symm
            simp [hc, this]
      | some mm =>
        simp only [hpm, Option.map_some, Option.getD_some, Int.ofNat_eq_natCast] at hm
        cases hpd : p.day with
        | none =>
          simp only [Option.isSome_none, Option.isSome_some, Option.all_none, Option.all_some, decide_eq_true_eq, and_true]
          by_cases hc : (mm : Int) = M
          · have : ¬ M ≠ dt.month := by rw [hm]; simp [hc]
            simp [hc, this]
            rw [hm, hc]
          · have : M ≠ dt.month := by rw [hm]; exact fun h => hc h.symm
            simp [hc, this]
        | some dd =>
          simp only [hpd, Option.getD_some] at hd
          simp only [Option.isSome_some, Option.all_some, decide_eq_true_eq]
          by_cases hc : (mm : Int) = M ∧ (dd : Int) = D
          · have : ¬ (M ≠ dt.month ∨ D ≠ dt.day) := by rw [hm, hd]; simp [hc.1, hc.2]
            simp only [hc, and_self, ↓reduceIte, this]
            congr 1
            cases dt; simp_all
          · have : (M ≠ dt.month ∨ D ≠ dt.day) := by
              rw [hm, hd]
              by_cases h1 : (mm : Int) = M
              · right; exact fun h => hc ⟨h1, h.symm⟩
              · left; exact fun h => h1 h.symm
            simp [hc, this]
    · have hyes : ((n : Int) = 0 ∨ (¬ isLeap dt.year = true ∧ (n : Int) > 365) ∨ (isLeap dt.year = true ∧ (n : Int) > 366)) := by
        cases hl : isLeap dt.year <;> simp [hl] at hr ⊢ <;> omega
      rw [if_pos hyes]
      simp only [hr, not_false_eq_true, ↓reduceIte, perr]

end SqlDt.Lemmas
