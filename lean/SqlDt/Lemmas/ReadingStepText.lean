/-
  Lemmas/ReadingStepText: tokens read as text — month names (for `MM`, `MON`, `MONTH`), weekday names and number,
  the fraction of a second, the meridian indicator (written or left out).
-/
import SqlDt.Lemmas.ReadingStepMisc
namespace SqlDt.Lemmas
open SqlDt Gen Spec Parser

/-! ### month names -/

theorem name_text_month (f : Field) (hf : isMonthToken f = true) (b k : Nat) (abbr : Bool) (mask : List Bool) (rest : Bytes) :
    (Lex.name b k abbr mask).text f ++ rest =
      spaces b ++ (recase mask (if abbr then (monthNames.getD (k - 1) []).take 3 else monthNames.getD (k - 1) []) ++ rest) := by
  cases f <;> simp [isMonthToken] at hf <;> simp [Lex.text, fullName, namesOf, List.append_assoc]

theorem month_base_head (k : Nat) (hk : 1 ≤ k ∧ k ≤ 12) (abbr : Bool) :
    headLower (if abbr then (monthNames.getD (k - 1) []).take 3 else monthNames.getD (k - 1) []) = true := by
  have := month_head (k - 1) (by omega)
  cases abbr
  · simpa using this.1
  · simpa using this.2.1

theorem step_month_name (ty : Ty) (now : Clock) (p : Parts) (s : Bytes) (r : Nat)
    (b k : Nat) (abbr : Bool) (mask : List Bool) (rest : Bytes)
    (happ : applicable ty .Month = true) (hk : 1 ≤ k ∧ k ≤ 12)
    (hdel : abbr = true → (monthNames.getD (k - 1) []).length ≤ 3 ∨
      startsWithCI rest ((monthNames.getD (k - 1) []).drop 3) = false)
    (hs : eatWhitespaces s = eatWhitespaces ((Lex.name b k abbr mask).text .Month ++ rest)) :
    StepGoal ty now p s r .Month (.name b k abbr mask) rest := by
  rw [name_text_month _ rfl, eatWs_spaces, eatWs_name _ _ _ (month_base_head k hk abbr)] at hs
  unfold StepGoal step
  simp only [happ, Bool.not_true, Bool.false_eq_true, ↓reduceIte]
  generalize hst : conc ty p s r = st0
  have hs0 : st0.s = s := by rw [← hst]; rfl
  have hm0 : st0.isMonthSet = p.month.isSome := by rw [← hst]; rfl
  rw [← hs0] at hs
  have happ' : (ty.info.HAS_DATE || ty.info.IS_INTERVAL_YM) = true := by
    rw [info_hasDate, info_ym]; simpa [applicable] using happ
  have hpn := parseNumber_name mask _ rest ty.info.MONTH_MAX_LENGTH (month_base_head k hk abbr)
  have hpm := parseMonthName_lex k hk abbr mask rest hdel
  cases hset : p.month.isSome with
  | true =>
    simp only [↓reduceIte]
    refine ⟨.ParseError, ?_⟩
    simp only [parseField, happ', ↓reduceIte, hm0, hset, perr]
  | false =>
    simp only [Bool.false_eq_true, ↓reduceIte]
    refine ⟨rest, r, ?_, rfl⟩
    simp only [parseField, happ', ↓reduceIte, hm0, hset, Bool.false_eq_true, hs, hpn, hpm, bind, Except.bind, pure,
      Except.pure]
    subst hst
    rfl

theorem step_monthName (ty : Ty) (now : Clock) (p : Parts) (s : Bytes) (r : Nat) (style : NameStyle)
    (b k : Nat) (abbr : Bool) (mask : List Bool) (rest : Bytes)
    (happ : applicable ty (.MonthName style) = true) (hk : 1 ≤ k ∧ k ≤ 12)
    (hdel : abbr = true → (monthNames.getD (k - 1) []).length ≤ 3 ∨
      startsWithCI rest ((monthNames.getD (k - 1) []).drop 3) = false)
    (hs : eatWhitespaces s = eatWhitespaces ((Lex.name b k abbr mask).text (.MonthName style) ++ rest)) :
    StepGoal ty now p s r (.MonthName style) (.name b k abbr mask) rest := by
  rw [name_text_month _ rfl, eatWs_spaces, eatWs_name _ _ _ (month_base_head k hk abbr)] at hs
  unfold StepGoal step
  simp only [happ, Bool.not_true, Bool.false_eq_true, ↓reduceIte]
  generalize hst : conc ty p s r = st0
  have hs0 : st0.s = s := by rw [← hst]; rfl
  have hm0 : st0.isMonthSet = p.month.isSome := by rw [← hst]; rfl
  rw [← hs0] at hs
  have happ' : hasDate ty = true := happ
  have hpm := parseMonthName_lex k hk abbr mask rest hdel
  cases hset : p.month.isSome with
  | true =>
    simp only [↓reduceIte]
    refine ⟨.ParseError, ?_⟩
    simp only [parseField, info_hasDate, happ', ↓reduceIte, hm0, hset, perr]
  | false =>
    simp only [Bool.false_eq_true, ↓reduceIte]
    refine ⟨rest, r, ?_, rfl⟩
    simp only [parseField, info_hasDate, happ', ↓reduceIte, hm0, hset, Bool.false_eq_true, hs, hpm, bind, Except.bind,
      pure, Except.pure]
    subst hst
    rfl

/-! ### weekday name and number -/

theorem step_dayName (ty : Ty) (now : Clock) (p : Parts) (s : Bytes) (r : Nat) (style : NameStyle)
    (b k : Nat) (mask : List Bool) (rest : Bytes)
    (happ : applicable ty (.DayName style) = true) (hk : 1 ≤ k ∧ k ≤ 7)
    (hs : eatWhitespaces s = eatWhitespaces ((Lex.name b k (isAbbrStyle style) mask).text (.DayName style) ++ rest)) :
    StepGoal ty now p s r (.DayName style) (.name b k (isAbbrStyle style) mask) rest := by
  have hhead : headLower (if isAbbrStyle style then (dayNames.getD (k - 1) []).take 3 else dayNames.getD (k - 1) []) = true := by
    have := day_head (k - 1) (by omega)
    cases isAbbrStyle style
    · simpa using this.1
    · simpa using this.2
  have htext : (Lex.name b k (isAbbrStyle style) mask).text (.DayName style) ++ rest =
      spaces b ++ (recase mask (if isAbbrStyle style then (dayNames.getD (k - 1) []).take 3 else dayNames.getD (k - 1) []) ++ rest) := by
    simp [Lex.text, fullName, namesOf, List.append_assoc]
  rw [htext, eatWs_spaces, eatWs_name _ _ _ hhead] at hs
  unfold StepGoal step
  simp only [happ, Bool.not_true, Bool.false_eq_true, ↓reduceIte]
  generalize hst : conc ty p s r = st0
  have hs0 : st0.s = s := by rw [← hst]; rfl
  have hd0 : st0.dow = p.dow.map Int.ofNat := by rw [← hst]; rfl
  rw [← hs0] at hs
  have happ' : hasDate ty = true := happ
  have hpw := parseWeekDayName_lex style k hk mask rest
  cases hset : p.dow with
  | some d =>
    simp only [Option.isSome_some, ↓reduceIte]
    refine ⟨.ParseError, ?_⟩
    simp only [parseField, info_hasDate, happ', ↓reduceIte, hd0, hset, Option.map_some, Option.isSome_some, perr]
  | none =>
    simp only [Option.isSome_none, Bool.false_eq_true, ↓reduceIte]
    refine ⟨rest, r, ?_, rfl⟩
    simp only [parseField, info_hasDate, happ', ↓reduceIte, hd0, hset, Option.map_none, Option.isSome_none,
      Bool.false_eq_true, hs, hpw, bind, Except.bind, pure, Except.pure]
    subst hst
    simp [conc, yearRep, dayRep, hourOf, hset]

theorem step_dow (ty : Ty) (now : Clock) (p : Parts) (s : Bytes) (r : Nat) (b d : Nat) (rest : Bytes)
    (happ : applicable ty .DayOfWeek = true) (hd : d ≤ 9)
    (hs : eatWhitespaces s = eatWhitespaces ((Lex.dowNum b d).text .DayOfWeek ++ rest)) :
    StepGoal ty now p s r .DayOfWeek (.dowNum b d) rest := by
  have htext : (Lex.dowNum b d).text .DayOfWeek ++ rest = spaces b ++ ((d + 48) :: rest) := by
    simp [Lex.text, List.append_assoc]
  have hws : isWhitespaceB (d + 48) = false := by simp [isWhitespaceB]
  rw [htext, eatWs_spaces, eatWs_nonws _ _ hws] at hs
  unfold StepGoal step
  simp only [happ, Bool.not_true, Bool.false_eq_true, ↓reduceIte]
  generalize hst : conc ty p s r = st0
  have hs0 : st0.s = s := by rw [← hst]; rfl
  have hd0 : st0.dow = p.dow.map Int.ofNat := by rw [← hst]; rfl
  rw [← hs0] at hs
  have happ' : hasDate ty = true := happ
  have hpw := parseWeekDayNumber_lex d rest hd
  cases hset : p.dow with
  | some d' =>
    simp only [Option.isSome_some, ↓reduceIte]
    refine ⟨.ParseError, ?_⟩
    simp only [parseField, info_hasDate, happ', ↓reduceIte, hd0, hset, Option.map_some, Option.isSome_some, perr]
  | none =>
    simp only [Option.isSome_none, Bool.false_eq_true, ↓reduceIte]
    by_cases hr : 1 ≤ d ∧ d ≤ 7
    · have : (decide (d < 1) || decide (d > 7)) = false := by simp; omega
      simp only [this, Bool.false_eq_true, ↓reduceIte]
      refine ⟨rest, r, ?_, rfl⟩
      simp only [parseField, info_hasDate, happ', ↓reduceIte, hd0, hset, Option.map_none, Option.isSome_none,
        Bool.false_eq_true, hs, hpw, hr, and_self, bind, Except.bind, pure, Except.pure]
      subst hst
      simp [conc, yearRep, dayRep, hourOf, hset]
    · have : (decide (d < 1) || decide (d > 7)) = true := by simp; omega
      simp only [this, ↓reduceIte]
      refine ⟨.ParseError, ?_⟩
      simp only [parseField, info_hasDate, happ', ↓reduceIte, hd0, hset, Option.map_none, Option.isSome_none,
        Bool.false_eq_true, hs, hpw, hr, bind, Except.bind]

/-! ### fraction -/

theorem step_frac (ty : Ty) (now : Clock) (p : Parts) (s : Bytes) (r : Nat) (q : Option Nat)
    (hwf : Field.WellFormed (.Fraction q)) (b : Nat) (ds : List Nat) (rest : Bytes)
    (happ : applicable ty (.Fraction q) = true)
    (h1 : 1 ≤ ds.length) (hk : ds.length ≤ maxDigits ty (.Fraction q)) (hall : ds.all (· ≤ 9) = true)
    (hstop : Stops (fracBytes ds) rest (maxDigits ty (.Fraction q)))
    (hs : eatWhitespaces s = eatWhitespaces ((Lex.frac b ds).text (.Fraction q) ++ rest)) :
    StepGoal ty now p s r (.Fraction q) (.frac b ds) rest := by
  have htext : (Lex.frac b ds).text (.Fraction q) ++ rest = spaces b ++ (fracBytes ds ++ rest) := by
    simp [Lex.text, fracBytes, List.append_assoc]
  rw [htext, eatWs_spaces, eatWs_frac ds rest h1 hall] at hs
  simp only [maxDigits] at hk hstop
  have hq9 : q.getD 9 ≤ 9 := by
    cases q with
    | none => simp
    | some v => simp [Field.WellFormed] at hwf; simpa using hwf.2
  have hpf := parseFraction_lex ds rest (q.getD 9) h1 hk hq9 hall hstop
  unfold StepGoal step
  simp only [happ, Bool.not_true, Bool.false_eq_true, ↓reduceIte]
  generalize hst : conc ty p s r = st0
  have hs0 : st0.s = s := by rw [← hst]; rfl
  have hf0 : st0.isFractionSet = p.usec.isSome := by rw [← hst]; rfl
  rw [← hs0] at hs
  have happ' : hasFraction ty = true := happ
  cases hset : p.usec.isSome with
  | true =>
    simp only [↓reduceIte]
    refine ⟨.ParseError, ?_⟩
    simp only [parseField, info_hasFraction, happ', ↓reduceIte, hf0, hset, perr]
  | false =>
    simp only [Bool.false_eq_true, ↓reduceIte]
    refine ⟨rest, r, ?_, rfl⟩
    simp only [parseField, info_hasFraction, happ', ↓reduceIte, hf0, hset, Bool.false_eq_true, hs, hpf, bind, Except.bind,
      pure, Except.pure]
    subst hst
    simp [conc, yearRep, dayRep, hourOf]

theorem step_frac_omitted (ty : Ty) (now : Clock) (p : Parts) (s : Bytes) (r : Nat) (q : Option Nat) (rest : Bytes)
    (happ : applicable ty (.Fraction q) = true)
    (hs : eatWhitespaces s = []) (hrest : eatWhitespaces rest = []) :
    StepGoal ty now p s r (.Fraction q) .omitted rest := by
  unfold StepGoal step
  simp only [happ, Bool.not_true, Bool.false_eq_true, ↓reduceIte]
  generalize hst : conc ty p s r = st0
  have hs0 : st0.s = s := by rw [← hst]; rfl
  have hf0 : st0.isFractionSet = p.usec.isSome := by rw [← hst]; rfl
  rw [← hs0] at hs
  have happ' : hasFraction ty = true := happ
  cases hset : p.usec.isSome with
  | true =>
    simp only [↓reduceIte]
    refine ⟨.ParseError, ?_⟩
    simp only [parseField, info_hasFraction, happ', ↓reduceIte, hf0, hset, perr]
  | false =>
    simp only [Bool.false_eq_true, ↓reduceIte]
    refine ⟨[], r, ?_, by rw [hrest]; rfl⟩
    simp only [parseField, info_hasFraction, happ', ↓reduceIte, hf0, hset, Bool.false_eq_true, hs, parseFraction, bind,
      Except.bind, pure, Except.pure]
    subst hst
    simp [conc, yearRep, dayRep, hourOf]

/-! ### meridian indicator -/

theorem hour24_any (h : Option (Bool × Nat)) : (h.map (·.1) = some true) ↔ h.any (·.1) = true := by
  cases h with
  | none => simp
  | some v => obtain ⟨a, b⟩ := v; cases a <;> simp

theorem step_ampm (ty : Ty) (now : Clock) (p : Parts) (s : Bytes) (r : Nat) (style : AmPmStyle)
    (b : Nat) (pm : Bool) (mask : List Bool) (rest : Bytes)
    (happ : applicable ty (.AmPm style) = true)
    (hmi : p.meridian.isSome = true → p.meridianSeen = true)
    (hs : eatWhitespaces s = eatWhitespaces ((Lex.meridian b pm mask).text (.AmPm style) ++ rest)) :
    StepGoal ty now p s r (.AmPm style) (.meridian b pm mask) rest := by
  have htext : (Lex.meridian b pm mask).text (.AmPm style) ++ rest =
      spaces b ++ (recase mask (meridianBase (dotted (.AmPm style)) pm) ++ rest) := by
    simp [Lex.text, List.append_assoc]
  rw [htext, eatWs_spaces, eatWs_meridian] at hs
  obtain ⟨ht, hty⟩ := hasTime_of_clock12 ty happ
  have happ' : (ty.info.HAS_TIME && !ty.info.IS_INTERVAL_DT) = true := by
    rw [info_hasTime, info_dt, ht]; simp [hty]
  have hpa := parseAmPm_lex style pm mask rest
  unfold StepGoal step
  simp only [happ, Bool.not_true, Bool.false_eq_true, ↓reduceIte]
  generalize hst : conc ty p s r = st0
  have hs0 : st0.s = s := by rw [← hst]; rfl
  have hh0 : st0.isHour24Set = p.hour.map (·.1) := by rw [← hst]; rfl
  have ha0 : st0.isAmPmSet = p.meridianSeen := by rw [← hst]; rfl
  rw [← hs0] at hs
  cases hseen : p.meridianSeen with
  | true =>
    simp only [Bool.true_or, ↓reduceIte]
    refine ⟨.ParseError, ?_⟩
    simp only [parseField, happ', ↓reduceIte, ha0, hseen, perr]
  | false =>
    have hmer : p.meridian = none := by
      cases hm : p.meridian with
      | none => rfl
      | some v => have := hmi (by simp [hm]); rw [hseen] at this; cases this
    simp only [Bool.false_or]
    by_cases h24 : p.hour.any (·.1) = true
    · simp only [h24, ↓reduceIte]
      refine ⟨.ParseError, ?_⟩
      have := (hour24_any p.hour).2 h24
      simp only [parseField, happ', ↓reduceIte, ha0, hseen, Bool.false_eq_true, hh0, this, perr]
    · simp only [h24, Bool.false_eq_true, ↓reduceIte]
      have hn24 : ¬ (p.hour.map (·.1) = some true) := fun h => h24 ((hour24_any p.hour).1 h)
      refine ⟨rest, r, ?_, rfl⟩
      simp only [parseField, happ', ↓reduceIte, ha0, hseen, Bool.false_eq_true, hh0, hn24, hs, hpa,
        bind, Except.bind, Option.isSome_some, pure, Except.pure]
      subst hst
      cases hh : p.hour with
      | none => cases pm <;> simp [conc, yearRep, dayRep, hourOf, hh, hmer, NDT.adjustHour12]
      | some v =>
        obtain ⟨is24, h⟩ := v
        cases is24 with
        | true => simp [hh] at h24
        | false =>
          have := hour12_cast h pm
          cases pm <;> simp [conc, yearRep, dayRep, hourOf, hh, hmer, NDT.adjustHour12] at this ⊢ <;> exact this.symm

theorem step_ampm_omitted (ty : Ty) (now : Clock) (p : Parts) (s : Bytes) (r : Nat) (style : AmPmStyle) (rest : Bytes)
    (happ : applicable ty (.AmPm style) = true)
    (hmi : p.meridian.isSome = true → p.meridianSeen = true)
    (hs : eatWhitespaces s = []) (hrest : eatWhitespaces rest = []) :
    StepGoal ty now p s r (.AmPm style) .omitted rest := by
  obtain ⟨ht, hty⟩ := hasTime_of_clock12 ty happ
  have happ' : (ty.info.HAS_TIME && !ty.info.IS_INTERVAL_DT) = true := by
    rw [info_hasTime, info_dt, ht]; simp [hty]
  unfold StepGoal step
  simp only [happ, Bool.not_true, Bool.false_eq_true, ↓reduceIte]
  generalize hst : conc ty p s r = st0
  have hs0 : st0.s = s := by rw [← hst]; rfl
  have hh0 : st0.isHour24Set = p.hour.map (·.1) := by rw [← hst]; rfl
  have ha0 : st0.isAmPmSet = p.meridianSeen := by rw [← hst]; rfl
  rw [← hs0] at hs
  cases hseen : p.meridianSeen with
  | true =>
    simp only [Bool.true_or, ↓reduceIte]
    refine ⟨.ParseError, ?_⟩
    simp only [parseField, happ', ↓reduceIte, ha0, hseen, perr]
  | false =>
    have hmer : p.meridian = none := by
      cases hm : p.meridian with
      | none => rfl
      | some v => have := hmi (by simp [hm]); rw [hseen] at this; cases this
    simp only [Bool.false_or]
    by_cases h24 : p.hour.any (·.1) = true
    · simp only [h24, ↓reduceIte]
      refine ⟨.ParseError, ?_⟩
      have := (hour24_any p.hour).2 h24
      simp only [parseField, happ', ↓reduceIte, ha0, hseen, Bool.false_eq_true, hh0, this, perr]
    · simp only [h24, Bool.false_eq_true, ↓reduceIte]
      have hn24 : ¬ (p.hour.map (·.1) = some true) := fun h => h24 ((hour24_any p.hour).1 h)
      refine ⟨[], r, ?_, by rw [hrest]; rfl⟩
      simp only [parseField, happ', ↓reduceIte, ha0, hseen, Bool.false_eq_true, hh0, hn24, hs,
        parseAmPm, List.isEmpty_nil, bind, Except.bind, pure, Except.pure]
      subst hst
      simp [conc, yearRep, dayRep, hourOf, hmer]

end SqlDt.Lemmas
