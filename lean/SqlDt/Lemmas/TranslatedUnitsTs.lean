/-
  Lemmas/TranslatedUnitsTs (hand-written, stable; groups 4 and 5 of phase 5): `Tr.f = model f` for the calendar units of
  `Timestamp` (`impl Trunc / Round for Timestamp`) and the Oracle wrappers (`impl Trunc / Round for oracle::Date`),
  except the ISO-year unit.  Same namespace (`SqlDt.TrEq`) and attribute (`tr_eq`) as Lemmas/TranslatedEq.

  Hypotheses: the receiver is an `i64` (`-9223372036854775808 ≤ ts ≤ 9223372036854775807`) where the `Date` unit has no
  hypothesis of its own; `-210866803200000000 ≤ ts` (the date of `ts` has a non-negative Julian day, the range of
  `Date.extract_eq`, as in `Timestamp.add_interval_ym_eq`) where the `Date` unit calls `Date::extract`;
  `isValidTimestamp ts` for `round_week` only (as `Date.round_week_eq`: a valid date is not before the first day of its year).
-/
import SqlDt.Lemmas.TranslatedUnits
set_option linter.unusedVariables false
set_option linter.unusedSimpArgs false
namespace SqlDt.TrEq
open SqlDt SqlDt.Gen SqlDt.TrTactic

/-! ### facts about the date / time of day of a timestamp (helpers: in the sub-namespace `TsU`, so that they cannot clash with
    the helpers of the sibling files) -/
namespace TsU

/-- the date of a timestamp whose Julian day is non-negative lies in the range of `Date.extract_eq` -/
theorem ts_date_range (ts : Int) (h0 : -210866803200000000 ≤ ts) (h1 : ts ≤ 9223372036854775807) :
    -2440588 ≤ Timestamp.date ts ∧ Timestamp.date ts ≤ 2145043059 := by
  rw [SqlDt.Timestamp.date_eq]; omega

theorem ts_time_range (ts : Int) : 0 ≤ Timestamp.time ts ∧ Timestamp.time ts < 86400000000 := by
  rw [SqlDt.Timestamp.time_eq]; omega

theorem ts_extract_date_range (ts : Int) (h0 : -210866803200000000 ≤ ts) (h1 : ts ≤ 9223372036854775807) :
    -2440588 ≤ (Timestamp.extract ts).1 ∧ (Timestamp.extract ts).1 ≤ 2145043059 := by
  rw [SqlDt.Timestamp.extract_eq]; dsimp only; omega

theorem ts_extract_time_range (ts : Int) : 0 ≤ (Timestamp.extract ts).2 ∧ (Timestamp.extract ts).2 < 86400000000 := by
  rw [SqlDt.Timestamp.extract_eq]; dsimp only; omega

theorem ts_extract_date_valid (ts : Int) (hts : isValidTimestamp ts) : isValidDate (Timestamp.extract ts).1 := by
  rw [SqlDt.Timestamp.extract_eq, isValidDate_iff]; rw [isValidTimestamp_iff] at hts; dsimp only; omega

theorem ts_div_date_valid (ts : Int) (hts : isValidTimestamp ts) : isValidDate (ts / 86400000000) := by
  rw [isValidDate_iff]; rw [isValidTimestamp_iff] at hts; omega

/-- `time.hour().unwrap()` of a time of day: the cast `as i32` is exact -/
theorem hour_cast (t : Int) (h0 : 0 ≤ t) (h1 : t < 86400000000) :
    asI32 (rdiv t USECONDS_PER_HOUR) = rdiv t USECONDS_PER_HOUR := by
  unfold USECONDS_PER_HOUR
  rw [rdiv_nonneg_eq h0]
  exact asI32_eq (by omega) (by omega)

/-- what `add_days` returns is a valid date -/
theorem addDays_ok_valid (d k v : Int) (h : Date.addDays d k = .ok v) : isValidDate v := by
  unfold Date.addDays Date.tryFromDays at h
  split at h
  · split at h
    · cases h; assumption
    · cases h
  · cases h

end TsU
open TsU

set_option hygiene false in
/-- `match e with … = match e with …` through two different (but equivalent) matchers, or the same `if` on both sides:
    go through the cases of the left one and rewrite the right one with the case hypothesis -/
macro "tr_ts_both" : tactic => `(tactic|
  (split <;> (rename_i hcase; try simp only [hcase, ↓reduceIte]; try (with_reducible rfl))))

/-- the composition `self.date().unit()?.and_zero_time()` against the model's `do`-block: callees rewritten
    (the range of the date as side condition), the model's unit opened, then the two `match`es compared -/
macro "tr_ts_unit" : tactic => `(tactic| (
  try simp (disch := omega) only [tr_eq]
  simp only [Timestamp.trunc, Timestamp.round, Timestamp.hour, Time.hour, bind, Except.bind, pure, Except.pure]
  first | done | (with_reducible_and_instances rfl) | (tr_ts_both; done) | tr_auto))


/-! ## `Trunc for Timestamp` (`trunc_day`, `trunc_hour`, `trunc_minute` are in Lemmas/TranslatedEq) -/

@[tr_eq] theorem Timestamp.trunc_century_eq (ts : Int) (h0 : -210866803200000000 ≤ ts) (h1 : ts ≤ 9223372036854775807) :
    Tr.Timestamp.trunc_century ts = Timestamp.trunc .century ts := by
  unfold Tr.Timestamp.trunc_century
  first
  | (with_reducible_and_instances rfl)
  | (have hd := ts_date_range ts h0 h1
     tr_ts_unit)

@[tr_eq] theorem Timestamp.trunc_year_eq (ts : Int) (h0 : -210866803200000000 ≤ ts) (h1 : ts ≤ 9223372036854775807) :
    Tr.Timestamp.trunc_year ts = Timestamp.trunc .year ts := by
  unfold Tr.Timestamp.trunc_year
  first
  | (with_reducible_and_instances rfl)
  | (have hd := ts_date_range ts h0 h1
     tr_ts_unit)

@[tr_eq] theorem Timestamp.trunc_quarter_eq (ts : Int) (h0 : -210866803200000000 ≤ ts) (h1 : ts ≤ 9223372036854775807) :
    Tr.Timestamp.trunc_quarter ts = Timestamp.trunc .quarter ts := by
  unfold Tr.Timestamp.trunc_quarter
  first
  | (with_reducible_and_instances rfl)
  | (have hd := ts_date_range ts h0 h1
     tr_ts_unit)

@[tr_eq] theorem Timestamp.trunc_month_eq (ts : Int) (h0 : -210866803200000000 ≤ ts) (h1 : ts ≤ 9223372036854775807) :
    Tr.Timestamp.trunc_month ts = Timestamp.trunc .month ts := by
  unfold Tr.Timestamp.trunc_month
  first
  | (with_reducible_and_instances rfl)
  | (have hd := ts_date_range ts h0 h1
     tr_ts_unit)

@[tr_eq] theorem Timestamp.trunc_week_eq (ts : Int) (h0 : -210866803200000000 ≤ ts) (h1 : ts ≤ 9223372036854775807) :
    Tr.Timestamp.trunc_week ts = Timestamp.trunc .week ts := by
  unfold Tr.Timestamp.trunc_week
  first
  | (with_reducible_and_instances rfl)
  | (have hd := ts_date_range ts h0 h1
     tr_ts_unit)

@[tr_eq] theorem Timestamp.trunc_iso_week_eq (ts : Int) (h0 : -9223372036854775808 ≤ ts) (h1 : ts ≤ 9223372036854775807) :
    Tr.Timestamp.trunc_iso_week ts = Timestamp.trunc .isoWeek ts := by
  unfold Tr.Timestamp.trunc_iso_week
  first
  | (with_reducible_and_instances rfl)
  | (tr_ts_unit)

@[tr_eq] theorem Timestamp.trunc_month_start_week_eq (ts : Int) (h0 : -210866803200000000 ≤ ts) (h1 : ts ≤ 9223372036854775807) :
    Tr.Timestamp.trunc_month_start_week ts = Timestamp.trunc .monthStartWeek ts := by
  unfold Tr.Timestamp.trunc_month_start_week
  first
  | (with_reducible_and_instances rfl)
  | (have hd := ts_date_range ts h0 h1
     tr_ts_unit)

@[tr_eq] theorem Timestamp.trunc_sunday_start_week_eq (ts : Int) (h0 : -210866803200000000 ≤ ts) (h1 : ts ≤ 9223372036854775807) :
    Tr.Timestamp.trunc_sunday_start_week ts = Timestamp.trunc .sundayStartWeek ts := by
  unfold Tr.Timestamp.trunc_sunday_start_week
  first
  | (with_reducible_and_instances rfl)
  | (have hd := ts_date_range ts h0 h1
     tr_ts_unit)

/-! ### the half-day shift of `round_day` and of the four week roundings (`Timestamp.shiftHalfDay` in the model) -/

set_option hygiene false in
/-- Independent of how the source spells the shift (inline `if … { date = date.add_days(1)? }`, or a helper returning
    `Result<Date>` whose result is matched): both sides are brought to the closed forms `ts / 86400000000` (date) and
    `ts % 86400000000` (time of day); then the case analysis is done on the MODEL's terms – the half-day test, then the
    result of `Date.addDays (ts / 86400000000) 1` – and each case is closed by rewriting: the shifted date `r1` is valid,
    which gives the side conditions of the callees that are applied to it. -/
macro "tr_ts_shift" ts:ident : tactic => `(tactic| (
  try dsimp only
  try simp (disch := omega) only [tr_eq]
  simp only [Timestamp.round, Timestamp.shiftHalfDay, Timestamp.hour, Time.hour, Date.round, bind, Except.bind, pure,
    Except.pure]
  try simp (disch := omega) only [SqlDt.Timestamp.extract_eq, SqlDt.Timestamp.date_eq, SqlDt.Timestamp.time_eq, hour_cast,
    tr_eq, asI32_eq]
  first
  | done
  | (by_cases hc : rdiv ($ts % 86400000000) USECONDS_PER_HOUR ≥ 12
     · simp only [hc, ↓reduceIte]
       first
       | done
       | (cases hadd : Date.addDays ($ts / 86400000000) 1 with
          | error e => first | done | rfl | (simp only [hadd]; done) | (dsimp only; done)
          | ok r1 =>
            try simp only [hadd]
            first
            | done
            | (try dsimp only
               have hv1 := addDays_ok_valid _ _ _ hadd
               have hr1 := valid_date_range' _ hv1
               have hf1 := first_of_year_le _ hv1
               have hdd1 := extract_day_range _ hr1.1
               try simp (disch := omega) only [tr_eq, asI32_eq]
               first | done | rfl | (tr_ts_both; done) | tr_auto))
     · simp only [hc, ↓reduceIte]
       first | done | rfl | (tr_ts_both; done) | tr_auto)))

/-! ## `Round for Timestamp`: day, hour, minute -/

@[tr_eq] theorem Timestamp.round_day_eq (ts : Int) (h0 : -9223372036854775808 ≤ ts) (h1 : ts ≤ 9223372036854775807) :
    Tr.Timestamp.round_day ts = Timestamp.round .day ts := by
  unfold Tr.Timestamp.round_day
  first
  | (with_reducible_and_instances rfl)
  | (tr_ts_shift ts)

@[tr_eq] theorem Timestamp.round_hour_eq (ts : Int) (h0 : -9223372036854775808 ≤ ts) (h1 : ts ≤ 9223372036854775807) :
    Tr.Timestamp.round_hour ts = Timestamp.round .hour ts := by
  unfold Tr.Timestamp.round_hour
  first
  | (with_reducible_and_instances rfl)
  | (have ht := ts_time_range ts
     tr_ts_unit)

@[tr_eq] theorem Timestamp.round_minute_eq (ts : Int) (h0 : -9223372036854775808 ≤ ts) (h1 : ts ≤ 9223372036854775807) :
    Tr.Timestamp.round_minute ts = Timestamp.round .minute ts := by
  unfold Tr.Timestamp.round_minute
  first
  | (with_reducible_and_instances rfl)
  | (have ht := ts_time_range ts
     tr_ts_unit)

/-! ## `Round for Timestamp`: the units that round the date -/

@[tr_eq] theorem Timestamp.round_century_eq (ts : Int) (h0 : -210866803200000000 ≤ ts) (h1 : ts ≤ 9223372036854775807) :
    Tr.Timestamp.round_century ts = Timestamp.round .century ts := by
  unfold Tr.Timestamp.round_century
  first
  | (with_reducible_and_instances rfl)
  | (have hd := ts_date_range ts h0 h1
     tr_ts_unit)

@[tr_eq] theorem Timestamp.round_year_eq (ts : Int) (h0 : -210866803200000000 ≤ ts) (h1 : ts ≤ 9223372036854775807) :
    Tr.Timestamp.round_year ts = Timestamp.round .year ts := by
  unfold Tr.Timestamp.round_year
  first
  | (with_reducible_and_instances rfl)
  | (have hd := ts_date_range ts h0 h1
     tr_ts_unit)

@[tr_eq] theorem Timestamp.round_quarter_eq (ts : Int) (h0 : -210866803200000000 ≤ ts) (h1 : ts ≤ 9223372036854775807) :
    Tr.Timestamp.round_quarter ts = Timestamp.round .quarter ts := by
  unfold Tr.Timestamp.round_quarter
  first
  | (with_reducible_and_instances rfl)
  | (have hd := ts_date_range ts h0 h1
     tr_ts_unit)

@[tr_eq] theorem Timestamp.round_month_eq (ts : Int) (h0 : -210866803200000000 ≤ ts) (h1 : ts ≤ 9223372036854775807) :
    Tr.Timestamp.round_month ts = Timestamp.round .month ts := by
  unfold Tr.Timestamp.round_month
  first
  | (with_reducible_and_instances rfl)
  | (have hd := ts_date_range ts h0 h1
     tr_ts_unit)

/-! ## `Round for Timestamp`: the four week roundings (half-day shift first: `Timestamp.shiftHalfDay`) -/

@[tr_eq] theorem Timestamp.round_week_eq (ts : Int) (hts : isValidTimestamp ts) :
    Tr.Timestamp.round_week ts = Timestamp.round .week ts := by
  unfold Tr.Timestamp.round_week
  first
  | (with_reducible_and_instances rfl)
  | (have hb := (isValidTimestamp_iff ts).1 hts
     have hv := ts_div_date_valid ts hts
     have hf := first_of_year_le _ hv
     tr_ts_shift ts)

@[tr_eq] theorem Timestamp.round_iso_week_eq (ts : Int) (h0 : -9223372036854775808 ≤ ts) (h1 : ts ≤ 9223372036854775807) :
    Tr.Timestamp.round_iso_week ts = Timestamp.round .isoWeek ts := by
  unfold Tr.Timestamp.round_iso_week
  first
  | (with_reducible_and_instances rfl)
  | (tr_ts_shift ts)

@[tr_eq] theorem Timestamp.round_month_start_week_eq (ts : Int) (h0 : -210866803200000000 ≤ ts) (h1 : ts ≤ 9223372036854775807) :
    Tr.Timestamp.round_month_start_week ts = Timestamp.round .monthStartWeek ts := by
  unfold Tr.Timestamp.round_month_start_week
  first
  | (with_reducible_and_instances rfl)
  | (have hdd := extract_day_range (ts / 86400000000) (by omega)
     tr_ts_shift ts)

@[tr_eq] theorem Timestamp.round_sunday_start_week_eq (ts : Int) (h0 : -9223372036854775808 ≤ ts) (h1 : ts ≤ 9223372036854775807) :
    Tr.Timestamp.round_sunday_start_week ts = Timestamp.round .sundayStartWeek ts := by
  unfold Tr.Timestamp.round_sunday_start_week
  first
  | (with_reducible_and_instances rfl)
  | (tr_ts_shift ts)

/-! ## `Trunc / Round for oracle::Date`: the `Timestamp` unit followed by `.into()` (flooring to the second) -/

/-- callee (the `Timestamp` unit, under the same hypothesis) rewritten, the model's wrapper opened, the two `match`es compared -/
macro "tr_ts_od_unit" : tactic => `(tactic| (
  try simp (disch := first | assumption | omega) only [tr_eq]
  simp only [OracleDate.trunc, OracleDate.round, bind, Except.bind, pure, Except.pure]
  first | done | (with_reducible_and_instances rfl) | (tr_ts_both; done) | tr_auto))

@[tr_eq] theorem OracleDate.trunc_century_eq (od : Int) (h0 : -210866803200000000 ≤ od) (h1 : od ≤ 9223372036854775807) :
    Tr.OracleDate.trunc_century od = OracleDate.trunc .century od := by
  unfold Tr.OracleDate.trunc_century
  first
  | (with_reducible_and_instances rfl)
  | tr_ts_od_unit

@[tr_eq] theorem OracleDate.trunc_year_eq (od : Int) (h0 : -210866803200000000 ≤ od) (h1 : od ≤ 9223372036854775807) :
    Tr.OracleDate.trunc_year od = OracleDate.trunc .year od := by
  unfold Tr.OracleDate.trunc_year
  first
  | (with_reducible_and_instances rfl)
  | tr_ts_od_unit

@[tr_eq] theorem OracleDate.trunc_quarter_eq (od : Int) (h0 : -210866803200000000 ≤ od) (h1 : od ≤ 9223372036854775807) :
    Tr.OracleDate.trunc_quarter od = OracleDate.trunc .quarter od := by
  unfold Tr.OracleDate.trunc_quarter
  first
  | (with_reducible_and_instances rfl)
  | tr_ts_od_unit

@[tr_eq] theorem OracleDate.trunc_month_eq (od : Int) (h0 : -210866803200000000 ≤ od) (h1 : od ≤ 9223372036854775807) :
    Tr.OracleDate.trunc_month od = OracleDate.trunc .month od := by
  unfold Tr.OracleDate.trunc_month
  first
  | (with_reducible_and_instances rfl)
  | tr_ts_od_unit

@[tr_eq] theorem OracleDate.trunc_week_eq (od : Int) (h0 : -210866803200000000 ≤ od) (h1 : od ≤ 9223372036854775807) :
    Tr.OracleDate.trunc_week od = OracleDate.trunc .week od := by
  unfold Tr.OracleDate.trunc_week
  first
  | (with_reducible_and_instances rfl)
  | tr_ts_od_unit

@[tr_eq] theorem OracleDate.trunc_iso_week_eq (od : Int) (h0 : -9223372036854775808 ≤ od) (h1 : od ≤ 9223372036854775807) :
    Tr.OracleDate.trunc_iso_week od = OracleDate.trunc .isoWeek od := by
  unfold Tr.OracleDate.trunc_iso_week
  first
  | (with_reducible_and_instances rfl)
  | tr_ts_od_unit

@[tr_eq] theorem OracleDate.trunc_month_start_week_eq (od : Int) (h0 : -210866803200000000 ≤ od) (h1 : od ≤ 9223372036854775807) :
    Tr.OracleDate.trunc_month_start_week od = OracleDate.trunc .monthStartWeek od := by
  unfold Tr.OracleDate.trunc_month_start_week
  first
  | (with_reducible_and_instances rfl)
  | tr_ts_od_unit

@[tr_eq] theorem OracleDate.trunc_day_eq (od : Int) (h0 : -9223372036854775808 ≤ od) (h1 : od ≤ 9223372036854775807) :
    Tr.OracleDate.trunc_day od = OracleDate.trunc .day od := by
  unfold Tr.OracleDate.trunc_day
  first
  | (with_reducible_and_instances rfl)
  | tr_ts_od_unit

@[tr_eq] theorem OracleDate.trunc_sunday_start_week_eq (od : Int) (h0 : -210866803200000000 ≤ od) (h1 : od ≤ 9223372036854775807) :
    Tr.OracleDate.trunc_sunday_start_week od = OracleDate.trunc .sundayStartWeek od := by
  unfold Tr.OracleDate.trunc_sunday_start_week
  first
  | (with_reducible_and_instances rfl)
  | tr_ts_od_unit

@[tr_eq] theorem OracleDate.trunc_hour_eq (od : Int) (h0 : -9223372036854775808 ≤ od) (h1 : od ≤ 9223372036854775807) :
    Tr.OracleDate.trunc_hour od = OracleDate.trunc .hour od := by
  unfold Tr.OracleDate.trunc_hour
  first
  | (with_reducible_and_instances rfl)
  | tr_ts_od_unit

@[tr_eq] theorem OracleDate.trunc_minute_eq (od : Int) (h0 : -9223372036854775808 ≤ od) (h1 : od ≤ 9223372036854775807) :
    Tr.OracleDate.trunc_minute od = OracleDate.trunc .minute od := by
  unfold Tr.OracleDate.trunc_minute
  first
  | (with_reducible_and_instances rfl)
  | tr_ts_od_unit

@[tr_eq] theorem OracleDate.round_century_eq (od : Int) (h0 : -210866803200000000 ≤ od) (h1 : od ≤ 9223372036854775807) :
    Tr.OracleDate.round_century od = OracleDate.round .century od := by
  unfold Tr.OracleDate.round_century
  first
  | (with_reducible_and_instances rfl)
  | tr_ts_od_unit

@[tr_eq] theorem OracleDate.round_year_eq (od : Int) (h0 : -210866803200000000 ≤ od) (h1 : od ≤ 9223372036854775807) :
    Tr.OracleDate.round_year od = OracleDate.round .year od := by
  unfold Tr.OracleDate.round_year
  first
  | (with_reducible_and_instances rfl)
  | tr_ts_od_unit

@[tr_eq] theorem OracleDate.round_quarter_eq (od : Int) (h0 : -210866803200000000 ≤ od) (h1 : od ≤ 9223372036854775807) :
    Tr.OracleDate.round_quarter od = OracleDate.round .quarter od := by
  unfold Tr.OracleDate.round_quarter
  first
  | (with_reducible_and_instances rfl)
  | tr_ts_od_unit

@[tr_eq] theorem OracleDate.round_month_eq (od : Int) (h0 : -210866803200000000 ≤ od) (h1 : od ≤ 9223372036854775807) :
    Tr.OracleDate.round_month od = OracleDate.round .month od := by
  unfold Tr.OracleDate.round_month
  first
  | (with_reducible_and_instances rfl)
  | tr_ts_od_unit

@[tr_eq] theorem OracleDate.round_week_eq (od : Int) (hod : isValidTimestamp od) :
    Tr.OracleDate.round_week od = OracleDate.round .week od := by
  unfold Tr.OracleDate.round_week
  first
  | (with_reducible_and_instances rfl)
  | tr_ts_od_unit

@[tr_eq] theorem OracleDate.round_iso_week_eq (od : Int) (h0 : -9223372036854775808 ≤ od) (h1 : od ≤ 9223372036854775807) :
    Tr.OracleDate.round_iso_week od = OracleDate.round .isoWeek od := by
  unfold Tr.OracleDate.round_iso_week
  first
  | (with_reducible_and_instances rfl)
  | tr_ts_od_unit

@[tr_eq] theorem OracleDate.round_month_start_week_eq (od : Int) (h0 : -210866803200000000 ≤ od) (h1 : od ≤ 9223372036854775807) :
    Tr.OracleDate.round_month_start_week od = OracleDate.round .monthStartWeek od := by
  unfold Tr.OracleDate.round_month_start_week
  first
  | (with_reducible_and_instances rfl)
  | tr_ts_od_unit

@[tr_eq] theorem OracleDate.round_day_eq (od : Int) (h0 : -9223372036854775808 ≤ od) (h1 : od ≤ 9223372036854775807) :
    Tr.OracleDate.round_day od = OracleDate.round .day od := by
  unfold Tr.OracleDate.round_day
  first
  | (with_reducible_and_instances rfl)
  | tr_ts_od_unit

@[tr_eq] theorem OracleDate.round_sunday_start_week_eq (od : Int) (h0 : -9223372036854775808 ≤ od) (h1 : od ≤ 9223372036854775807) :
    Tr.OracleDate.round_sunday_start_week od = OracleDate.round .sundayStartWeek od := by
  unfold Tr.OracleDate.round_sunday_start_week
  first
  | (with_reducible_and_instances rfl)
  | tr_ts_od_unit

@[tr_eq] theorem OracleDate.round_hour_eq (od : Int) (h0 : -9223372036854775808 ≤ od) (h1 : od ≤ 9223372036854775807) :
    Tr.OracleDate.round_hour od = OracleDate.round .hour od := by
  unfold Tr.OracleDate.round_hour
  first
  | (with_reducible_and_instances rfl)
  | tr_ts_od_unit

@[tr_eq] theorem OracleDate.round_minute_eq (od : Int) (h0 : -9223372036854775808 ≤ od) (h1 : od ≤ 9223372036854775807) :
    Tr.OracleDate.round_minute od = OracleDate.round .minute od := by
  unfold Tr.OracleDate.round_minute
  first
  | (with_reducible_and_instances rfl)
  | tr_ts_od_unit

end SqlDt.TrEq
