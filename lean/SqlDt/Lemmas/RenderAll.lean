import SqlDt.Lemmas.RenderTypes
import SqlDt.Lemmas.Float
import SqlDt.Props.C07
import SqlDt.Props.C13
namespace SqlDt.Lemmas
open SqlDt Gen Spec

theorem fractionOK_of (dt : NDT) (c : Comps) (h : dt.usec = c.usec) (hr : 0 ≤ c.usec ∧ c.usec ≤ 999999) : FractionOK dt c := by
  intro p hp
  refine ⟨?_, ?_, ?_⟩
  · rw [← h]; exact fraction_eq dt p (by rw [h]; exact hr) hp
  · unfold fractionOf; split
    · exact Int.ediv_nonneg hr.1 (by positivity)
    · exact Int.mul_nonneg hr.1 (by positivity)
  · unfold fractionOf; split
    · have : c.usec / ((10 ^ (6 - p) : Nat) : Int) ≤ c.usec := Int.ediv_le_self _ hr.1
      omega
    · rename_i hp6
      have : p = 7 ∨ p = 8 ∨ p = 9 := by omega
      rcases this with rfl | rfl | rfl <;> simp <;> omega

/-- Components of a time of day. -/
def compsOfTime (h mi s us : Int) : Comps := { hour := h, minute := mi, sec := s, usec := us }

theorem ndt_ofTime (h mi s us : Int) (hh : 0 ≤ h ∧ h < 24) (hm : 0 ≤ mi ∧ mi < 60) (hs : 0 ≤ s ∧ s < 60)
    (hu : 0 ≤ us ∧ us < 1000000) :
    NDT.ofTime (Time.fromHmsUnchecked h mi s us) = { hour := h, minute := mi, sec := s, usec := us } := by
  unfold NDT.ofTime
  rw [C07.extract_fromHms h mi s us hh.1 hm.1 hs.1 hu.1 hh.2 hm.2 hs.2 hu.2]

theorem agrees_time (h mi s us : Int) (hh : 0 ≤ h ∧ h < 24) (hm : 0 ≤ mi ∧ mi < 60) (hs : 0 ≤ s ∧ s < 60)
    (hu : 0 ≤ us ∧ us < 1000000) :
    Agrees .T (Time.fromHmsUnchecked h mi s us) (NDT.ofValue .T (Time.fromHmsUnchecked h mi s us)) (compsOfTime h mi s us) := by
  have e := ndt_ofTime h mi s us hh hm hs hu
  refine { year := ?_, month := ?_, day := ?_, hour := ?_, minute := ?_, sec := ?_, usec := ?_, yearR := ?_,
           monthR := ?_, dayR := ?_, hourR := ?_, minuteR := ?_, secR := ?_, date := ?_ } <;>
    simp only [NDT.ofValue, e, compsOfTime] <;> first | rfl | omega | (intro hx; simp at hx) | decide

/-- TIMES OF DAY, end to end: for every (h, m, s, µs) in range and every picture. -/
theorem format_time (h mi s us : Int) (hh : 0 ≤ h ∧ h < 24) (hm : 0 ≤ mi ∧ mi < 60) (hs : 0 ≤ s ∧ s < 60)
    (hu : 0 ≤ us ∧ us < 1000000) (fields : List Field) (hwf : ∀ f ∈ fields, Field.WellFormed f) :
    Formatter.format .T (Time.fromHmsUnchecked h mi s us) fields none = toChk (render .T (compsOfTime h mi s us) fields) := by
  have ha := agrees_time h mi s us hh hm hs hu
  apply format_eq_render .T _ _ ha
  · exact fractionOK_of _ _ ha.usec ⟨hu.1, by have := hu.2; simp [compsOfTime]; omega⟩
  · simp [NDT.ofValue, ndt_ofTime h mi s us hh hm hs hu, compsOfTime]
  · exact hwf

/-- Components of a timestamp: a date and a time of day. -/
def compsOfTs (y m d h mi s us : Int) : Comps :=
  { compsOfDate y m d with hour := h, minute := mi, sec := s, usec := us }

def tsOf (y m d h mi s us : Int) : Int := dayNumber y m d * 86400000000 + Time.fromHmsUnchecked h mi s us

theorem time_range (h mi s us : Int) (hh : 0 ≤ h ∧ h < 24) (hm : 0 ≤ mi ∧ mi < 60) (hs : 0 ≤ s ∧ s < 60)
    (hu : 0 ≤ us ∧ us < 1000000) : 0 ≤ Time.fromHmsUnchecked h mi s us ∧ Time.fromHmsUnchecked h mi s us < 86400000000 := by
  unfold Time.fromHmsUnchecked USECONDS_PER_HOUR USECONDS_PER_MINUTE USECONDS_PER_SECOND; omega

theorem ndt_ofTimestamp (y m d h mi s us : Int) (hv : ValidYMD y m d) (hh : 0 ≤ h ∧ h < 24) (hm : 0 ≤ mi ∧ mi < 60)
    (hs : 0 ≤ s ∧ s < 60) (hu : 0 ≤ us ∧ us < 1000000) :
    NDT.ofTimestamp (tsOf y m d h mi s us) =
      { year := y, month := m, day := d, hour := h, minute := mi, sec := s, usec := us } ∧
    Timestamp.date (tsOf y m d h mi s us) = dayNumber y m d := by
  have tr := time_range h mi s us hh hm hs hu
  have hex := (extract_fromYmd y m d hv).2
  rw [fromYmd_eq_dayNumber y m d ⟨by have := hv.1; omega, by have := hv.2.1; omega⟩ ⟨hv.2.2.1, hv.2.2.2.1⟩] at hex
  have e1 : tsOf y m d h mi s us / 86400000000 = dayNumber y m d := by unfold tsOf; omega
  have e2 : tsOf y m d h mi s us % 86400000000 = Time.fromHmsUnchecked h mi s us := by unfold tsOf; omega
  constructor
  · unfold NDT.ofTimestamp
    rw [Timestamp.extract_eq, e1, e2]
    simp only []
    rw [hex, C07.extract_fromHms h mi s us hh.1 hm.1 hs.1 hu.1 hh.2 hm.2 hs.2 hu.2]
  · rw [Timestamp.date_eq, e1]

theorem agrees_ts (ty : Ty) (hty : ty = .TS ∨ ty = .OD) (y m d h mi s us : Int) (hv : ValidYMD y m d)
    (hh : 0 ≤ h ∧ h < 24) (hm : 0 ≤ mi ∧ mi < 60) (hs : 0 ≤ s ∧ s < 60) (hu : 0 ≤ us ∧ us < 1000000) :
    Agrees ty (tsOf y m d h mi s us) (NDT.ofValue ty (tsOf y m d h mi s us)) (compsOfTs y m d h mi s us) := by
  obtain ⟨e, edate⟩ := ndt_ofTimestamp y m d h mi s us hv hh hm hs hu
  have hnd : NDT.ofValue ty (tsOf y m d h mi s us) = { year := y, month := m, day := d, hour := h, minute := mi, sec := s, usec := us } := by
    rcases hty with rfl | rfl <;> exact e
  have hdo : ty.dateOf (tsOf y m d h mi s us) = some (dayNumber y m d) := by
    rcases hty with rfl | rfl <;> simp [Ty.dateOf, edate]
  obtain ⟨y1, y9, m1, m12, d1, dd⟩ := hv
  have d31 : d ≤ 31 := by
    unfold dim at dd; split at dd
    · split at dd <;> omega
    · split at dd <;> omega
  have hdoy := doy_range y m d ⟨m1, m12, d1, dd⟩
  refine { year := ?_, month := ?_, day := ?_, hour := ?_, minute := ?_, sec := ?_, usec := ?_, yearR := ?_,
           monthR := ?_, dayR := ?_, hourR := ?_, minuteR := ?_, secR := ?_, date := ?_ } <;>
    simp only [hnd, compsOfTs, compsOfDate] <;> try omega
  intro _
  refine ⟨m1, d1, d31, y9, ⟨dayNumber y m d, hdo, ?_⟩, ?_, ?_, ?_, hdoy.1, hdoy.2⟩
  · rw [C01.dayOfWeek_eq]; rfl
  · unfold weekday; omega
  · unfold weekday; omega
  · exact theDayOfYear_eq y m d (by omega) ⟨m1, m12⟩

/-- TIMESTAMPS (and Oracle-style dates: `us = 0`), end to end. -/
theorem format_ts (ty : Ty) (hty : ty = .TS ∨ ty = .OD) (y m d h mi s us : Int) (hv : ValidYMD y m d)
    (hh : 0 ≤ h ∧ h < 24) (hm : 0 ≤ mi ∧ mi < 60) (hs : 0 ≤ s ∧ s < 60) (hu : 0 ≤ us ∧ us < 1000000)
    (fields : List Field) (hwf : ∀ f ∈ fields, Field.WellFormed f) :
    Formatter.format ty (tsOf y m d h mi s us) fields none = toChk (render ty (compsOfTs y m d h mi s us) fields) := by
  have ha := agrees_ts ty hty y m d h mi s us hv hh hm hs hu
  apply format_eq_render ty _ _ ha
  · exact fractionOK_of _ _ ha.usec ⟨hu.1, by have := hu.2; simp [compsOfTs]; omega⟩
  · obtain ⟨e, _⟩ := ndt_ofTimestamp y m d h mi s us hv hh hm hs hu
    rcases hty with rfl | rfl <;> simp [NDT.ofValue, e, compsOfTs, compsOfDate]
  · exact hwf

/-- Components of a year-month interval `±(y years, mo months)`. -/
def compsOfYM (neg : Bool) (y mo : Int) : Comps := { year := y, month := mo, neg := neg }
def ymOf (neg : Bool) (y mo : Int) : Int := if neg then -(y * 12 + mo) else y * 12 + mo

theorem ndt_ofIntervalYM (neg : Bool) (y mo : Int) (hy : 0 ≤ y) (hm : 0 ≤ mo ∧ mo < 12) (hz : neg = true → y * 12 + mo ≠ 0) :
    NDT.ofIntervalYM (ymOf neg y mo) = { year := y, month := mo, negative := neg } := by
  unfold NDT.ofIntervalYM IntervalYM.extract ymOf MONTHS_PER_YEAR
  cases neg with
  | false =>
    have : ¬ (y * 12 + mo < 0) := by omega
    simp only [Bool.false_eq_true, ↓reduceIte, this]
    have e1 : (y * 12 + mo) / 12 = y := by omega
    rw [e1]; simp
  | true =>
    have := hz rfl
    have : -(y * 12 + mo) < 0 := by omega
    simp only [↓reduceIte, this]
    have e1 : (- -(y * 12 + mo)) / 12 = y := by omega
    rw [e1]; simp

theorem format_ym (neg : Bool) (y mo : Int) (hy : 0 ≤ y ∧ y ≤ 178000000) (hm : 0 ≤ mo ∧ mo < 12)
    (hz : neg = true → y * 12 + mo ≠ 0) (fields : List Field) (hwf : ∀ f ∈ fields, Field.WellFormed f) :
    Formatter.format .YM (ymOf neg y mo) fields none = toChk (render .YM (compsOfYM neg y mo) fields) := by
  have e := ndt_ofIntervalYM neg y mo hy.1 hm hz
  have ha : Agrees .YM (ymOf neg y mo) (NDT.ofValue .YM (ymOf neg y mo)) (compsOfYM neg y mo) := by
    refine { year := ?_, month := ?_, day := ?_, hour := ?_, minute := ?_, sec := ?_, usec := ?_, yearR := ?_,
             monthR := ?_, dayR := ?_, hourR := ?_, minuteR := ?_, secR := ?_, date := ?_ } <;>
      simp only [NDT.ofValue, e, compsOfYM] <;> first | rfl | omega | (intro hx; simp at hx) | decide
  apply format_eq_render .YM _ _ ha
  · apply fractionOK_zero
    · rw [ha.usec]; rfl
    · rfl
  · simp [NDT.ofValue, e, compsOfYM]
  · exact hwf

/-- Components of a day-time interval. -/
def compsOfDT (neg : Bool) (d h mi s us : Int) : Comps := { day := d, hour := h, minute := mi, sec := s, usec := us, neg := neg }
def dtMag (d h mi s us : Int) : Int := d * 86400000000 + h * 3600000000 + mi * 60000000 + s * 1000000 + us
def dtOf (neg : Bool) (d h mi s us : Int) : Int := if neg then -(dtMag d h mi s us) else dtMag d h mi s us

theorem ndt_ofIntervalDT (neg : Bool) (d h mi s us : Int) (hd : 0 ≤ d) (hh : 0 ≤ h ∧ h < 24) (hm : 0 ≤ mi ∧ mi < 60)
    (hs : 0 ≤ s ∧ s < 60) (hu : 0 ≤ us ∧ us < 1000000) (hz : neg = true → dtMag d h mi s us ≠ 0) :
    NDT.ofIntervalDT (dtOf neg d h mi s us) =
      { day := d, hour := h, minute := mi, sec := s, usec := us, negative := neg } := by
  have key : ∀ a : Int, a = dtMag d h mi s us →
      (a / 86400000000 = d ∧ (a - a / 86400000000 * 86400000000) / 3600000000 = h ∧
       (a - a / 86400000000 * 86400000000 - (a - a / 86400000000 * 86400000000) / 3600000000 * 3600000000) / 60000000 = mi) := by
    intro a ha; unfold dtMag at ha; subst ha
    refine ⟨by omega, by omega, by omega⟩
  unfold NDT.ofIntervalDT IntervalDT.extract dtOf USECONDS_PER_DAY USECONDS_PER_HOUR USECONDS_PER_MINUTE USECONDS_PER_SECOND
  cases neg with
  | false =>
    have hneg : ¬ (dtMag d h mi s us < 0) := by unfold dtMag; omega
    simp only [Bool.false_eq_true, ↓reduceIte, hneg]
    obtain ⟨k1, k2, k3⟩ := key _ rfl
    simp only [k1, k2, k3]
    unfold dtMag
    simp
    refine ⟨by omega, by omega⟩
  | true =>
    have := hz rfl
    have hneg : -(dtMag d h mi s us) < 0 := by unfold dtMag at *; omega
    simp only [↓reduceIte, hneg, Int.neg_neg]
    obtain ⟨k1, k2, k3⟩ := key _ rfl
    simp only [k1, k2, k3]
    unfold dtMag
    simp
    refine ⟨by omega, by omega⟩

theorem format_dt (neg : Bool) (d h mi s us : Int) (hd : 0 ≤ d ∧ d ≤ 100000000) (hh : 0 ≤ h ∧ h < 24)
    (hm : 0 ≤ mi ∧ mi < 60) (hs : 0 ≤ s ∧ s < 60) (hu : 0 ≤ us ∧ us < 1000000) (hz : neg = true → dtMag d h mi s us ≠ 0)
    (fields : List Field) (hwf : ∀ f ∈ fields, Field.WellFormed f) :
    Formatter.format .DT (dtOf neg d h mi s us) fields none = toChk (render .DT (compsOfDT neg d h mi s us) fields) := by
  have e := ndt_ofIntervalDT neg d h mi s us hd.1 hh hm hs hu hz
  have ha : Agrees .DT (dtOf neg d h mi s us) (NDT.ofValue .DT (dtOf neg d h mi s us)) (compsOfDT neg d h mi s us) := by
    refine { year := ?_, month := ?_, day := ?_, hour := ?_, minute := ?_, sec := ?_, usec := ?_, yearR := ?_,
             monthR := ?_, dayR := ?_, hourR := ?_, minuteR := ?_, secR := ?_, date := ?_ } <;>
      simp only [NDT.ofValue, e, compsOfDT] <;> first | rfl | omega | (intro hx; simp at hx) | decide
  apply format_eq_render .DT _ _ ha
  · exact fractionOK_of _ _ ha.usec ⟨hu.1, by have := hu.2; simp [compsOfDT]; omega⟩
  · simp [NDT.ofValue, e, compsOfDT]
  · exact hwf

end SqlDt.Lemmas
