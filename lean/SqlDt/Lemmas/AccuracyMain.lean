/-
  Lemmas/AccuracyMain: reader-facing end-to-end accuracy statements for the operations that go through `f64`
  (properties C14, C08, C16), over exact rational arithmetic.

  Vocabulary (Lemmas/Accuracy): `F64.val x : ℚ` is the exact value `±m·2^e` of a finite double, `truncQ q` truncates a
  rational toward zero, `roundHalfAwayQ q` is the nearest integer with ties away from zero, `roundSecQ t` the nearest
  multiple of 10^6 with ties away from zero, `F64.u' = 2^-53/(1+2^-53)`, `clamp lo hi t` saturates.

  No normal-range hypothesis is needed in the headline statements: when the computed double is subnormal
  (`|exact result| < 2^-1021`), both it and the exact result truncate/round to 0, so the exact result itself
  is the witness `q`.  The `_normal` variants state that in the normal range the witness IS the computed double.
-/
import SqlDt.Lemmas.AccuracyC08

namespace SqlDt
namespace Accuracy
open SqlDt Gen Lemmas

/-! ### generic reading of an outcome `ok (f q)` / range error / overflow -/

theorem outcome_ok {R : Chk Int} {C : ℚ → Prop} {f : ℚ → Int} {V : Int → Prop} [DecidablePred V] {E : Err}
    {BIG : Prop}
    (h : (∃ q, C q ∧ R = if V (f q) then .ok (f q) else .error E) ∨ (R = .error .NumericOverflow ∧ BIG))
    (r : Int) (hr : R = .ok r) : ∃ q, C q ∧ r = f q ∧ V r := by
  rcases h with ⟨q, hc, hR⟩ | ⟨hR, _⟩
  · rw [hr] at hR
    by_cases hv : V (f q)
    · rw [if_pos hv] at hR; cases hR; exact ⟨q, hc, rfl, hv⟩
    · rw [if_neg hv] at hR; cases hR
  · rw [hr] at hR; cases hR

theorem outcome_err {R : Chk Int} {C : ℚ → Prop} {f : ℚ → Int} {V : Int → Prop} [DecidablePred V] {E : Err}
    {BIG : Prop}
    (h : (∃ q, C q ∧ R = if V (f q) then .ok (f q) else .error E) ∨ (R = .error .NumericOverflow ∧ BIG))
    (err : Err) (hr : R = .error err) : (err = E ∧ ∃ q, C q ∧ ¬ V (f q)) ∨ (err = .NumericOverflow ∧ BIG) := by
  rcases h with ⟨q, hc, hR⟩ | ⟨hR, hb⟩
  · rw [hr] at hR
    by_cases hv : V (f q)
    · rw [if_pos hv] at hR; cases hR
    · rw [if_neg hv] at hR; cases hR; exact Or.inl ⟨rfl, q, hc, hv⟩
  · rw [hr] at hR; cases hR; exact Or.inr ⟨rfl, hb⟩

theorem dt_valid_bound {v : Int} (hv : IntervalDT.isValidUsecs v) : v.natAbs ≤ 2 ^ 63 := by
  unfold IntervalDT.isValidUsecs INTERVAL_MAX_USECONDS at hv; omega

theorem ym_valid_bound {v : Int} (hv : IntervalYM.isValidMonths v) : v.natAbs ≤ 2 ^ 63 := by
  unfold IntervalYM.isValidMonths INTERVAL_MAX_MONTH at hv; omega

theorem isZero_fin {s : Bool} {m : Nat} {e : Int} (hm : m ≠ 0) : (F64.fin s m e).isZero = false := by
  cases m with
  | zero => exact absurd rfl hm
  | succ k => rfl

/-! ## 1. the cast -/

/-- **(1) Value of the cast.** `x as iN` on a finite double truncates its exact value toward zero and saturates. -/
theorem cast_value (lo hi : Int) (s : Bool) (m : Nat) (e : Int) :
    F64.toIntSat lo hi (.fin s m e) = clamp lo hi (truncQ (F64.val (.fin s m e))) := toIntSat_fin lo hi s m e

/-! ## 2. one rounding -/

/-- **(2a) Half-ulp.** Round-to-nearest-even of the positive rational `num/den` is within half a unit in the last
    place, unconditionally. -/
theorem rounding_half_ulp (num den m : Nat) (e : Int) (hn : 0 < num) (hd : 0 < den)
    (h : F64.roundPos num den = some (m, e)) :
    |(m : ℚ) * 2 ^ e - (num : ℚ) / den| ≤ 2 ^ (e - 1) := roundPos_half_ulp num den m e hn hd h

/-- **(2b) Relative error of one rounding**, `u' = 2^-53/(1+2^-53)`, when the result exponent is above the minimum. -/
theorem rounding_relative (num den m : Nat) (e : Int) (hn : 0 < num) (hd : 0 < den)
    (h : F64.roundPos num den = some (m, e)) (he : F64.EMIN < e) :
    |(m : ℚ) * 2 ^ e - (num : ℚ) / den| ≤ (2 ^ (-53 : Int) / (1 + 2 ^ (-53 : Int))) * ((num : ℚ) / den) :=
  roundPos_relQ num den m e hn hd h (Or.inl he)

/-- … and, more generally, whenever the exact value is in the normal range `≥ 2^-1022`. -/
theorem rounding_relative_normal (num den m : Nat) (e : Int) (hn : 0 < num) (hd : 0 < den)
    (h : F64.roundPos num den = some (m, e)) (hx : (2 : ℚ) ^ (-1022 : Int) ≤ (num : ℚ) / den) :
    |(m : ℚ) * 2 ^ e - (num : ℚ) / den| ≤ (2 ^ (-53 : Int) / (1 + 2 ^ (-53 : Int))) * ((num : ℚ) / den) :=
  roundPos_relQ num den m e hn hd h (Or.inr hx)

/-! ## 3. conversion of an integer -/

/-- **(3) Conversion.** Every integer `|v| ≤ 2^63` converts to a finite double within relative error `u'`,
    exactly when `|v| ≤ 2^53`. -/
theorem conversion_accuracy (v : Int) (hv : v.natAbs ≤ 2 ^ 63) :
    (∃ (s : Bool) (m : Nat) (e : Int), F64.ofInt v = .fin s m e) ∧
    |F64.val (F64.ofInt v) - (v : ℚ)| ≤ (2 ^ (-53 : Int) / (1 + 2 ^ (-53 : Int))) * |(v : ℚ)| ∧
    (v.natAbs ≤ 2 ^ 53 → F64.val (F64.ofInt v) = (v : ℚ)) := by
  obtain ⟨m, e, h1, _, h3⟩ := ofInt_accuracy v hv
  exact ⟨⟨_, m, e, h1⟩, h3, ofInt_val_exact v⟩

/-! ## 4. C14: interval × f64, interval ÷ f64 -/

/-- **(4) C14, day-time interval × double.** For every valid interval `v` (microseconds) and every finite double `x`,
    with `p = v·x` the exact real product: either there is a rational `q` with `|q − p| ≤ 2^-52·|p|` (the product
    computed to double precision) such that the call returns `q` truncated toward zero to whole microseconds when that
    is inside the interval range and `IntervalOutOfRange` otherwise; or the double product overflowed to `±∞`
    (`NumericOverflow`), which needs `|p| ≥ 2^1023/(1+u')`. -/
theorem dt_mul_accuracy (v : Int) (hv : IntervalDT.isValidUsecs v) (s : Bool) (m : Nat) (e : Int) :
    (∃ q : ℚ, |q - (v : ℚ) * F64.val (.fin s m e)| ≤ 2 ^ (-52 : Int) * |(v : ℚ) * F64.val (.fin s m e)| ∧
      IntervalDT.mulF64 v (.fin s m e) =
        if IntervalDT.isValidUsecs (truncQ q) then .ok (truncQ q) else .error .IntervalOutOfRange) ∨
    (IntervalDT.mulF64 v (.fin s m e) = .error .NumericOverflow ∧
      (2 : ℚ) ^ (1023 : Int) ≤ (1 + F64.u') * |(v : ℚ) * F64.val (.fin s m e)|) := by
  rw [dt_mul_outcome]
  exact (scaled_gate _ _ _ dt_gate.1 dt_gate.2 _ _ _ _ (mul_core v (dt_valid_bound hv) s m e)).1

/-- In the normal range (`|p| ≥ 2^-1021`) the witness is the computed double `fl(fl(v)·x)` itself. -/
theorem dt_mul_accuracy_normal (v : Int) (hv : IntervalDT.isValidUsecs v) (s : Bool) (m : Nat) (e : Int)
    (hn : (2 : ℚ) ^ (-1021 : Int) ≤ |(v : ℚ) * F64.val (.fin s m e)|) :
    (|F64.val (F64.mul (F64.ofInt v) (.fin s m e)) - (v : ℚ) * F64.val (.fin s m e)| ≤
        2 ^ (-52 : Int) * |(v : ℚ) * F64.val (.fin s m e)| ∧
      IntervalDT.mulF64 v (.fin s m e) =
        if IntervalDT.isValidUsecs (truncQ (F64.val (F64.mul (F64.ofInt v) (.fin s m e))))
        then .ok (truncQ (F64.val (F64.mul (F64.ofInt v) (.fin s m e)))) else .error .IntervalOutOfRange) ∨
    (IntervalDT.mulF64 v (.fin s m e) = .error .NumericOverflow ∧
      (2 : ℚ) ^ (1023 : Int) ≤ (1 + F64.u') * |(v : ℚ) * F64.val (.fin s m e)|) := by
  rw [dt_mul_outcome]
  exact (scaled_gate _ _ _ dt_gate.1 dt_gate.2 _ _ _ _ (mul_core v (dt_valid_bound hv) s m e)).2 hn

/-- The form of the property text: a returned value is the double-precision product truncated toward zero. -/
theorem dt_mul_ok (v : Int) (hv : IntervalDT.isValidUsecs v) (s : Bool) (m : Nat) (e : Int) (r : Int)
    (h : IntervalDT.mulF64 v (.fin s m e) = .ok r) :
    ∃ q : ℚ, |q - (v : ℚ) * F64.val (.fin s m e)| ≤ 2 ^ (-52 : Int) * |(v : ℚ) * F64.val (.fin s m e)| ∧
      r = truncQ q ∧ IntervalDT.isValidUsecs r :=
  outcome_ok (dt_mul_accuracy v hv s m e) r h

/-- The error cases: out of range only if the truncated double-precision product is outside the interval range;
    overflow only if the exact product is astronomically large. No other error occurs for a finite multiplier. -/
theorem dt_mul_err (v : Int) (hv : IntervalDT.isValidUsecs v) (s : Bool) (m : Nat) (e : Int) (err : Err)
    (h : IntervalDT.mulF64 v (.fin s m e) = .error err) :
    (err = .IntervalOutOfRange ∧ ∃ q : ℚ,
      |q - (v : ℚ) * F64.val (.fin s m e)| ≤ 2 ^ (-52 : Int) * |(v : ℚ) * F64.val (.fin s m e)| ∧
      ¬ IntervalDT.isValidUsecs (truncQ q)) ∨
    (err = .NumericOverflow ∧ (2 : ℚ) ^ (1023 : Int) ≤ (1 + F64.u') * |(v : ℚ) * F64.val (.fin s m e)|) :=
  outcome_err (dt_mul_accuracy v hv s m e) err h

/-- **C14, day-time interval ÷ double** (`x ≠ 0`; a zero divisor gives `DivideByZero`, `C14.dt_div_zero`). -/
theorem dt_div_accuracy (v : Int) (hv : IntervalDT.isValidUsecs v) (s : Bool) (m : Nat) (e : Int) (hm : m ≠ 0) :
    (∃ q : ℚ, |q - (v : ℚ) / F64.val (.fin s m e)| ≤ 2 ^ (-52 : Int) * |(v : ℚ) / F64.val (.fin s m e)| ∧
      IntervalDT.divF64 v (.fin s m e) =
        if IntervalDT.isValidUsecs (truncQ q) then .ok (truncQ q) else .error .IntervalOutOfRange) ∨
    (IntervalDT.divF64 v (.fin s m e) = .error .NumericOverflow ∧
      (2 : ℚ) ^ (1023 : Int) ≤ (1 + F64.u') * |(v : ℚ) / F64.val (.fin s m e)|) := by
  rw [dt_div_outcome v _ (isZero_fin hm)]
  exact (scaled_gate _ _ _ dt_gate.1 dt_gate.2 _ _ _ _ (div_core v (dt_valid_bound hv) s m e hm)).1

theorem dt_div_accuracy_normal (v : Int) (hv : IntervalDT.isValidUsecs v) (s : Bool) (m : Nat) (e : Int)
    (hm : m ≠ 0) (hn : (2 : ℚ) ^ (-1021 : Int) ≤ |(v : ℚ) / F64.val (.fin s m e)|) :
    (|F64.val (F64.div (F64.ofInt v) (.fin s m e)) - (v : ℚ) / F64.val (.fin s m e)| ≤
        2 ^ (-52 : Int) * |(v : ℚ) / F64.val (.fin s m e)| ∧
      IntervalDT.divF64 v (.fin s m e) =
        if IntervalDT.isValidUsecs (truncQ (F64.val (F64.div (F64.ofInt v) (.fin s m e))))
        then .ok (truncQ (F64.val (F64.div (F64.ofInt v) (.fin s m e)))) else .error .IntervalOutOfRange) ∨
    (IntervalDT.divF64 v (.fin s m e) = .error .NumericOverflow ∧
      (2 : ℚ) ^ (1023 : Int) ≤ (1 + F64.u') * |(v : ℚ) / F64.val (.fin s m e)|) := by
  rw [dt_div_outcome v _ (isZero_fin hm)]
  exact (scaled_gate _ _ _ dt_gate.1 dt_gate.2 _ _ _ _ (div_core v (dt_valid_bound hv) s m e hm)).2 hn

theorem dt_div_ok (v : Int) (hv : IntervalDT.isValidUsecs v) (s : Bool) (m : Nat) (e : Int) (hm : m ≠ 0) (r : Int)
    (h : IntervalDT.divF64 v (.fin s m e) = .ok r) :
    ∃ q : ℚ, |q - (v : ℚ) / F64.val (.fin s m e)| ≤ 2 ^ (-52 : Int) * |(v : ℚ) / F64.val (.fin s m e)| ∧
      r = truncQ q ∧ IntervalDT.isValidUsecs r :=
  outcome_ok (dt_div_accuracy v hv s m e hm) r h

/-- **C14, year-month interval × double** (months; the cast is `as i32`). -/
theorem ym_mul_accuracy (v : Int) (hv : IntervalYM.isValidMonths v) (s : Bool) (m : Nat) (e : Int) :
    (∃ q : ℚ, |q - (v : ℚ) * F64.val (.fin s m e)| ≤ 2 ^ (-52 : Int) * |(v : ℚ) * F64.val (.fin s m e)| ∧
      IntervalYM.mulF64 v (.fin s m e) =
        if IntervalYM.isValidMonths (truncQ q) then .ok (truncQ q) else .error .IntervalOutOfRange) ∨
    (IntervalYM.mulF64 v (.fin s m e) = .error .NumericOverflow ∧
      (2 : ℚ) ^ (1023 : Int) ≤ (1 + F64.u') * |(v : ℚ) * F64.val (.fin s m e)|) := by
  rw [ym_mul_outcome]
  exact (scaled_gate _ _ _ ym_gate.1 ym_gate.2 _ _ _ _ (mul_core v (ym_valid_bound hv) s m e)).1

theorem ym_mul_ok (v : Int) (hv : IntervalYM.isValidMonths v) (s : Bool) (m : Nat) (e : Int) (r : Int)
    (h : IntervalYM.mulF64 v (.fin s m e) = .ok r) :
    ∃ q : ℚ, |q - (v : ℚ) * F64.val (.fin s m e)| ≤ 2 ^ (-52 : Int) * |(v : ℚ) * F64.val (.fin s m e)| ∧
      r = truncQ q ∧ IntervalYM.isValidMonths r :=
  outcome_ok (ym_mul_accuracy v hv s m e) r h

/-- **C14, year-month interval ÷ double** (`x ≠ 0`). -/
theorem ym_div_accuracy (v : Int) (hv : IntervalYM.isValidMonths v) (s : Bool) (m : Nat) (e : Int) (hm : m ≠ 0) :
    (∃ q : ℚ, |q - (v : ℚ) / F64.val (.fin s m e)| ≤ 2 ^ (-52 : Int) * |(v : ℚ) / F64.val (.fin s m e)| ∧
      IntervalYM.divF64 v (.fin s m e) =
        if IntervalYM.isValidMonths (truncQ q) then .ok (truncQ q) else .error .IntervalOutOfRange) ∨
    (IntervalYM.divF64 v (.fin s m e) = .error .NumericOverflow ∧
      (2 : ℚ) ^ (1023 : Int) ≤ (1 + F64.u') * |(v : ℚ) / F64.val (.fin s m e)|) := by
  rw [ym_div_outcome v _ (isZero_fin hm)]
  exact (scaled_gate _ _ _ ym_gate.1 ym_gate.2 _ _ _ _ (div_core v (ym_valid_bound hv) s m e hm)).1

theorem ym_div_ok (v : Int) (hv : IntervalYM.isValidMonths v) (s : Bool) (m : Nat) (e : Int) (hm : m ≠ 0) (r : Int)
    (h : IntervalYM.divF64 v (.fin s m e) = .ok r) :
    ∃ q : ℚ, |q - (v : ℚ) / F64.val (.fin s m e)| ≤ 2 ^ (-52 : Int) * |(v : ℚ) / F64.val (.fin s m e)| ∧
      r = truncQ q ∧ IntervalYM.isValidMonths r :=
  outcome_ok (ym_div_accuracy v hv s m e hm) r h

/-! ## 5. C08: `Timestamp::add_days(f64)` -/

theorem u'_le : F64.u' ≤ 2 ^ (-53 : Int) := by rw [u'_eq, e53_eq]; norm_num

theorem tiny_half : (2 : ℚ) ^ (-1021 : Int) < 1 / 2 ∧ (2 : ℚ) ^ (-1022 : Int) < 1 / 2 := by
  have h1 : (2 : ℚ) ^ (-1021 : Int) < 2 ^ (-1 : Int) := two_zpow_lt (by norm_num)
  have h2 : (2 : ℚ) ^ (-1022 : Int) < 2 ^ (-1 : Int) := two_zpow_lt (by norm_num)
  rw [show (2 : ℚ) ^ (-1 : Int) = 1 / 2 by norm_num] at h1 h2
  exact ⟨h1, h2⟩

/-- **(5) C08.** For every valid timestamp `ts` and every finite double `x` (days), with `p = x·86400·10^6` the exact
    offset in microseconds: either there is a rational `q` with `|q − p| ≤ 2^-53·|p|` (the offset computed in double
    precision — ONE rounding) such that the call returns `ts + (q rounded to the nearest microsecond, ties away from
    zero)` exactly when that is a valid timestamp, and `DateOutOfRange` otherwise; or the double product overflowed
    (`NumericOverflow`, only for `|p| ≥ 2^1023`). -/
theorem ts_addDays_accuracy (ts : Int) (hts : isValidTimestamp ts) (s : Bool) (m : Nat) (e : Int) :
    (∃ q : ℚ, |q - F64.val (.fin s m e) * 86400000000| ≤ 2 ^ (-53 : Int) * |F64.val (.fin s m e) * 86400000000| ∧
      Timestamp.addDays ts (.fin s m e) =
        if isValidTimestamp (ts + roundHalfAwayQ q) then .ok (ts + roundHalfAwayQ q) else .error .DateOutOfRange) ∨
    (Timestamp.addDays ts (.fin s m e) = .error .NumericOverflow ∧
      (2 : ℚ) ^ (1023 : Int) ≤ |F64.val (.fin s m e) * 86400000000|) := by
  rcases addDays_core ts hts s m e with ⟨_, h2, h3⟩ | ⟨m', e', _, hR, hrel, htiny⟩
  · exact Or.inr ⟨h2, h3⟩
  · left
    rcases le_or_gt ((2 : ℚ) ^ (-1022 : Int)) |F64.val (.fin s m e) * 86400000000| with hn | hn
    · exact ⟨_, le_trans (hrel hn) (mul_le_mul_of_nonneg_right u'_le (abs_nonneg _)), hR⟩
    · refine ⟨F64.val (.fin s m e) * 86400000000, ?_, ?_⟩
      · rw [sub_self, abs_zero]; have := two_zpow_pos (-53); positivity
      · rw [hR, roundHalfAwayQ_small _ (lt_trans (htiny hn) tiny_half.1),
          roundHalfAwayQ_small _ (lt_trans hn tiny_half.2)]

/-- In the normal range (`|p| ≥ 2^-1022`) the witness is the computed double `fl(x · 86400e6)` itself, and the
    relative error is at most `u' = 2^-53/(1+2^-53)`. -/
theorem ts_addDays_accuracy_normal (ts : Int) (hts : isValidTimestamp ts) (s : Bool) (m : Nat) (e : Int)
    (hn : (2 : ℚ) ^ (-1022 : Int) ≤ |F64.val (.fin s m e) * 86400000000|) :
    (|F64.val (F64.mul (.fin s m e) (F64.ofInt 86400000000)) - F64.val (.fin s m e) * 86400000000| ≤
        F64.u' * |F64.val (.fin s m e) * 86400000000| ∧
      Timestamp.addDays ts (.fin s m e) =
        if isValidTimestamp (ts + roundHalfAwayQ (F64.val (F64.mul (.fin s m e) (F64.ofInt 86400000000))))
        then .ok (ts + roundHalfAwayQ (F64.val (F64.mul (.fin s m e) (F64.ofInt 86400000000))))
        else .error .DateOutOfRange) ∨
    (Timestamp.addDays ts (.fin s m e) = .error .NumericOverflow ∧
      (2 : ℚ) ^ (1023 : Int) ≤ |F64.val (.fin s m e) * 86400000000|) := by
  rcases addDays_core ts hts s m e with ⟨_, h2, h3⟩ | ⟨m', e', hy, hR, hrel, _⟩
  · exact Or.inr ⟨h2, h3⟩
  · left
    have hy' : F64.mul (.fin s m e) (F64.ofInt 86400000000) = .fin s m' e' := hy
    rw [hy']
    exact ⟨hrel hn, hR⟩

/-- The form of the property text: a returned timestamp is `ts` plus the double-precision offset rounded to the nearest
    microsecond; hence it is within `1/2 + 2^-53·|p|` microseconds of the exact `ts + p`. -/
theorem ts_addDays_ok (ts : Int) (hts : isValidTimestamp ts) (s : Bool) (m : Nat) (e : Int) (r : Int)
    (h : Timestamp.addDays ts (.fin s m e) = .ok r) :
    (∃ q : ℚ, |q - F64.val (.fin s m e) * 86400000000| ≤ 2 ^ (-53 : Int) * |F64.val (.fin s m e) * 86400000000| ∧
      r = ts + roundHalfAwayQ q ∧ isValidTimestamp r) ∧
    |(r : ℚ) - (ts : ℚ) - F64.val (.fin s m e) * 86400000000| ≤
      1 / 2 + 2 ^ (-53 : Int) * |F64.val (.fin s m e) * 86400000000| := by
  obtain ⟨q, hc, hr, hv⟩ := outcome_ok (f := fun q => ts + roundHalfAwayQ q) (ts_addDays_accuracy ts hts s m e) r h
  refine ⟨⟨q, hc, hr, hv⟩, ?_⟩
  have h1 := roundHalfAwayQ_err q
  rw [hr]
  have : ((ts + roundHalfAwayQ q : Int) : ℚ) - (ts : ℚ) - F64.val (.fin s m e) * 86400000000 =
      (((roundHalfAwayQ q : Int) : ℚ) - q) + (q - F64.val (.fin s m e) * 86400000000) := by push_cast; ring
  rw [this]
  exact le_trans (abs_add_le _ _) (add_le_add h1 hc)

/-- The error cases of `add_days` on a finite offset. -/
theorem ts_addDays_err (ts : Int) (hts : isValidTimestamp ts) (s : Bool) (m : Nat) (e : Int) (err : Err)
    (h : Timestamp.addDays ts (.fin s m e) = .error err) :
    (err = .DateOutOfRange ∧ ∃ q : ℚ,
      |q - F64.val (.fin s m e) * 86400000000| ≤ 2 ^ (-53 : Int) * |F64.val (.fin s m e) * 86400000000| ∧
      ¬ isValidTimestamp (ts + roundHalfAwayQ q)) ∨
    (err = .NumericOverflow ∧ (2 : ℚ) ^ (1023 : Int) ≤ |F64.val (.fin s m e) * 86400000000|) :=
  outcome_err (f := fun q => ts + roundHalfAwayQ q) (ts_addDays_accuracy ts hts s m e) err h

/-! ## 6. C16: `oracle::Date::add_days(f64)` -/

/-- **(6a)** `round_to_second` is the nearest multiple of one second (10^6 µs), ties away from zero. -/
theorem roundToSecond_spec (u : Int) :
    OracleDate.roundToSecond u = 1000000 * roundHalfAwayQ ((u : ℚ) / 1000000) := roundToSecond_eq u

/-- **(6b) C16.** `oracle::Date::add_days(od, x)` is the C08 result rounded to the nearest second: with `q` the
    double-precision offset (`|q − p| ≤ 2^-53·|p|`, `p = x·86400·10^6`) and `t = od + round(q)`, the call returns
    `roundSecQ t` when both `t` and `roundSecQ t` are valid timestamps, and `DateOutOfRange` otherwise
    (or `NumericOverflow` when the double product overflowed). -/
theorem od_addDays_accuracy (od : Int) (hod : isValidTimestamp od) (s : Bool) (m : Nat) (e : Int) :
    (∃ q : ℚ, |q - F64.val (.fin s m e) * 86400000000| ≤ 2 ^ (-53 : Int) * |F64.val (.fin s m e) * 86400000000| ∧
      OracleDate.addDays od (.fin s m e) =
        if isValidTimestamp (od + roundHalfAwayQ q) ∧ isValidTimestamp (roundSecQ (od + roundHalfAwayQ q))
        then .ok (roundSecQ (od + roundHalfAwayQ q)) else .error .DateOutOfRange) ∨
    (OracleDate.addDays od (.fin s m e) = .error .NumericOverflow ∧
      (2 : ℚ) ^ (1023 : Int) ≤ |F64.val (.fin s m e) * 86400000000|) := by
  rw [od_addDays_eq]
  rcases ts_addDays_accuracy od hod s m e with ⟨q, hc, hR⟩ | ⟨hR, hb⟩
  · left
    refine ⟨q, hc, ?_⟩
    rw [hR]
    by_cases h1 : isValidTimestamp (od + roundHalfAwayQ q)
    · rw [if_pos h1]
      by_cases h2 : isValidTimestamp (roundSecQ (od + roundHalfAwayQ q))
      · simp only [h2, if_true, h1, and_self]
      · simp only [h2, if_false, and_false]
    · rw [if_neg h1, if_neg (fun h => h1 h.1)]
  · right; rw [hR]; exact ⟨rfl, hb⟩

/-- A returned Oracle date is a whole second within half a second of `od + round(q)`. -/
theorem od_addDays_ok (od : Int) (hod : isValidTimestamp od) (s : Bool) (m : Nat) (e : Int) (r : Int)
    (h : OracleDate.addDays od (.fin s m e) = .ok r) :
    ∃ q : ℚ, |q - F64.val (.fin s m e) * 86400000000| ≤ 2 ^ (-53 : Int) * |F64.val (.fin s m e) * 86400000000| ∧
      r = roundSecQ (od + roundHalfAwayQ q) ∧ isValidTimestamp (od + roundHalfAwayQ q) ∧ isValidTimestamp r ∧
      |(r : ℚ) - ((od + roundHalfAwayQ q : Int) : ℚ)| ≤ 500000 := by
  rcases od_addDays_accuracy od hod s m e with ⟨q, hc, hR⟩ | ⟨hR, _⟩
  · rw [h] at hR
    by_cases hv : isValidTimestamp (od + roundHalfAwayQ q) ∧ isValidTimestamp (roundSecQ (od + roundHalfAwayQ q))
    · rw [if_pos hv] at hR; cases hR
      refine ⟨q, hc, rfl, hv.1, hv.2, ?_⟩
      have := roundHalfAwayQ_err (((od + roundHalfAwayQ q : Int) : ℚ) / 1000000)
      unfold roundSecQ
      rw [abs_le] at this ⊢
      push_cast at this ⊢
      constructor <;> linarith [this.1, this.2]
    · rw [if_neg hv] at hR; cases hR
  · rw [h] at hR; cases hR

end Accuracy
end SqlDt
