/-
  Lemmas/ReadingFields: the whole field loop — `parseFields` on the text of a fitting, delimited reading follows
  `Spec.collect`, item by item.
-/
import SqlDt.Lemmas.ReadingStep
namespace SqlDt.Lemmas
open SqlDt Gen Spec Parser

/-! ### from the Boolean `itemOK` to the facts used by the step lemma -/

def blankish (l : Lex) : Bool := match l with | .omitted => true | .blank _ => true | _ => false

theorem eatWs_blankish (tb : Nat) : ∀ (later : List (Field × Lex)), later.all (fun q => blankish q.2) = true →
    eatWhitespaces (write later tb) = []
  | [], _ => by simp [write, writeItems, eatWs_spaces_only]
  | (f, l) :: later, h => by
    simp only [List.all_cons, Bool.and_eq_true] at h
    have ih := eatWs_blankish tb later h.2
    unfold write at ih ⊢
    cases l <;> simp [blankish] at h
    · simp only [writeItems, Lex.text, List.append_assoc, eatWs_spaces]; exact ih
    · simp only [writeItems, Lex.text, List.nil_append]; exact ih

theorem localOK_of_itemOK (ty : Ty) (f : Field) (l : Lex) (later : List (Field × Lex)) (tb : Nat)
    (h : itemOK ty f l later (writeItems later) = true) : LocalOK ty f l (write later tb) := by
  refine ⟨?_, ?_, ?_, ?_⟩
  · intro b sg z n hl; subst hl
    simp only [itemOK, Bool.or_eq_true, beq_iff_eq, Bool.not_eq_true'] at h
    rcases h with h | h
    · exact Or.inl (by rw [numDigits_length]; exact h)
    · exact Or.inr ((noDigitHead_iff _).2 (by unfold write; rw [nextIsDigit_append_spaces]; exact h))
  · intro b ds hl; subst hl
    simp only [itemOK, Bool.or_eq_true, beq_iff_eq, Bool.not_eq_true'] at h
    rcases h with h | h
    · exact Or.inl (by simpa [fracBytes] using h)
    · exact Or.inr ((noDigitHead_iff _).2 (by unfold write; rw [nextIsDigit_append_spaces]; exact h))
  · intro b k mask hl hm; subst hl
    have hfn : fullName f k = monthNames.getD (k - 1) [] := by
      cases f <;> simp [isMonthToken] at hm <;> rfl
    simp only [itemOK, hm, Bool.not_true, Bool.false_or, Bool.or_eq_true, decide_eq_true_eq, Bool.not_eq_true', hfn] at h
    rcases h with h | h
    · exact Or.inl h
    · by_cases hk : k - 1 < 12
      · right
        unfold write
        rw [startsWithCI_append_spaces _ _ _ (month_tail_noblank (k - 1) hk)]; exact h
      · left
        have : monthNames.getD (k - 1) [] = [] := by
          rw [List.getD_eq_getElem?_getD, List.getElem?_eq_none (by simp [monthNames]; omega)]; rfl
        rw [this]; simp
  · intro hl; subst hl
    simp only [itemOK] at h
    apply eatWs_blankish tb later
    rw [List.all_eq_true] at h ⊢
    intro q hq
    have := h q hq
    unfold blankish
    split at this <;> simp_all

/-! ### a written meridian is a seen meridian: invariant -/

def isHM (f : Field) : Bool := match f with | .Hour24 => true | .AmPm _ => true | _ => false

def MerInv (p : Parts) : Prop := p.meridian.isSome = true → p.meridianSeen = true

theorem step_meridian (ty : Ty) (now : Clock) (p p' : Parts) (f : Field) (l : Lex) (h : step ty now p f l = some p') :
    (isHM f = false ∨ f = .Hour24 → p'.meridianSeen = p.meridianSeen ∧ p'.meridian = p.meridian) ∧
    (∀ st, f = .AmPm st → p'.meridianSeen = true) := by
  unfold step at h
  split at h
  · cases h
  · cases f <;> cases l <;> simp only [] at h <;>
      (try (repeat' split at h)) <;> (try cases h) <;> simp_all [isHM]

theorem merInv_step (ty : Ty) (now : Clock) (p p' : Parts) (f : Field) (l : Lex)
    (hstep : step ty now p f l = some p') (hg : MerInv p) : MerInv p' := by
  obtain ⟨h1, h2⟩ := step_meridian ty now p p' f l hstep
  by_cases hf : isHM f = false
  · obtain ⟨a, b⟩ := h1 (Or.inl hf)
    unfold MerInv; rw [a, b]; exact hg
  · have hf' : isHM f = true := by simpa using hf
    cases f <;> simp [isHM] at hf'
    · obtain ⟨a, b⟩ := h1 (Or.inr rfl)
      unfold MerInv; rw [a, b]; exact hg
    · rename_i st
      intro _; exact h2 st rfl

/-! ### the loop -/

theorem fields_sound (ty : Ty) (now : Clock) (tb : Nat) : ∀ (items : List (Field × Lex)) (p : Parts) (s : Bytes) (r : Nat),
    (∀ q ∈ items, Field.WellFormed q.1) → (∀ q ∈ items, q.2.fits ty q.1 = true) → delimitedFrom ty items = true →
    MerInv p → eatWhitespaces s = eatWhitespaces (write items tb) →
    match collect ty now p items with
    | some p' => ∃ s' r', parseFields ty now (conc ty p s r) (items.map Prod.fst) = .ok (conc ty p' s' r') ∧
        eatWhitespaces s' = []
    | none => ∃ e, parseFields ty now (conc ty p s r) (items.map Prod.fst) = .error e
  | [], p, s, r, _, _, _, _, hs => by
    simp only [collect, List.map_nil, parseFields]
    exact ⟨s, r, rfl, by rw [hs]; simp [write, writeItems, eatWs_spaces_only]⟩
  | (f, l) :: later, p, s, r, hwf, hfit, hdel, hg, hs => by
    simp only [delimitedFrom, Bool.and_eq_true] at hdel
    have hloc := localOK_of_itemOK ty f l later tb hdel.1
    have hs' : eatWhitespaces s = eatWhitespaces (l.text f ++ write later tb) := by
      rw [hs]; simp [write, writeItems, List.append_assoc]
    have hstep := step_sound ty now p s r f l (write later tb) (hwf (f, l) (by simp)) (hfit (f, l) (by simp)) hloc hg hs'
    unfold StepGoal at hstep
    simp only [collect, List.map_cons, parseFields, bind, Except.bind]
    cases hst : step ty now p f l with
    | none =>
      simp only [hst] at hstep
      obtain ⟨e, he⟩ := hstep
      simp only [Option.bind_none, he]
      exact ⟨e, rfl⟩
    | some p1 =>
      simp only [hst] at hstep
      obtain ⟨s1, r1, he, hs1⟩ := hstep
      simp only [Option.bind_some, he]
      exact fields_sound ty now tb later p1 s1 r1 (fun q hq => hwf q (by simp [hq])) (fun q hq => hfit q (by simp [hq]))
        hdel.2 (merInv_step ty now p p1 f l hst hg) hs1

end SqlDt.Lemmas
