import SqlDt.Translated
import SqlDt.Lemmas.TrAttr
import SqlDt.Lemmas.Div
import SqlDt.Model.Parse
set_option linter.unusedVariables false
set_option linter.unusedSimpArgs false
namespace SqlDt.TrEq
open SqlDt SqlDt.Gen SqlDt.TrTactic

theorem asI32_eq {x : Int} (h1 : -2147483648 ≤ x) (h2 : x ≤ 2147483647) : asI32 x = x := by
  unfold asI32; simp only []; split <;> omega
theorem asU32_eq {x : Int} (h1 : 0 ≤ x) (h2 : x ≤ 4294967295) : asU32 x = x := by
  unfold asU32; omega
theorem asU64_eq {x : Int} (h1 : 0 ≤ x) (h2 : x ≤ 18446744073709551615) : Tr.asU64 x = x := by
  unfold Tr.asU64; omega
theorem asI64_eq {x : Int} (h1 : -9223372036854775808 ≤ x) (h2 : x ≤ 9223372036854775807) : Tr.asI64 x = x := by
  unfold Tr.asI64; simp only []; split <;> omega

macro "tr_split" : tactic => `(tactic| repeat' (first | with_reducible rfl | dsimp only at * | split))

macro "tr_consts1" : tactic => `(tactic| simp only [MONTHS_PER_YEAR, HOURS_PER_DAY, MINUTES_PER_HOUR,
  SECONDS_PER_MINUTE, USECONDS_MAX, USECONDS_PER_DAY, USECONDS_PER_HOUR, USECONDS_PER_MINUTE, USECONDS_PER_SECOND,
  DATE_MIN_YEAR, DATE_MAX_YEAR, INTERVAL_MAX_YEAR, INTERVAL_MAX_DAY, INTERVAL_MAX_MONTH, INTERVAL_MAX_USECONDS,
  UNIX_EPOCH_DOW, SqlDt.UNIX_EPOCH_JULIAN_eq, SqlDt.DATE_MIN_JULIAN_eq, SqlDt.DATE_MAX_JULIAN_eq,
  SqlDt.DATE_MIN_DAYS_eq, SqlDt.DATE_MAX_DAYS_eq, SqlDt.TIMESTAMP_MIN_eq, SqlDt.TIMESTAMP_MAX_eq,
  DAYS_OF_MONTH_TABLE, SUM_OF_DAYS_TABLE, isValidDate, isValidTimestamp, isValidTime, IntervalYM.isValidMonths,
  IntervalDT.isValidUsecs, OracleDate.isValidDate] at *)
macro "tr_consts" : tactic => `(tactic| try tr_consts1)

macro "tr_bool" : tactic => `(tactic| (
  try rw [Bool.eq_iff_iff]
  try simp only [Bool.and_eq_true, Bool.or_eq_true, Bool.not_eq_true', beq_iff_eq, bne_iff_ne, decide_eq_true_eq,
    decide_eq_decide]))

macro "tr_close" : tactic => `(tactic| first
  | done
  | with_reducible rfl
  | omega
  | ((repeat' apply And.intro) <;> first | with_reducible rfl | omega)
  | (tr_bool; first | done | omega | (apply Iff.intro <;> intro _ <;> omega))
  | tr_congr_omega
  | (simp_all; done)
  | (simp_all [Time.validateHms, Time.tryFromHms, Time.tryFromUsecs, Date.validateYmd, Date.tryFromYmd, Date.tryFromDays,
      Timestamp.tryFromUsecs, IntervalYM.tryFromMonths, IntervalDT.tryFromUsecs, OracleDate.tryFromUsecs,
      MONTHS_PER_YEAR, HOURS_PER_DAY, MINUTES_PER_HOUR, SECONDS_PER_MINUTE, USECONDS_MAX, DATE_MIN_YEAR, DATE_MAX_YEAR]
     <;> omega))

macro "tr_casts1" : tactic => `(tactic| simp (disch := omega) only [tr_eq, asI32_eq, asU32_eq, asU64_eq, asI64_eq,
  rdiv_nonneg_eq, rdiv_neg_eq, rrem_nonneg_eq, rrem_neg_eq] at *)
macro "tr_casts" : tactic => `(tactic| try tr_casts1)

/-- A leaf of the case split: numerals for the constants, casts and `rdiv`/`rrem` resolved by the sign and range
    facts of the branch (or unfolded and split further), then linear arithmetic. -/
macro "tr_fin" : tactic => `(tactic| (
  tr_consts
  tr_casts
  tr_consts
  try tr_abstract
  tr_casts
  tr_consts
  try simp only [Tr.asU64, Tr.asI64, Tr.absI64, Tr.absI32, Tr.absI, Tr.uabs, Tr.signum, Tr.cmpInt] at *
  tr_split
  all_goals try simp only [Prod.mk.injEq, Except.ok.injEq, Except.error.injEq, Option.some.injEq, reduceCtorEq,
    decide_eq_decide, decide_eq_true_eq, true_and, and_true] at *
  all_goals tr_close))

/-- Second chance for a leaf: a refactoring may express one model function through another
    (`date()` as `extract().0`), so unfold the small arithmetic functions of the model as well. -/
macro "tr_model" : tactic => `(tactic| simp only [Timestamp.new, Timestamp.extract, Timestamp.date, Timestamp.time,
  Timestamp.subTimestamp, Timestamp.subDate, Timestamp.tryFromUsecs, Time.fromHmsUnchecked, Time.extract, Time.subTime,
  Time.addIntervalDt, Time.subIntervalDt, Time.fromIntervalDt, Time.tryFromUsecs, Time.hour, Timestamp.hour, IntervalYM.negate, IntervalYM.extract,
  IntervalYM.tryFromMonths, IntervalDT.negate, IntervalDT.extract, IntervalDT.fromDhmsUnchecked, IntervalDT.tryFromUsecs,
  Date.fromYmdUnchecked, Date.subDate, Date.dayOfWeek, Date.tryFromDays, OracleDate.new, OracleDate.fromTimestamp,
  OracleDate.tryFromUsecs, OracleDate.subDays, Timestamp.subDays, checkedI32, checkedI64, fitsI32, fitsI64, I32_MIN, I32_MAX, I64_MIN, I64_MAX] at *)

/-- Evaluate closed calls of `date2julian` (a constant written as a call). -/
macro "tr_eval" : tactic => `(tactic| simp only [date2julian, rdiv, Int.reduceAdd, Int.reduceSub, Int.reduceMul,
  Int.reduceDiv, Int.reduceNeg, Int.reduceLE, Int.reduceLT, Int.reduceGT, Int.reduceGE, ↓reduceIte] at *)

/-- Exhaustive normalisation of a leaf: split, unfold model functions, numerals, casts by range, signed division
    by sign, and only then the definitions of casts and `rdiv`/`rrem`; repeated until nothing applies. -/
macro "tr_deep" : tactic => `(tactic| (
  repeat' (first
    | with_reducible rfl
    | dsimp only at *
    | split
    | tr_split_hyp
    | simp only [reduceCtorEq, Except.ok.injEq, Except.error.injEq, Option.some.injEq] at *
    | tr_model
    | tr_consts1
    | tr_casts1
    | tr_abstract1
    | simp only [Tr.asU64, Tr.asI64, Tr.absI64, Tr.absI32, Tr.absI, Tr.uabs, Tr.signum, Tr.cmpInt] at *
    | tr_eval)
  all_goals try simp only [Prod.mk.injEq, Except.ok.injEq, Except.error.injEq, Option.some.injEq, reduceCtorEq,
    decide_eq_decide, decide_eq_true_eq, true_and, and_true] at *
  all_goals tr_close))

macro "tr_leaf" : tactic => `(tactic| first
  | tr_fin
  | tr_deep)

macro "tr_auto" : tactic => `(tactic| (
  try simp only [bind, Except.bind, pure, Except.pure]
  try simp (disch := omega) only [tr_eq, decide_eq_true_eq]
  -- inside `first` error recovery is off: the first leaf that cannot be closed ends the attempt (a wrong
  -- translation fails fast instead of grinding through every remaining case)
  first
  | (tr_split; all_goals tr_leaf)
  | fail "tr_auto: a case of the split could not be closed"))


/-! ## common.rs -/

@[tr_eq] theorem date2julian_eq (year month day : Int) (hm0 : 0 ≤ month) (hm1 : month ≤ 2147483634)
    (hd0 : 0 ≤ day) (hd1 : day ≤ 2147483647) :
    Tr.date2julian year month day = date2julian year month day := by
  unfold Tr.date2julian date2julian
  tr_auto

@[tr_eq] theorem julian2date_eq (j : Int) (h0 : 0 ≤ j) (h1 : j ≤ 2147483647) :
    Tr.julian2date j = julian2date j := by
  unfold Tr.julian2date julian2date
  tr_auto

@[tr_eq] theorem is_leap_year_eq (y : Int) : Tr.is_leap_year y = isLeapYear y := by
  unfold Tr.is_leap_year isLeapYear
  tr_auto

@[tr_eq] theorem UNIX_EPOCH_JULIAN_eq : Tr.UNIX_EPOCH_JULIAN = UNIX_EPOCH_JULIAN := by decide
@[tr_eq] theorem DATE_MIN_JULIAN_eq : Tr.DATE_MIN_JULIAN = DATE_MIN_JULIAN := by decide
@[tr_eq] theorem DATE_MAX_JULIAN_eq : Tr.DATE_MAX_JULIAN = DATE_MAX_JULIAN := by decide
@[tr_eq] theorem TIMESTAMP_MIN_eq : Tr.TIMESTAMP_MIN = TIMESTAMP_MIN := by decide
@[tr_eq] theorem TIMESTAMP_MAX_eq : Tr.TIMESTAMP_MAX = TIMESTAMP_MAX := by decide

@[tr_eq] theorem is_valid_date_eq (d : Int) : Tr.is_valid_date d = decide (isValidDate d) := by
  unfold Tr.is_valid_date isValidDate
  tr_auto

@[tr_eq] theorem is_valid_timestamp_eq (t : Int) : Tr.is_valid_timestamp t = decide (isValidTimestamp t) := by
  unfold Tr.is_valid_timestamp isValidTimestamp
  tr_auto

@[tr_eq] theorem is_valid_time_eq (t : Int) : Tr.is_valid_time t = decide (isValidTime t) := by
  unfold Tr.is_valid_time isValidTime
  tr_auto

@[tr_eq] theorem days_of_month_eq (y m : Int) : Tr.days_of_month y m = daysOfMonth y m := by
  unfold Tr.days_of_month daysOfMonth
  tr_auto

@[tr_eq] theorem the_day_of_year_eq (y m d : Int) : Tr.the_day_of_year y m d = theDayOfYear y m d := by
  unfold Tr.the_day_of_year theDayOfYear
  tr_auto

/-! ## time.rs -/

@[tr_eq] theorem Time.from_hms_unchecked_eq (h mi s us : Int) :
    Tr.Time.from_hms_unchecked h mi s us = Time.fromHmsUnchecked h mi s us := by
  unfold Tr.Time.from_hms_unchecked Time.fromHmsUnchecked
  tr_auto

@[tr_eq] theorem Time.validate_hms_eq (h mi s : Int) :
    Tr.Time.validate_hms h mi s = Time.validateHms h mi s := by
  unfold Tr.Time.validate_hms Time.validateHms
  tr_auto

@[tr_eq] theorem Time.try_from_hms_eq (h mi s us : Int) :
    Tr.Time.try_from_hms h mi s us = Time.tryFromHms h mi s us := by
  unfold Tr.Time.try_from_hms Time.tryFromHms
  tr_auto

@[tr_eq] theorem Time.is_valid_eq (h mi s us : Int) :
    Tr.Time.is_valid h mi s us = Time.isValid h mi s us := by
  unfold Tr.Time.is_valid Time.isValid
  tr_auto

@[tr_eq] theorem Time.try_from_usecs_eq (u : Int) :
    Tr.Time.try_from_usecs u = Time.tryFromUsecs u := by
  unfold Tr.Time.try_from_usecs Time.tryFromUsecs
  tr_auto

@[tr_eq] theorem Time.extract_eq (t : Int) (ht0 : 0 ≤ t) (ht1 : t ≤ 9223372036854775807) :
    Tr.Time.extract t = Time.extract t := by
  unfold Tr.Time.extract Time.extract
  tr_auto

@[tr_eq] theorem Time.sub_time_eq (a b : Int) :
    Tr.Time.sub_time a b = Time.subTime a b := by
  unfold Tr.Time.sub_time Time.subTime
  tr_auto

@[tr_eq] theorem IntervalDT.negate_eq (v : Int) :
    Tr.IntervalDT.negate v = IntervalDT.negate v := by
  unfold Tr.IntervalDT.negate IntervalDT.negate
  tr_auto

@[tr_eq] theorem IntervalYM.negate_eq (v : Int) :
    Tr.IntervalYM.negate v = IntervalYM.negate v := by
  unfold Tr.IntervalYM.negate IntervalYM.negate
  tr_auto

@[tr_eq] theorem Time.add_interval_dt_eq (t i : Int) (ht0 : 0 ≤ t) (ht1 : t < 86400000000) :
    Tr.Time.add_interval_dt t i = Time.addIntervalDt t i := by
  unfold Tr.Time.add_interval_dt Time.addIntervalDt
  tr_auto

@[tr_eq] theorem Time.sub_interval_dt_eq (t i : Int) (ht0 : 0 ≤ t) (ht1 : t < 86400000000) :
    Tr.Time.sub_interval_dt t i = Time.subIntervalDt t i := by
  unfold Tr.Time.sub_interval_dt Time.subIntervalDt
  tr_auto

@[tr_eq] theorem Time.from_interval_dt_eq (i : Int) (hi : -9223372036854775808 < i) :
    Tr.Time.from_interval_dt i = Time.fromIntervalDt i := by
  unfold Tr.Time.from_interval_dt Time.fromIntervalDt
  tr_auto


/-! ## timestamp.rs -/

@[tr_eq] theorem Timestamp.new_eq (d t : Int) :
    Tr.Timestamp.new d t = Timestamp.new d t := by
  unfold Tr.Timestamp.new Timestamp.new
  tr_auto

@[tr_eq] theorem Timestamp.extract_eq (ts : Int) (hts0 : -9223372036854775808 ≤ ts) (hts1 : ts ≤ 9223372036854775807) :
    Tr.Timestamp.extract ts = Timestamp.extract ts := by
  unfold Tr.Timestamp.extract Timestamp.extract
  tr_auto

@[tr_eq] theorem Timestamp.date_eq (ts : Int) (hts0 : -9223372036854775808 ≤ ts) (hts1 : ts ≤ 9223372036854775807) :
    Tr.Timestamp.date ts = Timestamp.date ts := by
  unfold Tr.Timestamp.date Timestamp.date
  tr_auto

@[tr_eq] theorem Timestamp.time_eq (ts : Int) :
    Tr.Timestamp.time ts = Timestamp.time ts := by
  unfold Tr.Timestamp.time Timestamp.time
  tr_auto

@[tr_eq] theorem Timestamp.try_from_usecs_eq (u : Int) :
    Tr.Timestamp.try_from_usecs u = Timestamp.tryFromUsecs u := by
  unfold Tr.Timestamp.try_from_usecs Timestamp.tryFromUsecs
  tr_auto

@[tr_eq] theorem Timestamp.add_interval_dt_eq (ts i : Int) :
    Tr.Timestamp.add_interval_dt ts i = Timestamp.addIntervalDt ts i := by
  unfold Tr.Timestamp.add_interval_dt Timestamp.addIntervalDt
  tr_auto

@[tr_eq] theorem Timestamp.sub_interval_dt_eq (ts i : Int) :
    Tr.Timestamp.sub_interval_dt ts i = Timestamp.subIntervalDt ts i := by
  unfold Tr.Timestamp.sub_interval_dt Timestamp.subIntervalDt
  tr_auto

@[tr_eq] theorem Timestamp.add_time_eq (ts t : Int) :
    Tr.Timestamp.add_time ts t = Timestamp.addTime ts t := by
  unfold Tr.Timestamp.add_time Timestamp.addTime
  tr_auto

@[tr_eq] theorem Timestamp.sub_time_eq (ts t : Int) :
    Tr.Timestamp.sub_time ts t = Timestamp.subTime ts t := by
  unfold Tr.Timestamp.sub_time Timestamp.subTime
  tr_auto

@[tr_eq] theorem Timestamp.sub_timestamp_eq (a b : Int) :
    Tr.Timestamp.sub_timestamp a b = Timestamp.subTimestamp a b := by
  unfold Tr.Timestamp.sub_timestamp Timestamp.subTimestamp
  tr_auto

@[tr_eq] theorem Date.and_zero_time_eq (d : Int) :
    Tr.Date.and_zero_time d = Timestamp.new d 0 := by
  -- (an UNTRANSLATED alias of the model is closed by the first alternative)
  first
  | (unfold Tr.Date.and_zero_time; with_reducible rfl)
  | (
    unfold Tr.Date.and_zero_time
    simp only [Time.from_hms_unchecked_eq, Time.fromHmsUnchecked]
    tr_auto)

@[tr_eq] theorem Date.and_time_eq (d t : Int) :
    Tr.Date.and_time d t = Timestamp.new d t := by
  unfold Tr.Date.and_time
  tr_auto

@[tr_eq] theorem Timestamp.sub_date_eq (ts d : Int) :
    Tr.Timestamp.sub_date ts d = Timestamp.subDate ts d := by
  unfold Tr.Timestamp.sub_date Timestamp.subDate
  tr_auto


/-! ## interval.rs -/

@[tr_eq] theorem IntervalYM.from_ym_unchecked_eq (y m : Int) (h0 : -2147483648 ≤ y * 12 + m) (h1 : y * 12 + m ≤ 2147483647) :
    Tr.IntervalYM.from_ym_unchecked y m = y * MONTHS_PER_YEAR + m := by
  unfold Tr.IntervalYM.from_ym_unchecked
  tr_auto

@[tr_eq] theorem IntervalYM.try_from_ym_eq (y m : Int) (hy0 : 0 ≤ y) (hm0 : 0 ≤ m) :
    Tr.IntervalYM.try_from_ym y m = IntervalYM.tryFromYm y m := by
  unfold Tr.IntervalYM.try_from_ym IntervalYM.tryFromYm
  tr_auto

@[tr_eq] theorem IntervalYM.is_valid_ym_eq (y m : Int) :
    Tr.IntervalYM.is_valid_ym y m = IntervalYM.isValidYm y m := by
  unfold Tr.IntervalYM.is_valid_ym IntervalYM.isValidYm
  tr_auto

@[tr_eq] theorem IntervalYM.is_valid_months_eq (m : Int) :
    Tr.IntervalYM.is_valid_months m = decide (IntervalYM.isValidMonths m) := by
  unfold Tr.IntervalYM.is_valid_months IntervalYM.isValidMonths
  tr_auto

@[tr_eq] theorem IntervalYM.try_from_months_eq (m : Int) :
    Tr.IntervalYM.try_from_months m = IntervalYM.tryFromMonths m := by
  unfold Tr.IntervalYM.try_from_months IntervalYM.tryFromMonths
  tr_auto

@[tr_eq] theorem IntervalYM.extract_eq (v : Int) (hv0 : -2147483648 ≤ v) (hv1 : v ≤ 2147483647) :
    Tr.IntervalYM.extract v = IntervalYM.extract v := by
  unfold Tr.IntervalYM.extract IntervalYM.extract
  tr_auto

@[tr_eq] theorem IntervalYM.add_interval_ym_eq (a b : Int) :
    Tr.IntervalYM.add_interval_ym a b = IntervalYM.addIntervalYm a b := by
  unfold Tr.IntervalYM.add_interval_ym IntervalYM.addIntervalYm
  tr_auto

@[tr_eq] theorem IntervalYM.sub_interval_ym_eq (a b : Int) :
    Tr.IntervalYM.sub_interval_ym a b = IntervalYM.subIntervalYm a b := by
  unfold Tr.IntervalYM.sub_interval_ym IntervalYM.subIntervalYm
  tr_auto

@[tr_eq] theorem IntervalDT.from_dhms_unchecked_eq (d h mi s us : Int) :
    Tr.IntervalDT.from_dhms_unchecked d h mi s us = IntervalDT.fromDhmsUnchecked d h mi s us := by
  unfold Tr.IntervalDT.from_dhms_unchecked IntervalDT.fromDhmsUnchecked
  tr_auto

@[tr_eq] theorem IntervalDT.try_from_dhms_eq (d h mi s us : Int) (hd0 : 0 ≤ d) (hd1 : d ≤ 4294967295) :
    Tr.IntervalDT.try_from_dhms d h mi s us = IntervalDT.tryFromDhms d h mi s us := by
  unfold Tr.IntervalDT.try_from_dhms IntervalDT.tryFromDhms
  tr_auto

@[tr_eq] theorem IntervalDT.is_valid_eq (d h mi s us : Int) (hd0 : 0 ≤ d) (hd1 : d ≤ 4294967295) :
    Tr.IntervalDT.is_valid d h mi s us = IntervalDT.isValid d h mi s us := by
  unfold Tr.IntervalDT.is_valid IntervalDT.isValid
  tr_auto

@[tr_eq] theorem IntervalDT.is_valid_usecs_eq (u : Int) :
    Tr.IntervalDT.is_valid_usecs u = decide (IntervalDT.isValidUsecs u) := by
  unfold Tr.IntervalDT.is_valid_usecs IntervalDT.isValidUsecs
  tr_auto

@[tr_eq] theorem IntervalDT.try_from_usecs_eq (u : Int) :
    Tr.IntervalDT.try_from_usecs u = IntervalDT.tryFromUsecs u := by
  unfold Tr.IntervalDT.try_from_usecs IntervalDT.tryFromUsecs
  tr_auto

@[tr_eq] theorem IntervalDT.extract_eq (v : Int) (hv0 : -9223372036854775808 ≤ v) (hv1 : v ≤ 9223372036854775807) :
    Tr.IntervalDT.extract v = IntervalDT.extract v := by
  unfold Tr.IntervalDT.extract IntervalDT.extract
  tr_auto

@[tr_eq] theorem IntervalDT.add_interval_dt_eq (a b : Int) :
    Tr.IntervalDT.add_interval_dt a b = IntervalDT.addIntervalDt a b := by
  unfold Tr.IntervalDT.add_interval_dt IntervalDT.addIntervalDt
  tr_auto

@[tr_eq] theorem IntervalDT.sub_interval_dt_eq (a b : Int) :
    Tr.IntervalDT.sub_interval_dt a b = IntervalDT.subIntervalDt a b := by
  unfold Tr.IntervalDT.sub_interval_dt IntervalDT.subIntervalDt
  tr_auto

@[tr_eq] theorem IntervalDT.sub_time_eq (v t : Int) :
    Tr.IntervalDT.sub_time v t = IntervalDT.subTime v t := by
  unfold Tr.IntervalDT.sub_time IntervalDT.subTime
  tr_auto

/-! ## date.rs -/

@[tr_eq] theorem Date.from_ymd_unchecked_eq (y m d : Int) (hm0 : 0 ≤ m) (hm1 : m ≤ 2147483634) (hd0 : 0 ≤ d) (hd1 : d ≤ 2147483647) :
    Tr.Date.from_ymd_unchecked y m d = Date.fromYmdUnchecked y m d := by
  unfold Tr.Date.from_ymd_unchecked Date.fromYmdUnchecked
  tr_auto

@[tr_eq] theorem Date.validate_ymd_eq (y m d : Int) :
    Tr.Date.validate_ymd y m d = Date.validateYmd y m d := by
  unfold Tr.Date.validate_ymd Date.validateYmd
  tr_auto

@[tr_eq] theorem Date.try_from_ymd_eq (y m d : Int) :
    Tr.Date.try_from_ymd y m d = Date.tryFromYmd y m d := by
  unfold Tr.Date.try_from_ymd Date.tryFromYmd
  tr_auto

@[tr_eq] theorem Date.is_valid_eq (y m d : Int) :
    Tr.Date.is_valid y m d = Date.isValid y m d := by
  unfold Tr.Date.is_valid Date.isValid
  tr_auto

@[tr_eq] theorem Date.try_from_days_eq (d : Int) :
    Tr.Date.try_from_days d = Date.tryFromDays d := by
  unfold Tr.Date.try_from_days Date.tryFromDays
  tr_auto

@[tr_eq] theorem Date.extract_eq (d : Int) (h0 : -2440588 ≤ d) (h1 : d ≤ 2145043059) :
    Tr.Date.extract d = Date.extract d := by
  unfold Tr.Date.extract Date.extract
  tr_auto

@[tr_eq] theorem Date.and_hms_eq (d h mi s us : Int) :
    Tr.Date.and_hms d h mi s us = Timestamp.andHms d h mi s us := by
  unfold Tr.Date.and_hms Timestamp.andHms
  tr_auto

@[tr_eq] theorem Date.add_days_eq (d k : Int) :
    Tr.Date.add_days d k = Date.addDays d k := by
  unfold Tr.Date.add_days Date.addDays
  tr_auto

@[tr_eq] theorem Date.sub_days_eq (d k : Int) :
    Tr.Date.sub_days d k = Date.subDays d k := by
  unfold Tr.Date.sub_days Date.subDays
  tr_auto

@[tr_eq] theorem Date.sub_date_eq (a b : Int) :
    Tr.Date.sub_date a b = Date.subDate a b := by
  unfold Tr.Date.sub_date Date.subDate
  tr_auto

@[tr_eq] theorem Date.day_of_week_eq (d : Int) :
    Tr.Date.day_of_week d = Date.dayOfWeek d := by
  unfold Tr.Date.day_of_week Date.dayOfWeek
  tr_auto


/-! ## oracle.rs -/

@[tr_eq] theorem OracleDate.new_eq (d t : Int) :
    Tr.OracleDate.new d t = OracleDate.new d t := by
  unfold Tr.OracleDate.new OracleDate.new
  tr_auto

@[tr_eq] theorem OracleDate.is_valid_date_eq (u : Int) :
    Tr.OracleDate.is_valid_date u = decide (OracleDate.isValidDate u) := by
  unfold Tr.OracleDate.is_valid_date
  tr_auto

@[tr_eq] theorem OracleDate.try_from_usecs_eq (u : Int) :
    Tr.OracleDate.try_from_usecs u = OracleDate.tryFromUsecs u := by
  unfold Tr.OracleDate.try_from_usecs OracleDate.tryFromUsecs
  tr_auto

@[tr_eq] theorem OracleDate.from_timestamp_eq (ts : Int) :
    Tr.OracleDate.from_timestamp ts = OracleDate.fromTimestamp ts := by
  unfold Tr.OracleDate.from_timestamp OracleDate.fromTimestamp
  tr_auto

@[tr_eq] theorem OracleDate.add_interval_dt_eq (od i : Int) :
    Tr.OracleDate.add_interval_dt od i = OracleDate.addIntervalDt od i := by
  unfold Tr.OracleDate.add_interval_dt OracleDate.addIntervalDt
  tr_auto

@[tr_eq] theorem OracleDate.sub_interval_dt_eq (od i : Int) :
    Tr.OracleDate.sub_interval_dt od i = OracleDate.subIntervalDt od i := by
  unfold Tr.OracleDate.sub_interval_dt OracleDate.subIntervalDt
  tr_auto

/-! ## Functions built on `Date::extract` (month arithmetic) -/

/-- The model's `addIntervalYmInternal` with its tuple patterns written as projections. -/
theorem addIntervalYmInternal_proj (d i : Int) :
    Date.addIntervalYmInternal d i =
      Date.tryFromYmd (Date.monthCarry (Date.extract d).1 (Date.extract d).2.1 i).1
        (Date.monthCarry (Date.extract d).1 (Date.extract d).2.1 i).2 (Date.extract d).2.2 := by
  unfold Date.addIntervalYmInternal
  generalize Date.extract d = e
  obtain ⟨y, m, dd⟩ := e
  dsimp only

theorem extract_month_range (d : Int) : 1 ≤ (Date.extract d).2.1 ∧ (Date.extract d).2.1 ≤ 12 := by
  unfold Date.extract julian2date MONTHS_PER_YEAR
  dsimp only
  omega

@[tr_eq] theorem Date.add_interval_ym_internal_eq (d i : Int) (h0 : -2440588 ≤ d) (h1 : d ≤ 2145043059) :
    Tr.Date.add_interval_ym_internal d i = Date.addIntervalYmInternal d i := by
  -- (an UNTRANSLATED alias of the model is closed by the first alternative)
  first
  | (unfold Tr.Date.add_interval_ym_internal; with_reducible rfl)
  | (
    unfold Tr.Date.add_interval_ym_internal
    rw [Date.extract_eq d h0 h1, addIntervalYmInternal_proj]
    have hm := extract_month_range d
    generalize Date.extract d = e at *
    obtain ⟨y, m, dd⟩ := e
    unfold Date.monthCarry
    tr_auto)

@[tr_eq] theorem Timestamp.add_interval_ym_eq (ts i : Int) (h0 : -210866803200000000 ≤ ts)
    (h1 : ts ≤ 9223372036854775807) :
    Tr.Timestamp.add_interval_ym ts i = Timestamp.addIntervalYm ts i := by
  -- (an UNTRANSLATED alias of the model is closed by the first alternative)
  first
  | (unfold Tr.Timestamp.add_interval_ym; with_reducible rfl)
  | (
    unfold Tr.Timestamp.add_interval_ym Timestamp.addIntervalYm
    rw [Timestamp.extract_eq ts (by omega) h1, SqlDt.Timestamp.extract_eq]
    tr_auto)

@[tr_eq] theorem Timestamp.sub_interval_ym_eq (ts i : Int) (h0 : -210866803200000000 ≤ ts)
    (h1 : ts ≤ 9223372036854775807) :
    Tr.Timestamp.sub_interval_ym ts i = Timestamp.subIntervalYm ts i := by
  unfold Tr.Timestamp.sub_interval_ym Timestamp.subIntervalYm
  tr_auto

@[tr_eq] theorem OracleDate.add_interval_ym_eq (od i : Int) (h0 : -210866803200000000 ≤ od)
    (h1 : od ≤ 9223372036854775807) :
    Tr.OracleDate.add_interval_ym od i = OracleDate.addIntervalYm od i := by
  unfold Tr.OracleDate.add_interval_ym OracleDate.addIntervalYm
  tr_auto

@[tr_eq] theorem OracleDate.sub_interval_ym_eq (od i : Int) (h0 : -210866803200000000 ≤ od)
    (h1 : od ≤ 9223372036854775807) :
    Tr.OracleDate.sub_interval_ym od i = OracleDate.subIntervalYm od i := by
  unfold Tr.OracleDate.sub_interval_ym OracleDate.subIntervalYm
  tr_auto

theorem daysOfMonth_range (y m : Int) : 0 ≤ daysOfMonth y m ∧ daysOfMonth y m ≤ 31 := by
  unfold daysOfMonth idxD DAYS_OF_MONTH_TABLE boolToInt
  by_cases hm : m < 0
  · cases isLeapYear y <;> simp [hm]
  · have hcases : m.toNat = 0 ∨ m.toNat = 1 ∨ m.toNat = 2 ∨ m.toNat = 3 ∨ m.toNat = 4 ∨ m.toNat = 5 ∨ m.toNat = 6 ∨
        m.toNat = 7 ∨ m.toNat = 8 ∨ m.toNat = 9 ∨ m.toNat = 10 ∨ m.toNat = 11 ∨ m.toNat = 12 ∨ 13 ≤ m.toNat := by
      omega
    cases isLeapYear y <;>
      rcases hcases with h | h | h | h | h | h | h | h | h | h | h | h | h | h <;>
      simp [hm, h, List.getD_eq_getElem?_getD, List.getElem?_eq_none]

theorem extract_day_range (d : Int) (h0 : -2440588 ≤ d) : 0 ≤ (Date.extract d).2.2 ∧ (Date.extract d).2.2 ≤ 500 := by
  unfold Date.extract julian2date MONTHS_PER_YEAR
  rw [SqlDt.UNIX_EPOCH_JULIAN_eq]
  dsimp only
  split <;> omega

@[tr_eq] theorem Date.last_day_of_month_eq (d : Int) (h0 : -2440588 ≤ d) (h1 : d ≤ 2145043059) :
    Tr.Date.last_day_of_month d = Date.lastDayOfMonth d := by
  -- (an UNTRANSLATED alias of the model is closed by the first alternative)
  first
  | (unfold Tr.Date.last_day_of_month; with_reducible rfl)
  | (
    unfold Tr.Date.last_day_of_month Date.lastDayOfMonth
    rw [Date.extract_eq d h0 h1]
    have hd := extract_day_range d h0
    generalize Date.extract d = e at *
    obtain ⟨y, m, dd⟩ := e
    have hr := daysOfMonth_range y m
    tr_auto)

@[tr_eq] theorem Timestamp.last_day_of_month_eq (ts : Int) (h0 : -210866803200000000 ≤ ts)
    (h1 : ts ≤ 9223372036854775807) :
    Tr.Timestamp.last_day_of_month ts = Timestamp.lastDayOfMonth ts := by
  -- (an UNTRANSLATED alias of the model is closed by the first alternative)
  first
  | (unfold Tr.Timestamp.last_day_of_month; with_reducible rfl)
  | (
    unfold Tr.Timestamp.last_day_of_month Timestamp.lastDayOfMonth
    rw [Timestamp.extract_eq ts (by omega) h1, SqlDt.Timestamp.extract_eq]
    dsimp only
    rw [Date.extract_eq _ (by omega) (by omega)]
    tr_auto)

/-! ## `Trunc for Timestamp` (day, hour, minute) -/

@[tr_eq] theorem Timestamp.trunc_day_eq (ts : Int) (hts0 : -9223372036854775808 ≤ ts) (hts1 : ts ≤ 9223372036854775807) :
    Tr.Timestamp.trunc_day ts = Timestamp.trunc .day ts := by
  unfold Tr.Timestamp.trunc_day Timestamp.trunc
  tr_auto

@[tr_eq] theorem Timestamp.trunc_hour_eq (ts : Int) (hts0 : -9223372036854775808 ≤ ts) (hts1 : ts ≤ 9223372036854775807) :
    Tr.Timestamp.trunc_hour ts = Timestamp.trunc .hour ts := by
  unfold Tr.Timestamp.trunc_hour Timestamp.trunc
  tr_auto

@[tr_eq] theorem Timestamp.trunc_minute_eq (ts : Int) (hts0 : -9223372036854775808 ≤ ts) (hts1 : ts ≤ 9223372036854775807) :
    Tr.Timestamp.trunc_minute ts = Timestamp.trunc .minute ts := by
  unfold Tr.Timestamp.trunc_minute Timestamp.trunc
  tr_auto

/-! ## Mixed comparison `Date` vs `Timestamp` (C17): the date is compared as its midnight timestamp -/

@[tr_eq] theorem Date.partial_cmp_timestamp_eq (d ts : Int) (hd0 : -2147483648 ≤ d) (hd1 : d ≤ 2147483647)
    (hts0 : -9223372036854775808 ≤ ts) (hts1 : ts ≤ 9223372036854775807) :
    Tr.Date.partial_cmp_timestamp d ts = some (Tr.cmpInt (Timestamp.new d 0) ts) := by
  unfold Tr.Date.partial_cmp_timestamp
  tr_auto

@[tr_eq] theorem Date.eq_timestamp_eq (d ts : Int) (hd0 : -2147483648 ≤ d) (hd1 : d ≤ 2147483647)
    (hts0 : -9223372036854775808 ≤ ts) (hts1 : ts ≤ 9223372036854775807) :
    Tr.Date.eq_timestamp d ts = decide (Timestamp.new d 0 = ts) := by
  unfold Tr.Date.eq_timestamp
  tr_auto

/-! ## `Ord for IntervalYM` (derived in the crate: comparison of the month counts) -/

@[tr_eq] theorem IntervalYM.cmp_eq (a b : Int) (ha0 : -2147483648 ≤ a) (ha1 : a ≤ 2147483647)
    (hb0 : -2147483648 ≤ b) (hb1 : b ≤ 2147483647) :
    Tr.IntervalYM.cmp a b = Tr.cmpInt a b := by
  unfold Tr.IntervalYM.cmp
  tr_auto

/-! ## The functions that go through `f64` (phase 3): equal to the model's soft-float computation for EVERY double.
    No decision procedure exists for floats: the float parts must match syntactically (after unfolding and rewriting the
    callees); the integer parts around them are handled as everywhere else. -/

@[tr_eq] theorem IntervalYM.mul_f64_eq (v : Int) (x : F64) :
    Tr.IntervalYM.mul_f64 v x = IntervalYM.mulF64 v x := by
  unfold Tr.IntervalYM.mul_f64 IntervalYM.mulF64
  tr_auto

@[tr_eq] theorem IntervalYM.div_f64_eq (v : Int) (x : F64) :
    Tr.IntervalYM.div_f64 v x = IntervalYM.divF64 v x := by
  unfold Tr.IntervalYM.div_f64 IntervalYM.divF64
  tr_auto

@[tr_eq] theorem IntervalDT.mul_f64_eq (v : Int) (x : F64) :
    Tr.IntervalDT.mul_f64 v x = IntervalDT.mulF64 v x := by
  unfold Tr.IntervalDT.mul_f64 IntervalDT.mulF64
  tr_auto

@[tr_eq] theorem IntervalDT.div_f64_eq (v : Int) (x : F64) :
    Tr.IntervalDT.div_f64 v x = IntervalDT.divF64 v x := by
  unfold Tr.IntervalDT.div_f64 IntervalDT.divF64
  tr_auto

@[tr_eq] theorem IntervalDT.second_eq (v : Int) :
    Tr.IntervalDT.second v = some (IntervalDT.second v) := by
  unfold Tr.IntervalDT.second IntervalDT.second
  tr_auto

@[tr_eq] theorem Time.mul_f64_eq (t : Int) (x : F64) :
    Tr.Time.mul_f64 t x = IntervalDT.mulF64 t x := by
  unfold Tr.Time.mul_f64
  tr_auto

@[tr_eq] theorem Time.div_f64_eq (t : Int) (x : F64) :
    Tr.Time.div_f64 t x = IntervalDT.divF64 t x := by
  unfold Tr.Time.div_f64
  tr_auto

@[tr_eq] theorem Time.second_eq (t : Int) :
    Tr.Time.second t = some (Time.second t) := by
  unfold Tr.Time.second Time.second
  tr_auto

@[tr_eq] theorem Timestamp.add_days_eq (ts : Int) (x : F64) :
    Tr.Timestamp.add_days ts x = Timestamp.addDays ts x := by
  unfold Tr.Timestamp.add_days Timestamp.addDays
  tr_auto

@[tr_eq] theorem Timestamp.sub_days_eq (ts : Int) (x : F64) :
    Tr.Timestamp.sub_days ts x = Timestamp.subDays ts x := by
  unfold Tr.Timestamp.sub_days Timestamp.subDays
  tr_auto

@[tr_eq] theorem Timestamp.second_eq (ts : Int) :
    Tr.Timestamp.second ts = some (Time.second (Timestamp.time ts)) := by
  unfold Tr.Timestamp.second
  tr_auto

@[tr_eq] theorem OracleDate.add_days_eq (od : Int) (x : F64) :
    Tr.OracleDate.add_days od x = OracleDate.addDays od x := by
  -- (an UNTRANSLATED alias of the model is closed by the first alternative)
  first
  | (unfold Tr.OracleDate.add_days; with_reducible rfl)
  | (
    unfold Tr.OracleDate.add_days OracleDate.addDays OracleDate.roundToSecond
    simp only [bind, Except.bind, pure, Except.pure, tr_eq]
    -- the float computation is the same term on both sides: name its result and look at the integer rounding
    generalize Timestamp.addDays od x = y
    cases y with
    | error e => rfl
    | ok v =>
      dsimp only
      -- `Ok(f(a)?)` against `f(b)`: in both cases of `f(a)` it remains to show `a = b`, an integer goal
      split <;> (rename_i heq; rw [← heq]; apply congrArg; tr_auto))

@[tr_eq] theorem OracleDate.sub_days_eq (od : Int) (x : F64) :
    Tr.OracleDate.sub_days od x = OracleDate.subDays od x := by
  unfold Tr.OracleDate.sub_days OracleDate.subDays
  tr_auto

@[tr_eq] theorem OracleDate.sub_date_eq (a b : Int) :
    Tr.OracleDate.sub_date a b = OracleDate.subDate a b := by
  unfold Tr.OracleDate.sub_date OracleDate.subDate
  tr_auto

@[tr_eq] theorem Timestamp.oracle_add_days_eq (ts : Int) (x : F64) :
    Tr.Timestamp.oracle_add_days ts x = OracleDate.addDays (OracleDate.fromTimestamp ts) x := by
  unfold Tr.Timestamp.oracle_add_days
  tr_auto

@[tr_eq] theorem Timestamp.oracle_sub_days_eq (ts : Int) (x : F64) :
    Tr.Timestamp.oracle_sub_days ts x = OracleDate.subDays (OracleDate.fromTimestamp ts) x := by
  unfold Tr.Timestamp.oracle_sub_days
  tr_auto

/-! ## The conversion layer `format::NaiveDateTime` (phase 4): the struct is the model's structure `NDT` -/

@[tr_eq] theorem NDT.new_eq : Tr.NDT.new = ({} : NDT) := rfl

/-- for an hour of the day (the documented refactoring `(hour + 11) % 12 + 1` agrees with the `match` only up to 24) -/
@[tr_eq] theorem NDT.hour12_eq (dt : NDT) (hh0 : 0 ≤ dt.hour) (hh1 : dt.hour ≤ 23) :
    Tr.NDT.hour12 dt = NDT.hour12 dt := by
  unfold Tr.NDT.hour12 NDT.hour12
  tr_auto

@[tr_eq] theorem NDT.adjust_hour12_eq (dt : NDT) :
    Tr.NDT.adjust_hour12 dt = NDT.adjustHour12 dt := by
  unfold Tr.NDT.adjust_hour12 NDT.adjustHour12
  tr_auto

@[tr_eq] theorem NDT.of_date_eq (d : Int) (h0 : -2440588 ≤ d) (h1 : d ≤ 2145043059) :
    Tr.NDT.of_date d = NDT.ofDate d := by
  unfold Tr.NDT.of_date NDT.ofDate
  tr_auto

@[tr_eq] theorem NDT.of_time_eq (t : Int) (ht0 : 0 ≤ t) (ht1 : t ≤ 9223372036854775807) :
    Tr.NDT.of_time t = NDT.ofTime t := by
  unfold Tr.NDT.of_time NDT.ofTime
  tr_auto

@[tr_eq] theorem NDT.of_timestamp_eq (ts : Int) (hts0 : -210866803200000000 ≤ ts) (hts1 : ts ≤ 9223372036854775807) :
    Tr.NDT.of_timestamp ts = NDT.ofTimestamp ts := by
  unfold Tr.NDT.of_timestamp NDT.ofTimestamp
  tr_auto

@[tr_eq] theorem NDT.of_interval_ym_eq (v : Int) (hv0 : -2147483648 ≤ v) (hv1 : v ≤ 2147483647) :
    Tr.NDT.of_interval_ym v = NDT.ofIntervalYM v := by
  unfold Tr.NDT.of_interval_ym NDT.ofIntervalYM
  tr_auto

@[tr_eq] theorem NDT.of_interval_dt_eq (v : Int) (hv0 : -9223372036854775808 ≤ v) (hv1 : v ≤ 9223372036854775807) :
    Tr.NDT.of_interval_dt v = NDT.ofIntervalDT v := by
  unfold Tr.NDT.of_interval_dt NDT.ofIntervalDT
  tr_auto

@[tr_eq] theorem NDT.of_oracle_date_eq (ts : Int) (hts0 : -210866803200000000 ≤ ts) (hts1 : ts ≤ 9223372036854775807) :
    Tr.NDT.of_oracle_date ts = NDT.ofTimestamp ts := by
  unfold Tr.NDT.of_oracle_date NDT.ofTimestamp
  tr_auto

@[tr_eq] theorem Date.try_from_ndt_ref_eq (dt : NDT) :
    Tr.Date.try_from_ndt_ref dt = Parser.tryFromNDT .D dt := by
  unfold Tr.Date.try_from_ndt_ref
  try simp (disch := omega) only [tr_eq]
  try simp only [Parser.tryFromNDT]
  first | done | tr_auto

@[tr_eq] theorem Date.try_from_ndt_eq (dt : NDT) :
    Tr.Date.try_from_ndt dt = Parser.tryFromNDT .D dt := by
  unfold Tr.Date.try_from_ndt
  try simp (disch := omega) only [tr_eq]
  try simp only [Parser.tryFromNDT]
  first | done | tr_auto

@[tr_eq] theorem Time.try_from_ndt_ref_eq (dt : NDT) :
    Tr.Time.try_from_ndt_ref dt = Parser.tryFromNDT .T dt := by
  unfold Tr.Time.try_from_ndt_ref
  try simp (disch := omega) only [tr_eq]
  try simp only [Parser.tryFromNDT]
  first | done | tr_auto

@[tr_eq] theorem Time.try_from_ndt_eq (dt : NDT) :
    Tr.Time.try_from_ndt dt = Parser.tryFromNDT .T dt := by
  unfold Tr.Time.try_from_ndt
  try simp (disch := omega) only [tr_eq]
  try simp only [Parser.tryFromNDT]
  first | done | tr_auto

/-- what an accepted `validate_ymd` tells about the fields (needed to cite `date2julian_eq`) -/
theorem validateYmd_ok (y m d : Int) (u : Unit) (h : Date.validateYmd y m d = .ok u) :
    1 ≤ m ∧ m ≤ 12 ∧ 1 ≤ d ∧ d ≤ 31 := by
  unfold Date.validateYmd MONTHS_PER_YEAR at h
  split at h; · cases h
  split at h; · cases h
  split at h; · cases h
  omega

@[tr_eq] theorem Timestamp.try_from_ndt_eq (dt : NDT) :
    Tr.Timestamp.try_from_ndt dt = Parser.tryFromNDT .TS dt := by
  -- (an UNTRANSLATED alias of the model is closed by the first alternative)
  first
  | (unfold Tr.Timestamp.try_from_ndt; with_reducible rfl)
  | (
    unfold Tr.Timestamp.try_from_ndt
    simp only [Date.validate_ymd_eq, Time.validate_hms_eq, Timestamp.try_from_usecs_eq, UNIX_EPOCH_JULIAN_eq,
      Parser.tryFromNDT, bind, Except.bind]
    -- the two validations are the same terms on both sides: go through their outcomes
    cases h1 : Date.validateYmd dt.year dt.month dt.day with
    | error e => rfl
    | ok u =>
      dsimp only
      cases h2 : Time.validateHms dt.hour dt.minute dt.sec with
      | error e => rfl
      | ok u2 =>
        dsimp only
        have hv := validateYmd_ok _ _ _ _ h1
        rw [date2julian_eq _ _ _ (by omega) (by omega) (by omega) (by omega)])

@[tr_eq] theorem IntervalYM.try_from_ndt_eq (dt : NDT) (hy0 : -2147483648 ≤ dt.year) (hy1 : dt.year ≤ 2147483647) (hm0 : 0 ≤ dt.month) :
    Tr.IntervalYM.try_from_ndt dt = Parser.tryFromNDT .YM dt := by
  unfold Tr.IntervalYM.try_from_ndt
  try simp (disch := omega) only [tr_eq]
  try simp only [Parser.tryFromNDT]
  first | done | tr_auto

@[tr_eq] theorem IntervalDT.try_from_ndt_eq (dt : NDT) (hd0 : 0 ≤ dt.day) (hd1 : dt.day ≤ 4294967295) :
    Tr.IntervalDT.try_from_ndt dt = Parser.tryFromNDT .DT dt := by
  unfold Tr.IntervalDT.try_from_ndt
  try simp (disch := omega) only [tr_eq]
  try simp only [Parser.tryFromNDT]
  first | done | tr_auto

@[tr_eq] theorem OracleDate.try_from_ndt_eq (dt : NDT) :
    Tr.OracleDate.try_from_ndt dt = Parser.tryFromNDT .OD dt := by
  -- (an UNTRANSLATED alias of the model is closed by the first alternative)
  first
  | (unfold Tr.OracleDate.try_from_ndt; with_reducible rfl)
  | (
    unfold Tr.OracleDate.try_from_ndt
    simp only [Timestamp.try_from_ndt_eq, OracleDate.from_timestamp_eq, Parser.tryFromNDT, bind, Except.bind, pure,
      Except.pure]
    cases h1 : Date.validateYmd dt.year dt.month dt.day with
    | error e => rfl
    | ok u =>
      dsimp only
      cases h2 : Time.validateHms dt.hour dt.minute dt.sec with
      | error e => rfl
      | ok u2 =>
        dsimp only
        split <;> (rename_i heq; simp only [heq]))

/-! ## Calendar units (phase 5, first part): `Trunc` / `Round` for `Date` -/

macro "tr_units" : tactic => `(tactic| simp only [Date.trunc, Date.round, Date.truncCentury, Date.truncYear, Date.truncIsoYear,
  Date.truncQuarter, Date.truncMonth, Date.truncWeek, Date.truncIsoWeek, Date.truncMonthStartWeek, Date.truncSundayStartWeek,
  Date.roundCentury, Date.roundYear, Date.roundIsoYear, Date.roundQuarter, Date.roundMonth, Date.roundWeek, Date.roundIsoWeek,
  Date.roundMonthStartWeek, Date.roundSundayStartWeek, Date.roundWeekInternal, Date.roundMonthStartWeekInternal,
  Date.applyWeekTable, Date.year, Date.month, Date.day, bind, Except.bind, pure, Except.pure])

@[tr_eq] theorem sub_to_date_eq (d k : Int) : Tr.sub_to_date d k = Date.subDays d k := by
  unfold Tr.sub_to_date
  tr_auto

@[tr_eq] theorem current_date_eq (d k : Int) : Tr.current_date d k = Except.ok d := by
  unfold Tr.current_date
  tr_auto

@[tr_eq] theorem Date.trunc_year_eq (d : Int) (h0 : -2440588 ≤ d) (h1 : d ≤ 2145043059) :
    Tr.Date.trunc_year d = Date.trunc .year d := by
  unfold Tr.Date.trunc_year
  first
  | (with_reducible_and_instances rfl)
  | (try simp (disch := omega) only [tr_eq]
     try tr_units
     first | done | (with_reducible_and_instances rfl) | tr_auto)

@[tr_eq] theorem Date.trunc_week_eq (d : Int) (h0 : -2440588 ≤ d) (h1 : d ≤ 2145043059) :
    Tr.Date.trunc_week d = Date.trunc .week d := by
  unfold Tr.Date.trunc_week
  first
  | (with_reducible_and_instances rfl)
  | (try simp (disch := omega) only [tr_eq]
     try tr_units
     first | done | (with_reducible_and_instances rfl) | tr_auto)

@[tr_eq] theorem Date.trunc_day_eq (d : Int) (h0 : -2440588 ≤ d) (h1 : d ≤ 2145043059) :
    Tr.Date.trunc_day d = Date.trunc .day d := by
  unfold Tr.Date.trunc_day
  first
  | (with_reducible_and_instances rfl)
  | (try simp (disch := omega) only [tr_eq]
     try tr_units
     first | done | (with_reducible_and_instances rfl) | tr_auto)

@[tr_eq] theorem Date.trunc_hour_eq (d : Int) (h0 : -2440588 ≤ d) (h1 : d ≤ 2145043059) :
    Tr.Date.trunc_hour d = Date.trunc .hour d := by
  unfold Tr.Date.trunc_hour
  first
  | (with_reducible_and_instances rfl)
  | (try simp (disch := omega) only [tr_eq]
     try tr_units
     first | done | (with_reducible_and_instances rfl) | tr_auto)

@[tr_eq] theorem Date.trunc_minute_eq (d : Int) (h0 : -2440588 ≤ d) (h1 : d ≤ 2145043059) :
    Tr.Date.trunc_minute d = Date.trunc .minute d := by
  unfold Tr.Date.trunc_minute
  first
  | (with_reducible_and_instances rfl)
  | (try simp (disch := omega) only [tr_eq]
     try tr_units
     first | done | (with_reducible_and_instances rfl) | tr_auto)

@[tr_eq] theorem Date.trunc_sunday_start_week_eq (d : Int) (h0 : -2440588 ≤ d) (h1 : d ≤ 2145043059) :
    Tr.Date.trunc_sunday_start_week d = Date.trunc .sundayStartWeek d := by
  unfold Tr.Date.trunc_sunday_start_week
  first
  | (with_reducible_and_instances rfl)
  | (try simp (disch := omega) only [tr_eq]
     try tr_units
     first | done | (with_reducible_and_instances rfl) | tr_auto)

@[tr_eq] theorem Date.round_century_eq (d : Int) (h0 : -2440588 ≤ d) (h1 : d ≤ 2145043059) :
    Tr.Date.round_century d = Date.round .century d := by
  unfold Tr.Date.round_century
  first
  | (with_reducible_and_instances rfl)
  | (try simp (disch := omega) only [tr_eq]
     try tr_units
     first | done | (with_reducible_and_instances rfl) | tr_auto)

@[tr_eq] theorem Date.round_year_eq (d : Int) (h0 : -2440588 ≤ d) (h1 : d ≤ 2145043059) :
    Tr.Date.round_year d = Date.round .year d := by
  unfold Tr.Date.round_year
  first
  | (with_reducible_and_instances rfl)
  | (try simp (disch := omega) only [tr_eq]
     try tr_units
     first | done | (with_reducible_and_instances rfl) | tr_auto)

@[tr_eq] theorem Date.round_day_eq (d : Int) (h0 : -2440588 ≤ d) (h1 : d ≤ 2145043059) :
    Tr.Date.round_day d = Date.round .day d := by
  unfold Tr.Date.round_day
  first
  | (with_reducible_and_instances rfl)
  | (try simp (disch := omega) only [tr_eq]
     try tr_units
     first | done | (with_reducible_and_instances rfl) | tr_auto)

@[tr_eq] theorem Date.round_hour_eq (d : Int) (h0 : -2440588 ≤ d) (h1 : d ≤ 2145043059) :
    Tr.Date.round_hour d = Date.round .hour d := by
  unfold Tr.Date.round_hour
  first
  | (with_reducible_and_instances rfl)
  | (try simp (disch := omega) only [tr_eq]
     try tr_units
     first | done | (with_reducible_and_instances rfl) | tr_auto)

@[tr_eq] theorem Date.round_minute_eq (d : Int) (h0 : -2440588 ≤ d) (h1 : d ≤ 2145043059) :
    Tr.Date.round_minute d = Date.round .minute d := by
  unfold Tr.Date.round_minute
  first
  | (with_reducible_and_instances rfl)
  | (try simp (disch := omega) only [tr_eq]
     try tr_units
     first | done | (with_reducible_and_instances rfl) | tr_auto)

end SqlDt.TrEq
