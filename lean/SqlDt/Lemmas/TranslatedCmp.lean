/-
  Lemmas/TranslatedCmp (hand-written, stable): the mixed comparison impls that were not yet under the translator tie –
  `Time`/`IntervalDT` in both directions (C12), `Timestamp` vs `Date` (C17) and the `==` impls between the Oracle-style
  date and `Timestamp` / `Date` (C17).  Each translated body equals "comparison of the microsecond counts, a date read as
  its midnight" for ALL arguments of the parameter types.  (`partial_cmp` of the four Oracle pairs calls the DERIVED
  `Timestamp::partial_cmp`, which the translator does not resolve; those four stay tied by the correspondence only.)
-/
import SqlDt.Lemmas.TranslatedSafe
set_option linter.unusedVariables false
namespace SqlDt.TrEq
open SqlDt SqlDt.Gen SqlDt.TrTactic

@[tr_eq] theorem Time.eq_interval_dt_eq (t i : Int) (ht0 : -9223372036854775808 ≤ t) (ht1 : t ≤ 9223372036854775807)
    (hi0 : -9223372036854775808 ≤ i) (hi1 : i ≤ 9223372036854775807) :
    Tr.Time.eq_interval_dt t i = decide (t = i) := by
  unfold Tr.Time.eq_interval_dt
  first | (with_reducible_and_instances rfl) | tr_auto

@[tr_eq] theorem Time.partial_cmp_interval_dt_eq (t i : Int) (ht0 : -9223372036854775808 ≤ t) (ht1 : t ≤ 9223372036854775807)
    (hi0 : -9223372036854775808 ≤ i) (hi1 : i ≤ 9223372036854775807) :
    Tr.Time.partial_cmp_interval_dt t i = some (Tr.cmpInt t i) := by
  unfold Tr.Time.partial_cmp_interval_dt
  first | (with_reducible_and_instances rfl) | tr_auto

@[tr_eq] theorem IntervalDT.eq_time_eq (i t : Int) (hi0 : -9223372036854775808 ≤ i) (hi1 : i ≤ 9223372036854775807)
    (ht0 : -9223372036854775808 ≤ t) (ht1 : t ≤ 9223372036854775807) :
    Tr.IntervalDT.eq_time i t = decide (i = t) := by
  unfold Tr.IntervalDT.eq_time
  first | (with_reducible_and_instances rfl) | tr_auto

@[tr_eq] theorem IntervalDT.partial_cmp_time_eq (i t : Int) (hi0 : -9223372036854775808 ≤ i) (hi1 : i ≤ 9223372036854775807)
    (ht0 : -9223372036854775808 ≤ t) (ht1 : t ≤ 9223372036854775807) :
    Tr.IntervalDT.partial_cmp_time i t = some (Tr.cmpInt i t) := by
  unfold Tr.IntervalDT.partial_cmp_time
  first | (with_reducible_and_instances rfl) | tr_auto

@[tr_eq] theorem Timestamp.eq_date_eq (ts d : Int) (hts0 : -9223372036854775808 ≤ ts) (hts1 : ts ≤ 9223372036854775807)
    (hd0 : -2147483648 ≤ d) (hd1 : d ≤ 2147483647) :
    Tr.Timestamp.eq_date ts d = decide (ts = Timestamp.new d 0) := by
  unfold Tr.Timestamp.eq_date
  first | (with_reducible_and_instances rfl) | tr_auto

@[tr_eq] theorem Timestamp.partial_cmp_date_eq (ts d : Int) (hts0 : -9223372036854775808 ≤ ts) (hts1 : ts ≤ 9223372036854775807)
    (hd0 : -2147483648 ≤ d) (hd1 : d ≤ 2147483647) :
    Tr.Timestamp.partial_cmp_date ts d = some (Tr.cmpInt ts (Timestamp.new d 0)) := by
  unfold Tr.Timestamp.partial_cmp_date
  first | (with_reducible_and_instances rfl) | tr_auto

@[tr_eq] theorem Timestamp.eq_oracle_date_eq (ts od : Int) (hts0 : -9223372036854775808 ≤ ts) (hts1 : ts ≤ 9223372036854775807)
    (ho0 : -9223372036854775808 ≤ od) (ho1 : od ≤ 9223372036854775807) :
    Tr.Timestamp.eq_oracle_date ts od = decide (ts = od) := by
  unfold Tr.Timestamp.eq_oracle_date
  first | (with_reducible_and_instances rfl) | tr_auto

@[tr_eq] theorem OracleDate.eq_timestamp_eq (od ts : Int) (ho0 : -9223372036854775808 ≤ od) (ho1 : od ≤ 9223372036854775807)
    (hts0 : -9223372036854775808 ≤ ts) (hts1 : ts ≤ 9223372036854775807) :
    Tr.OracleDate.eq_timestamp od ts = decide (od = ts) := by
  unfold Tr.OracleDate.eq_timestamp
  first | (with_reducible_and_instances rfl) | tr_auto

@[tr_eq] theorem Date.eq_oracle_date_eq (d od : Int) (hd0 : -2147483648 ≤ d) (hd1 : d ≤ 2147483647)
    (ho0 : -9223372036854775808 ≤ od) (ho1 : od ≤ 9223372036854775807) :
    Tr.Date.eq_oracle_date d od = decide (Timestamp.new d 0 = od) := by
  unfold Tr.Date.eq_oracle_date
  first | (with_reducible_and_instances rfl) | tr_auto

@[tr_eq] theorem OracleDate.eq_date_eq (od d : Int) (ho0 : -9223372036854775808 ≤ od) (ho1 : od ≤ 9223372036854775807)
    (hd0 : -2147483648 ≤ d) (hd1 : d ≤ 2147483647) :
    Tr.OracleDate.eq_date od d = decide (od = Timestamp.new d 0) := by
  unfold Tr.OracleDate.eq_date
  first | (with_reducible_and_instances rfl) | tr_auto

end SqlDt.TrEq

namespace SqlDt.TrSafe
open SqlDt SqlDt.Gen SqlDt.TrTactic SqlDt.TrEq

@[tr_safe] theorem Time.eq_interval_dt_safe (t i : Int) : Tr.Time.eq_interval_dt_safe t i := by
  unfold Tr.Time.eq_interval_dt_safe; first | exact True.intro | tr_safe_auto
@[tr_safe] theorem Time.partial_cmp_interval_dt_safe (t i : Int) : Tr.Time.partial_cmp_interval_dt_safe t i := by
  unfold Tr.Time.partial_cmp_interval_dt_safe; first | exact True.intro | tr_safe_auto
@[tr_safe] theorem IntervalDT.eq_time_safe (i t : Int) : Tr.IntervalDT.eq_time_safe i t := by
  unfold Tr.IntervalDT.eq_time_safe; first | exact True.intro | tr_safe_auto
@[tr_safe] theorem IntervalDT.partial_cmp_time_safe (i t : Int) : Tr.IntervalDT.partial_cmp_time_safe i t := by
  unfold Tr.IntervalDT.partial_cmp_time_safe; first | exact True.intro | tr_safe_auto
@[tr_safe] theorem Timestamp.eq_date_safe (ts d : Int) (hts : isValidTimestamp ts) (hd : isValidDate d) :
    Tr.Timestamp.eq_date_safe ts d := by
  unfold Tr.Timestamp.eq_date_safe; first | exact True.intro | tr_safe_auto
@[tr_safe] theorem Timestamp.partial_cmp_date_safe (ts d : Int) (hts : isValidTimestamp ts) (hd : isValidDate d) :
    Tr.Timestamp.partial_cmp_date_safe ts d := by
  unfold Tr.Timestamp.partial_cmp_date_safe; first | exact True.intro | tr_safe_auto
@[tr_safe] theorem Timestamp.eq_oracle_date_safe (ts od : Int) : Tr.Timestamp.eq_oracle_date_safe ts od := by
  unfold Tr.Timestamp.eq_oracle_date_safe; first | exact True.intro | tr_safe_auto
@[tr_safe] theorem OracleDate.eq_timestamp_safe (od ts : Int) : Tr.OracleDate.eq_timestamp_safe od ts := by
  unfold Tr.OracleDate.eq_timestamp_safe; first | exact True.intro | tr_safe_auto
@[tr_safe] theorem Date.eq_oracle_date_safe (d od : Int) (hd : isValidDate d) : Tr.Date.eq_oracle_date_safe d od := by
  unfold Tr.Date.eq_oracle_date_safe; first | exact True.intro | tr_safe_auto
@[tr_safe] theorem OracleDate.eq_date_safe (od d : Int) (hd : isValidDate d) : Tr.OracleDate.eq_date_safe od d := by
  unfold Tr.OracleDate.eq_date_safe; first | exact True.intro | tr_safe_auto

end SqlDt.TrSafe
