/-
  Lemmas/RenderCapTypes: every valid value of every type has components that its `NaiveDateTime` agrees with – the three
  hypotheses of `format_eq_render` / `format_sink`, packaged once (they are established inside the proofs of the per-type
  theorems of Lemmas/RenderTypes and Lemmas/RenderAll; here they are made available for any statement about `format`).
-/
import SqlDt.Lemmas.RenderCap
import SqlDt.Lemmas.RoundTrip
import SqlDt.Props.C16
namespace SqlDt.Lemmas
open SqlDt Gen Spec

/-- the hypotheses under which `Formatter::format` is characterised by `Spec.render` -/
def Renders (ty : Ty) (v : Int) (c : Comps) : Prop :=
  Agrees ty v (NDT.ofValue ty v) c ∧ FractionOK (NDT.ofValue ty v) c ∧ (NDT.ofValue ty v).negative = c.neg

theorem renders_date (y m d : Int) (h : ValidYMD y m d) : Renders .D (dayNumber y m d) (compsOfDate y m d) := by
  have ha := agrees_date y m d h
  refine ⟨ha, ?_, ?_⟩
  · apply fractionOK_zero
    · rw [ha.usec]; rfl
    · rfl
  · have hex := (extract_fromYmd y m d h).2
    rw [fromYmd_eq_dayNumber y m d ⟨by have := h.1; omega, by have := h.2.1; omega⟩ ⟨h.2.2.1, h.2.2.2.1⟩] at hex
    simp [NDT.ofValue, NDT.ofDate, hex, compsOfDate]

theorem renders_time (h mi s us : Int) (hh : 0 ≤ h ∧ h < 24) (hm : 0 ≤ mi ∧ mi < 60) (hs : 0 ≤ s ∧ s < 60)
    (hu : 0 ≤ us ∧ us < 1000000) : Renders .T (Time.fromHmsUnchecked h mi s us) (compsOfTime h mi s us) := by
  have ha := agrees_time h mi s us hh hm hs hu
  refine ⟨ha, ?_, ?_⟩
  · exact fractionOK_of _ _ ha.usec ⟨hu.1, by have := hu.2; simp [compsOfTime]; omega⟩
  · simp [NDT.ofValue, ndt_ofTime h mi s us hh hm hs hu, compsOfTime]

theorem renders_ts (ty : Ty) (hty : ty = .TS ∨ ty = .OD) (y m d h mi s us : Int) (hv : ValidYMD y m d)
    (hh : 0 ≤ h ∧ h < 24) (hm : 0 ≤ mi ∧ mi < 60) (hs : 0 ≤ s ∧ s < 60) (hu : 0 ≤ us ∧ us < 1000000) :
    Renders ty (tsOf y m d h mi s us) (compsOfTs y m d h mi s us) := by
  have ha := agrees_ts ty hty y m d h mi s us hv hh hm hs hu
  refine ⟨ha, ?_, ?_⟩
  · exact fractionOK_of _ _ ha.usec ⟨hu.1, by have := hu.2; simp [compsOfTs]; omega⟩
  · obtain ⟨e, _⟩ := ndt_ofTimestamp y m d h mi s us hv hh hm hs hu
    rcases hty with rfl | rfl <;> simp [NDT.ofValue, e, compsOfTs, compsOfDate]

theorem renders_ym (neg : Bool) (y mo : Int) (hy : 0 ≤ y ∧ y ≤ 178000000) (hm : 0 ≤ mo ∧ mo < 12)
    (hz : neg = true → y * 12 + mo ≠ 0) : Renders .YM (ymOf neg y mo) (compsOfYM neg y mo) := by
  have e := ndt_ofIntervalYM neg y mo hy.1 hm hz
  have ha : Agrees .YM (ymOf neg y mo) (NDT.ofValue .YM (ymOf neg y mo)) (compsOfYM neg y mo) := by
    refine { year := ?_, month := ?_, day := ?_, hour := ?_, minute := ?_, sec := ?_, usec := ?_, yearR := ?_,
             monthR := ?_, dayR := ?_, hourR := ?_, minuteR := ?_, secR := ?_, date := ?_ } <;>
      simp only [NDT.ofValue, e, compsOfYM] <;> first | rfl | omega | (intro hx; simp at hx) | decide
  refine ⟨ha, ?_, ?_⟩
  · apply fractionOK_zero
    · rw [ha.usec]; rfl
    · rfl
  · simp [NDT.ofValue, e, compsOfYM]

theorem renders_dt (neg : Bool) (d h mi s us : Int) (hd : 0 ≤ d ∧ d ≤ 100000000) (hh : 0 ≤ h ∧ h < 24)
    (hm : 0 ≤ mi ∧ mi < 60) (hs : 0 ≤ s ∧ s < 60) (hu : 0 ≤ us ∧ us < 1000000) (hz : neg = true → dtMag d h mi s us ≠ 0) :
    Renders .DT (dtOf neg d h mi s us) (compsOfDT neg d h mi s us) := by
  have e := ndt_ofIntervalDT neg d h mi s us hd.1 hh hm hs hu hz
  have ha : Agrees .DT (dtOf neg d h mi s us) (NDT.ofValue .DT (dtOf neg d h mi s us)) (compsOfDT neg d h mi s us) := by
    refine { year := ?_, month := ?_, day := ?_, hour := ?_, minute := ?_, sec := ?_, usec := ?_, yearR := ?_,
             monthR := ?_, dayR := ?_, hourR := ?_, minuteR := ?_, secR := ?_, date := ?_ } <;>
      simp only [NDT.ofValue, e, compsOfDT] <;> first | rfl | omega | (intro hx; simp at hx) | decide
  refine ⟨ha, ?_, ?_⟩
  · exact fractionOK_of _ _ ha.usec ⟨hu.1, by have := hu.2; simp [compsOfDT]; omega⟩
  · simp [NDT.ofValue, e, compsOfDT]

/-- EVERY valid value of EVERY type has components its `NaiveDateTime` agrees with. -/
theorem renders_exists (ty : Ty) (v : Int) (hv : ty.Valid v) : ∃ c, Renders ty v c := by
  cases ty <;> simp only [Ty.Valid] at hv
  · obtain ⟨y, m, d, hymd, rfl⟩ := decomp_D v hv
    exact ⟨_, renders_date y m d hymd⟩
  · obtain ⟨h, mi, s, us, hh, hm, hs, hu, rfl, _⟩ := decomp_T v ((SqlDt.isValidTime_iff v).1 hv)
    exact ⟨_, renders_time h mi s us hh hm hs hu⟩
  · obtain ⟨y, m, d, h, mi, s, us, hymd, hh, hm, hs, hu, rfl, _⟩ := decomp_TS v hv
    exact ⟨_, renders_ts .TS (Or.inl rfl) y m d h mi s us hymd hh hm hs hu⟩
  · obtain ⟨neg, y, mo, hy, hm, hz, _, rfl⟩ := decomp_YM v hv
    exact ⟨_, renders_ym neg y mo hy hm hz⟩
  · obtain ⟨neg, d, h, mi, s, us, hd, hh, hm, hs, hu, hz, _, rfl⟩ := decomp_DT v hv
    exact ⟨_, renders_dt neg d h mi s us hd hh hm hs hu hz⟩
  · obtain ⟨lo, hi, hsec⟩ := (C16.isValidDate_iff v).1 hv
    obtain ⟨y, m, d, h, mi, s, us, hymd, hh, hm, hs, hu, rfl, _⟩ := decomp_TS v ((SqlDt.isValidTimestamp_iff v).2 ⟨lo, hi⟩)
    exact ⟨_, renders_ts .OD (Or.inr rfl) y m d h mi s us hymd hh hm hs hu⟩

end SqlDt.Lemmas
