/-
  Lemmas/RoundTripSer: the human-readable serialisation of each type, as an explicit concatenation of zero-padded
  decimals and separators, with its length bound (≤ 32 bytes).
-/
import SqlDt.Lemmas.RoundTripCap
import SqlDt.Lemmas.RoundTripFields
namespace SqlDt.Lemmas
open SqlDt Gen Spec Parser

def dateText (y m d : Int) (rest : Bytes) : Bytes :=
  pad 4 y.toNat ++ 45 :: (pad 2 m.toNat ++ 45 :: (pad 2 d.toNat ++ rest))
def timeText (h mi s : Int) (rest : Bytes) : Bytes :=
  pad 2 h.toNat ++ 58 :: (pad 2 mi.toNat ++ 58 :: (pad 2 s.toNat ++ rest))
def signB (neg : Bool) : Nat := if neg then 45 else 43

theorem pad2_len (x : Int) (h0 : 0 ≤ x) (h : x < 100) : (pad 2 x.toNat).length = 2 :=
  pad_length 2 _ (by decide) (by omega) (by omega)
theorem pad4_len (x : Int) (h0 : 0 ≤ x) (h : x < 10000) : (pad 4 x.toNat).length = 4 :=
  pad_length 4 _ (by decide) (by omega) (by omega)
theorem pad6_len (x : Int) (h0 : 0 ≤ x) (h : x < 1000000) : (pad 6 x.toNat).length = 6 :=
  pad_length 6 _ (by decide) (by omega) (by omega)

theorem serStr_of_format (ty : Ty) (v : Int) (fields : List Field) (t : Bytes)
    (hl : Lexer.tryNew (Serde.picture ty) = .ok fields) (hf : Formatter.format ty v fields (some 32) = .ok t) :
    Serde.serStr ty v = .ok t := by
  unfold Serde.serStr formatValue Serde.BUF_CAP SERDE_BUF_CAP
  simp only [hl, bind, Except.bind, hf]

theorem dim_le31 (y m d : Int) (dd : d ≤ dim y m) : d ≤ 31 := by
  unfold dim at dd; split at dd
  · split at dd <;> omega
  · split at dd <;> omega

theorem serStr_D (y m d : Int) (hv : ValidYMD y m d) :
    Serde.serStr .D (dayNumber y m d) = .ok (dateText y m d []) ∧ (dateText y m d []).length ≤ 32 := by
  obtain ⟨y1, y9, m1, m12, d1, dd⟩ := hv
  have hv : ValidYMD y m d := ⟨y1, y9, m1, m12, d1, dd⟩
  have d31 := dim_le31 y m d dd
  have hlen : (dateText y m d []).length ≤ 32 := by
    simp only [dateText, List.length_append, List.length_cons, List.length_nil,
      pad4_len y (by omega) (by omega), pad2_len m (by omega) (by omega), pad2_len d (by omega) (by omega)]
    omega
  refine ⟨?_, hlen⟩
  apply serStr_of_format _ _ _ _ tryNew_D
  have ha := agrees_date y m d hv
  apply format_cap .D _ (compsOfDate y m d) ha
  · apply fractionOK_zero
    · rw [ha.usec]; rfl
    · rfl
  · have hex := (extract_fromYmd y m d hv).2
    rw [fromYmd_eq_dayNumber y m d ⟨by omega, by omega⟩ ⟨m1, m12⟩] at hex
    simp [NDT.ofValue, NDT.ofDate, hex, compsOfDate]
  · exact tryNew_wf _ _ tryNew_D
  · have e : y % 10000 = y := by omega
    simp [render, renderAll, renderField, compsOfDate, dateText, e]
  · exact hlen


theorem timeText_len (h mi s : Int) (rest : Bytes) (hh : 0 ≤ h ∧ h < 24) (hm : 0 ≤ mi ∧ mi < 60) (hs : 0 ≤ s ∧ s < 60) :
    (timeText h mi s rest).length = 8 + rest.length := by
  simp only [timeText, List.length_append, List.length_cons,
    pad2_len h (by omega) (by omega), pad2_len mi (by omega) (by omega), pad2_len s (by omega) (by omega)]
  omega

theorem dateText_len (y m d : Int) (rest : Bytes) (hv : ValidYMD y m d) :
    (dateText y m d rest).length = 10 + rest.length := by
  obtain ⟨y1, y9, m1, m12, d1, dd⟩ := hv
  have d31 := dim_le31 y m d dd
  simp only [dateText, List.length_append, List.length_cons,
    pad4_len y (by omega) (by omega), pad2_len m (by omega) (by omega), pad2_len d (by omega) (by omega)]
  omega

theorem serStr_T (h mi s us : Int) (hh : 0 ≤ h ∧ h < 24) (hm : 0 ≤ mi ∧ mi < 60) (hs : 0 ≤ s ∧ s < 60)
    (hu : 0 ≤ us ∧ us < 1000000) :
    Serde.serStr .T (Time.fromHmsUnchecked h mi s us) = .ok (timeText h mi s (46 :: (pad 6 us.toNat ++ []))) ∧
    (timeText h mi s (46 :: (pad 6 us.toNat ++ []))).length ≤ 32 := by
  have hlen : (timeText h mi s (46 :: (pad 6 us.toNat ++ []))).length ≤ 32 := by
    rw [timeText_len h mi s _ hh hm hs]
    simp only [List.length_cons, List.length_append, List.length_nil, pad6_len us hu.1 hu.2]
    omega
  refine ⟨?_, hlen⟩
  apply serStr_of_format _ _ _ _ tryNew_T
  have ha := agrees_time h mi s us hh hm hs hu
  apply format_cap .T _ (compsOfTime h mi s us) ha
  · exact fractionOK_of _ _ ha.usec ⟨hu.1, by have := hu.2; simp [compsOfTime]; omega⟩
  · simp [NDT.ofValue, ndt_ofTime h mi s us hh hm hs hu, compsOfTime]
  · exact tryNew_wf _ _ tryNew_T
  · simp [render, renderAll, renderField, compsOfTime, timeText, fractionOf]
  · exact hlen

theorem serStr_TS (y m d h mi s us : Int) (hv : ValidYMD y m d) (hh : 0 ≤ h ∧ h < 24) (hm : 0 ≤ mi ∧ mi < 60)
    (hs : 0 ≤ s ∧ s < 60) (hu : 0 ≤ us ∧ us < 1000000) :
    Serde.serStr .TS (tsOf y m d h mi s us) =
      .ok (dateText y m d (32 :: timeText h mi s (46 :: (pad 6 us.toNat ++ [])))) ∧
    (dateText y m d (32 :: timeText h mi s (46 :: (pad 6 us.toNat ++ [])))).length ≤ 32 := by
  have hlen : (dateText y m d (32 :: timeText h mi s (46 :: (pad 6 us.toNat ++ [])))).length ≤ 32 := by
    rw [dateText_len y m d _ hv, List.length_cons, timeText_len h mi s _ hh hm hs]
    simp only [List.length_cons, List.length_append, List.length_nil, pad6_len us hu.1 hu.2]
    omega
  refine ⟨?_, hlen⟩
  apply serStr_of_format _ _ _ _ tryNew_TS
  have ha := agrees_ts .TS (Or.inl rfl) y m d h mi s us hv hh hm hs hu
  apply format_cap .TS _ (compsOfTs y m d h mi s us) ha
  · exact fractionOK_of _ _ ha.usec ⟨hu.1, by have := hu.2; simp [compsOfTs]; omega⟩
  · obtain ⟨e, _⟩ := ndt_ofTimestamp y m d h mi s us hv hh hm hs hu
    simp [NDT.ofValue, e, compsOfTs, compsOfDate]
  · exact tryNew_wf _ _ tryNew_TS
  · have e : y % 10000 = y := by have := hv.1; have := hv.2.1; omega
    simp [render, renderAll, renderField, compsOfTs, compsOfDate, dateText, timeText, fractionOf, e]
  · exact hlen

theorem serStr_OD (y m d h mi s : Int) (hv : ValidYMD y m d) (hh : 0 ≤ h ∧ h < 24) (hm : 0 ≤ mi ∧ mi < 60)
    (hs : 0 ≤ s ∧ s < 60) :
    Serde.serStr .OD (tsOf y m d h mi s 0) = .ok (dateText y m d (32 :: timeText h mi s [])) ∧
    (dateText y m d (32 :: timeText h mi s [])).length ≤ 32 := by
  have hu : (0:Int) ≤ 0 ∧ (0:Int) < 1000000 := by omega
  have hlen : (dateText y m d (32 :: timeText h mi s [])).length ≤ 32 := by
    rw [dateText_len y m d _ hv, List.length_cons, timeText_len h mi s _ hh hm hs]
    simp
  refine ⟨?_, hlen⟩
  apply serStr_of_format _ _ _ _ tryNew_OD
  have ha := agrees_ts .OD (Or.inr rfl) y m d h mi s 0 hv hh hm hs hu
  apply format_cap .OD _ (compsOfTs y m d h mi s 0) ha
  · exact fractionOK_of _ _ ha.usec ⟨hu.1, by simp [compsOfTs]⟩
  · obtain ⟨e, _⟩ := ndt_ofTimestamp y m d h mi s 0 hv hh hm hs hu
    simp [NDT.ofValue, e, compsOfTs, compsOfDate]
  · exact tryNew_wf _ _ tryNew_OD
  · have e : y % 10000 = y := by have := hv.1; have := hv.2.1; omega
    simp [render, renderAll, renderField, compsOfTs, compsOfDate, dateText, timeText, e]
  · exact hlen

theorem pad_len9 (w : Nat) (x : Int) (hw : w ≤ 9) (h0 : 0 ≤ x) (h : x < 1000000000) : (pad w x.toNat).length ≤ 9 :=
  pad_length_le w 9 _ hw (by decide) (by omega) (by omega)

theorem serStr_YM (neg : Bool) (y mo : Int) (hy : 0 ≤ y ∧ y ≤ 178000000) (hm : 0 ≤ mo ∧ mo < 12)
    (hz : neg = true → y * 12 + mo ≠ 0) :
    Serde.serStr .YM (ymOf neg y mo) = .ok (signB neg :: (pad 4 y.toNat ++ 45 :: (pad 2 mo.toNat ++ []))) ∧
    (signB neg :: (pad 4 y.toNat ++ 45 :: (pad 2 mo.toNat ++ []))).length ≤ 32 := by
  have hlen : (signB neg :: (pad 4 y.toNat ++ 45 :: (pad 2 mo.toNat ++ []))).length ≤ 32 := by
    have := pad_len9 4 y (by decide) hy.1 (by omega)
    simp only [List.length_cons, List.length_append, List.length_nil, pad2_len mo (by omega) (by omega)]
    omega
  refine ⟨?_, hlen⟩
  apply serStr_of_format _ _ _ _ tryNew_YM
  have e := ndt_ofIntervalYM neg y mo hy.1 hm hz
  have ha : Agrees .YM (ymOf neg y mo) (NDT.ofValue .YM (ymOf neg y mo)) (compsOfYM neg y mo) := by
    refine { year := ?_, month := ?_, day := ?_, hour := ?_, minute := ?_, sec := ?_, usec := ?_, yearR := ?_,
             monthR := ?_, dayR := ?_, hourR := ?_, minuteR := ?_, secR := ?_, date := ?_ } <;>
      simp only [NDT.ofValue, e, compsOfYM] <;> first | rfl | omega | (intro hx; simp at hx)
  apply format_cap .YM _ (compsOfYM neg y mo) ha
  · apply fractionOK_zero
    · rw [ha.usec]; rfl
    · rfl
  · simp [NDT.ofValue, e, compsOfYM]
  · exact tryNew_wf _ _ tryNew_YM
  · cases neg <;> simp [render, renderAll, renderField, compsOfYM, signB]
  · exact hlen

theorem serStr_DT (neg : Bool) (d h mi s us : Int) (hd : 0 ≤ d ∧ d ≤ 100000000) (hh : 0 ≤ h ∧ h < 24)
    (hm : 0 ≤ mi ∧ mi < 60) (hs : 0 ≤ s ∧ s < 60) (hu : 0 ≤ us ∧ us < 1000000) (hz : neg = true → dtMag d h mi s us ≠ 0) :
    Serde.serStr .DT (dtOf neg d h mi s us) =
      .ok (signB neg :: (pad 2 d.toNat ++ 32 :: timeText h mi s (46 :: (pad 6 us.toNat ++ [])))) ∧
    (signB neg :: (pad 2 d.toNat ++ 32 :: timeText h mi s (46 :: (pad 6 us.toNat ++ [])))).length ≤ 32 := by
  have hlen : (signB neg :: (pad 2 d.toNat ++ 32 :: timeText h mi s (46 :: (pad 6 us.toNat ++ [])))).length ≤ 32 := by
    have := pad_len9 2 d (by decide) hd.1 (by omega)
    simp only [List.length_cons, List.length_append, List.length_nil, timeText_len h mi s _ hh hm hs,
      pad6_len us hu.1 hu.2]
    omega
  refine ⟨?_, hlen⟩
  apply serStr_of_format _ _ _ _ tryNew_DT
  have e := ndt_ofIntervalDT neg d h mi s us hd.1 hh hm hs hu hz
  have ha : Agrees .DT (dtOf neg d h mi s us) (NDT.ofValue .DT (dtOf neg d h mi s us)) (compsOfDT neg d h mi s us) := by
    refine { year := ?_, month := ?_, day := ?_, hour := ?_, minute := ?_, sec := ?_, usec := ?_, yearR := ?_,
             monthR := ?_, dayR := ?_, hourR := ?_, minuteR := ?_, secR := ?_, date := ?_ } <;>
      simp only [NDT.ofValue, e, compsOfDT] <;> first | rfl | omega | (intro hx; simp at hx)
  apply format_cap .DT _ (compsOfDT neg d h mi s us) ha
  · exact fractionOK_of _ _ ha.usec ⟨hu.1, by have := hu.2; simp [compsOfDT]; omega⟩
  · simp [NDT.ofValue, e, compsOfDT]
  · exact tryNew_wf _ _ tryNew_DT
  · cases neg <;> simp [render, renderAll, renderField, compsOfDT, signB, timeText, fractionOf]
  · exact hlen

end SqlDt.Lemmas
