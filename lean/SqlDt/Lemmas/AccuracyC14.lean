/-
  Lemmas/AccuracyC14: end-to-end accuracy of `mul_f64` / `div_f64` on intervals (property C14).
  Two roundings (conversion of the interval, then product or quotient) compose to a relative error of at most
  `(1+u')² − 1 < 2^-52`; the cast truncates the computed double toward zero; the range check is on the truncated value.
-/
import SqlDt.Lemmas.AccuracyRound
import SqlDt.Props.C14

namespace SqlDt
namespace Lemmas
open SqlDt Gen

theorem u'_pos : 0 < F64.u' := by rw [u'_eq]; norm_num

theorem e52_eq : (2 : ℚ) ^ (-52 : Int) = 1 / 4503599627370496 := by
  rw [zpow_neg, show (52 : Int) = ((52 : Nat) : Int) by rfl, zpow_natCast]; norm_num

theorem e53_eq : (2 : ℚ) ^ (-53 : Int) = 1 / 9007199254740992 := by
  rw [zpow_neg, show (53 : Int) = ((53 : Nat) : Int) by rfl, zpow_natCast]; norm_num

/-- two relative errors `u'` compose to less than `2^-52`: `(1+u')² − 1 = (2u+3u²)/(1+u)² < 2u` -/
theorem compose_two (V a X Y : ℚ) (hV : 0 ≤ V) (hX : 0 ≤ X)
    (h1 : |a - V| ≤ F64.u' * V) (h2 : |Y - a * X| ≤ F64.u' * (a * X)) :
    |Y - V * X| ≤ 2 ^ (-52 : Int) * (V * X) := by
  rw [u'_eq] at h1 h2
  rw [e52_eq]
  rw [abs_le] at *
  have hx1 := mul_le_mul_of_nonneg_right h1.1 hX
  have hx2 := mul_le_mul_of_nonneg_right h1.2 hX
  have ht : 0 ≤ V * X := mul_nonneg hV hX
  constructor <;> nlinarith

/-- the tiny constants: `T = 2^-1022`, `2^-1021 = 2T < 1` -/
theorem tiny_consts : (0 : ℚ) < 2 ^ (-1022 : Int) ∧ (2 : ℚ) ^ (-1021 : Int) = 2 * 2 ^ (-1022 : Int) ∧
    (2 : ℚ) ^ (-1021 : Int) < 1 := by
  refine ⟨two_zpow_pos _, ?_, ?_⟩
  · rw [show (-1021 : Int) = -1022 + 1 by norm_num, two_zpow_succ]
  · have : (2 : ℚ) ^ (-1021 : Int) < 2 ^ (0 : Int) := two_zpow_lt (by norm_num)
    rwa [zpow_zero] at this

/-- Core of C14: `y` is the correct rounding of `fl(v)·X` (`X ≥ 0`, sign `s`); then `y` approximates
    `p = v·(±X)` with relative error `2^-52`, or both are below 1 in magnitude (subnormal results), or `y = ±∞`. -/
theorem scale_core (v : Int) (hv : v.natAbs ≤ 2 ^ 63) (y : F64) (s : Bool) (X : ℚ) (hX : 0 ≤ X)
    (hy : ∀ (m1 : Nat) (e1 : Int), F64.ofInt v = .fin (decide (v < 0)) m1 e1 →
      Rounds y (decide (v < 0) != s) (((m1 : ℚ) * 2 ^ e1) * X)) :
    (y = .inf (decide (v < 0) != s) ∧
      (2 : ℚ) ^ (1023 : Int) ≤ (1 + F64.u') * |(v : ℚ) * (F64.sgn s * X)|) ∨
    ∃ (m' : Nat) (e' : Int), y = .fin (decide (v < 0) != s) m' e' ∧
      ((2 : ℚ) ^ (-1021 : Int) ≤ |(v : ℚ) * (F64.sgn s * X)| →
        |F64.val y - (v : ℚ) * (F64.sgn s * X)| ≤ 2 ^ (-52 : Int) * |(v : ℚ) * (F64.sgn s * X)|) ∧
      (|F64.val y - (v : ℚ) * (F64.sgn s * X)| ≤ 2 ^ (-52 : Int) * |(v : ℚ) * (F64.sgn s * X)| ∨
        (|F64.val y| < 1 ∧ |(v : ℚ) * (F64.sgn s * X)| < 1)) := by
  obtain ⟨m1, e1, hA, ha, _⟩ := ofInt_accuracy v hv
  have R := hy m1 e1 hA
  have hvq : (v : ℚ) = F64.sgn (decide (v < 0)) * (v.natAbs : ℚ) := (sgn_decide v).symm
  have hV : (0 : ℚ) ≤ (v.natAbs : ℚ) := by positivity
  generalize (v.natAbs : ℚ) = V at *
  generalize hs1 : decide (v < 0) = s1 at *
  have hp : |(v : ℚ) * (F64.sgn s * X)| = V * X := by
    rw [hvq, abs_mul, abs_sgn_mul, abs_sgn_mul, abs_of_nonneg hV, abs_of_nonneg hX]
  rw [hp]
  have ha0 : (0 : ℚ) ≤ (m1 : ℚ) * 2 ^ e1 := by have := two_zpow_pos e1; positivity
  generalize (m1 : ℚ) * 2 ^ e1 = a at *
  have ha' := abs_le.mp ha
  have hu := u'_pos
  have hu1 : F64.u' < 1 / 2 := by rw [u'_eq]; norm_num
  have haX1 : a * X ≤ (1 + F64.u') * (V * X) := by nlinarith [mul_le_mul_of_nonneg_right ha'.2 hX]
  have haX2 : (1 - F64.u') * (V * X) ≤ a * X := by nlinarith [mul_le_mul_of_nonneg_right ha'.1 hX]
  have hVX : 0 ≤ V * X := mul_nonneg hV hX
  obtain ⟨hT0, hT1, hT2⟩ := tiny_consts
  rcases R with ⟨hinf, hbig⟩ | ⟨m', e', hfin, _, _, _, _, hrel, htiny⟩
  · left; exact ⟨hinf, le_trans hbig haX1⟩
  · right
    refine ⟨m', e', hfin, ?_⟩
    have hY0 : (0 : ℚ) ≤ (m' : ℚ) * 2 ^ e' := by have := two_zpow_pos e'; positivity
    have hvy : |F64.val y| = (m' : ℚ) * 2 ^ e' := by rw [hfin]; exact val_fin_abs _ _ _
    have hdiff : |F64.val y - (v : ℚ) * (F64.sgn s * X)| = |(m' : ℚ) * 2 ^ e' - V * X| := by
      rw [hfin, hvq]
      simp only [F64.val]
      have : F64.sgn (s1 != s) * ((m' : ℚ) * 2 ^ e') - F64.sgn s1 * V * (F64.sgn s * X) =
          F64.sgn s1 * (F64.sgn s * ((m' : ℚ) * 2 ^ e' - V * X)) := by rw [sgn_bne]; ring
      rw [this, abs_sgn_mul, abs_sgn_mul]
    rw [hdiff, hvy]
    generalize (m' : ℚ) * 2 ^ e' = Y at *
    have hclose : (2 : ℚ) ^ (-1022 : Int) ≤ a * X → |Y - V * X| ≤ 2 ^ (-52 : Int) * (V * X) :=
      fun hn => compose_two V a X Y hV hX ha (hrel hn)
    constructor
    · intro hbig
      apply hclose
      rw [hT1] at hbig
      nlinarith
    · rcases le_or_gt ((2 : ℚ) ^ (-1022 : Int)) (a * X) with hn | hn
      · left; exact hclose hn
      · right
        have := htiny hn
        constructor
        · linarith
        · rw [hT1] at hT2; nlinarith

/-! ### the scaled double for products and quotients -/

/-- **C14, numeric core (product).** `fl(fl(v)·x)` for an integer `|v| ≤ 2^63` and a finite double `x = ±m·2^e`. -/
theorem mul_core (v : Int) (hv : v.natAbs ≤ 2 ^ 63) (s : Bool) (m : Nat) (e : Int) :
    (F64.mul (F64.ofInt v) (.fin s m e) = .inf (decide (v < 0) != s) ∧
      (2 : ℚ) ^ (1023 : Int) ≤ (1 + F64.u') * |(v : ℚ) * F64.val (.fin s m e)|) ∨
    ∃ (m' : Nat) (e' : Int), F64.mul (F64.ofInt v) (.fin s m e) = .fin (decide (v < 0) != s) m' e' ∧
      ((2 : ℚ) ^ (-1021 : Int) ≤ |(v : ℚ) * F64.val (.fin s m e)| →
        |F64.val (F64.mul (F64.ofInt v) (.fin s m e)) - (v : ℚ) * F64.val (.fin s m e)| ≤
          2 ^ (-52 : Int) * |(v : ℚ) * F64.val (.fin s m e)|) ∧
      (|F64.val (F64.mul (F64.ofInt v) (.fin s m e)) - (v : ℚ) * F64.val (.fin s m e)| ≤
          2 ^ (-52 : Int) * |(v : ℚ) * F64.val (.fin s m e)| ∨
        (|F64.val (F64.mul (F64.ofInt v) (.fin s m e))| < 1 ∧ |(v : ℚ) * F64.val (.fin s m e)| < 1)) := by
  have hX : (0 : ℚ) ≤ (m : ℚ) * 2 ^ e := by have := two_zpow_pos e; positivity
  have := scale_core v hv (F64.mul (F64.ofInt v) (.fin s m e)) s ((m : ℚ) * 2 ^ e) hX
    (fun m1 e1 h => by rw [h]; exact mul_rounds _ _ _ _ _ _)
  simpa only [F64.val] using this

/-- **C14, numeric core (quotient).** `fl(fl(v)/x)` for an integer `|v| ≤ 2^63` and a finite non-zero double. -/
theorem div_core (v : Int) (hv : v.natAbs ≤ 2 ^ 63) (s : Bool) (m : Nat) (e : Int) (hm : m ≠ 0) :
    (F64.div (F64.ofInt v) (.fin s m e) = .inf (decide (v < 0) != s) ∧
      (2 : ℚ) ^ (1023 : Int) ≤ (1 + F64.u') * |(v : ℚ) / F64.val (.fin s m e)|) ∨
    ∃ (m' : Nat) (e' : Int), F64.div (F64.ofInt v) (.fin s m e) = .fin (decide (v < 0) != s) m' e' ∧
      ((2 : ℚ) ^ (-1021 : Int) ≤ |(v : ℚ) / F64.val (.fin s m e)| →
        |F64.val (F64.div (F64.ofInt v) (.fin s m e)) - (v : ℚ) / F64.val (.fin s m e)| ≤
          2 ^ (-52 : Int) * |(v : ℚ) / F64.val (.fin s m e)|) ∧
      (|F64.val (F64.div (F64.ofInt v) (.fin s m e)) - (v : ℚ) / F64.val (.fin s m e)| ≤
          2 ^ (-52 : Int) * |(v : ℚ) / F64.val (.fin s m e)| ∨
        (|F64.val (F64.div (F64.ofInt v) (.fin s m e))| < 1 ∧ |(v : ℚ) / F64.val (.fin s m e)| < 1)) := by
  have hX : (0 : ℚ) ≤ ((m : ℚ) * 2 ^ e)⁻¹ := by have := two_zpow_pos e; positivity
  have := scale_core v hv (F64.div (F64.ofInt v) (.fin s m e)) s (((m : ℚ) * 2 ^ e)⁻¹) hX
    (fun m1 e1 h => by rw [h, ← div_eq_mul_inv]; exact div_rounds _ _ _ _ _ _ hm)
  have hq : (v : ℚ) / F64.val (.fin s m e) = (v : ℚ) * (F64.sgn s * ((m : ℚ) * 2 ^ e)⁻¹) := by
    simp only [F64.val]
    rw [div_eq_mul_inv, mul_inv]
    congr 2
    cases s <;> simp [F64.sgn]
  rw [hq]
  exact this

/-! ### cast, range gate -/

/-- The result of an interval scaling as a function of the computed double `y` (shape of `C14.dt_mul_classify`). -/
def scaleOutcome (lo hi : Int) (valid : Int → Prop) [DecidablePred valid] (y : F64) : Chk Int :=
  match y with
  | .inf _ => .error .NumericOverflow
  | .nan => .error .InvalidNumber
  | .fin s m e =>
    if valid (F64.toIntSat lo hi (.fin s m e)) then .ok (F64.toIntSat lo hi (.fin s m e))
    else .error .IntervalOutOfRange

/-- Cast + range gate on top of a numeric core: the outcome is determined by ONE rational `q` within relative error
    `2^-52` of the exact result `p` — `ok (truncQ q)` when that is in range, `IntervalOutOfRange` otherwise — unless
    the double overflowed.  In the normal range `q` is the value of the computed double itself. -/
theorem scaled_gate (lo hi : Int) (valid : Int → Prop) [DecidablePred valid]
    (hg1 : ∀ t, valid (clamp lo hi t) ↔ valid t) (hg2 : ∀ t, valid t → clamp lo hi t = t)
    (y : F64) (s' : Bool) (p : ℚ) (BIG : Prop)
    (hcore : (y = .inf s' ∧ BIG) ∨ ∃ (m' : Nat) (e' : Int), y = .fin s' m' e' ∧
      ((2 : ℚ) ^ (-1021 : Int) ≤ |p| → |F64.val y - p| ≤ 2 ^ (-52 : Int) * |p|) ∧
      (|F64.val y - p| ≤ 2 ^ (-52 : Int) * |p| ∨ (|F64.val y| < 1 ∧ |p| < 1))) :
    ((∃ q : ℚ, |q - p| ≤ 2 ^ (-52 : Int) * |p| ∧
        scaleOutcome lo hi valid y =
          if valid (truncQ q) then .ok (truncQ q) else .error .IntervalOutOfRange) ∨
      (scaleOutcome lo hi valid y = .error .NumericOverflow ∧ BIG)) ∧
    ((2 : ℚ) ^ (-1021 : Int) ≤ |p| →
      (|F64.val y - p| ≤ 2 ^ (-52 : Int) * |p| ∧
        scaleOutcome lo hi valid y =
          if valid (truncQ (F64.val y)) then .ok (truncQ (F64.val y)) else .error .IntervalOutOfRange) ∨
      (scaleOutcome lo hi valid y = .error .NumericOverflow ∧ BIG)) := by
  have gate : ∀ t : Int, (if valid (clamp lo hi t) then Except.ok (clamp lo hi t) else .error .IntervalOutOfRange : Chk Int) =
      if valid t then .ok t else .error .IntervalOutOfRange := by
    intro t
    by_cases h : valid t
    · rw [hg2 t h]
    · rw [if_neg h, if_neg (fun h' => h ((hg1 t).mp h'))]
  rcases hcore with ⟨hinf, hbig⟩ | ⟨m', e', hfin, hnorm, hcl⟩
  · subst hinf
    exact ⟨Or.inr ⟨rfl, hbig⟩, fun _ => Or.inr ⟨rfl, hbig⟩⟩
  · subst hfin
    have hout : scaleOutcome lo hi valid (.fin s' m' e') =
        if valid (truncQ (F64.val (.fin s' m' e'))) then .ok (truncQ (F64.val (.fin s' m' e')))
        else .error .IntervalOutOfRange := by
      unfold scaleOutcome
      simp only [toIntSat_fin]
      exact gate _
    refine ⟨Or.inl ?_, fun hn => Or.inl ⟨hnorm hn, hout⟩⟩
    rcases hcl with hc | ⟨h1, h2⟩
    · exact ⟨_, hc, hout⟩
    · refine ⟨p, by rw [sub_self, abs_zero]; have := two_zpow_pos (-52); positivity, ?_⟩
      rw [hout, truncQ_small _ h1, truncQ_small _ h2]

theorem gate_i64 (B : Int) (hB : 0 ≤ B ∧ B < 9223372036854775807) :
    (∀ t, (clamp I64_MIN I64_MAX t ≤ B ∧ clamp I64_MIN I64_MAX t ≥ -B) ↔ (t ≤ B ∧ t ≥ -B)) ∧
    (∀ t, (t ≤ B ∧ t ≥ -B) → clamp I64_MIN I64_MAX t = t) := by
  unfold clamp I64_MIN I64_MAX
  constructor
  · intro t; split
    · omega
    · split <;> omega
  · intro t h; rw [if_neg (by omega), if_neg (by omega)]

theorem gate_i32 (B : Int) (hB : 0 ≤ B ∧ B < 2147483647) :
    (∀ t, (clamp I32_MIN I32_MAX t ≤ B ∧ clamp I32_MIN I32_MAX t ≥ -B) ↔ (t ≤ B ∧ t ≥ -B)) ∧
    (∀ t, (t ≤ B ∧ t ≥ -B) → clamp I32_MIN I32_MAX t = t) := by
  unfold clamp I32_MIN I32_MAX
  constructor
  · intro t; split
    · omega
    · split <;> omega
  · intro t h; rw [if_neg (by omega), if_neg (by omega)]

theorem dt_mul_outcome (v : Int) (x : F64) :
    IntervalDT.mulF64 v x = scaleOutcome I64_MIN I64_MAX IntervalDT.isValidUsecs (F64.mul (F64.ofInt v) x) := by
  rw [C14.dt_mul_classify]; rfl

theorem dt_div_outcome (v : Int) (x : F64) (hx : x.isZero = false) :
    IntervalDT.divF64 v x = scaleOutcome I64_MIN I64_MAX IntervalDT.isValidUsecs (F64.div (F64.ofInt v) x) := by
  rw [C14.dt_div_classify v x hx]; rfl

theorem ym_mul_outcome (v : Int) (x : F64) :
    IntervalYM.mulF64 v x = scaleOutcome I32_MIN I32_MAX IntervalYM.isValidMonths (F64.mul (F64.ofInt v) x) := by
  rw [C14.ym_mul_classify]; rfl

theorem ym_div_outcome (v : Int) (x : F64) (hx : x.isZero = false) :
    IntervalYM.divF64 v x = scaleOutcome I32_MIN I32_MAX IntervalYM.isValidMonths (F64.div (F64.ofInt v) x) := by
  rw [C14.ym_div_classify v x hx]; rfl

theorem dt_gate : (∀ t, IntervalDT.isValidUsecs (clamp I64_MIN I64_MAX t) ↔ IntervalDT.isValidUsecs t) ∧
    (∀ t, IntervalDT.isValidUsecs t → clamp I64_MIN I64_MAX t = t) := by
  unfold IntervalDT.isValidUsecs INTERVAL_MAX_USECONDS
  exact gate_i64 8640000000000000000 (by omega)

theorem ym_gate : (∀ t, IntervalYM.isValidMonths (clamp I32_MIN I32_MAX t) ↔ IntervalYM.isValidMonths t) ∧
    (∀ t, IntervalYM.isValidMonths t → clamp I32_MIN I32_MAX t = t) := by
  unfold IntervalYM.isValidMonths INTERVAL_MAX_MONTH
  exact gate_i32 2136000000 (by omega)

end Lemmas
end SqlDt
