/-
  Lemmas/ReadingCanonStep: `Spec.collect` on the canonical reading of a lossless picture never fails and records exactly
  the components of the value (one token at a time, following `Spec.see`).
-/
import SqlDt.Lemmas.ReadingCanonDelim
namespace SqlDt.Lemmas
open SqlDt Gen Spec Parser

/-- which components are recorded -/
def flagsOf (p : Parts) : Seen :=
  { year := p.year.isSome, month := p.month.isSome, day := p.day.isSome, hour24 := p.hour.any (·.1),
    hour12 := p.hour.any (fun h => !h.1), minute := p.minute.isSome, second := p.second.isSome, frac := p.usec.isSome,
    meridian := p.meridianSeen, dow := p.dow.isSome, doy := p.doy.isSome }

/-- the recorded components are those of `c` -/
structure Agree (ty : Ty) (c : Comps) (p : Parts) : Prop where
  year : ∀ y, p.year = some y → y = c.year
  month : ∀ m, p.month = some m → (m : Int) = c.month
  day : ∀ d, p.day = some d → (d : Int) = c.day
  hour24 : ∀ h, p.hour = some (true, h) → (h : Int) = c.hour
  hour12 : ∀ h, p.hour = some (false, h) → (h : Int) = hour12Of c.hour
  minute : ∀ m, p.minute = some m → (m : Int) = c.minute
  second : ∀ x, p.second = some x → (x : Int) = c.sec
  usec : ∀ u, p.usec = some u → (u : Int) = c.usec
  meridian : p.meridian = if p.meridianSeen then some (decide (12 ≤ c.hour)) else none
  dow : ∀ w, p.dow = some w → (w : Int) = c.dow0 + 1
  doy : ∀ n, p.doy = some n → (n : Int) = c.doy
  neg : p.neg = if (ty = .YM ∧ p.year.isSome = true) ∨ (ty = .DT ∧ p.day.isSome = true) then c.neg else false

theorem agree_init (ty : Ty) (c : Comps) : Agree ty c {} := by
  constructor <;> simp

/-! ### the fraction digits read back -/

theorem foldl_canon_frac (w n : Nat) (hn : n < 100000000000) :
    ((pad w n).map (· - 48)).foldl (fun a d => a * 10 + d) 0 = n := by
  have h20 : n < 10 ^ 20 := by omega
  have hdig := pad_digs w n h20
  have h1 := foldDigits_frac ((pad w n).map (· - 48))
  unfold fracBytes at h1
  rw [map_sub_add _ hdig, foldDigits_pad w n hn] at h1
  exact_mod_cast h1.symm

theorem fracValue_canon (ty : Ty) (c : Comps) (hb : Bounds ty c) (q : Nat) (h6 : 6 ≤ q) (h9 : q ≤ 9) :
    ((fracValue ((pad q (fractionOf c.usec q).toNat).map (· - 48)) : Nat) : Int) = c.usec := by
  obtain ⟨f0, f1⟩ := fraction_bound ty c hb q h9
  have hu := hb.usec
  have h20 : (fractionOf c.usec q).toNat < 10 ^ 20 := by
    have : (10:Nat) ^ q ≤ 10 ^ 9 := Nat.pow_le_pow_right (by decide) h9
    have : (10:Nat) ^ 9 ≤ 10 ^ 20 := by decide
    omega
  have hlen := pad_length q (fractionOf c.usec q).toNat (by omega) (by omega) h20
  have hfold := foldl_canon_frac q (fractionOf c.usec q).toNat (by
    have : (10:Nat) ^ q ≤ 10 ^ 9 := Nat.pow_le_pow_right (by decide) h9
    have : (10:Nat) ^ 9 = 1000000000 := by decide
    omega)
  unfold fracValue
  simp only [List.length_map, hlen, hfold]
  have hq : q = 6 ∨ q = 7 ∨ q = 8 ∨ q = 9 := by omega
  rcases hq with rfl | rfl | rfl | rfl <;> simp [fractionOf] at f0 f1 ⊢ <;> omega

/-! ### one token -/

theorem isMinus_signOf (b : Bool) : isMinus (signOf b) = b := by cases b <;> rfl
theorem isMinus_none : isMinus Sign.none = false := rfl

set_option hygiene false in
macro "agree_rest" : tactic => `(tactic| first
  | exact hag.year | exact hag.month | exact hag.day | exact hag.hour24 | exact hag.hour12 | exact hag.minute
  | exact hag.second | exact hag.usec | exact hag.meridian | exact hag.dow | exact hag.doy | exact hag.neg)

theorem step_canon (ty : Ty) (now : Clock) (c : Comps) (hb : Bounds ty c) (p : Parts) (s' : Seen) (f : Field)
    (hwf : Field.WellFormed f) (hsee : see ty (flagsOf p) f = some s') (hag : Agree ty c p) :
    ∃ p', step ty now p f (canonLex ty c f) = some p' ∧ flagsOf p' = s' ∧ Agree ty c p' := by
  obtain ⟨happ, hy4, hf6⟩ := see_facts ty _ _ f hsee
  have hy := hb.year; have hm := hb.month; have hd := hb.day; have hh := hb.hour; have hmi := hb.minute
  have hs := hb.sec; have hw := hb.dow0; have hdo := hb.doy
  cases f with
  | Invalid => simp [applicable] at happ
  | WeekOfMonth => simp [applicable] at happ
  | WeekOfYear => simp [applicable] at happ
  | Blank n => simp only [see, happ, Bool.not_true, Bool.false_eq_true, ↓reduceIte, Option.some.injEq] at hsee; subst hsee; exact ⟨p, by simp [step, happ], rfl, hag⟩
  | Hyphen => simp only [see, happ, Bool.not_true, Bool.false_eq_true, ↓reduceIte, Option.some.injEq] at hsee; subst hsee; exact ⟨p, by simp [step, happ], rfl, hag⟩
  | Colon => simp only [see, happ, Bool.not_true, Bool.false_eq_true, ↓reduceIte, Option.some.injEq] at hsee; subst hsee; exact ⟨p, by simp [step, happ], rfl, hag⟩
  | Slash => simp only [see, happ, Bool.not_true, Bool.false_eq_true, ↓reduceIte, Option.some.injEq] at hsee; subst hsee; exact ⟨p, by simp [step, happ], rfl, hag⟩
  | Backslash => simp only [see, happ, Bool.not_true, Bool.false_eq_true, ↓reduceIte, Option.some.injEq] at hsee; subst hsee; exact ⟨p, by simp [step, happ], rfl, hag⟩
  | Comma => simp only [see, happ, Bool.not_true, Bool.false_eq_true, ↓reduceIte, Option.some.injEq] at hsee; subst hsee; exact ⟨p, by simp [step, happ], rfl, hag⟩
  | Dot => simp only [see, happ, Bool.not_true, Bool.false_eq_true, ↓reduceIte, Option.some.injEq] at hsee; subst hsee; exact ⟨p, by simp [step, happ], rfl, hag⟩
  | Semicolon => simp only [see, happ, Bool.not_true, Bool.false_eq_true, ↓reduceIte, Option.some.injEq] at hsee; subst hsee; exact ⟨p, by simp [step, happ], rfl, hag⟩
  | T => simp only [see, happ, Bool.not_true, Bool.false_eq_true, ↓reduceIte, Option.some.injEq] at hsee; subst hsee; exact ⟨p, by simp [step, happ], rfl, hag⟩
  | Minute =>
    simp only [see, happ, Bool.not_true, Bool.false_eq_true, ↓reduceIte] at hsee
    split at hsee
    · cases hsee
    · rename_i hns
      simp only [Option.some.injEq] at hsee; subst hsee
      have hns' : p.minute.isSome = false := by simpa [flagsOf] using hns
      refine ⟨{ p with minute := some c.minute.toNat }, ?_, ?_, ?_⟩
      · simp [step, happ, canonLex, numLex, hns', isMinus_none]
      · simp [flagsOf]
      · constructor
        all_goals first | agree_rest | (intro x hx; simp only [Option.some.injEq] at hx; subst hx; omega)
  | Second =>
    simp only [see, happ, Bool.not_true, Bool.false_eq_true, ↓reduceIte] at hsee
    split at hsee
    · cases hsee
    · rename_i hns
      simp only [Option.some.injEq] at hsee; subst hsee
      have hns' : p.second.isSome = false := by simpa [flagsOf] using hns
      refine ⟨{ p with second := some c.sec.toNat }, ?_, ?_, ?_⟩
      · simp [step, happ, canonLex, numLex, hns', isMinus_none]
      · simp [flagsOf]
      · constructor
        all_goals first | agree_rest | (intro x hx; simp only [Option.some.injEq] at hx; subst hx; omega)
  | DayOfYear =>
    simp only [see, happ, Bool.not_true, Bool.false_eq_true, ↓reduceIte] at hsee
    split at hsee
    · cases hsee
    · rename_i hns
      simp only [Option.some.injEq] at hsee; subst hsee
      have hns' : p.doy.isSome = false := by simpa [flagsOf] using hns
      refine ⟨{ p with doy := some c.doy.toNat }, ?_, ?_, ?_⟩
      · simp [step, happ, canonLex, numLex, hns', isMinus_none]
      · simp [flagsOf]
      · constructor
        all_goals first | agree_rest | (intro x hx; simp only [Option.some.injEq] at hx; subst hx; omega)
  | Month =>
    simp only [see, happ, Bool.not_true, Bool.false_eq_true, ↓reduceIte] at hsee
    split at hsee
    · cases hsee
    · rename_i hns
      simp only [Option.some.injEq] at hsee; subst hsee
      have hns' : p.month.isSome = false := by simpa [flagsOf] using hns
      refine ⟨{ p with month := some c.month.toNat }, ?_, ?_, ?_⟩
      · simp [step, happ, canonLex, numLex, hns', isMinus_none]
      · simp [flagsOf]
      · constructor
        all_goals first | agree_rest | (intro x hx; simp only [Option.some.injEq] at hx; subst hx; omega)
  | MonthName style =>
    simp only [see, happ, Bool.not_true, Bool.false_eq_true, ↓reduceIte] at hsee
    split at hsee
    · cases hsee
    · rename_i hns
      simp only [Option.some.injEq] at hsee; subst hsee
      have hns' : p.month.isSome = false := by simpa [flagsOf] using hns
      refine ⟨{ p with month := some c.month.toNat }, ?_, ?_, ?_⟩
      · simp [step, happ, canonLex, hns']
      · simp [flagsOf]
      · constructor
        all_goals first | agree_rest | (intro x hx; simp only [Option.some.injEq] at hx; subst hx; omega)
  | DayName style =>
    simp only [see, happ, Bool.not_true, Bool.false_eq_true, ↓reduceIte] at hsee
    split at hsee
    · cases hsee
    · rename_i hns
      simp only [Option.some.injEq] at hsee; subst hsee
      have hns' : p.dow.isSome = false := by simpa [flagsOf] using hns
      refine ⟨{ p with dow := some (c.dow0 + 1).toNat }, ?_, ?_, ?_⟩
      · simp [step, happ, canonLex, hns']
      · simp [flagsOf]
      · constructor
        all_goals first | agree_rest | (intro x hx; simp only [Option.some.injEq] at hx; subst hx; omega)
  | DayOfWeek =>
    simp only [see, happ, Bool.not_true, Bool.false_eq_true, ↓reduceIte] at hsee
    split at hsee
    · cases hsee
    · rename_i hns
      simp only [Option.some.injEq] at hsee; subst hsee
      have hns' : p.dow.isSome = false := by simpa [flagsOf] using hns
      refine ⟨{ p with dow := some (c.dow0 + 1).toNat }, ?_, ?_, ?_⟩
      · have h1 : ¬ ((c.dow0 + 1).toNat < 1) := by omega
        have h2 : ¬ ((c.dow0 + 1).toNat > 7) := by omega
        simp [step, happ, canonLex, hns', h1, h2]
      · simp [flagsOf]
      · constructor
        all_goals first | agree_rest | (intro x hx; simp only [Option.some.injEq] at hx; subst hx; omega)
  | Year w =>
    simp only [see, happ, Bool.not_true, Bool.false_eq_true, ↓reduceIte] at hsee
    split at hsee
    · cases hsee
    · rename_i hns
      simp only [Option.some.injEq] at hsee; subst hsee
      have hns' : p.year.isSome = false := by
        simp only [flagsOf, Bool.or_eq_true, not_or, Bool.not_eq_true] at hns; exact hns.1
      refine ⟨{ p with year := some c.year, neg := (if ty = .YM then c.neg else false) }, ?_, ?_, ?_⟩
      · by_cases hym : ty = .YM
        · subst hym
          have : ((c.year.toNat : Nat) : Int) = c.year := by omega
          simp [step, happ, canonLex, numLex, hns', isMinus_signOf, completeYear, this]
        · have hd4 : hasDate ty = true := by
            have : (hasDate ty || decide (ty = .YM)) = true := happ
            simpa [hym] using this
          have hw4 := hy4 w rfl hd4
          subst hw4
          simp only [hym, ↓reduceIte] at hy
          have : (((c.year % 10000).toNat : Nat) : Int) = c.year := by omega
          simp [step, happ, canonLex, numLex, hns', isMinus_none, completeYear, hym, this]
      · simp [flagsOf]
      · have hneg := hag.neg
        constructor
        all_goals first
          | exact hag.month | exact hag.day | exact hag.hour24 | exact hag.hour12 | exact hag.minute | exact hag.second
          | exact hag.usec | exact hag.meridian | exact hag.dow | exact hag.doy
          | (intro x hx; simp only [Option.some.injEq] at hx; subst hx; rfl)
          | skip
        · -- neg
          by_cases hym : ty = .YM
          · simp [hym]
          · have hdt : ty ≠ .DT := by
              intro h; subst h; simp [applicable, hasDate] at happ
            simp [hym, hdt]
  | Day =>
    simp only [see, happ, Bool.not_true, Bool.false_eq_true, ↓reduceIte] at hsee
    split at hsee
    · cases hsee
    · rename_i hns
      simp only [Option.some.injEq] at hsee; subst hsee
      have hns' : p.day.isSome = false := by simpa [flagsOf] using hns
      refine ⟨{ p with day := some c.day.toNat, neg := (if ty = .DT then c.neg else false) }, ?_, ?_, ?_⟩
      · by_cases hdt : ty = .DT
        · subst hdt
          simp [step, happ, canonLex, numLex, hns', isMinus_signOf]
        · simp [step, happ, canonLex, numLex, hns', isMinus_none, hdt]
      · simp [flagsOf]
      · constructor
        all_goals first
          | exact hag.month | exact hag.year | exact hag.hour24 | exact hag.hour12 | exact hag.minute | exact hag.second
          | exact hag.usec | exact hag.meridian | exact hag.dow | exact hag.doy
          | (intro x hx; simp only [Option.some.injEq] at hx; subst hx; omega)
          | skip
        · by_cases hdt : ty = .DT
          · simp [hdt]
          · have hym : ty ≠ .YM := by
              intro h; subst h; simp [applicable, hasDate] at happ
            simp [hym, hdt]
  | Hour24 =>
    simp only [see, happ, Bool.not_true, Bool.false_eq_true, ↓reduceIte] at hsee
    split at hsee
    · cases hsee
    · rename_i hns
      simp only [Option.some.injEq] at hsee; subst hsee
      simp only [flagsOf, Bool.or_eq_true, not_or, Bool.not_eq_true] at hns
      have hnone : p.hour = none := by
        cases hh' : p.hour with
        | none => rfl
        | some v => obtain ⟨a, b⟩ := v; cases a <;> simp [hh'] at hns
      refine ⟨{ p with hour := some (true, c.hour.toNat) }, ?_, ?_, ?_⟩
      · simp [step, happ, canonLex, numLex, hnone, hns.2, isMinus_none]
      · simp [flagsOf, hnone]
      · constructor
        all_goals first
          | exact hag.month | exact hag.year | exact hag.day | exact hag.minute | exact hag.second
          | exact hag.usec | exact hag.meridian | exact hag.dow | exact hag.doy | exact hag.neg
          | (intro x hx; simp only [Option.some.injEq, Prod.mk.injEq, true_and] at hx; subst hx; omega)
          | (intro x hx; simp at hx)
  | Hour12 =>
    simp only [see, happ, Bool.not_true, Bool.false_eq_true, ↓reduceIte] at hsee
    split at hsee
    · cases hsee
    · rename_i hns
      simp only [Option.some.injEq] at hsee; subst hsee
      simp only [flagsOf, Bool.or_eq_true, not_or, Bool.not_eq_true] at hns
      have hnone : p.hour = none := by
        cases hh' : p.hour with
        | none => rfl
        | some v => obtain ⟨a, b⟩ := v; cases a <;> simp [hh'] at hns
      have hr := hour12Of_range c.hour hh.1
      refine ⟨{ p with hour := some (false, (hour12Of c.hour).toNat) }, ?_, ?_, ?_⟩
      · have h1 : ¬ ((hour12Of c.hour).toNat < 1) := by omega
        have h2 : ¬ ((hour12Of c.hour).toNat > 12) := by omega
        simp [step, happ, canonLex, numLex, hnone, isMinus_none, h1, h2]
      · simp [flagsOf, hnone]
      · constructor
        all_goals first
          | exact hag.month | exact hag.year | exact hag.day | exact hag.minute | exact hag.second
          | exact hag.usec | exact hag.meridian | exact hag.dow | exact hag.doy | exact hag.neg
          | (intro x hx; simp only [Option.some.injEq, Prod.mk.injEq, true_and] at hx; subst hx; omega)
          | (intro x hx; simp at hx)
  | AmPm style =>
    simp only [see, happ, Bool.not_true, Bool.false_eq_true, ↓reduceIte] at hsee
    split at hsee
    · cases hsee
    · rename_i hns
      simp only [Option.some.injEq] at hsee; subst hsee
      simp only [flagsOf, Bool.or_eq_true, not_or, Bool.not_eq_true] at hns
      refine ⟨{ p with meridianSeen := true, meridian := some (decide (12 ≤ c.hour)) }, ?_, ?_, ?_⟩
      · simp [step, happ, canonLex, hns.1, hns.2]
      · simp [flagsOf]
      · constructor
        all_goals first
          | exact hag.month | exact hag.year | exact hag.day | exact hag.minute | exact hag.second
          | exact hag.hour24 | exact hag.hour12 | exact hag.usec | exact hag.dow | exact hag.doy | exact hag.neg
          | simp
  | Fraction q =>
    simp only [see, happ, Bool.not_true, Bool.false_eq_true, ↓reduceIte] at hsee
    split at hsee
    · cases hsee
    · rename_i hns
      simp only [Option.some.injEq] at hsee; subst hsee
      simp only [flagsOf, Bool.or_eq_true, not_or, Bool.not_eq_true] at hns
      have h6 := hf6 q rfl
      have h9 : q.getD 6 ≤ 9 := by
        cases q with
        | none => simp
        | some v => simp [Field.WellFormed] at hwf; simpa using hwf.2
      refine ⟨{ p with usec := some (fracValue ((pad (q.getD 6) (fractionOf c.usec (q.getD 6)).toNat).map (· - 48))) }, ?_, ?_, ?_⟩
      · simp [step, happ, canonLex, hns.1]
      · simp [flagsOf]
      · constructor
        all_goals first
          | exact hag.month | exact hag.year | exact hag.day | exact hag.minute | exact hag.second
          | exact hag.hour24 | exact hag.hour12 | exact hag.meridian | exact hag.dow | exact hag.doy | exact hag.neg
          | (intro x hx; simp only [Option.some.injEq] at hx; subst hx; exact fracValue_canon ty c hb (q.getD 6) h6 h9)


/-! ### the whole picture -/

theorem collect_canon (ty : Ty) (now : Clock) (c : Comps) (hb : Bounds ty c) : ∀ (fields : List Field) (p : Parts) (s' : Seen),
    seeAll ty (flagsOf p) fields = some s' → (∀ f ∈ fields, Field.WellFormed f) → Agree ty c p →
    ∃ p', collect ty now p (canon ty c fields) = some p' ∧ flagsOf p' = s' ∧ Agree ty c p'
  | [], p, s', h, _, hag => by
    simp only [seeAll, Option.some.injEq] at h
    exact ⟨p, rfl, h, hag⟩
  | f :: rest, p, s', h, hwf, hag => by
    obtain ⟨s1, h1, h2⟩ := seeAll_cons ty _ s' f rest h
    obtain ⟨p1, hs1, hf1, ha1⟩ := step_canon ty now c hb p s1 f (hwf f (by simp)) h1 hag
    rw [← hf1] at h2
    obtain ⟨p', hc, hf', ha'⟩ := collect_canon ty now c hb rest p1 s' h2 (fun g hg => hwf g (by simp [hg])) ha1
    refine ⟨p', ?_, hf', ha'⟩
    show collect ty now p ((f, canonLex ty c f) :: canon ty c rest) = some p'
    simp only [collect, hs1, Option.bind_some, hc]

end SqlDt.Lemmas
