/-
  Lemmas/UnitsSpec: the closed forms of Spec/Units are what the property says — the greatest unit boundary not after
  the value (truncation), and one of the two adjacent boundaries chosen by the documented midpoint (rounding).
  Pure calendar reasoning over Spec/Calendar; nothing here mentions the crate's code.
-/
import SqlDt.Lemmas.Calendar
import SqlDt.Spec.Units
namespace SqlDt.Lemmas
open SqlDt Spec

/-! ### Calendar facts used below (helpers in `SqlDt.Lemmas.USpec`) -/

namespace USpec
open Cal

/-- `≤` on day numbers of real dates, as arithmetic on the components. -/
theorem dn_le_iff (y m d y' m' d' : Int) (h : IsDate y m d) (h' : IsDate y' m' d') :
    dayNumber y m d ≤ dayNumber y' m' d' ↔ (y < y' ∨ (y = y' ∧ (m < m' ∨ (m = m' ∧ d ≤ d')))) := by
  have := dayNumber_lt_iff y' m' d' y m d h' h
  unfold lexLt at this
  simp only [] at this
  omega

/-- `<` on day numbers of real dates, as arithmetic on the components. -/
theorem dn_lt_iff (y m d y' m' d' : Int) (h : IsDate y m d) (h' : IsDate y' m' d') :
    dayNumber y m d < dayNumber y' m' d' ↔ (y < y' ∨ (y = y' ∧ (m < m' ∨ (m = m' ∧ d < d')))) := by
  have := dayNumber_lt_iff y m d y' m' d' h h'
  unfold lexLt at this
  simp only [] at this
  exact this

theorem dn_day (y m d : Int) : dayNumber y m d = dayNumber y m 1 + (d - 1) := by
  unfold dayNumber; omega

theorem jan1_eq (y : Int) : dayNumber y 1 1 = daysBeforeYear y - 719162 := by
  unfold dayNumber daysBeforeMonth; simp only [↓reduceIte]
  have : ¬ ((1 : Int) > 2 ∧ isLeap y = true) := by omega
  rw [if_neg this]; omega

theorem jan1_succ (y : Int) : dayNumber (y + 1) 1 1 = dayNumber y 1 1 + 365 + leapI y := by
  rw [jan1_eq, jan1_eq, dby_succ]; omega

theorem jan1_mono (y y' : Int) (h : y ≤ y') : dayNumber y 1 1 + 365 * (y' - y) ≤ dayNumber y' 1 1 := by
  rw [jan1_eq, jan1_eq]; have := dby_mono y y' h; omega

/-- A real date lies inside its year. -/
theorem in_year (y m d : Int) (h : IsDate y m d) :
    dayNumber y 1 1 ≤ dayNumber y m d ∧ dayNumber y m d < dayNumber (y + 1) 1 1 := by
  obtain ⟨h1, h2, h3, h4⟩ := h
  have a := dbm_nonneg y m ⟨h1, h2⟩
  have b := dbm_dim_le y m ⟨h1, h2⟩
  rw [jan1_succ, jan1_eq]; unfold dayNumber; omega

/-- From 1 July on, a date is at least 181 days into its year. -/
theorem second_half (y m d : Int) (h : IsDate y m d) (hm : m ≥ 7) : dayNumber y 1 1 + 181 ≤ dayNumber y m d := by
  obtain ⟨h1, h2, h3, h4⟩ := h
  have hl := leapI_spec y
  rw [jan1_eq]; unfold dayNumber
  rcases month_table y m ⟨h1, h2⟩ with t | t | t | t | t | t | t | t | t | t | t | t <;> omega

theorem isDate_first (y m : Int) (hm : 1 ≤ m ∧ m ≤ 12) : IsDate y m 1 := by
  have := dim_range y m; exact ⟨hm.1, hm.2, by omega, by omega⟩

theorem month_succ (y m : Int) (hm : 1 ≤ m ∧ m ≤ 11) : dayNumber y (m + 1) 1 = dayNumber y m 1 + dim y m := by
  unfold dayNumber; rw [dbm_succ y m hm]; omega

theorem dec_succ (y : Int) : dayNumber (y + 1) 1 1 = dayNumber y 12 1 + dim y 12 := by
  rw [jan1_succ, jan1_eq]; unfold dayNumber
  have hl := leapI_spec y
  rcases month_table y 12 ⟨by omega, by omega⟩ with t | t | t | t | t | t | t | t | t | t | t | t <;> omega

/-- A real date not before `(y, m, d)` and before the first of the following month lies in month `(y, m)`. -/
theorem same_month (y m d y' m' d' : Int) (h : IsDate y m d) (h' : IsDate y' m' d')
    (hle : dayNumber y m d ≤ dayNumber y' m' d') (hlt : dayNumber y' m' d' < dayNumber y m 1 + dim y m) :
    y' = y ∧ m' = m := by
  have ⟨h1, h2, h3, h4⟩ := h
  have ⟨h1', h2', h3', h4'⟩ := h'
  rw [dn_le_iff _ _ _ _ _ _ h h'] at hle
  by_cases c : m = 12
  · subst c
    rw [← dec_succ] at hlt
    rw [dn_lt_iff _ _ _ _ _ _ h' (isDate_first (y + 1) 1 (by omega))] at hlt
    omega
  · rw [← month_succ y m ⟨h1, by omega⟩] at hlt
    rw [dn_lt_iff _ _ _ _ _ _ h' (isDate_first y (m + 1) (by omega))] at hlt
    omega

/-! ### `exists_date`: 400-year periodicity + the successor rule -/

theorem isLeap_shift (y k : Int) : isLeap (y - 400 * k) = isLeap y := by
  unfold isLeap
  have h4 : (y - 400 * k) % 4 = y % 4 := by omega
  have h100 : (y - 400 * k) % 100 = y % 100 := by omega
  have h400 : (y - 400 * k) % 400 = y % 400 := by omega
  rw [h4, h100, h400]

theorem shift (y m d k : Int) (h : IsDate y m d) :
    IsDate (y - 400 * k) m d ∧ dayNumber (y - 400 * k) m d = dayNumber y m d - 146097 * k := by
  constructor
  · unfold IsDate dim at *; rw [isLeap_shift]; exact h
  · unfold dayNumber daysBeforeMonth; rw [isLeap_shift]
    unfold daysBeforeYear; omega

theorem exists_date_nat (k : Nat) : ∃ y m d, IsDate y m d ∧ dayNumber y m d = (k : Int) := by
  induction k with
  | zero => exact ⟨1970, 1, 1, by decide, by decide⟩
  | succ k ih =>
    obtain ⟨y, m, d, h, e⟩ := ih
    exact ⟨_, _, _, nextDay_isDate y m d h, by rw [dayNumber_nextDay y m d h, e]; omega⟩

end USpec

open USpec Cal

/-- Every day number is the day number of a real calendar date (the calendar extends proleptically in both directions). -/
theorem exists_date (n : Int) : ∃ y m d, IsDate y m d ∧ dayNumber y m d = n := by
  obtain ⟨y, m, d, h, e⟩ := exists_date_nat (n + 146097 * (-n).toNat).toNat
  obtain ⟨h', e'⟩ := shift y m d (-n).toNat h
  exact ⟨_, m, d, h', by rw [e', e]; omega⟩

namespace USpec

/-! ### Truncation, unit by unit -/

theorem trunc_century (y m d : Int) (h : IsDate y m d) :
    GreatestLE (IsBoundary .century) (dayNumber y m d) (dayNumber ((y - 1) / 100 * 100 + 1) 1 1) := by
  have ⟨h1, h2, h3, h4⟩ := h
  have ht : IsDate ((y - 1) / 100 * 100 + 1) 1 1 := isDate_first _ 1 (by omega)
  refine ⟨⟨_, 1, 1, ht, rfl, rfl, rfl, by omega⟩, ?_, ?_⟩
  · rw [dn_le_iff _ _ _ _ _ _ ht h]; omega
  · rintro b' ⟨y', m', d', hd', rfl, hm', hd1, hc⟩ hle
    rw [dn_le_iff _ _ _ _ _ _ hd' h] at hle
    rw [dn_le_iff _ _ _ _ _ _ hd' ht]
    omega

theorem trunc_year (y m d : Int) (h : IsDate y m d) :
    GreatestLE (IsBoundary .year) (dayNumber y m d) (dayNumber y 1 1) := by
  have ⟨h1, h2, h3, h4⟩ := h
  have ht : IsDate y 1 1 := isDate_first _ 1 (by omega)
  refine ⟨⟨_, 1, 1, ht, rfl, rfl, rfl⟩, ?_, ?_⟩
  · rw [dn_le_iff _ _ _ _ _ _ ht h]; omega
  · rintro b' ⟨y', m', d', hd', rfl, hm', hd1⟩ hle
    rw [dn_le_iff _ _ _ _ _ _ hd' h] at hle
    rw [dn_le_iff _ _ _ _ _ _ hd' ht]
    omega

theorem trunc_quarter (y m d : Int) (h : IsDate y m d) :
    GreatestLE (IsBoundary .quarter) (dayNumber y m d) (dayNumber y ((m - 1) / 3 * 3 + 1) 1) := by
  have ⟨h1, h2, h3, h4⟩ := h
  have ht : IsDate y ((m - 1) / 3 * 3 + 1) 1 := isDate_first _ _ (by omega)
  refine ⟨⟨_, _, 1, ht, rfl, rfl, by omega⟩, ?_, ?_⟩
  · rw [dn_le_iff _ _ _ _ _ _ ht h]; omega
  · rintro b' ⟨y', m', d', hd', rfl, hd1, hm'⟩ hle
    rw [dn_le_iff _ _ _ _ _ _ hd' h] at hle
    rw [dn_le_iff _ _ _ _ _ _ hd' ht]
    omega

theorem trunc_month (y m d : Int) (h : IsDate y m d) :
    GreatestLE (IsBoundary .month) (dayNumber y m d) (dayNumber y m 1) := by
  have ⟨h1, h2, h3, h4⟩ := h
  have ht : IsDate y m 1 := isDate_first _ _ (by omega)
  refine ⟨⟨_, _, 1, ht, rfl, rfl⟩, ?_, ?_⟩
  · rw [dn_le_iff _ _ _ _ _ _ ht h]; omega
  · rintro b' ⟨y', m', d', hd', rfl, hd1⟩ hle
    have hd1 : d' = 1 := hd1
    rw [dn_le_iff _ _ _ _ _ _ hd' h] at hle
    rw [dn_le_iff _ _ _ _ _ _ hd' ht]
    omega

theorem trunc_isoWeek (n : Int) : GreatestLE (IsBoundary .isoWeek) n (n - (n + 3) % 7) := by
  obtain ⟨y, m, d, h, e⟩ := exists_date (n - (n + 3) % 7)
  refine ⟨⟨y, m, d, h, e, ?_⟩, by omega, ?_⟩
  · show (_ + 3) % 7 = 0; omega
  · rintro b' ⟨y', m', d', hd', rfl, hw⟩ hle
    have hw : (dayNumber y' m' d' + 3) % 7 = 0 := hw
    omega

theorem trunc_sundayWeek (n : Int) : GreatestLE (IsBoundary .sundayStartWeek) n (n - (n + 4) % 7) := by
  obtain ⟨y, m, d, h, e⟩ := exists_date (n - (n + 4) % 7)
  refine ⟨⟨y, m, d, h, e, ?_⟩, by omega, ?_⟩
  · show (_ + 4) % 7 = 0; omega
  · rintro b' ⟨y', m', d', hd', rfl, hw⟩ hle
    have hw : (dayNumber y' m' d' + 4) % 7 = 0 := hw
    omega

/-- A real date whose day number lies in `[jan1 y, n]` for a date `n` of year `y` is a date of year `y`. -/
theorem year_of_between (y m d y2 m2 d2 : Int) (h : IsDate y m d) (h2 : IsDate y2 m2 d2)
    (a : dayNumber y 1 1 ≤ dayNumber y2 m2 d2) (b : dayNumber y2 m2 d2 ≤ dayNumber y m d) : y2 = y := by
  have ⟨_, _, _, _⟩ := h
  have ⟨_, _, _, _⟩ := h2
  rw [dn_le_iff _ _ _ _ _ _ (isDate_first y 1 (by omega)) h2] at a
  rw [dn_le_iff _ _ _ _ _ _ h2 h] at b
  omega

theorem trunc_week (y m d : Int) (h : IsDate y m d) :
    GreatestLE (IsBoundary .week) (dayNumber y m d)
      (dayNumber y m d - (dayNumber y m d - dayNumber y 1 1) % 7) := by
  have ⟨hlo, hhi⟩ := in_year y m d h
  obtain ⟨y2, m2, d2, h2, e2⟩ := exists_date (dayNumber y m d - (dayNumber y m d - dayNumber y 1 1) % 7)
  have hy2 : y2 = y := year_of_between y m d y2 m2 d2 h h2 (by omega) (by omega)
  subst hy2
  refine ⟨⟨y2, m2, d2, h2, e2, ?_⟩, by omega, ?_⟩
  · show (_ - dayNumber y2 1 1) % 7 = 0; omega
  · rintro b' ⟨y', m', d', hd', rfl, hw⟩ hle
    have hw : (dayNumber y' m' d' - dayNumber y' 1 1) % 7 = 0 := hw
    have hle' := hle
    rw [dn_le_iff _ _ _ _ _ _ hd' h] at hle'
    by_cases c : y' = y2
    · subst c; omega
    · have a := (in_year y' m' d' hd').2
      have b := jan1_mono (y' + 1) y2 (by omega)
      omega

theorem trunc_msw (y m d : Int) (h : IsDate y m d) :
    GreatestLE (IsBoundary .monthStartWeek) (dayNumber y m d) (dayNumber y m d - (d - 1) % 7) := by
  have ⟨h1, h2, h3, h4⟩ := h
  have hr := dim_range y m
  have e : dayNumber y m d - (d - 1) % 7 = dayNumber y m (d - (d - 1) % 7) := by
    rw [dn_day y m d, dn_day y m (d - (d - 1) % 7)]; omega
  have ht : IsDate y m (d - (d - 1) % 7) := ⟨h1, h2, by omega, by omega⟩
  rw [e]
  refine ⟨⟨y, m, _, ht, rfl, ?_⟩, ?_, ?_⟩
  · show _ = 1 ∨ _ = 8 ∨ _ = 15 ∨ _ = 22 ∨ _ = 29; omega
  · rw [dn_le_iff _ _ _ _ _ _ ht h]; omega
  · rintro b' ⟨y', m', d', hd', rfl, hw⟩ hle
    have hw : d' = 1 ∨ d' = 8 ∨ d' = 15 ∨ d' = 22 ∨ d' = 29 := hw
    rw [dn_le_iff _ _ _ _ _ _ hd' h] at hle
    rw [dn_le_iff _ _ _ _ _ _ hd' ht]
    omega

/-! #### The ISO year -/

theorem iso_bounds (Y : Int) :
    dayNumber Y 1 1 - 3 ≤ isoYearStart Y ∧ isoYearStart Y ≤ dayNumber Y 1 1 + 3 ∧ (isoYearStart Y + 3) % 7 = 0 := by
  unfold isoYearStart; simp only []; rw [dn_day Y 1 4]; omega

theorem iso_mono (Y Y' : Int) (h : Y < Y') : isoYearStart Y < isoYearStart Y' := by
  have := iso_bounds Y; have := iso_bounds Y'; have := jan1_mono Y Y' (by omega); omega

theorem iso_mono_le (Y Y' : Int) (h : Y ≤ Y') : isoYearStart Y ≤ isoYearStart Y' := by
  by_cases c : Y = Y'
  · subst c; omega
  · have := iso_mono Y Y' (by omega); omega

theorem iso_lt_rev (Y Y' : Int) (h : isoYearStart Y < isoYearStart Y') : Y < Y' := by
  apply Decidable.byContradiction; intro c
  have := iso_mono_le Y' Y (by omega); omega

theorem iso_boundary (Y : Int) : IsBoundary .isoYear (isoYearStart Y) := by
  obtain ⟨y, m, d, h, e⟩ := exists_date (isoYearStart Y)
  refine ⟨y, m, d, h, e, ?_, Y, ?_⟩
  · exact (iso_bounds Y).2.2
  · unfold isoYearStart; simp only []; omega

theorem iso_boundary_inv (b : Int) (h : IsBoundary .isoYear b) : ∃ Y, b = isoYearStart Y := by
  obtain ⟨y, m, d, _, _, hw, Y, h1, h2⟩ := h
  refine ⟨Y, ?_⟩
  unfold isoYearStart; simp only []; omega

theorem trunc_isoYear (y m d : Int) (h : IsDate y m d) :
    GreatestLE (IsBoundary .isoYear) (dayNumber y m d)
      (if isoYearStart (y + 1) ≤ dayNumber y m d then isoYearStart (y + 1)
       else if isoYearStart y ≤ dayNumber y m d then isoYearStart y else isoYearStart (y - 1)) := by
  have ⟨hlo, hhi⟩ := in_year y m d h
  have b0 := iso_bounds (y - 1)
  have b3 := iso_bounds (y + 2)
  have j0 := jan1_mono (y - 1) y (by omega)
  have j2 := jan1_mono (y + 1) (y + 2) (by omega)
  refine ⟨?_, ?_, ?_⟩
  · split
    · exact iso_boundary _
    · split <;> exact iso_boundary _
  · split
    · assumption
    · split
      · assumption
      · omega
  · intro b' hb' hle
    obtain ⟨Y, rfl⟩ := iso_boundary_inv b' hb'
    have hY : Y < y + 2 := iso_lt_rev _ _ (by omega)
    split
    · exact iso_mono_le _ _ (by omega)
    · have hY1 : Y < y + 1 := iso_lt_rev _ _ (by omega)
      split
      · exact iso_mono_le _ _ (by omega)
      · have hY2 : Y < y := iso_lt_rev _ _ (by omega)
        exact iso_mono_le _ _ (by omega)

end USpec

open USpec

/-- TRUNCATION = greatest boundary ≤ the day, for every unit and every real date (any year). -/
theorem truncOf_greatest (u : TUnit) (y m d : Int) (h : IsDate y m d) :
    GreatestLE (IsBoundary u) (dayNumber y m d) (truncOf u (y, m, d) (dayNumber y m d)) := by
  cases u
  · exact trunc_century y m d h
  · exact trunc_year y m d h
  · exact trunc_isoYear y m d h
  · exact trunc_quarter y m d h
  · exact trunc_month y m d h
  · exact trunc_week y m d h
  · exact trunc_isoWeek _
  · exact trunc_msw y m d h
  · exact ⟨⟨y, m, d, h, rfl, trivial⟩, Int.le_refl _, fun _ _ hle => hle⟩
  · exact trunc_sundayWeek _
  · exact ⟨⟨y, m, d, h, rfl, trivial⟩, Int.le_refl _, fun _ _ hle => hle⟩
  · exact ⟨⟨y, m, d, h, rfl, trivial⟩, Int.le_refl _, fun _ _ hle => hle⟩

/-- Hence idempotent … -/
theorem truncOf_idem (u : TUnit) (y m d y' m' d' : Int) (h : IsDate y m d) (h' : IsDate y' m' d')
    (hb : dayNumber y' m' d' = truncOf u (y, m, d) (dayNumber y m d)) :
    truncOf u (y', m', d') (dayNumber y' m' d') = dayNumber y' m' d' := by
  have g := truncOf_greatest u y m d h
  have g' := truncOf_greatest u y' m' d' h'
  have := g'.2.2 (dayNumber y' m' d') (hb ▸ g.1) (Int.le_refl _)
  have := g'.2.1
  omega

/-- … and monotone. -/
theorem truncOf_mono (u : TUnit) (y m d y' m' d' : Int) (h : IsDate y m d) (h' : IsDate y' m' d')
    (hle : dayNumber y m d ≤ dayNumber y' m' d') :
    truncOf u (y, m, d) (dayNumber y m d) ≤ truncOf u (y', m', d') (dayNumber y' m' d') := by
  have g := truncOf_greatest u y m d h
  have g' := truncOf_greatest u y' m' d' h'
  exact g'.2.2 _ g.1 (Int.le_trans g.2.1 hle)

namespace USpec

/-! ### The next boundary, unit by unit -/

theorem next_century (y m d : Int) (h : IsDate y m d) :
    LeastGT (IsBoundary .century) (dayNumber y m d) (dayNumber ((y - 1) / 100 * 100 + 101) 1 1) := by
  have ⟨h1, h2, h3, h4⟩ := h
  have ht : IsDate ((y - 1) / 100 * 100 + 101) 1 1 := isDate_first _ 1 (by omega)
  refine ⟨⟨_, 1, 1, ht, rfl, rfl, rfl, by omega⟩, ?_, ?_⟩
  · rw [dn_lt_iff _ _ _ _ _ _ h ht]; omega
  · rintro b' ⟨y', m', d', hd', rfl, hm', hd1, hc⟩ hlt
    rw [dn_lt_iff _ _ _ _ _ _ h hd'] at hlt
    rw [dn_le_iff _ _ _ _ _ _ ht hd']
    omega

theorem next_year (y m d : Int) (h : IsDate y m d) :
    LeastGT (IsBoundary .year) (dayNumber y m d) (dayNumber (y + 1) 1 1) := by
  have ⟨h1, h2, h3, h4⟩ := h
  have ht : IsDate (y + 1) 1 1 := isDate_first _ 1 (by omega)
  refine ⟨⟨_, 1, 1, ht, rfl, rfl, rfl⟩, ?_, ?_⟩
  · rw [dn_lt_iff _ _ _ _ _ _ h ht]; omega
  · rintro b' ⟨y', m', d', hd', rfl, hm', hd1⟩ hlt
    rw [dn_lt_iff _ _ _ _ _ _ h hd'] at hlt
    rw [dn_le_iff _ _ _ _ _ _ ht hd']
    omega

theorem next_quarter (y m d : Int) (h : IsDate y m d) :
    LeastGT (IsBoundary .quarter) (dayNumber y m d)
      (if m ≥ 10 then dayNumber (y + 1) 1 1 else dayNumber y ((m - 1) / 3 * 3 + 4) 1) := by
  have ⟨h1, h2, h3, h4⟩ := h
  by_cases c : m ≥ 10
  · rw [if_pos c]
    have ht : IsDate (y + 1) 1 1 := isDate_first _ 1 (by omega)
    refine ⟨⟨_, 1, 1, ht, rfl, rfl, by omega⟩, ?_, ?_⟩
    · rw [dn_lt_iff _ _ _ _ _ _ h ht]; omega
    · rintro b' ⟨y', m', d', hd', rfl, hd1, hm'⟩ hlt
      rw [dn_lt_iff _ _ _ _ _ _ h hd'] at hlt
      rw [dn_le_iff _ _ _ _ _ _ ht hd']
      have := hd'.1
      omega
  · rw [if_neg c]
    have ht : IsDate y ((m - 1) / 3 * 3 + 4) 1 := isDate_first _ _ (by omega)
    refine ⟨⟨_, _, 1, ht, rfl, rfl, by omega⟩, ?_, ?_⟩
    · rw [dn_lt_iff _ _ _ _ _ _ h ht]; omega
    · rintro b' ⟨y', m', d', hd', rfl, hd1, hm'⟩ hlt
      rw [dn_lt_iff _ _ _ _ _ _ h hd'] at hlt
      rw [dn_le_iff _ _ _ _ _ _ ht hd']
      omega

theorem next_month (y m d : Int) (h : IsDate y m d) :
    LeastGT (IsBoundary .month) (dayNumber y m d)
      (if m = 12 then dayNumber (y + 1) 1 1 else dayNumber y (m + 1) 1) := by
  have ⟨h1, h2, h3, h4⟩ := h
  by_cases c : m = 12
  · rw [if_pos c]
    have ht : IsDate (y + 1) 1 1 := isDate_first _ 1 (by omega)
    refine ⟨⟨_, 1, 1, ht, rfl, rfl⟩, ?_, ?_⟩
    · rw [dn_lt_iff _ _ _ _ _ _ h ht]; omega
    · rintro b' ⟨y', m', d', hd', rfl, hd1⟩ hlt
      have hd1 : d' = 1 := hd1
      rw [dn_lt_iff _ _ _ _ _ _ h hd'] at hlt
      rw [dn_le_iff _ _ _ _ _ _ ht hd']
      have := hd'.1
      have := hd'.2.1
      omega
  · rw [if_neg c]
    have ht : IsDate y (m + 1) 1 := isDate_first _ _ (by omega)
    refine ⟨⟨_, _, 1, ht, rfl, rfl⟩, ?_, ?_⟩
    · rw [dn_lt_iff _ _ _ _ _ _ h ht]; omega
    · rintro b' ⟨y', m', d', hd', rfl, hd1⟩ hlt
      have hd1 : d' = 1 := hd1
      rw [dn_lt_iff _ _ _ _ _ _ h hd'] at hlt
      rw [dn_le_iff _ _ _ _ _ _ ht hd']
      omega

theorem next_isoWeek (n : Int) : LeastGT (IsBoundary .isoWeek) n (n - (n + 3) % 7 + 7) := by
  obtain ⟨y, m, d, h, e⟩ := exists_date (n - (n + 3) % 7 + 7)
  refine ⟨⟨y, m, d, h, e, ?_⟩, by omega, ?_⟩
  · show (_ + 3) % 7 = 0; omega
  · rintro b' ⟨y', m', d', hd', rfl, hw⟩ hlt
    have hw : (dayNumber y' m' d' + 3) % 7 = 0 := hw
    omega

theorem next_sundayWeek (n : Int) : LeastGT (IsBoundary .sundayStartWeek) n (n - (n + 4) % 7 + 7) := by
  obtain ⟨y, m, d, h, e⟩ := exists_date (n - (n + 4) % 7 + 7)
  refine ⟨⟨y, m, d, h, e, ?_⟩, by omega, ?_⟩
  · show (_ + 4) % 7 = 0; omega
  · rintro b' ⟨y', m', d', hd', rfl, hw⟩ hlt
    have hw : (dayNumber y' m' d' + 4) % 7 = 0 := hw
    omega

/-- A real date whose day number lies in `[jan1 y, jan1 (y+1))` is a date of year `y`. -/
theorem year_of_range (y y2 m2 d2 : Int) (h2 : IsDate y2 m2 d2)
    (a : dayNumber y 1 1 ≤ dayNumber y2 m2 d2) (b : dayNumber y2 m2 d2 < dayNumber (y + 1) 1 1) : y2 = y := by
  have ⟨_, _, _, _⟩ := h2
  rw [dn_le_iff _ _ _ _ _ _ (isDate_first y 1 (by omega)) h2] at a
  rw [dn_lt_iff _ _ _ _ _ _ h2 (isDate_first (y + 1) 1 (by omega))] at b
  omega

/-- Year-anchored week: from the fifth day of a week on, that week is a full one inside the year and the next
    week start is the next boundary. -/
theorem next_week (y m d : Int) (h : IsDate y m d) (hc : (dayNumber y m d - dayNumber y 1 1) % 7 ≥ 4) :
    LeastGT (IsBoundary .week) (dayNumber y m d)
      (dayNumber y m d - (dayNumber y m d - dayNumber y 1 1) % 7 + 7) := by
  have ⟨hlo, hhi⟩ := in_year y m d h
  have hs := jan1_succ y
  have hl := leapI_spec y
  obtain ⟨y2, m2, d2, h2, e2⟩ := exists_date (dayNumber y m d - (dayNumber y m d - dayNumber y 1 1) % 7 + 7)
  have hy2 : y2 = y := year_of_range y y2 m2 d2 h2 (by omega) (by omega)
  subst hy2
  refine ⟨⟨y2, m2, d2, h2, e2, ?_⟩, by omega, ?_⟩
  · show (_ - dayNumber y2 1 1) % 7 = 0; omega
  · rintro b' ⟨y', m', d', hd', rfl, hw⟩ hlt
    have hw : (dayNumber y' m' d' - dayNumber y' 1 1) % 7 = 0 := hw
    have hlt' := hlt
    rw [dn_lt_iff _ _ _ _ _ _ h hd'] at hlt'
    by_cases c : y' = y2
    · subst c; omega
    · have a := (in_year y' m' d' hd').1
      have b := jan1_mono (y2 + 1) y' (by omega)
      omega

theorem dim_dec (y : Int) : dim y 12 = 31 := by unfold dim; simp

/-- Month-anchored week: from the fifth day of a week on, that week is a full one inside the month and the next
    week start (the 8th, 15th, 22nd, 29th, or the 1st of the next month after 28 February) is the next boundary. -/
theorem next_msw (y m d : Int) (h : IsDate y m d) (hc : (d - 1) % 7 ≥ 4) :
    LeastGT (IsBoundary .monthStartWeek) (dayNumber y m d) (dayNumber y m d - (d - 1) % 7 + 7) := by
  have ⟨h1, h2, h3, h4⟩ := h
  have hr := dim_range y m
  have e : dayNumber y m d - (d - 1) % 7 + 7 = dayNumber y m 1 + (d - (d - 1) % 7 + 6) := by
    rw [dn_day y m d]; omega
  rw [e]
  refine ⟨?_, by rw [dn_day y m d]; omega, ?_⟩
  · by_cases c : d - (d - 1) % 7 + 7 ≤ dim y m
    · have ht : IsDate y m (d - (d - 1) % 7 + 7) := ⟨h1, h2, by omega, c⟩
      refine ⟨y, m, _, ht, by rw [dn_day y m (d - (d - 1) % 7 + 7)]; omega, ?_⟩
      show _ = 1 ∨ _ = 8 ∨ _ = 15 ∨ _ = 22 ∨ _ = 29; omega
    · have hm : m ≠ 12 := by intro e12; subst e12; rw [dim_dec] at c h4; omega
      have ht : IsDate y (m + 1) 1 := isDate_first _ _ (by omega)
      refine ⟨y, m + 1, 1, ht, by rw [month_succ y m ⟨h1, by omega⟩]; omega, ?_⟩
      exact Or.inl rfl
  · rintro b' ⟨y', m', d', hd', rfl, hw⟩ hlt
    have hw : d' = 1 ∨ d' = 8 ∨ d' = 15 ∨ d' = 22 ∨ d' = 29 := hw
    apply Decidable.byContradiction; intro hcon
    obtain ⟨ey, em⟩ := same_month y m d y' m' d' h hd' (by omega) (by omega)
    subst ey; subst em
    rw [dn_day y' m' d, dn_day y' m' d'] at hlt
    rw [dn_day y' m' d'] at hcon
    omega

theorem next_isoYear (y m d : Int) (h : IsDate y m d) (hm : m ≥ 7)
    (hgt : dayNumber y m d < isoYearStart (y + 1)) :
    LeastGT (IsBoundary .isoYear) (dayNumber y m d) (isoYearStart (y + 1)) := by
  refine ⟨iso_boundary _, hgt, ?_⟩
  intro b' hb' hlt
  obtain ⟨Y, rfl⟩ := iso_boundary_inv b' hb'
  have s := second_half y m d h hm
  have b1 := iso_bounds y
  have : y < Y := iso_lt_rev _ _ (by omega)
  exact iso_mono_le _ _ (by omega)

/-! ### Assembly helpers -/

theorem adj_ite {P : Int → Prop} {n T X : Int} {c : Prop} [Decidable c] (hx : c → X = T ∨ LeastGT P n X) :
    (if c then X else T) = T ∨ LeastGT P n (if c then X else T) := by
  by_cases hc : c
  · rw [if_pos hc]; exact hx hc
  · rw [if_neg hc]; exact Or.inl rfl

theorem fix_ite {n T X : Int} {c : Prop} [Decidable c] (hT : T = n) (hx : c → X = n) :
    (if c then X else T) = n := by
  by_cases hc : c
  · rw [if_pos hc]; exact hx hc
  · rw [if_neg hc]; exact hT

theorem ite_ne_iff {T X : Int} {c : Prop} [Decidable c] (hx : c → X ≠ T) : (if c then X else T) ≠ T ↔ c := by
  by_cases hc : c
  · rw [if_pos hc]; exact ⟨fun _ => hc, fun _ => hx hc⟩
  · rw [if_neg hc]; exact ⟨fun e => absurd rfl e, fun e => absurd e hc⟩

theorem mono_ite {P : Int → Prop} {n n' T T' X X' : Int} {c c' : Prop} [Decidable c] [Decidable c']
    (hnn : n ≤ n') (hT : T = T') (hT' : T' ≤ n') (hX : c → LeastGT P n X) (hX' : c' → LeastGT P n' X')
    (hcc : c → c') : (if c then X else T) ≤ (if c' then X' else T') := by
  by_cases hc : c
  · have hc' := hcc hc
    rw [if_pos hc, if_pos hc']
    exact (hX hc).2.2 X' (hX' hc').1 (Int.lt_of_le_of_lt hnn (hX' hc').2.1)
  · rw [if_neg hc]
    by_cases hc' : c'
    · rw [if_pos hc']; have := (hX' hc').2.1; omega
    · rw [if_neg hc']; omega

theorem week_ite_mono {n n' b b' : Int} (hb : b = b') (hnn : n ≤ n') :
    (if n - b ≥ 4 then b + 7 else b) ≤ (if n' - b' ≥ 4 then b' + 7 else b') := by
  subst hb
  by_cases c : n - b ≥ 4
  · rw [if_pos c, if_pos (show n' - b ≥ 4 by omega)]; omega
  · rw [if_neg c]
    by_cases c' : n' - b ≥ 4
    · rw [if_pos c']; omega
    · rw [if_neg c']; omega

end USpec

/-- ROUNDING returns the truncation or the next boundary after the day (never anything else). -/
theorem roundOf_adjacent (u : TUnit) (y m d : Int) (h : IsDate y m d) :
    roundOf u (y, m, d) (dayNumber y m d) = truncOf u (y, m, d) (dayNumber y m d) ∨
    LeastGT (IsBoundary u) (dayNumber y m d) (roundOf u (y, m, d) (dayNumber y m d)) := by
  cases u <;> simp only [roundOf, truncOf, nextStartOf]
  · exact adj_ite (fun _ => Or.inr (next_century y m d h))
  · exact adj_ite (fun _ => Or.inr (next_year y m d h))
  · refine adj_ite (fun hm => ?_)
    by_cases c : isoYearStart (y + 1) ≤ dayNumber y m d
    · left; rw [if_pos c]
    · right; exact next_isoYear y m d h hm (by omega)
  · exact adj_ite (fun _ => Or.inr (next_quarter y m d h))
  · exact adj_ite (fun _ => Or.inr (next_month y m d h))
  · exact adj_ite (fun c => Or.inr (next_week y m d h (by omega)))
  · exact adj_ite (fun _ => Or.inr (next_isoWeek _))
  · exact adj_ite (fun c => Or.inr (next_msw y m d h (by omega)))
  · exact Or.inl trivial
  · exact adj_ite (fun _ => Or.inr (next_sundayWeek _))
  · exact Or.inl trivial
  · exact Or.inl trivial

/-- A day already on a boundary is returned unchanged. -/
theorem roundOf_fixed (u : TUnit) (y m d : Int) (h : IsDate y m d) (hb : IsBoundary u (dayNumber y m d)) :
    roundOf u (y, m, d) (dayNumber y m d) = dayNumber y m d := by
  have hT : truncOf u (y, m, d) (dayNumber y m d) = dayNumber y m d := by
    have g := truncOf_greatest u y m d h
    have := g.2.2 _ hb (Int.le_refl _)
    have := g.2.1
    omega
  have ⟨h1, h2, h3, h4⟩ := h
  cases u <;> simp only [roundOf, truncOf, nextStartOf] at hT ⊢
  · obtain ⟨y', m', d', hd', e, hm, hd1, hc⟩ := hb
    have := dayNumber_inj _ _ _ _ _ _ hd' h e
    simp only [Prod.mk.injEq] at this
    obtain ⟨rfl, rfl, rfl⟩ := this
    exact fix_ite hT (fun c => absurd c (by omega))
  · obtain ⟨y', m', d', hd', e, hm, hd1⟩ := hb
    have := dayNumber_inj _ _ _ _ _ _ hd' h e
    simp only [Prod.mk.injEq] at this
    obtain ⟨rfl, rfl, rfl⟩ := this
    exact fix_ite hT (fun c => absurd c (by omega))
  · refine fix_ite hT (fun hm => ?_)
    obtain ⟨Y, e⟩ := iso_boundary_inv _ hb
    have ⟨hlo, hhi⟩ := in_year y m d h
    have s := second_half y m d h hm
    have b1 := iso_bounds y
    have b3 := iso_bounds (y + 2)
    have j2 := jan1_mono (y + 1) (y + 2) (by omega)
    have a1 : y < Y := iso_lt_rev _ _ (by omega)
    have a2 : Y < y + 2 := iso_lt_rev _ _ (by omega)
    have : Y = y + 1 := by omega
    subst this; exact e.symm
  · obtain ⟨y', m', d', hd', e, hd1, hm⟩ := hb
    have := dayNumber_inj _ _ _ _ _ _ hd' h e
    simp only [Prod.mk.injEq] at this
    obtain ⟨rfl, rfl, rfl⟩ := this
    exact fix_ite hT (fun c => absurd c (by omega))
  · obtain ⟨y', m', d', hd', e, hd1⟩ := hb
    have hd1 : d' = 1 := hd1
    have := dayNumber_inj _ _ _ _ _ _ hd' h e
    simp only [Prod.mk.injEq] at this
    obtain ⟨rfl, rfl, rfl⟩ := this
    exact fix_ite hT (fun c => absurd c (by omega))
  · exact fix_ite hT (fun c => absurd c (by omega))
  · exact fix_ite hT (fun c => absurd c (by omega))
  · exact fix_ite hT (fun c => absurd c (by omega))
  · exact fix_ite hT (fun c => absurd c (by omega))

/-- The truncation never exceeds the rounding. -/
theorem truncOf_le_roundOf (u : TUnit) (y m d : Int) (h : IsDate y m d) :
    truncOf u (y, m, d) (dayNumber y m d) ≤ roundOf u (y, m, d) (dayNumber y m d) := by
  have g := (truncOf_greatest u y m d h).2.1
  rcases roundOf_adjacent u y m d h with e | l
  · omega
  · have := l.2.1; omega

/-- Monotonicity of rounding reduces to two days with the same truncation. -/
theorem USpec.mono_generic (u : TUnit) (y m d y' m' d' : Int) (h : IsDate y m d) (h' : IsDate y' m' d')
    (hle : dayNumber y m d ≤ dayNumber y' m' d')
    (hsame : truncOf u (y, m, d) (dayNumber y m d) = truncOf u (y', m', d') (dayNumber y' m' d') →
      roundOf u (y, m, d) (dayNumber y m d) ≤ roundOf u (y', m', d') (dayNumber y' m' d')) :
    roundOf u (y, m, d) (dayNumber y m d) ≤ roundOf u (y', m', d') (dayNumber y' m' d') := by
  have g := truncOf_greatest u y m d h
  have g' := truncOf_greatest u y' m' d' h'
  have tm := truncOf_mono u y m d y' m' d' h h' hle
  have tr' := truncOf_le_roundOf u y' m' d' h'
  by_cases e : truncOf u (y, m, d) (dayNumber y m d) = truncOf u (y', m', d') (dayNumber y' m' d')
  · exact hsame e
  · have hgt : dayNumber y m d < truncOf u (y', m', d') (dayNumber y' m' d') := by
      apply Decidable.byContradiction; intro c
      have := g.2.2 _ g'.1 (by omega); omega
    rcases roundOf_adjacent u y m d h with e1 | l
    · omega
    · have := l.2.2 _ g'.1 hgt; omega

/-- Except for the ISO year, rounding is monotone in the day. -/
theorem roundOf_mono (u : TUnit) (hu : u ≠ .isoYear) (y m d y' m' d' : Int) (h : IsDate y m d) (h' : IsDate y' m' d')
    (hle : dayNumber y m d ≤ dayNumber y' m' d') :
    roundOf u (y, m, d) (dayNumber y m d) ≤ roundOf u (y', m', d') (dayNumber y' m' d') := by
  apply mono_generic u y m d y' m' d' h h' hle
  intro hT
  have ⟨h1, h2, h3, h4⟩ := h
  have ⟨h1', h2', h3', h4'⟩ := h'
  have hT' := (truncOf_greatest u y' m' d' h').2.1
  have hle' := hle
  rw [dn_le_iff _ _ _ _ _ _ h h'] at hle'
  cases u <;> simp only [roundOf, truncOf, nextStartOf] at hT hT' ⊢
  · have := dayNumber_inj _ _ _ _ _ _ (isDate_first _ 1 (by omega)) (isDate_first _ 1 (by omega)) hT
    simp only [Prod.mk.injEq] at this
    exact mono_ite hle hT hT' (fun _ => next_century y m d h) (fun _ => next_century y' m' d' h') (by omega)
  · have := dayNumber_inj _ _ _ _ _ _ (isDate_first _ 1 (by omega)) (isDate_first _ 1 (by omega)) hT
    simp only [Prod.mk.injEq] at this
    exact mono_ite hle hT hT' (fun _ => next_year y m d h) (fun _ => next_year y' m' d' h') (by omega)
  · exact absurd rfl hu
  · have := dayNumber_inj _ _ _ _ _ _ (isDate_first _ _ (by omega)) (isDate_first _ _ (by omega)) hT
    simp only [Prod.mk.injEq] at this
    exact mono_ite hle hT hT' (fun _ => next_quarter y m d h) (fun _ => next_quarter y' m' d' h') (by omega)
  · have := dayNumber_inj _ _ _ _ _ _ (isDate_first _ _ (by omega)) (isDate_first _ _ (by omega)) hT
    simp only [Prod.mk.injEq] at this
    exact mono_ite hle hT hT' (fun _ => next_month y m d h) (fun _ => next_month y' m' d' h') (by omega)
  · exact week_ite_mono hT hle
  · exact week_ite_mono hT hle
  · exact week_ite_mono hT hle
  · exact hle
  · exact week_ite_mono hT hle
  · exact hle
  · exact hle

/-- The documented midpoints, stated outright: the later boundary is chosen exactly from … on. -/
theorem roundOf_midpoints (y m d : Int) (h : IsDate y m d) :
    let n := dayNumber y m d
    (roundOf .century (y, m, d) n ≠ truncOf .century (y, m, d) n ↔ (y - 1) % 100 + 1 ≥ 51) ∧   -- year 51 of the century
    (roundOf .year (y, m, d) n ≠ truncOf .year (y, m, d) n ↔ m ≥ 7) ∧                            -- 1 July
    (roundOf .quarter (y, m, d) n ≠ truncOf .quarter (y, m, d) n ↔
        ((m - 1) % 3 = 2 ∨ ((m - 1) % 3 = 1 ∧ d ≥ 16))) ∧                                        -- 16th of the 2nd month
    (roundOf .month (y, m, d) n ≠ truncOf .month (y, m, d) n ↔ d ≥ 16) ∧                         -- the 16th
    (roundOf .isoWeek (y, m, d) n ≠ truncOf .isoWeek (y, m, d) n ↔ n - truncOf .isoWeek (y, m, d) n ≥ 4) ∧
    (roundOf .sundayStartWeek (y, m, d) n ≠ truncOf .sundayStartWeek (y, m, d) n ↔
        n - truncOf .sundayStartWeek (y, m, d) n ≥ 4) := by                                       -- fifth day of the week
  intro n
  have ne_of {T X : Int} (a : T ≤ n) (b : n < X) : X ≠ T := by omega
  refine ⟨?_, ?_, ?_, ?_, ?_, ?_⟩
  · exact ite_ne_iff (fun _ => ne_of (trunc_century y m d h).2.1 (next_century y m d h).2.1)
  · exact ite_ne_iff (fun _ => ne_of (trunc_year y m d h).2.1 (next_year y m d h).2.1)
  · exact ite_ne_iff (fun _ => ne_of (trunc_quarter y m d h).2.1 (next_quarter y m d h).2.1)
  · exact ite_ne_iff (fun _ => ne_of (trunc_month y m d h).2.1 (next_month y m d h).2.1)
  · exact ite_ne_iff (fun _ => ne_of (trunc_isoWeek n).2.1 (next_isoWeek n).2.1)
  · exact ite_ne_iff (fun _ => ne_of (trunc_sundayWeek n).2.1 (next_sundayWeek n).2.1)

end SqlDt.Lemmas
