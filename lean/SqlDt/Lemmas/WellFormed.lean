import SqlDt.Lemmas.Render
import SqlDt.Lemmas.Munch
namespace SqlDt.Lemmas
open SqlDt Gen Spec

theorem table_build_wf : ∀ t ∈ tokenTable, ∀ m : Bytes, Field.WellFormed (t.build m) := by
  intro t ht m
  simp only [tokenTable, List.mem_cons, List.mem_nil_iff, or_false] at ht
  rcases ht with h | h | h | h | h | h | h | h | h | h | h | h | h | h | h | h | h | h | h | h | h | h | h | h | h | h | h | h | h | h | h | h | h | h | h | h | h | h | h | h | h <;>
    subst h <;> simp [Field.WellFormed]

theorem foldl_longest_mem (s : Bytes) : ∀ (l : List Tok) (init : Option Tok) (t : Tok),
    (∀ b, init = some b → b ∈ tokenTable) → (∀ x ∈ l, x ∈ tokenTable) →
    l.foldl (fun best t =>
      if t.matchesAt s then
        match best with
        | some b => if t.spelling.length > b.spelling.length then some t else some b
        | none => some t
      else best) init = some t → t ∈ tokenTable := by
  intro l
  induction l with
  | nil => intro init t hi _ h; exact hi t h
  | cons x xs ih =>
    intro init t hi hl h
    simp only [List.foldl_cons] at h
    apply ih _ t _ (fun y hy => hl y (by simp [hy])) h
    intro b hb
    split at hb
    · cases init with
      | none => simp at hb; subst hb; exact hl x (by simp)
      | some b0 =>
        simp only at hb
        split at hb
        · cases hb; exact hl x (by simp)
        · cases hb; exact hi _ rfl
    · exact hi b hb

theorem munchNext_wf (s : Bytes) (f : Field) (r : Bytes) (h : munchNext s = some (some (f, r))) : Field.WellFormed f := by
  unfold munchNext at h
  split at h
  · cases h
  · split at h
    · cases h; simp [Field.WellFormed]
    · split at h
      · rename_i t ht
        cases h
        have : t ∈ tokenTable := foldl_longest_mem _ tokenTable none t (by simp) (fun x hx => hx) ht
        exact table_build_wf t this _
      · cases h

theorem munchAux_wf : ∀ (fuel : Nat) (s : Bytes) (acc fields : List Field),
    (∀ f ∈ acc, Field.WellFormed f) → munchAux fuel s acc = .ok fields → ∀ f ∈ fields, Field.WellFormed f := by
  intro fuel
  induction fuel with
  | zero => intro s acc fields hacc h; simp [munchAux] at h; subst h; simpa using hacc
  | succ n ih =>
    intro s acc fields hacc h
    unfold munchAux at h
    split at h
    · cases h; simpa using hacc
    · cases h
    · rename_i f rest hn
      split at h
      · cases h
      · have hw := munchNext_wf s f rest hn
        exact ih rest (f :: acc) fields (by intro g hg; rcases List.mem_cons.1 hg with rfl | hg; exact hw; exact hacc g hg) h

/-- Every field of a compiled picture is well formed (year width 1..4, fraction precision 1..9, never `Invalid`). -/
theorem tryNew_wf (pic : Bytes) (fields : List Field) (h : Lexer.tryNew pic = .ok fields) :
    ∀ f ∈ fields, Field.WellFormed f := by
  rw [tryNew_eq_munch] at h
  exact munchAux_wf _ _ _ _ (by simp) h

end SqlDt.Lemmas
