/-
  Lemmas/ReadingConc: the parser state that corresponds to the components collected so far (`conc`), the goal of
  the per-token simulation (`StepGoal`), and the tokens that need no look at the text: blank and punctuation tokens,
  tokens that do not apply to the type, and the expect-number helpers on a numeric lexeme.
-/
import SqlDt.Lemmas.ReadingNames
namespace SqlDt.Lemmas
open SqlDt Gen Spec Parser

/-- the year as the crate stores it: negated for a negative year-month interval; when no year was read: 1
    (0 for a year-month interval) -/
def yearRep (ty : Ty) (p : Parts) : Int :=
  match p.year with
  | some y => if ty = .YM ∧ p.neg = true then -y else y
  | none => if ty = .YM then 0 else 1

/-- the day as the crate stores it; when no day was read: 1 (0 for a day-time interval) -/
def dayRep (ty : Ty) (p : Parts) : Int :=
  match p.day with
  | some d => (d : Int)
  | none => if ty = .DT then 0 else 1

/-- The parser state after the items that produced `p`, with `s` still to read. -/
def conc (ty : Ty) (p : Parts) (s : Bytes) (reads : Nat) : St :=
  { s := s,
    dt := { year := yearRep ty p, month := ((p.month.getD 0 : Nat) : Int), day := dayRep ty p,
            hour := ((hourOf p : Nat) : Int), minute := ((p.minute.getD 0 : Nat) : Int),
            sec := ((p.second.getD 0 : Nat) : Int), usec := ((p.usec.getD 0 : Nat) : Int),
            ampm := p.meridian, negative := p.neg },
    isYearSet := p.year.isSome, isMonthSet := p.month.isSome, isDaySet := p.day.isSome,
    isHour24Set := p.hour.map (·.1), isMinSet := p.minute.isSome, isSecSet := p.second.isSome,
    isFractionSet := p.usec.isSome, isAmPmSet := p.meridianSeen, dow := p.dow.map Int.ofNat, doy := p.doy.map Int.ofNat, reads := reads }

theorem conc_init (ty : Ty) (input : Bytes) : conc ty {} input 0 = initSt ty input := by cases ty <;> rfl

/-- One token: the crate's field step follows `Spec.step`. -/
def StepGoal (ty : Ty) (now : Clock) (p : Parts) (s : Bytes) (r : Nat) (f : Field) (l : Lex) (rest : Bytes) : Prop :=
  match step ty now p f l with
  | some p' => ∃ s' r', parseField ty now (conc ty p s r) f = .ok (conc ty p' s' r') ∧
      eatWhitespaces s' = eatWhitespaces rest
  | none => ∃ e, parseField ty now (conc ty p s r) f = .error e

theorem info_hasDate (ty : Ty) : ty.info.HAS_DATE = hasDate ty := by cases ty <;> rfl
theorem info_hasTime (ty : Ty) : ty.info.HAS_TIME = hasTime ty := by cases ty <;> rfl
theorem info_hasFraction (ty : Ty) : ty.info.HAS_FRACTION = hasFraction ty := by cases ty <;> rfl
theorem info_ym (ty : Ty) : ty.info.IS_INTERVAL_YM = decide (ty = .YM) := by cases ty <;> rfl
theorem info_dt (ty : Ty) : ty.info.IS_INTERVAL_DT = decide (ty = .DT) := by cases ty <;> rfl
theorem clock12_eq (ty : Ty) : clock12 ty = (hasTime ty && !decide (ty = .DT)) := by cases ty <;> rfl

/-! ### expect-number on a numeric lexeme -/

theorem expectNumber_lex (st0 : St) {ds : Bytes} {k : Nat} {n : Int} (h : Run ds k n) (sg : Sign) (rest : Bytes)
    (hstop : Stops ds rest k) (hs : eatWhitespaces st0.s = sg.text ++ (ds ++ rest)) :
    expectNumber { st0 with s := eatWhitespaces st0.s } k =
      .ok ((if isMinus sg = true then -n else n), isMinus sg, { st0 with s := rest }) := by
  simp only [expectNumber, hs, parseNumber_lex h sg rest hstop, bind, Except.bind, pure, Except.pure]

theorem expectNumberTol_lex (st0 : St) {ds : Bytes} {k : Nat} {n : Int} (h : Run ds k n) (sg : Sign) (rest : Bytes)
    (hstop : Stops ds rest k) (hs : eatWhitespaces st0.s = sg.text ++ (ds ++ rest)) (d : Int) :
    expectNumberTol { st0 with s := eatWhitespaces st0.s } k d =
      .ok ((if isMinus sg = true then -n else n), isMinus sg, { st0 with s := rest }) := by
  have hne : (eatWhitespaces st0.s).isEmpty = false := by rw [hs]; exact signed_nonempty h sg rest
  simp only [expectNumberTol, hne, Bool.false_eq_true, ↓reduceIte]
  exact expectNumber_lex st0 h sg rest hstop hs

/-- the text of a numeric lexeme, blanks eaten -/
theorem eatWs_numText (f : Field) (b : Nat) (sg : Sign) (z n k : Nat) (rest : Bytes) (h : Run (numDigits z n) k (n : Int)) :
    eatWhitespaces ((Lex.num b sg z n).text f ++ rest) = sg.text ++ (numDigits z n ++ rest) := by
  have : (Lex.num b sg z n).text f ++ rest = spaces b ++ (sg.text ++ (numDigits z n ++ rest)) := by
    simp [Lex.text, numDigits, List.append_assoc]
  rw [this, eatWs_spaces, eatWs_signed h]

end SqlDt.Lemmas
