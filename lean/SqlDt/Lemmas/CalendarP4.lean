/-
  Lemmas/CalendarP4: kernel evaluation of the round-trip checker `CalCheck.chk` on the days [73728, 92160)
  counted from 0001-01-01: one of 8 chunks covering the 400-year period of 146097 days (the last chunk
  overshoots, harmlessly).  Generated text; 18 blocks of 1024 days, each a single `decide +kernel`.
  Used by Lemmas/Calendar.
-/
import SqlDt.Lemmas.CalendarCheck
namespace SqlDt.Lemmas.CalCheck

theorem chunk4_0 : allRange chk 10 73728 = true := by decide +kernel
theorem chunk4_1 : allRange chk 10 74752 = true := by decide +kernel
theorem chunk4_2 : allRange chk 10 75776 = true := by decide +kernel
theorem chunk4_3 : allRange chk 10 76800 = true := by decide +kernel
theorem chunk4_4 : allRange chk 10 77824 = true := by decide +kernel
theorem chunk4_5 : allRange chk 10 78848 = true := by decide +kernel
theorem chunk4_6 : allRange chk 10 79872 = true := by decide +kernel
theorem chunk4_7 : allRange chk 10 80896 = true := by decide +kernel
theorem chunk4_8 : allRange chk 10 81920 = true := by decide +kernel
theorem chunk4_9 : allRange chk 10 82944 = true := by decide +kernel
theorem chunk4_10 : allRange chk 10 83968 = true := by decide +kernel
theorem chunk4_11 : allRange chk 10 84992 = true := by decide +kernel
theorem chunk4_12 : allRange chk 10 86016 = true := by decide +kernel
theorem chunk4_13 : allRange chk 10 87040 = true := by decide +kernel
theorem chunk4_14 : allRange chk 10 88064 = true := by decide +kernel
theorem chunk4_15 : allRange chk 10 89088 = true := by decide +kernel
theorem chunk4_16 : allRange chk 10 90112 = true := by decide +kernel
theorem chunk4_17 : allRange chk 10 91136 = true := by decide +kernel

theorem chunk4 (n : Nat) (h1 : 73728 ≤ n) (h2 : n < 92160) : chk n = true := by
  have s := allRange_sound chk 10
  by_cases c0 : n < 74752
  · exact s _ chunk4_0 n (by omega) (by omega)
  by_cases c1 : n < 75776
  · exact s _ chunk4_1 n (by omega) (by omega)
  by_cases c2 : n < 76800
  · exact s _ chunk4_2 n (by omega) (by omega)
  by_cases c3 : n < 77824
  · exact s _ chunk4_3 n (by omega) (by omega)
  by_cases c4 : n < 78848
  · exact s _ chunk4_4 n (by omega) (by omega)
  by_cases c5 : n < 79872
  · exact s _ chunk4_5 n (by omega) (by omega)
  by_cases c6 : n < 80896
  · exact s _ chunk4_6 n (by omega) (by omega)
  by_cases c7 : n < 81920
  · exact s _ chunk4_7 n (by omega) (by omega)
  by_cases c8 : n < 82944
  · exact s _ chunk4_8 n (by omega) (by omega)
  by_cases c9 : n < 83968
  · exact s _ chunk4_9 n (by omega) (by omega)
  by_cases c10 : n < 84992
  · exact s _ chunk4_10 n (by omega) (by omega)
  by_cases c11 : n < 86016
  · exact s _ chunk4_11 n (by omega) (by omega)
  by_cases c12 : n < 87040
  · exact s _ chunk4_12 n (by omega) (by omega)
  by_cases c13 : n < 88064
  · exact s _ chunk4_13 n (by omega) (by omega)
  by_cases c14 : n < 89088
  · exact s _ chunk4_14 n (by omega) (by omega)
  by_cases c15 : n < 90112
  · exact s _ chunk4_15 n (by omega) (by omega)
  by_cases c16 : n < 91136
  · exact s _ chunk4_16 n (by omega) (by omega)
  exact s _ chunk4_17 n (by omega) (by omega)

end SqlDt.Lemmas.CalCheck
