/-
  Lemmas/ReadingFinalDate: after the field loop, for the types WITH a date (date, timestamp, Oracle-style date):
  clock defaults, day-of-year resolution, weekday check and `TryFrom<NaiveDateTime>` give `Spec.assemble`.
-/
import SqlDt.Lemmas.ReadingDoy
import SqlDt.Lemmas.RoundTripParse
import SqlDt.Props.C16
namespace SqlDt.Lemmas
open SqlDt Gen Spec Parser

/-! ### calendar checks without sign hypotheses -/

theorem tryFromYmd_valid' (y m d : Int) (hv : ValidYMD y m d) : Date.tryFromYmd y m d = .ok (dayNumber y m d) :=
  (C01.tryFromYmd_roundtrip y m d hv).1

theorem tryFromYmd_invalid (y m d : Int) (hv : ¬ ValidYMD y m d) : ∃ e, Date.tryFromYmd y m d = .error e := by
  rw [C01.tryFromYmd_classify]
  by_cases c1 : y < 1 ∨ y > 9999
  · rw [if_pos c1]; exact ⟨_, rfl⟩
  · rw [if_neg c1]
    by_cases c2 : m < 1 ∨ m > 12
    · rw [if_pos c2]; exact ⟨_, rfl⟩
    · rw [if_neg c2]
      by_cases c3 : d < 1 ∨ d > 31
      · rw [if_pos c3]; exact ⟨_, rfl⟩
      · rw [if_neg c3]
        by_cases c4 : d > daysOfMonth y m
        · rw [if_pos c4]; exact ⟨_, rfl⟩
        · exfalso
          rw [daysOfMonth_eq y m (by omega) (by omega)] at c4
          exact hv ⟨by omega, by omega, by omega, by omega, by omega, by omega⟩

theorem validateYmd_invalid (y m d : Int) (hv : ¬ ValidYMD y m d) : ∃ e, Date.validateYmd y m d = .error e := by
  obtain ⟨e, he⟩ := tryFromYmd_invalid y m d hv
  unfold Date.tryFromYmd at he
  unfold Date.validateYmd
  by_cases c1 : y < DATE_MIN_YEAR ∨ y > DATE_MAX_YEAR
  · rw [if_pos c1]; exact ⟨_, rfl⟩
  · rw [if_neg c1] at he ⊢
    by_cases c2 : m < 1 ∨ m > MONTHS_PER_YEAR
    · rw [if_pos c2]; exact ⟨_, rfl⟩
    · rw [if_neg c2] at he ⊢
      by_cases c3 : d < 1 ∨ d > 31
      · rw [if_pos c3]; exact ⟨_, rfl⟩
      · rw [if_neg c3] at he ⊢
        by_cases c4 : d > daysOfMonth y m
        · rw [if_pos c4]; exact ⟨_, rfl⟩
        · rw [if_neg c4] at he; cases he

/-! ### defaults -/

theorem hasDate_ne (ty : Ty) (hd : hasDate ty = true) : ty ≠ .YM ∧ ty ≠ .DT ∧ ty ≠ .T := by
  cases ty <;> simp [hasDate] at hd ⊢

/-- The date part after the clock defaults. -/
def defaulted (ty : Ty) (p : Parts) (s : Bytes) (r : Nat) (now : Clock) : NDT :=
  { (conc ty p s r).dt with year := p.year.getD now.year, month := (p.month.map Int.ofNat).getD now.month }

theorem applyDefaults_conc (ty : Ty) (hd : hasDate ty = true) (p : Parts) (s : Bytes) (r : Nat) (now : Clock) :
    (applyDefaults ty (conc ty p s r) now).1 = defaulted ty p s r now := by
  obtain ⟨hym, _, _⟩ := hasDate_ne ty hd
  have hi : ty.info.HAS_DATE = true := by rw [info_hasDate]; exact hd
  unfold applyDefaults defaulted
  rw [hi]
  cases hy : p.year <;> cases hm : p.month <;> simp [conc, yearRep, hy, hm, hym]

theorem defaulted_day (ty : Ty) (hd : hasDate ty = true) (p : Parts) (s : Bytes) (r : Nat) (now : Clock) :
    (defaulted ty p s r now).day = ((p.day.getD 1 : Nat) : Int) := by
  obtain ⟨_, hdt, _⟩ := hasDate_ne ty hd
  simp only [defaulted, conc, dayRep]
  cases p.day <;> simp [hdt]

/-! ### the year is never changed by the day-of-year resolution -/

theorem resolveDoy_year (st : St) (dt dt' : NDT) (h : resolveDoy st dt = .ok dt') : dt'.year = dt.year := by
  unfold resolveDoy perr at h
  split at h
  · cases h; rfl
  · simp only [bind, Except.bind, pure, Except.pure] at h
    split at h
    · cases h
    · split at h
      · cases h
      · repeat' (split at h)
        all_goals first | (cases h; done) | (cases h; rfl)

/-! ### weekday check -/

theorem finish_spec (ty : Ty) (st : St) (dt : NDT) (rd : Nat) (p : Parts) (hdow : st.dow = p.dow.map Int.ofNat) :
    (ValidYMD dt.year dt.month dt.day →
      p.dow.all (fun (w : Nat) => weekday (dayNumber dt.year dt.month dt.day) + 1 = (w : Int)) = true →
      finish ty st dt rd = (tryFromNDT ty dt >>= fun v => pure (v, rd))) ∧
    (ValidYMD dt.year dt.month dt.day →
      p.dow.all (fun (w : Nat) => weekday (dayNumber dt.year dt.month dt.day) + 1 = (w : Int)) = false →
      finish ty st dt rd = .error .ParseError) ∧
    (¬ ValidYMD dt.year dt.month dt.day → (∃ e, tryFromNDT ty dt = .error e) → ∃ e, finish ty st dt rd = .error e) := by
  unfold finish
  rw [hdow]
  cases hw : p.dow with
  | none =>
    refine ⟨fun _ _ => rfl, fun _ h => by simp at h, fun _ ⟨e, he⟩ => ⟨e, ?_⟩⟩
    simp only [Option.map_none]
    rw [he]; rfl
  | some w =>
    simp only [Option.map_some, Option.all_some, decide_eq_true_eq, decide_eq_false_iff_not, Int.ofNat_eq_natCast]
    refine ⟨?_, ?_, ?_⟩
    · intro hv hok
      rw [tryFromYmd_valid' _ _ _ hv, bind_ok, C01.dayOfWeek_eq]
      have : ¬ ((dayNumber dt.year dt.month dt.day + 4) % 7 + 1 ≠ (w : Int)) := by
        unfold weekday at hok; simp [hok]
      rw [if_neg this]
    · intro hv hbad
      rw [tryFromYmd_valid' _ _ _ hv, bind_ok, C01.dayOfWeek_eq]
      have : ((dayNumber dt.year dt.month dt.day + 4) % 7 + 1 ≠ (w : Int)) := by
        unfold weekday at hbad; exact hbad
      rw [if_pos this]; rfl
    · intro hv _
      obtain ⟨e, he⟩ := tryFromYmd_invalid _ _ _ hv
      exact ⟨e, by rw [he, bind_err]⟩

/-! ### `TryFrom<NaiveDateTime>` for the three date types -/

theorem tryFromNDT_D (dt : NDT) : tryFromNDT .D dt = Date.tryFromYmd dt.year dt.month dt.day := rfl

theorem tryFromNDT_TS_unfold (dt : NDT) :
    tryFromNDT .TS dt = (Date.validateYmd dt.year dt.month dt.day >>= fun _ =>
      Time.validateHms dt.hour dt.minute dt.sec >>= fun _ =>
      Timestamp.tryFromUsecs ((date2julian dt.year dt.month dt.day - UNIX_EPOCH_JULIAN) * USECONDS_PER_DAY +
        dt.hour * USECONDS_PER_HOUR + dt.minute * USECONDS_PER_MINUTE + dt.sec * USECONDS_PER_SECOND + dt.usec)) := rfl

theorem tryFromNDT_OD_unfold (dt : NDT) :
    tryFromNDT .OD dt = (Date.validateYmd dt.year dt.month dt.day >>= fun _ =>
      Time.validateHms dt.hour dt.minute dt.sec >>= fun _ =>
      Timestamp.tryFromUsecs ((date2julian dt.year dt.month dt.day - UNIX_EPOCH_JULIAN) * USECONDS_PER_DAY +
        dt.hour * USECONDS_PER_HOUR + dt.minute * USECONDS_PER_MINUTE + dt.sec * USECONDS_PER_SECOND + dt.usec) >>= fun ts =>
      pure (OracleDate.fromTimestamp ts)) := rfl

theorem ts_tryFromUsecs_ok (u : Int) (h : isValidTimestamp u) : Timestamp.tryFromUsecs u = .ok u := by
  unfold Timestamp.tryFromUsecs; rw [if_pos h]
theorem ts_tryFromUsecs_err (u : Int) (h : ¬ isValidTimestamp u) : Timestamp.tryFromUsecs u = .error .DateOutOfRange := by
  unfold Timestamp.tryFromUsecs; rw [if_neg h]

theorem tryFromNDT_invalid_date (ty : Ty) (hd : hasDate ty = true) (dt : NDT) (hv : ¬ ValidYMD dt.year dt.month dt.day) :
    ∃ e, tryFromNDT ty dt = .error e := by
  cases ty <;> simp [hasDate] at hd
  · rw [tryFromNDT_D]; exact tryFromYmd_invalid _ _ _ hv
  · obtain ⟨e, he⟩ := validateYmd_invalid _ _ _ hv
    rw [tryFromNDT_TS_unfold, he, bind_err]; exact ⟨e, rfl⟩
  · obtain ⟨e, he⟩ := validateYmd_invalid _ _ _ hv
    rw [tryFromNDT_OD_unfold, he, bind_err]; exact ⟨e, rfl⟩

/-- Timestamp and Oracle-style date on a real date: hour/minute/second in range or error; the value is the exact
    microsecond count (a fraction of 1_000_000 carries), which must not pass 9999-12-31 23:59:59.999999. -/
theorem tryFromNDT_TS (ty : Ty) (hty : ty = .TS ∨ ty = .OD) (dt : NDT) (h mi s us : Nat)
    (hv : ValidYMD dt.year dt.month dt.day)
    (e1 : dt.hour = (h : Int)) (e2 : dt.minute = (mi : Int)) (e3 : dt.sec = (s : Int)) (e4 : dt.usec = (us : Int))
    (hus : ty = .OD → us = 0) :
    (h < 24 ∧ mi < 60 ∧ s < 60 ∧
        86400000000 * dayNumber dt.year dt.month dt.day +
          ((h * 3600000000 + mi * 60000000 + s * 1000000 + us : Nat) : Int) ≤ 253402300799999999 →
      tryFromNDT ty dt = .ok (86400000000 * dayNumber dt.year dt.month dt.day +
          ((h * 3600000000 + mi * 60000000 + s * 1000000 + us : Nat) : Int))) ∧
    (¬ (h < 24 ∧ mi < 60 ∧ s < 60 ∧
        86400000000 * dayNumber dt.year dt.month dt.day +
          ((h * 3600000000 + mi * 60000000 + s * 1000000 + us : Nat) : Int) ≤ 253402300799999999) →
      ∃ e, tryFromNDT ty dt = .error e) := by
  have hdn : date2julian dt.year dt.month dt.day - UNIX_EPOCH_JULIAN = dayNumber dt.year dt.month dt.day := by
    have := fromYmd_eq_dayNumber dt.year dt.month dt.day ⟨by have := hv.1; omega, by have := hv.2.1; omega⟩
      ⟨hv.2.2.1, hv.2.2.2.1⟩
    unfold Date.fromYmdUnchecked at this; exact this
  have hrange := dayNumber_range dt.year dt.month dt.day hv
  have harg : (date2julian dt.year dt.month dt.day - UNIX_EPOCH_JULIAN) * USECONDS_PER_DAY +
        dt.hour * USECONDS_PER_HOUR + dt.minute * USECONDS_PER_MINUTE + dt.sec * USECONDS_PER_SECOND + dt.usec =
      86400000000 * dayNumber dt.year dt.month dt.day +
        ((h * 3600000000 + mi * 60000000 + s * 1000000 + us : Nat) : Int) := by
    rw [hdn, e1, e2, e3, e4]
    simp only [USECONDS_PER_DAY, USECONDS_PER_HOUR, USECONDS_PER_MINUTE, USECONDS_PER_SECOND]
    omega
  have hcommon : ∀ (k : Int → Chk Int),
      (Date.validateYmd dt.year dt.month dt.day >>= fun _ =>
        Time.validateHms dt.hour dt.minute dt.sec >>= fun _ =>
        Timestamp.tryFromUsecs ((date2julian dt.year dt.month dt.day - UNIX_EPOCH_JULIAN) * USECONDS_PER_DAY +
          dt.hour * USECONDS_PER_HOUR + dt.minute * USECONDS_PER_MINUTE + dt.sec * USECONDS_PER_SECOND + dt.usec) >>= k) =
      (Time.validateHms (h : Int) (mi : Int) (s : Int) >>= fun _ =>
        Timestamp.tryFromUsecs (86400000000 * dayNumber dt.year dt.month dt.day +
          ((h * 3600000000 + mi * 60000000 + s * 1000000 + us : Nat) : Int)) >>= k) := by
    intro k
    rw [validateYmd_ok _ _ _ hv, bind_ok, harg, e1, e2, e3]
  have hform : tryFromNDT ty dt =
      (Time.validateHms (h : Int) (mi : Int) (s : Int) >>= fun _ =>
        Timestamp.tryFromUsecs (86400000000 * dayNumber dt.year dt.month dt.day +
          ((h * 3600000000 + mi * 60000000 + s * 1000000 + us : Nat) : Int)) >>= fun ts =>
        pure (if ty = .OD then OracleDate.fromTimestamp ts else ts)) := by
    rcases hty with rfl | rfl
    · rw [tryFromNDT_TS_unfold]
      have := hcommon (fun ts => pure ts)
      simp only [bind_pure] at this
      rw [this]
      simp
    · rw [tryFromNDT_OD_unfold]
      have := hcommon (fun ts => pure (OracleDate.fromTimestamp ts))
      rw [this]
      simp
  rw [hform]
  by_cases hc : h < 24 ∧ mi < 60 ∧ s < 60
  · rw [(validateHms_nat h mi s).2 hc, bind_ok]
    by_cases hle : 86400000000 * dayNumber dt.year dt.month dt.day +
        ((h * 3600000000 + mi * 60000000 + s * 1000000 + us : Nat) : Int) ≤ 253402300799999999
    · have hvalid : isValidTimestamp (86400000000 * dayNumber dt.year dt.month dt.day +
          ((h * 3600000000 + mi * 60000000 + s * 1000000 + us : Nat) : Int)) := by
        rw [isValidTimestamp_iff]; omega
      rw [ts_tryFromUsecs_ok _ hvalid, bind_ok]
      refine ⟨fun _ => ?_, fun hn => absurd ⟨hc.1, hc.2.1, hc.2.2, hle⟩ hn⟩
      by_cases hod : ty = .OD
      · have h0 := hus hod
        rw [if_pos hod, C16.fromTimestamp_id _ (by subst h0; omega)]
        rfl
      · rw [if_neg hod]; rfl
    · have hvalid : ¬ isValidTimestamp (86400000000 * dayNumber dt.year dt.month dt.day +
          ((h * 3600000000 + mi * 60000000 + s * 1000000 + us : Nat) : Int)) := by
        rw [isValidTimestamp_iff]; omega
      rw [ts_tryFromUsecs_err _ hvalid, bind_err]
      exact ⟨fun hh => absurd hh.2.2.2 hle, fun _ => ⟨_, rfl⟩⟩
  · obtain ⟨e, he⟩ := validateHms_err h mi s hc
    rw [he, bind_err]
    exact ⟨fun hh => absurd ⟨hh.1, hh.2.1, hh.2.2.1⟩ hc, fun _ => ⟨e, rfl⟩⟩

end SqlDt.Lemmas
