/-
  Lemmas/RoundTripParse: the parser run symbolically on the six serialised texts; the recovered components go through
  `TryFrom<NaiveDateTime>` back to the value.
-/
import SqlDt.Lemmas.RoundTripSer
import SqlDt.Props.C16
namespace SqlDt.Lemmas
open SqlDt Gen Spec Parser

theorem parseFields_append (ty : Ty) (now : Clock) : ∀ (fs1 fs2 : List Field) (st : St),
    parseFields ty now st (fs1 ++ fs2) = (parseFields ty now st fs1 >>= fun st' => parseFields ty now st' fs2) := by
  intro fs1
  induction fs1 with
  | nil => intro fs2 st; simp [parseFields, bind, Except.bind]
  | cons f fs ih =>
    intro fs2 st
    simp only [List.cons_append, parseFields, bind, Except.bind]
    cases parseField ty now st f with
    | error e => rfl
    | ok st1 => simpa [bind, Except.bind] using ih fs2 st1

theorem run2 (x : Int) (h0 : 0 ≤ x) (h : x < 100) : Run (pad 2 x.toNat) 2 x :=
  run_pad 2 2 x h0 (by decide) (by decide) (by decide) (by simp; omega)
theorem run4 (x : Int) (h0 : 0 ≤ x) (h : x < 10000) : Run (pad 4 x.toNat) 4 x :=
  run_pad 4 4 x h0 (by decide) (by decide) (by decide) (by simp; omega)
theorem run9 (w : Nat) (hw : w ≤ 9) (x : Int) (h0 : 0 ≤ x) (h : x < 1000000000) : Run (pad w x.toNat) 9 x :=
  run_pad w 9 x h0 hw (by decide) (by decide) (by simp; omega)

theorem pfs_date (ty : Ty) (now : Clock) (st0 : St) (y m d : Int) (rest : Bytes)
    (hty : ty.info.HAS_DATE = true) (hym : ty.info.IS_INTERVAL_YM = false)
    (hml : ty.info.MONTH_MAX_LENGTH = 2) (hdl : ty.info.DAY_MAX_LENGTH = 2)
    (h1 : st0.isYearSet = false) (h2 : st0.isMonthSet = false) (h3 : st0.isDaySet = false)
    (hv : ValidYMD y m d) (hr : NoDigitHead rest) (hs : st0.s = dateText y m d rest) :
    parseFields ty now st0 [.Year 4, .Hyphen, .Month, .Hyphen, .Day] =
      .ok { st0 with s := rest, dt := { st0.dt with year := y, month := m, day := d, negative := false },
                     isYearSet := true, isMonthSet := true, isDaySet := true } := by
  obtain ⟨y1, y9, m1, m12, d1, dd⟩ := hv
  have d31 := dim_le31 y m d dd
  have ry := run4 y (by omega) (by omega)
  have rm := run2 m (by omega) (by omega)
  have rd := run2 d (by omega) (by omega)
  simp only [parseFields, bind, Except.bind]
  rw [pf_year_date ty now st0 _ _ y hty hym h1 ry (noDigitHead_cons 45 _ (by decide)) hs]
  simp only []
  rw [pf_hyphen ty now _ _ rfl]
  simp only []
  rw [pf_month ty now _ _ _ m (by simp [hty]) hml (by exact h2) rm (noDigitHead_cons 45 _ (by decide)) rfl]
  simp only []
  rw [pf_hyphen ty now _ _ rfl]
  simp only []
  rw [pf_day_date ty now _ _ _ d hty hdl (by exact h3) rd hr rfl]


theorem pfs_time (ty : Ty) (now : Clock) (st0 : St) (h mi s : Int) (rest : Bytes)
    (hty : ty.info.HAS_TIME = true) (hhl : ty.info.HOUR_MAX_LENGTH = 2) (hml : ty.info.MINUTE_MAX_LENGTH = 2)
    (hsl : ty.info.SECOND_MAX_LENGTH = 2)
    (h1 : st0.isHour24Set = none) (h2 : st0.isMinSet = false) (h3 : st0.isSecSet = false) (h4 : st0.isAmPmSet = false)
    (hh : 0 ≤ h ∧ h < 24) (hm : 0 ≤ mi ∧ mi < 60) (hsec : 0 ≤ s ∧ s < 60)
    (hr : NoDigitHead rest) (hs : st0.s = timeText h mi s rest) :
    parseFields ty now st0 [.Hour24, .Colon, .Minute, .Colon, .Second] =
      .ok { st0 with s := rest, dt := { st0.dt with hour := h, minute := mi, sec := s },
                     isHour24Set := some true, isMinSet := true, isSecSet := true } := by
  have rh := run2 h (by omega) (by omega)
  have rm := run2 mi (by omega) (by omega)
  have rs := run2 s (by omega) (by omega)
  simp only [parseFields, bind, Except.bind]
  rw [pf_hour ty now st0 _ _ h hty hhl h1 h4 rh (noDigitHead_cons 58 _ (by decide)) hs]
  simp only []
  rw [pf_colon ty now _ _ rfl]
  simp only []
  rw [pf_minute ty now _ _ _ mi hty hml (by exact h2) rm (noDigitHead_cons 58 _ (by decide)) rfl]
  simp only []
  rw [pf_colon ty now _ _ rfl]
  simp only []
  rw [pf_second ty now _ _ _ s hty hsl (by exact h3) rs hr rfl]

theorem pfs_frac (ty : Ty) (now : Clock) (st0 : St) (us : Int) (rest : Bytes)
    (hty : ty.info.HAS_FRACTION = true) (h1 : st0.isFractionSet = false) (hu : 0 ≤ us ∧ us < 1000000)
    (hr : NoDigitHead rest) (hs : st0.s = 46 :: (pad 6 us.toNat ++ rest)) :
    parseFields ty now st0 [.Dot, .Fraction (some 6)] =
      .ok { st0 with s := rest, dt := { st0.dt with usec := us }, isFractionSet := true } := by
  simp only [parseFields, bind, Except.bind]
  rw [pf_dot ty now st0 _ hs]
  simp only []
  rw [pf_fraction ty now _ us rest hty (by exact h1) hu.1 hu.2 hr rfl]

theorem pfs_blank (ty : Ty) (now : Clock) (st0 : St) (h mi s : Int) (rest : Bytes) (hh : 0 ≤ h ∧ h < 24)
    (hs : st0.s = 32 :: timeText h mi s rest) :
    parseFields ty now st0 [.Blank 1] = .ok { st0 with s := timeText h mi s rest } := by
  have rh := run2 h (by omega) (by omega)
  simp only [parseFields, bind, Except.bind]
  rw [pf_blank ty now st0 1 _ _ rh hs]
  rfl


theorem parse_of_fields (ty : Ty) (fields : List Field) (input : Bytes) (now : Clock) (st : St) (v : Int)
    (hp : parseFields ty now (initSt ty input) fields = .ok st) (hs : st.s = []) (hdoy : st.doy = none)
    (hdow : st.dow = none) (hdef : ty.info.HAS_DATE = true → st.isYearSet = true ∧ st.isMonthSet = true)
    (hv : tryFromNDT ty st.dt = .ok v) : parse ty fields input now = .ok (v, st.reads) := by
  have hd : applyDefaults ty st now = (st.dt, st.reads) := by
    unfold applyDefaults
    cases hty : ty.info.HAS_DATE with
    | false => simp
    | true => obtain ⟨a, b⟩ := hdef hty; simp [a, b]
  unfold parse
  simp only [hp, bind, Except.bind, hs, hd, resolveDoy, hdoy, finish, hdow, pure, Except.pure, hv]
  simp [eatWhitespaces]

theorem deStr_of_parse (ty : Ty) (fields : List Field) (text : Bytes) (now : Clock) (v : Int) (r : Nat)
    (hl : Lexer.tryNew (Serde.picture ty) = .ok fields) (hp : parse ty fields text now = .ok (v, r)) :
    Serde.deStr ty text now = .ok v := by
  unfold Serde.deStr parseValue
  simp only [hl, bind, Except.bind, hp]

theorem deStr_D (y m d : Int) (hv : ValidYMD y m d) (now : Clock) :
    Serde.deStr .D (dateText y m d []) now = .ok (dayNumber y m d) := by
  apply deStr_of_parse _ _ _ _ _ _ tryNew_D
  have hp := pfs_date .D now { s := dateText y m d [] } y m d [] rfl rfl rfl rfl rfl rfl rfl hv noDigitHead_nil rfl
  exact parse_of_fields .D _ _ now _ _ hp rfl rfl rfl (fun _ => ⟨rfl, rfl⟩) (C01.tryFromYmd_roundtrip y m d hv).1


theorem validateHms_ok (h mi s : Int) (hh : h < 24) (hm : mi < 60) (hs : s < 60) : Time.validateHms h mi s = .ok () := by
  unfold Time.validateHms HOURS_PER_DAY MINUTES_PER_HOUR SECONDS_PER_MINUTE
  have a : ¬ h ≥ 24 := by omega
  have b : ¬ mi ≥ 60 := by omega
  have c : ¬ s ≥ 60 := by omega
  simp [a, b, c]

theorem deStr_T (h mi s us : Int) (hh : 0 ≤ h ∧ h < 24) (hm : 0 ≤ mi ∧ mi < 60) (hs : 0 ≤ s ∧ s < 60)
    (hu : 0 ≤ us ∧ us < 1000000) (now : Clock) :
    Serde.deStr .T (timeText h mi s (46 :: (pad 6 us.toNat ++ []))) now = .ok (Time.fromHmsUnchecked h mi s us) := by
  apply deStr_of_parse _ _ _ _ _ _ tryNew_T
  have hp : parseFields .T now { s := timeText h mi s (46 :: (pad 6 us.toNat ++ [])) }
      ([.Hour24, .Colon, .Minute, .Colon, .Second] ++ [.Dot, .Fraction (some 6)]) =
      .ok { s := [], dt := { hour := h, minute := mi, sec := s, usec := us }, isHour24Set := some true,
            isMinSet := true, isSecSet := true, isFractionSet := true } := by
    rw [parseFields_append, pfs_time .T now _ h mi s _ rfl rfl rfl rfl rfl rfl rfl rfl
      hh hm hs (noDigitHead_cons 46 _ (by decide)) rfl]
    simp only [bind, Except.bind]
    rw [pfs_frac .T now _ us [] rfl (by rfl) hu noDigitHead_nil rfl]
  refine parse_of_fields .T _ _ now _ _ hp rfl rfl rfl (fun hx => by cases hx) ?_
  have tr := time_range h mi s us hh hm hs hu
  simp only [tryFromNDT, bind, Except.bind, validateHms_ok h mi s hh.2 hm.2 hs.2]
  have : isValidTime (Time.fromHmsUnchecked h mi s us) := (isValidTime_iff _).2 tr
  unfold Time.tryFromUsecs
  unfold Time.fromHmsUnchecked at this ⊢
  simp [this]


theorem validateYmd_ok (y m d : Int) (hv : ValidYMD y m d) : Date.validateYmd y m d = .ok () := by
  have h := (C01.tryFromYmd_roundtrip y m d hv).1
  unfold Date.tryFromYmd at h
  unfold Date.validateYmd
  split at h; · cases h
  split at h; · cases h
  split at h; · cases h
  split at h; · cases h
  rename_i a b c e
  simp [a, b, c, e]

theorem tsOf_valid (y m d h mi s us : Int) (hv : ValidYMD y m d) (hh : 0 ≤ h ∧ h < 24) (hm : 0 ≤ mi ∧ mi < 60)
    (hs : 0 ≤ s ∧ s < 60) (hu : 0 ≤ us ∧ us < 1000000) : isValidTimestamp (tsOf y m d h mi s us) := by
  have tr := time_range h mi s us hh hm hs hu
  have dr := dayNumber_range y m d hv
  rw [isValidTimestamp_iff]; unfold tsOf; omega

theorem tryFromNDT_ts (y m d h mi s us : Int) (hv : ValidYMD y m d) (hh : 0 ≤ h ∧ h < 24) (hm : 0 ≤ mi ∧ mi < 60)
    (hs : 0 ≤ s ∧ s < 60) (hu : 0 ≤ us ∧ us < 1000000) :
    tryFromNDT .TS { year := y, month := m, day := d, hour := h, minute := mi, sec := s, usec := us } =
      .ok (tsOf y m d h mi s us) := by
  have e := fromYmd_eq_dayNumber y m d ⟨by have := hv.1; omega, by have := hv.2.1; omega⟩ ⟨hv.2.2.1, hv.2.2.2.1⟩
  unfold Date.fromYmdUnchecked at e
  have hvalid := tsOf_valid y m d h mi s us hv hh hm hs hu
  simp only [tryFromNDT, bind, Except.bind, validateHms_ok h mi s hh.2 hm.2 hs.2, validateYmd_ok y m d hv, e]
  have e2 : dayNumber y m d * USECONDS_PER_DAY + h * USECONDS_PER_HOUR + mi * USECONDS_PER_MINUTE + s * USECONDS_PER_SECOND + us
      = tsOf y m d h mi s us := by
    unfold tsOf Time.fromHmsUnchecked USECONDS_PER_DAY; omega
  rw [e2]
  unfold Timestamp.tryFromUsecs
  simp [hvalid]

theorem tryFromNDT_od (y m d h mi s : Int) (hv : ValidYMD y m d) (hh : 0 ≤ h ∧ h < 24) (hm : 0 ≤ mi ∧ mi < 60)
    (hs : 0 ≤ s ∧ s < 60) :
    tryFromNDT .OD { year := y, month := m, day := d, hour := h, minute := mi, sec := s } =
      .ok (tsOf y m d h mi s 0) := by
  have hu : (0:Int) ≤ 0 ∧ (0:Int) < 1000000 := by omega
  have e := fromYmd_eq_dayNumber y m d ⟨by have := hv.1; omega, by have := hv.2.1; omega⟩ ⟨hv.2.2.1, hv.2.2.2.1⟩
  unfold Date.fromYmdUnchecked at e
  have hvalid := tsOf_valid y m d h mi s 0 hv hh hm hs hu
  simp only [tryFromNDT, bind, Except.bind, validateHms_ok h mi s hh.2 hm.2 hs.2, validateYmd_ok y m d hv, e]
  have e2 : dayNumber y m d * USECONDS_PER_DAY + h * USECONDS_PER_HOUR + mi * USECONDS_PER_MINUTE + s * USECONDS_PER_SECOND + 0
      = tsOf y m d h mi s 0 := by
    unfold tsOf Time.fromHmsUnchecked USECONDS_PER_DAY; omega
  rw [e2]
  unfold Timestamp.tryFromUsecs
  have e3 : OracleDate.fromTimestamp (tsOf y m d h mi s 0) = tsOf y m d h mi s 0 := by
    apply C16.fromTimestamp_id
    unfold tsOf Time.fromHmsUnchecked USECONDS_PER_HOUR USECONDS_PER_MINUTE USECONDS_PER_SECOND; omega
  simp [hvalid, pure, Except.pure, e3]

theorem deStr_TS (y m d h mi s us : Int) (hv : ValidYMD y m d) (hh : 0 ≤ h ∧ h < 24) (hm : 0 ≤ mi ∧ mi < 60)
    (hs : 0 ≤ s ∧ s < 60) (hu : 0 ≤ us ∧ us < 1000000) (now : Clock) :
    Serde.deStr .TS (dateText y m d (32 :: timeText h mi s (46 :: (pad 6 us.toNat ++ [])))) now =
      .ok (tsOf y m d h mi s us) := by
  apply deStr_of_parse _ _ _ _ _ _ tryNew_TS
  have hp : parseFields .TS now { s := dateText y m d (32 :: timeText h mi s (46 :: (pad 6 us.toNat ++ []))) }
      ([.Year 4, .Hyphen, .Month, .Hyphen, .Day] ++ ([.Blank 1] ++ ([.Hour24, .Colon, .Minute, .Colon, .Second] ++
        [.Dot, .Fraction (some 6)]))) =
      .ok { s := [], dt := { year := y, month := m, day := d, hour := h, minute := mi, sec := s, usec := us },
            isYearSet := true, isMonthSet := true, isDaySet := true, isHour24Set := some true,
            isMinSet := true, isSecSet := true, isFractionSet := true } := by
    rw [parseFields_append, pfs_date .TS now _ y m d _ rfl rfl rfl rfl rfl rfl rfl hv (noDigitHead_cons 32 _ (by decide)) rfl]
    simp only [bind, Except.bind]
    rw [parseFields_append, pfs_blank .TS now _ h mi s _ hh rfl]
    simp only [bind, Except.bind]
    rw [parseFields_append, pfs_time .TS now _ h mi s _ rfl rfl rfl rfl rfl rfl rfl rfl
      hh hm hs (noDigitHead_cons 46 _ (by decide)) rfl]
    simp only [bind, Except.bind]
    rw [pfs_frac .TS now _ us [] rfl (by rfl) hu noDigitHead_nil rfl]
  exact parse_of_fields .TS _ _ now _ _ hp rfl rfl rfl (fun _ => ⟨rfl, rfl⟩) (tryFromNDT_ts y m d h mi s us hv hh hm hs hu)

theorem deStr_OD (y m d h mi s : Int) (hv : ValidYMD y m d) (hh : 0 ≤ h ∧ h < 24) (hm : 0 ≤ mi ∧ mi < 60)
    (hs : 0 ≤ s ∧ s < 60) (now : Clock) :
    Serde.deStr .OD (dateText y m d (32 :: timeText h mi s [])) now = .ok (tsOf y m d h mi s 0) := by
  apply deStr_of_parse _ _ _ _ _ _ tryNew_OD
  have hp : parseFields .OD now { s := dateText y m d (32 :: timeText h mi s []) }
      ([.Year 4, .Hyphen, .Month, .Hyphen, .Day] ++ ([.Blank 1] ++ [.Hour24, .Colon, .Minute, .Colon, .Second])) =
      .ok { s := [], dt := { year := y, month := m, day := d, hour := h, minute := mi, sec := s },
            isYearSet := true, isMonthSet := true, isDaySet := true, isHour24Set := some true,
            isMinSet := true, isSecSet := true } := by
    rw [parseFields_append, pfs_date .OD now _ y m d _ rfl rfl rfl rfl rfl rfl rfl hv (noDigitHead_cons 32 _ (by decide)) rfl]
    simp only [bind, Except.bind]
    rw [parseFields_append, pfs_blank .OD now _ h mi s _ hh rfl]
    simp only [bind, Except.bind]
    rw [pfs_time .OD now _ h mi s _ rfl rfl rfl rfl rfl rfl rfl rfl hh hm hs noDigitHead_nil rfl]
  exact parse_of_fields .OD _ _ now _ _ hp rfl rfl rfl (fun _ => ⟨rfl, rfl⟩) (tryFromNDT_od y m d h mi s hv hh hm hs)


theorem tryFromNDT_ym (neg : Bool) (y mo : Int) (hy : 0 ≤ y) (hm : 0 ≤ mo ∧ mo < 12) (hval : y * 12 + mo ≤ 2136000000) :
    tryFromNDT .YM { negative := neg, year := (if neg then -y else y), month := mo } = .ok (ymOf neg y mo) := by
  have hs := C13.ym_tryFromYm_spec y mo hy hm.1
  have c1 : ¬ (y > 178000000 ∨ (y = 178000000 ∧ mo ≠ 0)) := by omega
  have c2 : ¬ mo ≥ 12 := by omega
  rw [if_neg c1, if_neg c2] at hs
  have ea : asU32 y = y := by unfold asU32; omega
  cases neg with
  | false => simp [tryFromNDT, ea, hs, ymOf]
  | true => simp [tryFromNDT, ea, hs, ymOf, bind, Except.bind, pure, Except.pure, IntervalYM.negate]

theorem deStr_YM (neg : Bool) (y mo : Int) (hy : 0 ≤ y) (hm : 0 ≤ mo ∧ mo < 12) (hval : y * 12 + mo ≤ 2136000000)
    (now : Clock) :
    Serde.deStr .YM (signB neg :: (pad 4 y.toNat ++ 45 :: (pad 2 mo.toNat ++ []))) now = .ok (ymOf neg y mo) := by
  apply deStr_of_parse _ _ _ _ _ _ tryNew_YM
  have ry := run9 4 (by decide) y hy (by omega)
  have rm := run2 mo hm.1 (by omega)
  have hp : parseFields .YM now { s := signB neg :: (pad 4 y.toNat ++ 45 :: (pad 2 mo.toNat ++ [])), dt := { year := 0 } }
      [.Year 4, .Hyphen, .Month] =
      .ok { s := [], dt := { negative := neg, year := (if neg then -y else y), month := mo },
            isYearSet := true, isMonthSet := true } := by
    simp only [parseFields, bind, Except.bind]
    rw [pf_year_ym now _ neg _ _ y rfl ry (noDigitHead_cons 45 _ (by decide)) rfl]
    simp only []
    rw [pf_hyphen .YM now _ _ rfl]
    simp only []
    rw [pf_month .YM now _ _ _ mo rfl rfl (by rfl) rm noDigitHead_nil rfl]
  exact parse_of_fields .YM _ _ now _ _ hp rfl rfl rfl (fun hx => by cases hx) (tryFromNDT_ym neg y mo hy hm hval)

theorem tryFromNDT_dt (neg : Bool) (d h mi s us : Int) (hd : 0 ≤ d) (hh : 0 ≤ h ∧ h < 24) (hm : 0 ≤ mi ∧ mi < 60)
    (hs : 0 ≤ s ∧ s < 60) (hu : 0 ≤ us ∧ us < 1000000) (hval : dtMag d h mi s us ≤ 8640000000000000000) :
    tryFromNDT .DT { negative := neg, day := d, hour := h, minute := mi, sec := s, usec := us } =
      .ok (dtOf neg d h mi s us) := by
  unfold dtMag at hval
  have hsp := C13.dt_tryFromDhms_spec d h mi s 0 hd hh.1 hm.1 hs.1 (by omega)
  have c1 : ¬ (d > 100000000 ∨ (d = 100000000 ∧ (h ≠ 0 ∨ mi ≠ 0 ∨ s ≠ 0 ∨ (0:Int) ≠ 0))) := by omega
  have c2 : ¬ h ≥ 24 := by omega
  have c3 : ¬ mi ≥ 60 := by omega
  have c4 : ¬ s ≥ 60 := by omega
  have c5 : ¬ (0:Int) ≥ 1000000 := by omega
  rw [if_neg c1, if_neg c2, if_neg c3, if_neg c4, if_neg c5] at hsp
  have e : d * 86400000000 + h * 3600000000 + mi * 60000000 + s * 1000000 + 0 + us = dtMag d h mi s us := by
    unfold dtMag; omega
  have hv : IntervalDT.isValidUsecs (dtMag d h mi s us) := by
    unfold IntervalDT.isValidUsecs INTERVAL_MAX_USECONDS dtMag; omega
  simp only [tryFromNDT, hsp, bind, Except.bind, e, IntervalDT.tryFromUsecs, hv, ↓reduceIte, pure, Except.pure]
  cases neg <;> simp [dtOf, IntervalDT.negate]

theorem deStr_DT (neg : Bool) (d h mi s us : Int) (hd : 0 ≤ d) (hh : 0 ≤ h ∧ h < 24) (hm : 0 ≤ mi ∧ mi < 60)
    (hs : 0 ≤ s ∧ s < 60) (hu : 0 ≤ us ∧ us < 1000000) (hval : dtMag d h mi s us ≤ 8640000000000000000) (now : Clock) :
    Serde.deStr .DT (signB neg :: (pad 2 d.toNat ++ 32 :: timeText h mi s (46 :: (pad 6 us.toNat ++ [])))) now =
      .ok (dtOf neg d h mi s us) := by
  apply deStr_of_parse _ _ _ _ _ _ tryNew_DT
  have hd9 : d < 1000000000 := by unfold dtMag at hval; omega
  have rd := run9 2 (by decide) d hd hd9
  have hp : parseFields .DT now { s := signB neg :: (pad 2 d.toNat ++ 32 :: timeText h mi s (46 :: (pad 6 us.toNat ++ []))), dt := { day := 0 } }
      ([.Day] ++ ([.Blank 1] ++ ([.Hour24, .Colon, .Minute, .Colon, .Second] ++ [.Dot, .Fraction (some 6)]))) =
      .ok { s := [], dt := { negative := neg, day := d, hour := h, minute := mi, sec := s, usec := us },
            isDaySet := true, isHour24Set := some true, isMinSet := true, isSecSet := true, isFractionSet := true } := by
    rw [parseFields_append]
    simp only [parseFields, bind, Except.bind]
    rw [pf_day_dt now _ neg _ _ d rfl rd (noDigitHead_cons 32 _ (by decide)) rfl]
    simp only []
    rw [parseFields_append, pfs_blank .DT now _ h mi s _ hh rfl]
    simp only [bind, Except.bind]
    rw [parseFields_append, pfs_time .DT now _ h mi s _ rfl rfl rfl rfl rfl rfl rfl rfl
      hh hm hs (noDigitHead_cons 46 _ (by decide)) rfl]
    simp only [bind, Except.bind]
    rw [pfs_frac .DT now _ us [] rfl (by rfl) hu noDigitHead_nil rfl]
  exact parse_of_fields .DT _ _ now _ _ hp rfl rfl rfl (fun hx => by cases hx) (tryFromNDT_dt neg d h mi s us hd hh hm hs hu hval)

end SqlDt.Lemmas
