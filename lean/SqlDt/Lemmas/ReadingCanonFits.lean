/-
  Lemmas/ReadingCanonFits: the canonical reading of a rendered text fits the picture (`Lex.fits`) and – for a lossless
  picture – is delimited (`Delimited`); its text is the rendered text.
-/
import SqlDt.Lemmas.ReadingCanonText
namespace SqlDt.Lemmas
open SqlDt Gen Spec Parser

/-! ### what `see` guarantees about one token -/

theorem see_facts (ty : Ty) (s s' : Seen) (f : Field) (h : see ty s f = some s') :
    applicable ty f = true ∧ (∀ w, f = .Year w → hasDate ty = true → w = 4) ∧
    (∀ p, f = .Fraction p → 6 ≤ p.getD 6) := by
  unfold see at h
  split at h
  · cases h
  · rename_i happ
    refine ⟨by simpa using happ, ?_, ?_⟩
    · intro w hf hd; subst hf
      simp only [] at h
      split at h
      · cases h
      · rename_i hc; simp [hd] at hc; exact hc.2
    · intro p hf; subst hf
      simp only [] at h
      split at h
      · cases h
      · rename_i hc; simp at hc; omega

theorem seeAll_cons (ty : Ty) (s s' : Seen) (f : Field) (fs : List Field) (h : seeAll ty s (f :: fs) = some s') :
    ∃ s1, see ty s f = some s1 ∧ seeAll ty s1 fs = some s' := by
  simp only [seeAll] at h
  cases hs : see ty s f with
  | none => simp [hs] at h
  | some s1 => exact ⟨s1, rfl, by simpa [hs] using h⟩

/-! ### fits -/

theorem numLex_fits (w k n : Nat) (hn : n < 10 ^ k) (hwk : w ≤ k) (hk : 1 ≤ k ∧ k ≤ 9) :
    numWidth (w - (digits n).length) n ≤ k ∧ n < 10 ^ 9 := by
  have h9 : (10:Nat) ^ k ≤ 10 ^ 9 := Nat.pow_le_pow_right (by decide) hk.2
  have h20 : (10:Nat) ^ 9 ≤ 10 ^ 20 := by decide
  have := digits_length_le n k hk.1 hn (by omega)
  refine ⟨?_, by omega⟩
  unfold numWidth; omega

theorem numLex_fits_b (w k n : Nat) (hn : n < 10 ^ k) (hwk : w ≤ k) (hk : 1 ≤ k ∧ k ≤ 9) :
    (decide (numWidth (w - (digits n).length) n ≤ k) && decide (n < 10 ^ 9)) = true := by
  have := numLex_fits w k n hn hwk hk
  simp only [Bool.and_eq_true, decide_eq_true_eq]; exact this

theorem hour12Of_range (h : Int) (h0 : 0 ≤ h) : 1 ≤ hour12Of h ∧ hour12Of h ≤ 12 := by
  unfold hour12Of; omega

theorem canon_fits (ty : Ty) (c : Comps) (hb : Bounds ty c) (f : Field) (hwf : Field.WellFormed f)
    (happ : applicable ty f = true) : (canonLex ty c f).fits ty f = true := by
  have hy := hb.year; have hm := hb.month; have hd := hb.day; have hh := hb.hour; have hmi := hb.minute
  have hs := hb.sec; have hw := hb.dow0; have hdo := hb.doy
  cases f with
  | Invalid => simp [applicable] at happ
  | Blank n => simp [Lex.fits, happ, canonLex]
  | Hyphen => simp [Lex.fits, happ, canonLex]
  | Colon => simp [Lex.fits, happ, canonLex]
  | Slash => simp [Lex.fits, happ, canonLex]
  | Backslash => simp [Lex.fits, happ, canonLex]
  | Comma => simp [Lex.fits, happ, canonLex]
  | Dot => simp [Lex.fits, happ, canonLex]
  | Semicolon => simp [Lex.fits, happ, canonLex]
  | T => simp [Lex.fits, happ, canonLex]
  | Year w =>
    simp only [Field.WellFormed] at hwf
    by_cases hym : ty = .YM
    · subst hym
      simp only [↓reduceIte] at hy
      have := numLex_fits_b w 9 c.year.toNat (by omega) (by omega) (by omega)
      (simp only [Lex.fits, happ, Bool.not_true, Bool.false_eq_true, ↓reduceIte, canonLex, numLex, maxDigits, Ty.info, INFO_YM]; exact this)
    · have hlt : (c.year % ((10 ^ w : Nat) : Int)).toNat < 10 ^ w := by
        have hp : (0 : Int) < ((10 ^ w : Nat) : Int) := by positivity
        have := Int.emod_lt_of_pos c.year hp
        have := Int.emod_nonneg c.year (ne_of_gt hp)
        omega
      have h1 : w = 1 ∨ w = 2 ∨ w = 3 ∨ w = 4 := by omega
      have := numLex_fits_b w (if w = 2 then 4 else w) (c.year % ((10 ^ w : Nat) : Int)).toNat
        (by rcases h1 with rfl | rfl | rfl | rfl <;> simp at hlt ⊢ <;> omega)
        (by split <;> omega) (by split <;> omega)
      (simp only [Lex.fits, happ, Bool.not_true, Bool.false_eq_true, ↓reduceIte, canonLex, numLex, maxDigits, hym]; exact this)
  | Month =>
    have := numLex_fits_b 2 2 c.month.toNat (by omega) (by omega) (by omega)
    cases ty <;> (simp only [Lex.fits, happ, Bool.not_true, Bool.false_eq_true, ↓reduceIte, canonLex, numLex, maxDigits, Ty.info, INFO_D, INFO_T, INFO_TS, INFO_YM, INFO_DT, INFO_OD]; exact this)
  | Day =>
    by_cases hdt : ty = .DT
    · subst hdt
      simp only [↓reduceIte] at hd
      have := numLex_fits_b 2 9 c.day.toNat (by omega) (by omega) (by omega)
      (simp only [Lex.fits, happ, Bool.not_true, Bool.false_eq_true, ↓reduceIte, canonLex, numLex, maxDigits, Ty.info, INFO_DT]; exact this)
    · simp only [hdt, ↓reduceIte] at hd
      have := numLex_fits_b 2 2 c.day.toNat (by omega) (by omega) (by omega)
      cases ty <;> simp at hdt <;>
        (simp only [Lex.fits, happ, Bool.not_true, Bool.false_eq_true, ↓reduceIte, canonLex, numLex, maxDigits, Ty.info, INFO_D, INFO_T, INFO_TS, INFO_YM, INFO_OD]; exact this)
  | Hour24 =>
    have := numLex_fits_b 2 2 c.hour.toNat (by omega) (by omega) (by omega)
    cases ty <;> (simp only [Lex.fits, happ, Bool.not_true, Bool.false_eq_true, ↓reduceIte, canonLex, numLex, maxDigits, Ty.info, INFO_D, INFO_T, INFO_TS, INFO_YM, INFO_DT, INFO_OD]; exact this)
  | Hour12 =>
    have hr := hour12Of_range c.hour hh.1
    have := numLex_fits_b 2 2 (hour12Of c.hour).toNat (by omega) (by omega) (by omega)
    cases ty <;> (simp only [Lex.fits, happ, Bool.not_true, Bool.false_eq_true, ↓reduceIte, canonLex, numLex, maxDigits, Ty.info, INFO_D, INFO_T, INFO_TS, INFO_YM, INFO_DT, INFO_OD]; exact this)
  | Minute =>
    have := numLex_fits_b 2 2 c.minute.toNat (by omega) (by omega) (by omega)
    cases ty <;> (simp only [Lex.fits, happ, Bool.not_true, Bool.false_eq_true, ↓reduceIte, canonLex, numLex, maxDigits, Ty.info, INFO_D, INFO_T, INFO_TS, INFO_YM, INFO_DT, INFO_OD]; exact this)
  | Second =>
    have := numLex_fits_b 2 2 c.sec.toNat (by omega) (by omega) (by omega)
    cases ty <;> (simp only [Lex.fits, happ, Bool.not_true, Bool.false_eq_true, ↓reduceIte, canonLex, numLex, maxDigits, Ty.info, INFO_D, INFO_T, INFO_TS, INFO_YM, INFO_DT, INFO_OD]; exact this)
  | DayOfYear =>
    have := numLex_fits_b 3 3 c.doy.toNat (by omega) (by omega) (by omega)
    cases ty <;> (simp only [Lex.fits, happ, Bool.not_true, Bool.false_eq_true, ↓reduceIte, canonLex, numLex, maxDigits, Ty.info, INFO_D, INFO_T, INFO_TS, INFO_YM, INFO_DT, INFO_OD]; exact this)
  | DayOfWeek => simp [Lex.fits, happ, canonLex]; omega
  | WeekOfMonth => simp [applicable] at happ
  | WeekOfYear => simp [applicable] at happ
  | AmPm style => simp [Lex.fits, happ, canonLex]
  | MonthName style =>
    have hm1 := hb.monthD (by simpa [applicable] using happ)
    simp [Lex.fits, happ, canonLex]; omega
  | DayName style => simp [Lex.fits, happ, canonLex]; omega
  | Fraction p =>
    have hp9 : 1 ≤ p.getD 6 ∧ p.getD 6 ≤ 9 ∧ p.getD 6 ≤ p.getD 9 := by
      cases p with
      | none => simp
      | some q => simp [Field.WellFormed] at hwf; simpa using hwf
    obtain ⟨f0, f1⟩ := fraction_bound ty c hb (p.getD 6) hp9.2.1
    have h20 : (fractionOf c.usec (p.getD 6)).toNat < 10 ^ 20 := by
      have : (10:Nat) ^ (p.getD 6) ≤ 10 ^ 9 := Nat.pow_le_pow_right (by decide) hp9.2.1
      have : (10:Nat) ^ 9 ≤ 10 ^ 20 := by decide
      omega
    have hlen := pad_length (p.getD 6) (fractionOf c.usec (p.getD 6)).toNat hp9.1 (by omega) h20
    have hdig := pad_digs (p.getD 6) (fractionOf c.usec (p.getD 6)).toNat h20
    have hall : ((pad (p.getD 6) (fractionOf c.usec (p.getD 6)).toNat).map (· - 48)).all (· ≤ 9) = true := by
      rw [List.all_eq_true]
      intro x hx
      obtain ⟨b, hb', rfl⟩ := List.mem_map.1 hx
      have := hdig b hb'
      simp only [isDigitB, Bool.and_eq_true, decide_eq_true_eq] at this
      simp; omega
    simp only [Lex.fits, happ, Bool.not_true, Bool.false_eq_true, ↓reduceIte, canonLex, List.length_map, hlen, maxDigits,
      Bool.and_eq_true, decide_eq_true_eq]
    exact ⟨⟨hp9.1, hp9.2.2⟩, hall⟩

end SqlDt.Lemmas
