/-
  Lemmas/Consts: the crate's derived constants as numerals, and unfolding lemmas for the
  truncating division used throughout.
-/
import SqlDt.Model.Types
namespace SqlDt
open Gen

theorem UNIX_EPOCH_JULIAN_eq : UNIX_EPOCH_JULIAN = 2440588 := by decide
theorem DATE_MIN_JULIAN_eq : DATE_MIN_JULIAN = 1721426 := by decide
theorem DATE_MAX_JULIAN_eq : DATE_MAX_JULIAN = 5373484 := by decide
theorem DATE_MIN_DAYS_eq : DATE_MIN_DAYS = -719162 := by decide
theorem DATE_MAX_DAYS_eq : DATE_MAX_DAYS = 2932896 := by decide
theorem TIMESTAMP_MIN_eq : TIMESTAMP_MIN = -62135596800000000 := by decide
theorem TIMESTAMP_MAX_eq : TIMESTAMP_MAX = 253402300799999999 := by decide

theorem isValidDate_iff (d : Int) : isValidDate d ↔ -719162 ≤ d ∧ d ≤ 2932896 := by
  unfold isValidDate; rw [DATE_MIN_DAYS_eq, DATE_MAX_DAYS_eq]

theorem isValidTimestamp_iff (t : Int) :
    isValidTimestamp t ↔ -62135596800000000 ≤ t ∧ t ≤ 253402300799999999 := by
  unfold isValidTimestamp; rw [TIMESTAMP_MIN_eq, TIMESTAMP_MAX_eq]

theorem isValidTime_iff (t : Int) : isValidTime t ↔ 0 ≤ t ∧ t < 86400000000 := by
  unfold isValidTime USECONDS_PER_DAY; constructor <;> intro h <;> omega

theorem rdiv_nonneg_eq {a b : Int} (h : 0 ≤ a) : rdiv a b = a / b := by simp [rdiv, h]
theorem rrem_nonneg_eq {a b : Int} (h : 0 ≤ a) : rrem a b = a % b := by simp [rrem, h]
theorem rdiv_neg_eq {a b : Int} (h : a < 0) : rdiv a b = -((-a) / b) := by
  have : ¬ 0 ≤ a := by omega
  simp [rdiv, this]
theorem rrem_neg_eq {a b : Int} (h : a < 0) : rrem a b = -((-a) % b) := by
  have : ¬ 0 ≤ a := by omega
  simp [rrem, this]

end SqlDt
