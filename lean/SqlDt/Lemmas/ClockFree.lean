/-
  Lemmas/ClockFree: the parser consults the clock only through short year fields (Y, YY, YYY) and through the
  year/month defaults applied after the field loop.
-/
import SqlDt.Model.Parse
namespace SqlDt.Lemmas
open SqlDt Gen Parser

/-- A field that never asks for the clock while being parsed. -/
def Field.clockFree : Field → Bool
  | .Year n => !(n == 1 || n == 2 || n == 3)
  | _ => true

theorem parseYear_clockFree (input : Bytes) (n : Nat) (c1 c2 : Clock) (h : ¬ (n = 1 ∨ n = 2 ∨ n = 3)) :
    parseYear input n c1 = parseYear input n c2 := by
  unfold parseYear
  have h2 : ¬ n = 2 := by omega
  have h13 : ¬ (n = 1 ∨ n = 3) := by omega
  simp only [h2, h13, ↓reduceIte]

/-- Interval year fields use the 9-digit literal rule whatever the token width. -/
theorem parseField_clockFree (ty : Ty) (c1 c2 : Clock) (st : St) (f : Field)
    (h : Field.clockFree f = true ∨ ty.info.IS_INTERVAL_YM = true) :
    parseField ty c1 st f = parseField ty c2 st f := by
  cases f <;> try rfl
  rename_i n
  unfold parseField
  simp only []
  by_cases hym : ty.info.IS_INTERVAL_YM = true
  · have : ty = .YM := by cases ty <;> simp [Ty.info, INFO_D, INFO_T, INFO_TS, INFO_DT, INFO_OD] at hym ⊢
    subst this
    simp only [Ty.info, INFO_YM, Bool.or_true, ↓reduceIte]
    rw [parseYear_clockFree _ 9 c1 c2 (by omega)]
  · rcases h with h | h
    · have hn : ¬ (n = 1 ∨ n = 2 ∨ n = 3) := by
        simp [Field.clockFree] at h; omega
      simp only [hym, Bool.false_eq_true, ↓reduceIte]
      rw [parseYear_clockFree _ n c1 c2 hn]
    · exact absurd h hym

theorem parseFields_clockFree (ty : Ty) (c1 c2 : Clock) :
    ∀ (fields : List Field) (st : St),
      (∀ f ∈ fields, Field.clockFree f = true ∨ ty.info.IS_INTERVAL_YM = true) →
      parseFields ty c1 st fields = parseFields ty c2 st fields := by
  intro fields
  induction fields with
  | nil => intro st _; rfl
  | cons f fs ih =>
    intro st h
    unfold parseFields
    rw [parseField_clockFree ty c1 c2 st f (h f (by simp))]
    cases parseField ty c2 st f with
    | error e => rfl
    | ok st' => simp only [bind, Except.bind]; exact ih st' (fun g hg => h g (by simp [hg]))

end SqlDt.Lemmas

namespace SqlDt.Lemmas
open SqlDt Gen Parser

theorem expectChar_flags (st st' : St) (ch : Nat) (t : Bool) (h : expectChar st ch t = .ok st') :
    st'.isYearSet = st.isYearSet ∧ st'.isMonthSet = st.isMonthSet := by
  unfold expectChar at h
  split at h
  · split at h
    · cases h; exact ⟨rfl, rfl⟩
    · cases h
  · split at h
    · cases h; exact ⟨rfl, rfl⟩
    · cases h

theorem expectNumber_flags (st st' : St) (k : Nat) (n : Int) (b : Bool) (h : expectNumber st k = .ok (n, b, st')) :
    st'.isYearSet = st.isYearSet ∧ st'.isMonthSet = st.isMonthSet := by
  unfold expectNumber at h
  cases hp : parseNumber st.s k with
  | error e => simp [hp, bind, Except.bind] at h
  | ok v =>
    obtain ⟨a, b', c⟩ := v
    simp [hp, bind, Except.bind, pure, Except.pure] at h
    obtain ⟨_, _, rfl⟩ := h
    exact ⟨rfl, rfl⟩

theorem expectNumberTol_flags (st st' : St) (k : Nat) (d n : Int) (b : Bool)
    (h : expectNumberTol st k d = .ok (n, b, st')) :
    st'.isYearSet = st.isYearSet ∧ st'.isMonthSet = st.isMonthSet := by
  unfold expectNumberTol at h
  split at h
  · cases h; exact ⟨rfl, rfl⟩
  · exact expectNumber_flags st st' k n b h

theorem expectNumber_flags' (st : St) (k : Nat) (v : Int × Bool × St) (h : expectNumber st k = .ok v) :
    v.2.2.isYearSet = st.isYearSet ∧ v.2.2.isMonthSet = st.isMonthSet := by
  obtain ⟨n, b, s2⟩ := v; exact expectNumber_flags st s2 k n b h

theorem expectNumberTol_flags' (st : St) (k : Nat) (d : Int) (v : Int × Bool × St) (h : expectNumberTol st k d = .ok v) :
    v.2.2.isYearSet = st.isYearSet ∧ v.2.2.isMonthSet = st.isMonthSet := by
  obtain ⟨n, b, s2⟩ := v; exact expectNumberTol_flags st s2 k d n b h

theorem parseField_flags (ty : Ty) (c : Clock) (st st' : St) (f : Field) (h : parseField ty c st f = .ok st') :
    (st.isYearSet = true → st'.isYearSet = true) ∧ (st.isMonthSet = true → st'.isMonthSet = true) ∧
    ((∃ n, f = .Year n) → st'.isYearSet = true) ∧
    ((f = .Month ∨ ∃ s, f = .MonthName s) → st'.isMonthSet = true) := by
  cases f <;> simp only [parseField, perr, bind, Except.bind, pure, Except.pure] at h
  all_goals
    first
    | (have := expectChar_flags _ _ _ _ h; simp_all; done)
    | (cases h; simp; done)
    | (repeat' (split at h)
       all_goals
         first
         | (cases h; done)
         | (have := expectNumber_flags' _ _ _ (by assumption); cases h; simp_all; done)
         | (have := expectNumberTol_flags' _ _ _ _ (by assumption); cases h; simp_all; done)
         | (cases h; simp_all; done))

theorem parseFields_flags (ty : Ty) (c : Clock) :
    ∀ (fields : List Field) (st st' : St), parseFields ty c st fields = .ok st' →
      (st.isYearSet = true → st'.isYearSet = true) ∧ (st.isMonthSet = true → st'.isMonthSet = true) ∧
      ((∃ n, Field.Year n ∈ fields) → st'.isYearSet = true) ∧
      ((Field.Month ∈ fields ∨ ∃ s, Field.MonthName s ∈ fields) → st'.isMonthSet = true) := by
  intro fields
  induction fields with
  | nil =>
    intro st st' h
    simp only [parseFields] at h; cases h
    refine ⟨id, id, ?_, ?_⟩
    · rintro ⟨n, hn⟩; cases hn
    · rintro (h | ⟨s, h⟩) <;> cases h
  | cons f fs ih =>
    intro st st' h
    unfold parseFields at h
    cases hf : parseField ty c st f with
    | error e => simp [hf, bind, Except.bind] at h
    | ok st1 =>
      simp only [hf, bind, Except.bind] at h
      obtain ⟨a1, a2, a3, a4⟩ := parseField_flags ty c st st1 f hf
      obtain ⟨b1, b2, b3, b4⟩ := ih st1 st' h
      refine ⟨fun x => b1 (a1 x), fun x => b2 (a2 x), ?_, ?_⟩
      · rintro ⟨n, hn⟩
        rcases List.mem_cons.1 hn with rfl | hn
        · exact b1 (a3 ⟨n, rfl⟩)
        · exact b3 ⟨n, hn⟩
      · rintro (hm | ⟨s, hm⟩)
        · rcases List.mem_cons.1 hm with rfl | hm
          · exact b2 (a4 (Or.inl rfl))
          · exact b4 (Or.inl hm)
        · rcases List.mem_cons.1 hm with rfl | hm
          · exact b2 (a4 (Or.inr ⟨s, rfl⟩))
          · exact b4 (Or.inr ⟨s, hm⟩)

/-- CLOCK INDEPENDENCE.  If no field is a short year (Y/YY/YYY) and – for the types that carry a date – the picture
    has a year token and a month token (number or name), then parsing does not depend on the clock at all:
    same value, same error, and zero clock reads. -/
theorem parse_clock_independent (ty : Ty) (fields : List Field) (input : Bytes) (c1 c2 : Clock)
    (hfree : ∀ f ∈ fields, Field.clockFree f = true ∨ ty.info.IS_INTERVAL_YM = true)
    (hdate : ty.info.HAS_DATE = true →
      (∃ n, Field.Year n ∈ fields) ∧ (Field.Month ∈ fields ∨ ∃ s, Field.MonthName s ∈ fields)) :
    parse ty fields input c1 = parse ty fields input c2 := by
  unfold parse
  rw [parseFields_clockFree ty c1 c2 fields _ hfree]
  cases hp : parseFields ty c2 (initSt ty input) fields with
  | error e => rfl
  | ok st =>
    simp only [bind, Except.bind]
    have hdef : applyDefaults ty st c1 = applyDefaults ty st c2 := by
      unfold applyDefaults
      by_cases hd : ty.info.HAS_DATE = true
      · obtain ⟨_, _, hy, hm⟩ := parseFields_flags ty c2 fields _ st hp
        have hy' := hy (hdate hd).1
        have hm' := hm (hdate hd).2
        simp only [hd, hy', hm', ↓reduceIte]
      · simp only [hd, Bool.false_eq_true, ↓reduceIte]
    rw [hdef]

end SqlDt.Lemmas
