/-
  Lemmas/AccuracyExamples: non-vacuity of the statements of Lemmas/AccuracyMain (concrete instances whose hypotheses hold
  and whose `ok` / error branches are really taken, evaluated on the model by `decide`), and the axiom audit.
-/
import SqlDt.Lemmas.AccuracyMain

namespace SqlDt
namespace Accuracy
open SqlDt Gen Lemmas

/-- 0.1, 3.0, 1/3 as doubles -/
abbrev d0_1 : F64 := .fin false 7205759403792794 (-56)
abbrev d3 : F64 := .fin false 6755399441055744 (-51)
abbrev dThird : F64 := .fin false 6004799503160661 (-54)
abbrev dMax : F64 := .fin false 9007199254740991 971

/-! (1) cast -/
example : F64.toIntSat (-128) 127 (.fin true 5 (-1)) = -2 ∧ F64.toIntSat (-128) 127 (.fin false 5 9) = 127 := by decide
example : clamp (-128) 127 (truncQ (F64.val (.fin true 5 (-1)))) = -2 := by rw [← cast_value]; decide

/-! (2) one rounding: 1/3 -/
example : F64.roundPos 1 3 = some (6004799503160661, -54) ∧ F64.EMIN < -54 := by decide
example : |((6004799503160661 : Nat) : ℚ) * 2 ^ (-54 : Int) - ((1 : Nat) : ℚ) / (3 : Nat)| ≤
    (2 ^ (-53 : Int) / (1 + 2 ^ (-53 : Int))) * (((1 : Nat) : ℚ) / (3 : Nat)) :=
  rounding_relative 1 3 _ _ (by decide) (by decide) (by decide) (by decide)
/-- the documented failure below the normal range: `(2^53 − 1)/2^1075` rounds up to `2^-1022` -/
example : F64.roundPos (2 ^ 53 - 1) (2 ^ 1075) = some (4503599627370496, -1074) := by decide +kernel

/-! (3) conversion: inexact above 2^53, exact below -/
example : F64.ofInt 9223372036854775807 = .fin false 4503599627370496 11 ∧
    F64.ofInt (-9007199254740993) = .fin true 4503599627370496 1 := by decide
example : ((9223372036854775807 : Int).natAbs ≤ 2 ^ 63) ∧ ((-9007199254740992 : Int).natAbs ≤ 2 ^ 53) := by decide

/-! (4) C14 -/
example : IntervalDT.isValidUsecs 1000000 ∧ IntervalDT.isValidUsecs 8640000000000000000 ∧
    IntervalYM.isValidMonths 7 := by decide
example : IntervalDT.mulF64 1000000 d0_1 = .ok 100000 ∧ IntervalDT.mulF64 3 d0_1 = .ok 0 ∧
    IntervalDT.divF64 10 d3 = .ok 3 ∧ IntervalDT.divF64 (-10) d3 = .ok (-3) ∧
    IntervalYM.mulF64 7 d3 = .ok 21 ∧ IntervalYM.divF64 7 d3 = .ok 2 ∧
    IntervalDT.mulF64 8640000000000000000 (.fin false 4503599627370497 (-52)) = .error .IntervalOutOfRange ∧
    IntervalYM.mulF64 2136000000 d3 = .error .IntervalOutOfRange ∧
    IntervalDT.mulF64 1 (.fin false 1 (-1074)) = .ok 0 := by decide +kernel
example : IntervalDT.mulF64 8640000000000000000 dMax = .error .NumericOverflow ∧
    IntervalDT.mulF64 1 dMax = .error .IntervalOutOfRange := by decide +kernel
/-- the headline instantiated: `10^6 µs × 0.1` returns `100000 = truncQ q` for a `q` within `2^-52` of the real product -/
example : ∃ q : ℚ, |q - (1000000 : Int) * F64.val d0_1| ≤ 2 ^ (-52 : Int) * |((1000000 : Int) : ℚ) * F64.val d0_1| ∧
    (100000 : Int) = truncQ q ∧ IntervalDT.isValidUsecs 100000 :=
  dt_mul_ok 1000000 (by decide) _ _ _ 100000 (by decide)
/-- the normal-range hypothesis of the `_normal` variants is satisfiable -/
example : (2 : ℚ) ^ (-1021 : Int) ≤ |((1000000 : Int) : ℚ) * F64.val d0_1| := by
  have h1 : (2 : ℚ) ^ (-1021 : Int) ≤ 2 ^ (0 : Int) := two_zpow_le (by norm_num)
  have h2 : (1 : ℚ) ≤ |((1000000 : Int) : ℚ) * F64.val d0_1| := by
    simp only [F64.val, F64.sgn]; norm_num
  rw [zpow_zero] at h1; exact le_trans h1 h2

/-! Why the `_normal` variants need the normal-range hypothesis (and why the headline statements pick the witness `q`
    existentially): `1 µs ÷ (9007199254740989·2^971)`.  The exact quotient is ≈ `2^-1024`, the computed double is the
    subnormal `2^50·2^-1074 = 2^-1024` whose relative error is `1.5·2^-52 > 2^-52`; both truncate to `0`, which is what
    the call returns, so the headline `dt_div_accuracy` holds with `q :=` the exact quotient. -/
example : IntervalDT.divF64 1 (.fin false 9007199254740989 971) = .ok 0 ∧
    F64.div (F64.ofInt 1) (.fin false 9007199254740989 971) = .fin false 1125899906842624 (-1074) := by
  decide +kernel

example : ¬ |F64.val (.fin false 1125899906842624 (-1074)) - ((1 : Int) : ℚ) / F64.val (.fin false 9007199254740989 971)| ≤
    2 ^ (-52 : Int) * |((1 : Int) : ℚ) / F64.val (.fin false 9007199254740989 971)| := by
  simp only [F64.val, F64.sgn, Bool.false_eq_true, if_false, one_mul, Int.cast_one]
  have hT : (0 : ℚ) < 2 ^ (-1024 : Int) := two_zpow_pos _
  have h1 : (2 : ℚ) ^ (-1074 : Int) = 2 ^ (-1024 : Int) * (1 / 1125899906842624) := by
    rw [show (-1074 : Int) = -1024 + (-50) by norm_num, zpow_add₀ (by norm_num)]; norm_num
  have h2 : (2 : ℚ) ^ (971 : Int) = 1 / (2 ^ (-1024 : Int) * 9007199254740992) := by
    rw [eq_div_iff (by positivity), show (9007199254740992 : ℚ) = 2 ^ (53 : Int) by norm_num,
      ← zpow_add₀ (by norm_num), ← zpow_add₀ (by norm_num)]
    norm_num
  rw [h1, h2, e52_eq]
  generalize (2 : ℚ) ^ (-1024 : Int) = T at *
  have e1 : ((1125899906842624 : Nat) : ℚ) * (T * (1 / 1125899906842624)) -
      1 / (((9007199254740989 : Nat) : ℚ) * (1 / (T * 9007199254740992))) = T * (-3 / 9007199254740989) := by
    field_simp; norm_num
  have e2 : (1 : ℚ) / (((9007199254740989 : Nat) : ℚ) * (1 / (T * 9007199254740992))) =
      T * (9007199254740992 / 9007199254740989) := by
    field_simp; norm_num
  rw [e1, e2, abs_mul, abs_mul, abs_of_pos hT]
  norm_num
  nlinarith
/-! (5) C08 and (6) C16 -/
example : isValidTimestamp 0 ∧ isValidTimestamp 1500000 := by decide
example : Timestamp.addDays 0 (.fin false 4503599627370496 (-53)) = .ok 43200000000 ∧
    Timestamp.addDays 0 dThird = .ok 28800000000 ∧
    Timestamp.addDays 1500000 (.fin false 4503599627370497 (-69)) = .ok 2159180 ∧
    Timestamp.addDays 0 (.fin false 4503599627370496 0) = .error .DateOutOfRange ∧
    OracleDate.addDays 1000000 (.fin false 4503599627370497 (-69)) = .ok 2000000 ∧
    OracleDate.addDays 0 d0_1 = .ok 8640000000 := by decide
example : Timestamp.addDays 0 dMax = .error .NumericOverflow := by decide +kernel
example : OracleDate.roundToSecond 1500000 = 2000000 ∧ OracleDate.roundToSecond (-1500000) = -2000000 ∧
    OracleDate.roundToSecond 1499999 = 1000000 := by decide
/-- the C08 statement instantiated: a third of a day -/
example : ∃ q : ℚ, |q - F64.val dThird * 86400000000| ≤ 2 ^ (-53 : Int) * |F64.val dThird * 86400000000| ∧
    (28800000000 : Int) = 0 + roundHalfAwayQ q ∧ isValidTimestamp 28800000000 :=
  (ts_addDays_ok 0 (by decide) _ _ _ 28800000000 (by decide)).1

/-! axiom audit -/
#print axioms cast_value
#print axioms rounding_half_ulp
#print axioms rounding_relative
#print axioms rounding_relative_normal
#print axioms conversion_accuracy
#print axioms dt_mul_accuracy
#print axioms dt_mul_accuracy_normal
#print axioms dt_mul_ok
#print axioms dt_mul_err
#print axioms dt_div_accuracy
#print axioms dt_div_accuracy_normal
#print axioms dt_div_ok
#print axioms ym_mul_accuracy
#print axioms ym_mul_ok
#print axioms ym_div_accuracy
#print axioms ym_div_ok
#print axioms ts_addDays_accuracy
#print axioms ts_addDays_accuracy_normal
#print axioms ts_addDays_ok
#print axioms ts_addDays_err
#print axioms roundToSecond_spec
#print axioms od_addDays_accuracy
#print axioms od_addDays_ok

end Accuracy
end SqlDt
