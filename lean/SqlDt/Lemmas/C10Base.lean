/-
  C10  Truncation returns the latest unit boundary not after the value.
  (Layer 1: the sub-day units and the day unit on timestamps, and the weekday-anchored week units on dates,
   each proved to be the greatest boundary ≤ x by an independent boundary predicate.)
-/
import SqlDt.Props.C01
namespace SqlDt.C10B
open SqlDt Gen

/-- Boundary predicates on the microsecond line. -/
def IsDayStart (b : Int) : Prop := b % 86400000000 = 0
def IsHourStart (b : Int) : Prop := b % 3600000000 = 0
def IsMinuteStart (b : Int) : Prop := b % 60000000 = 0

/-- `b` is the greatest instant satisfying `P` that is not later than `x`. -/
def GreatestLE (P : Int → Prop) (x b : Int) : Prop := P b ∧ b ≤ x ∧ ∀ b', P b' → b' ≤ x → b' ≤ b

theorem ts_trunc_day (ts : Int) : ∃ b, Timestamp.trunc .day ts = .ok b ∧ GreatestLE IsDayStart ts b := by
  refine ⟨ts - ts % 86400000000, ?_, ?_⟩
  · simp only [Timestamp.trunc, Timestamp.date_eq, Timestamp.new, USECONDS_PER_DAY]
    congr 1; omega
  · unfold GreatestLE IsDayStart; refine ⟨by omega, by omega, ?_⟩
    intro b' h1 h2; omega

theorem ts_trunc_hour (ts : Int) : ∃ b, Timestamp.trunc .hour ts = .ok b ∧ GreatestLE IsHourStart ts b := by
  refine ⟨ts - ts % 3600000000, ?_, ?_⟩
  · have ht : 0 ≤ ts % 86400000000 := by omega
    simp only [Timestamp.trunc, Timestamp.hour, Timestamp.date_eq, Timestamp.time_eq, Time.hour_eq _ ht,
      Timestamp.new, Time.fromHmsUnchecked, USECONDS_PER_DAY, USECONDS_PER_HOUR, USECONDS_PER_MINUTE, USECONDS_PER_SECOND]
    congr 1; omega
  · unfold GreatestLE IsHourStart; refine ⟨by omega, by omega, ?_⟩
    intro b' h1 h2; omega

theorem ts_trunc_minute (ts : Int) : ∃ b, Timestamp.trunc .minute ts = .ok b ∧ GreatestLE IsMinuteStart ts b := by
  refine ⟨ts - ts % 60000000, ?_, ?_⟩
  · have ht : 0 ≤ ts % 86400000000 := by omega
    simp only [Timestamp.trunc, Timestamp.date_eq, Timestamp.time_eq, Time.extract_eq _ ht,
      Timestamp.new, Time.fromHmsUnchecked, USECONDS_PER_DAY, USECONDS_PER_HOUR, USECONDS_PER_MINUTE, USECONDS_PER_SECOND]
    congr 1; omega
  · unfold GreatestLE IsMinuteStart; refine ⟨by omega, by omega, ?_⟩
    intro b' h1 h2; omega

/-- A greatest boundary is unique, so truncation is idempotent and monotone for any unit characterised this way. -/
theorem greatest_unique (P : Int → Prop) (x b b' : Int) (h : GreatestLE P x b) (h' : GreatestLE P x b') : b = b' := by
  have := h.2.2 b' h'.1 h'.2.1; have := h'.2.2 b h.1 h.2.1; omega

theorem greatest_idem (P : Int → Prop) (x b : Int) (h : GreatestLE P x b) : GreatestLE P b b :=
  ⟨h.1, Int.le_refl _, fun _ _ h2 => h2⟩

theorem greatest_mono (P : Int → Prop) (x y bx bY : Int) (hxy : x ≤ y) (hx : GreatestLE P x bx) (hy : GreatestLE P y bY) :
    bx ≤ bY := hy.2.2 bx hx.1 (by have := hx.2.1; omega)

/-! ### Week units anchored on the weekday (dates) -/

/-- Monday = 2 and Sunday = 1 in the crate's numbering. -/
def IsMonday (d : Int) : Prop := (d + 4) % 7 = 1
def IsSunday (d : Int) : Prop := (d + 4) % 7 = 0

theorem subDays_zero (d : Int) (hd : isValidDate d) : Date.subDays d 0 = .ok d := by
  have h := (isValidDate_iff d).1 hd
  unfold Date.subDays checkedI32 Date.tryFromDays fitsI32 I32_MIN I32_MAX
  have h1 : -2147483648 ≤ d - 0 ∧ d - 0 ≤ 2147483647 := by omega
  have h2 : isValidDate (d - 0) := by rw [Int.sub_zero]; exact hd
  simp only [h1, and_self, ↓reduceIte, h2]; congr 1; omega

/-- ISO week: `trunc_iso_week` subtracts the days since the last Monday, and that Monday is the greatest
    Monday not after the date. -/
theorem date_trunc_isoWeek (d : Int) (hd : isValidDate d) :
    Date.truncIsoWeek d = Date.subDays d ((d + 3) % 7) ∧ GreatestLE IsMonday d (d - (d + 3) % 7) := by
  constructor
  · unfold Date.truncIsoWeek Date.applyWeekTable
    rw [C01.dayOfWeek_eq]
    have : (d + 4) % 7 = 0 ∨ (d + 4) % 7 = 1 ∨ (d + 4) % 7 = 2 ∨ (d + 4) % 7 = 3 ∨ (d + 4) % 7 = 4 ∨
        (d + 4) % 7 = 5 ∨ (d + 4) % 7 = 6 := by omega
    rcases this with h | h | h | h | h | h | h <;> rw [h] <;>
      simp [idx, TRUNC_ISO_WEEK_TABLE, bind, Except.bind, pure, Except.pure] <;>
      first
      | (congr 1; omega)
      | (have e : (d + 3) % 7 = 0 := by omega
         rw [e, subDays_zero d hd])
  · unfold GreatestLE IsMonday; refine ⟨by omega, by omega, ?_⟩
    intro b' h1 h2; omega

/-- Sunday week: subtract the days since the last Sunday; fails exactly when that Sunday is before 0001-01-01. -/
theorem date_trunc_sundayWeek (d : Int) :
    Date.truncSundayStartWeek d = Date.subDays d ((d + 4) % 7) ∧ GreatestLE IsSunday d (d - (d + 4) % 7) := by
  constructor
  · unfold Date.truncSundayStartWeek; rw [C01.dayOfWeek_eq]; congr 1; omega
  · unfold GreatestLE IsSunday; refine ⟨by omega, by omega, ?_⟩
    intro b' h1 h2; omega

/-- The Sunday-week truncation fails only for the six dates 0001-01-01 .. 0001-01-06 (0001-01-07 is a Sunday). -/
theorem date_trunc_sundayWeek_fails_iff (d : Int) (hd : isValidDate d) :
    (∃ e, Date.truncSundayStartWeek d = .error e) ↔ d < -719162 + 6 := by
  have h := (isValidDate_iff d).1 hd
  rw [(date_trunc_sundayWeek d).1]
  unfold Date.subDays checkedI32 Date.tryFromDays fitsI32 I32_MIN I32_MAX
  have h1 : -2147483648 ≤ d - (d + 4) % 7 ∧ d - (d + 4) % 7 ≤ 2147483647 := by omega
  simp only [h1, and_self, ↓reduceIte]
  by_cases h2 : isValidDate (d - (d + 4) % 7)
  · have h2' := (isValidDate_iff _).1 h2
    simp only [h2, ↓reduceIte]
    constructor
    · rintro ⟨e, he⟩; cases he
    · intro h3; omega
  · have h2' : ¬ (-719162 ≤ d - (d + 4) % 7 ∧ d - (d + 4) % 7 ≤ 2932896) := fun x => h2 ((isValidDate_iff _).2 x)
    simp only [h2, ↓reduceIte]
    constructor
    · intro _; omega
    · intro _; exact ⟨_, rfl⟩

example : GreatestLE IsMonday 0 (-3) ∧ Date.truncIsoWeek 0 = .ok (-3) ∧ isValidDate 0 := by
  refine ⟨?_, by decide, by decide⟩
  unfold GreatestLE IsMonday; refine ⟨by decide, by decide, ?_⟩; intro b' h1 h2; omega

end SqlDt.C10B
