/-
  Lemmas/TranslatedUnitsIsoSafe (hand-written, stable; phase 5c, group 3): the safety predicates `Tr.f_safe` of the
  ISO-year units proved in Lemmas/TranslatedUnitsIso.  Same namespace (`SqlDt.TrSafe`) and attribute (`tr_safe`) as
  Lemmas/TranslatedSafe.  The calendar facts (the ISO year of a valid date is a year 1..9999; the unit results are valid
  dates) come from Lemmas/UnitsModel, which brings Mathlib's linters into scope: the two that object to the
  `first | … | fallback` shape of the robust proofs are switched off.
-/
import SqlDt.Lemmas.TranslatedUnitsSafe
import SqlDt.Lemmas.TranslatedUnitsIso
import SqlDt.Lemmas.UnitsModel
set_option linter.unusedVariables false
set_option linter.unusedSimpArgs false
set_option linter.unusedTactic false
set_option linter.unreachableTactic false
namespace SqlDt.TrSafe
open SqlDt SqlDt.Gen SqlDt.TrTactic SqlDt.TrEq SqlDt.TrEq.IsoU

/-! ### model-side facts (sub-namespace `SqlDt.TrSafe.IsoU`, so that they cannot clash with the other unit files) -/
namespace IsoU

theorem weekDayOfJulian_range (j : Int) : 0 ≤ Date.weekDayOfJulian j ∧ Date.weekDayOfJulian j ≤ 6 := by
  unfold Date.weekDayOfJulian
  dsimp only
  have h := rrem_spec j 7
  generalize rrem j 7 = r at *
  split <;> omega

/-- the Julian day of 4 January of a year 0..10000 -/
theorem jan4_bounds (y : Int) (hy : 0 ≤ y ∧ y ≤ 10000) :
    1721063 ≤ date2julian y 1 4 ∧ date2julian y 1 4 ≤ 5373488 := by
  have e := (SqlDt.Lemmas.UM.jan4_julian y hy.1).1
  have j := SqlDt.Lemmas.UM.dayNumber_jan y 4
  have a := SqlDt.Lemmas.Cal.dby_mono 0 y hy.1
  have b := SqlDt.Lemmas.Cal.dby_mono y 10000 hy.2
  rw [SqlDt.Lemmas.UM.dby_zero] at a
  rw [SqlDt.Lemmas.Cal.dby_10000] at b
  omega

/-- a valid day number is the day number of its own calendar date -/
theorem valid_dayNumber (d : Int) (hd : isValidDate d) :
    Spec.ValidYMD (Date.extract d).1 (Date.extract d).2.1 (Date.extract d).2.2 ∧
      Spec.dayNumber (Date.extract d).1 (Date.extract d).2.1 (Date.extract d).2.2 = d := by
  obtain ⟨hv, hb⟩ := SqlDt.Lemmas.extract_roundtrip d hd
  refine ⟨hv, ?_⟩
  rw [← SqlDt.Lemmas.fromYmd_eq_dayNumber _ _ _ ⟨by have := hv.1; omega, by have := hv.2.1; omega⟩ ⟨hv.2.2.1, hv.2.2.2.1⟩]
  exact hb

/-- the ISO year of a valid date is a year 1..9999 (1 January 0001 is a Monday, 31 December 9999 a Friday) -/
theorem dateToIsoYear_range (d : Int) (hd : isValidDate d) :
    1 ≤ Date.dateToIsoYear d ∧ Date.dateToIsoYear d ≤ 9999 := by
  obtain ⟨hv, hb⟩ := valid_dayNumber d hd
  have hi := SqlDt.Lemmas.UM.dateToIsoYear_eq _ _ _ hv
  rw [hb] at hi
  have hr := (isValidDate_iff d).1 hd
  obtain ⟨hy1, hy2, _⟩ := hv
  generalize (Date.extract d).1 = y at *
  rw [hi]
  by_cases c9 : y = 9999
  · subst c9
    have := SqlDt.Lemmas.UM.iso_10000
    have n1 : ¬ (Spec.isoYearStart (9999 + 1) ≤ d) := by
      rw [show (9999 : Int) + 1 = 10000 by rfl, this]; omega
    simp only [n1, ↓reduceIte]
    split <;> omega
  · by_cases c1 : y = 1
    · subst c1
      have := SqlDt.Lemmas.UM.iso_one
      have n2 : Spec.isoYearStart 1 ≤ d := by rw [this]; omega
      simp only [n2, ↓reduceIte]
      split <;> omega
    · split
      · omega
      · split <;> omega

theorem inRangeDay_ok_valid (n r : Int) (h : Spec.inRangeDay n = .ok r) : isValidDate r := by
  unfold Spec.inRangeDay Spec.MIN_DAY Spec.MAX_DAY at h
  split at h
  · cases h; rw [isValidDate_iff]; omega
  · cases h

theorem trunc_ok_valid (u : TUnit) (d r : Int) (hd : isValidDate d) (h : Date.trunc u d = .ok r) : isValidDate r := by
  obtain ⟨hv, hb⟩ := valid_dayNumber d hd
  have ht := SqlDt.Lemmas.date_trunc_eq u _ _ _ hv
  rw [hb, h] at ht
  exact inRangeDay_ok_valid _ _ ht.symm

theorem round_isoYear_ok_valid (d r : Int) (hd : isValidDate d) (h : Date.round .isoYear d = .ok r) : isValidDate r := by
  obtain ⟨hv, hb⟩ := valid_dayNumber d hd
  have ht := SqlDt.Lemmas.UM.round_isoYear _ _ _ hv
  rw [hb, h] at ht
  exact inRangeDay_ok_valid _ _ ht.symm

/-- 1 January of the ISO year of a valid date is a valid date -/
theorem isoYear_first_valid (d : Int) (hd : isValidDate d) :
    isValidDate (Date.fromYmdUnchecked (Date.dateToIsoYear d) 1 1) := by
  have hi := dateToIsoYear_range d hd
  refine (SqlDt.Lemmas.extract_fromYmd _ 1 1 ⟨hi.1, hi.2, by omega, by omega, by omega, ?_⟩).1
  unfold Spec.dim
  simp

/-- 4 January of the year after a valid date of a year before 9999 is a valid date -/
theorem next_jan4_valid (d : Int) (hd : isValidDate d) (hy : (Date.extract d).1 ≠ 9999) :
    isValidDate (Date.fromYmdUnchecked ((Date.extract d).1 + 1) 1 4) := by
  have hx := extract_valid d hd
  refine (SqlDt.Lemmas.extract_fromYmd _ 1 4 ⟨by omega, by omega, by omega, by omega, by omega, ?_⟩).1
  unfold Spec.dim
  simp

/-- every offset of the ISO-year table is a small number -/
theorem isoYearTable_fits (i : Int) : fitsI32 (idxD ISO_YEAR_TABLE i (false, 0)).2 := by
  unfold idxD ISO_YEAR_TABLE fitsI32 I32_MIN I32_MAX
  by_cases hi : i < 0
  · simp [hi]
  · have hc : i.toNat = 0 ∨ i.toNat = 1 ∨ i.toNat = 2 ∨ i.toNat = 3 ∨ i.toNat = 4 ∨ i.toNat = 5 ∨ i.toNat = 6 ∨
        i.toNat = 7 ∨ 8 ≤ i.toNat := by omega
    rcases hc with h | h | h | h | h | h | h | h | h <;>
      simp [hi, h, List.getD_eq_getElem?_getD, List.getElem?_eq_none]

theorem ts_of_date_valid (r : Int) (hr : isValidDate r) : isValidTimestamp (Timestamp.new r 0) := by
  rw [isValidDate_iff] at hr; rw [isValidTimestamp_iff]
  unfold Timestamp.new USECONDS_PER_DAY
  omega

theorem ts_trunc_isoYear_ok_valid (ts r : Int) (hts : isValidTimestamp ts) (h : Timestamp.trunc .isoYear ts = .ok r) :
    isValidTimestamp r := by
  simp only [Timestamp.trunc, bind, Except.bind, pure, Except.pure] at h
  split at h
  · cases h
  · rename_i v heq
    cases h
    exact ts_of_date_valid _ (trunc_ok_valid _ _ _ (valid_ts_date' ts hts) heq)

theorem ts_round_isoYear_ok_valid (ts r : Int) (hts : isValidTimestamp ts) (h : Timestamp.round .isoYear ts = .ok r) :
    isValidTimestamp r := by
  simp only [Timestamp.round, bind, Except.bind, pure, Except.pure] at h
  split at h
  · cases h
  · rename_i v heq
    cases h
    exact ts_of_date_valid _ (round_isoYear_ok_valid _ _ (valid_ts_date' ts hts) heq)

end IsoU
open IsoU

/-! ### the safety predicates -/

@[tr_safe] theorem week_day_of_julian_safe (j : Int) (hj : fitsI32 j) : Tr.week_day_of_julian_safe j := by
  unfold Tr.week_day_of_julian_safe
  tr_safe_auto

@[tr_safe] theorem Date.date_to_iso_year_safe (d : Int) (hd : isValidDate d) : Tr.Date.date_to_iso_year_safe d := by
  first
  | (unfold Tr.Date.date_to_iso_year_safe; exact True.intro)
  | (unfold Tr.Date.date_to_iso_year_safe
     have hx := extract_valid d hd
     have hr := valid_date_range d hd
     have hv := (isValidDate_iff d).1 hd
     have j0 := jan4_bounds (Date.extract d).1 (by omega)
     have jm := jan4_bounds ((Date.extract d).1 - 1) (by omega)
     have jp := jan4_bounds ((Date.extract d).1 + 1) (by omega)
     have w0 := weekDayOfJulian_range (date2julian (Date.extract d).1 1 4)
     have wm := weekDayOfJulian_range (date2julian ((Date.extract d).1 - 1) 1 4)
     have wp := weekDayOfJulian_range (date2julian ((Date.extract d).1 + 1) 1 4)
     simp (disch := tr_sdisch) only [tr_eq, tr_safe]
     -- decide the first statement `if` once for the whole predicate (it selects the triple `(year, fourth, offset)`
     -- that every later conjunct projects from), then the conjuncts are linear arithmetic over the six atoms above
     first
     | done
     | (split <;> (try simp only [Int.sub_add_cancel]) <;> tr_safe_auto)
     | tr_safe_auto)

set_option hygiene false in
/-- a table index that is a day of the week: go through its seven values (the entries of the table become numerals) -/
macro "tr_iso_dow_cases" d:ident : tactic => `(tactic| (
  generalize Date.dayOfWeek $d = w at *
  have hc : w = 1 ∨ w = 2 ∨ w = 3 ∨ w = 4 ∨ w = 5 ∨ w = 6 ∨ w = 7 := by omega
  rcases hc with h | h | h | h | h | h | h <;> subst h <;> simp [idxD, ISO_YEAR_TABLE] <;> first | done | tr_safe_auto))

@[tr_safe] theorem Date.trunc_iso_year_safe (d : Int) (hd : isValidDate d) : Tr.Date.trunc_iso_year_safe d := by
  first
  | (unfold Tr.Date.trunc_iso_year_safe; exact True.intro)
  | (unfold Tr.Date.trunc_iso_year_safe
     have hr := valid_date_range d hd
     have hi := dateToIsoYear_range d hd
     have hf := isoYear_first_valid d hd
     have hw := dayOfWeek_range (Date.fromYmdUnchecked (Date.dateToIsoYear d) 1 1)
     have ht := isoYearTable_fits (Date.dayOfWeek (Date.fromYmdUnchecked (Date.dateToIsoYear d) 1 1))
     simp (disch := tr_sdisch) only [tr_eq, tr_safe, true_and, and_true, implies_true]
     first
     | done
     | omega
     | (generalize Date.fromYmdUnchecked (Date.dateToIsoYear d) 1 1 = f at *
        tr_iso_dow_cases f))

@[tr_safe] theorem Date.round_iso_year_safe (d : Int) (hd : isValidDate d) : Tr.Date.round_iso_year_safe d := by
  first
  | (unfold Tr.Date.round_iso_year_safe; exact True.intro)
  | (unfold Tr.Date.round_iso_year_safe
     have hx := extract_valid d hd
     have hr := valid_date_range d hd
     simp (disch := tr_sdisch) only [tr_eq, tr_safe]
     first
     | done
     | (by_cases hy : (Date.extract d).1 = DATE_MAX_YEAR
        · simp only [hy, not_true_eq_false, false_implies, implies_true, and_true, true_and]
          first | done | tr_safe_auto
        · have hj := next_jan4_valid d hd (by simpa [DATE_MAX_YEAR] using hy)
          simp (disch := tr_sdisch) only [tr_eq, tr_safe]
          first | done | tr_safe_auto))

/-! ### the `Timestamp` and `oracle::Date` wrappers -/

@[tr_safe] theorem Timestamp.trunc_iso_year_safe (ts : Int) (hts : isValidTimestamp ts) :
    Tr.Timestamp.trunc_iso_year_safe ts := by
  first
  | (unfold Tr.Timestamp.trunc_iso_year_safe; exact True.intro)
  | (unfold Tr.Timestamp.trunc_iso_year_safe
     have hb := valid_ts_range' ts hts
     have hd := valid_ts_date' ts hts
     have hr := valid_date_range _ hd
     simp (disch := tr_sdisch) only [tr_eq, tr_safe, true_and, and_true]
     first
     | done
     | (split
        · exact True.intro
        · rename_i r1 heq
          first
          | exact Date.and_zero_time_safe r1 (trunc_ok_valid _ _ _ hd heq)
          | (have hv := trunc_ok_valid _ _ _ hd heq
             tr_safe_auto)))

@[tr_safe] theorem Timestamp.round_iso_year_safe (ts : Int) (hts : isValidTimestamp ts) :
    Tr.Timestamp.round_iso_year_safe ts := by
  first
  | (unfold Tr.Timestamp.round_iso_year_safe; exact True.intro)
  | (unfold Tr.Timestamp.round_iso_year_safe
     have hb := valid_ts_range' ts hts
     have hd := valid_ts_date' ts hts
     have hr := valid_date_range _ hd
     simp (disch := tr_sdisch) only [tr_eq, tr_safe, true_and, and_true]
     first
     | done
     | (split
        · exact True.intro
        · rename_i r1 heq
          first
          | exact Date.and_zero_time_safe r1 (round_isoYear_ok_valid _ _ hd heq)
          | (have hv := round_isoYear_ok_valid _ _ hd heq
             tr_safe_auto)))

@[tr_safe] theorem OracleDate.trunc_iso_year_safe (od : Int) (hod : OracleDate.isValidDate od) :
    Tr.OracleDate.trunc_iso_year_safe od := by
  first
  | (unfold Tr.OracleDate.trunc_iso_year_safe; exact True.intro)
  | (unfold Tr.OracleDate.trunc_iso_year_safe
     have hts : isValidTimestamp od := hod.1
     have hb := valid_ts_range' od hts
     simp (disch := tr_sdisch) only [tr_eq, tr_safe, true_and, and_true]
     first
     | done
     | (split
        · exact True.intro
        · rename_i r1 heq
          first
          | exact OracleDate.from_timestamp_safe r1 (ts_trunc_isoYear_ok_valid _ _ hts heq)
          | (have hv := ts_trunc_isoYear_ok_valid _ _ hts heq
             tr_safe_auto)))

@[tr_safe] theorem OracleDate.round_iso_year_safe (od : Int) (hod : OracleDate.isValidDate od) :
    Tr.OracleDate.round_iso_year_safe od := by
  first
  | (unfold Tr.OracleDate.round_iso_year_safe; exact True.intro)
  | (unfold Tr.OracleDate.round_iso_year_safe
     have hts : isValidTimestamp od := hod.1
     have hb := valid_ts_range' od hts
     simp (disch := tr_sdisch) only [tr_eq, tr_safe, true_and, and_true]
     first
     | done
     | (split
        · exact True.intro
        · rename_i r1 heq
          first
          | exact OracleDate.from_timestamp_safe r1 (ts_round_isoYear_ok_valid _ _ hts heq)
          | (have hv := ts_round_isoYear_ok_valid _ _ hts heq
             tr_safe_auto)))
end SqlDt.TrSafe
