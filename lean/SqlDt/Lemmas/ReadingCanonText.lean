/-
  Lemmas/ReadingCanonText: the rendered text of a value IS a reading — token by token, the bytes of the canonical lexeme
  (`Spec.canonLex`) are the bytes `Spec.renderField` specifies (with the interval sign attached to the leading field).
-/
import SqlDt.Lemmas.ReadingMain
import SqlDt.Spec.Lossless
namespace SqlDt.Lemmas
open SqlDt Gen Spec Parser

/-- Ranges the component record of a valid value of type `ty` satisfies. -/
structure Bounds (ty : Ty) (c : Comps) : Prop where
  year : 0 ≤ c.year ∧ c.year ≤ (if ty = .YM then 178000000 else 9999)
  month : 0 ≤ c.month ∧ c.month ≤ 12
  monthD : hasDate ty = true → 1 ≤ c.month
  day : 0 ≤ c.day ∧ c.day ≤ (if ty = .DT then 100000000 else 31)
  hour : 0 ≤ c.hour ∧ c.hour ≤ 23
  minute : 0 ≤ c.minute ∧ c.minute ≤ 59
  sec : 0 ≤ c.sec ∧ c.sec ≤ 59
  usec : 0 ≤ c.usec ∧ c.usec ≤ 999999
  dow0 : 0 ≤ c.dow0 ∧ c.dow0 ≤ 6
  doy : 1 ≤ c.doy ∧ c.doy ≤ 366

def isLead (ty : Ty) (f : Field) : Bool :=
  match f with
  | .Year _ => ty = .YM
  | .Day => ty = .DT
  | _ => false

theorem numLex_text (f : Field) (w : Nat) (sg : Sign) (n : Nat) : (numLex w sg n).text f = sg.text ++ pad w n := by
  simp [numLex, Lex.text, spaces, pad]

theorem styled_month : ∀ style : NameStyle, ∀ i, i < 12 →
    styled style (monthNames.getD i []) =
      recase (nameMask style) (if isAbbrStyle style then (monthNames.getD i []).take 3 else monthNames.getD i []) := by
  intro style; cases style <;> decide

theorem styled_day : ∀ style : NameStyle, ∀ i, i < 7 →
    styled style (dayNames.getD i []) =
      recase (nameMask style) (if isAbbrStyle style then (dayNames.getD i []).take 3 else dayNames.getD i []) := by
  intro style; cases style <;> decide

theorem meridian_text (style : AmPmStyle) (hour : Int) :
    meridianText style hour = recase (ampmMask style) (meridianBase (dotted (.AmPm style)) (decide (12 ≤ hour))) := by
  by_cases h : hour < 12
  · have h' : ¬ 12 ≤ hour := by omega
    cases style <;> simp [meridianText, h, h', dotted, meridianBase, ampmMask] <;> decide
  · have h' : 12 ≤ hour := by omega
    cases style <;> simp [meridianText, h, h', dotted, meridianBase, ampmMask] <;> decide

theorem map_sub_add (bs : Bytes) (h : Digs bs) : (bs.map (· - 48)).map (· + 48) = bs := by
  induction bs with
  | nil => rfl
  | cons b r ih =>
    have hb := h b (by simp)
    simp only [isDigitB, Bool.and_eq_true, decide_eq_true_eq] at hb
    simp only [List.map_cons]
    rw [ih (fun d hd => h d (by simp [hd]))]
    congr 1; omega

theorem digits_one (d : Nat) (h : d ≤ 9) : pad 1 d = [d + 48] := by
  have : d = 0 ∨ d = 1 ∨ d = 2 ∨ d = 3 ∨ d = 4 ∨ d = 5 ∨ d = 6 ∨ d = 7 ∨ d = 8 ∨ d = 9 := by omega
  rcases this with rfl | rfl | rfl | rfl | rfl | rfl | rfl | rfl | rfl | rfl <;> rfl

theorem fraction_bound (ty : Ty) (c : Comps) (hb : Bounds ty c) (p : Nat) (hp : p ≤ 9) :
    0 ≤ fractionOf c.usec p ∧ fractionOf c.usec p < (10 ^ p : Nat) := by
  have hu := hb.usec
  have : p = 0 ∨ p = 1 ∨ p = 2 ∨ p = 3 ∨ p = 4 ∨ p = 5 ∨ p = 6 ∨ p = 7 ∨ p = 8 ∨ p = 9 := by omega
  rcases this with rfl | rfl | rfl | rfl | rfl | rfl | rfl | rfl | rfl | rfl <;>
    simp [fractionOf] <;> omega

/-- Token by token: the canonical lexeme is written exactly as the token is rendered; the leading field of an interval
    additionally carries the sign. -/
theorem canon_text (ty : Ty) (c : Comps) (hb : Bounds ty c) (f : Field) (hwf : Field.WellFormed f)
    (hnw : f ≠ .WeekOfMonth ∧ f ≠ .WeekOfYear) (t : Bytes) (hr : renderField ty c f = some t) :
    (canonLex ty c f).text f = (if isLead ty f then (signOf c.neg).text else []) ++ t := by
  cases f with
  | Invalid => simp [renderField] at hr
  | Blank n => simp [renderField] at hr; subst hr; simp [canonLex, Lex.text, spaces, isLead]
  | Hyphen => simp [renderField] at hr; subst hr; rfl
  | Colon => simp [renderField] at hr; subst hr; rfl
  | Slash => simp [renderField] at hr; subst hr; rfl
  | Backslash => simp [renderField] at hr; subst hr; rfl
  | Comma => simp [renderField] at hr; subst hr; rfl
  | Dot => simp [renderField] at hr; subst hr; rfl
  | Semicolon => simp [renderField] at hr; subst hr; rfl
  | T => simp [renderField] at hr; subst hr; rfl
  | Year w =>
    by_cases hym : ty = .YM
    · subst hym
      simp [renderField] at hr; subst hr
      simp [canonLex, numLex_text, isLead]
    · cases ty <;> simp at hym <;> simp [renderField] at hr <;> subst hr <;>
        simp [canonLex, numLex_text, isLead, Sign.text]
  | Month =>
    cases ty <;> simp [renderField] at hr <;> subst hr <;> simp [canonLex, numLex_text, isLead, Sign.text]
  | Day =>
    cases ty <;> simp [renderField] at hr <;> subst hr <;> simp [canonLex, numLex_text, isLead, Sign.text]
  | Hour24 =>
    cases ty <;> simp [renderField] at hr <;> subst hr <;> simp [canonLex, numLex_text, isLead, Sign.text]
  | Hour12 =>
    cases ty <;> simp [renderField] at hr <;> subst hr <;> simp [canonLex, numLex_text, isLead, Sign.text]
  | Minute =>
    cases ty <;> simp [renderField] at hr <;> subst hr <;> simp [canonLex, numLex_text, isLead, Sign.text]
  | Second =>
    cases ty <;> simp [renderField] at hr <;> subst hr <;> simp [canonLex, numLex_text, isLead, Sign.text]
  | DayOfYear =>
    cases ty <;> simp [renderField] at hr <;> subst hr <;> simp [canonLex, numLex_text, isLead, Sign.text]
  | DayOfWeek =>
    have hd := hb.dow0
    have e := digits_one (c.dow0 + 1).toNat (by omega)
    cases ty <;> simp [renderField] at hr <;> subst hr <;> simp [canonLex, Lex.text, spaces, isLead, e]
  | WeekOfMonth => exact absurd rfl hnw.1
  | WeekOfYear => exact absurd rfl hnw.2
  | Fraction p =>
    have hp9 : p.getD 6 ≤ 9 := by
      cases p with
      | none => simp
      | some q => simp [Field.WellFormed] at hwf; simpa using hwf.2
    obtain ⟨f0, f1⟩ := fraction_bound ty c hb (p.getD 6) hp9
    have hdig : Digs (pad (p.getD 6) (fractionOf c.usec (p.getD 6)).toNat) := by
      apply pad_digs
      have : (10:Nat) ^ (p.getD 6) ≤ 10 ^ 9 := Nat.pow_le_pow_right (by decide) hp9
      have : (10:Nat) ^ 9 ≤ 10 ^ 20 := by decide
      omega
    cases ty <;> simp [renderField] at hr <;> subst hr <;>
      simp [canonLex, Lex.text, spaces, isLead, map_sub_add _ hdig]
  | AmPm style =>
    cases ty <;> simp [renderField] at hr <;> subst hr <;>
      simp [canonLex, Lex.text, spaces, isLead, meridian_text]
  | MonthName style =>
    have hm := hb.month
    have hi : (c.month - 1).toNat = c.month.toNat - 1 := by omega
    cases ty <;> simp [renderField] at hr <;> subst hr <;>
      (simp only [canonLex, Lex.text, spaces, isLead, List.replicate_zero, List.nil_append, fullName, namesOf, hi,
        ↓reduceIte, Bool.false_eq_true]
       rw [← List.getD_eq_getElem?_getD, styled_month style _ (by omega)])
  | DayName style =>
    have hd := hb.dow0
    have hi : (c.dow0 + 1).toNat - 1 = c.dow0.toNat := by omega
    cases ty <;> simp [renderField] at hr <;> subst hr <;>
      (simp only [canonLex, Lex.text, spaces, isLead, List.replicate_zero, List.nil_append, fullName, namesOf, hi,
        ↓reduceIte, Bool.false_eq_true]
       rw [← List.getD_eq_getElem?_getD, styled_day style _ (by omega)])

end SqlDt.Lemmas
