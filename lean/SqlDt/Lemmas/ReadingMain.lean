/-
  Lemmas/ReadingMain: C05, the main theorem — for every type, every fitting and delimited reading of a picture, every
  clock and any number of trailing blanks, the crate's `parse` returns exactly the value the reading denotes
  (`Spec.denote`), and fails with a proper error (never a panic) exactly when the reading denotes none.
-/
import SqlDt.Lemmas.ReadingFinal
import SqlDt.Props.C05
namespace SqlDt.Lemmas
open SqlDt Gen Spec Parser

theorem parse_eq_tail (ty : Ty) (fields : List Field) (input : Bytes) (now : Clock) (st : St)
    (h1 : parseFields ty now (initSt ty input) fields = .ok st) (h2 : eatWhitespaces st.s = []) :
    parse ty fields input now = tailOf ty st now := by
  unfold parse tailOf
  rw [h1, bind_ok, h2]
  rfl

theorem parse_err_of_fields (ty : Ty) (fields : List Field) (input : Bytes) (now : Clock) (e : Err)
    (h1 : parseFields ty now (initSt ty input) fields = .error e) : parse ty fields input now = .error e := by
  unfold parse
  rw [h1, bind_err]

/-- **C05 (parsing returns the value denoted).**  `items` is a reading of the picture `items.map Prod.fst`: each token
    is written in one of the ways the documentation allows (`Lex.fits`: unpadded numbers, leading '+', extra blanks,
    any letter case, month names for `MM`, trailing time fields left out, up to nine fraction digits …), and the
    reading is unambiguous for a left-to-right reader (`Delimited`).  Then parsing the text `write items tb` (with `tb`
    trailing blanks) under ANY clock returns exactly `denote ty items now`; and when the reading denotes no value
    (component out of range, redundant fields that disagree, repeated or inapplicable code, …) parsing fails with an
    error of the crate — never a panic, never a silently normalised value. -/
theorem parse_reading (ty : Ty) (items : List (Field × Lex)) (tb : Nat) (now : Clock)
    (hwf : ∀ p ∈ items, Field.WellFormed p.1)
    (hfit : ∀ p ∈ items, Lex.fits ty p.1 p.2 = true) (hdel : Delimited ty items = true) :
    match denote ty items now with
    | some v => ∃ r, Parser.parse ty (items.map Prod.fst) (write items tb) now = .ok (v, r)
    | none => ∃ e, Parser.parse ty (items.map Prod.fst) (write items tb) now = .error e ∧ e ≠ .Panic := by
  have hnp : NoPanic (parse ty (items.map Prod.fst) (write items tb) now) := by
    apply parse_np
    intro f hf
    obtain ⟨q, hq, rfl⟩ := List.mem_map.1 hf
    exact hwf q hq
  have hnp' : ∀ e, parse ty (items.map Prod.fst) (write items tb) now = .error e → e ≠ .Panic := by
    intro e he hp; subst hp; exact hnp he
  have hloop := fields_sound ty now tb items {} (write items tb) 0 hwf hfit hdel (fun h => by cases h) rfl
  rw [conc_init] at hloop
  unfold denote
  cases hc : collect ty now {} items with
  | none =>
    rw [hc] at hloop
    obtain ⟨e, he⟩ := hloop
    have := parse_err_of_fields ty _ _ now e he
    exact ⟨e, this, hnp' e this⟩
  | some p' =>
    rw [hc] at hloop
    obtain ⟨s', r', hp, hs'⟩ := hloop
    have hok := collect_partsOK ty now items {} p' hc hfit (partsOK_init ty)
    have htail := parse_eq_tail ty _ _ now _ hp hs'
    have hfin := final_sound ty now p' s' r' hok
    unfold FinalGoal at hfin
    rw [Option.bind_some]
    cases ha : assemble ty now p' with
    | none =>
      rw [ha] at hfin
      obtain ⟨e, he⟩ := hfin
      rw [← htail] at he
      exact ⟨e, he, hnp' e he⟩
    | some v =>
      rw [ha] at hfin
      obtain ⟨rd, he⟩ := hfin
      rw [← htail] at he
      exact ⟨rd, he⟩

/-- Leftover input is rejected (already in Props/C05, for every picture, text and clock). -/
theorem leftover (ty : Ty) (fields : List Field) (input : Bytes) (now : Clock) (st : St)
    (h1 : parseFields ty now (initSt ty input) fields = .ok st) (h2 : (eatWhitespaces st.s).isEmpty = false) :
    parse ty fields input now = .error .ParseError := C05.leftover_rejected ty fields input now st h1 h2

#print axioms parse_reading

end SqlDt.Lemmas
