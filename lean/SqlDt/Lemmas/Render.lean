/-
  Lemmas/Render: field by field, `Formatter::format` (table lookups, `write_u32`) produces the arithmetic
  rendering of Spec/Render.
-/
import SqlDt.Lemmas.Digits
import SqlDt.Lemmas.Consts
namespace SqlDt.Lemmas
open SqlDt Gen Spec

theorem idx_map_range {α} (g : Nat → α) (n : Nat) (i : Int) (h0 : 0 ≤ i) (hn : i < n) :
    idx ((List.range n).map g) i = .ok (g i.toNat) := by
  unfold idx
  have : ¬ i < 0 := by omega
  simp only [this, ↓reduceIte]
  have hlt : i.toNat < n := by omega
  simp [List.getElem?_map, List.getElem?_range hlt]

theorem month_table : MONTH_TABLE = (List.range 13).map (pad 2) := by decide +kernel
theorem hour_table : HOUR_TABLE = (List.range 25).map (pad 2) := by decide +kernel
theorem day_table : DAY_TABLE = (List.range 32).map (pad 2) := by decide +kernel
theorem minute_second_table : MINUTE_SECOND_TABLE = (List.range 61).map (pad 2) := by decide +kernel
theorem day_of_week_table : DAY_OF_WEEK_TABLE = (List.range 8).map (pad 1) := by decide +kernel
theorem day_of_year_table : DAY_OF_YEAR_TABLE = (List.range 367).map (pad 3) := by decide +kernel
theorem week_of_month_table :
    WEEK_OF_MONTH_TABLE = (List.range 32).map (fun d => if d = 0 then pad 1 0 else pad 1 (weekOf d)) := by decide +kernel
theorem week_of_year_table :
    WEEK_OF_YEAR_TABLE = (List.range 367).map (fun n => if n = 0 then pad 2 0 else pad 2 (weekOf n)) := by decide +kernel

set_option linter.unusedSimpArgs false

/-- The formatter's `NaiveDateTime` carries the components `c`, all within the ranges a valid value has. -/
structure Agrees (ty : Ty) (v : Int) (dt : NDT) (c : Comps) : Prop where
  year : dt.year = c.year
  month : dt.month = c.month
  day : dt.day = c.day
  hour : dt.hour = c.hour
  minute : dt.minute = c.minute
  sec : dt.sec = c.sec
  usec : dt.usec = c.usec
  yearR : 0 ≤ c.year ∧ c.year ≤ 4294967295
  monthR : 0 ≤ c.month ∧ c.month ≤ 12
  dayR : 0 ≤ c.day ∧ c.day ≤ 4294967295
  hourR : 0 ≤ c.hour ∧ c.hour ≤ 23
  minuteR : 0 ≤ c.minute ∧ c.minute ≤ 59
  secR : 0 ≤ c.sec ∧ c.sec ≤ 59
  /-- date types: a real month/day, the weekday and the ordinal day -/
  date : (ty = .D ∨ ty = .TS ∨ ty = .OD) →
    1 ≤ c.month ∧ 1 ≤ c.day ∧ c.day ≤ 31 ∧ c.year ≤ 9999 ∧
    (∃ d, ty.dateOf v = some d ∧ Date.dayOfWeek d = c.dow0 + 1) ∧ 0 ≤ c.dow0 ∧ c.dow0 ≤ 6 ∧
    theDayOfYear dt.year dt.month dt.day = c.doy ∧ 1 ≤ c.doy ∧ c.doy ≤ 366

def outcome (w : Sink) : Option Bytes → Chk Sink
  | some bs => w.write bs
  | none => .error .FormatError

theorem info_cases (ty : Ty) :
    (ty.info.HAS_DATE = decide (ty = .D ∨ ty = .TS ∨ ty = .OD)) ∧
    (ty.info.HAS_TIME = decide (ty = .T ∨ ty = .TS ∨ ty = .OD ∨ ty = .DT)) ∧
    (ty.info.HAS_FRACTION = decide (ty = .T ∨ ty = .TS ∨ ty = .DT)) ∧
    (ty.info.IS_INTERVAL_YM = decide (ty = .YM)) ∧ (ty.info.IS_INTERVAL_DT = decide (ty = .DT)) := by
  cases ty <;> decide

theorem formatField_punct (ty : Ty) (v : Int) (dt : NDT) (c : Comps) (w : Sink) (f : Field)
    (hf : f = .Hyphen ∨ f = .Colon ∨ f = .Slash ∨ f = .Backslash ∨ f = .Comma ∨ f = .Dot ∨ f = .Semicolon ∨ f = .T ∨
      ∃ n, f = .Blank n) :
    Formatter.formatField ty v dt w f = outcome w (renderField ty c f) := by
  rcases hf with rfl | rfl | rfl | rfl | rfl | rfl | rfl | rfl | ⟨n, rfl⟩ <;> rfl

theorem formatField_month (ty : Ty) (v : Int) (dt : NDT) (c : Comps) (w : Sink) (h : Agrees ty v dt c) :
    Formatter.formatField ty v dt w .Month = outcome w (renderField ty c .Month) := by
  obtain ⟨h1, h2, h3, h4, h5⟩ := info_cases ty
  simp only [Formatter.formatField, renderField, h1, h4, h.month]
  cases ty <;> simp [outcome, Formatter.notRecognized, month_table, idx_map_range _ 13 c.month h.monthR.1 (by have := h.monthR.2; omega), bind, Except.bind]


theorem formatField_hms (ty : Ty) (v : Int) (dt : NDT) (c : Comps) (w : Sink) (h : Agrees ty v dt c) :
    Formatter.formatField ty v dt w .Hour24 = outcome w (renderField ty c .Hour24) ∧
    Formatter.formatField ty v dt w .Minute = outcome w (renderField ty c .Minute) ∧
    Formatter.formatField ty v dt w .Second = outcome w (renderField ty c .Second) := by
  obtain ⟨h1, h2, h3, h4, h5⟩ := info_cases ty
  refine ⟨?_, ?_, ?_⟩
  · simp only [Formatter.formatField, renderField, h2, h.hour]
    cases ty <;> simp [outcome, Formatter.notRecognized, hour_table,
      idx_map_range _ 25 c.hour h.hourR.1 (by have := h.hourR.2; omega), bind, Except.bind]
  · simp only [Formatter.formatField, renderField, h2, h.minute]
    cases ty <;> simp [outcome, Formatter.notRecognized, minute_second_table,
      idx_map_range _ 61 c.minute h.minuteR.1 (by have := h.minuteR.2; omega), bind, Except.bind]
  · simp only [Formatter.formatField, renderField, h2, h.sec]
    cases ty <;> simp [outcome, Formatter.notRecognized, minute_second_table,
      idx_map_range _ 61 c.sec h.secR.1 (by have := h.secR.2; omega), bind, Except.bind]

theorem hour12_eq (dt : NDT) (c : Comps) (hh : dt.hour = c.hour) (hr : 0 ≤ c.hour ∧ c.hour ≤ 23) :
    dt.hour12 = hour12Of c.hour ∧ 1 ≤ hour12Of c.hour ∧ hour12Of c.hour ≤ 12 := by
  unfold NDT.hour12 hour12Of; rw [hh]
  refine ⟨?_, by omega, by omega⟩
  by_cases h0 : c.hour = 0
  · simp [h0]
  · by_cases h1 : 1 ≤ c.hour ∧ c.hour ≤ 12
    · simp only [h0, ↓reduceIte, h1, and_self]; omega
    · simp only [h0, ↓reduceIte, h1]; omega

theorem formatField_hour12 (ty : Ty) (v : Int) (dt : NDT) (c : Comps) (w : Sink) (h : Agrees ty v dt c) :
    Formatter.formatField ty v dt w .Hour12 = outcome w (renderField ty c .Hour12) := by
  obtain ⟨h1, h2, h3, h4, h5⟩ := info_cases ty
  obtain ⟨e, lo, hi⟩ := hour12_eq dt c h.hour h.hourR
  simp only [Formatter.formatField, renderField, h2, h5, e]
  cases ty <;> simp [outcome, Formatter.notRecognized, hour_table,
    idx_map_range _ 25 (hour12Of c.hour) (by omega) (by omega), bind, Except.bind]

theorem formatField_ampm (ty : Ty) (v : Int) (dt : NDT) (c : Comps) (w : Sink) (style : AmPmStyle) (h : Agrees ty v dt c) :
    Formatter.formatField ty v dt w (.AmPm style) = outcome w (renderField ty c (.AmPm style)) := by
  obtain ⟨h1, h2, h3, h4, h5⟩ := info_cases ty
  simp only [Formatter.formatField, renderField, h2, h5, h.hour, ampmText]
  have hr := h.hourR
  by_cases ham : c.hour ≤ 11
  · have a1 : 0 ≤ c.hour ∧ c.hour ≤ 11 := ⟨hr.1, ham⟩
    have a2 : c.hour < 12 := by omega
    cases ty <;> cases style <;>
      simp [outcome, Formatter.notRecognized, a1, a2, meridianText, meridianText.lit', AM_TEXT, PM_TEXT, idx,
        AmPmStyle.index, bind, Except.bind] <;> decide
  · have a1 : ¬ (0 ≤ c.hour ∧ c.hour ≤ 11) := by omega
    have a2 : ¬ c.hour < 12 := by omega
    cases ty <;> cases style <;>
      simp [outcome, Formatter.notRecognized, a1, a2, meridianText, meridianText.lit', AM_TEXT, PM_TEXT, idx,
        AmPmStyle.index, bind, Except.bind] <;> decide


theorem digitsRev_length_pos (f v : Nat) : 1 ≤ (digitsRev (f + 1) v).length := by
  unfold digitsRev; split <;> simp

theorem digits_length_ge2 (n : Nat) (h : 10 ≤ n) (hn : n < 100000000000 := by omega) : 2 ≤ (digits n).length := by
  unfold digits
  rw [digitsAux_eq 20 n [] (by omega)]
  simp only [List.append_nil, List.length_reverse]
  show 2 ≤ (digitsRev (18 + 1 + 1) n).length
  rw [digitsRev]
  have : n ≥ 10 := h
  simp only [this, ↓reduceIte, List.length_cons]
  have := digitsRev_length_pos 18 (n / 10)
  omega

theorem pad_of_long (w n : Nat) (h : w ≤ (digits n).length) : pad w n = digits n := by
  unfold pad
  have : w - (digits n).length = 0 := by omega
  simp [this]

theorem formatField_day (ty : Ty) (v : Int) (dt : NDT) (c : Comps) (w : Sink) (h : Agrees ty v dt c) :
    Formatter.formatField ty v dt w .Day = outcome w (renderField ty c .Day) := by
  obtain ⟨h1, h2, h3, h4, h5⟩ := info_cases ty
  simp only [Formatter.formatField, renderField, h1, h5, h.day]
  by_cases hd : ty = .D ∨ ty = .TS ∨ ty = .OD
  · obtain ⟨_, d1, d31, _⟩ := h.date hd
    have hi := idx_map_range (pad 2) 32 c.day (by omega) (by omega)
    rcases hd with rfl | rfl | rfl <;> simp [outcome, day_table, hi, bind, Except.bind]
  · have hr := h.dayR
    cases ty <;> simp at hd <;> simp [outcome, Formatter.notRecognized]
    -- IntervalDT: table below 32, plain decimal from 32 on; both are `pad 2`
    by_cases h32 : c.day < 32
    · have hi := idx_map_range (pad 2) 32 c.day hr.1 (by omega)
      simp [h32, day_table, hi, bind, Except.bind]
    · simp only [h32, ↓reduceIte]
      have e : c.day = Int.ofNat c.day.toNat := by simp; omega
      rw [e, displayU32_eq_digits _ (by omega)]
      simp only [Int.ofNat_eq_natCast, Int.toNat_natCast]
      rw [pad_of_long 2 _ (digits_length_ge2 _ (by omega))]

theorem month_name_table (style : NameStyle) :
    MONTH_NAME_TABLE.getD style.index [] = monthNames.map (styled style) := by
  cases style <;> decide +kernel

theorem day_name_table (style : NameStyle) :
    DAY_NAME_TABLE.getD style.index [] = dayNames.map (styled style) := by
  cases style <;> decide +kernel

theorem idx_name_row (tbl : List (List Bytes)) (style : NameStyle) (hlen : tbl.length = 6) :
    idx tbl (Int.ofNat style.index) = .ok (tbl.getD style.index []) := by
  unfold idx
  have h6 : style.index < 6 := by cases style <;> decide
  simp only [Int.ofNat_eq_natCast, Int.toNat_natCast]
  have : ¬ ((style.index : Int) < 0) := by omega
  simp only [this, ↓reduceIte]
  rw [List.getD_eq_getElem?_getD]
  have : style.index < tbl.length := by omega
  simp [List.getElem?_eq_getElem this]

theorem idx_map (names : List Bytes) (g : Bytes → Bytes) (i : Int) (h0 : 0 ≤ i) (hn : i < names.length) :
    idx (names.map g) i = .ok (g (names.getD i.toNat [])) := by
  unfold idx
  have : ¬ i < 0 := by omega
  simp only [this, ↓reduceIte]
  have hlt : i.toNat < names.length := by omega
  simp [List.getElem?_map, List.getElem?_eq_getElem hlt, List.getD_eq_getElem?_getD]

theorem formatField_monthName (ty : Ty) (v : Int) (dt : NDT) (c : Comps) (w : Sink) (style : NameStyle)
    (h : Agrees ty v dt c) :
    Formatter.formatField ty v dt w (.MonthName style) = outcome w (renderField ty c (.MonthName style)) := by
  obtain ⟨h1, h2, h3, h4, h5⟩ := info_cases ty
  simp only [Formatter.formatField, renderField, h1, h.month]
  by_cases hd : ty = .D ∨ ty = .TS ∨ ty = .OD
  · obtain ⟨m1, _⟩ := h.date hd
    have m12 := h.monthR.2
    have hno : ¬ (c.month < 1 ∨ c.month > 12) := by omega
    have hrow := idx_name_row MONTH_NAME_TABLE style (by decide)
    simp only [Int.ofNat_eq_natCast] at hrow
    simp only [hd, decide_true, ↓reduceIte, hno, bind, Except.bind, hrow, month_name_table]
    rw [idx_map monthNames (styled style) (c.month - 1) (by omega) (by simp [monthNames]; omega)]
    simp [outcome]
  · simp [hd, outcome, Formatter.notRecognized]


theorem formatField_dayName (ty : Ty) (v : Int) (dt : NDT) (c : Comps) (w : Sink) (style : NameStyle)
    (h : Agrees ty v dt c) :
    Formatter.formatField ty v dt w (.DayName style) = outcome w (renderField ty c (.DayName style)) := by
  obtain ⟨h1, h2, h3, h4, h5⟩ := info_cases ty
  simp only [Formatter.formatField, renderField, h1]
  by_cases hd : ty = .D ∨ ty = .TS ∨ ty = .OD
  · obtain ⟨_, _, _, _, ⟨d, hdate, hdow⟩, w0, w6, _⟩ := h.date hd
    have hrow := idx_name_row DAY_NAME_TABLE style (by decide)
    simp only [Int.ofNat_eq_natCast] at hrow
    simp only [hd, decide_true, ↓reduceIte, hdate, bind, Except.bind, pure, Except.pure, hdow, hrow, day_name_table]
    rw [idx_map dayNames (styled style) (c.dow0 + 1 - 1) (by omega) (by simp [dayNames, monthNames.bytesOf']; omega)]
    simp [outcome]
  · simp [hd, outcome, Formatter.notRecognized]

theorem formatField_dayOfWeek (ty : Ty) (v : Int) (dt : NDT) (c : Comps) (w : Sink) (h : Agrees ty v dt c) :
    Formatter.formatField ty v dt w .DayOfWeek = outcome w (renderField ty c .DayOfWeek) := by
  obtain ⟨h1, h2, h3, h4, h5⟩ := info_cases ty
  simp only [Formatter.formatField, renderField, h1]
  by_cases hd : ty = .D ∨ ty = .TS ∨ ty = .OD
  · obtain ⟨_, _, _, _, ⟨d, hdate, hdow⟩, w0, w6, _⟩ := h.date hd
    simp only [hd, decide_true, ↓reduceIte, hdate, bind, Except.bind, pure, Except.pure, hdow, day_of_week_table]
    rw [idx_map_range (pad 1) 8 (c.dow0 + 1) (by omega) (by omega)]
    simp [outcome]
  · simp [hd, outcome, Formatter.notRecognized]

theorem formatField_doy_weeks (ty : Ty) (v : Int) (dt : NDT) (c : Comps) (w : Sink) (h : Agrees ty v dt c) :
    Formatter.formatField ty v dt w .DayOfYear = outcome w (renderField ty c .DayOfYear) ∧
    Formatter.formatField ty v dt w .WeekOfYear = outcome w (renderField ty c .WeekOfYear) ∧
    Formatter.formatField ty v dt w .WeekOfMonth = outcome w (renderField ty c .WeekOfMonth) := by
  obtain ⟨h1, h2, h3, h4, h5⟩ := info_cases ty
  simp only [Formatter.formatField, renderField, h1]
  by_cases hd : ty = .D ∨ ty = .TS ∨ ty = .OD
  · obtain ⟨_, d1, d31, _, _, _, _, hdoy, y1, y366⟩ := h.date hd
    have hdoy' : theDayOfYear dt.year dt.month c.day = c.doy := by rw [← h.day]; exact hdoy
    simp only [hd, decide_true, ↓reduceIte, h.day, hdoy', bind, Except.bind, day_of_year_table, week_of_year_table,
      week_of_month_table]
    rw [idx_map_range _ 367 c.doy (by omega) (by omega), idx_map_range _ 367 c.doy (by omega) (by omega),
      idx_map_range _ 32 c.day (by omega) (by omega)]
    have e1 : ¬ c.doy.toNat = 0 := by omega
    have e2 : ¬ c.day.toNat = 0 := by omega
    simp [outcome, e1, e2]
  · simp [hd, outcome, Formatter.notRecognized]


theorem writeU32_int (x : Int) (w : Nat) (h0 : 0 ≤ x) (h1 : x ≤ 4294967295) : writeU32 x w = pad w x.toNat := by
  obtain ⟨k, rfl⟩ := Int.eq_ofNat_of_zero_le h0
  have := writeU32_eq_pad k w (by omega)
  simpa using this

theorem formatField_year (ty : Ty) (v : Int) (dt : NDT) (c : Comps) (w : Sink) (n : Nat) (hn : 1 ≤ n ∧ n ≤ 4)
    (h : Agrees ty v dt c) :
    Formatter.formatField ty v dt w (.Year n) = outcome w (renderField ty c (.Year n)) := by
  obtain ⟨h1, h2, h3, h4, h5⟩ := info_cases ty
  simp only [Formatter.formatField, renderField, h1, h4, h.year]
  have hy := h.yearR
  by_cases hd : ty = .D ∨ ty = .TS ∨ ty = .OD
  · obtain ⟨_, _, _, y9999, _⟩ := h.date hd
    simp only [hd, decide_true, ↓reduceIte]
    have : n = 1 ∨ n = 2 ∨ n = 3 ∨ n = 4 := by omega
    rcases this with rfl | rfl | rfl | rfl <;>
      simp only [idx, YEAR_MODIFIER, bind, Except.bind, outcome] <;>
      (simp
       rw [rrem_nonneg_eq hy.1]
       unfold asU32
       rw [Int.emod_eq_of_lt (by omega) (by omega)]
       rw [writeU32_int _ _ (by omega) (by omega)])
  · by_cases hym : ty = .YM
    · subst hym
      simp only [outcome]
      simp
      unfold asU32
      rw [Int.emod_eq_of_lt (by omega) (by omega), writeU32_int _ _ hy.1 hy.2]
    · cases ty <;> simp at hd hym <;> simp [outcome, Formatter.notRecognized]


/-- Fields the lexer can produce: year width 1..4, fraction precision 1..9, never `Invalid`. -/
def Field.WellFormed : Field → Prop
  | .Invalid => False
  | .Year n => 1 ≤ n ∧ n ≤ 4
  | .Fraction (some p) => 1 ≤ p ∧ p ≤ 9
  | _ => True

/-- The fraction step, isolated: the float division followed by truncation gives `fractionOf`. -/
def FractionOK (dt : NDT) (c : Comps) : Prop :=
  ∀ p, p ≤ 9 → dt.fraction p = .ok (fractionOf c.usec p) ∧ 0 ≤ fractionOf c.usec p ∧ fractionOf c.usec p ≤ 4294967295

theorem formatField_fraction (ty : Ty) (v : Int) (dt : NDT) (c : Comps) (w : Sink) (p : Option Nat)
    (hp : Field.WellFormed (.Fraction p)) (hf : FractionOK dt c) :
    Formatter.formatField ty v dt w (.Fraction p) = outcome w (renderField ty c (.Fraction p)) := by
  obtain ⟨h1, h2, h3, h4, h5⟩ := info_cases ty
  simp only [Formatter.formatField, renderField, h3]
  have hp9 : p.getD 6 ≤ 9 := by
    cases p with
    | none => decide
    | some q => simp [Field.WellFormed] at hp; simpa using hp.2
  obtain ⟨e, lo, hi⟩ := hf (p.getD 6) hp9
  by_cases hd : ty = .T ∨ ty = .TS ∨ ty = .DT
  · simp only [hd, decide_true, ↓reduceIte, e, bind, Except.bind, writeU32_int _ _ lo hi, outcome]
  · simp [hd, outcome, Formatter.notRecognized]

/-- FIELD BY FIELD: the formatter writes exactly the specified rendering, or fails with a format error when the
    token does not apply to the type. -/
theorem formatField_eq_render (ty : Ty) (v : Int) (dt : NDT) (c : Comps) (w : Sink) (f : Field)
    (h : Agrees ty v dt c) (hf : Field.WellFormed f) (hfr : FractionOK dt c) :
    Formatter.formatField ty v dt w f = outcome w (renderField ty c f) := by
  cases f with
  | Invalid => exact absurd hf (by simp [Field.WellFormed])
  | Blank n => exact formatField_punct ty v dt c w _ (by simp)
  | Hyphen => exact formatField_punct ty v dt c w _ (by simp)
  | Colon => exact formatField_punct ty v dt c w _ (by simp)
  | Slash => exact formatField_punct ty v dt c w _ (by simp)
  | Backslash => exact formatField_punct ty v dt c w _ (by simp)
  | Comma => exact formatField_punct ty v dt c w _ (by simp)
  | Dot => exact formatField_punct ty v dt c w _ (by simp)
  | Semicolon => exact formatField_punct ty v dt c w _ (by simp)
  | T => exact formatField_punct ty v dt c w _ (by simp)
  | Year n => exact formatField_year ty v dt c w n hf h
  | Month => exact formatField_month ty v dt c w h
  | Day => exact formatField_day ty v dt c w h
  | DayName s => exact formatField_dayName ty v dt c w s h
  | MonthName s => exact formatField_monthName ty v dt c w s h
  | Hour24 => exact (formatField_hms ty v dt c w h).1
  | Hour12 => exact formatField_hour12 ty v dt c w h
  | Minute => exact (formatField_hms ty v dt c w h).2.1
  | Second => exact (formatField_hms ty v dt c w h).2.2
  | Fraction p => exact formatField_fraction ty v dt c w p hf hfr
  | AmPm s => exact formatField_ampm ty v dt c w s h
  | DayOfWeek => exact formatField_dayOfWeek ty v dt c w h
  | DayOfYear => exact (formatField_doy_weeks ty v dt c w h).1
  | WeekOfMonth => exact (formatField_doy_weeks ty v dt c w h).2.2
  | WeekOfYear => exact (formatField_doy_weeks ty v dt c w h).2.1

/-- WHOLE PICTURE into an unbounded sink: the concatenation of the renderings in picture order, or a format error
    as soon as some token does not apply. -/
theorem formatFields_eq_render (ty : Ty) (v : Int) (dt : NDT) (c : Comps) (h : Agrees ty v dt c) (hfr : FractionOK dt c) :
    ∀ (fields : List Field) (w : Sink), w.cap = none → (∀ f ∈ fields, Field.WellFormed f) →
      Formatter.formatFields ty v dt w fields =
        match renderAll ty c fields with
        | some bs => .ok { w with buf := w.buf ++ bs }
        | none => .error .FormatError := by
  intro fields
  induction fields with
  | nil => intro w _ _; simp [Formatter.formatFields, renderAll]
  | cons f fs ih =>
    intro w hc hwf
    unfold Formatter.formatFields
    rw [formatField_eq_render ty v dt c w f h (hwf f (by simp)) hfr]
    simp only [renderAll, bind, Option.bind]
    cases hr : renderField ty c f with
    | none => simp [outcome, Except.bind]
    | some a =>
      simp only [outcome, Sink.write, hc, Except.bind]
      rw [ih { buf := w.buf ++ a } rfl (fun g hg => hwf g (by simp [hg]))]
      cases renderAll ty c fs with
      | none => rfl
      | some b => simp [pure, List.append_assoc, hc]


end SqlDt.Lemmas
