/-
  Lemmas/TrAttr: support for Lemmas/TranslatedEq (hand-written, stable).
  * the simp set `tr_eq` collecting the proved ties `Tr.f = model f`, so that the proof of a caller can
    rewrite every callee, also one that a refactoring of the Rust newly introduces;
  * the tactic `tr_congr_omega`: closes `f a₁ … aₙ = f b₁ … bₙ` by proving each `aᵢ = bᵢ` that is not
    syntactically trivial with `omega`.
-/
import Lean.Meta.Tactic.Simp.RegisterCommand
import Lean.Elab.Tactic.Basic
import Lean.Elab.Tactic.Omega
register_simp_attr tr_eq

namespace SqlDt.TrTactic
open Lean Elab Tactic Meta

elab "tr_congr_omega" : tactic => withMainContext do
  let g ← getMainGoal
  let t ← whnfR (← instantiateMVars (← g.getType))
  let some (_, lhs, rhs) := t.eq? | throwError "tr_congr_omega: not an equality"
  let f := lhs.getAppFn
  let as := lhs.getAppArgs
  let bs := rhs.getAppArgs
  unless f == rhs.getAppFn && as.size == bs.size && as.size > 0 do
    throwError "tr_congr_omega: different head symbols"
  let mut proof ← mkEqRefl f
  for (a, b) in as.zip bs do
    if a == b then
      proof ← mkCongrFun proof a
    else
      let m ← mkFreshExprMVar (← mkEq a b)
      let rest ← Tactic.run m.mvarId! (evalTactic (← `(tactic| omega)))
      unless rest.isEmpty do throwError "tr_congr_omega: omega left goals"
      proof ← mkCongr proof m
  g.assign proof

end SqlDt.TrTactic
