/-
  Lemmas/TrAttr: support for Lemmas/TranslatedEq (hand-written, stable).
  * the simp set `tr_eq` collecting the proved ties `Tr.f = model f`, so that the proof of a caller can
    rewrite every callee, also one that a refactoring of the Rust newly introduces;
  * the tactic `tr_split_hyp`: case-splits an `if`/`match` inside a hypothesis (used by Lemmas/TranslatedSafe);
  * the tactic `tr_congr_omega`: closes `f a₁ … aₙ = f b₁ … bₙ` by proving each `aᵢ = bᵢ` that is not
    syntactically trivial with `omega`.
-/
import Lean.Meta.Tactic.Simp.RegisterCommand
import Lean.Elab.Tactic.Basic
import Lean.Elab.Tactic.Omega
import Lean.Meta.Tactic.Split
import SqlDt.Model.Basic
register_simp_attr tr_eq
/-- the proved safety predicates `Tr.f_safe args` (Lemmas/TranslatedSafe), used as conditional rewrite rules to `True` -/
register_simp_attr tr_safe

namespace SqlDt.TrTactic
open Lean Elab Tactic Meta

elab "tr_congr_omega" : tactic => withMainContext do
  let g ← getMainGoal
  let t ← whnfR (← instantiateMVars (← g.getType))
  let some (_, lhs, rhs) := t.eq? | throwError "tr_congr_omega: not an equality"
  let f := lhs.getAppFn
  let as := lhs.getAppArgs
  let bs := rhs.getAppArgs
  unless f == rhs.getAppFn && as.size == bs.size && as.size > 0 do
    throwError "tr_congr_omega: different head symbols"
  let mut proof ← mkEqRefl f
  for (a, b) in as.zip bs do
    if a == b then
      proof ← mkCongrFun proof a
    else
      let m ← mkFreshExprMVar (← mkEq a b)
      let rest ← Tactic.run m.mvarId! (evalTactic (← `(tactic| omega)))
      unless rest.isEmpty do throwError "tr_congr_omega: omega left goals"
      proof ← mkCongr proof m
  g.assign proof

/-- `split` at the first hypothesis (a proposition) that contains an `if`/`match`; fails if there is none. -/
elab "tr_split_hyp" : tactic => withMainContext do
  let g ← getMainGoal
  for d in (← getLCtx) do
    if d.isImplementationDetail then continue
    unless (← isProp d.type) do continue
    let r ← try Lean.Meta.splitLocalDecl? g d.fvarId catch _ => pure none
    if let some gs := r then
      replaceMainGoal gs
      return
  throwError "tr_split_hyp: no hypothesis to split"

/-! ### `tr_abstract`: name every `rdiv`/`rrem`/`asI32`/`asU32`/`asU8` term and record what it is, for `omega`

Unfolding `rdiv a b := if 0 ≤ a then a / b else -(-a / b)` in place copies `a` three times, so nested signed divisions
and casts blow the goal up exponentially (and every copy has to be case-split).  Instead the innermost such term is
replaced by a fresh variable `q` together with its defining disjunction; `omega` does the case analysis itself. -/

theorem rdiv_spec (a b : Int) : (0 ≤ a ∧ rdiv a b = a / b) ∨ (a < 0 ∧ rdiv a b = -((-a) / b)) := by
  unfold rdiv; by_cases h : 0 ≤ a
  · simp [h]
  · simp [h]; omega
theorem rrem_spec (a b : Int) : (0 ≤ a ∧ rrem a b = a % b) ∨ (a < 0 ∧ rrem a b = -((-a) % b)) := by
  unfold rrem; by_cases h : 0 ≤ a
  · simp [h]
  · simp [h]; omega
theorem asI32_spec (x : Int) :
    (x % 4294967296 < 2147483648 ∧ asI32 x = x % 4294967296) ∨
    (2147483648 ≤ x % 4294967296 ∧ asI32 x = x % 4294967296 - 4294967296) := by
  unfold asI32; simp only []; by_cases h : x % 4294967296 ≥ 2147483648
  · simp [h]
  · simp [h]; omega
theorem asU32_spec (x : Int) : asU32 x = x % 4294967296 := rfl
theorem asU8_spec (x : Int) : asU8 x = x % 256 := rfl

def isAbstractTarget (e : Expr) : Bool :=
  (e.isAppOfArity ``SqlDt.rdiv 2) || (e.isAppOfArity ``SqlDt.rrem 2) || (e.isAppOfArity ``SqlDt.asI32 1) ||
  (e.isAppOfArity ``SqlDt.asU32 1) || (e.isAppOfArity ``SqlDt.asU8 1)

/-- an innermost target: none of its arguments contains another one -/
def findInnermost? (t : Expr) : Option Expr :=
  t.find? fun s => isAbstractTarget s && !s.hasLooseBVars &&
    s.getAppArgs.all fun a => (a.find? isAbstractTarget).isNone

elab "tr_abstract1" : tactic => withMainContext do
  let g ← getMainGoal
  let mut found : Option Expr := findInnermost? (← instantiateMVars (← g.getType))
  if found.isNone then
    for d in (← getLCtx) do
      if d.isImplementationDetail then continue
      unless (← isProp d.type) do continue
      found := findInnermost? (← instantiateMVars d.type)
      if found.isSome then break
  let some e := found | throwError "tr_abstract1: nothing to abstract"
  let args := e.getAppArgs
  let lem : Name :=
    if e.isAppOf ``SqlDt.rdiv then ``rdiv_spec else if e.isAppOf ``SqlDt.rrem then ``rrem_spec
    else if e.isAppOf ``SqlDt.asI32 then ``asI32_spec else if e.isAppOf ``SqlDt.asU32 then ``asU32_spec else ``asU8_spec
  let mut pf := mkConst lem
  for a in args do pf := mkApp pf a
  let g ← g.assert `hq (← inferType pf) pf
  let (_, g) ← g.intro1
  replaceMainGoal [g]
  let es ← Term.exprToSyntax e
  evalTactic (← `(tactic| generalize $es = q at *))

/-- abstract all of them, innermost first -/
macro "tr_abstract" : tactic => `(tactic| repeat tr_abstract1)

end SqlDt.TrTactic
