/-
  Lemmas/ReadingText: the leaf parsers of the crate on the text of ONE lexeme of Spec/Reading followed by arbitrary text:
  blanks, signed digit runs (with the "stops here" condition of `Delimited`), fraction digits, weekday digit.
-/
import SqlDt.Spec.Reading
import SqlDt.Lemmas.RoundTripFields
namespace SqlDt.Lemmas
open SqlDt Gen Spec Parser

/-! ### blanks -/

theorem spaces_succ (b : Nat) : spaces (b + 1) = 32 :: spaces b := by simp [spaces, List.replicate_succ]

theorem eatWs_spaces (b : Nat) (s : Bytes) : eatWhitespaces (spaces b ++ s) = eatWhitespaces s := by
  induction b with
  | zero => simp [spaces]
  | succ b ih => rw [spaces_succ, List.cons_append, eatWs_blank, ih]

theorem eatWs_spaces_only (b : Nat) : eatWhitespaces (spaces b) = [] := by
  have := eatWs_spaces b []
  simpa [eatWhitespaces] using this

theorem eatWs_idem (s : Bytes) : eatWhitespaces (eatWhitespaces s) = eatWhitespaces s := by
  unfold eatWhitespaces
  induction s with
  | nil => rfl
  | cons c r ih =>
    by_cases h : isWhitespaceB c = true
    · simp [h, ih]
    · simp [h]

theorem eatWs_nil : eatWhitespaces [] = [] := rfl

/-! ### the "stops here" condition -/

theorem noDigitHead_iff (rest : Bytes) : NoDigitHead rest ↔ nextIsDigit rest = false := by
  cases rest with
  | nil => simp [NoDigitHead, nextIsDigit]
  | cons c r => simp [NoDigitHead, nextIsDigit]

theorem nextIsDigit_append_spaces (a : Bytes) (tb : Nat) : nextIsDigit (a ++ spaces tb) = nextIsDigit a := by
  cases a with
  | cons c r => rfl
  | nil =>
    cases tb with
    | zero => rfl
    | succ tb => rw [List.nil_append, spaces_succ]; rfl

/-- a run stops after `ds`: it has the full width, or no digit follows -/
def Stops (ds rest : Bytes) (k : Nat) : Prop := ds.length = k ∨ NoDigitHead rest

theorem takeWhile_all (ds : Bytes) (hd : Digs ds) : ds.takeWhile isDigitB = ds := by
  induction ds with
  | nil => rfl
  | cons c r ih =>
    have hc := hd c (by simp)
    simp only [List.takeWhile_cons, hc, ↓reduceIte]
    rw [ih (fun d hd' => hd d (by simp [hd']))]

theorem eatDigits_stop (ds rest : Bytes) (k : Nat) (hd : Digs ds) (hl : ds.length ≤ k) (hs : Stops ds rest k) :
    eatDigits (ds ++ rest) k = (ds, rest) := by
  rcases hs with h | h
  · unfold eatDigits
    have h1 : (ds ++ rest).take k = ds := by rw [← h]; simp
    simp only [h1, takeWhile_all ds hd]
    simp
  · exact eatDigits_digs ds rest k hd hl h

/-! ### numbers -/

/-- the digits of a numeric lexeme -/
def numDigits (z n : Nat) : Bytes := List.replicate z 48 ++ digits n

theorem numDigits_length (z n : Nat) : (numDigits z n).length = numWidth z n := by
  simp [numDigits, numWidth]

theorem pad_zero (n : Nat) : pad 0 n = digits n := by simp [pad]

theorem run_numDigits (z n k : Nat) (hw : numWidth z n ≤ k) (hn : n < 10 ^ 9) : Run (numDigits z n) k (n : Int) := by
  have h20 : n < 10 ^ 20 := by
    have : (10:Nat) ^ 9 ≤ 10 ^ 20 := by decide
    omega
  refine ⟨?_, ?_, ?_, ?_, by omega⟩
  · intro hc
    have := digits_ne_nil n h20
    simp [numDigits] at hc
    exact this hc.2
  · intro d hd
    simp only [numDigits, List.mem_append, List.mem_replicate] at hd
    rcases hd with ⟨_, rfl⟩ | hd
    · decide
    · exact digits_digs n h20 d hd
  · rw [numDigits_length]; exact hw
  · unfold numDigits
    rw [C06.foldDigits_zeros, ← pad_zero, foldDigits_pad 0 n (by omega)]

theorem sign_none_text : Sign.none.text = [] := rfl
theorem sign_plus_text : Sign.plus.text = [43] := rfl
theorem sign_minus_text : Sign.minus.text = [45] := rfl

theorem parseNumber_lex {ds : Bytes} {k : Nat} {n : Int} (h : Run ds k n) (s : Sign) (rest : Bytes)
    (hs : Stops ds rest k) :
    parseNumber (s.text ++ (ds ++ rest)) k = .ok (isMinus s, (if isMinus s = true then -n else n), rest) := by
  have he := eatDigits_stop ds rest k h.digs h.len hs
  have hne := h.ne
  cases s with
  | none =>
    cases hds : ds with
    | nil => exact absurd hds hne
    | cons c r =>
      rw [hds] at he
      obtain ⟨h1, h2, _⟩ := digs_head_ne (c :: r) c r (by rw [← hds]; exact h.digs)
      simp only [List.cons_append] at he
      simp only [sign_none_text, List.nil_append, parseNumber, List.cons_append, h1, h2, ↓reduceIte, he]
      rw [← hds, h.val]
      simp [isMinus, hds]
  | plus =>
    have e : (43 : Nat) = B '+' := rfl
    simp only [sign_plus_text, List.cons_append, List.nil_append, parseNumber, e, ↓reduceIte, he]
    cases hds : ds with
    | nil => exact absurd hds hne
    | cons c r => rw [← hds, h.val]; simp [isMinus, hds]
  | minus =>
    have e : (45 : Nat) = B '-' := rfl
    have e2 : ¬ (B '-' = B '+') := by decide
    simp only [sign_minus_text, List.cons_append, List.nil_append, parseNumber, e, e2, ↓reduceIte, he]
    cases hds : ds with
    | nil => exact absurd hds hne
    | cons c r => rw [← hds, h.val]; simp [isMinus, hds]

/-- the text of a signed run starts with a byte that is not white space -/
theorem eatWs_signed {ds : Bytes} {k : Nat} {n : Int} (h : Run ds k n) (s : Sign) (rest : Bytes) :
    eatWhitespaces (s.text ++ (ds ++ rest)) = s.text ++ (ds ++ rest) := by
  cases s with
  | none => simpa [sign_none_text] using eatWs_run h rest
  | plus => exact eatWs_nonws 43 _ (by decide)
  | minus => exact eatWs_nonws 45 _ (by decide)

theorem signed_nonempty {ds : Bytes} {k : Nat} {n : Int} (h : Run ds k n) (s : Sign) (rest : Bytes) :
    (s.text ++ (ds ++ rest)).isEmpty = false := by
  cases s with
  | none => simpa [sign_none_text] using run_nonempty h rest
  | plus => rfl
  | minus => rfl

/-! ### fraction digits -/

def fracBytes (ds : List Nat) : Bytes := ds.map (· + 48)

theorem fracBytes_digs (ds : List Nat) (h : ds.all (· ≤ 9) = true) : Digs (fracBytes ds) := by
  intro d hd
  simp only [fracBytes, List.mem_map] at hd
  obtain ⟨x, hx, rfl⟩ := hd
  have := List.all_eq_true.1 h x hx
  simp at this
  simp [isDigitB]; omega

theorem foldl_frac (ds : List Nat) : ∀ (acc : Nat),
    (fracBytes ds).foldl (fun (a : Int) d => a * 10 + (Int.ofNat d - 48)) (acc : Int) =
      ((ds.foldl (fun a d => a * 10 + d) acc : Nat) : Int) := by
  induction ds with
  | nil => intro acc; rfl
  | cons d r ih =>
    intro acc
    simp only [fracBytes, List.map_cons, List.foldl_cons] at ih ⊢
    have : (acc : Int) * 10 + (Int.ofNat (d + 48) - 48) = ((acc * 10 + d : Nat) : Int) := by
      simp only [Int.ofNat_eq_natCast]; omega
    rw [this]; exact ih _

theorem foldDigits_frac (ds : List Nat) :
    foldDigits (fracBytes ds) = ((ds.foldl (fun a d => a * 10 + d) 0 : Nat) : Int) := by
  unfold foldDigits; exact foldl_frac ds 0

theorem foldl_frac_lt (ds : List Nat) (h : ds.all (· ≤ 9) = true) : ∀ (acc : Nat),
    ds.foldl (fun a d => a * 10 + d) acc < (acc + 1) * 10 ^ ds.length := by
  induction ds with
  | nil => intro acc; simp
  | cons d r ih =>
    intro acc
    have hd : d ≤ 9 := by
      have := List.all_eq_true.1 h d (by simp)
      simpa using this
    have hr : r.all (· ≤ 9) = true := by
      rw [List.all_eq_true] at h ⊢; intro x hx; exact h x (by simp [hx])
    have := ih hr (acc * 10 + d)
    simp only [List.foldl_cons, List.length_cons]
    calc _ < (acc * 10 + d + 1) * 10 ^ r.length := this
      _ ≤ ((acc + 1) * 10) * 10 ^ r.length := Nat.mul_le_mul_right _ (by omega)
      _ = (acc + 1) * 10 ^ (r.length + 1) := by rw [Nat.pow_succ]; ac_rfl

theorem parseFraction_lex (ds : List Nat) (rest : Bytes) (k : Nat) (h1 : 1 ≤ ds.length) (hk : ds.length ≤ k) (hk9 : k ≤ 9)
    (hall : ds.all (· ≤ 9) = true) (hs : Stops (fracBytes ds) rest k) :
    parseFraction (fracBytes ds ++ rest) k = .ok ((fracValue ds : Int), rest) := by
  have hlen : (fracBytes ds).length = ds.length := by simp [fracBytes]
  have hd := fracBytes_digs ds hall
  have he := eatDigits_stop (fracBytes ds) rest k hd (by omega) hs
  have hf := foldDigits_frac ds
  have hlt : ds.foldl (fun a d => a * 10 + d) 0 < 10 ^ ds.length := by simpa using foldl_frac_lt ds hall 0
  have hv := parseFraction_value (ds.foldl (fun a d => a * 10 + d) 0) ds.length (by omega) hlt
  cases hfb : fracBytes ds with
  | nil => rw [hfb] at hlen; simp at hlen; omega
  | cons c r =>
    obtain ⟨_, h2, _⟩ := digs_head_ne (c :: r) c r (by rw [← hfb]; exact hd)
    rw [hfb] at he
    simp only [List.cons_append] at he
    simp only [parseFraction, List.cons_append, h2, ↓reduceIte, he, bind, Except.bind, pure, Except.pure]
    rw [← hfb, hf, hlen]
    have h9 : ds.length < FRACTION_FACTOR_BITS.length := by simp [FRACTION_FACTOR_BITS]; omega
    rw [List.getElem?_eq_getElem h9] at hv
    simp only [Option.map_some, Option.pure_def, Option.bind_eq_bind, Option.bind_some, Option.some.injEq] at hv
    have hidx : idx FRACTION_FACTOR_BITS ((ds.length : Nat) : Int) = .ok (FRACTION_FACTOR_BITS[ds.length]) := by
      unfold idx
      have : ¬ ((ds.length : Int) < 0) := by omega
      simp only [this, ↓reduceIte, Int.toNat_natCast, List.getElem?_eq_getElem h9]
    rw [hidx]
    simp only []
    rw [hv]
    unfold fracValue
    simp only []

theorem eatWs_frac (ds : List Nat) (rest : Bytes) (h1 : 1 ≤ ds.length) (hall : ds.all (· ≤ 9) = true) :
    eatWhitespaces (fracBytes ds ++ rest) = fracBytes ds ++ rest := by
  apply eatWs_digs _ _ _ (fracBytes_digs ds hall)
  intro hc; simp [fracBytes] at hc; subst hc; simp at h1

/-! ### weekday digit -/

theorem parseWeekDayNumber_lex (d : Nat) (rest : Bytes) (hd : d ≤ 9) :
    parseWeekDayNumber ((d + 48) :: rest) = if 1 ≤ d ∧ d ≤ 7 then .ok ((d : Int), rest) else .error .ParseError := by
  unfold parseWeekDayNumber perr
  have e : (d + 48 + 256 - 48) % 256 = d := by omega
  simp only [e, Int.ofNat_eq_natCast]

end SqlDt.Lemmas
