/-
  Lemmas/AccuracyRound: every rounding performed by the soft-float, stated over ℚ.
  `Rounds y s x` = "the double `y` is a correctly rounded image, with sign bit `s`, of the non-negative rational `x`".
  It is established for `F64.round`, hence for `F64.mul`, `F64.div` of finite operands and for `F64.ofInt`
  (item 3: the conversion `i64 → f64`).
-/
import SqlDt.Lemmas.Accuracy

namespace SqlDt
namespace Lemmas
open SqlDt

/-- `y` is a correctly rounded image (sign bit `s`) of the non-negative rational `x`:
    either an overflow to `±∞` (only for `x ≥ 2^1023`), or a canonical finite `±m·2^e` within half a unit in the last
    place of `x`, within relative error `u'` when `x` is in the normal range `x ≥ 2^-1022`, and below `2^-1021`
    when `x` is below the normal range. -/
def Rounds (y : F64) (s : Bool) (x : ℚ) : Prop :=
  (y = .inf s ∧ (2 : ℚ) ^ (1023 : Int) ≤ x) ∨
  ∃ (m : Nat) (e : Int), y = .fin s m e ∧ m < 2 ^ 53 ∧ F64.EMIN ≤ e ∧ e ≤ F64.EMAX ∧
    |(m : ℚ) * 2 ^ e - x| ≤ 2 ^ (e - 1) ∧
    ((2 : ℚ) ^ (-1022 : Int) ≤ x → |(m : ℚ) * 2 ^ e - x| ≤ F64.u' * x) ∧
    (x < (2 : ℚ) ^ (-1022 : Int) → (m : ℚ) * 2 ^ e < 2 ^ (-1021 : Int))

set_option exponentiation.threshold 2048 in
theorem round_rounds (s : Bool) (num den : Nat) (hd : 0 < den) :
    Rounds (F64.round s num den) s ((num : ℚ) / den) := by
  unfold F64.round
  by_cases h0 : num = 0
  · subst h0
    rw [if_pos rfl]
    right
    refine ⟨0, F64.EMIN, rfl, by decide, le_refl _, by decide, ?_, ?_, ?_⟩
    · simp only [Nat.cast_zero, zero_mul, zero_div, sub_zero, abs_zero]; exact (two_zpow_pos _).le
    · intro _; simp
    · intro _; simp only [Nat.cast_zero, zero_mul]; exact two_zpow_pos _
  · rw [if_neg h0]
    have hn : 0 < num := by omega
    have hD : (0 : ℚ) < den := by exact_mod_cast hd
    cases hr : F64.roundPos num den with
    | none =>
      left
      refine ⟨rfl, ?_⟩
      have hge : 2 ^ 1023 * den ≤ num := by
        by_contra hlt
        obtain ⟨m, e, h⟩ := roundPos_isSome num den hn hd (by omega)
        rw [h] at hr; cases hr
      rw [le_div_iff₀ hD]
      have : (((2 ^ 1023 * den : Nat)) : ℚ) ≤ (num : ℚ) := by exact_mod_cast hge
      push_cast at this
      rw [show (1023 : Int) = ((1023 : Nat) : Int) by rfl, zpow_natCast]
      exact this
    | some p =>
      obtain ⟨m, e⟩ := p
      right
      obtain ⟨h1, h2, h3, _, _⟩ := roundPos_spec' num den m e hn hd hr
      refine ⟨m, e, rfl, h1, h2, h3, roundPos_half_ulp num den m e hn hd hr, ?_, ?_⟩
      · intro hx; exact roundPos_relQ num den m e hn hd hr (Or.inr hx)
      · intro hx
        have he := roundPos_exp_le num den m e hn hd hr (-1022) (by decide) hx
        obtain ⟨hm, _, _, _⟩ := roundPos_canonQ num den m e hn hd hr
        have hE : e = -1074 := by have : F64.EMIN = -1074 := rfl; omega
        have hX := two_zpow_pos e
        have h53 : (2 : ℚ) ^ (-1021 : Int) = 2 ^ 53 * 2 ^ e := by
          rw [hE, show (-1021 : Int) = 53 + -1074 by norm_num, zpow_add₀ (by norm_num)]; norm_num
        rw [h53]
        have := mul_le_mul_of_nonneg_right hm hX.le
        nlinarith

/-- `m·2^e = a/b` over ℚ -/
theorem rep_val {m a b : Nat} {e : Int} (h : Rep m e a b) (hb : 0 < b) : (m : ℚ) * 2 ^ e = (a : ℚ) / b := by
  unfold Rep at h
  have h' : ((m * 2 ^ e.toNat * b : Nat) : ℚ) = ((a * 2 ^ (-e).toNat : Nat) : ℚ) := by rw [h]
  push_cast at h'
  have hB : (b : ℚ) ≠ 0 := by positivity
  rw [zpow_split]
  field_simp
  linarith

/-- The product of two finite doubles is the correct rounding of the exact product of their values. -/
theorem mul_rounds (s1 s2 : Bool) (m1 m2 : Nat) (e1 e2 : Int) :
    Rounds (F64.mul (.fin s1 m1 e1) (.fin s2 m2 e2)) (s1 != s2) (((m1 : ℚ) * 2 ^ e1) * ((m2 : ℚ) * 2 ^ e2)) := by
  have h := round_rounds (s1 != s2) (m1 * m2 * F64.pow2 (e1 + e2).toNat) (F64.pow2 (-(e1 + e2)).toNat)
    (by rw [pow2_eq]; positivity)
  have hv : (((m1 * m2 * F64.pow2 (e1 + e2).toNat : Nat) : ℚ)) / ((F64.pow2 (-(e1 + e2)).toNat : Nat) : ℚ) =
      ((m1 : ℚ) * 2 ^ e1) * ((m2 : ℚ) * 2 ^ e2) := by
    simp only [pow2_eq]
    push_cast
    rw [mul_div_assoc, ← zpow_split, zpow_add₀ (by norm_num)]; ring
  rw [hv] at h
  exact h

/-- The quotient of two finite doubles (non-zero divisor) is the correct rounding of the exact quotient. -/
theorem div_rounds (s1 s2 : Bool) (m1 m2 : Nat) (e1 e2 : Int) (hm2 : m2 ≠ 0) :
    Rounds (F64.div (.fin s1 m1 e1) (.fin s2 m2 e2)) (s1 != s2) (((m1 : ℚ) * 2 ^ e1) / ((m2 : ℚ) * 2 ^ e2)) := by
  have hpos : 0 < m2 * F64.pow2 (-(e1 - e2)).toNat := by
    rw [pow2_eq]; have : 0 < m2 := by omega
    positivity
  have h := round_rounds (s1 != s2) (m1 * F64.pow2 (e1 - e2).toNat) (m2 * F64.pow2 (-(e1 - e2)).toNat) hpos
  have hv : (((m1 * F64.pow2 (e1 - e2).toNat : Nat) : ℚ)) / ((m2 * F64.pow2 (-(e1 - e2)).toNat : Nat) : ℚ) =
      ((m1 : ℚ) * 2 ^ e1) / ((m2 : ℚ) * 2 ^ e2) := by
    simp only [pow2_eq]
    push_cast
    have hm : (m2 : ℚ) ≠ 0 := by exact_mod_cast hm2
    have h2 : (2 : ℚ) ^ e2 ≠ 0 := (two_zpow_pos e2).ne'
    have hq : (2 : ℚ) ^ (-(e1 - e2)).toNat ≠ 0 := by positivity
    have : (2 : ℚ) ^ e1 = 2 ^ (e1 - e2) * 2 ^ e2 := by rw [← zpow_add₀ (by norm_num)]; congr 1; ring
    rw [this, zpow_split (e1 - e2)]
    field_simp
  have hd : F64.div (.fin s1 m1 e1) (.fin s2 m2 e2) =
      F64.round (s1 != s2) (m1 * F64.pow2 (e1 - e2).toNat) (m2 * F64.pow2 (-(e1 - e2)).toNat) := by
    unfold F64.div; simp only [hm2, if_false]
  rw [hd, ← hv]
  exact h

/-- `n as f64` is the correct rounding of `|n|` with the sign of `n`. -/
theorem ofInt_rounds (v : Int) : Rounds (F64.ofInt v) (decide (v < 0)) (v.natAbs : ℚ) := by
  have := round_rounds (decide (v < 0)) v.natAbs 1 (by decide)
  rw [Nat.cast_one, div_one] at this
  exact this

/-- **Item 3 (conversion).** For `|v| ≤ 2^63` (every `i64`, every interval), `v as f64` is finite with the sign of
    `v`, and its value is within relative error `u'` of `v`. -/
theorem ofInt_accuracy (v : Int) (hv : v.natAbs ≤ 2 ^ 63) :
    ∃ (m : Nat) (e : Int), F64.ofInt v = .fin (decide (v < 0)) m e ∧
      |(m : ℚ) * 2 ^ e - (v.natAbs : ℚ)| ≤ F64.u' * (v.natAbs : ℚ) ∧
      |F64.val (F64.ofInt v) - (v : ℚ)| ≤ F64.u' * |(v : ℚ)| := by
  have hx63 : ((v.natAbs : Nat) : ℚ) ≤ 2 ^ 63 := by exact_mod_cast hv
  rcases ofInt_rounds v with ⟨_, hbig⟩ | ⟨m, e, hy, _, _, _, _, hrel, _⟩
  · exfalso
    have : (2 : ℚ) ^ (63 : Int) < 2 ^ (1023 : Int) := two_zpow_lt (by norm_num)
    rw [show (63 : Int) = ((63 : Nat) : Int) by rfl, zpow_natCast] at this
    exact absurd (le_trans hbig hx63) (not_le.mpr this)
  · have hrel' : |(m : ℚ) * 2 ^ e - (v.natAbs : ℚ)| ≤ F64.u' * (v.natAbs : ℚ) := by
      by_cases h0 : v = 0
      · subst h0
        have hm := ofInt_rounds 0
        have h00 : F64.ofInt 0 = .fin false 0 F64.EMIN := by decide
        rw [h00] at hy; cases hy; simp
      · apply hrel
        have h1 : (1 : ℚ) ≤ (v.natAbs : ℚ) := by exact_mod_cast (by omega : 1 ≤ v.natAbs)
        have : (2 : ℚ) ^ (-1022 : Int) ≤ 2 ^ (0 : Int) := two_zpow_le (by norm_num)
        rw [zpow_zero] at this; linarith
    refine ⟨m, e, hy, hrel', ?_⟩
    rw [hy]
    have hvq : (v : ℚ) = F64.sgn (decide (v < 0)) * (v.natAbs : ℚ) := (sgn_decide v).symm
    have habs : |(v : ℚ)| = (v.natAbs : ℚ) := by rw [Nat.cast_natAbs, Int.cast_abs]
    simp only [F64.val]
    rw [habs]
    conv_lhs => rw [hvq, ← mul_sub, abs_sgn_mul]
    exact hrel'

/-- … and exact for `|v| ≤ 2^53`. -/
theorem ofInt_val_exact (v : Int) (hv : v.natAbs ≤ 2 ^ 53) : F64.val (F64.ofInt v) = (v : ℚ) := by
  by_cases h0 : v = 0
  · subst h0
    have h00 : F64.ofInt 0 = .fin false 0 F64.EMIN := by decide
    rw [h00]; simp [F64.val]
  · obtain ⟨m, e, h1, _, _, hr⟩ := ofInt_fin v h0 hv
    rw [h1]
    simp only [F64.val]
    rw [rep_val hr (by decide)]
    simp only [Nat.cast_one, div_one]
    exact sgn_decide v

/-- finite form of an exactly converted non-zero integer -/
theorem ofInt_fin_val (v : Int) (h0 : v ≠ 0) (hv : v.natAbs ≤ 2 ^ 53) :
    ∃ (m : Nat) (e : Int), F64.ofInt v = .fin (decide (v < 0)) m e ∧ (m : ℚ) * 2 ^ e = (v.natAbs : ℚ) := by
  obtain ⟨m, e, h1, _, _, hr⟩ := ofInt_fin v h0 hv
  refine ⟨m, e, h1, ?_⟩
  rw [rep_val hr (by decide)]; simp

end Lemmas
end SqlDt
