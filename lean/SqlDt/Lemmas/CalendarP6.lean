/-
  Lemmas/CalendarP6: kernel evaluation of the round-trip checker `CalCheck.chk` on the days [110592, 129024)
  counted from 0001-01-01: one of 8 chunks covering the 400-year period of 146097 days (the last chunk
  overshoots, harmlessly).  Generated text; 18 blocks of 1024 days, each a single `decide +kernel`.
  Used by Lemmas/Calendar.
-/
import SqlDt.Lemmas.CalendarCheck
namespace SqlDt.Lemmas.CalCheck

theorem chunk6_0 : allRange chk 10 110592 = true := by decide +kernel
theorem chunk6_1 : allRange chk 10 111616 = true := by decide +kernel
theorem chunk6_2 : allRange chk 10 112640 = true := by decide +kernel
theorem chunk6_3 : allRange chk 10 113664 = true := by decide +kernel
theorem chunk6_4 : allRange chk 10 114688 = true := by decide +kernel
theorem chunk6_5 : allRange chk 10 115712 = true := by decide +kernel
theorem chunk6_6 : allRange chk 10 116736 = true := by decide +kernel
theorem chunk6_7 : allRange chk 10 117760 = true := by decide +kernel
theorem chunk6_8 : allRange chk 10 118784 = true := by decide +kernel
theorem chunk6_9 : allRange chk 10 119808 = true := by decide +kernel
theorem chunk6_10 : allRange chk 10 120832 = true := by decide +kernel
theorem chunk6_11 : allRange chk 10 121856 = true := by decide +kernel
theorem chunk6_12 : allRange chk 10 122880 = true := by decide +kernel
theorem chunk6_13 : allRange chk 10 123904 = true := by decide +kernel
theorem chunk6_14 : allRange chk 10 124928 = true := by decide +kernel
theorem chunk6_15 : allRange chk 10 125952 = true := by decide +kernel
theorem chunk6_16 : allRange chk 10 126976 = true := by decide +kernel
theorem chunk6_17 : allRange chk 10 128000 = true := by decide +kernel

theorem chunk6 (n : Nat) (h1 : 110592 ≤ n) (h2 : n < 129024) : chk n = true := by
  have s := allRange_sound chk 10
  by_cases c0 : n < 111616
  · exact s _ chunk6_0 n (by omega) (by omega)
  by_cases c1 : n < 112640
  · exact s _ chunk6_1 n (by omega) (by omega)
  by_cases c2 : n < 113664
  · exact s _ chunk6_2 n (by omega) (by omega)
  by_cases c3 : n < 114688
  · exact s _ chunk6_3 n (by omega) (by omega)
  by_cases c4 : n < 115712
  · exact s _ chunk6_4 n (by omega) (by omega)
  by_cases c5 : n < 116736
  · exact s _ chunk6_5 n (by omega) (by omega)
  by_cases c6 : n < 117760
  · exact s _ chunk6_6 n (by omega) (by omega)
  by_cases c7 : n < 118784
  · exact s _ chunk6_7 n (by omega) (by omega)
  by_cases c8 : n < 119808
  · exact s _ chunk6_8 n (by omega) (by omega)
  by_cases c9 : n < 120832
  · exact s _ chunk6_9 n (by omega) (by omega)
  by_cases c10 : n < 121856
  · exact s _ chunk6_10 n (by omega) (by omega)
  by_cases c11 : n < 122880
  · exact s _ chunk6_11 n (by omega) (by omega)
  by_cases c12 : n < 123904
  · exact s _ chunk6_12 n (by omega) (by omega)
  by_cases c13 : n < 124928
  · exact s _ chunk6_13 n (by omega) (by omega)
  by_cases c14 : n < 125952
  · exact s _ chunk6_14 n (by omega) (by omega)
  by_cases c15 : n < 126976
  · exact s _ chunk6_15 n (by omega) (by omega)
  by_cases c16 : n < 128000
  · exact s _ chunk6_16 n (by omega) (by omega)
  exact s _ chunk6_17 n (by omega) (by omega)

end SqlDt.Lemmas.CalCheck
