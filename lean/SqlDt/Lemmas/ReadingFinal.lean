/-
  Lemmas/ReadingFinal: the conversion after the field loop gives `Spec.assemble`, for all six types.
-/
import SqlDt.Lemmas.ReadingFinalDate
namespace SqlDt.Lemmas
open SqlDt Gen Spec Parser

/-! ### `dateOf`, case by case -/

theorem dateOf_bad_year (p : Parts) (now : Clock) (h : ¬ (1 ≤ p.year.getD now.year ∧ p.year.getD now.year ≤ 9999)) :
    dateOf p now = none := by
  unfold dateOf; simp only [h, not_false_eq_true, ↓reduceIte]

theorem dateOf_md_none (p : Parts) (now : Clock) (h : 1 ≤ p.year.getD now.year ∧ p.year.getD now.year ≤ 9999)
    (hmd : monthDayOf p now (p.year.getD now.year) = none) : dateOf p now = none := by
  unfold dateOf; simp only [h, and_self, not_true_eq_false, ↓reduceIte, hmd]

theorem dateOf_md_some (p : Parts) (now : Clock) (h : 1 ≤ p.year.getD now.year ∧ p.year.getD now.year ≤ 9999) (m d : Int)
    (hmd : monthDayOf p now (p.year.getD now.year) = some (m, d)) :
    dateOf p now =
      if ¬ IsDate (p.year.getD now.year) m d then none
      else if p.dow.all (fun (w : Nat) => weekday (dayNumber (p.year.getD now.year) m d) + 1 = (w : Int)) then
        some (p.year.getD now.year, m, d)
      else none := by
  unfold dateOf; simp only [h, and_self, not_true_eq_false, ↓reduceIte, hmd]

theorem assemble_D (now : Clock) (p : Parts) :
    assemble .D now p = (dateOf p now).map (fun (y, m, d) => dayNumber y m d) := rfl
theorem assemble_TS (ty : Ty) (hty : ty = .TS ∨ ty = .OD) (now : Clock) (p : Parts) :
    assemble ty now p = (dateOf p now).bind (fun (y, m, d) => (timeOf p).bind (fun t =>
      if 86400000000 * dayNumber y m d + (t : Int) ≤ maxTimestamp then some (86400000000 * dayNumber y m d + (t : Int))
      else none)) := by
  rcases hty with rfl | rfl <;> rfl

theorem assemble_none_of_date (ty : Ty) (hd : hasDate ty = true) (now : Clock) (p : Parts) (h : dateOf p now = none) :
    assemble ty now p = none := by
  cases ty <;> simp [hasDate] at hd
  · rw [assemble_D, h]; rfl
  · rw [assemble_TS _ (Or.inl rfl), h]; rfl
  · rw [assemble_TS _ (Or.inr rfl), h]; rfl

/-! ### the three types with a date -/

theorem final_date (ty : Ty) (hd : hasDate ty = true) (now : Clock) (p : Parts) (s : Bytes) (r : Nat)
    (hok : PartsOK ty p) : FinalGoal ty now p s r := by
  unfold FinalGoal tailOf
  rw [applyDefaults_conc ty hd p s r now]
  generalize (applyDefaults ty (conc ty p s r) now).2 = rd
  generalize hst : conc ty p s r = st
  have hdoy : st.doy = p.doy.map Int.ofNat := by rw [← hst]; rfl
  have hdow : st.dow = p.dow.map Int.ofNat := by rw [← hst]; rfl
  have hms : st.isMonthSet = p.month.isSome := by rw [← hst]; rfl
  have hds : st.isDaySet = p.day.isSome := by rw [← hst]; rfl
  generalize hdt1 : defaulted ty p s r now = dt1
  have hy1 : dt1.year = p.year.getD now.year := by rw [← hdt1]; rfl
  have hm1 : dt1.month = (p.month.map Int.ofNat).getD now.month := by rw [← hdt1]; rfl
  have hd1 : dt1.day = ((p.day.getD 1 : Nat) : Int) := by rw [← hdt1]; exact defaulted_day ty hd p s r now
  have hh1 : dt1.hour = ((hourOf p : Nat) : Int) := by rw [← hdt1]; rfl
  have hmi1 : dt1.minute = ((p.minute.getD 0 : Nat) : Int) := by rw [← hdt1]; rfl
  have hs1 : dt1.sec = ((p.second.getD 0 : Nat) : Int) := by rw [← hdt1]; rfl
  have hu1 : dt1.usec = ((p.usec.getD 0 : Nat) : Int) := by rw [← hdt1]; rfl
  by_cases hY : 1 ≤ p.year.getD now.year ∧ p.year.getD now.year ≤ 9999
  · -- year in range
    rw [resolveDoy_spec st dt1 p now (by rw [hy1]; exact hY) hdoy hms hds hm1 hd1, hy1]
    cases hmd : monthDayOf p now (p.year.getD now.year) with
    | none =>
      rw [assemble_none_of_date ty hd now p (dateOf_md_none p now hY hmd)]
      exact ⟨_, rfl⟩
    | some md =>
      obtain ⟨m, d⟩ := md
      have hdate := dateOf_md_some p now hY m d hmd
      simp only []
      rw [bind_ok]
      generalize hdt2 : ({ dt1 with year := p.year.getD now.year, month := m, day := d } : NDT) = dt2
      have hy2 : dt2.year = p.year.getD now.year := by rw [← hdt2]
      have hm2 : dt2.month = m := by rw [← hdt2]
      have hd2 : dt2.day = d := by rw [← hdt2]
      obtain ⟨fgood, fbad, finv⟩ := finish_spec ty st dt2 rd p hdow
      rw [hy2, hm2, hd2] at fgood fbad finv
      by_cases hisd : IsDate (p.year.getD now.year) m d
      · have hv : ValidYMD (p.year.getD now.year) m d := ⟨hY.1, hY.2, hisd⟩
        rw [if_neg (not_not.2 hisd)] at hdate
        cases hw : p.dow.all (fun (w : Nat) => weekday (dayNumber (p.year.getD now.year) m d) + 1 = (w : Int)) with
        | false =>
          rw [hw] at hdate
          simp only [Bool.false_eq_true, ↓reduceIte] at hdate
          rw [assemble_none_of_date ty hd now p hdate, fbad hv hw]
          exact ⟨_, rfl⟩
        | true =>
          rw [hw] at hdate
          simp only [↓reduceIte] at hdate
          rw [fgood hv hw]
          have hv2 : ValidYMD dt2.year dt2.month dt2.day := by rw [hy2, hm2, hd2]; exact hv
          cases ty <;> simp [hasDate] at hd
          · -- DATE
            rw [assemble_D, hdate, tryFromNDT_D, hy2, hm2, hd2, tryFromYmd_valid' _ _ _ hv, bind_ok]
            exact ⟨rd, rfl⟩
          · -- TIMESTAMP
            obtain ⟨tgood, tbad⟩ := tryFromNDT_TS .TS (Or.inl rfl) dt2 (hourOf p) (p.minute.getD 0) (p.second.getD 0)
              (p.usec.getD 0) hv2 (by rw [← hdt2]; exact hh1) (by rw [← hdt2]; exact hmi1) (by rw [← hdt2]; exact hs1)
              (by rw [← hdt2]; exact hu1) (fun h => by cases h)
            rw [hy2, hm2, hd2] at tgood tbad
            rw [assemble_TS _ (Or.inl rfl), hdate]
            simp only [Option.bind_some]
            cases ht : timeOf p with
            | none =>
              obtain ⟨e, he⟩ := tbad (fun h => timeOf_none p ht ⟨h.1, h.2.1, h.2.2.1⟩)
              rw [he, bind_err]; exact ⟨e, rfl⟩
            | some t =>
              obtain ⟨a, b, c, e⟩ := timeOf_some p t ht
              subst e
              simp only [Option.bind_some]
              by_cases hle : 86400000000 * dayNumber (p.year.getD now.year) m d +
                  ((hourOf p * 3600000000 + p.minute.getD 0 * 60000000 + p.second.getD 0 * 1000000 + p.usec.getD 0 : Nat) : Int)
                  ≤ maxTimestamp
              · rw [if_pos hle, tgood ⟨a, b, c, hle⟩, bind_ok]; exact ⟨rd, rfl⟩
              · obtain ⟨e, he⟩ := tbad (fun h => hle h.2.2.2)
                rw [if_neg hle, he, bind_err]; exact ⟨e, rfl⟩
          · -- ORACLE-STYLE DATE
            have hus : p.usec.getD 0 = 0 := by rw [hok.odUsec rfl]; rfl
            obtain ⟨tgood, tbad⟩ := tryFromNDT_TS .OD (Or.inr rfl) dt2 (hourOf p) (p.minute.getD 0) (p.second.getD 0)
              (p.usec.getD 0) hv2 (by rw [← hdt2]; exact hh1) (by rw [← hdt2]; exact hmi1) (by rw [← hdt2]; exact hs1)
              (by rw [← hdt2]; exact hu1) (fun _ => hus)
            rw [hy2, hm2, hd2] at tgood tbad
            rw [assemble_TS _ (Or.inr rfl), hdate]
            simp only [Option.bind_some]
            cases ht : timeOf p with
            | none =>
              obtain ⟨e, he⟩ := tbad (fun h => timeOf_none p ht ⟨h.1, h.2.1, h.2.2.1⟩)
              rw [he, bind_err]; exact ⟨e, rfl⟩
            | some t =>
              obtain ⟨a, b, c, e⟩ := timeOf_some p t ht
              subst e
              simp only [Option.bind_some]
              by_cases hle : 86400000000 * dayNumber (p.year.getD now.year) m d +
                  ((hourOf p * 3600000000 + p.minute.getD 0 * 60000000 + p.second.getD 0 * 1000000 + p.usec.getD 0 : Nat) : Int)
                  ≤ maxTimestamp
              · rw [if_pos hle, tgood ⟨a, b, c, hle⟩, bind_ok]; exact ⟨rd, rfl⟩
              · obtain ⟨e, he⟩ := tbad (fun h => hle h.2.2.2)
                rw [if_neg hle, he, bind_err]; exact ⟨e, rfl⟩
      · -- not a real date
        rw [if_pos hisd] at hdate
        rw [assemble_none_of_date ty hd now p hdate]
        have hnv : ¬ ValidYMD (p.year.getD now.year) m d := fun h => hisd h.2.2
        have hnv2 : ¬ ValidYMD dt2.year dt2.month dt2.day := by rw [hy2, hm2, hd2]; exact hnv
        exact finv hnv (tryFromNDT_invalid_date ty hd dt2 hnv2)
  · -- year out of range
    rw [assemble_none_of_date ty hd now p (dateOf_bad_year p now hY)]
    cases hr : resolveDoy st dt1 with
    | error e => rw [bind_err]; exact ⟨e, rfl⟩
    | ok dt2 =>
      rw [bind_ok]
      have hy2 : dt2.year = p.year.getD now.year := by rw [resolveDoy_year st dt1 dt2 hr, hy1]
      have hnv2 : ¬ ValidYMD dt2.year dt2.month dt2.day := by
        rw [hy2]; exact fun h => hY ⟨h.1, h.2.1⟩
      exact (finish_spec ty st dt2 rd p hdow).2.2 hnv2 (tryFromNDT_invalid_date ty hd dt2 hnv2)

/-! ### all six types -/

theorem final_sound (ty : Ty) (now : Clock) (p : Parts) (s : Bytes) (r : Nat) (hok : PartsOK ty p) :
    FinalGoal ty now p s r := by
  cases ty
  · exact final_date .D rfl now p s r hok
  · exact final_T now p s r hok
  · exact final_date .TS rfl now p s r hok
  · exact final_YM now p s r hok
  · exact final_DT now p s r hok
  · exact final_date .OD rfl now p s r hok

end SqlDt.Lemmas
