import Mathlib.Tactic.Ring
import Mathlib.Tactic.Linarith
import Mathlib.Tactic.Positivity
import SqlDt.Model.F64
/-
  Lemmas/FloatCore: the theory of `F64.roundPos` (round-to-nearest-even of a positive rational):
  decomposition into exponent choice / quotient rounding / carry, the bracket `2^52 ≤ v/2^e < 2^53`,
  the half-ulp specification, invariance under the representation of the rational (`roundPos_congr`),
  "nearest representable wins" (`roundPos_of_near`), magnitude and grid lemmas, and the exact-value
  interface (`Rep`, `mul_fin`, `div_fin`, `round_exact`, `ofInt_fin`).
-/
namespace SqlDt.Lemmas
open SqlDt

theorem pow2_eq (k : Nat) : F64.pow2 k = 2 ^ k := by
  unfold F64.pow2; rw [Nat.shiftLeft_eq, Nat.one_mul]

theorem P52_eq : F64.P52 = 2 ^ 52 := by decide
theorem P53_eq : F64.P53 = 2 ^ 53 := by decide

def rpE2 (num den : Nat) : Int :=
  let e1 : Int := (Int.ofNat num.log2 - Int.ofNat den.log2) - 52
  if num * F64.pow2 (-e1).toNat / (den * F64.pow2 e1.toNat) < F64.P52 then e1 - 1 else e1

theorem shift_lt {A B x y u v : Nat} (h : A * 2 ^ x < B * 2 ^ y) (hx : u + y ≤ x + v) :
    A * 2 ^ u < B * 2 ^ v := by
  have h1 : A * 2 ^ u * 2 ^ y ≤ A * 2 ^ x * 2 ^ v := by
    rw [Nat.mul_assoc, Nat.mul_assoc, ← Nat.pow_add, ← Nat.pow_add]
    exact Nat.mul_le_mul_left _ (Nat.pow_le_pow_right (by decide) hx)
  have h2 : A * 2 ^ x * 2 ^ v < B * 2 ^ y * 2 ^ v := Nat.mul_lt_mul_of_pos_right h (Nat.pow_pos (by decide))
  have h3 : A * 2 ^ u * 2 ^ y < B * 2 ^ v * 2 ^ y := by rw [Nat.mul_right_comm B]; omega
  exact Nat.lt_of_mul_lt_mul_right h3

theorem shift_le {A B x y u v : Nat} (h : A * 2 ^ x ≤ B * 2 ^ y) (hx : u + y ≤ x + v) :
    A * 2 ^ u ≤ B * 2 ^ v := by
  have h1 : A * 2 ^ u * 2 ^ y ≤ A * 2 ^ x * 2 ^ v := by
    rw [Nat.mul_assoc, Nat.mul_assoc, ← Nat.pow_add, ← Nat.pow_add]
    exact Nat.mul_le_mul_left _ (Nat.pow_le_pow_right (by decide) hx)
  have h2 : A * 2 ^ x * 2 ^ v ≤ B * 2 ^ y * 2 ^ v := Nat.mul_le_mul_right _ h
  have h3 : A * 2 ^ u * 2 ^ y ≤ B * 2 ^ v * 2 ^ y := by rw [Nat.mul_right_comm B]; omega
  exact Nat.le_of_mul_le_mul_right h3 (Nat.pow_pos (by decide))

/-- the normalised exponent brackets the value: `2^52 ≤ (num/den)/2^e2 < 2^53` -/
theorem rpE2_bracket (num den : Nat) (hn : 0 < num) (hd : 0 < den) :
    den * 2 ^ (52 + (rpE2 num den).toNat) ≤ num * 2 ^ (-(rpE2 num den)).toNat ∧
    num * 2 ^ (-(rpE2 num den)).toNat < den * 2 ^ (53 + (rpE2 num den).toNat) := by
  unfold rpE2
  simp only [Int.ofNat_eq_natCast]
  have ha1 : 2 ^ num.log2 ≤ num := Nat.log2_self_le (by omega)
  have ha2 : num < 2 ^ (num.log2 + 1) := Nat.lt_log2_self
  have hb1 : 2 ^ den.log2 ≤ den := Nat.log2_self_le (by omega)
  have hb2 : den < 2 ^ (den.log2 + 1) := Nat.lt_log2_self
  generalize num.log2 = a at *
  generalize den.log2 = b at *
  -- den·2^a ≤ num·2^(b+1),  num·2^b < den·2^(a+1)
  have h1 : den * 2 ^ a ≤ num * 2 ^ (b + 1) := by
    calc den * 2 ^ a ≤ 2 ^ (b + 1) * num := Nat.mul_le_mul (Nat.le_of_lt hb2) ha1
      _ = _ := Nat.mul_comm _ _
  have h2 : num * 2 ^ b < den * 2 ^ (a + 1) := by
    calc num * 2 ^ b ≤ num * den := Nat.mul_le_mul_left _ hb1
      _ < 2 ^ (a + 1) * den := Nat.mul_lt_mul_of_pos_right ha2 hd
      _ = _ := Nat.mul_comm _ _
  generalize he1 : ((a : Int) - (b : Int) - 52) = e1
  have l1 : den * 2 ^ (51 + e1.toNat) ≤ num * 2 ^ (-e1).toNat := shift_le h1 (by omega)
  have u1 : num * 2 ^ (-e1).toNat < den * 2 ^ (53 + e1.toNat) := shift_lt h2 (by omega)
  split
  · rename_i hlt
    rw [pow2_eq, pow2_eq, P52_eq, Nat.div_lt_iff_lt_mul (by positivity)] at hlt
    have hlt' : num * 2 ^ (-e1).toNat < den * 2 ^ (52 + e1.toNat) := by
      rw [Nat.pow_add]; linarith
    exact ⟨shift_le l1 (by omega), shift_lt hlt' (by omega)⟩
  · rename_i hge
    rw [pow2_eq, pow2_eq, P52_eq, Nat.div_lt_iff_lt_mul (by positivity), Nat.not_lt] at hge
    refine ⟨?_, u1⟩
    rw [Nat.pow_add]; linarith


def rpE (num den : Nat) : Int := if rpE2 num den < F64.EMIN then F64.EMIN else rpE2 num den

def rpQ (n d : Nat) : Nat :=
  if 2 * (n % d) > d ∨ (2 * (n % d) = d ∧ (n / d) % 2 = 1) then n / d + 1 else n / d

def rpFin (q' : Nat) (e : Int) : Option (Nat × Int) :=
  let (m, e') := if q' = F64.P53 then (F64.P52, e + 1) else (q', e)
  if e' > F64.EMAX then none else some (m, e')

theorem roundPos_eq (num den : Nat) :
    F64.roundPos num den =
      rpFin (rpQ (num * F64.pow2 (-(rpE num den)).toNat) (den * F64.pow2 (rpE num den).toNat)) (rpE num den) := rfl

theorem rpQ_spec (n d : Nat) (hd : 0 < d) :
    2 * ((rpQ n d * d : Nat) - (n : Nat) : Int).natAbs ≤ d ∧ n / d ≤ rpQ n d ∧ rpQ n d ≤ n / d + 1 := by
  have h1 := Nat.div_add_mod n d
  have h2 := Nat.mod_lt n hd
  unfold rpQ
  generalize n / d = q at *
  generalize n % d = r at *
  split
  · rename_i h
    rw [Nat.add_mul, Nat.one_mul, Nat.mul_comm q d]
    generalize d * q = x at *
    omega
  · rename_i h
    rw [Nat.mul_comm q d]
    generalize d * q = x at *
    omega

theorem rpE_ge (num den : Nat) : F64.EMIN ≤ rpE num den ∧ rpE2 num den ≤ rpE num den ∧
    (rpE num den = rpE2 num den ∨ rpE num den = F64.EMIN) := by
  unfold rpE; split <;> omega


theorem roundPos_spec' (num den m : Nat) (e : Int) (hn : 0 < num) (hd : 0 < den)
    (h : F64.roundPos num den = some (m, e)) :
    m < 2 ^ 53 ∧ F64.EMIN ≤ e ∧ e ≤ F64.EMAX ∧ (2 ^ 52 ≤ m ∨ e = F64.EMIN) ∧
    2 * ((m * 2 ^ e.toNat * den : Nat) - (num * 2 ^ (-e).toNat : Nat) : Int).natAbs
      ≤ 2 ^ e.toNat * den := by
  rw [roundPos_eq] at h
  obtain ⟨hb1, hb2⟩ := rpE2_bracket num den hn hd
  obtain ⟨hE1, hE2, hE3⟩ := rpE_ge num den
  generalize rpE num den = E at *
  generalize rpE2 num den = E2 at *
  simp only [pow2_eq] at h
  have hdpos : 0 < den * 2 ^ E.toNat := by positivity
  obtain ⟨hq1, hq2, hq3⟩ := rpQ_spec (num * 2 ^ (-E).toNat) (den * 2 ^ E.toNat) hdpos
  -- n < 2^53 · d
  have hup : num * 2 ^ (-E).toNat < den * 2 ^ (53 + E.toNat) := shift_lt hb2 (by omega)
  have hqlt : num * 2 ^ (-E).toNat / (den * 2 ^ E.toNat) < 2 ^ 53 := by
    rw [Nat.div_lt_iff_lt_mul hdpos, Nat.pow_add] at *; linarith
  have hlow : E = F64.EMIN ∨ 2 ^ 52 ≤ num * 2 ^ (-E).toNat / (den * 2 ^ E.toNat) := by
    rcases hE3 with h3 | h3
    · right
      rw [Nat.le_div_iff_mul_le hdpos]
      have := shift_le hb1 (u := 52 + E.toNat) (v := (-E).toNat) (by omega)
      rw [Nat.pow_add] at this; linarith
    · left; exact h3
  generalize hQ : rpQ (num * 2 ^ (-E).toNat) (den * 2 ^ E.toNat) = Q at *
  generalize hq : num * 2 ^ (-E).toNat / (den * 2 ^ E.toNat) = q at *
  unfold rpFin at h
  simp only [P53_eq, P52_eq] at h
  by_cases hc : Q = 2 ^ 53
  · simp only [hc, if_true] at h
    split at h
    · exact absurd h (by simp)
    · rename_i hmax
      simp only [Option.some.injEq, Prod.mk.injEq] at h
      obtain ⟨rfl, rfl⟩ := h
      refine ⟨by decide, by omega, by omega, Or.inl (Nat.le_refl _), ?_⟩
      rw [hc] at hq1
      by_cases hneg : E < 0
      · have e1 : (E + 1).toNat = E.toNat := by omega
        have e2 : (-E).toNat = (-(E + 1)).toNat + 1 := by omega
        rw [e1]
        have hY : num * 2 ^ (-E).toNat = 2 * (num * 2 ^ (-(E + 1)).toNat) := by rw [e2, pow_succ]; ring
        have hX : 2 ^ 53 * (den * 2 ^ E.toNat) = 2 * (2 ^ 52 * 2 ^ E.toNat * den) := by ring
        have hD : 2 ^ E.toNat * den = den * 2 ^ E.toNat := Nat.mul_comm _ _
        rw [hY, hX] at hq1
        rw [hD]
        generalize 2 ^ 52 * 2 ^ E.toNat * den = X at *
        generalize num * 2 ^ (-(E + 1)).toNat = Y at *
        generalize den * 2 ^ E.toNat = D at *
        omega
      · have e1 : (E + 1).toNat = E.toNat + 1 := by omega
        have e2 : (-(E + 1)).toNat = (-E).toNat := by omega
        rw [e1, e2]
        have hX : 2 ^ 52 * 2 ^ (E.toNat + 1) * den = 2 ^ 53 * (den * 2 ^ E.toNat) := by rw [pow_succ]; ring
        have hD : 2 ^ (E.toNat + 1) * den = 2 * (den * 2 ^ E.toNat) := by rw [pow_succ]; ring
        rw [hX, hD]
        generalize 2 ^ 53 * (den * 2 ^ E.toNat) = X at *
        generalize num * 2 ^ (-E).toNat = Y at *
        generalize den * 2 ^ E.toNat = D at *
        omega
  · simp only [hc, if_false] at h
    split at h
    · exact absurd h (by simp)
    · rename_i hmax
      simp only [Option.some.injEq, Prod.mk.injEq] at h
      obtain ⟨rfl, rfl⟩ := h
      refine ⟨by omega, by omega, by omega, by omega, ?_⟩
      have : Q * (den * 2 ^ E.toNat) = Q * 2 ^ E.toNat * den := by ring
      rw [this] at hq1
      have : 2 ^ E.toNat * den = den * 2 ^ E.toNat := Nat.mul_comm _ _
      omega

theorem rpE2_unique (num den : Nat) (hn : 0 < num) (hd : 0 < den) (x : Int)
    (h1 : den * 2 ^ (52 + x.toNat) ≤ num * 2 ^ (-x).toNat)
    (h2 : num * 2 ^ (-x).toNat < den * 2 ^ (53 + x.toNat)) : rpE2 num den = x := by
  obtain ⟨hb1, hb2⟩ := rpE2_bracket num den hn hd
  generalize rpE2 num den = y at *
  by_contra hne
  rcases Int.lt_or_gt_of_ne hne with hlt | hgt
  · have := shift_lt hb2 (u := (-x).toNat) (v := 52 + x.toNat) (by omega)
    omega
  · have := shift_lt h2 (u := (-y).toNat) (v := 52 + y.toNat) (by omega)
    omega

theorem ratio_le {num den num' den' A B : Nat} (hd : 0 < den) (hr : num * den' = num' * den)
    (h : A * den ≤ num * B) : A * den' ≤ num' * B := by
  have : A * den' * den ≤ num' * B * den := by
    calc A * den' * den = A * den * den' := by ring
      _ ≤ num * B * den' := Nat.mul_le_mul_right _ h
      _ = num * den' * B := by ring
      _ = num' * den * B := by rw [hr]
      _ = _ := by ring
  exact Nat.le_of_mul_le_mul_right this hd

theorem ratio_lt {num den num' den' A B : Nat} (_hd : 0 < den) (hd' : 0 < den') (hr : num * den' = num' * den)
    (h : num * B < A * den) : num' * B < A * den' := by
  have : num' * B * den < A * den' * den := by
    calc num' * B * den = num' * den * B := by ring
      _ = num * den' * B := by rw [hr]
      _ = num * B * den' := by ring
      _ < A * den * den' := Nat.mul_lt_mul_of_pos_right h hd'
      _ = _ := by ring
  exact Nat.lt_of_mul_lt_mul_right this

theorem rpE2_congr {num den num' den' : Nat} (hn : 0 < num) (hd : 0 < den) (hn' : 0 < num') (hd' : 0 < den')
    (hr : num * den' = num' * den) : rpE2 num den = rpE2 num' den' := by
  obtain ⟨hb1, hb2⟩ := rpE2_bracket num den hn hd
  symm
  apply rpE2_unique num' den' hn' hd'
  · rw [Nat.mul_comm] at hb1 ⊢; exact ratio_le hd hr hb1
  · rw [Nat.mul_comm den] at hb2; rw [Nat.mul_comm den']; exact ratio_lt hd hd' hr hb2

theorem rpE_congr {num den num' den' : Nat} (hn : 0 < num) (hd : 0 < den) (hn' : 0 < num') (hd' : 0 < den')
    (hr : num * den' = num' * den) : rpE num den = rpE num' den' := by
  unfold rpE; rw [rpE2_congr hn hd hn' hd' hr]

theorem half_cmp_congr {r d r' d' : Nat} (hd : 0 < d) (hd' : 0 < d') (h : r * d' = r' * d) :
    (2 * r > d ↔ 2 * r' > d') ∧ (2 * r = d ↔ 2 * r' = d') := by
  have e1 : 2 * r * d' = 2 * r' * d := by rw [Nat.mul_assoc, h, Nat.mul_assoc]
  refine ⟨⟨fun g => ?_, fun g => ?_⟩, ⟨fun g => ?_, fun g => ?_⟩⟩
  · have : d * d' < 2 * r * d' := Nat.mul_lt_mul_of_pos_right g hd'
    rw [e1, Nat.mul_comm d d'] at this
    exact Nat.lt_of_mul_lt_mul_right this
  · have : d' * d < 2 * r' * d := Nat.mul_lt_mul_of_pos_right g hd
    rw [← e1, Nat.mul_comm d' d] at this
    exact Nat.lt_of_mul_lt_mul_right this
  · have : 2 * r' * d = d' * d := by rw [← e1, g, Nat.mul_comm]
    exact Nat.eq_of_mul_eq_mul_right hd this
  · have : 2 * r * d' = d * d' := by rw [e1, g, Nat.mul_comm]
    exact Nat.eq_of_mul_eq_mul_right hd' this

theorem rpQ_congr {n d n' d' : Nat} (hd : 0 < d) (hd' : 0 < d') (hr : n * d' = n' * d) :
    rpQ n d = rpQ n' d' := by
  have h1 := Nat.div_add_mod n d
  have h2 := Nat.mod_lt n hd
  have h1' := Nat.div_add_mod n' d'
  have h2' := Nat.mod_lt n' hd'
  unfold rpQ
  generalize n / d = q at *
  generalize n % d = r at *
  generalize n' / d' = q' at *
  generalize n' % d' = r' at *
  have hdd : 0 < d * d' := Nat.mul_pos hd hd'
  have e : d * d' * q + r * d' = d * d' * q' + r' * d := by
    have : (d * q + r) * d' = (d' * q' + r') * d := by rw [h1, h1', hr]
    linarith
  have hl : r * d' < d * d' := Nat.mul_lt_mul_of_pos_right h2 hd'
  have hl' : r' * d < d * d' := by rw [Nat.mul_comm d d']; exact Nat.mul_lt_mul_of_pos_right h2' hd
  have hq : q = q' := by
    have a1 : (d * d' * q + r * d') / (d * d') = q := by
      rw [Nat.mul_add_div hdd, Nat.div_eq_of_lt hl, Nat.add_zero]
    have a2 : (d * d' * q' + r' * d) / (d * d') = q' := by
      rw [Nat.mul_add_div hdd, Nat.div_eq_of_lt hl', Nat.add_zero]
    rw [← a1, ← a2, e]
  subst hq
  have hrr : r * d' = r' * d := by omega
  obtain ⟨c1, c2⟩ := half_cmp_congr hd hd' hrr
  simp only [c1, c2]

theorem roundPos_congr {num den num' den' : Nat} (hn : 0 < num) (hd : 0 < den) (hn' : 0 < num')
    (hd' : 0 < den') (hr : num * den' = num' * den) : F64.roundPos num den = F64.roundPos num' den' := by
  rw [roundPos_eq, roundPos_eq, rpE_congr hn hd hn' hd' hr]
  congr 1
  simp only [pow2_eq]
  apply rpQ_congr (by positivity) (by positivity)
  calc _ = num * den' * (2 ^ (-rpE num' den').toNat * 2 ^ (rpE num' den').toNat) := by ring
    _ = _ := by rw [hr]; ring

theorem round_congr (s : Bool) {num den num' den' : Nat} (hd : 0 < den)
    (hd' : 0 < den') (hr : num * den' = num' * den) : F64.round s num den = F64.round s num' den' := by
  unfold F64.round
  by_cases h0 : num = 0
  · have h0' : num' = 0 := by
      subst h0
      rcases Nat.mul_eq_zero.mp (by omega : num' * den = 0) with h | h
      · exact h
      · omega
    simp [h0, h0']
  · have h0' : num' ≠ 0 := by
      intro h; subst h
      rcases Nat.mul_eq_zero.mp (by omega : num * den' = 0) with h | h
      · exact h0 h
      · omega
    simp only [h0, h0', if_false]
    rw [roundPos_congr (by omega) hd (by omega) hd' hr]

/-- If `(m0, e0)` is canonical and `num/den` lies strictly within half a unit of `m0·2^e0` (and in the
    same binade), then `roundPos` returns `(m0, e0)`. -/
theorem roundPos_of_near (num den m0 : Nat) (e0 : Int) (hn : 0 < num) (hd : 0 < den)
    (hm : m0 < 2 ^ 53) (he1 : F64.EMIN ≤ e0) (he2 : e0 ≤ F64.EMAX)
    (hlo : den * 2 ^ (52 + e0.toNat) ≤ num * 2 ^ (-e0).toNat ∨ e0 = F64.EMIN)
    (h1 : 2 * m0 * (den * 2 ^ e0.toNat) < 2 * (num * 2 ^ (-e0).toNat) + den * 2 ^ e0.toNat)
    (h2 : 2 * (num * 2 ^ (-e0).toNat) < (2 * m0 + 1) * (den * 2 ^ e0.toNat)) :
    F64.roundPos num den = some (m0, e0) := by
  have hup : num * 2 ^ (-e0).toNat < den * 2 ^ (53 + e0.toNat) := by
    rw [Nat.pow_add]
    have : (2 * m0 + 1) * (den * 2 ^ e0.toNat) ≤ 2 ^ 54 * (den * 2 ^ e0.toNat) :=
      Nat.mul_le_mul_right _ (by omega)
    nlinarith
  obtain ⟨hb1, hb2⟩ := rpE2_bracket num den hn hd
  have hE : rpE num den = e0 := by
    unfold rpE
    generalize rpE2 num den = y at *
    have hy : y ≤ e0 := by
      by_contra hc
      have := shift_lt hup (u := (-y).toNat) (v := 52 + y.toNat) (by omega)
      omega
    rcases hlo with hlo | hlo
    · have : y = e0 := by
        by_contra hc
        have := shift_lt hb2 (u := (-e0).toNat) (v := 52 + e0.toNat) (by omega)
        omega
      subst this
      rw [if_neg (by omega)]
    · subst hlo
      by_cases hc : y < F64.EMIN
      · rw [if_pos hc]
      · rw [if_neg hc]; omega
  rw [roundPos_eq, hE]
  simp only [pow2_eq]
  generalize num * 2 ^ (-e0).toNat = n at *
  have hdpos : 0 < den * 2 ^ e0.toNat := by positivity
  generalize den * 2 ^ e0.toNat = d at *
  have hQ : rpQ n d = m0 := by
    have e1 := Nat.div_add_mod n d
    have e2 := Nat.mod_lt n hdpos
    have h1' : 2 * (m0 * d) < 2 * n + d := by rw [← Nat.mul_assoc]; exact h1
    have h2' : 2 * n < 2 * (m0 * d) + d := by rw [← Nat.mul_assoc, ← Nat.succ_mul]; exact h2
    unfold rpQ
    by_cases hge : m0 * d ≤ n
    · have hq : n / d = m0 := by
        apply Nat.div_eq_of_lt_le
        · exact hge
        · rw [Nat.succ_mul]; omega
      rw [hq] at e1 ⊢
      generalize n % d = r at *
      rw [Nat.mul_comm] at e1
      generalize m0 * d = X at *
      rw [if_neg (by omega)]
    · obtain ⟨k, rfl⟩ : ∃ k, m0 = k + 1 := by
        cases m0 with
        | zero => omega
        | succ k => exact ⟨k, rfl⟩
      have hX : (k + 1) * d = k * d + d := by ring
      rw [hX] at h1' h2' hge
      have hq : n / d = k := by
        apply Nat.div_eq_of_lt_le
        · omega
        · rw [Nat.succ_mul]; omega
      rw [hq] at e1 ⊢
      generalize n % d = r at *
      rw [Nat.mul_comm] at e1
      generalize k * d = X at *
      rw [if_pos (by omega)]
  rw [hQ]
  unfold rpFin
  have : m0 ≠ F64.P53 := by rw [P53_eq]; omega
  simp only [this, if_false]
  rw [if_neg (by omega)]


set_option exponentiation.threshold 2048 in
theorem roundPos_isSome (num den : Nat) (hn : 0 < num) (hd : 0 < den) (hv : num < 2 ^ 1023 * den) :
    ∃ m e, F64.roundPos num den = some (m, e) := by
  obtain ⟨hb1, _⟩ := rpE2_bracket num den hn hd
  obtain ⟨hE1, hE2, hE3⟩ := rpE_ge num den
  rw [roundPos_eq]
  generalize rpQ _ _ = Q
  generalize rpE num den = E at *
  generalize rpE2 num den = E2 at *
  have hE : E < 971 := by
    by_contra hc
    have h3 : E = E2 := by rcases hE3 with h | h; exact h; (have : F64.EMIN = -1074 := rfl); omega
    subst h3
    have e1 : (-E).toNat = 0 := by omega
    rw [e1, Nat.pow_zero, Nat.mul_one] at hb1
    have : 2 ^ 1023 ≤ 2 ^ (52 + E.toNat) := Nat.pow_le_pow_right (by decide) (by omega)
    have : den * 2 ^ 1023 ≤ den * 2 ^ (52 + E.toNat) := Nat.mul_le_mul_left _ this
    omega
  unfold rpFin
  have hmax : F64.EMAX = 971 := rfl
  by_cases hc : Q = F64.P53
  · simp only [hc, if_true]; rw [if_neg (by omega)]; exact ⟨_, _, rfl⟩
  · simp only [hc, if_false]; rw [if_neg (by omega)]; exact ⟨_, _, rfl⟩

/-- magnitude: a value below `2^j` gets exponent `≤ j − 52` -/
theorem exp_le_of_lt (num den m : Nat) (e : Int) (j : Nat)
    (hc : 2 ^ 52 ≤ m ∨ e = F64.EMIN)
    (herr : 2 * ((m * 2 ^ e.toNat * den : Nat) - (num * 2 ^ (-e).toNat : Nat) : Int).natAbs
      ≤ 2 ^ e.toNat * den)
    (hv : num < 2 ^ j * den) : e ≤ (j : Int) - 52 := by
  by_contra hgt
  have hEMIN : F64.EMIN = -1074 := rfl
  have hm : 2 ^ 52 ≤ m := by rcases hc with h | h; exact h; omega
  have hX : m * 2 ^ e.toNat * den = m * (2 ^ e.toNat * den) := by ring
  have h1 : 2 ^ 52 * (2 ^ e.toNat * den) ≤ m * (2 ^ e.toNat * den) := Nat.mul_le_mul_right _ hm
  rw [hX] at herr
  have h2 : 2 ^ 52 * (2 ^ e.toNat * den) ≤ 2 * (num * 2 ^ (-e).toNat) := by
    generalize m * (2 ^ e.toNat * den) = X at *
    generalize 2 ^ e.toNat * den = Z at *
    generalize num * 2 ^ (-e).toNat = Y at *
    omega
  have h3 : 2 * (num * 2 ^ (-e).toNat) < 2 * (2 ^ j * den * 2 ^ (-e).toNat) :=
    Nat.mul_lt_mul_of_pos_left (Nat.mul_lt_mul_of_pos_right hv (by positivity)) (by decide)
  have h4 : 2 ^ (52 + e.toNat) * den < 2 ^ (j + 1 + (-e).toNat) * den := by
    calc 2 ^ (52 + e.toNat) * den = 2 ^ 52 * (2 ^ e.toNat * den) := by rw [Nat.pow_add]; ring
      _ < 2 * (2 ^ j * den * 2 ^ (-e).toNat) := by omega
      _ = _ := by rw [Nat.pow_add, Nat.pow_add]; ring
  have h5 := Nat.lt_of_mul_lt_mul_right h4
  rw [Nat.pow_lt_pow_iff_right (by decide)] at h5
  omega

theorem grid_le {m den num D G : Nat} (hd : 0 < den)
    (herr : 2 * ((m * den : Nat) - (num * D : Nat) : Int).natAbs ≤ den)
    (h : G * den ≤ num * D) : G ≤ m := by
  by_contra hc
  have : (m + 1) * den ≤ G * den := Nat.mul_le_mul_right _ (by omega)
  rw [Nat.add_mul, Nat.one_mul] at this
  generalize m * den = X at *
  generalize num * D = Y at *
  generalize G * den = Z at *
  omega

theorem grid_ge {m den num D G : Nat} (hd : 0 < den)
    (herr : 2 * ((m * den : Nat) - (num * D : Nat) : Int).natAbs ≤ den)
    (h : num * D ≤ G * den) : m ≤ G := by
  by_contra hc
  have : (G + 1) * den ≤ m * den := Nat.mul_le_mul_right _ (by omega)
  rw [Nat.add_mul, Nat.one_mul] at this
  generalize m * den = X at *
  generalize num * D = Y at *
  generalize G * den = Z at *
  omega

set_option exponentiation.threshold 2048 in
/-- Rounding a positive rational below `2^j`, `j ≤ 51`: a finite result with negative exponent. -/
theorem round_small (s : Bool) (num den j : Nat) (hn : 0 < num) (hd : 0 < den) (hj : j ≤ 51)
    (hv : num < 2 ^ j * den) :
    ∃ m D : Nat, ∃ e : Int, F64.round s num den = F64.fin s m e ∧ e < 0 ∧ e ≤ (j : Int) - 52 ∧
      D = 2 ^ (-e).toNat ∧ 2 ^ (52 - j) ≤ D ∧ m < 2 ^ 53 ∧
      2 * ((m * den : Nat) - (num * D : Nat) : Int).natAbs ≤ den := by
  have hv' : num < 2 ^ 1023 * den := by
    have : 2 ^ j * den ≤ 2 ^ 1023 * den := Nat.mul_le_mul_right _ (Nat.pow_le_pow_right (by decide) (by omega))
    omega
  obtain ⟨m, e, h⟩ := roundPos_isSome num den hn hd hv'
  obtain ⟨h1, h2, h3, h4, h5⟩ := roundPos_spec' num den m e hn hd h
  have he := exp_le_of_lt num den m e j h4 h5 hv
  have e0 : e.toNat = 0 := by omega
  rw [e0, Nat.pow_zero, Nat.mul_one, Nat.one_mul] at h5
  refine ⟨m, 2 ^ (-e).toNat, e, ?_, by omega, he, rfl, Nat.pow_le_pow_right (by decide) (by omega), h1, h5⟩
  unfold F64.round
  rw [if_neg (by omega), h]


/-- `m·2^e = a/b` -/
def Rep (m : Nat) (e : Int) (a b : Nat) : Prop := m * 2 ^ e.toNat * b = a * 2 ^ (-e).toNat

/-- canonical form (with powers written as `2^k`) -/
def CanonME (m : Nat) (e : Int) : Prop :=
  m < 2 ^ 53 ∧ F64.EMIN ≤ e ∧ e ≤ F64.EMAX ∧ (2 ^ 52 ≤ m ∨ e = F64.EMIN)

theorem round_exact (s : Bool) (num den m0 : Nat) (e0 : Int) (hd : 0 < den) (hc : CanonME m0 e0)
    (hr : Rep m0 e0 num den) : F64.round s num den = F64.fin s m0 e0 := by
  obtain ⟨c1, c2, c3, c4⟩ := hc
  unfold Rep at hr
  unfold F64.round
  by_cases h0 : num = 0
  · rw [if_pos h0]
    subst h0
    rw [Nat.zero_mul] at hr
    have hm : m0 = 0 := by
      rcases Nat.mul_eq_zero.mp hr with h | h
      · rcases Nat.mul_eq_zero.mp h with h | h
        · exact h
        · exact absurd h (by positivity)
      · omega
    subst hm
    have : e0 = F64.EMIN := by rcases c4 with h | h; (exact absurd h (by decide)); exact h
    subst this; rfl
  · rw [if_neg h0]
    have hr' : num * 2 ^ (-e0).toNat = m0 * (den * 2 ^ e0.toNat) := by rw [← hr]; ring
    have hdpos : 0 < den * 2 ^ e0.toNat := by positivity
    rw [roundPos_of_near num den m0 e0 (by omega) hd c1 c2 c3]
    · rcases c4 with h | h
      · left
        rw [hr', Nat.pow_add]
        calc den * (2 ^ 52 * 2 ^ e0.toNat) = 2 ^ 52 * (den * 2 ^ e0.toNat) := by ring
          _ ≤ _ := Nat.mul_le_mul_right _ h
      · right; exact h
    · rw [hr', Nat.mul_assoc]; omega
    · rw [hr', Nat.add_mul, Nat.mul_assoc]; omega

theorem exists_rep_nat (N : Nat) (h0 : 0 < N) (h1 : N ≤ 2 ^ 53) :
    ∃ m e, CanonME m e ∧ 2 ^ 52 ≤ m ∧ Rep m e N 1 := by
  by_cases hN : N = 2 ^ 53
  · refine ⟨2 ^ 52, 1, ⟨by decide, by decide, by decide, Or.inl (Nat.le_refl _)⟩, Nat.le_refl _, ?_⟩
    subst hN; unfold Rep; decide
  · have hlt : N < 2 ^ 53 := by omega
    have ha1 : 2 ^ N.log2 ≤ N := Nat.log2_self_le (by omega)
    have ha2 : N < 2 ^ (N.log2 + 1) := Nat.lt_log2_self
    have ha3 : N.log2 < 53 := (Nat.log2_lt (by omega)).mpr hlt
    generalize N.log2 = a at *
    have hp : 2 ^ a * 2 ^ (52 - a) = 2 ^ 52 := by rw [← Nat.pow_add]; congr 1; omega
    have hp' : 2 ^ (a + 1) * 2 ^ (52 - a) = 2 ^ 53 := by rw [← Nat.pow_add]; congr 1; omega
    have hE : F64.EMIN = -1074 := rfl
    have hE' : F64.EMAX = 971 := rfl
    refine ⟨N * 2 ^ (52 - a), (a : Int) - 52, ⟨?_, by omega, by omega, Or.inl ?_⟩, ?_, ?_⟩
    · rw [← hp']; exact Nat.mul_lt_mul_of_pos_right ha2 (by positivity)
    · rw [← hp]; exact Nat.mul_le_mul_right _ ha1
    · rw [← hp]; exact Nat.mul_le_mul_right _ ha1
    · unfold Rep
      have e1 : ((a : Int) - 52).toNat = 0 := by omega
      have e2 : (-((a : Int) - 52)).toNat = 52 - a := by omega
      rw [e1, e2]; ring

theorem mul_fin (s t : Bool) {m1 m2 a1 b1 a2 b2 : Nat} {e1 e2 : Int} (hb1 : 0 < b1) (hb2 : 0 < b2)
    (h1 : Rep m1 e1 a1 b1) (h2 : Rep m2 e2 a2 b2) :
    F64.mul (F64.fin s m1 e1) (F64.fin t m2 e2) = F64.round (s != t) (a1 * a2) (b1 * b2) := by
  unfold Rep at h1 h2
  unfold F64.mul
  simp only [pow2_eq]
  apply round_congr _ (by positivity) (by positivity)
  apply Nat.eq_of_mul_eq_mul_right (show 0 < 2 ^ e1.toNat * 2 ^ e2.toNat by positivity)
  calc m1 * m2 * 2 ^ (e1 + e2).toNat * (b1 * b2) * (2 ^ e1.toNat * 2 ^ e2.toNat)
      = (m1 * 2 ^ e1.toNat * b1) * (m2 * 2 ^ e2.toNat * b2) * 2 ^ (e1 + e2).toNat := by ring
    _ = (a1 * 2 ^ (-e1).toNat) * (a2 * 2 ^ (-e2).toNat) * 2 ^ (e1 + e2).toNat := by rw [h1, h2]
    _ = a1 * a2 * 2 ^ ((-e1).toNat + (-e2).toNat + (e1 + e2).toNat) := by rw [Nat.pow_add, Nat.pow_add]; ring
    _ = a1 * a2 * 2 ^ ((-(e1 + e2)).toNat + e1.toNat + e2.toNat) := by congr 2; omega
    _ = _ := by rw [Nat.pow_add, Nat.pow_add]; ring

theorem div_fin (s t : Bool) {m1 m2 a1 b1 a2 b2 : Nat} {e1 e2 : Int} (hb1 : 0 < b1) (hb2 : 0 < b2)
    (hm2 : m2 ≠ 0) (h1 : Rep m1 e1 a1 b1) (h2 : Rep m2 e2 a2 b2) :
    F64.div (F64.fin s m1 e1) (F64.fin t m2 e2) = F64.round (s != t) (a1 * b2) (b1 * a2) := by
  unfold Rep at h1 h2
  have hm2' : 0 < m2 := by omega
  have ha2 : 0 < a2 := by
    rcases Nat.eq_zero_or_pos a2 with h | h
    · subst h
      rw [Nat.zero_mul] at h2
      have : 0 < m2 * 2 ^ e2.toNat * b2 := by positivity
      omega
    · exact h
  unfold F64.div
  simp only [pow2_eq, hm2, if_false]
  apply round_congr _ (by positivity) (by positivity)
  apply Nat.eq_of_mul_eq_mul_right (show 0 < 2 ^ e1.toNat * 2 ^ (-e2).toNat by positivity)
  calc m1 * 2 ^ (e1 - e2).toNat * (b1 * a2) * (2 ^ e1.toNat * 2 ^ (-e2).toNat)
      = (m1 * 2 ^ e1.toNat * b1) * (a2 * 2 ^ (-e2).toNat) * 2 ^ (e1 - e2).toNat := by ring
    _ = (a1 * 2 ^ (-e1).toNat) * (m2 * 2 ^ e2.toNat * b2) * 2 ^ (e1 - e2).toNat := by rw [h1, h2]
    _ = a1 * b2 * m2 * 2 ^ ((-e1).toNat + e2.toNat + (e1 - e2).toNat) := by rw [Nat.pow_add, Nat.pow_add]; ring
    _ = a1 * b2 * m2 * 2 ^ ((-(e1 - e2)).toNat + e1.toNat + (-e2).toNat) := by congr 2; omega
    _ = _ := by rw [Nat.pow_add, Nat.pow_add]; ring

theorem truncInt_rep (s : Bool) {m N : Nat} {e : Int} (h : Rep m e N 1) :
    F64.truncInt s m e = if s then -(N : Int) else (N : Int) := by
  unfold Rep at h
  unfold F64.truncInt
  simp only [pow2_eq, Int.ofNat_eq_natCast]
  by_cases he : e ≥ 0
  · have : (-e).toNat = 0 := by omega
    rw [this, Nat.pow_zero, Nat.mul_one, Nat.mul_one] at h
    rw [if_pos he, h]
  · have : e.toNat = 0 := by omega
    rw [this, Nat.pow_zero, Nat.mul_one, Nat.mul_one] at h
    rw [if_neg he, h, Nat.mul_div_cancel _ (by positivity)]

theorem ofInt_fin (n : Int) (h0 : n ≠ 0) (h : n.natAbs ≤ 2 ^ 53) :
    ∃ m e, F64.ofInt n = F64.fin (decide (n < 0)) m e ∧ CanonME m e ∧ 2 ^ 52 ≤ m ∧ Rep m e n.natAbs 1 := by
  obtain ⟨m, e, hc, hm, hr⟩ := exists_rep_nat n.natAbs (by omega) h
  exact ⟨m, e, round_exact _ _ _ _ _ (by decide) hc hr, hc, hm, hr⟩

theorem sign_mul (a b : Int) (ha : a ≠ 0) (hb : b ≠ 0) :
    decide (a * b < 0) = (decide (a < 0) != decide (b < 0)) := by
  rcases Int.lt_or_gt_of_ne ha with h1 | h1 <;> rcases Int.lt_or_gt_of_ne hb with h2 | h2
  · have := Int.mul_pos_of_neg_of_neg h1 h2
    rw [decide_eq_true h1, decide_eq_true h2, decide_eq_false (by omega)]; rfl
  · have := Int.mul_neg_of_neg_of_pos h1 h2
    rw [decide_eq_true h1, decide_eq_false (by omega : ¬ b < 0), decide_eq_true this]; rfl
  · have := Int.mul_neg_of_pos_of_neg h1 h2
    rw [decide_eq_false (by omega : ¬ a < 0), decide_eq_true h2, decide_eq_true this]; rfl
  · have := Int.mul_pos h1 h2
    rw [decide_eq_false (by omega : ¬ a < 0), decide_eq_false (by omega : ¬ b < 0), decide_eq_false (by omega)]; rfl

end SqlDt.Lemmas
