/-
  Lemmas/ReadingCanonDelim: for a lossless picture the canonical reading is delimited, and its text is the rendered
  text (sign first for intervals).
-/
import SqlDt.Lemmas.ReadingCanonFits
namespace SqlDt.Lemmas
open SqlDt Gen Spec Parser

/-! ### what follows a token that needs a separator -/

/-- the text starts with a byte that is neither a digit nor a letter, or is empty -/
def SafeHead (rest : Bytes) : Prop :=
  rest = [] ∨ ∃ ch tl, rest = ch :: tl ∧ isDigitB ch = false ∧ isLowerB (toLowerB ch) = false

theorem sep_text (ty : Ty) (c : Comps) (g : Field) (hs : isSeparator g = true) (more : Bytes) :
    SafeHead ((canonLex ty c g).text g ++ more) := by
  right
  cases g <;> simp [isSeparator] at hs
  · rename_i n
    obtain ⟨k, rfl⟩ : ∃ k, n = k + 1 := ⟨n - 1, by omega⟩
    exact ⟨32, spaces k ++ more, by simp [canonLex, Lex.text, spaces_succ], by decide, by decide⟩
  all_goals exact ⟨_, more, rfl, by decide, by decide⟩

theorem safeHead_nextIsDigit (rest : Bytes) (h : SafeHead rest) : nextIsDigit rest = false := by
  rcases h with rfl | ⟨ch, tl, rfl, hd, _⟩
  · rfl
  · exact hd

theorem safeHead_startsWithCI (rest : Bytes) (h : SafeHead rest) (b : Nat) (bs : Bytes) (hb : isLowerB b = true) :
    startsWithCI rest (b :: bs) = false := by
  rcases h with rfl | ⟨ch, tl, rfl, _, hl⟩
  · rfl
  · simp only [startsWithCI, eqIgnoreCaseB]
    have hbl : toLowerB b = b := by
      rw [toLowerB_eq]
      simp only [isLowerB, Bool.and_eq_true, decide_eq_true_eq] at hb
      have : ¬ (65 ≤ b ∧ b ≤ 90) := by omega
      simp [this]
    have : (toLowerB ch == toLowerB b) = false := by
      rw [hbl]
      simp only [beq_eq_false_iff_ne, ne_eq]
      intro e; rw [e, hb] at hl; cases hl
    simp [this]

theorem month_tail_lower : ∀ i, i < 12 → ∀ b ∈ (monthNames.getD i []).drop 3, isLowerB b = true := by decide

/-! ### one item -/

theorem numLex_width (w n : Nat) (h : (digits n).length ≤ w) : numWidth (w - (digits n).length) n = w := by
  unfold numWidth; omega

theorem digits_len_le (n k : Nat) (hk : 1 ≤ k ∧ k ≤ 9) (hn : n < 10 ^ k) : (digits n).length ≤ k := by
  have h9 : (10:Nat) ^ k ≤ 10 ^ 9 := Nat.pow_le_pow_right (by decide) hk.2
  have h20 : (10:Nat) ^ 9 ≤ 10 ^ 20 := by decide
  exact digits_length_le n k hk.1 hn (by omega)

theorem canon_itemOK (ty : Ty) (c : Comps) (hb : Bounds ty c) (f : Field) (hwf : Field.WellFormed f)
    (happ : applicable ty f = true) (hy4 : ∀ w, f = .Year w → hasDate ty = true → w = 4)
    (hf6 : ∀ p, f = .Fraction p → 6 ≤ p.getD 6) (later : List (Field × Lex)) (rest : Bytes)
    (hsep : needsSeparator ty f = true → SafeHead rest) :
    itemOK ty f (canonLex ty c f) later rest = true := by
  have hy := hb.year; have hm := hb.month; have hd := hb.day; have hh := hb.hour; have hmi := hb.minute
  have hs := hb.sec; have hw := hb.dow0; have hdo := hb.doy
  have two : ∀ n : Nat, n < 100 → numWidth (2 - (digits n).length) n = 2 := fun n hn =>
    numLex_width 2 n (digits_len_le n 2 (by omega) (by omega))
  cases f with
  | Invalid => simp [applicable] at happ
  | Blank n => rfl
  | Hyphen => rfl
  | Colon => rfl
  | Slash => rfl
  | Backslash => rfl
  | Comma => rfl
  | Dot => rfl
  | Semicolon => rfl
  | T => rfl
  | WeekOfMonth => simp [applicable] at happ
  | WeekOfYear => simp [applicable] at happ
  | AmPm style => rfl
  | DayOfWeek => rfl
  | DayName style => simp [canonLex, itemOK, isMonthToken]; cases isAbbrStyle style <;> simp [itemOK, isMonthToken]
  | Year w =>
    simp only [Field.WellFormed] at hwf
    by_cases hym : ty = .YM
    · subst hym
      have := safeHead_nextIsDigit rest (hsep (by simp [needsSeparator]))
      simp [canonLex, numLex, itemOK, this]
    · have hd4 : hasDate ty = true := by
        have : (hasDate ty || decide (ty = .YM)) = true := happ
        simpa [hym] using this
      have hw4 := hy4 w rfl hd4
      subst hw4
      have hlt : (c.year % ((10 ^ 4 : Nat) : Int)).toNat < 10 ^ 4 := by omega
      have := numLex_width 4 _ (digits_len_le _ 4 (by omega) hlt)
      simp only [canonLex, numLex, itemOK, hym, maxDigits, ↓reduceIte, Bool.or_eq_true, beq_iff_eq]
      left; simpa using this
  | Month =>
    have := two c.month.toNat (by omega)
    cases ty <;> simp [canonLex, numLex, itemOK, maxDigits, this, Ty.info, INFO_D, INFO_T, INFO_TS, INFO_YM, INFO_DT, INFO_OD]
  | Day =>
    by_cases hdt : ty = .DT
    · subst hdt
      have := safeHead_nextIsDigit rest (hsep (by simp [needsSeparator]))
      simp [canonLex, numLex, itemOK, this]
    · simp only [hdt, ↓reduceIte] at hd
      have := two c.day.toNat (by omega)
      cases ty <;> simp at hdt <;>
        simp [canonLex, numLex, itemOK, maxDigits, this, Ty.info, INFO_D, INFO_T, INFO_TS, INFO_YM, INFO_OD]
  | Hour24 =>
    have := two c.hour.toNat (by omega)
    cases ty <;> simp [canonLex, numLex, itemOK, maxDigits, this, Ty.info, INFO_D, INFO_T, INFO_TS, INFO_YM, INFO_DT, INFO_OD]
  | Hour12 =>
    have hr := hour12Of_range c.hour hh.1
    have := two (hour12Of c.hour).toNat (by omega)
    cases ty <;> simp [canonLex, numLex, itemOK, maxDigits, this, Ty.info, INFO_D, INFO_T, INFO_TS, INFO_YM, INFO_DT, INFO_OD]
  | Minute =>
    have := two c.minute.toNat (by omega)
    cases ty <;> simp [canonLex, numLex, itemOK, maxDigits, this, Ty.info, INFO_D, INFO_T, INFO_TS, INFO_YM, INFO_DT, INFO_OD]
  | Second =>
    have := two c.sec.toNat (by omega)
    cases ty <;> simp [canonLex, numLex, itemOK, maxDigits, this, Ty.info, INFO_D, INFO_T, INFO_TS, INFO_YM, INFO_DT, INFO_OD]
  | DayOfYear =>
    have := numLex_width 3 c.doy.toNat (digits_len_le _ 3 (by omega) (by omega))
    cases ty <;> simp [canonLex, numLex, itemOK, maxDigits, this, Ty.info, INFO_D, INFO_T, INFO_TS, INFO_YM, INFO_DT, INFO_OD]
  | MonthName style =>
    cases ha : isAbbrStyle style with
    | false => simp [canonLex, itemOK, ha]
    | true =>
      have hsafe := hsep (by simp [needsSeparator, ha])
      simp only [canonLex, itemOK, ha, isMonthToken, Bool.not_true, Bool.false_or, Bool.or_eq_true, decide_eq_true_eq,
        Bool.not_eq_true', fullName, namesOf]
      have hm1 := hb.monthD (by simpa [applicable] using happ)
      cases htail : (monthNames.getD (c.month.toNat - 1) []).drop 3 with
      | nil =>
        left
        have hl : ((monthNames.getD (c.month.toNat - 1) []).drop 3).length = 0 := by rw [htail]; rfl
        rw [List.length_drop] at hl
        exact decide_eq_true (Nat.le_of_sub_eq_zero hl)
      | cons b bs =>
        right
        have hbl := month_tail_lower (c.month.toNat - 1) (by omega) b (by rw [htail]; simp)
        exact safeHead_startsWithCI rest hsafe b bs hbl
  | Fraction p =>
    have h6 := hf6 p rfl
    have hp9 : 1 ≤ p.getD 6 ∧ p.getD 6 ≤ 9 := by
      cases p with
      | none => simp
      | some q => simp [Field.WellFormed] at hwf; simpa using hwf
    obtain ⟨f0, f1⟩ := fraction_bound ty c hb (p.getD 6) hp9.2
    have h20 : (fractionOf c.usec (p.getD 6)).toNat < 10 ^ 20 := by
      have : (10:Nat) ^ (p.getD 6) ≤ 10 ^ 9 := Nat.pow_le_pow_right (by decide) hp9.2
      have : (10:Nat) ^ 9 ≤ 10 ^ 20 := by decide
      omega
    have hlen := pad_length (p.getD 6) (fractionOf c.usec (p.getD 6)).toNat hp9.1 (by omega) h20
    cases p with
    | none =>
      have := safeHead_nextIsDigit rest (hsep (by simp [needsSeparator]))
      simp [canonLex, itemOK, this]
    | some q => simp at hlen; simp [canonLex, itemOK, maxDigits, hlen]

/-! ### the whole list -/

theorem writeItems_canon_cons (ty : Ty) (c : Comps) (f : Field) (fs : List Field) :
    writeItems (canon ty c (f :: fs)) = (canonLex ty c f).text f ++ writeItems (canon ty c fs) := rfl

theorem canon_delimited (ty : Ty) (c : Comps) (hb : Bounds ty c) : ∀ (fields : List Field) (s s' : Seen),
    seeAll ty s fields = some s' → (∀ f ∈ fields, Field.WellFormed f) → separated ty fields = true →
    delimitedFrom ty (canon ty c fields) = true
  | [], _, _, _, _, _ => rfl
  | f :: rest, s, s', hsee, hwf, hsep => by
    obtain ⟨s1, h1, h2⟩ := seeAll_cons ty s s' f rest hsee
    obtain ⟨happ, hy4, hf6⟩ := see_facts ty s s1 f h1
    have hrest : separated ty rest = true := by
      cases rest with
      | nil => rfl
      | cons g r => simp only [separated, Bool.and_eq_true] at hsep; exact hsep.2
    have hsafe : needsSeparator ty f = true → SafeHead (writeItems (canon ty c rest)) := by
      intro hn
      cases rest with
      | nil => exact Or.inl rfl
      | cons g r =>
        simp only [separated, Bool.and_eq_true, Bool.or_eq_true, Bool.not_eq_true', hn] at hsep
        have hg : isSeparator g = true := by
          rcases hsep.1 with h | h
          · cases h
          · exact h
        rw [writeItems_canon_cons]
        exact sep_text ty c g hg _
    have hitem := canon_itemOK ty c hb f (hwf f (by simp)) happ hy4 hf6 (canon ty c rest) (writeItems (canon ty c rest)) hsafe
    have ih := canon_delimited ty c hb rest s1 s' h2 (fun g hg => hwf g (by simp [hg])) hrest
    show delimitedFrom ty ((f, canonLex ty c f) :: canon ty c rest) = true
    simp only [delimitedFrom, hitem, ih, Bool.and_self]

theorem canon_fits_all (ty : Ty) (c : Comps) (hb : Bounds ty c) : ∀ (fields : List Field) (s s' : Seen),
    seeAll ty s fields = some s' → (∀ f ∈ fields, Field.WellFormed f) →
    ∀ q ∈ canon ty c fields, q.2.fits ty q.1 = true
  | [], _, _, _, _ => by intro q hq; simp [canon] at hq
  | f :: rest, s, s', hsee, hwf => by
    obtain ⟨s1, h1, h2⟩ := seeAll_cons ty s s' f rest hsee
    obtain ⟨happ, _, _⟩ := see_facts ty s s1 f h1
    intro q hq
    simp only [canon, List.map_cons, List.mem_cons] at hq
    rcases hq with rfl | hq
    · exact canon_fits ty c hb f (hwf f (by simp)) happ
    · exact canon_fits_all ty c hb rest s1 s' h2 (fun g hg => hwf g (by simp [hg])) q hq

theorem canon_wf (ty : Ty) (c : Comps) (fields : List Field) (hwf : ∀ f ∈ fields, Field.WellFormed f) :
    ∀ q ∈ canon ty c fields, Field.WellFormed q.1 := by
  intro q hq
  simp only [canon, List.mem_map] at hq
  obtain ⟨f, hf, rfl⟩ := hq
  exact hwf f hf

theorem canon_map_fst (ty : Ty) (c : Comps) (fields : List Field) : (canon ty c fields).map Prod.fst = fields := by
  simp [canon, List.map_map, Function.comp_def]

/-! ### the text -/

theorem see_mono (ty : Ty) (s s' : Seen) (f : Field) (h : see ty s f = some s') :
    (s.year = true → s'.year = true) ∧ (s.day = true → s'.day = true) ∧
    (s.year = true → ∀ w, f ≠ .Year w) ∧ (s.day = true → f ≠ .Day) := by
  unfold see at h
  split at h
  · cases h
  · cases f <;> simp only [] at h <;> (try (split at h)) <;> (try cases h) <;> simp_all

theorem seeAll_nolead (ty : Ty) : ∀ (fields : List Field) (s s' : Seen), seeAll ty s fields = some s' →
    (ty = .YM → s.year = true) → (ty = .DT → s.day = true) → ∀ f ∈ fields, isLead ty f = false
  | [], _, _, _, _, _ => by intro f hf; cases hf
  | g :: rest, s, s', hsee, hy, hd => by
    obtain ⟨s1, h1, h2⟩ := seeAll_cons ty s s' g rest hsee
    obtain ⟨m1, m2, m3, m4⟩ := see_mono ty s s1 g h1
    intro f hf
    rcases List.mem_cons.1 hf with rfl | hf
    · cases f <;> simp only [isLead, decide_eq_false_iff_not]
      · intro hty; exact m3 (hy hty) _ rfl
      · intro hty; exact m4 (hd hty) rfl
    · exact seeAll_nolead ty rest s1 s' h2 (fun h => m1 (hy h)) (fun h => m2 (hd h)) f hf

theorem canon_write_nolead (ty : Ty) (c : Comps) (hb : Bounds ty c) : ∀ (fields : List Field) (t : Bytes),
    (∀ f ∈ fields, isLead ty f = false) → (∀ f ∈ fields, Field.WellFormed f) →
    (∀ f ∈ fields, f ≠ .WeekOfMonth ∧ f ≠ .WeekOfYear) → renderAll ty c fields = some t →
    writeItems (canon ty c fields) = t
  | [], t, _, _, _, h => by simp [renderAll] at h; subst h; rfl
  | f :: rest, t, hl, hwf, hnw, h => by
    simp only [renderAll, bind, Option.bind] at h
    cases hr : renderField ty c f with
    | none => simp [hr] at h
    | some a =>
      cases hra : renderAll ty c rest with
      | none => simp [hr, hra] at h
      | some b =>
        simp [hr, hra] at h
        subst h
        rw [writeItems_canon_cons, canon_text ty c hb f (hwf f (by simp)) (hnw f (by simp)) a hr, hl f (by simp)]
        rw [canon_write_nolead ty c hb rest b (fun g hg => hl g (by simp [hg])) (fun g hg => hwf g (by simp [hg]))
          (fun g hg => hnw g (by simp [hg])) hra]
        simp

theorem seeAll_parseable (ty : Ty) : ∀ (fields : List Field) (s s' : Seen), seeAll ty s fields = some s' →
    ∀ f ∈ fields, f ≠ .WeekOfMonth ∧ f ≠ .WeekOfYear
  | [], _, _, _ => by intro f hf; cases hf
  | g :: rest, s, s', hsee => by
    obtain ⟨s1, h1, h2⟩ := seeAll_cons ty s s' g rest hsee
    obtain ⟨happ, _, _⟩ := see_facts ty s s1 g h1
    intro f hf
    rcases List.mem_cons.1 hf with rfl | hf
    · constructor <;> (intro h; subst h; simp [applicable] at happ)
    · exact seeAll_parseable ty rest s1 s' h2 f hf

/-- The rendered text of a lossless picture is the text of its canonical reading. -/
theorem canon_write (ty : Ty) (c : Comps) (hb : Bounds ty c) (fields : List Field) (s' : Seen)
    (hsee : seeAll ty {} fields = some s') (hlead : leadFirst ty fields = true)
    (hwf : ∀ f ∈ fields, Field.WellFormed f) (hneg : ty ≠ .YM → ty ≠ .DT → c.neg = false) (text : Bytes)
    (hr : render ty c fields = some text) : write (canon ty c fields) 0 = text := by
  have hpar := seeAll_parseable ty fields {} s' hsee
  unfold render at hr
  simp only [bind, Option.bind, pure] at hr
  cases hra : renderAll ty c fields with
  | none => simp [hra] at hr
  | some body =>
    simp only [hra, Option.some.injEq] at hr
    subst hr
    unfold write
    simp only [spaces, List.replicate_zero, List.append_nil]
    by_cases hint : ty = .YM ∨ ty = .DT
    · -- interval: the first token carries the sign
      cases fields with
      | nil => rcases hint with rfl | rfl <;> simp [leadFirst] at hlead
      | cons f rest =>
        obtain ⟨s1, h1, h2⟩ := seeAll_cons ty {} s' f rest hsee
        have hfl : isLead ty f = true := by
          rcases hint with rfl | rfl <;> cases f <;> simp [leadFirst] at hlead <;> simp [isLead]
        have hs1 : (ty = .YM → s1.year = true) ∧ (ty = .DT → s1.day = true) := by
          unfold see at h1
          split at h1
          · cases h1
          · rcases hint with rfl | rfl <;> cases f <;> simp [isLead] at hfl <;> simp only [] at h1 <;>
              (split at h1) <;> (try cases h1) <;> simp
        have hno := seeAll_nolead ty rest s1 s' h2 hs1.1 hs1.2
        simp only [renderAll, bind, Option.bind] at hra
        cases hrf : renderField ty c f with
        | none => simp [hrf] at hra
        | some a =>
          cases hrr : renderAll ty c rest with
          | none => simp [hrf, hrr] at hra
          | some b =>
            simp [hrf, hrr] at hra
            subst hra
            rw [writeItems_canon_cons, canon_text ty c hb f (hwf f (by simp)) (hpar f (by simp)) a hrf, hfl,
              canon_write_nolead ty c hb rest b hno (fun g hg => hwf g (by simp [hg])) (fun g hg => hpar g (by simp [hg])) hrr]
            have : (if c.neg = true then [45] else if ty = .YM ∨ ty = .DT then [43] else ([] : Bytes)) = (signOf c.neg).text := by
              cases c.neg <;> simp [signOf, Sign.text, hint]
            rw [this]; simp
    · have hnl : ∀ f ∈ fields, isLead ty f = false := by
        intro f _
        cases f <;> simp only [isLead, decide_eq_false_iff_not] <;> intro h <;> simp [h] at hint
      have hn := hneg (fun h => hint (Or.inl h)) (fun h => hint (Or.inr h))
      rw [canon_write_nolead ty c hb fields body hnl hwf hpar hra]
      simp [hn, hint]

end SqlDt.Lemmas
