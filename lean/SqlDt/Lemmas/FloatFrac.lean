import SqlDt.Lemmas.FloatCore
/-
  Lemmas/FloatFrac: the two microsecond conversions through `f64`, parametrised over the constant:
  `fracA`/`fracB` (division, then truncation) and `parseA`/`parseB` (multiplication, `round`, cast).
-/
namespace SqlDt.Lemmas
open SqlDt

theorem ofInt_nat_rep (u : Nat) (h : u ≤ 2 ^ 53) :
    ∃ m e, F64.ofInt (u : Int) = F64.fin false m e ∧ CanonME m e ∧ Rep m e u 1 ∧ (0 < u → 2 ^ 52 ≤ m) := by
  by_cases h0 : u = 0
  · subst h0
    exact ⟨0, F64.EMIN, by decide, ⟨by decide, by decide, by decide, Or.inr rfl⟩, by unfold Rep; simp, by omega⟩
  · obtain ⟨m, e, h1, h2, h3, h4⟩ := ofInt_fin (u : Int) (by omega) (by simpa using h)
    have : decide ((u : Int) < 0) = false := decide_eq_false (by omega)
    rw [this] at h1
    exact ⟨m, e, h1, h2, by simpa using h4, fun _ => h3⟩

/-- Rounding does not cross an integer: if `q ≤ num/den < q+1` and the denominator is small compared to
    the precision, the rounded value still has integer part `q`. -/
theorem round_floor (s : Bool) (num den j q : Nat) (hn : 0 < num) (hd : 0 < den) (hj : j ≤ 51)
    (hv : num < 2 ^ j * den) (hden : den ≤ 2 ^ (52 - j)) (hq : q * den ≤ num) (hq' : num < (q + 1) * den) :
    ∃ m e, F64.round s num den = F64.fin s m e ∧ e < 0 ∧ m / 2 ^ (-e).toNat = q := by
  obtain ⟨m, D, e, h1, h2, _, h3, h4, h5, h6⟩ := round_small s num den j hn hd hj hv
  refine ⟨m, e, h1, h2, ?_⟩
  rw [← h3]
  have hDpos : 0 < D := by rw [h3]; positivity
  have hlo : q * D ≤ m := by
    apply grid_le hd h6
    calc q * D * den = q * den * D := by ring
      _ ≤ num * D := Nat.mul_le_mul_right _ hq
  have hhi : m ≤ (q + 1) * D - 1 := by
    apply grid_ge hd h6
    have h7 : num + 1 ≤ (q + 1) * den := hq'
    have h8 : (num + 1) * D ≤ (q + 1) * den * D := Nat.mul_le_mul_right _ h7
    have h9 : den ≤ D := by omega
    have h10 : 0 < (q + 1) * D := by positivity
    have h11 : ((q + 1) * D - 1) * den = (q + 1) * D * den - den := by
      rw [Nat.sub_mul, Nat.one_mul]
    rw [h11]
    have h12 : (q + 1) * den * D = (q + 1) * D * den := by ring
    rw [h12, Nat.add_mul, Nat.one_mul] at h8
    omega
  apply Nat.div_eq_of_lt_le hlo
  have : 0 < (q + 1) * D := by positivity
  show m < (q + 1) * D
  omega


theorem round_zero (s : Bool) (den : Nat) : F64.round s 0 den = F64.zero s := by
  unfold F64.round; rfl

theorem toU32_zero : F64.toU32 (F64.zero false) = 0 := by decide

theorem toU32_fin_neg (m : Nat) (e : Int) (q : Nat) (he : e < 0) (hq : m / 2 ^ (-e).toNat = q)
    (hq' : q ≤ 4294967295) : F64.toU32 (F64.fin false m e) = (q : Int) := by
  unfold F64.toU32 F64.toIntSat F64.truncInt U32_MAX
  have hne : ¬ e ≥ 0 := by omega
  simp only [pow2_eq, Int.ofNat_eq_natCast, Bool.false_eq_true, ↓reduceIte, hne, hq]
  rw [if_neg (by omega), if_neg (by omega)]

/-- `(u as f64 / 10^k) as u32 = ⌊u / 10^k⌋` -/
theorem fracA (u k : Nat) (hu : u ≤ 999999) (hk : k ≤ 6) :
    F64.toU32 (F64.div (F64.ofInt (u : Int)) (F64.ofInt ((10 ^ k : Nat) : Int))) = ((u / 10 ^ k : Nat) : Int) := by
  have hT1 : 0 < 10 ^ k := by positivity
  have hT2 : 10 ^ k ≤ 10 ^ 6 := Nat.pow_le_pow_right (by decide) hk
  generalize 10 ^ k = T at *
  obtain ⟨m1, e1, h1, _, r1, _⟩ := ofInt_nat_rep u (by omega)
  obtain ⟨m2, e2, h2, _, r2, hm2⟩ := ofInt_nat_rep T (by omega)
  have hm2' : m2 ≠ 0 := by have := hm2 hT1; omega
  rw [h1, h2, div_fin _ _ (by decide) (by decide) hm2' r1 r2]
  simp only [Nat.mul_one, Nat.one_mul]
  show F64.toU32 (F64.round false u T) = _
  by_cases h0 : u = 0
  · subst h0
    rw [Nat.zero_div, round_zero, toU32_zero]; rfl
  · have hq := Nat.div_mul_le_self u T
    have hq' : u < (u / T + 1) * T := by
      have := Nat.div_add_mod u T
      have := Nat.mod_lt u hT1
      rw [Nat.add_mul, Nat.one_mul, Nat.mul_comm]; omega
    obtain ⟨m, e, h3, h4, h5⟩ := round_floor false u T 20 (u / T) (by omega) hT1 (by decide)
      (by omega) (by omega) hq hq'
    rw [h3]
    apply toU32_fin_neg m e _ h4 h5
    have := Nat.div_le_self u T
    omega

/-- `(u as f64 / c) as u32 = u·T` where `c = mc / Bc` is the double nearest to `1/T` (slightly above). -/
theorem fracB (u mc T : Nat) (ec : Int) (hu : u ≤ 999999) (hT : 0 < T) (hT' : T ≤ 1000)
    (hec : ec < 0) (hmc : mc ≠ 0)
    (H0 : ∀ w : Nat, w * T ≠ 2 ^ 52)
    (H1 : ∀ w : Nat, 2 ^ 52 + 1 ≤ w * T → w * T < 2 ^ 53 →
      mc * 2 ^ 52 ≤ w * 2 ^ (-ec).toNat ∧ 2 * (w * T) * mc < 2 * (w * 2 ^ (-ec).toNat) + mc ∧
      2 * (w * 2 ^ (-ec).toNat) < (2 * (w * T) + 1) * mc) :
    F64.toU32 (F64.div (F64.ofInt (u : Int)) (F64.fin false mc ec)) = ((u * T : Nat) : Int) := by
  obtain ⟨m1, e1, h1, _, r1, _⟩ := ofInt_nat_rep u (by omega)
  have r2 : Rep mc ec mc (2 ^ (-ec).toNat) := by
    unfold Rep
    have : ec.toNat = 0 := by omega
    rw [this]; ring
  rw [h1, div_fin _ _ (by decide) (by positivity) hmc r1 r2]
  simp only [Nat.one_mul]
  show F64.toU32 (F64.round false (u * 2 ^ (-ec).toNat) mc) = _
  generalize 2 ^ (-ec).toNat = Bc at *
  by_cases h0 : u = 0
  · subst h0
    rw [Nat.zero_mul, Nat.zero_mul, round_zero, toU32_zero]; rfl
  · have hN : u * T ≤ 999999000 := by
      calc u * T ≤ 999999 * 1000 := Nat.mul_le_mul hu hT'
        _ = _ := by decide
    obtain ⟨m0, e0, hc, hm0, hr⟩ := exists_rep_nat (u * T) (by positivity) (by omega)
    obtain ⟨c1, c2, c3, c4⟩ := hc
    have he0 : e0 ≤ 0 := by
      by_contra hpos
      unfold Rep at hr
      have e1 : (-e0).toNat = 0 := by omega
      rw [e1, Nat.pow_zero, Nat.mul_one, Nat.mul_one] at hr
      have : 2 ^ 1 ≤ 2 ^ e0.toNat := Nat.pow_le_pow_right (by decide) (by omega)
      have : 2 ^ 52 * 2 ^ 1 ≤ m0 * 2 ^ e0.toNat := Nat.mul_le_mul hm0 this
      omega
    have e0t : e0.toNat = 0 := by omega
    have hm0' : m0 = (u * 2 ^ (-e0).toNat) * T := by
      unfold Rep at hr
      rw [e0t, Nat.pow_zero, Nat.mul_one, Nat.mul_one] at hr
      rw [hr]; ring
    have hne := H0 (u * 2 ^ (-e0).toNat)
    obtain ⟨g1, g2, g3⟩ := H1 (u * 2 ^ (-e0).toNat) (by omega) (by omega)
    have hround : F64.round false (u * Bc) mc = F64.fin false m0 e0 := by
      unfold F64.round
      have : u * Bc ≠ 0 := by
        have : 0 < u * Bc := by
          have : 0 < u := by omega
          have : 0 < Bc := by
            rcases Nat.eq_zero_or_pos Bc with h | h
            · subst h; omega
            · exact h
          positivity
        omega
      rw [if_neg this, roundPos_of_near (u * Bc) mc m0 e0 (by omega) (by omega) c1 c2 c3]
      · left
        rw [e0t, Nat.add_zero]
        calc mc * 2 ^ 52 ≤ u * 2 ^ (-e0).toNat * Bc := g1
          _ = _ := by ring
      · rw [e0t, Nat.pow_zero, Nat.mul_one, hm0']
        calc _ < 2 * (u * 2 ^ (-e0).toNat * Bc) + mc := g2
          _ = _ := by ring
      · rw [e0t, Nat.pow_zero, Nat.mul_one, hm0']
        calc 2 * (u * Bc * 2 ^ (-e0).toNat) = 2 * (u * 2 ^ (-e0).toNat * Bc) := by ring
          _ < _ := g3
    rw [hround]
    unfold F64.toU32 F64.toIntSat U32_MAX
    simp only [truncInt_rep _ hr, Bool.false_eq_true, ↓reduceIte]
    rw [if_neg (by omega), if_neg (by omega)]

theorem toU32_round_nat (V : Nat) (h : V ≤ 4294967295) : F64.toU32 (F64.round false V 1) = (V : Int) := by
  obtain ⟨m, e, h1, _, h2, _⟩ := ofInt_nat_rep V (by omega)
  have : F64.ofInt (V : Int) = F64.round false V 1 := by
    unfold F64.ofInt
    rw [decide_eq_false (by omega : ¬ (V : Int) < 0)]; rfl
  rw [← this, h1]
  unfold F64.toU32 F64.toIntSat U32_MAX
  simp only [truncInt_rep _ h2, Bool.false_eq_true, ↓reduceIte]
  rw [if_neg (by omega), if_neg (by omega)]

theorem roundHalfAway_fin_neg (m : Nat) (e : Int) (he : e < 0) :
    F64.roundHalfAway (F64.fin false m e) =
      F64.round false (if 2 * (m % 2 ^ (-e).toNat) ≥ 2 ^ (-e).toNat then m / 2 ^ (-e).toNat + 1
        else m / 2 ^ (-e).toNat) 1 := by
  unfold F64.roundHalfAway
  have : ¬ e ≥ 0 := by omega
  simp only [this, ↓reduceIte, pow2_eq]

/-- `(int · 10^k) as computed in f64, rounded, cast` is exact. -/
theorem parseA (a b : Nat) (hV : a * b ≤ 4294967295) (ha : a ≤ 2 ^ 53) (hb : b ≤ 2 ^ 53) :
    F64.toU32 (F64.roundHalfAway (F64.mul (F64.ofInt (a : Int)) (F64.ofInt (b : Int)))) = ((a * b : Nat) : Int) := by
  obtain ⟨m1, e1, h1, _, r1, _⟩ := ofInt_nat_rep a ha
  obtain ⟨m2, e2, h2, _, r2, _⟩ := ofInt_nat_rep b hb
  rw [h1, h2, mul_fin _ _ (by decide) (by decide) r1 r2]
  show F64.toU32 (F64.roundHalfAway (F64.round false (a * b) (1 * 1))) = _
  generalize a * b = V at *
  obtain ⟨m, e, h3, _, r3, _⟩ := ofInt_nat_rep V (by omega)
  have : F64.ofInt (V : Int) = F64.round false V (1 * 1) := by
    unfold F64.ofInt
    rw [decide_eq_false (by omega : ¬ (V : Int) < 0)]; rfl
  rw [← this, h3]
  by_cases he : e ≥ 0
  · unfold F64.roundHalfAway
    simp only [he, ↓reduceIte]
    unfold F64.toU32 F64.toIntSat U32_MAX
    simp only [truncInt_rep _ r3, Bool.false_eq_true, ↓reduceIte]
    rw [if_neg (by omega), if_neg (by omega)]
  · rw [roundHalfAway_fin_neg m e (by omega)]
    unfold Rep at r3
    have : e.toNat = 0 := by omega
    rw [this, Nat.pow_zero, Nat.mul_one, Nat.mul_one] at r3
    have hD : 0 < 2 ^ (-e).toNat := by positivity
    rw [r3, Nat.mul_mod_left, Nat.mul_div_cancel _ hD, if_neg (by omega)]
    exact toU32_round_nat V hV

theorem halfaway_q (m D' H : Nat) (hD : 0 < D') (h1 : 2 * H * D' ≤ m + D') (h2 : m + D' < (2 * H + 2) * D') :
    (if 2 * (m % (2 * D')) ≥ 2 * D' then m / (2 * D') + 1 else m / (2 * D')) = H := by
  have hH : (m + D') / (2 * D') = H := by
    apply Nat.div_eq_of_lt_le
    · calc H * (2 * D') = 2 * H * D' := by ring
        _ ≤ _ := h1
    · calc m + D' < (2 * H + 2) * D' := h2
        _ = _ := by ring
  have e1 := Nat.div_add_mod m (2 * D')
  have e2 := Nat.mod_lt m (show 0 < 2 * D' by omega)
  generalize m / (2 * D') = q at *
  generalize m % (2 * D') = r at *
  rw [← hH]
  split
  · symm
    apply Nat.div_eq_of_lt_le
    · rw [Nat.add_mul, Nat.one_mul, Nat.mul_comm q]; omega
    · rw [Nat.add_mul, Nat.add_mul, Nat.one_mul, Nat.mul_comm q]; omega
  · symm
    apply Nat.div_eq_of_lt_le
    · rw [Nat.mul_comm q]; omega
    · rw [Nat.add_mul, Nat.one_mul, Nat.mul_comm q]; omega


theorem parseB (int mc Bc H : Nat) (ec : Int) (hec : ec < 0) (hBc : Bc = 2 ^ (-ec).toNat)
    (hBc' : Bc ≤ 2 ^ 83) (hmc : 0 < mc) (hint : 0 < int) (hint' : int ≤ 2 ^ 53) (hH : H ≤ 4294967295)
    (g0 : int * mc < 2 ^ 20 * Bc)
    (g1 : (2 * H - 1) * Bc ≤ 2 * int * mc)
    (g2 : 2 * int * mc + 2 ^ 52 ≤ (2 * H + 1) * Bc) :
    F64.toU32 (F64.roundHalfAway (F64.mul (F64.ofInt (int : Int)) (F64.fin false mc ec))) = (H : Int) := by
  obtain ⟨m1, e1, h1, _, r1, _⟩ := ofInt_nat_rep int hint'
  have r2 : Rep mc ec mc Bc := by
    unfold Rep
    have : ec.toNat = 0 := by omega
    rw [this, hBc]; ring
  have hBpos : 0 < Bc := by rw [hBc]; positivity
  rw [h1, mul_fin _ _ (by decide) hBpos r1 r2]
  simp only [Nat.one_mul]
  show F64.toU32 (F64.roundHalfAway (F64.round false (int * mc) Bc)) = _
  obtain ⟨m, D, e, h3, h4, h4', h5, _, _, herr⟩ :=
    round_small false (int * mc) Bc 20 (by positivity) hBpos (by decide) g0
  rw [h3, roundHalfAway_fin_neg m e h4]
  obtain ⟨k, hk⟩ : ∃ k, (-e).toNat = k + 1 := ⟨(-e).toNat - 1, by omega⟩
  have hk31 : 31 ≤ k := by omega
  rw [hk, Nat.pow_succ, Nat.mul_comm (2 ^ k) 2]
  rw [hk, Nat.pow_succ, Nat.mul_comm (2 ^ k) 2] at h5
  have hD' : 2 ^ 31 ≤ 2 ^ k := Nat.pow_le_pow_right (by decide) hk31
  generalize 2 ^ k = D' at *
  subst h5
  have hlo : 2 * H * D' ≤ m + D' := by
    have : (2 * H - 1) * D' ≤ m := by
      apply grid_le hBpos herr
      calc (2 * H - 1) * D' * Bc = (2 * H - 1) * Bc * D' := by ring
        _ ≤ 2 * int * mc * D' := Nat.mul_le_mul_right _ g1
        _ = _ := by ring
    rw [Nat.sub_mul, Nat.one_mul] at this
    omega
  have hhi : m + D' < (2 * H + 2) * D' := by
    have : m ≤ (2 * H + 1) * D' - 1 := by
      apply grid_ge hBpos herr
      have a1 : (2 * int * mc + 2 ^ 52) * D' ≤ (2 * H + 1) * Bc * D' := Nat.mul_le_mul_right _ g2
      have a2 : 2 ^ 52 * 2 ^ 31 ≤ 2 ^ 52 * D' := Nat.mul_le_mul_left _ hD'
      have a3 : ((2 * H + 1) * D' - 1) * Bc = (2 * H + 1) * Bc * D' - Bc := by
        rw [Nat.sub_mul, Nat.one_mul]; congr 1; ring
      have a4 : int * mc * (2 * D') = 2 * int * mc * D' := by ring
      rw [a3, a4]
      rw [Nat.add_mul] at a1
      have a5 : (2:Nat) ^ 52 * 2 ^ 31 = 2 ^ 83 := by decide
      omega
    have b1 : (2 * H + 1) * D' = 2 * H * D' + D' := by ring
    have b2 : (2 * H + 2) * D' = 2 * H * D' + 2 * D' := by ring
    rw [b1] at this; rw [b2]
    omega
  rw [halfaway_q m D' H (by omega) hlo hhi]
  exact toU32_round_nat H hH
end SqlDt.Lemmas
