/-
  Lemmas/CalendarP1: kernel evaluation of the round-trip checker `CalCheck.chk` on the days [18432, 36864)
  counted from 0001-01-01: one of 8 chunks covering the 400-year period of 146097 days (the last chunk
  overshoots, harmlessly).  Generated text; 18 blocks of 1024 days, each a single `decide +kernel`.
  Used by Lemmas/Calendar.
-/
import SqlDt.Lemmas.CalendarCheck
namespace SqlDt.Lemmas.CalCheck

theorem chunk1_0 : allRange chk 10 18432 = true := by decide +kernel
theorem chunk1_1 : allRange chk 10 19456 = true := by decide +kernel
theorem chunk1_2 : allRange chk 10 20480 = true := by decide +kernel
theorem chunk1_3 : allRange chk 10 21504 = true := by decide +kernel
theorem chunk1_4 : allRange chk 10 22528 = true := by decide +kernel
theorem chunk1_5 : allRange chk 10 23552 = true := by decide +kernel
theorem chunk1_6 : allRange chk 10 24576 = true := by decide +kernel
theorem chunk1_7 : allRange chk 10 25600 = true := by decide +kernel
theorem chunk1_8 : allRange chk 10 26624 = true := by decide +kernel
theorem chunk1_9 : allRange chk 10 27648 = true := by decide +kernel
theorem chunk1_10 : allRange chk 10 28672 = true := by decide +kernel
theorem chunk1_11 : allRange chk 10 29696 = true := by decide +kernel
theorem chunk1_12 : allRange chk 10 30720 = true := by decide +kernel
theorem chunk1_13 : allRange chk 10 31744 = true := by decide +kernel
theorem chunk1_14 : allRange chk 10 32768 = true := by decide +kernel
theorem chunk1_15 : allRange chk 10 33792 = true := by decide +kernel
theorem chunk1_16 : allRange chk 10 34816 = true := by decide +kernel
theorem chunk1_17 : allRange chk 10 35840 = true := by decide +kernel

theorem chunk1 (n : Nat) (h1 : 18432 ≤ n) (h2 : n < 36864) : chk n = true := by
  have s := allRange_sound chk 10
  by_cases c0 : n < 19456
  · exact s _ chunk1_0 n (by omega) (by omega)
  by_cases c1 : n < 20480
  · exact s _ chunk1_1 n (by omega) (by omega)
  by_cases c2 : n < 21504
  · exact s _ chunk1_2 n (by omega) (by omega)
  by_cases c3 : n < 22528
  · exact s _ chunk1_3 n (by omega) (by omega)
  by_cases c4 : n < 23552
  · exact s _ chunk1_4 n (by omega) (by omega)
  by_cases c5 : n < 24576
  · exact s _ chunk1_5 n (by omega) (by omega)
  by_cases c6 : n < 25600
  · exact s _ chunk1_6 n (by omega) (by omega)
  by_cases c7 : n < 26624
  · exact s _ chunk1_7 n (by omega) (by omega)
  by_cases c8 : n < 27648
  · exact s _ chunk1_8 n (by omega) (by omega)
  by_cases c9 : n < 28672
  · exact s _ chunk1_9 n (by omega) (by omega)
  by_cases c10 : n < 29696
  · exact s _ chunk1_10 n (by omega) (by omega)
  by_cases c11 : n < 30720
  · exact s _ chunk1_11 n (by omega) (by omega)
  by_cases c12 : n < 31744
  · exact s _ chunk1_12 n (by omega) (by omega)
  by_cases c13 : n < 32768
  · exact s _ chunk1_13 n (by omega) (by omega)
  by_cases c14 : n < 33792
  · exact s _ chunk1_14 n (by omega) (by omega)
  by_cases c15 : n < 34816
  · exact s _ chunk1_15 n (by omega) (by omega)
  by_cases c16 : n < 35840
  · exact s _ chunk1_16 n (by omega) (by omega)
  exact s _ chunk1_17 n (by omega) (by omega)

end SqlDt.Lemmas.CalCheck
