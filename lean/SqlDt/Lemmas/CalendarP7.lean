/-
  Lemmas/CalendarP7: kernel evaluation of the round-trip checker `CalCheck.chk` on the days [129024, 147456)
  counted from 0001-01-01: one of 8 chunks covering the 400-year period of 146097 days (the last chunk
  overshoots, harmlessly).  Generated text; 18 blocks of 1024 days, each a single `decide +kernel`.
  Used by Lemmas/Calendar.
-/
import SqlDt.Lemmas.CalendarCheck
namespace SqlDt.Lemmas.CalCheck

theorem chunk7_0 : allRange chk 10 129024 = true := by decide +kernel
theorem chunk7_1 : allRange chk 10 130048 = true := by decide +kernel
theorem chunk7_2 : allRange chk 10 131072 = true := by decide +kernel
theorem chunk7_3 : allRange chk 10 132096 = true := by decide +kernel
theorem chunk7_4 : allRange chk 10 133120 = true := by decide +kernel
theorem chunk7_5 : allRange chk 10 134144 = true := by decide +kernel
theorem chunk7_6 : allRange chk 10 135168 = true := by decide +kernel
theorem chunk7_7 : allRange chk 10 136192 = true := by decide +kernel
theorem chunk7_8 : allRange chk 10 137216 = true := by decide +kernel
theorem chunk7_9 : allRange chk 10 138240 = true := by decide +kernel
theorem chunk7_10 : allRange chk 10 139264 = true := by decide +kernel
theorem chunk7_11 : allRange chk 10 140288 = true := by decide +kernel
theorem chunk7_12 : allRange chk 10 141312 = true := by decide +kernel
theorem chunk7_13 : allRange chk 10 142336 = true := by decide +kernel
theorem chunk7_14 : allRange chk 10 143360 = true := by decide +kernel
theorem chunk7_15 : allRange chk 10 144384 = true := by decide +kernel
theorem chunk7_16 : allRange chk 10 145408 = true := by decide +kernel
theorem chunk7_17 : allRange chk 10 146432 = true := by decide +kernel

theorem chunk7 (n : Nat) (h1 : 129024 ≤ n) (h2 : n < 147456) : chk n = true := by
  have s := allRange_sound chk 10
  by_cases c0 : n < 130048
  · exact s _ chunk7_0 n (by omega) (by omega)
  by_cases c1 : n < 131072
  · exact s _ chunk7_1 n (by omega) (by omega)
  by_cases c2 : n < 132096
  · exact s _ chunk7_2 n (by omega) (by omega)
  by_cases c3 : n < 133120
  · exact s _ chunk7_3 n (by omega) (by omega)
  by_cases c4 : n < 134144
  · exact s _ chunk7_4 n (by omega) (by omega)
  by_cases c5 : n < 135168
  · exact s _ chunk7_5 n (by omega) (by omega)
  by_cases c6 : n < 136192
  · exact s _ chunk7_6 n (by omega) (by omega)
  by_cases c7 : n < 137216
  · exact s _ chunk7_7 n (by omega) (by omega)
  by_cases c8 : n < 138240
  · exact s _ chunk7_8 n (by omega) (by omega)
  by_cases c9 : n < 139264
  · exact s _ chunk7_9 n (by omega) (by omega)
  by_cases c10 : n < 140288
  · exact s _ chunk7_10 n (by omega) (by omega)
  by_cases c11 : n < 141312
  · exact s _ chunk7_11 n (by omega) (by omega)
  by_cases c12 : n < 142336
  · exact s _ chunk7_12 n (by omega) (by omega)
  by_cases c13 : n < 143360
  · exact s _ chunk7_13 n (by omega) (by omega)
  by_cases c14 : n < 144384
  · exact s _ chunk7_14 n (by omega) (by omega)
  by_cases c15 : n < 145408
  · exact s _ chunk7_15 n (by omega) (by omega)
  by_cases c16 : n < 146432
  · exact s _ chunk7_16 n (by omega) (by omega)
  exact s _ chunk7_17 n (by omega) (by omega)

end SqlDt.Lemmas.CalCheck
