/-
  Lemmas/CalendarP5: kernel evaluation of the round-trip checker `CalCheck.chk` on the days [92160, 110592)
  counted from 0001-01-01: one of 8 chunks covering the 400-year period of 146097 days (the last chunk
  overshoots, harmlessly).  Generated text; 18 blocks of 1024 days, each a single `decide +kernel`.
  Used by Lemmas/Calendar.
-/
import SqlDt.Lemmas.CalendarCheck
namespace SqlDt.Lemmas.CalCheck

theorem chunk5_0 : allRange chk 10 92160 = true := by decide +kernel
theorem chunk5_1 : allRange chk 10 93184 = true := by decide +kernel
theorem chunk5_2 : allRange chk 10 94208 = true := by decide +kernel
theorem chunk5_3 : allRange chk 10 95232 = true := by decide +kernel
theorem chunk5_4 : allRange chk 10 96256 = true := by decide +kernel
theorem chunk5_5 : allRange chk 10 97280 = true := by decide +kernel
theorem chunk5_6 : allRange chk 10 98304 = true := by decide +kernel
theorem chunk5_7 : allRange chk 10 99328 = true := by decide +kernel
theorem chunk5_8 : allRange chk 10 100352 = true := by decide +kernel
theorem chunk5_9 : allRange chk 10 101376 = true := by decide +kernel
theorem chunk5_10 : allRange chk 10 102400 = true := by decide +kernel
theorem chunk5_11 : allRange chk 10 103424 = true := by decide +kernel
theorem chunk5_12 : allRange chk 10 104448 = true := by decide +kernel
theorem chunk5_13 : allRange chk 10 105472 = true := by decide +kernel
theorem chunk5_14 : allRange chk 10 106496 = true := by decide +kernel
theorem chunk5_15 : allRange chk 10 107520 = true := by decide +kernel
theorem chunk5_16 : allRange chk 10 108544 = true := by decide +kernel
theorem chunk5_17 : allRange chk 10 109568 = true := by decide +kernel

theorem chunk5 (n : Nat) (h1 : 92160 ≤ n) (h2 : n < 110592) : chk n = true := by
  have s := allRange_sound chk 10
  by_cases c0 : n < 93184
  · exact s _ chunk5_0 n (by omega) (by omega)
  by_cases c1 : n < 94208
  · exact s _ chunk5_1 n (by omega) (by omega)
  by_cases c2 : n < 95232
  · exact s _ chunk5_2 n (by omega) (by omega)
  by_cases c3 : n < 96256
  · exact s _ chunk5_3 n (by omega) (by omega)
  by_cases c4 : n < 97280
  · exact s _ chunk5_4 n (by omega) (by omega)
  by_cases c5 : n < 98304
  · exact s _ chunk5_5 n (by omega) (by omega)
  by_cases c6 : n < 99328
  · exact s _ chunk5_6 n (by omega) (by omega)
  by_cases c7 : n < 100352
  · exact s _ chunk5_7 n (by omega) (by omega)
  by_cases c8 : n < 101376
  · exact s _ chunk5_8 n (by omega) (by omega)
  by_cases c9 : n < 102400
  · exact s _ chunk5_9 n (by omega) (by omega)
  by_cases c10 : n < 103424
  · exact s _ chunk5_10 n (by omega) (by omega)
  by_cases c11 : n < 104448
  · exact s _ chunk5_11 n (by omega) (by omega)
  by_cases c12 : n < 105472
  · exact s _ chunk5_12 n (by omega) (by omega)
  by_cases c13 : n < 106496
  · exact s _ chunk5_13 n (by omega) (by omega)
  by_cases c14 : n < 107520
  · exact s _ chunk5_14 n (by omega) (by omega)
  by_cases c15 : n < 108544
  · exact s _ chunk5_15 n (by omega) (by omega)
  by_cases c16 : n < 109568
  · exact s _ chunk5_16 n (by omega) (by omega)
  exact s _ chunk5_17 n (by omega) (by omega)

end SqlDt.Lemmas.CalCheck
