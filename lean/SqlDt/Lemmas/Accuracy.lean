/-
  Lemmas/Accuracy: the soft-float (Model/F64) seen through exact rational arithmetic.
  * `F64.val`   : the rational value `±m·2^e` of a finite double (0 for NaN/∞),
  * `truncQ`    : truncation toward zero of a rational, `roundHalfAwayQ`: nearest integer, ties away from zero,
  * item 1      : the saturating cast `toIntSat` is `clamp lo hi (truncQ (val x))`,
  * item 2      : one rounding (`roundPos`) over ℚ: half-ulp bound, relative bound `u' = 2^-53/(1+2^-53)` in the
                  normal range, exponent brackets.
  Continued in AccuracyRound (rounding of `round`/`mul`/`div`/`ofInt`), AccuracyC14, AccuracyC08, AccuracyMain.
-/
import Mathlib.Tactic.Ring
import Mathlib.Tactic.Linarith
import Mathlib.Tactic.Positivity
import Mathlib.Tactic.NormNum
import Mathlib.Tactic.FieldSimp
import Mathlib.Algebra.Order.Field.Basic
import Mathlib.Data.Rat.Floor
import SqlDt.Lemmas.FloatUse

namespace SqlDt

/-- `-1` for a set sign bit, `+1` otherwise. -/
def F64.sgn (b : Bool) : ℚ := if b then -1 else 1

/-- The rational value of a double: `±m·2^e` for a finite one, `0` for NaN and the infinities. -/
def F64.val : F64 → ℚ
  | .nan => 0
  | .inf _ => 0
  | .fin s m e => F64.sgn s * ((m : ℚ) * 2 ^ e)

/-- One rounding's relative error bound, `u' = 2^-53 / (1 + 2^-53) = 1/(2^53+1)`. -/
def F64.u' : ℚ := 2 ^ (-53 : Int) / (1 + 2 ^ (-53 : Int))

/-- Truncation of a rational toward zero. -/
def truncQ (q : ℚ) : Int := if 0 ≤ q then ⌊q⌋ else -⌊-q⌋

/-- Nearest integer to a rational, ties away from zero. -/
def roundHalfAwayQ (q : ℚ) : Int := if 0 ≤ q then ⌊q + 1 / 2⌋ else -⌊-q + 1 / 2⌋

/-- Saturation of an integer into `[lo, hi]`. -/
def clamp (lo hi t : Int) : Int := if t < lo then lo else if t > hi then hi else t

namespace Lemmas
open SqlDt

/-! ### signs, powers of two -/

theorem sgn_abs (s : Bool) : |F64.sgn s| = 1 := by cases s <;> simp [F64.sgn]

theorem sgn_mul_self (s : Bool) : F64.sgn s * F64.sgn s = 1 := by cases s <;> simp [F64.sgn]

theorem sgn_bne (s t : Bool) : F64.sgn (s != t) = F64.sgn s * F64.sgn t := by
  cases s <;> cases t <;> simp [F64.sgn]

theorem sgn_decide (v : Int) : F64.sgn (decide (v < 0)) * (v.natAbs : ℚ) = (v : ℚ) := by
  rw [Nat.cast_natAbs, Int.cast_abs]
  by_cases h : v < 0
  · rw [decide_eq_true h, abs_of_neg (by exact_mod_cast h)]; simp [F64.sgn]
  · rw [decide_eq_false h, abs_of_nonneg (by exact_mod_cast (by omega : 0 ≤ v))]; simp [F64.sgn]

theorem abs_sgn_mul (s : Bool) (x : ℚ) : |F64.sgn s * x| = |x| := by rw [abs_mul, sgn_abs, one_mul]

theorem u'_eq : F64.u' = 1 / 9007199254740993 := by unfold F64.u'; norm_num

theorem zpow_split (e : Int) : (2 : ℚ) ^ e = (2 : ℚ) ^ e.toNat / (2 : ℚ) ^ (-e).toNat := by
  rcases le_total 0 e with h | h
  · have h0 : (-e).toNat = 0 := by omega
    rw [h0, pow_zero, div_one, ← zpow_natCast, Int.toNat_of_nonneg h]
  · have h0 : e.toNat = 0 := by omega
    rw [h0, pow_zero, one_div, ← zpow_natCast, Int.toNat_of_nonneg (by omega), ← zpow_neg, neg_neg]

theorem two_zpow_pos (e : Int) : (0 : ℚ) < 2 ^ e := zpow_pos (by norm_num) e

theorem two_zpow_le {a b : Int} (h : a ≤ b) : (2 : ℚ) ^ a ≤ 2 ^ b := zpow_le_zpow_right₀ (by norm_num) h

theorem two_zpow_lt {a b : Int} (h : a < b) : (2 : ℚ) ^ a < 2 ^ b := zpow_lt_zpow_right₀ (by norm_num) h

theorem two_zpow_lt_iff {a b : Int} : (2 : ℚ) ^ a < 2 ^ b ↔ a < b := zpow_lt_zpow_iff_right₀ (by norm_num)

theorem two_zpow_succ (e : Int) : (2 : ℚ) ^ (e + 1) = 2 * 2 ^ e := by
  rw [zpow_add₀ (by norm_num), zpow_one]; ring

theorem two_zpow_pred (e : Int) : (2 : ℚ) ^ (e - 1) = 2 ^ e / 2 := by
  rw [zpow_sub₀ (by norm_num), zpow_one]

theorem val_fin_abs (s : Bool) (m : Nat) (e : Int) : |F64.val (.fin s m e)| = (m : ℚ) * 2 ^ e := by
  unfold F64.val
  rw [abs_sgn_mul, abs_of_nonneg]
  have := two_zpow_pos e
  positivity

/-! ### truncation and rounding of rationals -/

theorem truncQ_neg (q : ℚ) : truncQ (-q) = -truncQ q := by
  unfold truncQ
  rcases lt_trichotomy q 0 with h | h | h
  · rw [if_pos (by linarith), if_neg (by linarith)]; simp
  · subst h; simp
  · rw [if_neg (by linarith), if_pos (by linarith)]; simp

theorem roundHalfAwayQ_neg (q : ℚ) : roundHalfAwayQ (-q) = -roundHalfAwayQ q := by
  unfold roundHalfAwayQ
  rcases lt_trichotomy q 0 with h | h | h
  · rw [if_pos (by linarith), if_neg (by linarith)]; simp
  · subst h; norm_num
  · rw [if_neg (by linarith), if_pos (by linarith)]; simp

theorem truncQ_sgn (s : Bool) (q : ℚ) : truncQ (F64.sgn s * q) = if s then -truncQ q else truncQ q := by
  cases s
  · simp [F64.sgn]
  · simp only [F64.sgn, if_true]; rw [neg_one_mul, truncQ_neg]

theorem roundHalfAwayQ_sgn (s : Bool) (q : ℚ) :
    roundHalfAwayQ (F64.sgn s * q) = if s then -roundHalfAwayQ q else roundHalfAwayQ q := by
  cases s
  · simp [F64.sgn]
  · simp only [F64.sgn, if_true]; rw [neg_one_mul, roundHalfAwayQ_neg]

theorem truncQ_natCast (n : Nat) : truncQ (n : ℚ) = n := by
  unfold truncQ; rw [if_pos (by positivity)]; exact Int.floor_natCast n

theorem truncQ_intCast (n : Int) : truncQ (n : ℚ) = n := by
  rcases le_total 0 n with h | h
  · unfold truncQ; rw [if_pos (by exact_mod_cast h)]; exact Int.floor_intCast n
  · have : (n : ℚ) = -((-n : Int) : ℚ) := by push_cast; ring
    rw [this, truncQ_neg]
    unfold truncQ; rw [if_pos (by exact_mod_cast (by omega : 0 ≤ -n)), Int.floor_intCast]; omega

theorem roundHalfAwayQ_intCast (n : Int) : roundHalfAwayQ (n : ℚ) = n := by
  have key : ∀ k : Int, 0 ≤ k → roundHalfAwayQ (k : ℚ) = k := by
    intro k hk
    unfold roundHalfAwayQ; rw [if_pos (by exact_mod_cast hk), Int.floor_eq_iff]
    constructor <;> linarith
  rcases le_total 0 n with h | h
  · exact key n h
  · have : (n : ℚ) = -((-n : Int) : ℚ) := by push_cast; ring
    rw [this, roundHalfAwayQ_neg, key (-n) (by omega)]; omega

/-- small values truncate to zero -/
theorem truncQ_small (q : ℚ) (h : |q| < 1) : truncQ q = 0 := by
  rw [abs_lt] at h
  unfold truncQ
  split
  · rw [Int.floor_eq_iff]; constructor <;> push_cast <;> linarith
  · rw [neg_eq_zero, Int.floor_eq_iff]; constructor <;> push_cast <;> linarith

theorem roundHalfAwayQ_small (q : ℚ) (h : |q| < 1 / 2) : roundHalfAwayQ q = 0 := by
  rw [abs_lt] at h
  unfold roundHalfAwayQ
  split
  · rw [Int.floor_eq_iff]; constructor <;> push_cast <;> linarith
  · rw [neg_eq_zero, Int.floor_eq_iff]; constructor <;> push_cast <;> linarith

/-- `|truncQ q| ≤ |q| < |truncQ q| + 1` -/
theorem truncQ_abs (q : ℚ) : ((|truncQ q| : Int) : ℚ) ≤ |q| ∧ |q| < ((|truncQ q| : Int) : ℚ) + 1 := by
  have key : ∀ x : ℚ, 0 ≤ x → ((|truncQ x| : Int) : ℚ) ≤ |x| ∧ |x| < ((|truncQ x| : Int) : ℚ) + 1 := by
    intro x hx
    unfold truncQ; rw [if_pos hx, abs_of_nonneg hx, abs_of_nonneg (Int.floor_nonneg.mpr hx)]
    exact ⟨Int.floor_le x, Int.lt_floor_add_one x⟩
  rcases le_total 0 q with h | h
  · exact key q h
  · have := key (-q) (by linarith)
    rwa [truncQ_neg, abs_neg, abs_neg] at this

/-- the nearest integer is within one half -/
theorem roundHalfAwayQ_err (q : ℚ) : |((roundHalfAwayQ q : Int) : ℚ) - q| ≤ 1 / 2 := by
  have key : ∀ x : ℚ, 0 ≤ x → |((roundHalfAwayQ x : Int) : ℚ) - x| ≤ 1 / 2 := by
    intro x hx
    unfold roundHalfAwayQ; rw [if_pos hx, abs_le]
    have h1 := Int.floor_le (x + 1 / 2)
    have h2 := Int.lt_floor_add_one (x + 1 / 2)
    constructor <;> linarith
  rcases le_total 0 q with h | h
  · exact key q h
  · have := key (-q) (by linarith)
    rw [roundHalfAwayQ_neg] at this
    rw [← abs_neg]; convert this using 2; push_cast; ring

/-! ### item 1: the value of the cast -/

theorem floor_mag (m : Nat) (e : Int) :
    ⌊(m : ℚ) * 2 ^ e⌋ = ((if e ≥ 0 then m * F64.pow2 e.toNat else m / F64.pow2 (-e).toNat : Nat) : Int) := by
  simp only [pow2_eq]
  by_cases he : e ≥ 0
  · rw [if_pos he]
    have h0 : (-e).toNat = 0 := by omega
    rw [zpow_split, h0, pow_zero, div_one]
    have : (m : ℚ) * 2 ^ e.toNat = ((m * 2 ^ e.toNat : Nat) : ℚ) := by push_cast; ring
    rw [this, Int.floor_natCast]
  · rw [if_neg he]
    have h0 : e.toNat = 0 := by omega
    rw [zpow_split, h0, pow_zero]
    have : (m : ℚ) * (1 / 2 ^ (-e).toNat) = ((m : Int) : ℚ) / ((2 ^ (-e).toNat : Nat) : ℚ) := by push_cast; ring
    rw [this, Rat.floor_intCast_div_natCast]
    push_cast; rfl

/-- The integer part used by the casts is the truncation toward zero of the exact value. -/
theorem truncInt_eq (s : Bool) (m : Nat) (e : Int) : F64.truncInt s m e = truncQ (F64.val (.fin s m e)) := by
  unfold F64.truncInt F64.val
  rw [truncQ_sgn]
  have hnn : (0 : ℚ) ≤ (m : ℚ) * 2 ^ e := by have := two_zpow_pos e; positivity
  have : truncQ ((m : ℚ) * 2 ^ e) = ⌊(m : ℚ) * 2 ^ e⌋ := by unfold truncQ; rw [if_pos hnn]
  rw [this, floor_mag]
  simp only [Int.ofNat_eq_natCast]

/-- **Item 1.** `x as iN` for a finite double: truncate the exact value toward zero, then saturate.
    (Holds for every `lo`, `hi`; the crate uses `lo ≤ 0 ≤ hi`.) -/
theorem toIntSat_fin (lo hi : Int) (s : Bool) (m : Nat) (e : Int) :
    F64.toIntSat lo hi (.fin s m e) = clamp lo hi (truncQ (F64.val (.fin s m e))) := by
  unfold F64.toIntSat clamp
  simp only [truncInt_eq]

theorem toI64_fin (s : Bool) (m : Nat) (e : Int) :
    F64.toI64 (.fin s m e) = clamp I64_MIN I64_MAX (truncQ (F64.val (.fin s m e))) := toIntSat_fin _ _ s m e

theorem toI32_fin (s : Bool) (m : Nat) (e : Int) :
    F64.toI32 (.fin s m e) = clamp I32_MIN I32_MAX (truncQ (F64.val (.fin s m e))) := toIntSat_fin _ _ s m e

/-! ### item 2: one rounding over ℚ -/

/-- the integer error term of `roundPos_spec'` as a rational -/
theorem err_cast (m num den : Nat) (e : Int) (hd : 0 < den) :
    (((((m * 2 ^ e.toNat * den : Nat) : Int) - ((num * 2 ^ (-e).toNat : Nat) : Int)).natAbs : Nat) : ℚ) =
      |(m : ℚ) * 2 ^ e - (num : ℚ) / den| * ((2 : ℚ) ^ (-e).toNat * den) := by
  have hQ : (0 : ℚ) < (2 : ℚ) ^ (-e).toNat * den := by positivity
  have hE : ∀ A : ℚ, |A| * ((2 : ℚ) ^ (-e).toNat * den) = |A * ((2 : ℚ) ^ (-e).toNat * den)| := by
    intro A; rw [abs_mul, abs_of_pos hQ]
  rw [Nat.cast_natAbs, Int.cast_abs, hE]
  congr 1
  have hden : (den : ℚ) ≠ 0 := by positivity
  rw [zpow_split]
  push_cast
  field_simp

/-- **Item 2a (half-ulp).** The rounded `m·2^e` is within half a unit in the last place of `num/den`. -/
theorem roundPos_half_ulp (num den m : Nat) (e : Int) (hn : 0 < num) (hd : 0 < den)
    (h : F64.roundPos num den = some (m, e)) :
    |(m : ℚ) * 2 ^ e - (num : ℚ) / den| ≤ 2 ^ (e - 1) := by
  obtain ⟨_, _, _, _, hs⟩ := roundPos_spec' num den m e hn hd h
  have hs' : ((2 * (((m * 2 ^ e.toNat * den : Nat) : Int) - ((num * 2 ^ (-e).toNat : Nat) : Int)).natAbs : Nat) : ℚ)
      ≤ ((2 ^ e.toNat * den : Nat) : ℚ) := by exact_mod_cast hs
  rw [Nat.cast_mul, err_cast m num den e hd] at hs'
  push_cast at hs'
  generalize |(m : ℚ) * 2 ^ e - (num : ℚ) / den| = E at *
  rw [two_zpow_pred, zpow_split]
  have hQ : (0 : ℚ) < (2 : ℚ) ^ (-e).toNat := by positivity
  have hD : (0 : ℚ) < den := by exact_mod_cast hd
  rw [div_div, le_div_iff₀ (by positivity)]
  have : E * ((2 : ℚ) ^ (-e).toNat * 2) * den ≤ 2 ^ e.toNat * den := by linarith
  exact le_of_mul_le_mul_right this hD

/-- canonical shape of a rounding result, over ℚ -/
theorem roundPos_canonQ (num den m : Nat) (e : Int) (hn : 0 < num) (hd : 0 < den)
    (h : F64.roundPos num den = some (m, e)) :
    (m : ℚ) + 1 ≤ 2 ^ 53 ∧ F64.EMIN ≤ e ∧ e ≤ F64.EMAX ∧ ((2 : ℚ) ^ 52 ≤ m ∨ e = F64.EMIN) := by
  obtain ⟨h1, h2, h3, h4, _⟩ := roundPos_spec' num den m e hn hd h
  refine ⟨by exact_mod_cast (by omega : m + 1 ≤ 2 ^ 53), h2, h3, ?_⟩
  rcases h4 with h4 | h4
  · left; exact_mod_cast h4
  · right; exact h4

/-- exponent bracket, lower side: a value of at least `2^j` gets exponent at least `j − 52`. -/
theorem roundPos_exp_ge (num den m : Nat) (e : Int) (hn : 0 < num) (hd : 0 < den)
    (h : F64.roundPos num den = some (m, e)) (j : Int) (hx : (2 : ℚ) ^ j ≤ (num : ℚ) / den) : j - 52 ≤ e := by
  have hu := roundPos_half_ulp num den m e hn hd h
  obtain ⟨hm, _, _, _⟩ := roundPos_canonQ num den m e hn hd h
  rw [two_zpow_pred, abs_le] at hu
  have hX := two_zpow_pos e
  have h53 : (2 : ℚ) ^ (e + 53) = 2 ^ 53 * 2 ^ e := by
    rw [zpow_add₀ (by norm_num)]; norm_num; ring
  have hmX : ((m : ℚ) + 1) * 2 ^ e ≤ 2 ^ 53 * 2 ^ e := mul_le_mul_of_nonneg_right hm hX.le
  have hlt : (2 : ℚ) ^ j < 2 ^ (e + 53) := by rw [h53]; nlinarith [hu.1, hu.2]
  have := two_zpow_lt_iff.mp hlt
  omega

/-- exponent bracket, upper side: a value below `2^j` (`j ≥ −1022`) gets exponent at most `j − 52`. -/
theorem roundPos_exp_le (num den m : Nat) (e : Int) (hn : 0 < num) (hd : 0 < den)
    (h : F64.roundPos num den = some (m, e)) (j : Int) (hj : F64.EMIN + 52 ≤ j)
    (hx : (num : ℚ) / den < 2 ^ j) : e ≤ j - 52 := by
  have hu := roundPos_half_ulp num den m e hn hd h
  obtain ⟨_, _, _, hc⟩ := roundPos_canonQ num den m e hn hd h
  by_contra hgt
  have hm : (2 : ℚ) ^ 52 ≤ m := by rcases hc with hc | hc; exact hc; omega
  rw [two_zpow_pred, abs_le] at hu
  have hX := two_zpow_pos e
  have h51 : (2 : ℚ) ^ (e + 51) = 2 ^ 51 * 2 ^ e := by
    rw [zpow_add₀ (by norm_num)]; norm_num; ring
  have hmX : (2 : ℚ) ^ 52 * 2 ^ e ≤ (m : ℚ) * 2 ^ e := mul_le_mul_of_nonneg_right hm hX.le
  have hle : (2 : ℚ) ^ j ≤ 2 ^ (e + 51) := two_zpow_le (by omega)
  rw [h51] at hle
  nlinarith [hu.1, hu.2]

/-- **Item 2b (relative error).** In the normal range (result exponent above the minimum, or exact value at least
    `2^-1022`) one rounding has relative error at most `u' = 2^-53/(1+2^-53)`.
    Below `2^-1022` this fails: `(2^53 − 1)/2^1075` rounds to `2^-1022`, relative error `1/(2^53 − 1) > u'`. -/
theorem roundPos_relQ (num den m : Nat) (e : Int) (hn : 0 < num) (hd : 0 < den)
    (h : F64.roundPos num den = some (m, e))
    (hnorm : F64.EMIN < e ∨ (2 : ℚ) ^ (-1022 : Int) ≤ (num : ℚ) / den) :
    |(m : ℚ) * 2 ^ e - (num : ℚ) / den| ≤ F64.u' * ((num : ℚ) / den) := by
  rw [u'_eq]
  obtain ⟨hm1, he1, _, hc⟩ := roundPos_canonQ num den m e hn hd h
  by_cases he : F64.EMIN < e
  · have hm : F64.P52 ≤ m := by
      obtain ⟨_, _, _, h4, _⟩ := roundPos_spec' num den m e hn hd h
      rw [P52_eq]; rcases h4 with h4 | h4; exact h4; omega
    have hr := F64.roundPos_rel num den m e hn hd h hm he
    simp only [pow2_eq] at hr
    have hr' : ((9007199254740993 * (((m * 2 ^ e.toNat * den : Nat) : Int) -
        ((num * 2 ^ (-e).toNat : Nat) : Int)).natAbs : Nat) : ℚ) ≤ ((num * 2 ^ (-e).toNat : Nat) : ℚ) := by
      exact_mod_cast hr
    rw [Nat.cast_mul, err_cast m num den e hd] at hr'
    push_cast at hr'
    generalize |(m : ℚ) * 2 ^ e - (num : ℚ) / den| = E at *
    have hQ : (0 : ℚ) < (2 : ℚ) ^ (-e).toNat := by positivity
    have hD : (0 : ℚ) < den := by exact_mod_cast hd
    rw [one_div, inv_mul_eq_div, le_div_iff₀ (by norm_num), le_div_iff₀ hD]
    have : E * 9007199254740993 * den * 2 ^ (-e).toNat ≤ num * 2 ^ (-e).toNat := by linarith
    exact le_of_mul_le_mul_right this hQ
  · have hx : (2 : ℚ) ^ (-1022 : Int) ≤ (num : ℚ) / den := by rcases hnorm with h1 | h1; exact absurd h1 he; exact h1
    have hE : e = -1074 := by have : F64.EMIN = -1074 := rfl; omega
    have hu := roundPos_half_ulp num den m e hn hd h
    rw [two_zpow_pred] at hu
    have hX := two_zpow_pos e
    have h52 : (2 : ℚ) ^ (-1022 : Int) = 2 ^ 52 * 2 ^ e := by
      rw [hE, show (-1022 : Int) = 52 + -1074 by norm_num, zpow_add₀ (by norm_num)]; norm_num
    rw [h52] at hx
    generalize (num : ℚ) / den = x at *
    generalize (2 : ℚ) ^ e = X at *
    -- m ≥ 2^52
    have hmge : 2 ^ 52 ≤ m := by
      by_contra hlt
      have : (m : ℚ) + 1 ≤ 2 ^ 52 := by exact_mod_cast (by omega : m + 1 ≤ 2 ^ 52)
      have := mul_le_mul_of_nonneg_right this hX.le
      rw [abs_le] at hu; nlinarith [hu.1]
    have hmq : (2 : ℚ) ^ 52 ≤ m := by exact_mod_cast hmge
    have hmX := mul_le_mul_of_nonneg_right hmq hX.le
    rw [one_div, inv_mul_eq_div, le_div_iff₀ (by norm_num)]
    rcases le_or_gt ((m : ℚ) * X) x with hle | hgt
    · rw [abs_of_nonpos (by linarith)] at hu ⊢
      nlinarith
    · have hm1 : 2 ^ 52 + 1 ≤ m := by
        by_contra hlt
        have : m = 2 ^ 52 := by omega
        rw [this] at hgt; push_cast at hgt; linarith
      have hmq1 : (2 : ℚ) ^ 52 + 1 ≤ m := by exact_mod_cast hm1
      have := mul_le_mul_of_nonneg_right hmq1 hX.le
      rw [abs_of_pos (by linarith)] at hu ⊢
      nlinarith

end Lemmas
end SqlDt
