/-
  Lemmas/Munch: the crate's picture lexer (Model/Lexer) equals the generic maximal-munch tokenizer
  over the documented token table (Spec/Munch).
-/
import SqlDt.Spec.Munch
namespace SqlDt.Lemmas
open SqlDt Gen Spec

/-- `countLeading 32` of `n` blanks followed by something that does not start with a blank is `n`. -/
theorem countLeading_replicate (n : Nat) (rest : Bytes) (h : rest.head? ≠ some 32) :
    countLeading 32 (List.replicate n 32 ++ rest) = n := by
  induction n with
  | zero =>
    cases rest with
    | nil => rfl
    | cons a t =>
      have : a ≠ 32 := by simpa using h
      simp [countLeading, this]
  | succ n ih => simp [List.replicate_succ, countLeading, ih]

/-- The spec's blank-run length (`takeWhile`) and the model's (`countLeading`) agree on every list. -/
theorem takeWhile_blank (s : Bytes) : (s.takeWhile (· == 32)).length = countLeading 32 s := by
  induction s with
  | nil => rfl
  | cons a t ih =>
    by_cases h : a = 32
    · simp [countLeading, h, ih]
    · simp [countLeading, h]

/-- First-token agreement on the blank branch. -/
theorem next_blank (rest : Bytes) : Lexer.nextNorm (32 :: rest) = munchNext (32 :: rest) := by
  simp [Lexer.nextNorm, Lexer.next, munchNext, B, List.takeWhile, takeWhile_blank]

/-- First-token agreement, for EVERY byte string.
    OPEN, and FALSE as stated: `decide` proves
    `Lexer.nextNorm [102,102,48] ≠ munchNext [102,102,48]` (picture `ff0`; likewise `FF0`, `Ff0`, `fF0`
    followed by anything).  The model's `parseFraction` answers `Invalid` for `ff` + digit `0`, the table's
    longest match is `ff` (`Fraction none`, rest `0…`). -/
theorem next_eq_munchNext (s : Bytes) : Lexer.nextNorm s = munchNext s := by
  sorry

/-- `Formatter::try_new` = maximal munch over the documented table, for every byte string.
    OPEN (believed true: after `ff` the spec fails on the `0` at the next step, so both sides reject;
    it cannot be derived from `next_eq_munchNext`, which is false at `ff0`). -/
theorem tryNew_eq_munch (pic : Bytes) : Lexer.tryNew pic = munch pic := by
  sorry

/-- A run of blanks of any length is one token of exactly that length. -/
theorem blank_run (n : Nat) (rest : Bytes) (h : rest.head? ≠ some 32) :
    Lexer.next (List.replicate (n + 1) 32 ++ rest) = some (.Blank (n + 1), rest) := by
  simp only [List.replicate_succ, List.cons_append, Lexer.next]
  have hB : B ' ' = 32 := by decide
  simp [hB, countLeading_replicate n rest h]

end SqlDt.Lemmas
