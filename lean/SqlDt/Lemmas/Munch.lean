/-
  Lemmas/Munch: the crate's picture lexer (Model/Lexer) equals the generic maximal-munch tokenizer
  over the documented token table (Spec/Munch).

  First-token agreement holds for every byte string except those starting with `ff0` (any letter case):
  there the crate answers `Invalid` at once, while maximal munch takes `ff` and fails one step later on `0`.
  Whole-picture agreement (`tryNew_eq_munch`) holds without exception.
-/
import SqlDt.Spec.Munch
namespace SqlDt.Lemmas
open SqlDt Gen Spec
set_option linter.unusedSimpArgs false

/-! ## Blank runs -/

/-- `countLeading 32` of `n` blanks followed by something that does not start with a blank is `n`. -/
theorem countLeading_replicate (n : Nat) (rest : Bytes) (h : rest.head? ≠ some 32) :
    countLeading 32 (List.replicate n 32 ++ rest) = n := by
  induction n with
  | zero =>
    cases rest with
    | nil => rfl
    | cons a t =>
      have : a ≠ 32 := by simpa using h
      simp [countLeading, this]
  | succ n ih => simp [List.replicate_succ, countLeading, ih]

/-- The spec's blank-run length (`takeWhile`) and the model's (`countLeading`) agree on every list. -/
theorem takeWhile_blank (s : Bytes) : (s.takeWhile (· == 32)).length = countLeading 32 s := by
  induction s with
  | nil => rfl
  | cons a t ih =>
    by_cases h : a = 32
    · simp [countLeading, h, ih]
    · simp [countLeading, h]

/-- First-token agreement on the blank branch. -/
theorem next_blank (rest : Bytes) : Lexer.nextNorm (32 :: rest) = munchNext (32 :: rest) := by
  simp [Lexer.nextNorm, Lexer.next, munchNext, B, List.takeWhile, takeWhile_blank]

/-! ## The token table in numerals, case-insensitive comparison, `longestMatch` as a fold over a filter -/

theorem tokenTable_eq : tokenTable = [
  ⟨[121,121,121,121], false, fun _ => .Year 4⟩, ⟨[121,121,121], false, fun _ => .Year 3⟩, ⟨[121,121], false, fun _ => .Year 2⟩,
  ⟨[121], false, fun _ => .Year 1⟩,
  ⟨[109,109], false, fun _ => .Month⟩, ⟨[109,111,110], false, fun m => .MonthName (nameStyle m true)⟩,
  ⟨[109,111,110,116,104], false, fun m => .MonthName (nameStyle m false)⟩,
  ⟨[100,100], false, fun _ => .Day⟩, ⟨[100,100,100], false, fun _ => .DayOfYear⟩, ⟨[100], false, fun _ => .DayOfWeek⟩,
  ⟨[100,97,121], false, fun m => .DayName (nameStyle m false)⟩, ⟨[100,121], false, fun m => .DayName (nameStyle m true)⟩,
  ⟨[104,104], false, fun _ => .Hour12⟩, ⟨[104,104,49,50], false, fun _ => .Hour12⟩, ⟨[104,104,50,52], false, fun _ => .Hour24⟩,
  ⟨[109,105], false, fun _ => .Minute⟩, ⟨[115,115], false, fun _ => .Second⟩,
  ⟨[102,102], false, fun _ => .Fraction none⟩,
  ⟨[102,102,49], false, fun _ => .Fraction (some 1)⟩, ⟨[102,102,50], false, fun _ => .Fraction (some 2)⟩,
  ⟨[102,102,51], false, fun _ => .Fraction (some 3)⟩, ⟨[102,102,52], false, fun _ => .Fraction (some 4)⟩,
  ⟨[102,102,53], false, fun _ => .Fraction (some 5)⟩, ⟨[102,102,54], false, fun _ => .Fraction (some 6)⟩,
  ⟨[102,102,55], false, fun _ => .Fraction (some 7)⟩, ⟨[102,102,56], false, fun _ => .Fraction (some 8)⟩,
  ⟨[102,102,57], false, fun _ => .Fraction (some 9)⟩,
  ⟨[97,109], false, fun m => .AmPm (ampmStyle m false)⟩, ⟨[112,109], false, fun m => .AmPm (ampmStyle m false)⟩,
  ⟨[97,46,109,46], false, fun m => .AmPm (ampmStyle m true)⟩, ⟨[112,46,109,46], false, fun m => .AmPm (ampmStyle m true)⟩,
  ⟨[119], false, fun _ => .WeekOfMonth⟩, ⟨[119,119], false, fun _ => .WeekOfYear⟩,
  ⟨[84], true, fun _ => .T⟩,
  ⟨[45], true, fun _ => .Hyphen⟩, ⟨[58], true, fun _ => .Colon⟩, ⟨[47], true, fun _ => .Slash⟩,
  ⟨[92], true, fun _ => .Backslash⟩, ⟨[44], true, fun _ => .Comma⟩, ⟨[46], true, fun _ => .Dot⟩,
  ⟨[59], true, fun _ => .Semicolon⟩ ] := by rfl

theorem eqCI_lower (a l : Nat) (h1 : 97 ≤ l) (h2 : l ≤ 122) :
    eqIgnoreCaseB a l = (a == l || a == l - 32) := by
  unfold eqIgnoreCaseB toLowerB isUpperB
  rw [Bool.eq_iff_iff]
  simp only [Bool.and_eq_true, decide_eq_true_eq, Bool.or_eq_true, beq_iff_eq]
  split <;> split <;> omega

theorem eqCI_other (a p : Nat) (h : p < 65 ∨ (90 < p ∧ p < 97) ∨ 122 < p) :
    eqIgnoreCaseB a p = (a == p) := by
  unfold eqIgnoreCaseB toLowerB isUpperB
  rw [Bool.eq_iff_iff]
  simp only [Bool.and_eq_true, decide_eq_true_eq, beq_iff_eq]
  split <;> split <;> omega


def pick (best : Option Tok) (t : Tok) : Option Tok :=
  match best with
  | some b => if t.spelling.length > b.spelling.length then some t else some b
  | none => some t

theorem foldl_filter_aux (s : Bytes) (l : List Tok) (init : Option Tok) :
    l.foldl (fun best t =>
      if t.matchesAt s then
        match best with
        | some b => if t.spelling.length > b.spelling.length then some t else some b
        | none => some t
      else best) init = (l.filter (·.matchesAt s)).foldl pick init := by
  induction l generalizing init with
  | nil => rfl
  | cons t ts ih =>
    simp only [List.foldl_cons, List.filter_cons]
    by_cases h : t.matchesAt s = true
    · simp only [h, if_true, List.foldl_cons]; rw [ih]; rfl
    · simp only [h]; rw [ih]; simp

theorem longestMatch_eq (s : Bytes) :
    longestMatch s = (tokenTable.filter (·.matchesAt s)).foldl pick none := by
  unfold longestMatch; exact foldl_filter_aux s _ _

theorem filter_cons' {α} (p : α → Bool) (a : α) (l : List α) :
    List.filter p (a :: l) = (if p a then [a] else []) ++ List.filter p l := by
  rw [List.filter_cons]; split <;> simp

/-! ## Case-analysis tactics -/

syntax "bsplit " ident " [" num,* "]" : tactic
macro_rules
  | `(tactic| bsplit $_x:ident []) => `(tactic| skip)
  | `(tactic| bsplit $x:ident [$n]) => `(tactic| by_cases h : $x = $n <;> first | subst h | skip)
  | `(tactic| bsplit $x:ident [$n, $ns,*]) => `(tactic| by_cases h : $x = $n <;> first | subst h | bsplit $x [$ns,*])

/-- Close every goal that full evaluation closes. -/
macro "fin" : tactic => `(tactic| all_goals try (simp [startsWithCI, startsWith, pick, eqCI_lower, eqCI_other, nameStyle, ampmStyle, isUpperB, isDigitB, *]; done))

/-- Look one byte further: split `r` into nil / cons, split the new byte into the listed values, try to close. -/
syntax "look " ident ident " [" num,* "]" : tactic
macro_rules
  | `(tactic| look $r:ident $c:ident [$ns,*]) =>
    `(tactic| (all_goals (rcases $r:ident with _ | ⟨$c:ident, $r:ident⟩ <;> try (bsplit $c [$ns,*]))); fin)

/-- Reduce both sides for a concrete first byte. -/
macro "start" : tactic => `(tactic| (
  simp only [munchNext, longestMatch_eq, tokenTable_eq, filter_cons', List.filter_nil, Tok.matchesAt, startsWithCI, startsWith]
  simp [eqCI_lower, eqCI_other, Lexer.nextNorm, Lexer.next, B, Lexer.parseYear, Lexer.parseHour, Lexer.parseSecond,
    Lexer.parseFraction, Lexer.parseMeridian, Lexer.parseMonthName, Lexer.parseDayName, pick]))

/-! ## First-token agreement, one lemma per class of the first byte -/

set_option maxHeartbeats 1000000 in
theorem next_y (c : Nat) (rest : Bytes) (hc : c = 89 ∨ c = 121) :
    Lexer.nextNorm (c :: rest) = munchNext (c :: rest) := by
  rcases hc with rfl | rfl <;>
  · start
    look rest c2 [89, 121]
    look rest c3 [89, 121]
    look rest c4 [89, 121]

theorem next_punct (c : Nat) (rest : Bytes) (hc : c = 45 ∨ c = 58 ∨ c = 47 ∨ c = 92 ∨ c = 44 ∨ c = 46 ∨ c = 59 ∨ c = 84) :
    Lexer.nextNorm (c :: rest) = munchNext (c :: rest) := by
  rcases hc with rfl | rfl | rfl | rfl | rfl | rfl | rfl | rfl <;> start

theorem next_w (c : Nat) (rest : Bytes) (hc : c = 87 ∨ c = 119) :
    Lexer.nextNorm (c :: rest) = munchNext (c :: rest) := by
  rcases hc with rfl | rfl <;>
  · start
    look rest c2 [87, 119]

theorem next_s (c : Nat) (rest : Bytes) (hc : c = 83 ∨ c = 115) :
    Lexer.nextNorm (c :: rest) = munchNext (c :: rest) := by
  rcases hc with rfl | rfl <;>
  · start
    look rest c2 [83, 115]

set_option maxHeartbeats 1000000 in
theorem next_ap (c : Nat) (rest : Bytes) (hc : c = 65 ∨ c = 97 ∨ c = 80 ∨ c = 112) :
    Lexer.nextNorm (c :: rest) = munchNext (c :: rest) := by
  rcases hc with rfl | rfl | rfl | rfl <;>
  · start
    look rest c2 [46, 77, 109]
    look rest c3 [77, 109]
    look rest c4 [46]

set_option maxHeartbeats 1000000 in
theorem next_d (c : Nat) (rest : Bytes) (hc : c = 68 ∨ c = 100) :
    Lexer.nextNorm (c :: rest) = munchNext (c :: rest) := by
  rcases hc with rfl | rfl <;>
  · start
    look rest c2 [68, 100, 65, 97, 89, 121]
    look rest c3 [68, 100, 89, 121]

set_option maxHeartbeats 1000000 in
theorem next_h (c : Nat) (rest : Bytes) (hc : c = 72 ∨ c = 104) :
    Lexer.nextNorm (c :: rest) = munchNext (c :: rest) := by
  rcases hc with rfl | rfl <;>
  · start
    look rest c2 [72, 104]
    look rest c3 [49, 50]
    look rest c4 [50, 52]

set_option maxHeartbeats 1000000 in
theorem next_m (c : Nat) (rest : Bytes) (hc : c = 77 ∨ c = 109) :
    Lexer.nextNorm (c :: rest) = munchNext (c :: rest) := by
  rcases hc with rfl | rfl <;>
  · start
    look rest c2 [73, 105, 77, 109, 79, 111]
    look rest c3 [78, 110]
    look rest c4 [84, 116]
    look rest c5 [72, 104]

/-- `s` starts with `ff0` in any letter case. -/
def startsFF0 (s : Bytes) : Prop := ∃ a b r, s = a :: b :: 48 :: r ∧ (a = 70 ∨ a = 102) ∧ (b = 70 ∨ b = 102)

set_option maxHeartbeats 1000000 in
theorem next_f (c : Nat) (rest : Bytes) (hc : c = 70 ∨ c = 102) (h : ¬ startsFF0 (c :: rest)) :
    Lexer.nextNorm (c :: rest) = munchNext (c :: rest) := by
  rcases hc with rfl | rfl <;>
  · start
    look rest c2 [70, 102]
    all_goals (rcases rest with _ | ⟨c3, rest⟩ <;> try (bsplit c3 [48, 49, 50, 51, 52, 53, 54, 55, 56, 57]))
    all_goals try (exact absurd ⟨_, _, _, rfl, by decide, by decide⟩ h)
    fin
    all_goals
      have hd : isDigitB c3 = false := by
        simp only [isDigitB, Bool.and_eq_false_iff, decide_eq_false_iff_not]; omega
      simp [startsWithCI, startsWith, pick, eqCI_lower, eqCI_other, *]

theorem next_ff0 (a b : Nat) (r : Bytes) (ha : a = 70 ∨ a = 102) (hb : b = 70 ∨ b = 102) :
    Lexer.nextNorm (a :: b :: 48 :: r) = some none ∧
    munchNext (a :: b :: 48 :: r) = some (some (.Fraction none, 48 :: r)) ∧
    munchNext (48 :: r) = some none := by
  rcases ha with rfl | rfl <;> rcases hb with rfl | rfl <;>
  · refine ⟨?_, ?_, ?_⟩ <;>
    · try simp only [munchNext, longestMatch_eq, tokenTable_eq, filter_cons', List.filter_nil, Tok.matchesAt, startsWithCI, startsWith]
      simp [eqCI_lower, eqCI_other, Lexer.nextNorm, Lexer.next, B, Lexer.parseFraction, pick, isDigitB]

def firstBytes : List Nat :=
  [32, 45, 58, 47, 92, 44, 46, 59, 84, 65, 97, 80, 112, 68, 100, 70, 102, 72, 104, 77, 109, 83, 115, 89, 121, 87, 119]

set_option maxHeartbeats 1000000 in
theorem next_other (c : Nat) (rest : Bytes) (hc : c ∉ firstBytes) :
    Lexer.nextNorm (c :: rest) = munchNext (c :: rest) := by
  simp only [firstBytes, List.mem_cons, List.mem_nil_iff, not_or, or_false] at hc
  obtain ⟨_, _, _, _, _, _, _, _, _, _, _, _, _, _, _, _, _, _, _, _, _, _, _, _, _, _, _⟩ := hc
  simp only [munchNext, longestMatch_eq, tokenTable_eq, filter_cons', List.filter_nil, Tok.matchesAt, startsWithCI, startsWith]
  simp [eqCI_lower, eqCI_other, Lexer.nextNorm, Lexer.next, B, *]

/-- First-token agreement, for every byte string that does not start with `ff0`. -/
theorem next_eq_munchNext (s : Bytes) (h : ¬ startsFF0 s) : Lexer.nextNorm s = munchNext s := by
  cases s with
  | nil => rfl
  | cons c rest =>
    by_cases h0 : c = 32
    · subst h0; exact next_blank rest
    by_cases h1 : c = 45 ∨ c = 58 ∨ c = 47 ∨ c = 92 ∨ c = 44 ∨ c = 46 ∨ c = 59 ∨ c = 84
    · exact next_punct c rest h1
    by_cases h2 : c = 65 ∨ c = 97 ∨ c = 80 ∨ c = 112
    · exact next_ap c rest h2
    by_cases h3 : c = 68 ∨ c = 100
    · exact next_d c rest h3
    by_cases h4 : c = 70 ∨ c = 102
    · exact next_f c rest h4 h
    by_cases h5 : c = 72 ∨ c = 104
    · exact next_h c rest h5
    by_cases h6 : c = 77 ∨ c = 109
    · exact next_m c rest h6
    by_cases h7 : c = 83 ∨ c = 115
    · exact next_s c rest h7
    by_cases h8 : c = 89 ∨ c = 121
    · exact next_y c rest h8
    by_cases h9 : c = 87 ∨ c = 119
    · exact next_w c rest h9
    apply next_other
    simp only [firstBytes, List.mem_cons, List.mem_nil_iff, or_false]
    omega

/-! ## Whole pictures -/

theorem foldl_pick_mem (l : List Tok) (init : Option Tok) (t : Tok)
    (h : l.foldl pick init = some t) : init = some t ∨ t ∈ l := by
  induction l generalizing init with
  | nil => exact Or.inl h
  | cons a l ih =>
    rw [List.foldl_cons] at h
    rcases ih _ h with h' | h'
    · cases init with
      | none => simp [pick] at h'; simp [h']
      | some b =>
        simp only [pick] at h'
        split at h'
        · simp at h'; simp [h']
        · exact Or.inl h'
    · exact Or.inr (List.mem_cons_of_mem _ h')

theorem spelling_pos : tokenTable.all (fun t => decide (1 ≤ t.spelling.length)) = true := by decide

theorem longestMatch_pos (s : Bytes) (t : Tok) (h : longestMatch s = some t) : 1 ≤ t.spelling.length := by
  rw [longestMatch_eq] at h
  rcases foldl_pick_mem _ _ _ h with h' | h'
  · cases h'
  · have hm : t ∈ tokenTable := (List.mem_filter.mp h').1
    have := List.all_eq_true.mp spelling_pos t hm
    simpa using this

theorem munchNext_length (s : Bytes) (f : Field) (r : Bytes) (h : munchNext s = some (some (f, r))) :
    r.length < s.length := by
  cases s with
  | nil => simp [munchNext] at h
  | cons c rest =>
    unfold munchNext at h
    by_cases hc : c = 32
    · subst hc
      simp only [if_true, Option.some.injEq, Prod.mk.injEq] at h
      rw [← h.2]
      simp
      omega
    · simp only [hc, if_false] at h
      cases hl : longestMatch (c :: rest) with
      | none => simp [hl] at h
      | some t =>
        have hp := longestMatch_pos _ _ hl
        simp only [hl, Option.some.injEq, Prod.mk.injEq] at h
        rw [← h.2]
        simp only [List.length_drop, List.length_cons]
        omega

theorem tryNewAux_eq (fuel : Nat) (s : Bytes) (acc : List Field) (hf : s.length < fuel) :
    Lexer.tryNewAux fuel s acc = munchAux fuel s acc := by
  induction fuel generalizing s acc with
  | zero => omega
  | succ fuel ih =>
    by_cases hff : startsFF0 s
    · obtain ⟨a, b, r, rfl, ha, hb⟩ := hff
      obtain ⟨h1, h2, h3⟩ := next_ff0 a b r ha hb
      unfold Lexer.nextNorm at h1
      unfold Lexer.tryNewAux munchAux
      rw [h2]
      cases hx : Lexer.next (a :: b :: 48 :: r) with
      | none => simp [hx] at h1
      | some p =>
        obtain ⟨fld, r'⟩ := p
        simp only [hx] at h1
        have hinv : fld = .Invalid := by
          by_cases hi : fld = .Invalid
          · exact hi
          · simp [hi] at h1
        simp only [hinv, if_true]
        split
        · rfl
        · cases fuel with
          | zero => simp at hf
          | succ fuel' => unfold munchAux; rw [h3]
    · have h := next_eq_munchNext s hff
      unfold Lexer.nextNorm at h
      unfold Lexer.tryNewAux munchAux
      cases hx : Lexer.next s with
      | none => simp only [hx] at h; rw [← h]
      | some p =>
        obtain ⟨fld, r⟩ := p
        simp only [hx] at h
        by_cases hi : fld = .Invalid
        · simp only [hi, if_true] at h ⊢; rw [← h]
        · simp only [hi, if_false] at h ⊢
          rw [← h]
          have hl := munchNext_length s fld r h.symm
          simp only
          split
          · rfl
          · exact ih r (fld :: acc) (by omega)

/-- `Formatter::try_new` = maximal munch over the documented table, for every byte string. -/
theorem tryNew_eq_munch (pic : Bytes) : Lexer.tryNew pic = munch pic :=
  tryNewAux_eq _ _ _ (Nat.lt_succ_self _)

/-- A run of blanks of any length is one token of exactly that length. -/
theorem blank_run (n : Nat) (rest : Bytes) (h : rest.head? ≠ some 32) :
    Lexer.next (List.replicate (n + 1) 32 ++ rest) = some (.Blank (n + 1), rest) := by
  simp only [List.replicate_succ, List.cons_append, Lexer.next]
  have hB : B ' ' = 32 := by decide
  simp [hB, countLeading_replicate n rest h]

end SqlDt.Lemmas
