/-
  Lemmas/Div: the crate's sign-case code for splitting microsecond counts equals floor division
  (`/`, `%` on `Int` are the Euclidean ones, which floor for a positive divisor).
-/
import SqlDt.Lemmas.Consts
namespace SqlDt
open Gen

theorem Timestamp.extract_eq (ts : Int) :
    Timestamp.extract ts = (ts / 86400000000, ts % 86400000000) := by
  unfold Timestamp.extract USECONDS_PER_DAY
  by_cases h : ts < 0
  · simp only [h, ↓reduceIte, rrem_neg_eq h, rdiv_neg_eq h]
    by_cases h2 : -(-ts % 86400000000) < 0
    · simp only [h2, ↓reduceIte, Prod.mk.injEq]; omega
    · simp only [h2, ↓reduceIte, Prod.mk.injEq]; omega
  · have h' : 0 ≤ ts := by omega
    simp only [h, ↓reduceIte, rrem_nonneg_eq h', rdiv_nonneg_eq h']

theorem Timestamp.date_eq (ts : Int) : Timestamp.date ts = ts / 86400000000 := by
  unfold Timestamp.date USECONDS_PER_DAY
  by_cases h : ts < 0
  · rw [rrem_neg_eq h, rdiv_neg_eq h]
    simp only [h, true_and]
    by_cases h2 : -(-ts % 86400000000) = 0
    · rw [if_neg (by simpa using h2)]; omega
    · rw [if_pos h2]; omega
  · have h' : 0 ≤ ts := by omega
    simp only [h, false_and, ↓reduceIte, rdiv_nonneg_eq h']

theorem Timestamp.time_eq (ts : Int) : Timestamp.time ts = ts % 86400000000 := by
  unfold Timestamp.time USECONDS_PER_DAY
  by_cases h : ts < 0
  · simp only [rrem_neg_eq h]
    by_cases h2 : -(-ts % 86400000000) < 0
    · simp only [h2, ↓reduceIte]; omega
    · simp only [h2, ↓reduceIte]; omega
  · have h' : 0 ≤ ts := by omega
    simp only [rrem_nonneg_eq h']
    have : ¬ ts % 86400000000 < 0 := by omega
    simp only [this, ↓reduceIte]

/-- `Time::extract` on a valid time of day, as plain quotients. -/
theorem Time.extract_eq (t : Int) (h0 : 0 ≤ t) :
    Time.extract t = (t / 3600000000, t % 3600000000 / 60000000, t % 60000000 / 1000000, t % 1000000) := by
  unfold Time.extract USECONDS_PER_HOUR USECONDS_PER_MINUTE USECONDS_PER_SECOND
  simp only []
  rw [rdiv_nonneg_eq h0]
  have p2 : (0:Int) ≤ t - t / 3600000000 * 3600000000 := by omega
  rw [rdiv_nonneg_eq p2]
  have p3 : (0:Int) ≤ t - t / 3600000000 * 3600000000 - (t - t / 3600000000 * 3600000000) / 60000000 * 60000000 := by omega
  rw [rdiv_nonneg_eq p3]
  simp only [Prod.mk.injEq]
  refine ⟨trivial, ?_, ?_, ?_⟩ <;> omega

theorem Time.hour_eq (t : Int) (h0 : 0 ≤ t) : Time.hour t = t / 3600000000 := by
  unfold Time.hour USECONDS_PER_HOUR; rw [rdiv_nonneg_eq h0]

theorem Time.minute_eq (t : Int) (h0 : 0 ≤ t) : Time.minute t = t % 3600000000 / 60000000 := by
  unfold Time.minute USECONDS_PER_HOUR USECONDS_PER_MINUTE
  rw [rrem_nonneg_eq h0, rdiv_nonneg_eq (by omega)]

end SqlDt
