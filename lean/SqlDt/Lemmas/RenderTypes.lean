import SqlDt.Lemmas.Render
import SqlDt.Lemmas.Calendar
import SqlDt.Lemmas.Div
import SqlDt.Props.C01
namespace SqlDt.Lemmas
open SqlDt Gen Spec

/-- The crate's ordinal-day table lookup is the calendar's cumulative month length plus the day. -/
theorem theDayOfYear_eq (y m d : Int) (hy : 0 ≤ y) (hm : 1 ≤ m ∧ m ≤ 12) :
    theDayOfYear y m d = daysBeforeMonth y m + d := by
  unfold theDayOfYear daysBeforeMonth
  rw [isLeapYear_eq y hy]
  have : m = 1 ∨ m = 2 ∨ m = 3 ∨ m = 4 ∨ m = 5 ∨ m = 6 ∨ m = 7 ∨ m = 8 ∨ m = 9 ∨ m = 10 ∨ m = 11 ∨ m = 12 := by omega
  cases hl : isLeap y <;> rcases this with h | h | h | h | h | h | h | h | h | h | h | h <;> subst h <;>
    simp [idxD, SUM_OF_DAYS_TABLE, boolToInt]

/-- Components of a date. -/
def compsOfDate (y m d : Int) : Comps :=
  { year := y, month := m, day := d, dow0 := weekday (dayNumber y m d), doy := daysBeforeMonth y m + d }

theorem doy_range (y m d : Int) (h : IsDate y m d) : 1 ≤ daysBeforeMonth y m + d ∧ daysBeforeMonth y m + d ≤ 366 := by
  obtain ⟨m1, m12, d1, dd⟩ := h
  unfold daysBeforeMonth
  unfold dim at dd
  have : m = 1 ∨ m = 2 ∨ m = 3 ∨ m = 4 ∨ m = 5 ∨ m = 6 ∨ m = 7 ∨ m = 8 ∨ m = 9 ∨ m = 10 ∨ m = 11 ∨ m = 12 := by omega
  cases hl : isLeap y <;> rcases this with h | h | h | h | h | h | h | h | h | h | h | h <;> subst h <;>
    simp [hl] at dd ⊢ <;> omega

theorem agrees_date (y m d : Int) (h : ValidYMD y m d) :
    Agrees .D (dayNumber y m d) (NDT.ofValue .D (dayNumber y m d)) (compsOfDate y m d) := by
  obtain ⟨y1, y9, hd⟩ := h
  have hv : ValidYMD y m d := ⟨y1, y9, hd⟩
  obtain ⟨m1, m12, d1, dd⟩ := hd
  have hex := (extract_fromYmd y m d hv).2
  rw [fromYmd_eq_dayNumber y m d ⟨by omega, by omega⟩ ⟨m1, m12⟩] at hex
  have d31 : d ≤ 31 := by
    unfold dim at dd; split at dd
    · split at dd <;> omega
    · split at dd <;> omega
  have hdoy := doy_range y m d ⟨m1, m12, d1, dd⟩
  refine { year := ?_, month := ?_, day := ?_, hour := ?_, minute := ?_, sec := ?_, usec := ?_, yearR := ?_,
           monthR := ?_, dayR := ?_, hourR := ?_, minuteR := ?_, secR := ?_, date := ?_ } <;>
    simp only [NDT.ofValue, NDT.ofDate, hex, compsOfDate] <;> try omega
  intro _
  refine ⟨m1, d1, d31, y9, ⟨dayNumber y m d, rfl, ?_⟩, ?_, ?_, ?_, hdoy.1, hdoy.2⟩
  · rw [C01.dayOfWeek_eq]; rfl
  · unfold weekday; omega
  · unfold weekday; omega
  · exact theDayOfYear_eq y m d (by omega) ⟨m1, m12⟩

end SqlDt.Lemmas

namespace SqlDt.Lemmas
open SqlDt Gen Spec

def toChk : Option Bytes → Chk Bytes
  | some t => .ok t
  | none => .error .FormatError

/-- `Formatter::format` into a `String` = the specified rendering (sign first for intervals), for any value whose
    `NaiveDateTime` agrees with the components `c`. -/
theorem format_eq_render (ty : Ty) (v : Int) (c : Comps) (h : Agrees ty v (NDT.ofValue ty v) c)
    (hfr : FractionOK (NDT.ofValue ty v) c) (hneg : (NDT.ofValue ty v).negative = c.neg)
    (fields : List Field) (hwf : ∀ f ∈ fields, Field.WellFormed f) :
    Formatter.format ty v fields none = toChk (render ty c fields) := by
  obtain ⟨h1, h2, h3, h4, h5⟩ := info_cases ty
  unfold Formatter.format render
  simp only [hneg, h4, h5, bind, Except.bind, pure, Except.pure]
  by_cases hn : c.neg = true
  · simp only [hn, ↓reduceIte, Sink.write]
    rw [formatFields_eq_render ty v _ c h hfr fields _ rfl hwf]
    cases renderAll ty c fields <;> simp [toChk, Option.bind] <;> decide
  · simp only [hn, Bool.false_eq_true, ↓reduceIte]
    by_cases hi : ty = .YM ∨ ty = .DT
    · have : (decide (ty = .YM) || decide (ty = .DT)) = true := by
        rcases hi with rfl | rfl <;> decide
      simp only [this, ↓reduceIte, Sink.write, hi]
      rw [formatFields_eq_render ty v _ c h hfr fields _ rfl hwf]
      cases renderAll ty c fields <;> simp [toChk, Option.bind] <;> decide
    · have : (decide (ty = .YM) || decide (ty = .DT)) = false := by
        cases ty <;> simp at hi ⊢
      simp only [this, Bool.false_eq_true, ↓reduceIte, hi]
      rw [formatFields_eq_render ty v _ c h hfr fields _ rfl hwf]
      cases renderAll ty c fields <;> simp [toChk, Option.bind] <;> decide

theorem fractionOK_zero (dt : NDT) (c : Comps) (h1 : dt.usec = 0) (h2 : c.usec = 0) : FractionOK dt c := by
  intro p hp
  have : p = 0 ∨ p = 1 ∨ p = 2 ∨ p = 3 ∨ p = 4 ∨ p = 5 ∨ p = 6 ∨ p = 7 ∨ p = 8 ∨ p = 9 := by omega
  unfold NDT.fraction
  rw [h1, h2]
  rcases this with rfl | rfl | rfl | rfl | rfl | rfl | rfl | rfl | rfl | rfl <;> decide

/-- DATES: for every real date of years 1..9999 and every well-formed picture. -/
theorem format_date (y m d : Int) (h : ValidYMD y m d) (fields : List Field) (hwf : ∀ f ∈ fields, Field.WellFormed f) :
    Formatter.format .D (dayNumber y m d) fields none = toChk (render .D (compsOfDate y m d) fields) := by
  have ha := agrees_date y m d h
  apply format_eq_render .D _ _ ha
  · apply fractionOK_zero
    · rw [ha.usec]; rfl
    · rfl
  · have hex := (extract_fromYmd y m d h).2
    rw [fromYmd_eq_dayNumber y m d ⟨by have := h.1; omega, by have := h.2.1; omega⟩ ⟨h.2.2.1, h.2.2.2.1⟩] at hex
    simp [NDT.ofValue, NDT.ofDate, hex, compsOfDate]
  · exact hwf

end SqlDt.Lemmas
