/-
  Lemmas/UnitsModel: the crate's truncation / rounding code (Model/Types: table lookups, Julian-day arithmetic,
  truncating `%`) computes the calendar-level closed forms of Spec/Units, for every real date of years 1..9999
  and every valid timestamp.
-/
import SqlDt.Lemmas.Calendar
import SqlDt.Lemmas.Div
import SqlDt.Spec.Units
import SqlDt.Lemmas.C10Base
import SqlDt.Lemmas.C11Base
namespace SqlDt.Lemmas
open SqlDt Gen Spec

/-! ### Helpers (one lemma per unit), in the sub-namespace `SqlDt.Lemmas.UM` -/
namespace UM
open Cal

theorem subDays_eq (d k : Int) : Date.subDays d k = inRangeDay (d - k) := by
  unfold Date.subDays checkedI32 Date.tryFromDays fitsI32 I32_MIN I32_MAX inRangeDay MIN_DAY MAX_DAY
  by_cases h : -2147483648 ≤ d - k ∧ d - k ≤ 2147483647
  · simp only [h, and_self, ↓reduceIte, isValidDate_iff]
  · have : ¬ (-719162 ≤ d - k ∧ d - k ≤ 2932896) := by omega
    simp only [h, ↓reduceIte, this]

theorem ok_eq_inRange (n : Int) (h : -719162 ≤ n ∧ n ≤ 2932896) : (.ok n : Chk Int) = inRangeDay n := by
  unfold inRangeDay MIN_DAY MAX_DAY; simp only [h, and_self, ↓reduceIte]

theorem inRange_err (n : Int) (h : 2932896 < n) : inRangeDay n = .error .DateOutOfRange := by
  unfold inRangeDay MIN_DAY MAX_DAY
  have : ¬ (-719162 ≤ n ∧ n ≤ 2932896) := by omega
  simp only [this, ↓reduceIte]

theorem isDate_first (Y : Int) (m : Int) (hm : 1 ≤ m ∧ m ≤ 12) : IsDate Y m 1 := by
  have := dim_range Y m
  exact ⟨hm.1, hm.2, by omega, by omega⟩

/-- what `h : ValidYMD` gives about the model at `n = dayNumber y m d` -/
theorem facts (y m d : Int) (h : ValidYMD y m d) :
    Date.extract (dayNumber y m d) = (y, m, d) ∧ (-719162 ≤ dayNumber y m d ∧ dayNumber y m d ≤ 2932896) := by
  have e := fromYmd_eq_dayNumber y m d ⟨by have := h.1; omega, by have := h.2.1; omega⟩ ⟨h.2.2.1, h.2.2.2.1⟩
  have := (extract_fromYmd y m d h).2
  rw [e] at this
  exact ⟨this, dayNumber_range y m d h⟩

theorem from_first (Y m : Int) (hY : 1 ≤ Y ∧ Y ≤ 9999) (hm : 1 ≤ m ∧ m ≤ 12) :
    (.ok (Date.fromYmdUnchecked Y m 1) : Chk Int) = inRangeDay (dayNumber Y m 1) := by
  rw [fromYmd_eq_dayNumber Y m 1 ⟨by omega, by omega⟩ hm]
  exact ok_eq_inRange _ (dayNumber_range Y m 1 ⟨hY.1, hY.2, isDate_first Y m hm⟩)

theorem trunc_century (y m d : Int) (h : ValidYMD y m d) :
    Date.trunc .century (dayNumber y m d) = inRangeDay (truncOf .century (y, m, d) (dayNumber y m d)) := by
  obtain ⟨he, hr⟩ := facts y m d h
  obtain ⟨hy1, hy2, hd⟩ := h
  simp only [Date.trunc, Date.truncCentury, Date.year, he, truncOf]
  rw [rrem_nonneg_eq (by omega)]
  have e : rdiv (if y % 100 = 0 then y - 1 else y) 100 * 100 + 1 = (y - 1) / 100 * 100 + 1 := by
    split
    · rw [rdiv_nonneg_eq (by omega)]
    · rw [rdiv_nonneg_eq (by omega)]; omega
  rw [e]
  exact from_first _ 1 (by omega) (by omega)

theorem trunc_year (y m d : Int) (h : ValidYMD y m d) :
    Date.trunc .year (dayNumber y m d) = inRangeDay (truncOf .year (y, m, d) (dayNumber y m d)) := by
  obtain ⟨he, hr⟩ := facts y m d h
  obtain ⟨hy1, hy2, hd⟩ := h
  simp only [Date.trunc, Date.truncYear, Date.year, he, truncOf]
  exact from_first _ 1 (by omega) (by omega)

theorem trunc_month (y m d : Int) (h : ValidYMD y m d) :
    Date.trunc .month (dayNumber y m d) = inRangeDay (truncOf .month (y, m, d) (dayNumber y m d)) := by
  obtain ⟨he, hr⟩ := facts y m d h
  obtain ⟨hy1, hy2, hd⟩ := h
  simp only [Date.trunc, Date.truncMonth, he, truncOf]
  exact from_first _ m (by omega) ⟨hd.1, hd.2.1⟩

theorem trunc_quarter (y m d : Int) (h : ValidYMD y m d) :
    Date.trunc .quarter (dayNumber y m d) = inRangeDay (truncOf .quarter (y, m, d) (dayNumber y m d)) := by
  obtain ⟨he, hr⟩ := facts y m d h
  obtain ⟨hy1, hy2, hd⟩ := h
  simp only [Date.trunc, Date.truncQuarter, he, truncOf]
  rcases months12 m ⟨hd.1, hd.2.1⟩ with h | h | h | h | h | h | h | h | h | h | h | h <;> subst h <;>
    simp [idx, QUARTER_FIRST_MONTH, bind, Except.bind, pure, Except.pure] <;>
    exact from_first _ _ (by omega) (by omega)

theorem dayNumber_jan (Y d : Int) : dayNumber Y 1 d = daysBeforeYear Y + d - 719163 := by
  unfold dayNumber; rw [dbm_eq]; simp

/-- position of a real date inside its year -/
theorem in_year (y m d : Int) (h : IsDate y m d) :
    dayNumber y 1 1 ≤ dayNumber y m d ∧ dayNumber y m d < dayNumber (y + 1) 1 1 := by
  obtain ⟨h1, h2, h3, h4⟩ := h
  rw [dayNumber_jan, dayNumber_jan, dby_succ]
  have a := dbm_nonneg y m ⟨h1, h2⟩
  have b := dbm_dim_le y m ⟨h1, h2⟩
  unfold dayNumber; omega

theorem trunc_week (y m d : Int) (h : ValidYMD y m d) :
    Date.trunc .week (dayNumber y m d) = inRangeDay (truncOf .week (y, m, d) (dayNumber y m d)) := by
  obtain ⟨he, hr⟩ := facts y m d h
  obtain ⟨hy1, hy2, hd⟩ := h
  have hp := in_year y m d hd
  simp only [Date.trunc, Date.truncWeek, Date.year, he, truncOf, Date.subDate]
  rw [fromYmd_eq_dayNumber y 1 1 ⟨by omega, by omega⟩ (by omega), rrem_nonneg_eq (by omega), subDays_eq]

theorem trunc_isoWeek (y m d : Int) (h : ValidYMD y m d) :
    Date.trunc .isoWeek (dayNumber y m d) = inRangeDay (truncOf .isoWeek (y, m, d) (dayNumber y m d)) := by
  obtain ⟨he, hr⟩ := facts y m d h
  simp only [Date.trunc, truncOf]
  rw [(C10B.date_trunc_isoWeek _ ((isValidDate_iff _).2 hr)).1, subDays_eq]

theorem trunc_sunday (y m d : Int) (_h : ValidYMD y m d) :
    Date.trunc .sundayStartWeek (dayNumber y m d) = inRangeDay (truncOf .sundayStartWeek (y, m, d) (dayNumber y m d)) := by
  simp only [Date.trunc, truncOf]
  rw [(C10B.date_trunc_sundayWeek _).1, subDays_eq]

theorem trunc_msw (y m d : Int) (h : ValidYMD y m d) :
    Date.trunc .monthStartWeek (dayNumber y m d) = inRangeDay (truncOf .monthStartWeek (y, m, d) (dayNumber y m d)) := by
  obtain ⟨he, hr⟩ := facts y m d h
  obtain ⟨hy1, hy2, hd⟩ := h
  simp only [Date.trunc, Date.truncMonthStartWeek, Date.day, he, truncOf]
  rw [rrem_nonneg_eq (by have := hd.2.2.1; omega), subDays_eq]
  congr 2
  have := hd.2.2.1
  split <;> omega

theorem wdj_eq (j : Int) (h : 0 ≤ j) : Date.weekDayOfJulian j = j % 7 := by
  unfold Date.weekDayOfJulian
  rw [rrem_nonneg_eq h]
  have : ¬ (j % 7 < 0) := by omega
  simp only [this, ↓reduceIte]

theorem dby_zero : daysBeforeYear 0 = -366 := by decide

theorem jan4_julian (Y : Int) (hY : 0 ≤ Y) :
    date2julian Y 1 4 = dayNumber Y 1 4 + 2440588 ∧
    date2julian Y 1 4 - Date.weekDayOfJulian (date2julian Y 1 4) = isoYearStart Y + 2440588 := by
  have e := date2julian_eq_dayNumber Y 1 4 hY (by omega)
  have a := dby_mono 0 Y hY
  rw [dby_zero] at a
  have j := dayNumber_jan Y 4
  refine ⟨e, ?_⟩
  rw [wdj_eq _ (by omega), e]
  unfold isoYearStart
  simp only []
  omega

theorem iso_bounds (Y : Int) : dayNumber Y 1 1 - 3 ≤ isoYearStart Y ∧ isoYearStart Y ≤ dayNumber Y 1 1 + 3 := by
  unfold isoYearStart; rw [dayNumber_jan, dayNumber_jan]; simp only []; omega

theorem iso_succ (Y : Int) : isoYearStart Y + 364 ≤ isoYearStart (Y + 1) ∧ isoYearStart (Y + 1) ≤ isoYearStart Y + 371 := by
  unfold isoYearStart; rw [dayNumber_jan, dayNumber_jan, dby_succ]; simp only []
  have := leapI_spec Y
  omega

theorem iso_one : isoYearStart 1 = -719162 := by decide

theorem iso_10000 : isoYearStart 10000 = 2932899 := by decide

theorem dateToIsoYear_eq (y m d : Int) (h : ValidYMD y m d) :
    Date.dateToIsoYear (dayNumber y m d) =
      if isoYearStart (y + 1) ≤ dayNumber y m d then y + 1
      else if isoYearStart y ≤ dayNumber y m d then y else y - 1 := by
  obtain ⟨he, hr⟩ := facts y m d h
  obtain ⟨hy1, hy2, hd⟩ := h
  have hp := in_year y m d hd
  obtain ⟨j0, s0⟩ := jan4_julian y (by omega)
  obtain ⟨jm, sm⟩ := jan4_julian (y - 1) (by omega)
  obtain ⟨jp, sp⟩ := jan4_julian (y + 1) (by omega)
  have b0 := iso_bounds y
  have bp := iso_bounds (y + 1)
  have bm := iso_bounds (y - 1)
  have c0 := iso_succ y
  have cm := iso_succ (y - 1)
  have ee : y - 1 + 1 = y := by omega
  rw [ee] at cm
  unfold Date.dateToIsoYear
  simp only [Date.year, he, UNIX_EPOCH_JULIAN_eq]
  rw [s0]
  generalize dayNumber y m d = n at *
  by_cases c1 : n + 2440588 < isoYearStart y + 2440588
  · simp only [c1, ↓reduceIte, ee]
    rw [sm, s0]
    have n1 : ¬ (isoYearStart (y + 1) ≤ n) := by omega
    have n2 : ¬ (isoYearStart y ≤ n) := by omega
    have n3 : ¬ (n + 2440588 ≥ isoYearStart y + 2440588) := by omega
    simp only [n1, n2, n3, ↓reduceIte, ite_self]
  · simp only [c1, ↓reduceIte]
    rw [s0, sp]
    have n2 : isoYearStart y ≤ n := by omega
    simp only [n2, ↓reduceIte]
    rw [rdiv_nonneg_eq (by omega)]
    by_cases c2 : isoYearStart (y + 1) ≤ n
    · have n3 : (n + 2440588 - (isoYearStart y + 2440588)) / 7 + 1 ≥ 52 := by omega
      have n4 : n + 2440588 ≥ isoYearStart (y + 1) + 2440588 := by omega
      simp only [c2, n3, n4, ↓reduceIte]
    · have n4 : ¬ (n + 2440588 ≥ isoYearStart (y + 1) + 2440588) := by omega
      simp only [c2, n4, ↓reduceIte, ite_self]

/-- The ISO-year table applied to 1 January of year `Y` lands on the Monday of the week of 4 January. -/
theorem isoTable_eq (Y : Int) (hY : 1 ≤ Y ∧ Y ≤ 9999) :
    Date.applyWeekTable ISO_YEAR_TABLE (Date.dayOfWeek (dayNumber Y 1 1)) (dayNumber Y 1 1) =
      inRangeDay (isoYearStart Y) := by
  have hr := dayNumber_range Y 1 1 ⟨hY.1, hY.2, isDate_first Y 1 (by omega)⟩
  have e : isoYearStart Y = dayNumber Y 1 1 + 3 - (dayNumber Y 1 1 + 6) % 7 := by
    unfold isoYearStart; rw [dayNumber_jan, dayNumber_jan]; simp only []; omega
  rw [e, C01.dayOfWeek_eq]
  unfold Date.applyWeekTable
  generalize dayNumber Y 1 1 = f at *
  have : (f + 4) % 7 = 0 ∨ (f + 4) % 7 = 1 ∨ (f + 4) % 7 = 2 ∨ (f + 4) % 7 = 3 ∨ (f + 4) % 7 = 4 ∨
      (f + 4) % 7 = 5 ∨ (f + 4) % 7 = 6 := by omega
  rcases this with h | h | h | h | h | h | h <;> rw [h] <;>
    simp [idx, ISO_YEAR_TABLE, bind, Except.bind, pure, Except.pure, subDays_eq] <;>
    first
    | (congr 1; omega)
    | (rw [ok_eq_inRange f hr]; congr 1; omega)

theorem trunc_isoYear (y m d : Int) (h : ValidYMD y m d) :
    Date.trunc .isoYear (dayNumber y m d) = inRangeDay (truncOf .isoYear (y, m, d) (dayNumber y m d)) := by
  have hi := dateToIsoYear_eq y m d h
  obtain ⟨he, hr⟩ := facts y m d h
  obtain ⟨hy1, hy2, hd⟩ := h
  simp only [Date.trunc, Date.truncIsoYear, truncOf]
  rw [hi]
  by_cases c1 : isoYearStart (y + 1) ≤ dayNumber y m d
  · simp only [c1, ↓reduceIte]
    have : y + 1 ≤ 9999 := by
      apply Decidable.byContradiction; intro hc
      have e : y + 1 = 10000 := by omega
      rw [e, iso_10000] at c1; omega
    rw [fromYmd_eq_dayNumber _ 1 1 ⟨by omega, by omega⟩ (by omega)]
    exact isoTable_eq _ ⟨by omega, by omega⟩
  · simp only [c1, ↓reduceIte]
    by_cases c2 : isoYearStart y ≤ dayNumber y m d
    · simp only [c2, ↓reduceIte]
      rw [fromYmd_eq_dayNumber _ 1 1 ⟨by omega, by omega⟩ (by omega)]
      exact isoTable_eq _ ⟨by omega, by omega⟩
    · simp only [c2, ↓reduceIte]
      have : 2 ≤ y := by
        apply Decidable.byContradiction; intro hc
        have e : y = 1 := by omega
        rw [e, iso_one] at c2; rw [e] at hr; omega
      rw [fromYmd_eq_dayNumber _ 1 1 ⟨by omega, by omega⟩ (by omega)]
      exact isoTable_eq _ ⟨by omega, by omega⟩

theorem trunc_day (y m d : Int) (h : ValidYMD y m d) :
    (.ok (dayNumber y m d) : Chk Int) = inRangeDay (dayNumber y m d) :=
  ok_eq_inRange _ (dayNumber_range y m d h)

end UM

/-- Date truncation, all twelve units: the model returns the spec's boundary when it is representable and
    `DateOutOfRange` otherwise. -/
theorem date_trunc_eq (u : TUnit) (y m d : Int) (h : ValidYMD y m d) :
    Date.trunc u (dayNumber y m d) = inRangeDay (truncOf u (y, m, d) (dayNumber y m d)) := by
  cases u
  · exact UM.trunc_century y m d h
  · exact UM.trunc_year y m d h
  · exact UM.trunc_isoYear y m d h
  · exact UM.trunc_quarter y m d h
  · exact UM.trunc_month y m d h
  · exact UM.trunc_week y m d h
  · exact UM.trunc_isoWeek y m d h
  · exact UM.trunc_msw y m d h
  · exact UM.trunc_day y m d h
  · exact UM.trunc_sunday y m d h
  · exact UM.trunc_day y m d h
  · exact UM.trunc_day y m d h

namespace UM
open Cal

theorem dn_10000 : dayNumber 10000 1 1 = 2932897 := by decide
theorem dn_10001 : dayNumber 10001 1 1 = 2933263 := by decide

theorem round_century (y m d : Int) (h : ValidYMD y m d) (hD1 : y % 100 ≠ 0) :
    Date.round .century (dayNumber y m d) = inRangeDay (roundOf .century (y, m, d) (dayNumber y m d)) := by
  obtain ⟨he, hr⟩ := facts y m d h
  obtain ⟨hy1, hy2, hd⟩ := h
  simp only [Date.round, Date.roundCentury, Date.year, he, roundOf, truncOf, nextStartOf, DATE_MAX_YEAR]
  rw [rrem_nonneg_eq (by omega), rdiv_nonneg_eq (by omega)]
  by_cases c : y > 9999 - 49
  · have c2 : (y - 1) % 100 + 1 ≥ 51 := by omega
    have e : (y - 1) / 100 * 100 + 101 = 10001 := by omega
    simp only [c, c2, ↓reduceIte, e, dn_10001]
    exact (inRange_err _ (by omega)).symm
  · simp only [c, hD1, ↓reduceIte]
    by_cases c2 : y % 100 > 50
    · have c3 : (y - 1) % 100 + 1 ≥ 51 := by omega
      have e : (y / 100 + 1) * 100 + 1 = (y - 1) / 100 * 100 + 101 := by omega
      simp only [c2, c3, ↓reduceIte, e]
      exact from_first _ 1 (by omega) (by omega)
    · have c3 : ¬ ((y - 1) % 100 + 1 ≥ 51) := by omega
      have e : y / 100 * 100 + 1 = (y - 1) / 100 * 100 + 1 := by omega
      simp only [c2, c3, ↓reduceIte, e]
      exact from_first _ 1 (by omega) (by omega)

theorem round_year (y m d : Int) (h : ValidYMD y m d) :
    Date.round .year (dayNumber y m d) = inRangeDay (roundOf .year (y, m, d) (dayNumber y m d)) := by
  obtain ⟨he, hr⟩ := facts y m d h
  obtain ⟨hy1, hy2, hd⟩ := h
  simp only [Date.round, Date.roundYear, he, roundOf, truncOf, nextStartOf, DATE_MAX_YEAR]
  by_cases c : m ≥ 7
  · simp only [c, ↓reduceIte]
    by_cases c2 : y = 9999
    · subst c2; simp only [↓reduceIte]
      rw [show (9999 : Int) + 1 = 10000 by rfl, dn_10000]; exact (inRange_err _ (by omega)).symm
    · simp only [c2, ↓reduceIte]; exact from_first _ 1 (by omega) (by omega)
  · simp only [c, ↓reduceIte]; exact from_first _ 1 (by omega) (by omega)

theorem round_month (y m d : Int) (h : ValidYMD y m d) :
    Date.round .month (dayNumber y m d) = inRangeDay (roundOf .month (y, m, d) (dayNumber y m d)) := by
  obtain ⟨he, hr⟩ := facts y m d h
  obtain ⟨hy1, hy2, hd⟩ := h
  simp only [Date.round, Date.roundMonth, he, roundOf, truncOf, nextStartOf, DATE_MAX_YEAR, ROUNDS_UP_DAY]
  by_cases c : d ≥ 16
  · simp only [c, ↓reduceIte]
    by_cases c1 : m = 12
    · simp only [c1, ↓reduceIte]
      by_cases c2 : y = 9999
      · subst c2; simp only [↓reduceIte]
        rw [show (9999 : Int) + 1 = 10000 by rfl, dn_10000]; exact (inRange_err _ (by omega)).symm
      · simp only [c2, ↓reduceIte]; exact from_first _ 1 (by omega) (by omega)
    · simp only [c1, ↓reduceIte]; exact from_first _ _ (by omega) (by have := hd.1; have := hd.2.1; omega)
  · simp only [c, ↓reduceIte]; exact from_first _ _ (by omega) ⟨hd.1, hd.2.1⟩


/-- The `year > DATE_MAX_YEAR` gate of the roundings is the range check of the spec. -/
theorem from_first_gate (Y m : Int) (hY : 1 ≤ Y ∧ Y ≤ 10000) (hm : 1 ≤ m ∧ m ≤ 12) :
    (if 9999 < Y then .error .DateOutOfRange else .ok (Date.fromYmdUnchecked Y m 1) : Chk Int) =
      inRangeDay (dayNumber Y m 1) := by
  by_cases c : 9999 < Y
  · have e : Y = 10000 := by omega
    subst e
    have := (in_year 10000 m 1 (isDate_first _ m hm)).1
    rw [dn_10000] at this
    simp only [c, ↓reduceIte]; exact (inRange_err _ (by omega)).symm
  · simp only [c, ↓reduceIte]; exact from_first Y m (by omega) hm

theorem round_quarter (y m d : Int) (h : ValidYMD y m d) :
    Date.round .quarter (dayNumber y m d) = inRangeDay (roundOf .quarter (y, m, d) (dayNumber y m d)) := by
  obtain ⟨he, hr⟩ := facts y m d h
  obtain ⟨hy1, hy2, hd⟩ := h
  simp only [Date.round, Date.roundQuarter, he, roundOf, truncOf, nextStartOf, DATE_MAX_YEAR, ROUNDS_UP_DAY]
  by_cases c : d ≥ 16 <;>
  rcases months12 m ⟨hd.1, hd.2.1⟩ with h | h | h | h | h | h | h | h | h | h | h | h <;> subst h <;>
    simp [c, idx, QUARTER_ROUND_MONTH, QUARTER_TRUNC_MONTH, bind, Except.bind, pure, Except.pure] <;>
    exact from_first_gate _ _ (by omega) (by omega)

theorem res7 (r : Int) (h : 0 ≤ r ∧ r < 7) : r = 0 ∨ r = 1 ∨ r = 2 ∨ r = 3 ∨ r = 4 ∨ r = 5 ∨ r = 6 := by omega

/-- The four `(method, offset)` week tables, each as "back to the week start, or on to the next from the fifth day". -/
theorem weekTable (n r : Int) (hn : -719162 ≤ n ∧ n ≤ 2932896) (hr : 0 ≤ r ∧ r < 7) :
    Date.applyWeekTable WEEK_TABLE r n = inRangeDay (if r ≥ 4 then n - r + 7 else n - r) := by
  unfold Date.applyWeekTable
  rcases res7 r hr with h | h | h | h | h | h | h <;> subst h <;>
    simp [idx, WEEK_TABLE, bind, Except.bind, pure, Except.pure, subDays_eq] <;>
    first
    | exact ok_eq_inRange n hn
    | (congr 1; omega)

theorem isoWeekTable (n : Int) (hn : -719162 ≤ n ∧ n ≤ 2932896) :
    Date.applyWeekTable ROUND_ISO_WEEK_TABLE ((n + 4) % 7 + 1) n =
      inRangeDay (if (n + 3) % 7 ≥ 4 then n - (n + 3) % 7 + 7 else n - (n + 3) % 7) := by
  unfold Date.applyWeekTable
  rcases res7 ((n + 4) % 7) (by omega) with h | h | h | h | h | h | h <;> rw [h] <;>
    simp [idx, ROUND_ISO_WEEK_TABLE, bind, Except.bind, pure, Except.pure, subDays_eq] <;>
    first
    | (rw [ok_eq_inRange n hn]; congr 1; split <;> omega)
    | (congr 1; split <;> omega)

theorem sundayTable (n : Int) (hn : -719162 ≤ n ∧ n ≤ 2932896) :
    Date.applyWeekTable SUNDAY_START_WEEK_TABLE ((n + 4) % 7 + 1) n =
      inRangeDay (if (n + 4) % 7 ≥ 4 then n - (n + 4) % 7 + 7 else n - (n + 4) % 7) := by
  unfold Date.applyWeekTable
  rcases res7 ((n + 4) % 7) (by omega) with h | h | h | h | h | h | h <;> rw [h] <;>
    simp [idx, SUNDAY_START_WEEK_TABLE, bind, Except.bind, pure, Except.pure, subDays_eq] <;>
    first
    | exact ok_eq_inRange n hn
    | (congr 1; omega)

theorem mswTable (n d : Int) (hn : -719162 ≤ n ∧ n ≤ 2932896) :
    Date.applyWeekTable MONTH_START_WEEK_TABLE (d % 7) n =
      inRangeDay (if (d - 1) % 7 ≥ 4 then n - (d - 1) % 7 + 7 else n - (d - 1) % 7) := by
  unfold Date.applyWeekTable
  rcases res7 (d % 7) (by omega) with h | h | h | h | h | h | h <;> rw [h] <;>
    simp [idx, MONTH_START_WEEK_TABLE, bind, Except.bind, pure, Except.pure, subDays_eq] <;>
    first
    | (rw [ok_eq_inRange n hn]; congr 1; split <;> omega)
    | (congr 1; split <;> omega)

/-- `roundOf` on a week unit whose truncation is `n - r`, with the midpoint test on `r`. -/
theorem roundOf_wk (r n : Int) :
    (if n - (n - r) ≥ 4 then n - r + 7 else n - r) = (if r ≥ 4 then n - r + 7 else n - r) := by
  split <;> split <;> omega

theorem roundOf_week (y m d n : Int) : roundOf .week (y, m, d) n =
    if (n - dayNumber y 1 1) % 7 ≥ 4 then n - (n - dayNumber y 1 1) % 7 + 7 else n - (n - dayNumber y 1 1) % 7 :=
  roundOf_wk _ _
theorem roundOf_isoWeek (y m d n : Int) : roundOf .isoWeek (y, m, d) n =
    if (n + 3) % 7 ≥ 4 then n - (n + 3) % 7 + 7 else n - (n + 3) % 7 := roundOf_wk _ _
theorem roundOf_sunday (y m d n : Int) : roundOf .sundayStartWeek (y, m, d) n =
    if (n + 4) % 7 ≥ 4 then n - (n + 4) % 7 + 7 else n - (n + 4) % 7 := roundOf_wk _ _
theorem roundOf_msw (y m d n : Int) : roundOf .monthStartWeek (y, m, d) n =
    if (d - 1) % 7 ≥ 4 then n - (d - 1) % 7 + 7 else n - (d - 1) % 7 := roundOf_wk _ _

theorem round_week (y m d : Int) (h : ValidYMD y m d) :
    Date.round .week (dayNumber y m d) = inRangeDay (roundOf .week (y, m, d) (dayNumber y m d)) := by
  obtain ⟨he, hr⟩ := facts y m d h
  obtain ⟨hy1, hy2, hd⟩ := h
  have hp := in_year y m d hd
  simp only [Date.round, Date.roundWeek, Date.roundWeekInternal, Date.year, he, Date.subDate]
  rw [fromYmd_eq_dayNumber y 1 1 ⟨by omega, by omega⟩ (by omega), rrem_nonneg_eq (by omega),
    weekTable _ _ hr (by omega), roundOf_week]

theorem round_isoWeek (y m d : Int) (h : ValidYMD y m d) :
    Date.round .isoWeek (dayNumber y m d) = inRangeDay (roundOf .isoWeek (y, m, d) (dayNumber y m d)) := by
  obtain ⟨he, hr⟩ := facts y m d h
  simp only [Date.round, Date.roundIsoWeek]
  rw [C01.dayOfWeek_eq, isoWeekTable _ hr, roundOf_isoWeek]

theorem round_sunday (y m d : Int) (h : ValidYMD y m d) :
    Date.round .sundayStartWeek (dayNumber y m d) =
      inRangeDay (roundOf .sundayStartWeek (y, m, d) (dayNumber y m d)) := by
  obtain ⟨he, hr⟩ := facts y m d h
  simp only [Date.round, Date.roundSundayStartWeek]
  rw [C01.dayOfWeek_eq, sundayTable _ hr, roundOf_sunday]

theorem round_msw (y m d : Int) (h : ValidYMD y m d) :
    Date.round .monthStartWeek (dayNumber y m d) =
      inRangeDay (roundOf .monthStartWeek (y, m, d) (dayNumber y m d)) := by
  obtain ⟨he, hr⟩ := facts y m d h
  obtain ⟨hy1, hy2, hd⟩ := h
  have hd1 := hd.2.2.1
  simp only [Date.round, Date.roundMonthStartWeek, Date.roundMonthStartWeekInternal, Date.day, he]
  rw [rrem_nonneg_eq (by omega), mswTable _ _ hr, roundOf_msw]


theorem round_isoYear (y m d : Int) (h : ValidYMD y m d) :
    Date.round .isoYear (dayNumber y m d) = inRangeDay (roundOf .isoYear (y, m, d) (dayNumber y m d)) := by
  have ht := trunc_isoYear y m d h
  obtain ⟨he, hr⟩ := facts y m d h
  obtain ⟨hy1, hy2, hd⟩ := h
  simp only [Date.trunc] at ht
  simp only [Date.round, Date.roundIsoYear, he, roundOf, DATE_MAX_YEAR]
  by_cases c : m ≥ 7
  · simp only [c, ↓reduceIte]
    by_cases c2 : y = 9999
    · subst c2; simp only [↓reduceIte]
      rw [show (9999 : Int) + 1 = 10000 by rfl, iso_10000]; exact (inRange_err _ (by omega)).symm
    · simp only [c2, ↓reduceIte]
      have hv : ValidYMD (y + 1) 1 4 := ⟨by omega, by omega, by decide, by decide, by decide, by
        have := dim_range (y + 1) 1; omega⟩
      have ht' := trunc_isoYear (y + 1) 1 4 hv
      simp only [Date.trunc] at ht'
      rw [fromYmd_eq_dayNumber _ 1 4 ⟨by omega, by omega⟩ (by omega), ht']
      congr 1
      simp only [truncOf]
      have b1 := iso_bounds (y + 1)
      have b2 := iso_bounds (y + 1 + 1)
      have s1 := iso_succ (y + 1)
      have j1 := dayNumber_jan (y + 1) 1
      have j4 := dayNumber_jan (y + 1) 4
      have hle : isoYearStart (y + 1) ≤ dayNumber (y + 1) 1 4 := by
        unfold isoYearStart; simp only []; omega
      have n1 : ¬ (isoYearStart (y + 1 + 1) ≤ dayNumber (y + 1) 1 4) := by omega
      simp only [n1, hle, ↓reduceIte]
  · simp only [c, ↓reduceIte]
    exact ht

theorem round_day (y m d : Int) (h : ValidYMD y m d) :
    (.ok (dayNumber y m d) : Chk Int) = inRangeDay (dayNumber y m d) :=
  ok_eq_inRange _ (dayNumber_range y m d h)

end UM

/-- Date rounding, all twelve units — except `century` on years divisible by 100, where the crate deviates
    (known finding D1, see `date_round_century_dev`). -/
theorem date_round_eq (u : TUnit) (y m d : Int) (h : ValidYMD y m d) (hD1 : u = .century → y % 100 ≠ 0) :
    Date.round u (dayNumber y m d) = inRangeDay (roundOf u (y, m, d) (dayNumber y m d)) := by
  cases u
  · exact UM.round_century y m d h (hD1 rfl)
  · exact UM.round_year y m d h
  · exact UM.round_isoYear y m d h
  · exact UM.round_quarter y m d h
  · exact UM.round_month y m d h
  · exact UM.round_week y m d h
  · exact UM.round_isoWeek y m d h
  · exact UM.round_msw y m d h
  · exact UM.round_day y m d h
  · exact UM.round_sunday y m d h
  · exact UM.round_day y m d h
  · exact UM.round_day y m d h

/-- What the crate does on the excluded inputs: a year divisible by 100 is sent to the START of its own century
    (the spec says: to the next one, since year 100 of a century is ≥ 51). -/
theorem date_round_century_dev (y m d : Int) (h : ValidYMD y m d) (hy : y % 100 = 0) (h9 : y ≤ 9900) :
    Date.round .century (dayNumber y m d) = .ok (dayNumber (y - 99) 1 1) ∧
    roundOf .century (y, m, d) (dayNumber y m d) = dayNumber (y + 1) 1 1 := by
  obtain ⟨he, hr⟩ := UM.facts y m d h
  obtain ⟨hy1, hy2, hd⟩ := h
  constructor
  · simp only [Date.round, Date.roundCentury, Date.year, he, DATE_MAX_YEAR]
    rw [rrem_nonneg_eq (by omega), rdiv_nonneg_eq (by omega)]
    have c : ¬ (y > 9999 - 49) := by omega
    have e : (y / 100 - 1) * 100 + 1 = y - 99 := by omega
    simp only [c, hy, ↓reduceIte, e]
    rw [fromYmd_eq_dayNumber _ 1 1 ⟨by omega, by omega⟩ (by omega)]
  · simp only [roundOf, nextStartOf]
    have c : (y - 1) % 100 + 1 ≥ 51 := by omega
    have e : (y - 1) / 100 * 100 + 101 = y + 1 := by omega
    simp only [c, ↓reduceIte, e]

namespace UM
open Cal

/-- `do d ← inRangeDay b; pure (new d 0)` is the spec's `map (· * DAY_US)`. -/
theorem bind_new (c : Chk Int) :
    (c >>= fun d => pure (Timestamp.new d 0)) = c.map (· * DAY_US) := by
  cases c with
  | error e => rfl
  | ok v => simp [bind, Except.bind, pure, Except.pure, Except.map, Timestamp.new, USECONDS_PER_DAY, DAY_US]

theorem ts_day_range (x : Int) (hx : isValidTimestamp x) :
    -719162 ≤ x / 86400000000 ∧ x / 86400000000 ≤ 2932896 := by
  have := (isValidTimestamp_iff x).1 hx; omega

theorem ts_trunc_date (u : TUnit) (x : Int) (y m d : Int) (h : ValidYMD y m d)
    (hd : dayNumber y m d = x / 86400000000) :
    (Date.trunc u (Timestamp.date x) >>= fun d => pure (Timestamp.new d 0)) =
      (inRangeDay (truncOf u (y, m, d) (x / DAY_US))).map (· * DAY_US) := by
  rw [Timestamp.date_eq, ← bind_new]
  have e : x / DAY_US = x / 86400000000 := rfl
  rw [e, ← hd, date_trunc_eq u y m d h]

end UM

/-- Timestamp truncation: `ymd` is the calendar date of the timestamp's day. -/
theorem ts_trunc_eq (u : TUnit) (x : Int) (hx : isValidTimestamp x) (y m d : Int) (h : ValidYMD y m d)
    (hd : dayNumber y m d = x / 86400000000) :
    Timestamp.trunc u x = truncTsOf u (y, m, d) x := by
  have _ := hx
  have ht : 0 ≤ x % 86400000000 := by omega
  cases u
  case hour =>
    simp only [Timestamp.trunc, truncTsOf, Timestamp.hour, Timestamp.date_eq, Timestamp.time_eq, Time.hour_eq _ ht,
      Timestamp.new, Time.fromHmsUnchecked, USECONDS_PER_DAY, USECONDS_PER_HOUR, USECONDS_PER_MINUTE, USECONDS_PER_SECOND]
    congr 1; omega
  case minute =>
    simp only [Timestamp.trunc, truncTsOf, Timestamp.date_eq, Timestamp.time_eq, Time.extract_eq _ ht,
      Timestamp.new, Time.fromHmsUnchecked, USECONDS_PER_DAY, USECONDS_PER_HOUR, USECONDS_PER_MINUTE, USECONDS_PER_SECOND]
    congr 1; omega
  case day =>
    have := UM.ts_trunc_date .day x y m d h hd
    simp only [Date.trunc, bind, Except.bind, pure, Except.pure] at this
    simp only [Timestamp.trunc, truncTsOf]
    exact this
  all_goals exact UM.ts_trunc_date _ x y m d h hd

namespace UM
open Cal

/-- A real date of years 1..10000 whose day number is representable is a date of years 1..9999. -/
theorem valid_of_le (y m d : Int) (h : IsDate y m d ∧ 1 ≤ y ∧ y ≤ 10000) (hn : dayNumber y m d ≤ 2932896) :
    ValidYMD y m d := by
  refine ⟨h.2.1, ?_, h.1⟩
  apply Decidable.byContradiction; intro hc
  have a := dayNumber_ge_of_year_ge y m d 10000 (by omega) h.1
  rw [dby_10000] at a; omega

/-- The shared prologue of the week roundings is the range check on the half-day-shifted day. -/
theorem shiftHalfDay_eq (x : Int) (hx : isValidTimestamp x) :
    Timestamp.shiftHalfDay x = inRangeDay ((x + 43200000000) / 86400000000) := by
  have hv := (isValidTimestamp_iff x).1 hx
  have ht : 0 ≤ x % 86400000000 := by omega
  have hdv : isValidDate (x / 86400000000) := (isValidDate_iff _).2 (by omega)
  unfold Timestamp.shiftHalfDay
  simp only [Timestamp.extract_eq, Time.hour_eq _ ht]
  by_cases c : x % 86400000000 / 3600000000 ≥ 12
  · simp only [c, ↓reduceIte, C11B.addDays_one _ hdv]
    have e : (x + 43200000000) / 86400000000 = x / 86400000000 + 1 := by omega
    rw [e]
    by_cases c2 : x / 86400000000 + 1 ≤ 2932896
    · simp only [c2, ↓reduceIte]; exact ok_eq_inRange _ (by omega)
    · simp only [c2, ↓reduceIte]; exact (inRange_err _ (by omega)).symm
  · simp only [c, ↓reduceIte]
    have e : (x + 43200000000) / 86400000000 = x / 86400000000 := by omega
    rw [e]; exact ok_eq_inRange _ (by omega)

/-- The four week roundings of a timestamp, given the date rounding `f` of the shifted day. -/
theorem ts_round_weekly (u : TUnit) (x : Int) (hx : isValidTimestamp x) (y m d : Int)
    (h : IsDate y m d ∧ 1 ≤ y ∧ y ≤ 10000) (hd : dayNumber y m d = (x + 43200000000) / DAY_US)
    (hu : u = .week ∨ u = .isoWeek ∨ u = .monthStartWeek ∨ u = .sundayStartWeek) :
    (Timestamp.shiftHalfDay x >>= fun date => Date.round u date >>= fun d => pure (Timestamp.new d 0)) =
      (inRangeDay ((x + 43200000000) / DAY_US)).bind fun n =>
        (inRangeDay (roundOf u (y, m, d) n)).map (· * DAY_US) := by
  rw [shiftHalfDay_eq x hx]
  have e : (x + 43200000000) / DAY_US = (x + 43200000000) / 86400000000 := rfl
  rw [e] at hd ⊢
  rw [← hd]
  by_cases c : dayNumber y m d ≤ 2932896
  · have hv := valid_of_le y m d h c
    rw [← ok_eq_inRange _ (dayNumber_range y m d hv)]
    simp only [bind, Except.bind]
    rw [date_round_eq u y m d hv (by rcases hu with r | r | r | r <;> subst r <;> intro hh <;> cases hh)]
    exact bind_new _
  · rw [inRange_err _ (by omega)]; rfl


theorem ts_round_date (u : TUnit) (x : Int) (hx : isValidTimestamp x) (y m d : Int)
    (h : IsDate y m d ∧ 1 ≤ y ∧ y ≤ 10000) (hd : dayNumber y m d = x / DAY_US)
    (hD1 : u = .century → y % 100 ≠ 0) :
    (Date.round u (Timestamp.date x) >>= fun d => pure (Timestamp.new d 0)) =
      (inRangeDay (x / DAY_US)).bind fun n => (inRangeDay (roundOf u (y, m, d) n)).map (· * DAY_US) := by
  have hr := ts_day_range x hx
  have e : x / DAY_US = x / 86400000000 := rfl
  rw [e] at hd ⊢
  rw [Timestamp.date_eq, ← ok_eq_inRange _ hr, ← hd]
  have hv := valid_of_le y m d h (by omega)
  rw [date_round_eq u y m d hv hD1]
  exact bind_new _

theorem ts_round_hour (x : Int) (hx : isValidTimestamp x) (ymd : Int × Int × Int) :
    Timestamp.round .hour x = roundTsOf .hour ymd x := by
  have hv := (isValidTimestamp_iff x).1 hx
  have ht : 0 ≤ x % 86400000000 := by omega
  have hdv : isValidDate (x / 86400000000) := (isValidDate_iff _).2 (by omega)
  simp only [Timestamp.round, roundTsOf, inRangeTs, MIN_DAY, MAX_DAY, DAY_US, Timestamp.date_eq, Timestamp.time_eq,
    Time.extract_eq _ ht, Timestamp.new, Time.fromHmsUnchecked, USECONDS_PER_DAY, USECONDS_PER_HOUR,
    USECONDS_PER_MINUTE, USECONDS_PER_SECOND]
  by_cases c1 : x % 86400000000 % 3600000000 / 60000000 ≥ 30
  · have c1' : x - (x - x % 3600000000) ≥ 1800000000 := by omega
    simp only [c1, c1', ↓reduceIte]
    by_cases c2 : x % 86400000000 / 3600000000 ≥ 23
    · simp only [c2, ↓reduceIte, C11B.addDays_one _ hdv]
      by_cases c3 : x / 86400000000 + 1 ≤ 2932896
      · have r : -719162 * 86400000000 ≤ x - x % 3600000000 + 3600000000 ∧
            x - x % 3600000000 + 3600000000 ≤ (2932896 + 1) * 86400000000 - 1 := by omega
        simp only [c3, r, and_self, ↓reduceIte, bind, Except.bind, pure, Except.pure]
        congr 1; omega
      · have r : ¬ (-719162 * 86400000000 ≤ x - x % 3600000000 + 3600000000 ∧
            x - x % 3600000000 + 3600000000 ≤ (2932896 + 1) * 86400000000 - 1) := by omega
        simp only [c3, r, ↓reduceIte, bind, Except.bind]
    · have r : -719162 * 86400000000 ≤ x - x % 3600000000 + 3600000000 ∧
          x - x % 3600000000 + 3600000000 ≤ (2932896 + 1) * 86400000000 - 1 := by omega
      simp only [c2, r, and_self, ↓reduceIte, pure, Except.pure]
      congr 1; omega
  · have c1' : ¬ (x - (x - x % 3600000000) ≥ 1800000000) := by omega
    have r : -719162 * 86400000000 ≤ x - x % 3600000000 ∧
        x - x % 3600000000 ≤ (2932896 + 1) * 86400000000 - 1 := by omega
    simp only [c1, c1', r, and_self, ↓reduceIte, pure, Except.pure]
    congr 1; omega

theorem ts_round_minute (x : Int) (hx : isValidTimestamp x) (ymd : Int × Int × Int) :
    Timestamp.round .minute x = roundTsOf .minute ymd x := by
  have hv := (isValidTimestamp_iff x).1 hx
  have ht : 0 ≤ x % 86400000000 := by omega
  have hdv : isValidDate (x / 86400000000) := (isValidDate_iff _).2 (by omega)
  simp only [Timestamp.round, roundTsOf, inRangeTs, MIN_DAY, MAX_DAY, DAY_US, Timestamp.date_eq, Timestamp.time_eq,
    Time.extract_eq _ ht, Timestamp.new, Time.fromHmsUnchecked, USECONDS_PER_DAY, USECONDS_PER_HOUR,
    USECONDS_PER_MINUTE, USECONDS_PER_SECOND]
  by_cases c1 : x % 86400000000 % 60000000 / 1000000 ≥ 30
  · have c1' : x - (x - x % 60000000) ≥ 30000000 := by omega
    simp only [c1, c1', ↓reduceIte]
    by_cases c2 : x % 86400000000 % 3600000000 / 60000000 = 59
    · simp only [c2, ↓reduceIte]
      by_cases c4 : x % 86400000000 / 3600000000 = 23
      · simp only [c4, ↓reduceIte, C11B.addDays_one _ hdv]
        by_cases c3 : x / 86400000000 + 1 ≤ 2932896
        · have r : -719162 * 86400000000 ≤ x - x % 60000000 + 60000000 ∧
              x - x % 60000000 + 60000000 ≤ (2932896 + 1) * 86400000000 - 1 := by omega
          simp only [c3, r, and_self, ↓reduceIte, bind, Except.bind, pure, Except.pure]
          congr 1; omega
        · have r : ¬ (-719162 * 86400000000 ≤ x - x % 60000000 + 60000000 ∧
              x - x % 60000000 + 60000000 ≤ (2932896 + 1) * 86400000000 - 1) := by omega
          simp only [c3, r, ↓reduceIte, bind, Except.bind]
      · have r : -719162 * 86400000000 ≤ x - x % 60000000 + 60000000 ∧
            x - x % 60000000 + 60000000 ≤ (2932896 + 1) * 86400000000 - 1 := by omega
        simp only [c4, r, and_self, ↓reduceIte, pure, Except.pure]
        congr 1; omega
    · have r : -719162 * 86400000000 ≤ x - x % 60000000 + 60000000 ∧
          x - x % 60000000 + 60000000 ≤ (2932896 + 1) * 86400000000 - 1 := by omega
      simp only [c2, r, and_self, ↓reduceIte, pure, Except.pure]
      congr 1; omega
  · have c1' : ¬ (x - (x - x % 60000000) ≥ 30000000) := by omega
    have r : -719162 * 86400000000 ≤ x - x % 60000000 ∧
        x - x % 60000000 ≤ (2932896 + 1) * 86400000000 - 1 := by omega
    simp only [c1, c1', r, and_self, ↓reduceIte, pure, Except.pure]
    congr 1; omega

theorem ts_round_day (x : Int) (hx : isValidTimestamp x) (ymd : Int × Int × Int) :
    Timestamp.round .day x = roundTsOf .day ymd x := by
  have hv := (isValidTimestamp_iff x).1 hx
  rw [C11B.ts_round_day x hx]
  simp only [roundTsOf, decidingDay, roundOf, DAY_US]
  by_cases c : x % 86400000000 ≥ 43200000000
  · have e : (x + 43200000000) / 86400000000 = x / 86400000000 + 1 := by omega
    simp only [c, ↓reduceIte, e]
    by_cases c2 : x / 86400000000 + 1 ≤ 2932896
    · rw [← ok_eq_inRange _ (by omega)]
      simp only [c2, ↓reduceIte, Except.bind]
      rw [← ok_eq_inRange _ (by omega)]; rfl
    · rw [inRange_err _ (by omega)]; simp only [c2, ↓reduceIte]; rfl
  · have e : (x + 43200000000) / 86400000000 = x / 86400000000 := by omega
    simp only [c, ↓reduceIte, e]
    rw [← ok_eq_inRange _ (by omega)]
    simp only [Except.bind]
    rw [← ok_eq_inRange _ (by omega)]
    simp only [Except.map]; congr 1; omega

end UM

/-- Timestamp rounding: `ymd` is the calendar date of the deciding day (shifted by half a day for the week units and
    the day unit); same exclusion as for dates. For the shifted units the deciding day may be 10000-01-01, in which
    case both sides are `DateOutOfRange`; the hypothesis therefore only asks for a real date of years 1..10000. -/
theorem ts_round_eq (u : TUnit) (x : Int) (hx : isValidTimestamp x) (y m d : Int)
    (h : IsDate y m d ∧ 1 ≤ y ∧ y ≤ 10000) (hd : dayNumber y m d = decidingDay u x)
    (hD1 : u = .century → y % 100 ≠ 0) :
    Timestamp.round u x = roundTsOf u (y, m, d) x := by
  cases u
  case hour => exact UM.ts_round_hour x hx _
  case minute => exact UM.ts_round_minute x hx _
  case day => exact UM.ts_round_day x hx _
  case week => exact UM.ts_round_weekly .week x hx y m d h hd (by simp)
  case isoWeek => exact UM.ts_round_weekly .isoWeek x hx y m d h hd (by simp)
  case monthStartWeek => exact UM.ts_round_weekly .monthStartWeek x hx y m d h hd (by simp)
  case sundayStartWeek => exact UM.ts_round_weekly .sundayStartWeek x hx y m d h hd (by simp)
  all_goals exact UM.ts_round_date _ x hx y m d h hd hD1

end SqlDt.Lemmas
