/-
  Lemmas/TranslatedFmtEq (hand-written, stable; phase 6): `Tr.f = model f` for the byte-slice leaf functions of
  src/format.rs that tools/rs2lean.py emits into SqlDt/TranslatedFmt.lean.
  Same namespace (`SqlDt.TrEq`) and attribute (`tr_eq`) as Lemmas/TranslatedEq, but independent of that file (the
  leaf functions call nothing of the integer core), so lake builds it in parallel.

  Text is `List Nat` on both sides.  A `usize` parameter is an `Int` in the translation and a `Nat` in the model:
  the statements use `n.toNat`, and hold for every `Int` (also negative ones, which no `usize` is).
  Every proof starts with the alternative "the function is an UNTRANSLATED alias of the model".
-/
import SqlDt.TranslatedFmt
import SqlDt.Lemmas.TrAttr
import SqlDt.Model.Parse
set_option linter.unusedVariables false
set_option linter.unusedSimpArgs false
namespace SqlDt.TrEq
open SqlDt SqlDt.Gen SqlDt.TrTactic

/-! ### the combinators of the translation against the model's vocabulary -/

theorem isAsciiDigit_ofNat (n : Nat) : Tr.isAsciiDigit (Int.ofNat n) = isDigitB n := by
  unfold Tr.isAsciiDigit isDigitB
  rw [Bool.eq_iff_iff]; simp; omega

theorem isAsciiWhitespace_ofNat (n : Nat) : Tr.isAsciiWhitespace (Int.ofNat n) = isWhitespaceB n := by
  unfold Tr.isAsciiWhitespace isWhitespaceB
  rw [Bool.eq_iff_iff]; simp; omega

theorem isAsciiUppercase_ofNat (n : Nat) : Tr.isAsciiUppercase (Int.ofNat n) = isUpperB n := by
  unfold Tr.isAsciiUppercase isUpperB
  rw [Bool.eq_iff_iff]; simp; omega

theorem isAsciiLowercase_ofNat (n : Nat) : Tr.isAsciiLowercase (Int.ofNat n) = isLowerB n := by
  unfold Tr.isAsciiLowercase isLowerB
  rw [Bool.eq_iff_iff]; simp; omega

theorem toNat_ofNat (n : Nat) : (Int.ofNat n).toNat = n := rfl

theorem drop_takeWhile_length {α} (p : α → Bool) (s : List α) :
    s.drop (s.takeWhile p).length = s.dropWhile p := by
  induction s with
  | nil => rfl
  | cons a s ih => by_cases h : p a <;> simp [List.takeWhile, List.dropWhile, h, ih]

theorem asU8_small {x : Int} (h0 : 0 ≤ x) (h1 : x < 256) : asU8 x = x := by unfold asU8; omega

/-- unfold the slice / iterator combinators and read the byte predicates through the model's -/
macro "tr_bytes" : tactic => `(tactic| simp only [Tr.bFrom, Tr.bTo, Tr.bSlice, Tr.bLen, Tr.bFirst, Tr.bPosition,
  isAsciiDigit_ofNat, isAsciiWhitespace_ofNat, isAsciiUppercase_ofNat, isAsciiLowercase_ofNat, toNat_ofNat,
  Int.toNat_natCast, drop_takeWhile_length])

/-- the leaves of a case split over byte values: `Int.ofNat b` against `b`, wrapped `u8` arithmetic against `Nat` -/
macro "tr_bytes_close" : tactic => `(tactic| (
  repeat' split
  all_goals first
    | rfl
    | omega
    | (simp only [Except.ok.injEq, Prod.mk.injEq, reduceCtorEq, and_true, true_and]; omega)
    | norm_cast
    | (simp_all; done)))

/-! ### `expect_char` -/

@[tr_eq] theorem expect_char_eq (s : List Nat) (expected : Int) :
    Tr.expect_char s expected = decide ((List.head? s).map Int.ofNat = some expected) := by
  unfold Tr.expect_char
  first
  | (with_reducible_and_instances rfl)
  | (cases s <;> simp [Tr.bFirst, Tr.bGet, Tr.bLen, idxD])

/-- The model has no function of that name: its `Parser.expectChar` is the pair of macros `expect_char!` /
    `expect_char_with_tolerence!` of `parse_internal`.  This is how it reads through the translated function. -/
theorem expectChar_via_tr (st : Parser.St) (ch : Nat) (tolerant : Bool) :
    Parser.expectChar st ch tolerant =
      if Tr.expect_char st.s (Int.ofNat ch) = true then .ok { st with s := st.s.drop 1 }
      else if st.s.isEmpty = true ∧ tolerant = true then .ok st else Parser.perr := by
  rw [expect_char_eq]
  unfold Parser.expectChar
  cases h : st.s with
  | nil => cases tolerant <;> simp
  | cons c r =>
    by_cases hc : c = ch
    · subst hc; simp
    · have : ¬ (c : Int) = (ch : Int) := by omega
      simp [hc, this]

/-! ### `eat_whitespaces`, `eat_digits` -/

@[tr_eq] theorem eat_whitespaces_eq (s : List Nat) : Tr.eat_whitespaces s = Parser.eatWhitespaces s := by
  first
  | (unfold Tr.eat_whitespaces; with_reducible_and_instances rfl)
  | (unfold Tr.eat_whitespaces Parser.eatWhitespaces
     tr_bytes
     done)
  | -- any other way of skipping the prefix (`position`, ..): by induction on the text, through the recursion equations
    -- of whatever list functions the translation uses
    (unfold Parser.eatWhitespaces
     induction s with
     | nil => simp [Tr.eat_whitespaces, Tr.bFrom, Tr.bLen, Tr.bPosition]
     | cons a r ih =>
       rw [List.dropWhile_cons, ← ih]
       unfold Tr.eat_whitespaces
       simp only [Tr.bFrom, Tr.bTo, Tr.bLen, Tr.bPosition, isAsciiWhitespace_ofNat, toNat_ofNat, List.takeWhile_cons,
         List.findIdx?_cons]
       by_cases h : isWhitespaceB a <;> simp [h] <;>
         first | done | (cases hfi : List.findIdx? _ r <;> simp_all; done))

@[tr_eq] theorem eat_digits_eq (s : List Nat) (max_len : Int) :
    Tr.eat_digits s max_len = Parser.eatDigits s max_len.toNat := by
  unfold Tr.eat_digits
  first
  | (with_reducible_and_instances rfl)
  | (unfold Parser.eatDigits
     tr_bytes)

/-! ### `parse_week_day_number`, `parse_number` -/

@[tr_eq] theorem parse_week_day_number_eq (s : List Nat) :
    Tr.parse_week_day_number s = Parser.parseWeekDayNumber s := by
  unfold Tr.parse_week_day_number
  first
  | (with_reducible_and_instances rfl)
  | (cases s with
     | nil =>
       simp [Parser.parseWeekDayNumber, Parser.perr, Tr.bGet, Tr.bFrom, Tr.bFirst, idxD, asU8]
       first | done | tr_bytes_close
     | cons a r =>
       simp [Parser.parseWeekDayNumber, Parser.perr, Tr.bGet, Tr.bFrom, Tr.bFirst, idxD, asU8]
       first | done | tr_bytes_close)

@[tr_eq] theorem parse_number_eq (input : List Nat) (max_len : Int) :
    Tr.parse_number input max_len = Parser.parseNumber input max_len.toNat := by
  unfold Tr.parse_number
  first
  | (with_reducible_and_instances rfl)
  | (simp only [tr_eq]
     cases input with
     | nil => simp [Tr.bFirst, Parser.parseNumber, Parser.perr]
     | cons a r =>
       simp [Tr.bFirst, Tr.bFrom, Tr.bGet, idxD, Parser.parseNumber, Parser.foldDigits, Parser.perr, B]
       first
         | done
         | (norm_cast; done)
         | -- the model distinguishes `+`, `-` and everything else
           (have c43 : ((a : Int) = 43) = (a = 43) := by simp only [eq_iff_iff]; omega
            have c45 : ((a : Int) = 45) = (a = 45) := by simp only [eq_iff_iff]; omega
            simp only [c43, c45]
            by_cases h43 : a = 43 <;> by_cases h45 : a = 45 <;> simp_all <;> done)
         | tr_bytes_close)

/-! ### `write_u32`: the digit loop -/

theorem digitsRev_small (fuel v : Nat) (h : v < 10) : digitsRev (fuel + 1) v = [v + 48] := by
  have : ¬ v ≥ 10 := by omega
  simp [digitsRev, this]
theorem digitsRev_big (fuel v : Nat) (h : 10 ≤ v) :
    digitsRev (fuel + 1) v = (v % 10 + 48) :: digitsRev fuel (v / 10) := by
  have : v ≥ 10 := h
  simp [digitsRev, this]

/-- The loop `while val >= 10 { buf[index] = val % 10 + '0'; index -= 1; val /= 10 }` over the state
    `(buf, index, val)`, followed by the store of the leading digit: the digits of `v` (most significant first) end
    at position `i`, everything else is untouched.  `cond` / `step` are abstract: only what they compute matters. -/
theorem digits_loop_nat {cond : List Nat × Int × Int → Bool} {step : List Nat × Int × Int → List Nat × Int × Int}
    (hC : ∀ b i v, cond (b, i, v) = decide (v ≥ 10))
    (hS : ∀ b i v, 0 ≤ i → 0 ≤ v → step (b, i, v) = (Tr.bSet b i (v % 10 + 48), i - 1, v / 10)) :
    ∀ (fuel : Nat) (b : List Nat) (i v : Nat), v < 10 ^ (fuel + 1) → fuel ≤ i → i < b.length →
      ∃ (j v' : Nat), (Tr.loopN fuel cond step (b, (i : Int), (v : Int))).2.1 = (j : Int) ∧
        (Tr.loopN fuel cond step (b, (i : Int), (v : Int))).2.2 = (v' : Int) ∧ v' < 10 ∧
        j + (digitsRev (fuel + 1) v).length = i + 1 ∧
        (Tr.loopN fuel cond step (b, (i : Int), (v : Int))).1.set j (v' + 48) =
          b.take j ++ (digitsRev (fuel + 1) v).reverse ++ b.drop (i + 1) := by
  intro fuel
  induction fuel with
  | zero =>
    intro b i v hv hi hb
    have hv10 : v < 10 := by simpa using hv
    refine ⟨i, v, rfl, rfl, hv10, ?_, ?_⟩
    · simp [digitsRev_small _ _ hv10]
    · simp [Tr.loopN, digitsRev_small _ _ hv10, List.set_eq_take_append_cons_drop, hb]
  | succ n ih =>
    intro b i v hv hi hb
    by_cases h10 : v ≥ 10
    · have hc : cond (b, (i : Int), (v : Int)) = true := by rw [hC]; simp; omega
      have hstep := hS b (i : Int) (v : Int) (by omega) (by omega)
      have e1 : ((i : Int) - 1) = ((i - 1 : Nat) : Int) := by omega
      have e2 : ((v : Int) / 10) = ((v / 10 : Nat) : Int) := by omega
      have e3 : Tr.bSet b (i : Int) ((v : Int) % 10 + 48) = b.set i (v % 10 + 48) := by
        unfold Tr.bSet
        have : ¬ ((i : Int) < 0) := by omega
        simp only [this, ↓reduceIte, Int.toNat_natCast]
        congr 1
      rw [e1, e2, e3] at hstep
      have hv1 : v / 10 < 10 ^ (n + 1) := by
        have : 10 ^ (n + 1 + 1) = 10 * 10 ^ (n + 1) := by rw [Nat.pow_succ, Nat.mul_comm]
        omega
      obtain ⟨j, v', h1, h2, h3, h4, h5⟩ := ih (b.set i (v % 10 + 48)) (i - 1) (v / 10) hv1 (by omega)
        (by simp; omega)
      have hl : Tr.loopN (n + 1) cond step (b, (i : Int), (v : Int)) =
          Tr.loopN n cond step (b.set i (v % 10 + 48), ((i - 1 : Nat) : Int), ((v / 10 : Nat) : Int)) := by
        rw [Tr.loopN, hc, hstep]; simp
      rw [hl]
      refine ⟨j, v', h1, h2, h3, ?_, ?_⟩
      · rw [digitsRev_big _ _ h10]; simp; omega
      · rw [h5, digitsRev_big _ _ h10]
        have hj : j < i := by
          have hp : 1 ≤ (digitsRev (n + 1) (v / 10)).length := by
            unfold digitsRev; split <;> simp
          omega
        have t1 : (b.set i (v % 10 + 48)).take j = b.take j := by
          rw [List.take_set_of_le (by omega)]
        have t2 : (b.set i (v % 10 + 48)).drop (i - 1 + 1) = (v % 10 + 48) :: b.drop (i + 1) := by
          have : i - 1 + 1 = i := by omega
          rw [this, List.set_eq_take_append_cons_drop]
          simp only [hb, ↓reduceIte]
          have hlen : (List.take i b).length = i := by simp; omega
          exact List.drop_left' hlen
        rw [t1, t2]; simp
    · have hv10 : v < 10 := by omega
      have hc : cond (b, (i : Int), (v : Int)) = false := by rw [hC]; simp; omega
      refine ⟨i, v, ?_, ?_, hv10, ?_, ?_⟩
      · rw [Tr.loopN, hc]; simp
      · rw [Tr.loopN, hc]; simp
      · simp [digitsRev_small _ _ hv10]
      · rw [Tr.loopN, hc]
        simp [digitsRev_small _ _ hv10, List.set_eq_take_append_cons_drop, hb]

/-- the loop body of the translation computes `(buf[index] := val % 10 + '0', index - 1, val / 10)`, however it is written -/
macro "tr_digit_loop_step" : tactic => `(tactic| (
  intro b i x hi hx
  try simp (disch := omega) only [asU8_small]
  first
    | done
    | rfl
    | (simp only [Prod.mk.injEq, and_true, true_and]
       repeat' apply And.intro
       all_goals first | rfl | omega | (congr 1; omega) | (congr 1; simp (disch := omega) only [asU8_small]; omega))))

/-- the same, about a loop that is given by an equation (so that `cond` and `step` are read off the goal) -/
theorem digits_loop {cond : List Nat × Int × Int → Bool} {step : List Nat × Int × Int → List Nat × Int × Int}
    {fuel : Nat} {b : List Nat} {i' v' : Int} {st : List Nat × Int × Int}
    (hst : Tr.loopN fuel cond step (b, i', v') = st) (i v : Nat) (hi' : i' = (i : Int)) (hv' : v' = (v : Int))
    (hC : ∀ b i v, cond (b, i, v) = decide (v ≥ 10))
    (hS : ∀ b i v, 0 ≤ i → 0 ≤ v → step (b, i, v) = (Tr.bSet b i (v % 10 + 48), i - 1, v / 10))
    (hv : v < 10 ^ (fuel + 1)) (hi : fuel ≤ i) (hb : i < b.length) :
    ∃ (j w : Nat), st.2.1 = (j : Int) ∧ st.2.2 = (w : Int) ∧ w < 10 ∧
      j + (digitsRev (fuel + 1) v).length = i + 1 ∧
      st.1.set j (w + 48) = b.take j ++ (digitsRev (fuel + 1) v).reverse ++ b.drop (i + 1) := by
  subst hi' hv' hst
  exact digits_loop_nat hC hS fuel b i v hv hi hb

/-- `write_u32(w, value, width)` writes what the model's `writeU32` returns: for every `u32` value and every width up to
    11 (the crate asserts `0 < width < 11`; with a larger width the index computation `index -= width - len` would
    underflow, see `write_u32_safe`). -/
@[tr_eq] theorem write_u32_eq (value width : Int) (hv0 : 0 ≤ value) (hv1 : value ≤ 4294967295) (hw : width ≤ 11) :
    Tr.write_u32 value width = writeU32 value width.toNat := by
  unfold Tr.write_u32
  first
  | (with_reducible_and_instances rfl)
  | (obtain ⟨v, rfl⟩ : ∃ v : Nat, value = (v : Int) := ⟨value.toNat, by omega⟩
     simp only []
     generalize hst : Tr.loopN _ _ _ _ = st
     obtain ⟨j, w, h1, h2, h3, h4, h5⟩ := digits_loop hst 10 v (by simp) rfl
       (by intros; rfl)
       (by tr_digit_loop_step)
       (by omega) (by omega) (by simp)
     have hset : Tr.bSet st.1 st.2.1 (asU8 st.2.2 + 48) = List.replicate j 48 ++ (digitsRev 11 v).reverse := by
       rw [h1, h2, asU8_small (by omega) (by omega)]
       have e : Tr.bSet st.1 (j : Int) ((w : Int) + 48) = st.1.set j (w + 48) := by
         unfold Tr.bSet
         have : ¬ ((j : Int) < 0) := by omega
         simp only [this, ↓reduceIte, Int.toNat_natCast]
         congr 1
       rw [e, h5]
       have hj : j ≤ 11 := by omega
       simp only [List.take_replicate, List.drop_replicate, Nat.min_eq_left hj, Nat.reduceAdd, Nat.reduceSub,
         List.replicate_zero, List.append_nil]
     rw [hset, h1]
     generalize hds : digitsRev 11 v = ds at *
     have hL : j + ds.length = 11 := by simpa using h4
     unfold writeU32 Tr.bSlice
     simp only [List.nil_append, Int.toNat_natCast, hds]
     have htake : List.take (Int.toNat 11) (List.replicate j 48 ++ ds.reverse) = List.replicate j 48 ++ ds.reverse := by
       apply List.take_of_length_le; simp; omega
     rw [htake]
     have hk : (if width > 11 - (j : Int) then (j : Int) - (width - (11 - (j : Int))) else (j : Int)).toNat =
         j - (width.toNat - ds.length) := by split <;> omega
     have hm : j - (j - (width.toNat - ds.length)) = width.toNat - ds.length := by omega
     rw [hk, List.drop_append_of_le_length (by simp), List.drop_replicate, hm, List.length_reverse])

/-! ### the `f64` table `FRACTION_FACTOR`: `parse_fraction`, `NaiveDateTime::fraction` -/

/-- the crate's table of `f64` literals, as the translator renders it (integer-valued literals as `F64.ofInt n`, the others
    by their IEEE-754 bits), is the table of bit patterns in `Generated.lean` -/
theorem fraction_factor_table :
    [F64.ofInt 1000000, F64.ofInt 100000, F64.ofInt 10000, F64.ofInt 1000, F64.ofInt 100, F64.ofInt 10, F64.ofInt 1,
      F64.ofBits 0x3fb999999999999a, F64.ofBits 0x3f847ae147ae147b, F64.ofBits 0x3f50624dd2f1a9fc] =
    FRACTION_FACTOR_BITS.map F64.ofBits := by decide

/-- the model's panicking `idx` against the translation's `idxD`, through a `map` -/
theorem idx_map_ok {α β} (f : α → β) (xs : List α) (i : Int) (d : β) (h0 : 0 ≤ i) (h1 : i < (xs.length : Int)) :
    ∃ b, idx xs i = .ok b ∧ idxD (xs.map f) i d = f b := by
  unfold idx idxD
  have hn : ¬ i < 0 := by omega
  have hl : i.toNat < xs.length := by omega
  refine ⟨xs[i.toNat], ?_, ?_⟩
  · simp only [hn, ↓reduceIte, List.getElem?_eq_getElem hl]
  · simp [hn, hl]

theorem takeWhile_length_le {α} (p : α → Bool) (s : List α) : (s.takeWhile p).length ≤ s.length := by
  induction s with
  | nil => simp
  | cons a s ih => by_cases h : p a <;> simp [List.takeWhile, h] <;> omega

theorem eatDigits_fst_length (s : List Nat) (n : Nat) : (Parser.eatDigits s n).1.length ≤ n := by
  unfold Parser.eatDigits
  simp only [List.length_take]
  have := takeWhile_length_le isDigitB (List.take n s)
  simp at this
  omega

/-- `NaiveDateTime::fraction(p)` for a precision `p` in 0..9 (the crate asserts `p < 10`; the model's function returns a
    `Chk` because its table access is the panicking one). -/
@[tr_eq] theorem NDT.fraction_eq (dt : NDT) (p : Int) (h0 : 0 ≤ p) (h1 : p ≤ 9) :
    NDT.fraction dt p.toNat = .ok (Tr.NDT.fraction dt p) := by
  unfold Tr.NDT.fraction
  first
  | -- the UNTRANSLATED alias reads the model's result back
    (obtain ⟨b, hb1, hb2⟩ := idx_map_ok F64.ofBits FRACTION_FACTOR_BITS p (F64.ofInt 0) h0
       (by simp [FRACTION_FACTOR_BITS]; omega)
     have hp : ((p.toNat : Nat) : Int) = p := by omega
     simp only [NDT.fraction, hp, hb1, bind, Except.bind, pure, Except.pure]
     done)
  | (obtain ⟨b, hb1, hb2⟩ := idx_map_ok F64.ofBits FRACTION_FACTOR_BITS p (F64.ofInt 0) h0
       (by simp [FRACTION_FACTOR_BITS]; omega)
     unfold NDT.fraction
     have hp : ((p.toNat : Nat) : Int) = p := by omega
     simp only [fraction_factor_table, hp, hb1, hb2, bind, Except.bind, pure, Except.pure])

/-- `parse_fraction(s, max_len)` for `max_len ≤ 9` (the callers pass the precision of the `FF[1-9]` field, 9 by default):
    with ten digits the table access `FRACTION_FACTOR[digits.len()]` is out of bounds (the model says `Panic`). -/
@[tr_eq] theorem parse_fraction_eq (s : List Nat) (max_len : Int) (hm : max_len ≤ 9) :
    Tr.parse_fraction s max_len = Parser.parseFraction s max_len.toNat := by
  unfold Tr.parse_fraction
  first
  | (with_reducible_and_instances rfl)
  | (simp only [tr_eq, fraction_factor_table]
     have hlen := eatDigits_fst_length s max_len.toNat
     obtain ⟨b, hb1, hb2⟩ := idx_map_ok F64.ofBits FRACTION_FACTOR_BITS
       (Tr.bLen (Parser.eatDigits s max_len.toNat).1) (F64.ofInt 0)
       (by simp [Tr.bLen]) (by simp [FRACTION_FACTOR_BITS, Tr.bLen]; omega)
     cases s with
     | nil => simp [Tr.bFirst, Parser.parseFraction]
     | cons a r =>
       simp only [Tr.bLen, Int.ofNat_eq_natCast] at hb1 hb2
       have c45 : ((a : Int) = 45) = (a = 45) := by simp only [eq_iff_iff]; omega
       simp only [Tr.bFirst, Tr.bLen, Parser.parseFraction, Parser.perr, Parser.foldDigits, B, Int.ofNat_eq_natCast,
         hb1, hb2, c45, bind, Except.bind, pure, Except.pure, Char.reduceToNat])

/-! ### `CaseInsensitive::starts_with`, `parse_ampm` -/

theorem toAsciiLowercase_ofNat (n : Nat) : Tr.toAsciiLowercase (Int.ofNat n) = Int.ofNat (toLowerB n) := by
  unfold Tr.toAsciiLowercase toLowerB isUpperB
  simp only [Int.ofNat_eq_natCast]
  by_cases h : 65 ≤ n ∧ n ≤ 90
  · have h' : (65 : Int) ≤ n ∧ (n : Int) ≤ 90 := by omega
    simp [h, h']
  · have h' : ¬ ((65 : Int) ≤ n ∧ (n : Int) ≤ 90) := by omega
    have h2 : ¬ (65 ≤ n ∧ n ≤ 90) := h
    simp only [h', ↓reduceIte]
    have : (decide (65 ≤ n) && decide (n ≤ 90)) = false := by simp; omega
    simp [this]

/-- the crate's `CaseInsensitive::starts_with` (length test, then `eq_ignore_ascii_case` with the prefix) is the model's -/
theorem startsWithCI_via_tr : ∀ (n s : List Nat),
    decide (Tr.bLen s ≥ Tr.bLen n ∧ Tr.bEqIgnoreCase n (Tr.bTo s (Tr.bLen n)) = true) = startsWithCI s n := by
  intro n
  induction n with
  | nil => intro s; cases s <;> simp [Tr.bLen, Tr.bTo, Tr.bEqIgnoreCase, startsWithCI] <;> omega
  | cons b t ih =>
    intro s
    cases s with
    | nil => simp [Tr.bLen, Tr.bTo, Tr.bEqIgnoreCase, startsWithCI] <;> omega
    | cons a r =>
      have h := ih r
      simp only [Tr.bLen, Tr.bTo, Int.ofNat_eq_natCast, Int.toNat_natCast] at h ⊢
      simp only [List.length_cons, List.take_succ_cons, Tr.bEqIgnoreCase, startsWithCI, eqIgnoreCaseB,
        toAsciiLowercase_ofNat]
      rw [← h]
      rw [Bool.eq_iff_iff]
      simp only [Int.ofNat_eq_natCast, decide_eq_true_eq, Bool.and_eq_true, beq_iff_eq]
      constructor
      · intro ⟨h1, h2, h3⟩
        exact ⟨by omega, decide_eq_true ⟨by omega, h3⟩⟩
      · intro ⟨h1, h2⟩
        have h3 := of_decide_eq_true h2
        exact ⟨by omega, by omega, h3.2⟩

theorem bFrom_ofNat (s : List Nat) (k : Nat) : Tr.bFrom s (k : Int) = s.drop k := by
  unfold Tr.bFrom; simp

/-- `AmPmStyle` is its discriminant in the translation: `Upper, Lower, UpperDot, LowerDot` = 0..3 (`AmPmStyle.index`) -/
@[tr_eq] theorem parse_ampm_eq (s : List Nat) (style : AmPmStyle) :
    Tr.parse_ampm s (Int.ofNat style.index) = Parser.parseAmPm s style := by
  unfold Tr.parse_ampm
  first
  | (cases style <;> with_reducible_and_instances rfl)
  | (cases style <;> simp [AmPmStyle.index] <;> done)
  | (simp only [startsWithCI_via_tr]
     cases s <;> cases style <;>
       simp [AmPmStyle.index, Parser.parseAmPm, Parser.perr, Tr.bFrom, B])

/-! ### the search loops over the name tables: `parse_month_name`, `parse_week_day_name` -/

/-- a search loop whose body is "if the text starts with this name: return its number and the rest" is the model's `findName` -/
theorem forFirst_findName (s : List Nat) {f : Int → List Nat → Option (Chk (Int × List Nat))}
    (hf : ∀ i x, f i x = if startsWithCI s x = true then some (Except.ok (i + 1, s.drop x.length)) else none) :
    ∀ (xs : List (List Nat)) (k : Nat),
      Tr.forFirst f (k : Int) xs =
        (Parser.findName s xs (k + 1)).map (fun p => (Except.ok (Int.ofNat p.1, s.drop p.2) : Chk (Int × List Nat))) := by
  intro xs
  induction xs with
  | nil => intro k; simp [Tr.forFirst, Parser.findName]
  | cons x xs ih =>
    intro k
    unfold Tr.forFirst Parser.findName
    rw [hf]
    by_cases h : startsWithCI s x = true
    · simp [h]
    · simp only [h, ↓reduceIte]
      have := ih (k + 1)
      simpa using this

theorem forFirst_findName0 (s : List Nat) {f : Int → List Nat → Option (Chk (Int × List Nat))} (xs : List (List Nat))
    (hf : ∀ i x, f i x = if startsWithCI s x = true then some (Except.ok (i + 1, s.drop x.length)) else none) :
    Tr.forFirst f 0 xs =
      (Parser.findName s xs 1).map (fun p => (Except.ok (Int.ofNat p.1, s.drop p.2) : Chk (Int × List Nat))) := by
  have := forFirst_findName s hf xs 0
  simpa using this

@[tr_eq] theorem parse_month_name_eq (s : List Nat) : Tr.parse_month_name s = Parser.parseMonthName s := by
  unfold Tr.parse_month_name
  first
  | (with_reducible_and_instances rfl)
  | (simp only [startsWithCI_via_tr]
     simp only [Tr.bFrom, Tr.bLen, toNat_ofNat]
     rw [forFirst_findName0 s, forFirst_findName0 s]
     · unfold Parser.parseMonthName
       simp only [idxD, NAMESTYLE_CAPITAL, NAMESTYLE_ABBRCAPITAL, Parser.perr, Int.reduceToNat, Int.reduceLT,
         ↓reduceIte, Nat.reduceLT]
       cases Parser.findName s (MONTH_NAME_TABLE.getD 0 []) 1 <;>
         cases Parser.findName s (MONTH_NAME_TABLE.getD 3 []) 1 <;> rfl
     all_goals (intro i x; rfl))

/-- `NameStyle` is its discriminant in the translation (`NameStyle.index`, 0..5) -/
@[tr_eq] theorem parse_week_day_name_eq (s : List Nat) (style : NameStyle) :
    Tr.parse_week_day_name s (Int.ofNat style.index) = Parser.parseWeekDayName s style := by
  unfold Tr.parse_week_day_name
  first
  | (cases style <;> with_reducible_and_instances rfl)
  | (cases style <;> simp [NameStyle.index, NAMESTYLE_CAPITAL, NAMESTYLE_LOWER, NAMESTYLE_UPPER, NAMESTYLE_ABBRCAPITAL,
       NAMESTYLE_ABBRLOWER, NAMESTYLE_ABBRUPPER] <;> done)
  | (simp only [startsWithCI_via_tr]
     simp only [Tr.bFrom, Tr.bLen, toNat_ofNat]
     rw [forFirst_findName0 s, forFirst_findName0 s]
     · unfold Parser.parseWeekDayName
       cases style <;>
         simp [idxD, NameStyle.index, NAMESTYLE_CAPITAL, NAMESTYLE_LOWER, NAMESTYLE_UPPER, NAMESTYLE_ABBRCAPITAL,
           NAMESTYLE_ABBRLOWER, NAMESTYLE_ABBRUPPER, Parser.perr] <;>
         (first | done | rfl | (cases Parser.findName s _ 1 <;> rfl))
     all_goals (intro i x; rfl))

/-! ### `parse_year` -/

/-- `parse_year(input, max_len, get_now)`: the clock closure is its reading; the model's fourth component (was the clock
    read?) has no counterpart in the function's result.  No hypotheses: every text, every `max_len`, every clock. -/
@[tr_eq] theorem parse_year_eq (input : List Nat) (max_len : Int) (now : Clock) :
    Tr.parse_year input max_len now =
      (Parser.parseYear input max_len.toNat now).map (fun r => (r.1, r.2.1, r.2.2.1)) := by
  unfold Tr.parse_year
  first
  | (with_reducible_and_instances rfl)
  | (simp only [tr_eq]
     unfold Parser.parseYear
     by_cases h2 : max_len = 2
     · subst h2
       simp only [Int.reduceToNat, ↓reduceIte]
       cases hp : Parser.parseNumber input 4 with
       | error e => simp [hp, bind, Except.bind, Except.map]
       | ok r =>
         obtain ⟨neg, year, rem⟩ := r
         simp only [hp, bind, Except.bind, Except.map, pure, Except.pure]
         cases input with
         | nil =>
           simp [Tr.bFirst, Tr.bLen, boolToInt, B]
           first | done | (intros; omega)
         | cons a t =>
           simp [Tr.bFirst, Tr.bLen, boolToInt, B]
           have c : ((a : Int) = 43 ∨ (a : Int) = 45) = (a = 43 ∨ a = 45) := by simp only [eq_iff_iff]; omega
           simp only [c]
           by_cases hs : a = 43 ∨ a = 45 <;> simp only [hs, ↓reduceIte] <;>
             (split <;> rename_i hi <;>
               first
               | (rw [if_pos (by omega)])
               | (rw [if_neg (by omega)]))
     · have n2 : ¬ max_len.toNat = 2 := by omega
       simp only [h2, n2, ↓reduceIte]
       by_cases h13 : max_len = 1 ∨ max_len = 3
       · have m13 : max_len.toNat = 1 ∨ max_len.toNat = 3 := by omega
         simp only [h13, m13, ↓reduceIte]
         cases hp : Parser.parseNumber input max_len.toNat with
         | error e => simp [hp, bind, Except.bind, Except.map]
         | ok r =>
           obtain ⟨neg, year, rem⟩ := r
           simp only [hp, bind, Except.bind, Except.map, pure, Except.pure]
           rcases h13 with h | h <;> subst h <;>
             simp [idx, idxD, YEAR_MODIFIER, asI32, bind, Except.bind, pure, Except.pure]
       · have m13 : ¬ (max_len.toNat = 1 ∨ max_len.toNat = 3) := by omega
         simp only [h13, m13, ↓reduceIte]
         cases hp : Parser.parseNumber input max_len.toNat with
         | error e => simp [hp, bind, Except.bind, Except.map]
         | ok r =>
           obtain ⟨neg, year, rem⟩ := r
           simp [hp, bind, Except.bind, Except.map, pure, Except.pure])

end SqlDt.TrEq
