/-
  Lemmas/TranslatedSafe (hand-written, stable): for every whitelisted function `f` the generated predicate
  `Tr.f_safe args` (no arithmetic node leaves its Rust integer type, no division by zero, no index out of range,
  path-sensitively; see tools/rs2lean.py) holds whenever every parameter lies in its Rust type and every receiver /
  value-typed parameter is a VALID value of its type.  Theorems marked CONTRACT are about internal helpers and
  the `..._unchecked` constructors whose raw integer parameters are only safe on the range their callers
  establish; the hypothesis is that documented contract (see TRANSLATOR_NOTES.md).
-/
import SqlDt.Lemmas.TranslatedEq
import SqlDt.Lemmas.Calendar
set_option linter.unusedVariables false
set_option linter.unusedSimpArgs false
namespace SqlDt.TrSafe
open SqlDt SqlDt.Gen SqlDt.TrTactic SqlDt.TrEq

macro "tr_sconsts" : tactic => `(tactic| try simp only [fitsI32, fitsI64, fitsU32, Tr.fitsI8, Tr.fitsI16, Tr.fitsU8, Tr.fitsU16,
  Tr.fitsU64, I32_MIN, I32_MAX, I64_MIN, I64_MAX, U32_MAX, U8_MAX, boolToInt, Tr.absI, Tr.uabs, Tr.signum] at *)

/-- side conditions of the callee lemmas: ranges and validity of the actual arguments -/
macro "tr_sdisch" : tactic => `(tactic| first
  | assumption
  | omega
  | (tr_consts; tr_sconsts; omega)
  | ((try tr_model); tr_consts; tr_sconsts; omega)
  | ((try tr_model); tr_consts; tr_sconsts; simp only [asU32] at *; omega)
  | fail "side condition not discharged")

theorem ite_eq_iff_tr {α} (c : Prop) [Decidable c] (a b v : α) :
    (if c then a else b) = v ↔ (c ∧ a = v) ∨ (¬ c ∧ b = v) := by
  by_cases h : c
  · simp [h]
  · simp [h]

/-- what a `match` on a checked operation or on a `Result` tells about the bound variable: `checked_add = Some ts`
    means the exact sum fits and is `ts`; `g args = Ok r` is read through the model's `g` (by its `_eq`). -/
macro "tr_shyps" : tactic => `(tactic| (
  try simp (disch := tr_sdisch) only [tr_eq] at *
  try simp only [checkedI32, checkedI64, Tr.checkedU32, Tr.checkedU64, Time.validateHms, Time.tryFromHms, Time.tryFromUsecs,
    Date.validateYmd, Date.tryFromYmd, Date.tryFromDays, Date.addDays, Date.subDays, Timestamp.tryFromUsecs,
    Parser.tryFromNDT, Timestamp.addDays, Timestamp.subDays, Timestamp.addIntervalDt, Timestamp.subIntervalDt, Timestamp.addTime, Timestamp.subTime, IntervalYM.tryFromMonths,
    IntervalYM.tryFromYm, IntervalYM.addIntervalYm, IntervalDT.tryFromUsecs, IntervalDT.tryFromDhms, IntervalDT.addIntervalDt,
    OracleDate.tryFromUsecs, Time.isValid, Date.isValid, IntervalYM.isValidYm, IntervalDT.isValid,
    Bool.false_eq_true, reduceCtorEq, Except.ok.injEq, Except.error.injEq, Option.some.injEq,
    and_false, false_and, false_or, or_false, and_true, true_and, decide_eq_true_eq] at *
  repeat' tr_split_hyp
  all_goals try simp only [reduceCtorEq, Except.ok.injEq, Except.error.injEq, Option.some.injEq, Bool.false_eq_true,
    and_false, false_and, false_or, or_false, and_true, true_and] at *
  all_goals try subst_vars))


/-- every generated predicate (second chance: open the callee's predicate instead of citing its theorem) -/
macro "tr_sunfold" : tactic => `(tactic| simp only [Tr.date2julian_safe, Tr.julian2date_safe, Tr.is_leap_year_safe, Tr.is_valid_date_safe, Tr.is_valid_timestamp_safe, Tr.is_valid_time_safe, Tr.days_of_month_safe, Tr.the_day_of_year_safe, Tr.Timestamp.new_safe, Tr.Timestamp.extract_safe, Tr.Timestamp.date_safe, Tr.Timestamp.time_safe, Tr.Timestamp.try_from_usecs_safe, Tr.Timestamp.add_interval_dt_safe, Tr.Timestamp.sub_interval_dt_safe, Tr.Timestamp.add_time_safe, Tr.Timestamp.sub_time_safe, Tr.Timestamp.sub_timestamp_safe, Tr.Timestamp.sub_date_safe, Tr.Timestamp.add_interval_ym_safe, Tr.Timestamp.sub_interval_ym_safe, Tr.Timestamp.last_day_of_month_safe, Tr.Timestamp.trunc_day_safe, Tr.Timestamp.trunc_hour_safe, Tr.Timestamp.trunc_minute_safe, Tr.Time.from_hms_unchecked_safe, Tr.Time.try_from_hms_safe, Tr.Time.is_valid_safe, Tr.Time.validate_hms_safe, Tr.Time.try_from_usecs_safe, Tr.Time.extract_safe, Tr.Time.sub_time_safe, Tr.Time.add_interval_dt_safe, Tr.Time.sub_interval_dt_safe, Tr.Time.from_interval_dt_safe, Tr.IntervalYM.from_ym_unchecked_safe, Tr.IntervalYM.try_from_ym_safe, Tr.IntervalYM.is_valid_ym_safe, Tr.IntervalYM.is_valid_months_safe, Tr.IntervalYM.try_from_months_safe, Tr.IntervalYM.extract_safe, Tr.IntervalYM.negate_safe, Tr.IntervalYM.add_interval_ym_safe, Tr.IntervalYM.sub_interval_ym_safe, Tr.IntervalYM.cmp_safe, Tr.IntervalDT.from_dhms_unchecked_safe, Tr.IntervalDT.try_from_dhms_safe, Tr.IntervalDT.is_valid_safe, Tr.IntervalDT.is_valid_usecs_safe, Tr.IntervalDT.try_from_usecs_safe, Tr.IntervalDT.extract_safe, Tr.IntervalDT.negate_safe, Tr.IntervalDT.add_interval_dt_safe, Tr.IntervalDT.sub_interval_dt_safe, Tr.IntervalDT.sub_time_safe, Tr.IntervalYM.mul_f64_safe, Tr.IntervalYM.div_f64_safe, Tr.IntervalDT.mul_f64_safe, Tr.IntervalDT.div_f64_safe, Tr.IntervalDT.second_safe, Tr.Time.mul_f64_safe, Tr.Time.div_f64_safe, Tr.Time.second_safe, Tr.Timestamp.add_days_safe, Tr.Timestamp.sub_days_safe, Tr.Timestamp.second_safe, Tr.OracleDate.add_days_safe, Tr.OracleDate.sub_days_safe, Tr.OracleDate.sub_date_safe, Tr.Timestamp.oracle_add_days_safe, Tr.Timestamp.oracle_sub_days_safe, Tr.NDT.new_safe, Tr.NDT.hour12_safe, Tr.NDT.adjust_hour12_safe, Tr.NDT.of_date_safe, Tr.NDT.of_time_safe, Tr.NDT.of_timestamp_safe, Tr.NDT.of_interval_ym_safe, Tr.NDT.of_interval_dt_safe, Tr.NDT.of_oracle_date_safe, Tr.Date.try_from_ndt_ref_safe, Tr.Date.try_from_ndt_safe, Tr.Time.try_from_ndt_ref_safe, Tr.Time.try_from_ndt_safe, Tr.Timestamp.try_from_ndt_safe, Tr.IntervalYM.try_from_ndt_safe, Tr.IntervalDT.try_from_ndt_safe, Tr.OracleDate.try_from_ndt_safe, Tr.Date.from_ymd_unchecked_safe, Tr.Date.try_from_ymd_safe, Tr.Date.is_valid_safe, Tr.Date.validate_ymd_safe, Tr.Date.try_from_days_safe, Tr.Date.extract_safe, Tr.Date.and_zero_time_safe, Tr.Date.and_time_safe, Tr.Date.and_hms_safe, Tr.Date.add_days_safe, Tr.Date.sub_days_safe, Tr.Date.sub_date_safe, Tr.Date.day_of_week_safe, Tr.Date.add_interval_ym_internal_safe, Tr.Date.last_day_of_month_safe, Tr.Date.partial_cmp_timestamp_safe, Tr.Date.eq_timestamp_safe, Tr.OracleDate.new_safe, Tr.OracleDate.is_valid_date_safe, Tr.OracleDate.try_from_usecs_safe, Tr.OracleDate.from_timestamp_safe, Tr.OracleDate.add_interval_dt_safe, Tr.OracleDate.add_interval_ym_safe, Tr.OracleDate.sub_interval_dt_safe, Tr.OracleDate.sub_interval_ym_safe, Tr.sub_to_date_safe, Tr.current_date_safe, Tr.Date.round_week_internal_safe, Tr.Date.round_month_start_week_internal_safe, Tr.Date.trunc_century_safe, Tr.Date.trunc_year_safe, Tr.Date.trunc_quarter_safe, Tr.Date.trunc_month_safe, Tr.Date.trunc_week_safe, Tr.Date.trunc_iso_week_safe, Tr.Date.trunc_month_start_week_safe, Tr.Date.trunc_day_safe, Tr.Date.trunc_sunday_start_week_safe, Tr.Date.trunc_hour_safe, Tr.Date.trunc_minute_safe, Tr.Date.round_century_safe, Tr.Date.round_year_safe, Tr.Date.round_quarter_safe, Tr.Date.round_month_safe, Tr.Date.round_week_safe, Tr.Date.round_iso_week_safe, Tr.Date.round_month_start_week_safe, Tr.Date.round_day_safe, Tr.Date.round_sunday_start_week_safe, Tr.Date.round_hour_safe, Tr.Date.round_minute_safe] at *)

macro "tr_sintro" : tactic => `(tactic| repeat' (first
  | exact True.intro
  | with_reducible apply And.intro
  | dsimp only at *
  | with_reducible intro _
  | split))

macro "tr_scite" : tactic => `(tactic| try simp (disch := tr_sdisch) only [tr_safe])

/-- last stage of a leaf: pure arithmetic (`tr_leaf` of TranslatedEq), or open the callee's predicate and start over -/
macro "tr_sleaf2" : tactic => `(tactic| first
  | done
  | (tr_sconsts; tr_leaf)
  | (tr_sunfold; tr_sintro <;> tr_scite <;> first | done | (tr_sconsts; tr_leaf)))

macro "tr_sleaf1" : tactic => `(tactic| (
  tr_scite
  tr_consts
  tr_sconsts
  tr_casts
  tr_casts
  tr_scite
  first
  | done
  | ((try simp only [rdiv, rrem] at *); tr_split <;> tr_casts <;> tr_scite <;> tr_sleaf2)))

macro "tr_sleaf" : tactic => `(tactic| (tr_shyps <;> tr_sleaf1))

macro "tr_safe_auto" : tactic => `(tactic| (
  try simp only [bind, Except.bind, pure, Except.pure]
  try simp (disch := tr_sdisch) only [tr_eq, tr_safe, decide_eq_true_eq]
  -- the model's floor-division views of a timestamp (Lemmas/Div): date = ts / day, time of day = ts % day
  try simp (disch := tr_sdisch) only [SqlDt.Timestamp.extract_eq, SqlDt.Timestamp.date_eq, SqlDt.Timestamp.time_eq,
    SqlDt.Time.extract_eq, tr_safe]
  first
  | (tr_sintro; all_goals tr_sleaf)
  | fail "tr_safe_auto: a conjunct of the safety predicate could not be proved"))

theorem sumOfDays_range (b i : Int) :
    0 ≤ idxD (idxD SUM_OF_DAYS_TABLE b []) i 0 ∧ idxD (idxD SUM_OF_DAYS_TABLE b []) i 0 ≤ 335 := by
  unfold idxD SUM_OF_DAYS_TABLE
  by_cases hb : b < 0
  · by_cases hi : i < 0 <;> simp [hb, hi]
  · have hbc : b.toNat = 0 ∨ b.toNat = 1 ∨ 2 ≤ b.toNat := by omega
    by_cases hi : i < 0
    · rcases hbc with h | h | h <;> simp [hb, hi, h, List.getD_eq_getElem?_getD, List.getElem?_eq_none]
    · have hic : i.toNat = 0 ∨ i.toNat = 1 ∨ i.toNat = 2 ∨ i.toNat = 3 ∨ i.toNat = 4 ∨ i.toNat = 5 ∨ i.toNat = 6 ∨
          i.toNat = 7 ∨ i.toNat = 8 ∨ i.toNat = 9 ∨ i.toNat = 10 ∨ i.toNat = 11 ∨ 12 ≤ i.toNat := by omega
      rcases hbc with h | h | h <;>
        rcases hic with g | g | g | g | g | g | g | g | g | g | g | g | g <;>
        simp [hb, hi, h, g, List.getD_eq_getElem?_getD, List.getElem?_eq_none]

/-! ## common.rs -/

/-- CONTRACT (internal helper of the private module `common`): the field ranges every caller in the crate establishes
    first (`try_from_ymd`, the constants, `date_to_iso_year`); for an arbitrary `i32` year `y * 365` overflows. -/
@[tr_safe] theorem date2julian_safe (year month day : Int) (hy : 0 ≤ year ∧ year ≤ 10000) (hm : 1 ≤ month ∧ month ≤ 12) (hd : 1 ≤ day ∧ day ≤ 31) :
    Tr.date2julian_safe year month day := by
  unfold Tr.date2julian_safe
  tr_safe_auto

/-- CONTRACT: a non-negative Julian day (the function's documented domain); `julian_day as u32 + 32044` overflows for -32044..-1. -/
@[tr_safe] theorem julian2date_safe (j : Int) (hj : fitsI32 j) (h0 : 0 ≤ j) :
    Tr.julian2date_safe j := by
  unfold Tr.julian2date_safe
  tr_safe_auto

@[tr_safe] theorem is_leap_year_safe (y : Int) (hy : fitsI32 y) :
    Tr.is_leap_year_safe y := by
  unfold Tr.is_leap_year_safe
  tr_safe_auto

@[tr_safe] theorem is_valid_date_safe (d : Int) (hd : fitsI32 d) :
    Tr.is_valid_date_safe d := by
  unfold Tr.is_valid_date_safe
  tr_safe_auto

@[tr_safe] theorem is_valid_timestamp_safe (t : Int) (ht : fitsI64 t) :
    Tr.is_valid_timestamp_safe t := by
  unfold Tr.is_valid_timestamp_safe
  tr_safe_auto

@[tr_safe] theorem is_valid_time_safe (t : Int) (ht : fitsI64 t) :
    Tr.is_valid_time_safe t := by
  unfold Tr.is_valid_time_safe
  tr_safe_auto

/-- CONTRACT: `month ≤ 12` (table of 13 columns); every caller checks the month first. -/
@[tr_safe] theorem days_of_month_safe (y m : Int) (hy : fitsI32 y) (hm : 0 ≤ m ∧ m ≤ 12) :
    Tr.days_of_month_safe y m := by
  unfold Tr.days_of_month_safe
  tr_safe_auto

/-- CONTRACT: month 1..12 (`month as usize - 1` indexes 12 columns), day ≤ 31. -/
@[tr_safe] theorem the_day_of_year_safe (y m d : Int) (hy : fitsI32 y) (hm : 1 ≤ m ∧ m ≤ 12) (hd : 0 ≤ d ∧ d ≤ 31) :
    Tr.the_day_of_year_safe y m d := by
  -- (an UNTRANSLATED alias of the model is closed by the first alternative)
  first
  | (unfold Tr.the_day_of_year_safe; exact True.intro)
  | (
    unfold Tr.the_day_of_year_safe
    have hs := sumOfDays_range (boolToInt (isLeapYear y)) (m - 1)
    tr_safe_auto)


/-! ## time.rs -/

/-- CONTRACT (unchecked constructor, "check that the values are all correct"): the field ranges of `Time::is_valid`. -/
@[tr_safe] theorem Time.from_hms_unchecked_safe (h mi s us : Int) (hh : 0 ≤ h ∧ h < 24) (hmi : 0 ≤ mi ∧ mi < 60) (hs : 0 ≤ s ∧ s < 60) (hus : 0 ≤ us ∧ us ≤ 999999) :
    Tr.Time.from_hms_unchecked_safe h mi s us := by
  unfold Tr.Time.from_hms_unchecked_safe
  tr_safe_auto

@[tr_safe] theorem Time.validate_hms_safe (h mi s : Int) (hh : fitsU32 h) (hmi : fitsU32 mi) (hs : fitsU32 s) :
    Tr.Time.validate_hms_safe h mi s := by
  unfold Tr.Time.validate_hms_safe
  tr_safe_auto

@[tr_safe] theorem Time.try_from_hms_safe (h mi s us : Int) (hh : fitsU32 h) (hmi : fitsU32 mi) (hs : fitsU32 s) (hus : fitsU32 us) :
    Tr.Time.try_from_hms_safe h mi s us := by
  unfold Tr.Time.try_from_hms_safe
  tr_safe_auto

@[tr_safe] theorem Time.is_valid_safe (h mi s us : Int) (hh : fitsU32 h) (hmi : fitsU32 mi) (hs : fitsU32 s) (hus : fitsU32 us) :
    Tr.Time.is_valid_safe h mi s us := by
  unfold Tr.Time.is_valid_safe
  tr_safe_auto

@[tr_safe] theorem Time.try_from_usecs_safe (u : Int) (hu : fitsI64 u) :
    Tr.Time.try_from_usecs_safe u := by
  unfold Tr.Time.try_from_usecs_safe
  tr_safe_auto

@[tr_safe] theorem Time.extract_safe (t : Int) (ht : isValidTime t) :
    Tr.Time.extract_safe t := by
  unfold Tr.Time.extract_safe
  tr_safe_auto

@[tr_safe] theorem Time.sub_time_safe (a b : Int) (ha : isValidTime a) (hb : isValidTime b) :
    Tr.Time.sub_time_safe a b := by
  unfold Tr.Time.sub_time_safe
  tr_safe_auto

@[tr_safe] theorem IntervalDT.negate_safe (v : Int) (hv : IntervalDT.isValidUsecs v) :
    Tr.IntervalDT.negate_safe v := by
  unfold Tr.IntervalDT.negate_safe
  tr_safe_auto

@[tr_safe] theorem IntervalYM.negate_safe (v : Int) (hv : IntervalYM.isValidMonths v) :
    Tr.IntervalYM.negate_safe v := by
  unfold Tr.IntervalYM.negate_safe
  tr_safe_auto

@[tr_safe] theorem Time.add_interval_dt_safe (t i : Int) (ht : isValidTime t) (hi : IntervalDT.isValidUsecs i) :
    Tr.Time.add_interval_dt_safe t i := by
  unfold Tr.Time.add_interval_dt_safe
  tr_safe_auto

@[tr_safe] theorem Time.sub_interval_dt_safe (t i : Int) (ht : isValidTime t) (hi : IntervalDT.isValidUsecs i) :
    Tr.Time.sub_interval_dt_safe t i := by
  unfold Tr.Time.sub_interval_dt_safe
  tr_safe_auto

@[tr_safe] theorem Time.from_interval_dt_safe (i : Int) (hi : IntervalDT.isValidUsecs i) :
    Tr.Time.from_interval_dt_safe i := by
  unfold Tr.Time.from_interval_dt_safe
  tr_safe_auto


/-! ## timestamp.rs -/

@[tr_safe] theorem Timestamp.new_safe (d t : Int) (hd : isValidDate d) (ht : isValidTime t) :
    Tr.Timestamp.new_safe d t := by
  unfold Tr.Timestamp.new_safe
  tr_safe_auto

@[tr_safe] theorem Timestamp.extract_safe (ts : Int) (hts : isValidTimestamp ts) :
    Tr.Timestamp.extract_safe ts := by
  unfold Tr.Timestamp.extract_safe
  tr_safe_auto

@[tr_safe] theorem Timestamp.date_safe (ts : Int) (hts : isValidTimestamp ts) :
    Tr.Timestamp.date_safe ts := by
  unfold Tr.Timestamp.date_safe
  tr_safe_auto

@[tr_safe] theorem Timestamp.time_safe (ts : Int) (hts : isValidTimestamp ts) :
    Tr.Timestamp.time_safe ts := by
  unfold Tr.Timestamp.time_safe
  tr_safe_auto

@[tr_safe] theorem Timestamp.try_from_usecs_safe (u : Int) (hu : fitsI64 u) :
    Tr.Timestamp.try_from_usecs_safe u := by
  unfold Tr.Timestamp.try_from_usecs_safe
  tr_safe_auto

@[tr_safe] theorem Timestamp.add_interval_dt_safe (ts i : Int) (hts : isValidTimestamp ts) (hi : IntervalDT.isValidUsecs i) :
    Tr.Timestamp.add_interval_dt_safe ts i := by
  unfold Tr.Timestamp.add_interval_dt_safe
  tr_safe_auto

@[tr_safe] theorem Timestamp.sub_interval_dt_safe (ts i : Int) (hts : isValidTimestamp ts) (hi : IntervalDT.isValidUsecs i) :
    Tr.Timestamp.sub_interval_dt_safe ts i := by
  unfold Tr.Timestamp.sub_interval_dt_safe
  tr_safe_auto

@[tr_safe] theorem Timestamp.add_time_safe (ts t : Int) (hts : isValidTimestamp ts) (ht : isValidTime t) :
    Tr.Timestamp.add_time_safe ts t := by
  unfold Tr.Timestamp.add_time_safe
  tr_safe_auto

@[tr_safe] theorem Timestamp.sub_time_safe (ts t : Int) (hts : isValidTimestamp ts) (ht : isValidTime t) :
    Tr.Timestamp.sub_time_safe ts t := by
  unfold Tr.Timestamp.sub_time_safe
  tr_safe_auto

@[tr_safe] theorem Timestamp.sub_timestamp_safe (a b : Int) (ha : isValidTimestamp a) (hb : isValidTimestamp b) :
    Tr.Timestamp.sub_timestamp_safe a b := by
  unfold Tr.Timestamp.sub_timestamp_safe
  tr_safe_auto

@[tr_safe] theorem Date.and_zero_time_safe (d : Int) (hd : isValidDate d) :
    Tr.Date.and_zero_time_safe d := by
  unfold Tr.Date.and_zero_time_safe
  tr_safe_auto

@[tr_safe] theorem Date.and_time_safe (d t : Int) (hd : isValidDate d) (ht : isValidTime t) :
    Tr.Date.and_time_safe d t := by
  unfold Tr.Date.and_time_safe
  tr_safe_auto

@[tr_safe] theorem Timestamp.sub_date_safe (ts d : Int) (hts : isValidTimestamp ts) (hd : isValidDate d) :
    Tr.Timestamp.sub_date_safe ts d := by
  unfold Tr.Timestamp.sub_date_safe
  tr_safe_auto


/-! ## interval.rs -/

/-- CONTRACT (unchecked constructor): the field ranges of `IntervalYM::is_valid_ym`; `year * 12` is a `u32` product. -/
@[tr_safe] theorem IntervalYM.from_ym_unchecked_safe (y m : Int) (hy : 0 ≤ y ∧ y ≤ 178000000) (hm : 0 ≤ m ∧ m < 12) :
    Tr.IntervalYM.from_ym_unchecked_safe y m := by
  unfold Tr.IntervalYM.from_ym_unchecked_safe
  tr_safe_auto

@[tr_safe] theorem IntervalYM.try_from_ym_safe (y m : Int) (hy : fitsU32 y) (hm : fitsU32 m) :
    Tr.IntervalYM.try_from_ym_safe y m := by
  unfold Tr.IntervalYM.try_from_ym_safe
  tr_safe_auto

@[tr_safe] theorem IntervalYM.is_valid_ym_safe (y m : Int) (hy : fitsU32 y) (hm : fitsU32 m) :
    Tr.IntervalYM.is_valid_ym_safe y m := by
  unfold Tr.IntervalYM.is_valid_ym_safe
  tr_safe_auto

@[tr_safe] theorem IntervalYM.is_valid_months_safe (m : Int) (hm : fitsI32 m) :
    Tr.IntervalYM.is_valid_months_safe m := by
  unfold Tr.IntervalYM.is_valid_months_safe
  tr_safe_auto

@[tr_safe] theorem IntervalYM.try_from_months_safe (m : Int) (hm : fitsI32 m) :
    Tr.IntervalYM.try_from_months_safe m := by
  unfold Tr.IntervalYM.try_from_months_safe
  tr_safe_auto

@[tr_safe] theorem IntervalYM.extract_safe (v : Int) (hv : IntervalYM.isValidMonths v) :
    Tr.IntervalYM.extract_safe v := by
  unfold Tr.IntervalYM.extract_safe
  tr_safe_auto

@[tr_safe] theorem IntervalYM.add_interval_ym_safe (a b : Int) (ha : IntervalYM.isValidMonths a) (hb : IntervalYM.isValidMonths b) :
    Tr.IntervalYM.add_interval_ym_safe a b := by
  unfold Tr.IntervalYM.add_interval_ym_safe
  tr_safe_auto

@[tr_safe] theorem IntervalYM.sub_interval_ym_safe (a b : Int) (ha : IntervalYM.isValidMonths a) (hb : IntervalYM.isValidMonths b) :
    Tr.IntervalYM.sub_interval_ym_safe a b := by
  unfold Tr.IntervalYM.sub_interval_ym_safe
  tr_safe_auto

@[tr_safe] theorem IntervalYM.cmp_safe (a b : Int) (ha : IntervalYM.isValidMonths a) (hb : IntervalYM.isValidMonths b) :
    Tr.IntervalYM.cmp_safe a b := by
  unfold Tr.IntervalYM.cmp_safe
  tr_safe_auto

/-- CONTRACT (unchecked constructor): the field ranges of `IntervalDT::is_valid`. -/
@[tr_safe] theorem IntervalDT.from_dhms_unchecked_safe (d h mi s us : Int) (hd : 0 ≤ d ∧ d ≤ 100000000) (hh : 0 ≤ h ∧ h < 24) (hmi : 0 ≤ mi ∧ mi < 60) (hs : 0 ≤ s ∧ s < 60) (hus : 0 ≤ us ∧ us ≤ 999999) :
    Tr.IntervalDT.from_dhms_unchecked_safe d h mi s us := by
  unfold Tr.IntervalDT.from_dhms_unchecked_safe
  tr_safe_auto

@[tr_safe] theorem IntervalDT.try_from_dhms_safe (d h mi s us : Int) (hd : fitsU32 d) (hh : fitsU32 h) (hmi : fitsU32 mi) (hs : fitsU32 s) (hus : fitsU32 us) :
    Tr.IntervalDT.try_from_dhms_safe d h mi s us := by
  unfold Tr.IntervalDT.try_from_dhms_safe
  tr_safe_auto

@[tr_safe] theorem IntervalDT.is_valid_safe (d h mi s us : Int) (hd : fitsU32 d) (hh : fitsU32 h) (hmi : fitsU32 mi) (hs : fitsU32 s) (hus : fitsU32 us) :
    Tr.IntervalDT.is_valid_safe d h mi s us := by
  unfold Tr.IntervalDT.is_valid_safe
  tr_safe_auto

@[tr_safe] theorem IntervalDT.is_valid_usecs_safe (u : Int) (hu : fitsI64 u) :
    Tr.IntervalDT.is_valid_usecs_safe u := by
  unfold Tr.IntervalDT.is_valid_usecs_safe
  tr_safe_auto

@[tr_safe] theorem IntervalDT.try_from_usecs_safe (u : Int) (hu : fitsI64 u) :
    Tr.IntervalDT.try_from_usecs_safe u := by
  unfold Tr.IntervalDT.try_from_usecs_safe
  tr_safe_auto

@[tr_safe] theorem IntervalDT.extract_safe (v : Int) (hv : IntervalDT.isValidUsecs v) :
    Tr.IntervalDT.extract_safe v := by
  unfold Tr.IntervalDT.extract_safe
  tr_safe_auto

@[tr_safe] theorem IntervalDT.add_interval_dt_safe (a b : Int) (ha : IntervalDT.isValidUsecs a) (hb : IntervalDT.isValidUsecs b) :
    Tr.IntervalDT.add_interval_dt_safe a b := by
  unfold Tr.IntervalDT.add_interval_dt_safe
  tr_safe_auto

@[tr_safe] theorem IntervalDT.sub_interval_dt_safe (a b : Int) (ha : IntervalDT.isValidUsecs a) (hb : IntervalDT.isValidUsecs b) :
    Tr.IntervalDT.sub_interval_dt_safe a b := by
  unfold Tr.IntervalDT.sub_interval_dt_safe
  tr_safe_auto

@[tr_safe] theorem IntervalDT.sub_time_safe (v t : Int) (hv : IntervalDT.isValidUsecs v) (ht : isValidTime t) :
    Tr.IntervalDT.sub_time_safe v t := by
  unfold Tr.IntervalDT.sub_time_safe
  tr_safe_auto


/-! ## date.rs -/

/-- CONTRACT (unchecked constructor): the field ranges of `Date::is_valid` (years 0..10000 as for `date2julian`). -/
@[tr_safe] theorem Date.from_ymd_unchecked_safe (y m d : Int) (hy : 0 ≤ y ∧ y ≤ 10000) (hm : 1 ≤ m ∧ m ≤ 12) (hd : 1 ≤ d ∧ d ≤ 31) :
    Tr.Date.from_ymd_unchecked_safe y m d := by
  unfold Tr.Date.from_ymd_unchecked_safe
  tr_safe_auto

@[tr_safe] theorem Date.validate_ymd_safe (y m d : Int) (hy : fitsI32 y) (hm : fitsU32 m) (hd : fitsU32 d) :
    Tr.Date.validate_ymd_safe y m d := by
  unfold Tr.Date.validate_ymd_safe
  tr_safe_auto

@[tr_safe] theorem Date.try_from_ymd_safe (y m d : Int) (hy : fitsI32 y) (hm : fitsU32 m) (hd : fitsU32 d) :
    Tr.Date.try_from_ymd_safe y m d := by
  unfold Tr.Date.try_from_ymd_safe
  tr_safe_auto

@[tr_safe] theorem Date.is_valid_safe (y m d : Int) (hy : fitsI32 y) (hm : fitsU32 m) (hd : fitsU32 d) :
    Tr.Date.is_valid_safe y m d := by
  unfold Tr.Date.is_valid_safe
  tr_safe_auto

@[tr_safe] theorem Date.try_from_days_safe (d : Int) (hd : fitsI32 d) :
    Tr.Date.try_from_days_safe d := by
  unfold Tr.Date.try_from_days_safe
  tr_safe_auto

@[tr_safe] theorem Date.extract_safe (d : Int) (hd : isValidDate d) :
    Tr.Date.extract_safe d := by
  unfold Tr.Date.extract_safe
  tr_safe_auto

@[tr_safe] theorem Date.and_hms_safe (d h mi s us : Int) (hd : isValidDate d) (hh : fitsU32 h) (hmi : fitsU32 mi) (hs : fitsU32 s) (hus : fitsU32 us) :
    Tr.Date.and_hms_safe d h mi s us := by
  unfold Tr.Date.and_hms_safe
  tr_safe_auto

@[tr_safe] theorem Date.add_days_safe (d k : Int) (hd : isValidDate d) (hk : fitsI32 k) :
    Tr.Date.add_days_safe d k := by
  unfold Tr.Date.add_days_safe
  tr_safe_auto

@[tr_safe] theorem Date.sub_days_safe (d k : Int) (hd : isValidDate d) (hk : fitsI32 k) :
    Tr.Date.sub_days_safe d k := by
  unfold Tr.Date.sub_days_safe
  tr_safe_auto

@[tr_safe] theorem Date.sub_date_safe (a b : Int) (ha : isValidDate a) (hb : isValidDate b) :
    Tr.Date.sub_date_safe a b := by
  unfold Tr.Date.sub_date_safe
  tr_safe_auto

@[tr_safe] theorem Date.day_of_week_safe (d : Int) (hd : isValidDate d) :
    Tr.Date.day_of_week_safe d := by
  unfold Tr.Date.day_of_week_safe
  tr_safe_auto


/-! ## oracle.rs -/

@[tr_safe] theorem OracleDate.new_safe (d t : Int) (hd : isValidDate d) (ht : isValidTime t) :
    Tr.OracleDate.new_safe d t := by
  unfold Tr.OracleDate.new_safe
  tr_safe_auto

@[tr_safe] theorem OracleDate.is_valid_date_safe (u : Int) (hu : fitsI64 u) :
    Tr.OracleDate.is_valid_date_safe u := by
  unfold Tr.OracleDate.is_valid_date_safe
  tr_safe_auto

@[tr_safe] theorem OracleDate.try_from_usecs_safe (u : Int) (hu : fitsI64 u) :
    Tr.OracleDate.try_from_usecs_safe u := by
  unfold Tr.OracleDate.try_from_usecs_safe
  tr_safe_auto

@[tr_safe] theorem OracleDate.from_timestamp_safe (ts : Int) (hts : isValidTimestamp ts) :
    Tr.OracleDate.from_timestamp_safe ts := by
  unfold Tr.OracleDate.from_timestamp_safe
  tr_safe_auto

@[tr_safe] theorem OracleDate.add_interval_dt_safe (od i : Int) (hod : OracleDate.isValidDate od) (hi : IntervalDT.isValidUsecs i) :
    Tr.OracleDate.add_interval_dt_safe od i := by
  unfold Tr.OracleDate.add_interval_dt_safe
  tr_safe_auto

@[tr_safe] theorem OracleDate.sub_interval_dt_safe (od i : Int) (hod : OracleDate.isValidDate od) (hi : IntervalDT.isValidUsecs i) :
    Tr.OracleDate.sub_interval_dt_safe od i := by
  unfold Tr.OracleDate.sub_interval_dt_safe
  tr_safe_auto


/-! ## month arithmetic, truncation, mixed comparison -/

/-- What `Date::extract` returns for a valid date (Lemmas/Calendar): a real calendar date of years 1..9999. -/
theorem extract_valid (d : Int) (hd : isValidDate d) :
    1 ≤ (Date.extract d).1 ∧ (Date.extract d).1 ≤ 9999 ∧ 1 ≤ (Date.extract d).2.1 ∧ (Date.extract d).2.1 ≤ 12 ∧
    1 ≤ (Date.extract d).2.2 ∧ (Date.extract d).2.2 ≤ daysOfMonth (Date.extract d).1 (Date.extract d).2.1 ∧
    daysOfMonth (Date.extract d).1 (Date.extract d).2.1 ≤ 31 := by
  obtain ⟨⟨y1, y9, m1, m12, d1, dd⟩, _⟩ := SqlDt.Lemmas.extract_roundtrip d hd
  have hr := daysOfMonth_range (Date.extract d).1 (Date.extract d).2.1
  rw [SqlDt.Lemmas.daysOfMonth_eq _ _ (by omega) ⟨m1, m12⟩]
  rw [SqlDt.Lemmas.daysOfMonth_eq _ _ (by omega) ⟨m1, m12⟩] at hr
  exact ⟨y1, y9, m1, m12, d1, dd, hr.2⟩

theorem valid_date_range (d : Int) (hd : isValidDate d) : -2440588 ≤ d ∧ d ≤ 2145043059 := by
  rw [isValidDate_iff] at hd; omega

/-- A date accepted by `try_from_ymd` is in range (Lemmas/Calendar). -/
theorem tryFromYmd_ok_valid (y m d v : Int) (h : Date.tryFromYmd y m d = .ok v) : isValidDate v := by
  unfold Date.tryFromYmd DATE_MIN_YEAR DATE_MAX_YEAR MONTHS_PER_YEAR at h
  split at h; · cases h
  split at h; · cases h
  split at h; · cases h
  split at h; · cases h
  rename_i c1 c2 c3 c4
  rw [SqlDt.Lemmas.daysOfMonth_eq _ _ (by omega) (by omega)] at c4
  have hv : Spec.ValidYMD y m d := ⟨by omega, by omega, by omega, by omega, by omega, by omega⟩
  cases h
  exact (SqlDt.Lemmas.extract_fromYmd y m d hv).1

theorem addMonths_ok_valid (d k v : Int) (h : Date.addIntervalYmInternal d k = .ok v) : isValidDate v := by
  rw [addIntervalYmInternal_proj] at h
  exact tryFromYmd_ok_valid _ _ _ _ h

theorem ts_addMonths_ok_valid (ts k v : Int) (hts : isValidTimestamp ts) (h : Timestamp.addIntervalYm ts k = .ok v) :
    isValidTimestamp v := by
  unfold Timestamp.addIntervalYm at h
  rw [SqlDt.Timestamp.extract_eq] at h
  simp only [bind, Except.bind, pure, Except.pure] at h
  split at h
  · cases h
  · rename_i r heq
    cases h
    have hv := addMonths_ok_valid _ _ _ heq
    rw [isValidDate_iff] at hv
    rw [isValidTimestamp_iff] at hts ⊢
    unfold Timestamp.new USECONDS_PER_DAY
    omega

theorem valid_ts_date (ts : Int) (hts : isValidTimestamp ts) : isValidDate (ts / 86400000000) := by
  rw [isValidTimestamp_iff] at hts; rw [isValidDate_iff]; omega

@[tr_safe] theorem Date.add_interval_ym_internal_safe (d i : Int) (hd : isValidDate d) (hi : IntervalYM.isValidMonths i) :
    Tr.Date.add_interval_ym_internal_safe d i := by
  -- (an UNTRANSLATED alias of the model is closed by the first alternative)
  first
  | (unfold Tr.Date.add_interval_ym_internal_safe; exact True.intro)
  | (
    unfold Tr.Date.add_interval_ym_internal_safe
    have hx := extract_valid d hd
    have hr := valid_date_range d hd
    rw [Date.extract_eq d hr.1 hr.2]
    generalize Date.extract d = e at *
    obtain ⟨y, m, dd⟩ := e
    tr_safe_auto)

@[tr_safe] theorem Timestamp.add_interval_ym_safe (ts i : Int) (hts : isValidTimestamp ts) (hi : IntervalYM.isValidMonths i) :
    Tr.Timestamp.add_interval_ym_safe ts i := by
  -- (an UNTRANSLATED alias of the model is closed by the first alternative)
  first
  | (unfold Tr.Timestamp.add_interval_ym_safe; exact True.intro)
  | (
    unfold Tr.Timestamp.add_interval_ym_safe
    have hb := (isValidTimestamp_iff ts).1 hts
    rw [SqlDt.TrEq.Timestamp.extract_eq ts (by omega) (by omega), SqlDt.Timestamp.extract_eq]
    dsimp only
    have hd := valid_ts_date ts hts
    have hr := valid_date_range _ hd
    refine ⟨Timestamp.extract_safe ts hts, Date.add_interval_ym_internal_safe _ _ hd hi, ?_⟩
    rw [SqlDt.TrEq.Date.add_interval_ym_internal_eq _ _ hr.1 hr.2]
    split
    · exact True.intro
    · rename_i r1 heq
      exact Timestamp.new_safe r1 _ (addMonths_ok_valid _ _ _ heq) (by rw [isValidTime_iff]; omega))

@[tr_safe] theorem Timestamp.sub_interval_ym_safe (ts i : Int) (hts : isValidTimestamp ts) (hi : IntervalYM.isValidMonths i) :
    Tr.Timestamp.sub_interval_ym_safe ts i := by
  unfold Tr.Timestamp.sub_interval_ym_safe
  tr_safe_auto

@[tr_safe] theorem OracleDate.add_interval_ym_safe (od i : Int) (hod : OracleDate.isValidDate od) (hi : IntervalYM.isValidMonths i) :
    Tr.OracleDate.add_interval_ym_safe od i := by
  -- (an UNTRANSLATED alias of the model is closed by the first alternative)
  first
  | (unfold Tr.OracleDate.add_interval_ym_safe; exact True.intro)
  | (
    unfold Tr.OracleDate.add_interval_ym_safe
    have hts : isValidTimestamp od := hod.1
    have hb := (isValidTimestamp_iff od).1 hts
    refine ⟨Timestamp.add_interval_ym_safe od i hts hi, ?_⟩
    rw [SqlDt.TrEq.Timestamp.add_interval_ym_eq od i (by omega) (by omega)]
    split
    · exact True.intro
    · rename_i r1 heq
      exact OracleDate.from_timestamp_safe r1 (ts_addMonths_ok_valid _ _ _ hts heq))

@[tr_safe] theorem OracleDate.sub_interval_ym_safe (od i : Int) (hod : OracleDate.isValidDate od) (hi : IntervalYM.isValidMonths i) :
    Tr.OracleDate.sub_interval_ym_safe od i := by
  unfold Tr.OracleDate.sub_interval_ym_safe
  tr_safe_auto

@[tr_safe] theorem Date.last_day_of_month_safe (d : Int) (hd : isValidDate d) :
    Tr.Date.last_day_of_month_safe d := by
  -- (an UNTRANSLATED alias of the model is closed by the first alternative)
  first
  | (unfold Tr.Date.last_day_of_month_safe; exact True.intro)
  | (
    unfold Tr.Date.last_day_of_month_safe
    have hx := extract_valid d hd
    have hr := valid_date_range d hd
    rw [Date.extract_eq d hr.1 hr.2]
    generalize Date.extract d = e at *
    obtain ⟨y, m, dd⟩ := e
    tr_safe_auto)

@[tr_safe] theorem Timestamp.last_day_of_month_safe (ts : Int) (hts : isValidTimestamp ts) :
    Tr.Timestamp.last_day_of_month_safe ts := by
  -- (an UNTRANSLATED alias of the model is closed by the first alternative)
  first
  | (unfold Tr.Timestamp.last_day_of_month_safe; exact True.intro)
  | (
    unfold Tr.Timestamp.last_day_of_month_safe
    have hb := (isValidTimestamp_iff ts).1 hts
    rw [SqlDt.TrEq.Timestamp.extract_eq ts (by omega) (by omega), SqlDt.Timestamp.extract_eq]
    dsimp only
    have hd := valid_ts_date ts hts
    have hx := extract_valid _ hd
    have hr := valid_date_range _ hd
    rw [SqlDt.TrEq.Date.extract_eq _ hr.1 hr.2]
    generalize Date.extract (ts / 86400000000) = e at *
    obtain ⟨y, m, dd⟩ := e
    tr_safe_auto)

@[tr_safe] theorem Timestamp.trunc_day_safe (ts : Int) (hts : isValidTimestamp ts) :
    Tr.Timestamp.trunc_day_safe ts := by
  unfold Tr.Timestamp.trunc_day_safe
  tr_safe_auto

@[tr_safe] theorem Timestamp.trunc_hour_safe (ts : Int) (hts : isValidTimestamp ts) :
    Tr.Timestamp.trunc_hour_safe ts := by
  unfold Tr.Timestamp.trunc_hour_safe
  tr_safe_auto

@[tr_safe] theorem Timestamp.trunc_minute_safe (ts : Int) (hts : isValidTimestamp ts) :
    Tr.Timestamp.trunc_minute_safe ts := by
  -- (an UNTRANSLATED alias of the model is closed by the first alternative)
  first
  | (unfold Tr.Timestamp.trunc_minute_safe; exact True.intro)
  | (
    unfold Tr.Timestamp.trunc_minute_safe
    have hb := (isValidTimestamp_iff ts).1 hts
    try simp (disch := omega) only [SqlDt.TrEq.Timestamp.time_eq, SqlDt.Timestamp.time_eq, SqlDt.TrEq.Time.extract_eq,
      SqlDt.Time.extract_eq]
    tr_safe_auto)

@[tr_safe] theorem Date.partial_cmp_timestamp_safe (d ts : Int) (hd : isValidDate d) (hts : isValidTimestamp ts) :
    Tr.Date.partial_cmp_timestamp_safe d ts := by
  unfold Tr.Date.partial_cmp_timestamp_safe
  tr_safe_auto

@[tr_safe] theorem Date.eq_timestamp_safe (d ts : Int) (hd : isValidDate d) (hts : isValidTimestamp ts) :
    Tr.Date.eq_timestamp_safe d ts := by
  unfold Tr.Date.eq_timestamp_safe
  tr_safe_auto

/-! ## The functions that go through `f64` (phase 3): float operations never panic, so only the integer nodes around
    them carry obligations; the saturating casts `as i64/i32/u32` deliver a value of the target type. -/

theorem toIntSat_range (lo hi : Int) (h0 : lo ≤ 0) (h1 : 0 ≤ hi) (x : F64) :
    lo ≤ F64.toIntSat lo hi x ∧ F64.toIntSat lo hi x ≤ hi := by
  unfold F64.toIntSat
  cases x with
  | nan => exact ⟨h0, h1⟩
  | inf s => dsimp only; split <;> omega
  | fin s m e => dsimp only; split <;> (try split) <;> omega

@[tr_safe] theorem fitsI64_toI64 (x : F64) : fitsI64 (F64.toI64 x) :=
  toIntSat_range I64_MIN I64_MAX (by decide) (by decide) x
@[tr_safe] theorem fitsI32_toI32 (x : F64) : fitsI32 (F64.toI32 x) :=
  toIntSat_range I32_MIN I32_MAX (by decide) (by decide) x
@[tr_safe] theorem fitsU32_toU32 (x : F64) : fitsU32 (F64.toU32 x) :=
  toIntSat_range 0 U32_MAX (by decide) (by decide) x

@[tr_safe] theorem IntervalYM.mul_f64_safe (v : Int) (x : F64) (hv : IntervalYM.isValidMonths v) :
    Tr.IntervalYM.mul_f64_safe v x := by
  unfold Tr.IntervalYM.mul_f64_safe
  tr_safe_auto

@[tr_safe] theorem IntervalYM.div_f64_safe (v : Int) (x : F64) (hv : IntervalYM.isValidMonths v) :
    Tr.IntervalYM.div_f64_safe v x := by
  unfold Tr.IntervalYM.div_f64_safe
  tr_safe_auto

@[tr_safe] theorem IntervalDT.mul_f64_safe (v : Int) (x : F64) (hv : IntervalDT.isValidUsecs v) :
    Tr.IntervalDT.mul_f64_safe v x := by
  unfold Tr.IntervalDT.mul_f64_safe
  tr_safe_auto

@[tr_safe] theorem IntervalDT.div_f64_safe (v : Int) (x : F64) (hv : IntervalDT.isValidUsecs v) :
    Tr.IntervalDT.div_f64_safe v x := by
  unfold Tr.IntervalDT.div_f64_safe
  tr_safe_auto

@[tr_safe] theorem IntervalDT.second_safe (v : Int) (hv : IntervalDT.isValidUsecs v) :
    Tr.IntervalDT.second_safe v := by
  unfold Tr.IntervalDT.second_safe
  tr_safe_auto

@[tr_safe] theorem Time.mul_f64_safe (t : Int) (x : F64) (ht : isValidTime t) :
    Tr.Time.mul_f64_safe t x := by
  unfold Tr.Time.mul_f64_safe
  tr_safe_auto

@[tr_safe] theorem Time.div_f64_safe (t : Int) (x : F64) (ht : isValidTime t) :
    Tr.Time.div_f64_safe t x := by
  unfold Tr.Time.div_f64_safe
  tr_safe_auto

@[tr_safe] theorem Time.second_safe (t : Int) (ht : isValidTime t) :
    Tr.Time.second_safe t := by
  unfold Tr.Time.second_safe
  tr_safe_auto

@[tr_safe] theorem Timestamp.add_days_safe (ts : Int) (x : F64) (hts : isValidTimestamp ts) :
    Tr.Timestamp.add_days_safe ts x := by
  unfold Tr.Timestamp.add_days_safe
  tr_safe_auto

@[tr_safe] theorem Timestamp.sub_days_safe (ts : Int) (x : F64) (hts : isValidTimestamp ts) :
    Tr.Timestamp.sub_days_safe ts x := by
  unfold Tr.Timestamp.sub_days_safe
  tr_safe_auto

@[tr_safe] theorem Timestamp.second_safe (ts : Int) (hts : isValidTimestamp ts) :
    Tr.Timestamp.second_safe ts := by
  unfold Tr.Timestamp.second_safe
  tr_safe_auto

@[tr_safe] theorem OracleDate.add_days_safe (od : Int) (x : F64) (hod : OracleDate.isValidDate od) :
    Tr.OracleDate.add_days_safe od x := by
  unfold Tr.OracleDate.add_days_safe
  tr_safe_auto

@[tr_safe] theorem OracleDate.sub_days_safe (od : Int) (x : F64) (hod : OracleDate.isValidDate od) :
    Tr.OracleDate.sub_days_safe od x := by
  unfold Tr.OracleDate.sub_days_safe
  tr_safe_auto

@[tr_safe] theorem OracleDate.sub_date_safe (a b : Int) (ha : OracleDate.isValidDate a) (hb : OracleDate.isValidDate b) :
    Tr.OracleDate.sub_date_safe a b := by
  unfold Tr.OracleDate.sub_date_safe
  tr_safe_auto

/-- flooring a valid timestamp to the second gives a valid Oracle-style date -/
theorem fromTimestamp_valid (ts : Int) (hts : isValidTimestamp ts) :
    OracleDate.isValidDate (OracleDate.fromTimestamp ts) := by
  unfold OracleDate.fromTimestamp OracleDate.isValidDate
  dsimp only
  split <;> (constructor <;> tr_leaf)

@[tr_safe] theorem Timestamp.oracle_add_days_safe (ts : Int) (x : F64) (hts : isValidTimestamp ts) :
    Tr.Timestamp.oracle_add_days_safe ts x := by
  -- (an UNTRANSLATED alias of the model is closed by the first alternative)
  first
  | (unfold Tr.Timestamp.oracle_add_days_safe; exact True.intro)
  | (
    unfold Tr.Timestamp.oracle_add_days_safe
    have hv := fromTimestamp_valid ts hts
    tr_safe_auto)

@[tr_safe] theorem Timestamp.oracle_sub_days_safe (ts : Int) (x : F64) (hts : isValidTimestamp ts) :
    Tr.Timestamp.oracle_sub_days_safe ts x := by
  -- (an UNTRANSLATED alias of the model is closed by the first alternative)
  first
  | (unfold Tr.Timestamp.oracle_sub_days_safe; exact True.intro)
  | (
    unfold Tr.Timestamp.oracle_sub_days_safe
    have hv := fromTimestamp_valid ts hts
    tr_safe_auto)

/-! ## The conversion layer `format::NaiveDateTime` (phase 4).  A `NaiveDateTime` is a plain record, not a validated
    value: the hypotheses say that each field lies in its Rust type. -/

@[tr_safe] theorem NDT.new_safe : Tr.NDT.new_safe := by
  unfold Tr.NDT.new_safe
  exact True.intro

/-- CONTRACT: an hour of the day (needed only for the arithmetic form `(hour + 11) % 12 + 1` of `harmless.diff`). -/
@[tr_safe] theorem NDT.hour12_safe (dt : NDT) (hy : fitsI32 dt.year) (hmo : fitsU32 dt.month) (hd : fitsU32 dt.day) (hh : fitsU32 dt.hour) (hmi : fitsU32 dt.minute) (hs : fitsU32 dt.sec) (hus : fitsU32 dt.usec) (hc : dt.hour ≤ 23) :
    Tr.NDT.hour12_safe dt := by
  unfold Tr.NDT.hour12_safe
  tr_safe_auto

/-- CONTRACT (crate-internal `&mut self` helper of the parser): an hour of the day; `self.hour + 12` is a `u32` sum. -/
@[tr_safe] theorem NDT.adjust_hour12_safe (dt : NDT) (hy : fitsI32 dt.year) (hmo : fitsU32 dt.month) (hd : fitsU32 dt.day) (hh : fitsU32 dt.hour) (hmi : fitsU32 dt.minute) (hs : fitsU32 dt.sec) (hus : fitsU32 dt.usec) (hc : dt.hour ≤ 23) :
    Tr.NDT.adjust_hour12_safe dt := by
  unfold Tr.NDT.adjust_hour12_safe
  tr_safe_auto

@[tr_safe] theorem NDT.of_date_safe (d : Int) (hd : isValidDate d) :
    Tr.NDT.of_date_safe d := by
  unfold Tr.NDT.of_date_safe
  tr_safe_auto

@[tr_safe] theorem NDT.of_time_safe (t : Int) (ht : isValidTime t) :
    Tr.NDT.of_time_safe t := by
  unfold Tr.NDT.of_time_safe
  tr_safe_auto

@[tr_safe] theorem NDT.of_timestamp_safe (ts : Int) (hts : isValidTimestamp ts) :
    Tr.NDT.of_timestamp_safe ts := by
  unfold Tr.NDT.of_timestamp_safe
  tr_safe_auto

@[tr_safe] theorem NDT.of_interval_ym_safe (v : Int) (hv : IntervalYM.isValidMonths v) :
    Tr.NDT.of_interval_ym_safe v := by
  unfold Tr.NDT.of_interval_ym_safe
  tr_safe_auto

@[tr_safe] theorem NDT.of_interval_dt_safe (v : Int) (hv : IntervalDT.isValidUsecs v) :
    Tr.NDT.of_interval_dt_safe v := by
  unfold Tr.NDT.of_interval_dt_safe
  tr_safe_auto

@[tr_safe] theorem NDT.of_oracle_date_safe (od : Int) (hod : OracleDate.isValidDate od) :
    Tr.NDT.of_oracle_date_safe od := by
  unfold Tr.NDT.of_oracle_date_safe
  tr_safe_auto

/-- what the two validations establish (read off the model's `validateYmd` / `validateHms`) -/
theorem validateYmd_ok' (y m d : Int) (u : Unit) (h : Date.validateYmd y m d = .ok u) :
    1 ≤ y ∧ y ≤ 9999 ∧ 1 ≤ m ∧ m ≤ 12 ∧ 1 ≤ d ∧ d ≤ 31 := by
  unfold Date.validateYmd DATE_MIN_YEAR DATE_MAX_YEAR MONTHS_PER_YEAR at h
  split at h; · cases h
  split at h; · cases h
  split at h; · cases h
  omega

theorem validateHms_ok (h mi s : Int) (u : Unit) (hv : Time.validateHms h mi s = .ok u) : h < 24 ∧ mi < 60 ∧ s < 60 := by
  unfold Time.validateHms HOURS_PER_DAY MINUTES_PER_HOUR SECONDS_PER_MINUTE at hv
  split at hv; · cases hv
  split at hv; · cases hv
  split at hv; · cases hv
  omega

/-- the Julian day of a date with year 1..9999 (a coarse bound is all the overflow checks need) -/
theorem date2julian_range (y m d : Int) (hy : 1 ≤ y ∧ y ≤ 9999) (hm : 1 ≤ m ∧ m ≤ 12) (hd : 1 ≤ d ∧ d ≤ 31) :
    1721000 ≤ date2julian y m d ∧ date2julian y m d ≤ 5374000 := by
  unfold date2julian
  dsimp only
  have h1 := SqlDt.TrTactic.rdiv_spec (if m > 2 then y + 4800 else y + 4799) 100
  have h2 := SqlDt.TrTactic.rdiv_spec (if m > 2 then y + 4800 else y + 4799) 4
  generalize rdiv (if m > 2 then y + 4800 else y + 4799) 100 = c at *
  generalize rdiv (if m > 2 then y + 4800 else y + 4799) 4 = q at *
  have h3 := SqlDt.TrTactic.rdiv_spec c 4
  generalize rdiv c 4 = c4 at *
  have h4 := SqlDt.TrTactic.rdiv_spec (7834 * if m > 2 then m + 1 else m + 13) 256
  generalize rdiv (7834 * if m > 2 then m + 1 else m + 13) 256 = w at *
  split at h1 <;> split at h4 <;> omega

/-- a timestamp produced by `TryFrom<NaiveDateTime>` is in range (its last step is `try_from_usecs`) -/
theorem tryFromNDT_TS_ok_valid (dt : NDT) (r : Int) (h : Parser.tryFromNDT .TS dt = .ok r) : isValidTimestamp r := by
  unfold Parser.tryFromNDT at h
  simp only [bind, Except.bind] at h
  cases h1 : Date.validateYmd dt.year dt.month dt.day with
  | error e => rw [h1] at h; cases h
  | ok u =>
    rw [h1] at h
    dsimp only at h
    cases h2 : Time.validateHms dt.hour dt.minute dt.sec with
    | error e => rw [h2] at h; cases h
    | ok u2 =>
      rw [h2] at h
      dsimp only at h
      unfold Timestamp.tryFromUsecs at h
      split at h
      · cases h; assumption
      · cases h

@[tr_safe] theorem Date.try_from_ndt_ref_safe (dt : NDT) (hy : fitsI32 dt.year) (hmo : fitsU32 dt.month) (hd : fitsU32 dt.day) (hh : fitsU32 dt.hour) (hmi : fitsU32 dt.minute) (hs : fitsU32 dt.sec) (hus : fitsU32 dt.usec) :
    Tr.Date.try_from_ndt_ref_safe dt := by
  unfold Tr.Date.try_from_ndt_ref_safe
  tr_safe_auto

@[tr_safe] theorem Date.try_from_ndt_safe (dt : NDT) (hy : fitsI32 dt.year) (hmo : fitsU32 dt.month) (hd : fitsU32 dt.day) (hh : fitsU32 dt.hour) (hmi : fitsU32 dt.minute) (hs : fitsU32 dt.sec) (hus : fitsU32 dt.usec) :
    Tr.Date.try_from_ndt_safe dt := by
  unfold Tr.Date.try_from_ndt_safe
  tr_safe_auto

@[tr_safe] theorem Time.try_from_ndt_ref_safe (dt : NDT) (hy : fitsI32 dt.year) (hmo : fitsU32 dt.month) (hd : fitsU32 dt.day) (hh : fitsU32 dt.hour) (hmi : fitsU32 dt.minute) (hs : fitsU32 dt.sec) (hus : fitsU32 dt.usec) :
    Tr.Time.try_from_ndt_ref_safe dt := by
  unfold Tr.Time.try_from_ndt_ref_safe
  tr_safe_auto

@[tr_safe] theorem Time.try_from_ndt_safe (dt : NDT) (hy : fitsI32 dt.year) (hmo : fitsU32 dt.month) (hd : fitsU32 dt.day) (hh : fitsU32 dt.hour) (hmi : fitsU32 dt.minute) (hs : fitsU32 dt.sec) (hus : fitsU32 dt.usec) :
    Tr.Time.try_from_ndt_safe dt := by
  unfold Tr.Time.try_from_ndt_safe
  tr_safe_auto

@[tr_safe] theorem Timestamp.try_from_ndt_safe (dt : NDT) (hy : fitsI32 dt.year) (hmo : fitsU32 dt.month) (hd : fitsU32 dt.day) (hh : fitsU32 dt.hour) (hmi : fitsU32 dt.minute) (hs : fitsU32 dt.sec) (hus : fitsU32 dt.usec) :
    Tr.Timestamp.try_from_ndt_safe dt := by
  -- (an UNTRANSLATED alias of the model is closed by the first alternative)
  first
  | (unfold Tr.Timestamp.try_from_ndt_safe; exact True.intro)
  | (
    unfold Tr.Timestamp.try_from_ndt_safe
    simp only [SqlDt.TrEq.Date.validate_ymd_eq, SqlDt.TrEq.Time.validate_hms_eq, SqlDt.TrEq.UNIX_EPOCH_JULIAN_eq]
    refine ⟨Date.validate_ymd_safe _ _ _ hy hmo hd, ?_⟩
    cases h1 : Date.validateYmd dt.year dt.month dt.day with
    | error e => exact True.intro
    | ok u =>
      dsimp only
      refine ⟨Time.validate_hms_safe _ _ _ hh hmi hs, ?_⟩
      cases h2 : Time.validateHms dt.hour dt.minute dt.sec with
      | error e => exact True.intro
      | ok u2 =>
        dsimp only
        have hv := validateYmd_ok' _ _ _ _ h1
        have hw := validateHms_ok _ _ _ _ h2
        have hj := date2julian_range dt.year dt.month dt.day ⟨hv.1, hv.2.1⟩ ⟨hv.2.2.1, hv.2.2.2.1⟩ ⟨hv.2.2.2.2.1, hv.2.2.2.2.2⟩
        rw [SqlDt.TrEq.date2julian_eq _ _ _ (by omega) (by omega) (by omega) (by omega)]
        tr_safe_auto)

@[tr_safe] theorem IntervalDT.try_from_ndt_safe (dt : NDT) (hy : fitsI32 dt.year) (hmo : fitsU32 dt.month) (hd : fitsU32 dt.day) (hh : fitsU32 dt.hour) (hmi : fitsU32 dt.minute) (hs : fitsU32 dt.sec) (hus : fitsU32 dt.usec) :
    Tr.IntervalDT.try_from_ndt_safe dt := by
  unfold Tr.IntervalDT.try_from_ndt_safe
  tr_safe_auto

@[tr_safe] theorem OracleDate.try_from_ndt_safe (dt : NDT) (hy : fitsI32 dt.year) (hmo : fitsU32 dt.month) (hd : fitsU32 dt.day) (hh : fitsU32 dt.hour) (hmi : fitsU32 dt.minute) (hs : fitsU32 dt.sec) (hus : fitsU32 dt.usec) :
    Tr.OracleDate.try_from_ndt_safe dt := by
  -- (an UNTRANSLATED alias of the model is closed by the first alternative)
  first
  | (unfold Tr.OracleDate.try_from_ndt_safe; exact True.intro)
  | (
    unfold Tr.OracleDate.try_from_ndt_safe
    refine ⟨Timestamp.try_from_ndt_safe dt hy hmo hd hh hmi hs hus, ?_⟩
    rw [SqlDt.TrEq.Timestamp.try_from_ndt_eq]
    split
    · exact True.intro
    · rename_i r1 heq
      exact OracleDate.from_timestamp_safe r1 (tryFromNDT_TS_ok_valid dt r1 heq))

/-- CONTRACT (crate-internal record): `-dt.year` is an `i32` negation, so the year must not be `i32::MIN`. -/
@[tr_safe] theorem IntervalYM.try_from_ndt_safe (dt : NDT) (hy : fitsI32 dt.year) (hmo : fitsU32 dt.month) (hd : fitsU32 dt.day) (hh : fitsU32 dt.hour) (hmi : fitsU32 dt.minute) (hs : fitsU32 dt.sec) (hus : fitsU32 dt.usec) (hc : -2147483648 < dt.year) :
    Tr.IntervalYM.try_from_ndt_safe dt := by
  unfold Tr.IntervalYM.try_from_ndt_safe
  tr_safe_auto

/-! ## Calendar units (phase 5, first part) -/

@[tr_safe] theorem sub_to_date_safe (d k : Int) (hd : isValidDate d) (hk : fitsI32 k) : Tr.sub_to_date_safe d k := by
  unfold Tr.sub_to_date_safe
  tr_safe_auto

@[tr_safe] theorem current_date_safe (d k : Int) (hd : isValidDate d) (hk : fitsI32 k) : Tr.current_date_safe d k := by
  unfold Tr.current_date_safe
  tr_safe_auto

@[tr_safe] theorem Date.trunc_year_safe (d : Int) (hd : isValidDate d) :
    Tr.Date.trunc_year_safe d := by
  -- (an UNTRANSLATED alias of the model is closed by the first alternative)
  first
  | (unfold Tr.Date.trunc_year_safe; exact True.intro)
  | (
    unfold Tr.Date.trunc_year_safe
    have hx := extract_valid d hd
    have hr := valid_date_range d hd
    try simp (disch := tr_sdisch) only [SqlDt.TrEq.Date.extract_eq d hr.1 hr.2]
    generalize Date.extract d = e at *
    obtain ⟨y, m, dd⟩ := e
    tr_safe_auto)

@[tr_safe] theorem Date.trunc_week_safe (d : Int) (hd : isValidDate d) :
    Tr.Date.trunc_week_safe d := by
  -- (an UNTRANSLATED alias of the model is closed by the first alternative)
  first
  | (unfold Tr.Date.trunc_week_safe; exact True.intro)
  | (
    unfold Tr.Date.trunc_week_safe
    have hx := extract_valid d hd
    have hr := valid_date_range d hd
    try simp (disch := tr_sdisch) only [SqlDt.TrEq.Date.extract_eq d hr.1 hr.2]
    generalize Date.extract d = e at *
    obtain ⟨y, m, dd⟩ := e
    tr_safe_auto)

@[tr_safe] theorem Date.trunc_day_safe (d : Int) (hd : isValidDate d) :
    Tr.Date.trunc_day_safe d := by
  -- (an UNTRANSLATED alias of the model is closed by the first alternative)
  first
  | (unfold Tr.Date.trunc_day_safe; exact True.intro)
  | (
    unfold Tr.Date.trunc_day_safe
    have hx := extract_valid d hd
    have hr := valid_date_range d hd
    try simp (disch := tr_sdisch) only [SqlDt.TrEq.Date.extract_eq d hr.1 hr.2]
    generalize Date.extract d = e at *
    obtain ⟨y, m, dd⟩ := e
    tr_safe_auto)

@[tr_safe] theorem Date.trunc_hour_safe (d : Int) (hd : isValidDate d) :
    Tr.Date.trunc_hour_safe d := by
  -- (an UNTRANSLATED alias of the model is closed by the first alternative)
  first
  | (unfold Tr.Date.trunc_hour_safe; exact True.intro)
  | (
    unfold Tr.Date.trunc_hour_safe
    have hx := extract_valid d hd
    have hr := valid_date_range d hd
    try simp (disch := tr_sdisch) only [SqlDt.TrEq.Date.extract_eq d hr.1 hr.2]
    generalize Date.extract d = e at *
    obtain ⟨y, m, dd⟩ := e
    tr_safe_auto)

@[tr_safe] theorem Date.trunc_minute_safe (d : Int) (hd : isValidDate d) :
    Tr.Date.trunc_minute_safe d := by
  -- (an UNTRANSLATED alias of the model is closed by the first alternative)
  first
  | (unfold Tr.Date.trunc_minute_safe; exact True.intro)
  | (
    unfold Tr.Date.trunc_minute_safe
    have hx := extract_valid d hd
    have hr := valid_date_range d hd
    try simp (disch := tr_sdisch) only [SqlDt.TrEq.Date.extract_eq d hr.1 hr.2]
    generalize Date.extract d = e at *
    obtain ⟨y, m, dd⟩ := e
    tr_safe_auto)

@[tr_safe] theorem Date.trunc_sunday_start_week_safe (d : Int) (hd : isValidDate d) :
    Tr.Date.trunc_sunday_start_week_safe d := by
  -- (an UNTRANSLATED alias of the model is closed by the first alternative)
  first
  | (unfold Tr.Date.trunc_sunday_start_week_safe; exact True.intro)
  | (
    unfold Tr.Date.trunc_sunday_start_week_safe
    have hx := extract_valid d hd
    have hr := valid_date_range d hd
    try simp (disch := tr_sdisch) only [SqlDt.TrEq.Date.extract_eq d hr.1 hr.2]
    generalize Date.extract d = e at *
    obtain ⟨y, m, dd⟩ := e
    tr_safe_auto)

@[tr_safe] theorem Date.round_century_safe (d : Int) (hd : isValidDate d) :
    Tr.Date.round_century_safe d := by
  -- (an UNTRANSLATED alias of the model is closed by the first alternative)
  first
  | (unfold Tr.Date.round_century_safe; exact True.intro)
  | (
    unfold Tr.Date.round_century_safe
    have hx := extract_valid d hd
    have hr := valid_date_range d hd
    try simp (disch := tr_sdisch) only [SqlDt.TrEq.Date.extract_eq d hr.1 hr.2]
    generalize Date.extract d = e at *
    obtain ⟨y, m, dd⟩ := e
    tr_safe_auto)

@[tr_safe] theorem Date.round_year_safe (d : Int) (hd : isValidDate d) :
    Tr.Date.round_year_safe d := by
  -- (an UNTRANSLATED alias of the model is closed by the first alternative)
  first
  | (unfold Tr.Date.round_year_safe; exact True.intro)
  | (
    unfold Tr.Date.round_year_safe
    have hx := extract_valid d hd
    have hr := valid_date_range d hd
    try simp (disch := tr_sdisch) only [SqlDt.TrEq.Date.extract_eq d hr.1 hr.2]
    generalize Date.extract d = e at *
    obtain ⟨y, m, dd⟩ := e
    tr_safe_auto)

@[tr_safe] theorem Date.round_day_safe (d : Int) (hd : isValidDate d) :
    Tr.Date.round_day_safe d := by
  -- (an UNTRANSLATED alias of the model is closed by the first alternative)
  first
  | (unfold Tr.Date.round_day_safe; exact True.intro)
  | (
    unfold Tr.Date.round_day_safe
    have hx := extract_valid d hd
    have hr := valid_date_range d hd
    try simp (disch := tr_sdisch) only [SqlDt.TrEq.Date.extract_eq d hr.1 hr.2]
    generalize Date.extract d = e at *
    obtain ⟨y, m, dd⟩ := e
    tr_safe_auto)

@[tr_safe] theorem Date.round_hour_safe (d : Int) (hd : isValidDate d) :
    Tr.Date.round_hour_safe d := by
  -- (an UNTRANSLATED alias of the model is closed by the first alternative)
  first
  | (unfold Tr.Date.round_hour_safe; exact True.intro)
  | (
    unfold Tr.Date.round_hour_safe
    have hx := extract_valid d hd
    have hr := valid_date_range d hd
    try simp (disch := tr_sdisch) only [SqlDt.TrEq.Date.extract_eq d hr.1 hr.2]
    generalize Date.extract d = e at *
    obtain ⟨y, m, dd⟩ := e
    tr_safe_auto)

@[tr_safe] theorem Date.round_minute_safe (d : Int) (hd : isValidDate d) :
    Tr.Date.round_minute_safe d := by
  -- (an UNTRANSLATED alias of the model is closed by the first alternative)
  first
  | (unfold Tr.Date.round_minute_safe; exact True.intro)
  | (
    unfold Tr.Date.round_minute_safe
    have hx := extract_valid d hd
    have hr := valid_date_range d hd
    try simp (disch := tr_sdisch) only [SqlDt.TrEq.Date.extract_eq d hr.1 hr.2]
    generalize Date.extract d = e at *
    obtain ⟨y, m, dd⟩ := e
    tr_safe_auto)

end SqlDt.TrSafe
