/-
  Lemmas/TranslatedFmtSafe (hand-written, stable; phase 6): the safety predicates `Tr.f_safe` of the byte-slice leaf
  functions of src/format.rs (SqlDt/TranslatedFmt.lean): no slice index out of range, no `u8`/`i32`/`usize` arithmetic
  leaving its type, the digit loop of `write_u32` ends within its fuel.
  Same namespace (`SqlDt.TrSafe`) and attribute (`tr_safe`) as Lemmas/TranslatedSafe; independent of that file.
  Hypotheses: none for the four slice functions (any byte list, any `max_len`); CONTRACT hypotheses for
  `parse_number` (`max_len ≤ 9`: ten digits overflow the `i32` accumulator) and `write_u32` (the crate's own
  `debug_assert!(width < 11 && width > 0)`, `value` a `u32`).
-/
import SqlDt.Lemmas.TranslatedFmtEq
set_option linter.unusedVariables false
set_option linter.unusedSimpArgs false
namespace SqlDt.TrSafe
open SqlDt SqlDt.Gen SqlDt.TrTactic SqlDt.TrEq

theorem digitsRev_length_pos (fuel v : Nat) : 1 ≤ (digitsRev (fuel + 1) v).length := by
  unfold digitsRev; split <;> simp

theorem findIdx?_lt {α} (p : α → Bool) : ∀ (s : List α) (i : Nat), s.findIdx? p = some i → i < s.length := by
  intro s
  induction s with
  | nil => intro i h; simp at h
  | cons a r ih =>
    intro i h
    rw [List.findIdx?_cons] at h
    by_cases ha : p a
    · simp [ha] at h; subst h; simp
    · simp [ha] at h
      obtain ⟨j, hj, rfl⟩ := h
      have := ih j hj
      simp; omega

@[tr_safe] theorem expect_char_safe (s : List Nat) (expected : Int) : Tr.expect_char_safe s expected := by
  first
  | (unfold Tr.expect_char_safe; exact True.intro)
  | (unfold Tr.expect_char_safe
     cases s <;> simp [Tr.bFirst, Tr.bLen])

@[tr_safe] theorem eat_whitespaces_safe (s : List Nat) : Tr.eat_whitespaces_safe s := by
  first
  | (unfold Tr.eat_whitespaces_safe; exact True.intro)
  | (unfold Tr.eat_whitespaces_safe
     simp only [Tr.bLen, Int.ofNat_eq_natCast]
     generalize hl : List.takeWhile _ s = t
     have h : t.length ≤ s.length := hl ▸ takeWhile_length_le _ _
     omega)
  | -- the prefix found with `position`
    (unfold Tr.eat_whitespaces_safe
     simp only [Tr.bPosition]
     cases hfi : List.findIdx? _ s with
     | none => simp [Tr.bLen]
     | some i =>
       have := findIdx?_lt _ _ _ hfi
       simp [Tr.bLen]; omega)

@[tr_safe] theorem eat_digits_safe (s : List Nat) (max_len : Int) : Tr.eat_digits_safe s max_len := by
  first
  | (unfold Tr.eat_digits_safe; exact True.intro)
  | (unfold Tr.eat_digits_safe
     simp only [Tr.bLen, Int.ofNat_eq_natCast]
     generalize hl : List.takeWhile _ _ = t
     have h : t.length ≤ s.length := hl ▸ Nat.le_trans (takeWhile_length_le _ _) (by simp; omega)
     omega)

@[tr_safe] theorem parse_week_day_number_safe (s : List Nat) : Tr.parse_week_day_number_safe s := by
  first
  | (unfold Tr.parse_week_day_number_safe; exact True.intro)
  | (unfold Tr.parse_week_day_number_safe
     cases s <;> simp [Tr.bLen, Tr.bFirst] <;> first | done | omega | (intros; omega))

theorem take_takeWhile_take {α} (p : α → Bool) : ∀ (s : List α) (n : Nat),
    s.take ((s.take n).takeWhile p).length = (s.take n).takeWhile p := by
  intro s
  induction s with
  | nil => intro n; simp
  | cons a s ih =>
    intro n
    cases n with
    | zero => simp
    | succ n =>
      by_cases h : p a
      · simp [List.takeWhile, h, ih]
      · simp [List.takeWhile, h]

theorem of_mem_takeWhile {α} (p : α → Bool) : ∀ (s : List α) (d : α), d ∈ s.takeWhile p → p d = true := by
  intro s
  induction s with
  | nil => intro d h; simp at h
  | cons a s ih =>
    intro d h
    by_cases ha : p a
    · simp [List.takeWhile, ha] at h
      rcases h with h | h
      · subst h; exact ha
      · exact ih d h
    · simp [List.takeWhile, ha] at h

/-- what `eat_digits` returns first: ASCII digits, at most `max_len` of them -/
theorem eat_digits_fst_spec (s : List Nat) (max_len : Int) :
    (∀ d ∈ (Tr.eat_digits s max_len).1, 48 ≤ d ∧ d ≤ 57) ∧ (Tr.eat_digits s max_len).1.length ≤ max_len.toNat := by
  rw [eat_digits_eq]
  unfold Parser.eatDigits
  simp only [take_takeWhile_take]
  constructor
  · intro d hd
    have := of_mem_takeWhile _ _ _ hd
    simpa [isDigitB] using this
  · exact Nat.le_trans (takeWhile_length_le _ _) (by simp; omega)

/-- `digits.iter().fold(acc, |int, &i| int * 10 + (i - b'0') as i32)` over at most nine ASCII digits: every step fits
    (`P` is the obligation of the closure body, `f` the closure), and the result has as many digits -/
theorem fold_digits_safe {f : Int → Nat → Int} {P : Int → Nat → Prop}
    (hf : ∀ a d, f a d = a * 10 + (Int.ofNat d - 48))
    (hP : ∀ a d, 0 ≤ a → a ≤ 99999999 → 48 ≤ d → d ≤ 57 → P a d) :
    ∀ (ds : List Nat) (k : Nat) (acc : Int), (∀ d ∈ ds, 48 ≤ d ∧ d ≤ 57) → 0 ≤ acc → acc.toNat < 10 ^ k →
      k + ds.length ≤ 9 →
      Tr.foldSafe f P acc ds ∧ 0 ≤ List.foldl f acc ds ∧ (List.foldl f acc ds).toNat < 10 ^ (k + ds.length) := by
  intro ds
  induction ds with
  | nil => intro k acc _ h0 h1 _; simp [Tr.foldSafe]; omega
  | cons d r ih =>
    intro k acc hd h0 h1 hk
    have hdd := hd d (by simp)
    have hk8 : k ≤ 8 := by simp at hk; omega
    have hp : (10 : Nat) ^ k ≤ 10 ^ 8 := Nat.pow_le_pow_right (by omega) hk8
    have hp1 : (10 : Nat) ^ (k + 1) = 10 * 10 ^ k := by rw [Nat.pow_succ, Nat.mul_comm]
    have hstep := ih (k + 1) (f acc d) (fun x hx => hd x (by simp [hx])) (by rw [hf]; simp only [Int.ofNat_eq_natCast]; omega)
      (by rw [hf, hp1]; simp only [Int.ofNat_eq_natCast]; omega) (by simp at hk ⊢; omega)
    refine ⟨⟨hP acc d h0 (by omega) hdd.1 hdd.2, hstep.1⟩, ?_, ?_⟩
    · simpa using hstep.2.1
    · have : k + 1 + r.length = k + (d :: r).length := by simp; omega
      rw [← this]; simpa using hstep.2.2

/-- the three facts `parse_number` / `parse_fraction` need about the value of the digits `eat_digits` returned -/
theorem digits_value (s : List Nat) (max_len : Int) (hm : max_len ≤ 9) {f : Int → Nat → Int} {P : Int → Nat → Prop}
    (hf : ∀ a d, f a d = a * 10 + (Int.ofNat d - 48))
    (hP : ∀ a d, 0 ≤ a → a ≤ 99999999 → 48 ≤ d → d ≤ 57 → P a d) :
    Tr.foldSafe f P 0 (Tr.eat_digits s max_len).1 ∧ 0 ≤ List.foldl f 0 (Tr.eat_digits s max_len).1 ∧
      List.foldl f 0 (Tr.eat_digits s max_len).1 ≤ 999999999 := by
  have hs := eat_digits_fst_spec s max_len
  have h := fold_digits_safe hf hP (Tr.eat_digits s max_len).1 0 0 hs.1 (by omega) (by simp) (by omega)
  refine ⟨h.1, h.2.1, ?_⟩
  have hp : (10 : Nat) ^ (0 + (Tr.eat_digits s max_len).1.length) ≤ 10 ^ 9 := Nat.pow_le_pow_right (by omega) (by omega)
  have := h.2.2
  omega

theorem fitsI32_fold_digits (s : List Nat) (max_len : Int) (hm : max_len ≤ 9) {f : Int → Nat → Int}
    (hf : ∀ a d, f a d = a * 10 + (Int.ofNat d - 48)) :
    fitsI32 (List.foldl f 0 (Tr.eat_digits s max_len).1) ∧ fitsI32 (-List.foldl f 0 (Tr.eat_digits s max_len).1) := by
  have h := digits_value s max_len hm hf (P := fun _ _ => True) (fun _ _ _ _ _ _ => True.intro)
  simp only [fitsI32, I32_MIN, I32_MAX]; omega

/-- the obligations of the closure body `int * 10 + (i - b'0') as i32` for a digit and at most eight digits so far -/
macro "tr_digit_step" : tactic => `(tactic| (
  intro a d h0 h1 h2 h3
  simp only [fitsI32, Tr.fitsU8, I32_MIN, I32_MAX, Int.ofNat_eq_natCast]
  omega))

/-- CONTRACT `max_len ≤ 9`: with ten digits (`max_len = 10`, input "9999999999") `int * 10 + ..` leaves `i32` - a debug-build
    panic, a silent wrap in release.  Every caller passes a field width of the type (`YEAR_MAX_LENGTH` .. ≤ 9) or 4. -/
@[tr_safe] theorem parse_number_safe (input : List Nat) (max_len : Int) (hm : max_len ≤ 9) :
    Tr.parse_number_safe input max_len := by
  first
  | (unfold Tr.parse_number_safe; exact True.intro)
  | (unfold Tr.parse_number_safe
     cases input with
     | nil => simp [Tr.bFirst]
     | cons a r =>
       simp only [Tr.bFirst]
       repeat' (first | intro _ | with_reducible apply And.intro)
       all_goals first
         | (simp [Tr.bLen]; done)
         | (simp [Tr.bLen]; omega)
         | exact eat_digits_safe _ _
         | exact (digits_value _ _ hm (by intros; rfl) (by tr_digit_step)).1
         | exact (fitsI32_fold_digits _ _ hm (by intros; rfl)).1
         | exact (fitsI32_fold_digits _ _ hm (by intros; rfl)).2
         )

theorem bLen_bSet (s : List Nat) (i v : Int) : Tr.bLen (Tr.bSet s i v) = Tr.bLen s := by
  unfold Tr.bSet Tr.bLen; split <;> simp

/-- safety of the digit loop of `write_u32` (abstract `cond` / `step` / obligations, as in `TrEq.digits_loop_nat`) -/
theorem digits_loop_safe {cond : List Nat × Int × Int → Bool} {step : List Nat × Int × Int → List Nat × Int × Int}
    {Pc Pb : List Nat × Int × Int → Prop} {M : Int}
    (hC : ∀ b i v, cond (b, i, v) = decide (v ≥ 10))
    (hS : ∀ b i v, 0 ≤ i → 0 ≤ v → step (b, i, v) = (Tr.bSet b i (v % 10 + 48), i - 1, v / 10))
    (hPc : ∀ st, Pc st)
    (hPb : ∀ b i v, 1 ≤ i → i < Tr.bLen b → i ≤ M → 10 ≤ v → Pb (b, i, v)) :
    ∀ (fuel : Nat) (b : List Nat) (i v : Nat), v < 10 ^ (fuel + 1) → fuel ≤ i → i < b.length → (i : Int) ≤ M →
      Tr.loopSafe fuel cond step Pc Pb (b, (i : Int), (v : Int)) := by
  intro fuel
  induction fuel with
  | zero =>
    intro b i v hv hi hb hM
    have hv10 : v < 10 := by simpa using hv
    refine ⟨hPc _, ?_⟩
    rw [hC]; simp; omega
  | succ n ih =>
    intro b i v hv hi hb hM
    refine ⟨hPc _, ?_⟩
    intro hc
    rw [hC] at hc
    have h10 : 10 ≤ v := by
      have : (10 : Int) ≤ (v : Int) := by simpa using hc
      omega
    have hv1 : v / 10 < 10 ^ (n + 1) := by
      have : 10 ^ (n + 1 + 1) = 10 * 10 ^ (n + 1) := by rw [Nat.pow_succ, Nat.mul_comm]
      omega
    refine ⟨hPb b i v (by omega) (by simp only [Tr.bLen, Int.ofNat_eq_natCast]; omega) hM (by omega), ?_⟩
    rw [hS b i v (by omega) (by omega)]
    have e1 : ((i : Int) - 1) = ((i - 1 : Nat) : Int) := by omega
    have e2 : ((v : Int) / 10) = ((v / 10 : Nat) : Int) := by omega
    rw [e1, e2]
    apply ih _ _ _ hv1 (by omega) _ (by omega)
    have := bLen_bSet b (i : Int) ((v : Int) % 10 + 48)
    simp only [Tr.bLen, Int.ofNat_eq_natCast] at this
    omega

theorem digits_loop_safe' {cond : List Nat × Int × Int → Bool} {step : List Nat × Int × Int → List Nat × Int × Int}
    {Pc Pb : List Nat × Int × Int → Prop} {fuel : Nat} {b : List Nat} {i' v' : Int}
    (i v : Nat) (hi' : i' = (i : Int)) (hv' : v' = (v : Int))
    (hC : ∀ b i v, cond (b, i, v) = decide (v ≥ 10))
    (hS : ∀ b i v, 0 ≤ i → 0 ≤ v → step (b, i, v) = (Tr.bSet b i (v % 10 + 48), i - 1, v / 10))
    (hPc : ∀ st, Pc st)
    (hPb : ∀ b i v, 1 ≤ i → i < Tr.bLen b → i ≤ i' → 10 ≤ v → Pb (b, i, v))
    (hv : v < 10 ^ (fuel + 1)) (hi : fuel ≤ i) (hb : i < b.length) :
    Tr.loopSafe fuel cond step Pc Pb (b, i', v') := by
  subst hi' hv'
  exact digits_loop_safe hC hS hPc hPb fuel b i v hv hi hb (by omega)

/-- CONTRACT: `value` is a `u32` and `0 < width < 11` (the function's `debug_assert!`; the callers pass 1..4 for a year
    and 1..9 for a fraction).  For `width ≥ 12` and a one-digit value `index -= width - len` underflows `usize`. -/
@[tr_safe] theorem write_u32_safe (value width : Int) (hv : fitsU32 value) (hw0 : 0 < width) (hw1 : width < 11) :
    Tr.write_u32_safe value width := by
  first
  | (unfold Tr.write_u32_safe; exact True.intro)
  | (unfold Tr.write_u32_safe
     obtain ⟨v, rfl⟩ : ∃ v : Nat, value = (v : Int) := ⟨value.toNat, by unfold fitsU32 at hv; omega⟩
     have hv1 : v < 10 ^ 11 := by unfold fitsU32 U32_MAX at hv; omega
     simp only []
     generalize hst : Tr.loopN _ _ _ _ = st
     obtain ⟨j, w, h1, h2, h3, h4, h5⟩ := digits_loop hst 10 v (by simp) rfl
       (by intros; rfl)
       (by tr_digit_loop_step)
       (by omega) (by omega) (by simp)
     have hL := digitsRev_length_pos 10 v
     simp only [Nat.reduceAdd] at h4 h5 hL
     have hj : j ≤ 11 := by omega
     have hlen : Tr.bLen st.1 = 11 := by
       have := congrArg List.length h5
       simp [Nat.min_eq_left hj] at this
       simp only [Tr.bLen, Int.ofNat_eq_natCast]; omega
     rw [h1, h2]
     repeat' (first | intro _ | with_reducible apply And.intro)
     all_goals first
       | omega
       | (refine digits_loop_safe' 10 v (by simp) rfl (by intros; rfl)
           (by tr_digit_loop_step)
           (by intro _; trivial)
           ?_ (by omega) (by omega) (by simp)
          intro b i x hi hb hM hx
          simp only [bLen_bSet, Tr.fitsU8, Tr.fitsU64, asU8]
          omega)
       | (simp only [bLen_bSet, hlen, Tr.fitsU8, Tr.fitsU64, asU8] at *; omega)
       | (simp only [bLen_bSet, hlen, Tr.fitsU8, Tr.fitsU64, asU8] at *; split <;> omega)
       )
/-- CONTRACT `max_len ≤ 9` (as for `parse_number`; it also keeps `FRACTION_FACTOR[digits.len()]` inside the ten entries). -/
@[tr_safe] theorem parse_fraction_safe (s : List Nat) (max_len : Int) (hm : max_len ≤ 9) :
    Tr.parse_fraction_safe s max_len := by
  first
  | (unfold Tr.parse_fraction_safe; exact True.intro)
  | (unfold Tr.parse_fraction_safe
     have hs := (eat_digits_fst_spec s max_len).2
     cases s with
     | nil => simp [Tr.bFirst]
     | cons a r =>
       simp only [Tr.bFirst]
       repeat' (first | intro _ | with_reducible apply And.intro)
       all_goals first
         | exact eat_digits_safe _ _
         | exact (digits_value _ _ hm (by intros; rfl) (by tr_digit_step)).1
         | (simp only [Tr.bLen, Int.ofNat_eq_natCast]; omega))

/-- CONTRACT `p < 10`: the function's own `debug_assert!` (the lexer only produces `FF1`..`FF9`, the default is 6). -/
@[tr_safe] theorem NDT.fraction_safe (dt : NDT) (p : Int) (h0 : 0 ≤ p) (h1 : p < 10) : Tr.NDT.fraction_safe dt p := by
  first
  | (unfold Tr.NDT.fraction_safe; exact True.intro)
  | (unfold Tr.NDT.fraction_safe
     repeat' (first | intro _ | with_reducible apply And.intro)
     all_goals omega)

/-- no hypothesis: the slices `&s[4..]` / `&s[2..]` are taken after `starts_with` has seen that many bytes -/
@[tr_safe] theorem parse_ampm_safe (s : List Nat) (style : Int) : Tr.parse_ampm_safe s style := by
  first
  | (unfold Tr.parse_ampm_safe; exact True.intro)
  | (unfold Tr.parse_ampm_safe
     simp only []
     repeat' (first | intro _ | with_reducible apply And.intro)
     all_goals first
       | omega
       | (simp only [Tr.bLen, Int.ofNat_eq_natCast, decide_eq_true_eq, List.length_cons, List.length_nil, ge_iff_le] at *
          omega))

/-! ### the search loops (no hypotheses: any text, any style value) -/

/-- a search loop is safe when its body is safe for every index it can reach -/
theorem forFirstSafe_of_all {β : Type} (f : Int → List Nat → Option β) (P : Int → List Nat → Prop) :
    ∀ (xs : List (List Nat)) (k : Int), (∀ i x, k ≤ i → i < k + (xs.length : Int) → P i x) → Tr.forFirstSafe f P k xs := by
  intro xs
  induction xs with
  | nil => intro k _; trivial
  | cons x xs ih =>
    intro k h
    refine ⟨h k x (by omega) (by simp; omega), fun _ => ih (k + 1) (fun i y h1 h2 => h i y (by omega) (by simp; omega))⟩

theorem idxD_length_le {xs : List (List (List Nat))} {n : Nat} (h : ∀ r ∈ xs, r.length ≤ n) (k : Int) :
    (idxD xs k []).length ≤ n := by
  unfold idxD
  split
  · simp
  · rw [List.getD_eq_getElem?_getD]
    cases hk : xs[k.toNat]? with
    | none => simp
    | some r => simpa using h r (List.mem_of_getElem? hk)

theorem month_rows : ∀ r ∈ MONTH_NAME_TABLE, r.length ≤ 12 := by decide
theorem day_rows : ∀ r ∈ DAY_NAME_TABLE, r.length ≤ 12 := by decide

/-- the body of the two name searches: `starts_with` has seen `name.len()` bytes before `&s[name.len()..]` is taken, and
    the index is below the row length -/
macro "tr_name_search" : tactic => `(tactic| (
  apply forFirstSafe_of_all
  intro i x h1 h2
  have hm := idxD_length_le month_rows
  have hd := idxD_length_le day_rows
  simp only []
  repeat' (first | intro _ | with_reducible apply And.intro)
  all_goals first
    | omega
    | (simp only [Tr.bLen, Tr.fitsU64, Int.ofNat_eq_natCast, decide_eq_true_eq, ge_iff_le] at *
       first | omega | (constructor <;> omega))
    | (rename_i hk
       have hk' := hk
       simp only [Tr.bLen, Tr.fitsU64, Int.ofNat_eq_natCast, decide_eq_true_eq, ge_iff_le] at *
       first
         | omega
         | (have := hm 0; have := hm 3; have := hd 0; have := hd 3; omega))))

@[tr_safe] theorem parse_month_name_safe (s : List Nat) : Tr.parse_month_name_safe s := by
  first
  | (unfold Tr.parse_month_name_safe; exact True.intro)
  | (unfold Tr.parse_month_name_safe
     repeat' (first | intro _ | with_reducible apply And.intro | split)
     all_goals first
       | omega
       | trivial
       | tr_name_search)

@[tr_safe] theorem parse_week_day_name_safe (s : List Nat) (style : Int) : Tr.parse_week_day_name_safe s style := by
  first
  | (unfold Tr.parse_week_day_name_safe; exact True.intro)
  | (unfold Tr.parse_week_day_name_safe
     repeat' (first | intro _ | with_reducible apply And.intro | split)
     all_goals first
       | omega
       | trivial
       | tr_name_search)

/-! ### `parse_year` -/

/-- what `parse_number` returns when it succeeds with at most nine digits: a value of at most nine digits, and a rest
    that is shorter than the input by at least the sign -/
theorem parse_number_spec (input : List Nat) (max_len : Int) (hm : max_len ≤ 9) (neg : Bool) (y : Int) (rem : List Nat)
    (h : Tr.parse_number input max_len = .ok (neg, y, rem)) :
    -999999999 ≤ y ∧ y ≤ 999999999 ∧
      Tr.bLen rem + boolToInt (match Tr.bFirst input with | some o => (if o = 43 ∨ o = 45 then true else false) | none => false)
        ≤ Tr.bLen input := by
  rw [parse_number_eq] at h
  unfold Parser.parseNumber at h
  cases input with
  | nil => simp [Parser.perr] at h
  | cons a t =>
    simp only [] at h
    have hv := fun s => fitsI32_fold_digits s max_len hm (f := fun acc d => acc * 10 + (Int.ofNat d - 48)) (by intros; rfl)
    have hd := fun s => digits_value s max_len hm (f := fun acc d => acc * 10 + (Int.ofNat d - 48)) (P := fun _ _ => True)
      (by intros; rfl) (fun _ _ _ _ _ _ => True.intro)
    simp only [eat_digits_eq] at hd
    have hl : ∀ s : List Nat, (Parser.eatDigits s max_len.toNat).2.length ≤ s.length := by
      intro s; unfold Parser.eatDigits; simp
    have c43 : ((a : Int) = 43) = (a = 43) := by simp only [eq_iff_iff]; omega
    have c45 : ((a : Int) = 45) = (a = 45) := by simp only [eq_iff_iff]; omega
    simp only [Tr.bFirst, Tr.bLen, Int.ofNat_eq_natCast, c43, c45, List.length_cons, B, Char.reduceToNat]
    have fin : ∀ (sg : Bool) (s : List Nat),
        (if List.isEmpty (Parser.eatDigits s max_len.toNat).1 = true then (Parser.perr : Chk (Bool × Int × List Nat))
         else Except.ok (sg, (if sg = true then -Parser.foldDigits (Parser.eatDigits s max_len.toNat).1
                              else Parser.foldDigits (Parser.eatDigits s max_len.toNat).1),
                         (Parser.eatDigits s max_len.toNat).2)) = Except.ok (neg, y, rem) →
        -999999999 ≤ y ∧ y ≤ 999999999 ∧ rem.length ≤ s.length := by
      intro sg s hh
      have h1 := hd s
      have h2 := hl s
      unfold Parser.foldDigits at hh
      split at hh
      · simp [Parser.perr] at hh
      · simp only [Except.ok.injEq, Prod.mk.injEq] at hh
        obtain ⟨_, rfl, rfl⟩ := hh
        cases sg <;> simp at h1 ⊢ <;> omega
    by_cases h43 : a = 43
    · subst h43
      have := fin false t (by simpa [B] using h)
      simp [boolToInt]; omega
    · by_cases h45 : a = 45
      · subst h45
        have := fin true t (by simpa [B] using h)
        simp [boolToInt]; omega
      · have := fin false (a :: t) (by simpa [B, h43, h45] using h)
        simp [boolToInt, h43, h45] at this ⊢; omega

/-- CONTRACT: `max_len ≤ 9` (as for `parse_number`), a text that is a real slice (its length is a `usize`) and a clock whose year is one `chrono` can represent
    (`NaiveDate`: -262144..262143), so that `current_year - current_year % 1000 + year` stays inside `i32`. -/
@[tr_safe] theorem parse_year_safe (input : List Nat) (max_len : Int) (now : Clock) (hm : max_len ≤ 9)
    (hy0 : -262144 ≤ now.year) (hy1 : now.year ≤ 262143) (hlen : Tr.bLen input ≤ 18446744073709551615) :
    Tr.parse_year_safe input max_len now := by
  first
  | (unfold Tr.parse_year_safe; exact True.intro)
  | (unfold Tr.parse_year_safe
     simp only []
     have hr100 := rrem_spec now.year 100
     have hr10 := rrem_spec now.year 10
     have hr1000 := rrem_spec now.year 1000
     repeat' (first | intro _ | with_reducible apply And.intro)
     all_goals first
       | exact parse_number_safe _ _ (by omega)
       | (split
          · trivial
          · rename_i r hp
            obtain ⟨neg, y, rem⟩ := r
            have hs := parse_number_spec _ _ (by omega) neg y rem hp
            have hb : ∀ b : Bool, 0 ≤ boolToInt b ∧ boolToInt b ≤ 1 := by intro b; cases b <;> simp [boolToInt]
            have hk := hb (match Tr.bFirst input with | some o => (if o = 43 ∨ o = 45 then true else false) | none => false)
            have hl0 : 0 ≤ Tr.bLen rem := by simp [Tr.bLen]
            simp only []
            first
              | (have h2 : max_len = 2 := by assumption
                 generalize boolToInt _ = k at *
                 simp only [Tr.fitsU64, fitsI32, I32_MIN, I32_MAX]
                 omega)
              | (have h13 : max_len = 1 ∨ max_len = 3 := by assumption
                 rcases h13 with h | h <;> subst h <;>
                   simp [idxD, YEAR_MODIFIER, asI32, Tr.fitsU64, fitsI32, I32_MIN, I32_MAX] <;> omega)))

end SqlDt.TrSafe
