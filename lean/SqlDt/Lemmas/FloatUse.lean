/-
  Lemmas/FloatUse: the remaining places where the crate goes through `f64`, stated against exact arithmetic.
-/
import SqlDt.Lemmas.Float
import SqlDt.Model.Types
import SqlDt.Lemmas.FloatUseAux
namespace SqlDt.Lemmas
open SqlDt Gen

/-- `f64::round` leaves an integer-valued double unchanged (integers up to 2^53 in magnitude). -/
theorem F64.roundHalfAway_ofInt (n : Int) (h : n.natAbs ≤ 9007199254740992) :
    F64.roundHalfAway (F64.ofInt n) = F64.ofInt n := by
  by_cases h0 : n = 0
  · subst h0; decide +kernel
  · obtain ⟨m, e, h1, _, _, r⟩ := ofInt_fin n h0 h
    rw [h1]
    by_cases he : e ≥ 0
    · unfold F64.roundHalfAway
      simp only [he, ↓reduceIte]
    · rw [roundHalfAway_fin_neg' _ m e (by omega)]
      unfold Rep at r
      have : e.toNat = 0 := by omega
      rw [this, Nat.pow_zero, Nat.mul_one, Nat.mul_one] at r
      have hD : 0 < 2 ^ (-e).toNat := by positivity
      have hmod : m % 2 ^ (-e).toNat = 0 := by rw [r, Nat.mul_mod_left]
      have hdiv : m / 2 ^ (-e).toNat = n.natAbs := by rw [r, Nat.mul_div_cancel _ hD]
      rw [hmod, hdiv, if_neg (by omega), ← h1]
      rfl

/-- The `second()` accessor of a time of day is the correctly rounded (round-to-nearest-even) quotient
    `(seconds·10^6 + µs) / 10^6`: ONE rounding of the exact rational. -/
theorem Time.second_eq (t : Int) (ht : 0 ≤ t ∧ t < 86400000000) :
    Time.second t = F64.round false (t % 60000000).toNat 1000000 := by
  unfold Time.second rrem
  have h1 : USECONDS_PER_MINUTE = 60000000 := rfl
  have h2 : USECONDS_PER_SECOND = 1000000 := rfl
  rw [h1, h2, if_pos ht.1]
  obtain ⟨r, hr⟩ : ∃ r : Nat, t % 60000000 = (r : Int) := ⟨(t % 60000000).toNat, by omega⟩
  rw [hr]
  have hr' : r < 60000000 := by omega
  obtain ⟨m1, e1, g1, _, r1, _⟩ := ofInt_nat_rep r (by omega)
  obtain ⟨m2, e2, g2, _, r2, hm2⟩ := ofInt_nat_rep 1000000 (by decide)
  have hm2' : m2 ≠ 0 := by have := hm2 (by decide); omega
  have g2' : F64.ofInt 1000000 = F64.fin false m2 e2 := g2
  rw [g1, g2', div_fin _ _ (by decide) (by decide) hm2' r1 r2]
  simp only [Nat.mul_one, Nat.one_mul, Int.toNat_natCast]
  rfl

/-- Same for the signed `second()` of a day-time interval (sign of the interval, magnitude of the sub-minute part). -/
theorem IntervalDT.second_eq (v : Int) (hv : -8640000000000000000 ≤ v ∧ v ≤ 8640000000000000000) :
    IntervalDT.second v = F64.round (decide (v < 0 ∧ v.natAbs % 60000000 ≠ 0)) (v.natAbs % 60000000) 1000000 ∨
    (v < 0 ∧ v.natAbs % 60000000 = 0 ∧ IntervalDT.second v = F64.zero false) := by
  unfold IntervalDT.second rrem
  have h1 : USECONDS_PER_MINUTE = 60000000 := rfl
  have h2 : USECONDS_PER_SECOND = 1000000 := rfl
  rw [h1, h2]
  obtain ⟨m2, e2, g2, r2, hm2⟩ := ofInt_million
  generalize hR : v.natAbs % 60000000 = R
  have hR' : R < 60000000 := by omega
  by_cases h0 : 0 ≤ v
  · left
    rw [if_pos h0]
    have : v % 60000000 = (R : Int) := by omega
    rw [this]
    obtain ⟨m1, e1, g1, _, r1, _⟩ := ofInt_nat_rep R (by omega)
    rw [g1, g2, div_fin _ _ (by decide) (by decide) hm2 r1 r2]
    have : decide (v < 0 ∧ R ≠ 0) = false := decide_eq_false (by omega)
    rw [this]
    simp only [Nat.mul_one, Nat.one_mul]
    rfl
  · rw [if_neg h0]
    have : (-v) % 60000000 = (R : Int) := by omega
    rw [this]
    by_cases hR0 : R = 0
    · right
      subst hR0
      refine ⟨by omega, rfl, ?_⟩
      obtain ⟨m1, e1, g1, _, r1, _⟩ := ofInt_nat_rep 0 (by decide)
      have : F64.ofInt (-((0 : Nat) : Int)) = F64.fin false m1 e1 := g1
      rw [this, g2, div_fin _ _ (by decide) (by decide) hm2 r1 r2]
      exact round_zero _ _
    · left
      obtain ⟨m1, e1, g1, _, _, r1⟩ := ofInt_fin (-(R : Int)) (by omega) (by omega)
      have hd : decide (-(R : Int) < 0) = true := decide_eq_true (by omega)
      rw [hd] at g1
      have hr1 : Rep m1 e1 R 1 := by
        have : (-(R : Int)).natAbs = R := by omega
        rw [this] at r1; exact r1
      rw [g1, g2, div_fin _ _ (by decide) (by decide) hm2 hr1 r2]
      have : decide (v < 0 ∧ R ≠ 0) = true := decide_eq_true ⟨by omega, hR0⟩
      rw [this]
      simp only [Nat.mul_one, Nat.one_mul]
      rfl

/-- The difference of two Oracle-style dates in days is the correctly rounded exact quotient `Δµs / 86400·10^6`:
    Δ is a multiple of 10^6 below 2^59, hence converts to `f64` exactly, so there is a single rounding. -/
theorem OracleDate.subDate_eq (a b : Int) (ha : OracleDate.isValidDate a) (hb : OracleDate.isValidDate b) (hne : a ≠ b) :
    OracleDate.subDate a b = F64.round (decide (a - b < 0)) (a - b).natAbs 86400000000 := by
  unfold OracleDate.isValidDate isValidTimestamp rrem at ha hb
  have h1 : TIMESTAMP_MIN = -62135596800000000 := by decide +kernel
  have h2 : TIMESTAMP_MAX = 253402300799999999 := by decide +kernel
  have h3 : USECONDS_PER_SECOND = 1000000 := rfl
  have h4 : USECONDS_PER_DAY = 86400000000 := rfl
  rw [h1, h2, h3] at ha hb
  obtain ⟨⟨ha1, ha2⟩, ha3⟩ := ha
  obtain ⟨⟨hb1, hb2⟩, hb3⟩ := hb
  have ha4 : a % 1000000 = 0 := by split at ha3 <;> omega
  have hb4 : b % 1000000 = 0 := by split at hb3 <;> omega
  unfold OracleDate.subDate
  rw [h4]
  obtain ⟨n, hn⟩ : ∃ n, n = a - b := ⟨_, rfl⟩
  rw [← hn]
  have hn0 : n ≠ 0 := by omega
  have hnM : n.natAbs = (n.natAbs / 1000000 * 15625) * 2 ^ 6 := by omega
  obtain ⟨m1, e1, g1, r1, _⟩ := ofInt_fin_shift n (n.natAbs / 1000000 * 15625) 6 hnM (by omega) (by omega) (by decide)
  obtain ⟨m2, e2, g2, _, r2, hm2⟩ := ofInt_nat_rep 86400000000 (by decide)
  have hm2' : m2 ≠ 0 := by have := hm2 (by decide); omega
  have g2' : F64.ofInt 86400000000 = F64.fin false m2 e2 := g2
  rw [g1, g2', div_fin _ _ (by decide) (by decide) hm2' r1 r2]
  simp only [Nat.mul_one, Nat.one_mul, Bool.bne_false]

/-- A day offset whose microsecond count `n` is computed exactly by the multiplication (e.g. any whole number of days,
    or halves/quarters… of a day) is added exactly: same result as integer arithmetic with the exact range gate. -/
theorem Timestamp.addDays_exact (ts n : Int) (x : F64) (hn : n.natAbs ≤ 9007199254740992)
    (hx : F64.mul x (F64.ofInt 86400000000) = F64.ofInt n) :
    Timestamp.addDays ts x =
      (match checkedI64 (ts + n) with
       | some r => Timestamp.tryFromUsecs r
       | none => .error .DateOutOfRange) := by
  unfold Timestamp.addDays
  have : USECONDS_PER_DAY = 86400000000 := rfl
  dsimp only
  rw [this, hx, F64.roundHalfAway_ofInt n hn, F64.toI64_ofInt n hn]
  obtain ⟨s, m, e, h1⟩ := ofInt_isFin n hn
  rw [h1]
  simp only [F64.isInfinite, F64.isNan, Bool.false_eq_true, ↓reduceIte]
  rfl

/-- Whole days: `add_days(k as f64)` adds exactly `k` days, for every `|k| ≤ 100000`. -/
theorem Timestamp.addDays_whole (ts k : Int) (hk : k.natAbs ≤ 100000) :
    Timestamp.addDays ts (F64.ofInt k) =
      (match checkedI64 (ts + k * 86400000000) with
       | some r => Timestamp.tryFromUsecs r
       | none => .error .DateOutOfRange) := by
  apply Timestamp.addDays_exact
  · omega
  · by_cases h0 : k = 0
    · subst h0; decide +kernel
    · exact F64.mul_ofInt_exact k 86400000000 (by omega) (by decide) (by omega) (by omega)

/-- Relative error of one correctly rounded operation, for a result exponent above the minimum (normal range):
    the computed result `m·2^e` (with `m ≥ 2^52`, `e > EMIN`) satisfies `|computed − exact| ≤ u/(1+u) · exact` with
    `u = 2^-53`, stated without division: `(2^53 + 1) · |m·P·den − num·Q| ≤ num·Q` where `num/den` is the exact
    positive rational, `P = 2^max(e,0)`, `Q = 2^max(−e,0)`.  Two such operations (conversion of the interval, then the
    product or quotient) compose to `(1 + u/(1+u))² − 1 < 2u = 2^-52`, the bound of the property.
    (At `e = EMIN` the bound fails: `(2^53 − 1)/2^1075` is a tie that rounds up to `2^-1022` with relative error
    `1/(2^53 − 1)`.) -/
theorem F64.roundPos_rel (num den m : Nat) (e : Int) (hn : 0 < num) (hd : 0 < den)
    (h : F64.roundPos num den = some (m, e)) (hnorm : F64.P52 ≤ m) (he : F64.EMIN < e) :
    9007199254740993 * ((m * F64.pow2 e.toNat * den : Nat) - (num * F64.pow2 (-e).toNat : Nat) : Int).natAbs
      ≤ num * F64.pow2 (-e).toNat := by
  obtain ⟨_, _, _, _, hs⟩ := roundPos_spec' num den m e hn hd h
  have hf := roundPos_fine num den m e hn hd h he
  simp only [pow2_eq]
  rw [P52_eq] at hnorm
  have hX : m * 2 ^ e.toNat * den = m * (2 ^ e.toNat * den) := by ring
  have h1 : 2 ^ 52 * (2 ^ e.toNat * den) ≤ m * (2 ^ e.toNat * den) := Nat.mul_le_mul_right _ hnorm
  rw [hX] at hs hf ⊢
  rcases hf with hf | hf | hf
  · generalize m * (2 ^ e.toNat * den) = X at *
    generalize 2 ^ e.toNat * den = Z at *
    generalize num * 2 ^ (-e).toNat = Y at *
    omega
  · have h2 : (2 ^ 52 + 1) * (2 ^ e.toNat * den) ≤ m * (2 ^ e.toNat * den) := Nat.mul_le_mul_right _ hf
    rw [Nat.add_mul, Nat.one_mul] at h2
    generalize m * (2 ^ e.toNat * den) = X at *
    generalize 2 ^ e.toNat * den = Z at *
    generalize num * 2 ^ (-e).toNat = Y at *
    omega
  · generalize m * (2 ^ e.toNat * den) = X at *
    generalize 2 ^ e.toNat * den = Z at *
    generalize num * 2 ^ (-e).toNat = Y at *
    omega

end SqlDt.Lemmas
