/-
  Lemmas/FloatUse: the remaining places where the crate goes through `f64`, stated against exact arithmetic.
-/
import SqlDt.Lemmas.Float
import SqlDt.Model.Types
namespace SqlDt.Lemmas
open SqlDt Gen

/-- `f64::round` leaves an integer-valued double unchanged (integers up to 2^53 in magnitude). -/
theorem F64.roundHalfAway_ofInt (n : Int) (h : n.natAbs ≤ 9007199254740992) :
    F64.roundHalfAway (F64.ofInt n) = F64.ofInt n := by
  sorry

/-- The `second()` accessor of a time of day is the correctly rounded (round-to-nearest-even) quotient
    `(seconds·10^6 + µs) / 10^6`: ONE rounding of the exact rational. -/
theorem Time.second_eq (t : Int) (ht : 0 ≤ t ∧ t < 86400000000) :
    Time.second t = F64.round false (t % 60000000).toNat 1000000 := by
  sorry

/-- Same for the signed `second()` of a day-time interval (sign of the interval, magnitude of the sub-minute part). -/
theorem IntervalDT.second_eq (v : Int) (hv : -8640000000000000000 ≤ v ∧ v ≤ 8640000000000000000) :
    IntervalDT.second v = F64.round (decide (v < 0 ∧ v.natAbs % 60000000 ≠ 0)) (v.natAbs % 60000000) 1000000 ∨
    (v < 0 ∧ v.natAbs % 60000000 = 0 ∧ IntervalDT.second v = F64.zero false) := by
  sorry

/-- The difference of two Oracle-style dates in days is the correctly rounded exact quotient `Δµs / 86400·10^6`:
    Δ is a multiple of 10^6 below 2^59, hence converts to `f64` exactly, so there is a single rounding. -/
theorem OracleDate.subDate_eq (a b : Int) (ha : OracleDate.isValidDate a) (hb : OracleDate.isValidDate b) (hne : a ≠ b) :
    OracleDate.subDate a b = F64.round (decide (a - b < 0)) (a - b).natAbs 86400000000 := by
  sorry

/-- A day offset whose microsecond count `n` is computed exactly by the multiplication (e.g. any whole number of days,
    or halves/quarters… of a day) is added exactly: same result as integer arithmetic with the exact range gate. -/
theorem Timestamp.addDays_exact (ts n : Int) (x : F64) (hn : n.natAbs ≤ 9007199254740992)
    (hx : F64.mul x (F64.ofInt 86400000000) = F64.ofInt n) :
    Timestamp.addDays ts x =
      (match checkedI64 (ts + n) with
       | some r => Timestamp.tryFromUsecs r
       | none => .error .DateOutOfRange) := by
  sorry

/-- Whole days: `add_days(k as f64)` adds exactly `k` days, for every `|k| ≤ 100000`. -/
theorem Timestamp.addDays_whole (ts k : Int) (hk : k.natAbs ≤ 100000) :
    Timestamp.addDays ts (F64.ofInt k) =
      (match checkedI64 (ts + k * 86400000000) with
       | some r => Timestamp.tryFromUsecs r
       | none => .error .DateOutOfRange) := by
  sorry

/-- Relative error of one correctly rounded operation in the normal range: the computed result `m·2^e` (with `m ≥ 2^52`)
    satisfies `|computed − exact| ≤ u/(1+u) · exact` with `u = 2^-53`, stated without division:
    `(2^53 + 1) · |m·P·den − num·Q| ≤ num·Q` where `num/den` is the exact positive rational, `P = 2^max(e,0)`,
    `Q = 2^max(−e,0)`.  Two such operations (conversion of the interval, then the product or quotient) compose to
    `(1 + u/(1+u))² − 1 < 2u = 2^-52`, the bound of the property. -/
theorem F64.roundPos_rel (num den m : Nat) (e : Int) (hn : 0 < num) (hd : 0 < den)
    (h : F64.roundPos num den = some (m, e)) (hnorm : F64.P52 ≤ m) :
    9007199254740993 * ((m * F64.pow2 e.toNat * den : Nat) - (num * F64.pow2 (-e).toNat : Nat) : Int).natAbs
      ≤ num * F64.pow2 (-e).toNat := by
  sorry

end SqlDt.Lemmas
