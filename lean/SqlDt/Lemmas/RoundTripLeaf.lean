/-
  Lemmas/RoundTripLeaf: runs of ASCII digits — what `eat_digits` / `parse_number` / `eat_whitespaces` do on them, and
  that the zero-padded decimal renderings of Spec/Render are such runs (length, digits only, value read back).
-/
import SqlDt.Lemmas.NoPanic
import SqlDt.Props.C06
import SqlDt.Lemmas.Render
namespace SqlDt.Lemmas
open SqlDt Gen Spec Parser

def Digs (ds : Bytes) : Prop := ∀ d ∈ ds, isDigitB d = true
def NoDigitHead (rest : Bytes) : Prop := ∀ c ∈ rest.head?, isDigitB c = false

theorem noDigitHead_nil : NoDigitHead [] := by intro c hc; simp at hc
theorem noDigitHead_cons (c : Nat) (r : Bytes) (h : isDigitB c = false) : NoDigitHead (c :: r) := by
  intro x hx; simp at hx; subst hx; exact h

theorem takeWhile_noDigitHead (rest : Bytes) (j : Nat) (h : NoDigitHead rest) : (rest.take j).takeWhile isDigitB = [] := by
  cases rest with
  | nil => simp
  | cons c r =>
    cases j with
    | zero => simp
    | succ j =>
      have := h c (by simp)
      simp [List.take_succ_cons, this]

theorem eatDigits_digs (ds rest : Bytes) (k : Nat) (hd : Digs ds) (hl : ds.length ≤ k) (hr : NoDigitHead rest) :
    eatDigits (ds ++ rest) k = (ds, rest) := by
  unfold eatDigits
  have h1 : ((ds ++ rest).take k).takeWhile isDigitB = ds := by
    rw [List.take_append]
    rw [List.take_of_length_le hl]
    rw [List.takeWhile_append_of_pos hd, takeWhile_noDigitHead _ _ hr]
    simp
  simp only [h1]
  simp


theorem digs_head_ne (_ds : Bytes) (c : Nat) (r : Bytes) (hd : Digs (c :: r)) : c ≠ B '+' ∧ c ≠ B '-' ∧ isWhitespaceB c = false := by
  have := hd c (by simp)
  simp [isDigitB] at this
  refine ⟨?_, ?_, ?_⟩
  · show c ≠ 43; omega
  · show c ≠ 45; omega
  · simp [isWhitespaceB]; omega

/-- an unsigned run of digits followed by a non-digit -/
theorem parseNumber_digs (ds rest : Bytes) (k : Nat) (hne : ds ≠ []) (hd : Digs ds) (hl : ds.length ≤ k) (hr : NoDigitHead rest) :
    parseNumber (ds ++ rest) k = .ok (false, foldDigits ds, rest) := by
  cases ds with
  | nil => exact absurd rfl hne
  | cons c r =>
    obtain ⟨h1, h2, _⟩ := digs_head_ne (c :: r) c r hd
    have he := eatDigits_digs (c :: r) rest k hd hl hr
    simp only [List.cons_append] at he
    simp only [parseNumber, List.cons_append, h1, h2, ↓reduceIte, he]
    simp

theorem parseNumber_plus (ds rest : Bytes) (k : Nat) (hne : ds ≠ []) (hd : Digs ds) (hl : ds.length ≤ k) (hr : NoDigitHead rest) :
    parseNumber (43 :: (ds ++ rest)) k = .ok (false, foldDigits ds, rest) := by
  have he := eatDigits_digs ds rest k hd hl hr
  have : (43 : Nat) = B '+' := rfl
  simp only [parseNumber, this, ↓reduceIte, he]
  cases ds with
  | nil => exact absurd rfl hne
  | cons c r => simp

theorem parseNumber_minus (ds rest : Bytes) (k : Nat) (hne : ds ≠ []) (hd : Digs ds) (hl : ds.length ≤ k) (hr : NoDigitHead rest) :
    parseNumber (45 :: (ds ++ rest)) k = .ok (true, -foldDigits ds, rest) := by
  have he := eatDigits_digs ds rest k hd hl hr
  have h1 : (45 : Nat) = B '-' := rfl
  have h2 : ¬ (B '-' = B '+') := by decide
  simp only [parseNumber, h1, h2, ↓reduceIte, he]
  cases ds with
  | nil => exact absurd rfl hne
  | cons c r => simp

theorem eatWs_digs (ds rest : Bytes) (hne : ds ≠ []) (hd : Digs ds) : eatWhitespaces (ds ++ rest) = ds ++ rest := by
  cases ds with
  | nil => exact absurd rfl hne
  | cons c r =>
    obtain ⟨_, _, h3⟩ := digs_head_ne (c :: r) c r hd
    simp [eatWhitespaces, h3]

theorem eatWs_blank (s : Bytes) : eatWhitespaces (32 :: s) = eatWhitespaces s := by
  simp [eatWhitespaces, isWhitespaceB]

theorem eatWs_nonws (c : Nat) (s : Bytes) (h : isWhitespaceB c = false) : eatWhitespaces (c :: s) = c :: s := by
  simp [eatWhitespaces, h]

/-! ### decimal renderings are digit strings -/

theorem digitsRev_digs : ∀ (f v : Nat), Digs (digitsRev f v) := by
  intro f
  induction f with
  | zero => intro v d hd; simp [digitsRev] at hd
  | succ f ih =>
    intro v d hd
    simp only [digitsRev] at hd
    split at hd
    · simp at hd
      rcases hd with rfl | hd
      · simp [isDigitB]; omega
      · exact ih _ d hd
    · simp at hd; subst hd; simp [isDigitB]; omega

theorem digitsRev_length : ∀ (f v w : Nat), 1 ≤ w → v < 10 ^ w → (digitsRev f v).length ≤ w := by
  intro f
  induction f with
  | zero => intro v w _ _; simp [digitsRev]
  | succ f ih =>
    intro v w hw hv
    simp only [digitsRev]
    split
    · rename_i h10
      cases w with
      | zero => omega
      | succ w =>
        cases w with
        | zero => simp at hv; omega
        | succ w =>
          have hp : 10 ^ (w + 1 + 1) = 10 * 10 ^ (w + 1) := by rw [Nat.pow_succ]; omega
          have := ih (v / 10) (w + 1) (by omega) (by omega)
          simp; omega
    · simp; omega

theorem digits_eq (n : Nat) (h : n < 10 ^ 20) : digits n = (digitsRev 20 n).reverse := by
  unfold digits; rw [digitsAux_eq 20 n [] h]; simp

theorem digits_digs (n : Nat) (h : n < 10 ^ 20) : Digs (digits n) := by
  rw [digits_eq n h]; intro d hd; exact digitsRev_digs 20 n d (by simpa using hd)

theorem digits_ne_nil (n : Nat) (h : n < 10 ^ 20) : digits n ≠ [] := by
  rw [digits_eq n h]
  have := digitsRev_length_pos 19 n
  intro hc; simp at hc; rw [hc] at this; simp at this

theorem digits_length_le (n w : Nat) (hw : 1 ≤ w) (h : n < 10 ^ w) (h20 : n < 10 ^ 20) : (digits n).length ≤ w := by
  rw [digits_eq n h20]; simpa using digitsRev_length 20 n w hw h

theorem pad_digs (w n : Nat) (h : n < 10 ^ 20) : Digs (pad w n) := by
  unfold pad
  intro d hd
  simp only [List.mem_append, List.mem_replicate] at hd
  rcases hd with ⟨_, rfl⟩ | hd
  · decide
  · exact digits_digs n h d hd

theorem pad_ne_nil (w n : Nat) (h : n < 10 ^ 20) : pad w n ≠ [] := by
  unfold pad; intro hc; simp at hc; exact digits_ne_nil n h hc.2

/-- exactly `w` bytes when the number fits -/
theorem pad_length (w n : Nat) (hw : 1 ≤ w) (h : n < 10 ^ w) (h20 : n < 10 ^ 20) : (pad w n).length = w := by
  have := digits_length_le n w hw h h20
  unfold pad; simp; omega

/-- at most `max w k` bytes -/
theorem pad_length_le (w k n : Nat) (hw : w ≤ k) (hk : 1 ≤ k) (h : n < 10 ^ k) (h20 : n < 10 ^ 20) : (pad w n).length ≤ k := by
  have := digits_length_le n k hk h h20
  unfold pad; simp; omega

theorem foldDigits_pad (w n : Nat) (h : n < 100000000000) : foldDigits (pad w n) = (n : Int) := by
  rw [← writeU32_eq_pad n w h]; exact C06.foldDigits_writeU32 n w h

end SqlDt.Lemmas
