/-
  Lemmas/ReadingStep: ONE token of ANY kind — the crate's field step on the text of a fitting lexeme follows `Spec.step`
  (both the success and the error outcome).
-/
import SqlDt.Lemmas.ReadingStepText
namespace SqlDt.Lemmas
open SqlDt Gen Spec Parser

/-- The facts `Delimited` provides about one item and the text `rest` that follows it. -/
structure LocalOK (ty : Ty) (f : Field) (l : Lex) (rest : Bytes) : Prop where
  num : ∀ b sg z n, l = .num b sg z n → Stops (numDigits z n) rest (maxDigits ty f)
  frac : ∀ b ds, l = .frac b ds → Stops (fracBytes ds) rest (maxDigits ty f)
  name : ∀ b k mask, l = .name b k true mask → isMonthToken f = true →
    (monthNames.getD (k - 1) []).length ≤ 3 ∨ startsWithCI rest ((monthNames.getD (k - 1) []).drop 3) = false
  omitted : l = .omitted → eatWhitespaces rest = []

theorem step_sound (ty : Ty) (now : Clock) (p : Parts) (s : Bytes) (r : Nat) (f : Field) (l : Lex) (rest : Bytes)
    (hwf : Field.WellFormed f) (hfit : l.fits ty f = true) (hloc : LocalOK ty f l rest)
    (hmi : p.meridian.isSome = true → p.meridianSeen = true)
    (hs : eatWhitespaces s = eatWhitespaces (l.text f ++ rest)) :
    StepGoal ty now p s r f l rest := by
  by_cases happ : applicable ty f = true
  swap
  · exact step_inapplicable ty now p s r f l rest (by simpa using happ)
  have hom : l = .omitted → eatWhitespaces s = [] ∧ eatWhitespaces rest = [] := by
    intro h; subst h
    have := hloc.omitted rfl
    exact ⟨by rw [hs]; simpa [Lex.text] using this, this⟩
  cases f with
  | Invalid => simp [applicable] at happ
  | Blank k =>
    cases l <;> simp [Lex.fits, happ, mayOmit] at hfit
    exact step_blank ty now p s r k _ rest hs
  | Hyphen =>
    cases l <;> simp [Lex.fits, happ, mayOmit] at hfit
    · exact step_punct ty now p s r _ _ rfl _ rest hs
    · exact step_punct_omitted ty now p s r _ (by simp) rest (hom rfl).1 (hom rfl).2
  | Colon =>
    cases l <;> simp [Lex.fits, happ, mayOmit] at hfit
    · exact step_punct ty now p s r _ _ rfl _ rest hs
    · exact step_punct_omitted ty now p s r _ (by simp) rest (hom rfl).1 (hom rfl).2
  | Dot =>
    cases l <;> simp [Lex.fits, happ, mayOmit] at hfit
    · exact step_punct ty now p s r _ _ rfl _ rest hs
    · exact step_punct_omitted ty now p s r _ (by simp) rest (hom rfl).1 (hom rfl).2
  | Slash =>
    cases l <;> simp [Lex.fits, happ, mayOmit] at hfit
    exact step_punct ty now p s r _ _ rfl _ rest hs
  | Backslash =>
    cases l <;> simp [Lex.fits, happ, mayOmit] at hfit
    exact step_punct ty now p s r _ _ rfl _ rest hs
  | Comma =>
    cases l <;> simp [Lex.fits, happ, mayOmit] at hfit
    exact step_punct ty now p s r _ _ rfl _ rest hs
  | Semicolon =>
    cases l <;> simp [Lex.fits, happ, mayOmit] at hfit
    exact step_punct ty now p s r _ _ rfl _ rest hs
  | T =>
    cases l <;> simp [Lex.fits, happ, mayOmit] at hfit
    exact step_punct ty now p s r _ _ rfl _ rest hs
  | Year w =>
    cases l <;> simp [Lex.fits, happ, mayOmit] at hfit
    exact step_year ty now p s r w hwf _ _ _ _ rest happ hfit.1 hfit.2 (hloc.num _ _ _ _ rfl) hs
  | Month =>
    cases l <;> simp [Lex.fits, happ, mayOmit] at hfit
    · exact step_month_num ty now p s r _ _ _ _ rest happ hfit.1 hfit.2 (hloc.num _ _ _ _ rfl) hs
    · rename_i b k abbr mask
      refine step_month_name ty now p s r b k abbr mask rest happ hfit ?_ hs
      intro ha; subst ha; exact hloc.name _ _ _ rfl rfl
  | Day =>
    cases l <;> simp [Lex.fits, happ, mayOmit] at hfit
    exact step_day ty now p s r _ _ _ _ rest happ hfit.1 hfit.2 (hloc.num _ _ _ _ rfl) hs
  | DayName st =>
    cases l <;> simp [Lex.fits, happ, mayOmit] at hfit
    obtain ⟨hk, ha⟩ := hfit
    subst ha
    exact step_dayName ty now p s r st _ _ _ rest happ hk hs
  | MonthName st =>
    cases l <;> simp [Lex.fits, happ, mayOmit] at hfit
    rename_i b k abbr mask
    refine step_monthName ty now p s r st b k abbr mask rest happ hfit ?_ hs
    intro ha; subst ha; exact hloc.name _ _ _ rfl rfl
  | Hour24 =>
    cases l <;> simp [Lex.fits, happ, mayOmit] at hfit
    · exact step_hour24 ty now p s r _ _ _ _ rest happ hfit.1 hfit.2 (hloc.num _ _ _ _ rfl) hs
    · exact step_hour24_omitted ty now p s r rest happ hfit (hom rfl).1 (hom rfl).2
  | Hour12 =>
    cases l <;> simp [Lex.fits, happ, mayOmit] at hfit
    · exact step_hour12 ty now p s r _ _ _ _ rest happ hfit.1 hfit.2 (hloc.num _ _ _ _ rfl) hs
    · exact step_hour12_omitted ty now p s r rest happ (hom rfl).1 (hom rfl).2
  | Minute =>
    cases l <;> simp [Lex.fits, happ, mayOmit] at hfit
    · exact step_minute ty now p s r _ _ _ _ rest happ hfit.1 hfit.2 (hloc.num _ _ _ _ rfl) hs
    · exact step_minute_omitted ty now p s r rest happ hfit (hom rfl).1 (hom rfl).2
  | Second =>
    cases l <;> simp [Lex.fits, happ, mayOmit] at hfit
    · exact step_second ty now p s r _ _ _ _ rest happ hfit.1 hfit.2 (hloc.num _ _ _ _ rfl) hs
    · exact step_second_omitted ty now p s r rest happ hfit (hom rfl).1 (hom rfl).2
  | Fraction q =>
    cases l <;> simp [Lex.fits, happ, mayOmit] at hfit
    · rename_i b ds
      exact step_frac ty now p s r q hwf b ds rest happ hfit.1.1 hfit.1.2 (by simpa [List.all_eq_true] using hfit.2)
        (hloc.frac _ _ rfl) hs
    · exact step_frac_omitted ty now p s r q rest happ (hom rfl).1 (hom rfl).2
  | AmPm st =>
    cases l <;> simp [Lex.fits, happ, mayOmit] at hfit
    · exact step_ampm ty now p s r st _ _ _ rest happ hmi hs
    · exact step_ampm_omitted ty now p s r st rest happ hmi (hom rfl).1 (hom rfl).2
  | DayOfWeek =>
    cases l <;> simp [Lex.fits, happ, mayOmit] at hfit
    exact step_dow ty now p s r _ _ rest happ hfit hs
  | DayOfYear =>
    cases l <;> simp [Lex.fits, happ, mayOmit] at hfit
    exact step_doy ty now p s r _ _ _ _ rest happ hfit.1 hfit.2 (hloc.num _ _ _ _ rfl) hs
  | WeekOfMonth => simp [applicable] at happ
  | WeekOfYear => simp [applicable] at happ

end SqlDt.Lemmas
