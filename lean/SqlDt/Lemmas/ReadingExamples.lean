/-
  Lemmas/ReadingExamples: concrete checks around the two theorems `parse_reading` (C05) and `format_parse` (C06):
   * each clause of `Delimited` is needed — a reading that violates it is read differently by the crate's parser;
   * the lossless class contains the usual pictures of all six types (compiled with `Lexer.tryNew`);
   * the crate's parser on the lenient texts of Spec/ReadingExamples (kernel-checked instances of `parse_reading`).
-/
import SqlDt.Lemmas.ReadingRoundTrip
import SqlDt.Spec.ReadingExamples
namespace SqlDt.Lemmas.Examples
open SqlDt Gen Spec Parser SqlDt.Spec.Examples

/-! ### why each clause of `Delimited` is there -/

/-- (a) a number shorter than its field, directly followed by a digit: `HH24MI` on "123" is meant as 1:23 but the parser
    takes "12" for the hour.  With full-width numbers ("0123") or a separator the reading is delimited. -/
def a1 : List (Field × Lex) := [(.Hour24, n 1), (.Minute, n 23)]
example : (a1.all fun q => q.2.fits .T q.1) = true ∧ Delimited .T a1 = false := by decide
example : write a1 0 = str "123" ∧ denote .T a1 clk = some 4980000000 ∧
    Parser.parse .T (a1.map Prod.fst) (write a1 0) clk = .ok (43380000000, 0) := by decide
example : Delimited .T [(.Hour24, n 1 1), (.Minute, n 23)] = true := by decide

/-- (a) the same for the fraction: `FF3SS` on "57" is meant as .5 s and 7 s, the parser reads .57 s -/
def a2 : List (Field × Lex) := [(.Fraction (some 3), .frac 0 [5]), (.Second, n 7)]
example : (a2.all fun q => q.2.fits .T q.1) = true ∧ Delimited .T a2 = false := by decide
example : denote .T a2 clk = some 7500000 ∧ Parser.parse .T (a2.map Prod.fst) (write a2 0) clk = .ok (570000, 0) := by
  decide

/-- (b) an abbreviated month name followed by the rest of the full name is read as the full name (`parse_month_name`
    tries the full names first).  With the crate's name tables no sequence of FITTING lexemes can produce such a text
    (no token's text starts with "ch", "e", "y", "uary" …), so the clause never excludes a reading; it is kept because
    the proof then does not depend on the spelling of the names.  On raw bytes: -/
example : parseMonthName (str "Marx") = .ok (3, str "x") ∧ parseMonthName (str "March") = .ok (3, []) ∧
    parseMonthName (str "Marchx") = .ok (3, str "x") := by decide

/-- (c) a token "left out at the end" that is followed by written text: `MI SS` on "5" meant as minute left out,
    second 5 — the parser reads minute 5. -/
def c1 : List (Field × Lex) := [(.Minute, .omitted), (.Blank 1, .blank 0), (.Second, n 5)]
example : (c1.all fun q => q.2.fits .T q.1) = true ∧ Delimited .T c1 = false := by decide
example : denote .T c1 clk = some 5000000 ∧ Parser.parse .T (c1.map Prod.fst) (write c1 0) clk = .ok (300000000, 0) := by
  decide

/-! ### lossless pictures -/

def lossless (ty : Ty) (pic : String) : Bool :=
  match Lexer.tryNew (bytesOf pic) with
  | .ok fields => Lossless ty fields
  | .error _ => false

example : lossless .TS "Day, DD Month YYYY HH12:MI:SS.FF9 P.M." = true := by decide
example : lossless .TS "FF7 SS MI HH24 DDD YYYY dy" = true := by decide
example : lossless .TS "YYYY-MM-DD HH24:MI:SS.FF6" = true ∧ lossless .TS "YYYY-MM-DDTHH24:MI:SS.FF" = true := by decide
example : lossless .D "YYYY-MM-DD" = true ∧ lossless .D "YYYYMMDD" = true ∧ lossless .D "DDD/YYYY" = true ∧
    lossless .D "DD Mon YYYY D" = true ∧ lossless .D "mon-DD-YYYY DAY" = true := by decide
example : lossless .T "HH24:MI:SS.FF" = true ∧ lossless .T "HH:MI:SS.FF6 am" = true ∧ lossless .T "FF8SSMIHH24" = true ∧
    lossless .T "a.m. HH12 MI SS FF6" = true := by decide
example : lossless .OD "YYYY-MM-DD HH24:MI:SS" = true ∧ lossless .OD "YYYYMMDDHH24MISS" = true ∧
    lossless .OD "DDD YYYY HH12 PM MI SS" = true := by decide
example : lossless .YM "YYYY-MM" = true ∧ lossless .YM "Y MM" = true := by decide
example : lossless .DT "DD HH24:MI:SS.FF6" = true ∧ lossless .DT "DD HH24:MI:SS.FF" = true ∧
    lossless .DT "DD,FF9;SS/MI\\HH24" = true := by decide

/-- …and pictures that lose information or are ambiguous are not: two-digit year, no day, fewer than six fraction
    digits, 12-hour clock without meridian, a repeated component, interval days directly followed by digits, `FF`
    directly followed by digits, interval field not first, output-only week numbers. -/
example : lossless .D "YY-MM-DD" = false ∧ lossless .D "YYYY-MM" = false ∧ lossless .T "HH24:MI:SS.FF3" = false ∧
    lossless .T "HH:MI:SS.FF6" = false ∧ lossless .D "YYYY-MM-DD MON" = false ∧ lossless .DT "DDHH24:MI:SS.FF6" = false ∧
    lossless .T "FFSSMIHH24" = false ∧ lossless .YM "MM-YYYY" = false ∧ lossless .D "YYYY-MM-DD WW" = false := by
  decide +kernel

/-! ### the crate's parser on lenient texts (instances of `parse_reading`, checked by evaluation) -/

example : parseValue .TS (bytesOf " +2024 - 2 -29  13 : 5 :9 . 1234567  ") (bytesOf "YYYY-MM-DD HH24:MI:SS.FF9") clk =
    .ok (1709211909123457, 0) := by decide +kernel
example : parseValue .D (bytesOf "2024-FeBruary-29") (bytesOf "YYYY-MM-DD") clk = .ok (19782, 0) := by decide +kernel
example : parseValue .T (bytesOf "1:05 pM") (bytesOf "HH12:MI AM") clk = .ok (47100000000, 0) := by decide +kernel
example : parseValue .OD (bytesOf "2024-02-29 13") (bytesOf "YYYY-MM-DD HH24:MI:SS") clk = .ok (1709211600000000, 0) := by
  decide +kernel
example : parseValue .YM (bytesOf "-1-3") (bytesOf "YYYY-MM") clk = .ok (-15, 0) := by decide +kernel
example : parseValue .DT (bytesOf "03:04:05.5") (bytesOf "HH24:MI:SS.FF") clk = .ok (11045500000, 0) := by decide +kernel

end SqlDt.Lemmas.Examples
