/-
  Lemmas/TranslatedUnitsIso (hand-written, stable; phase 5c, group 3): `Tr.f = model f` for the ISO-year units
  (`week_day_of_julian`, `Date::date_to_iso_year`, `trunc_iso_year` / `round_iso_year` of `Date`, `Timestamp`, `oracle::Date`).
  Same namespace (`SqlDt.TrEq`) and attribute (`tr_eq`) as Lemmas/TranslatedEq and Lemmas/TranslatedUnits; a separate
  file so that lake builds it in parallel.
-/
import SqlDt.Lemmas.TranslatedUnits
import SqlDt.Lemmas.Calendar
set_option linter.unusedVariables false
set_option linter.unusedSimpArgs false
namespace SqlDt.TrEq
open SqlDt SqlDt.Gen SqlDt.TrTactic

/-! ### helpers (sub-namespace `SqlDt.TrEq.IsoU`, so that they cannot clash with the other unit files) -/
namespace IsoU

/-- 4 January of the year after a valid date of a year before 9999 is a valid date (so `Date::extract` of it is exact) -/
theorem next_jan4_range (d : Int) (hd : isValidDate d) (hy : (Date.extract d).1 ≠ 9999) :
    -2440588 ≤ Date.fromYmdUnchecked ((Date.extract d).1 + 1) 1 4 ∧
      Date.fromYmdUnchecked ((Date.extract d).1 + 1) 1 4 ≤ 2145043059 := by
  obtain ⟨⟨y1, y9, _⟩, _⟩ := SqlDt.Lemmas.extract_roundtrip d hd
  refine valid_date_range' _ (SqlDt.Lemmas.extract_fromYmd ((Date.extract d).1 + 1) 1 4
    ⟨by omega, by omega, by omega, by omega, by omega, ?_⟩).1
  unfold Spec.dim
  simp

theorem valid_ts_date' (ts : Int) (hts : isValidTimestamp ts) : isValidDate (Timestamp.date ts) := by
  rw [SqlDt.Timestamp.date_eq]
  rw [isValidTimestamp_iff] at hts; rw [isValidDate_iff]; omega

theorem valid_ts_range' (ts : Int) (hts : isValidTimestamp ts) :
    -210866803200000000 ≤ ts ∧ ts ≤ 9223372036854775807 := by
  rw [isValidTimestamp_iff] at hts; omega

end IsoU
open IsoU

@[tr_eq] theorem week_day_of_julian_eq (j : Int) : Tr.week_day_of_julian j = Date.weekDayOfJulian j := by
  unfold Tr.week_day_of_julian
  first
  | (with_reducible_and_instances rfl)
  | (unfold Date.weekDayOfJulian
     tr_auto)

@[tr_eq] theorem Date.date_to_iso_year_eq (d : Int) (h0 : -2440588 ≤ d) (h1 : d ≤ 2145043059) :
    Tr.Date.date_to_iso_year d = Date.dateToIsoYear d := by
  unfold Tr.Date.date_to_iso_year
  first
  | (with_reducible_and_instances rfl)
  | (simp (disch := omega) only [tr_eq]
     unfold Date.dateToIsoYear
     simp only [Date.year]
     by_cases c1 : d + UNIX_EPOCH_JULIAN < date2julian (Date.extract d).fst 1 4 -
         Date.weekDayOfJulian (date2julian (Date.extract d).fst 1 4) <;>
       simp only [c1, ↓reduceIte] <;>
       tr_auto)

@[tr_eq] theorem Date.trunc_iso_year_eq (d : Int) (h0 : -2440588 ≤ d) (h1 : d ≤ 2145043059) :
    Tr.Date.trunc_iso_year d = Date.trunc .isoYear d := by
  unfold Tr.Date.trunc_iso_year
  first
  | (with_reducible_and_instances rfl)
  | (have hw := dayOfWeek_range (Date.fromYmdUnchecked (Date.dateToIsoYear d) 1 1)
     try simp (disch := omega) only [tr_eq]
     simp only [Date.trunc, Date.truncIsoYear]
     first
     | (with_reducible_and_instances rfl)
     | (rw [applyWeekTable_eq _ _ _ (by omega) (by simp only [ISO_YEAR_TABLE, List.length_cons, List.length_nil]; omega)]
        first
        | done
        | (with_reducible_and_instances rfl)
        | (simp only [ISO_YEAR_TABLE]
           first | done | (with_reducible_and_instances rfl) | tr_auto)))

@[tr_eq] theorem Date.round_iso_year_eq (d : Int) (hd : isValidDate d) :
    Tr.Date.round_iso_year d = Date.round .isoYear d := by
  unfold Tr.Date.round_iso_year
  first
  | (with_reducible_and_instances rfl)
  | (have hr := valid_date_range' d hd
     have hj := next_jan4_range d hd
     simp (disch := omega) only [tr_eq]
     simp only [Date.round, Date.roundIsoYear, Date.trunc]
     -- name `Date::extract d` (the model's tuple pattern and the translation's projections then agree syntactically)
     rcases hE : Date.extract d with ⟨y, m, dd⟩
     simp only [hE] at *
     try dsimp only at *
     by_cases hy : y = DATE_MAX_YEAR
     · simp only [hy, ↓reduceIte]
       first | done | (with_reducible_and_instances rfl) | tr_auto
     · -- 4 January of the next year is a valid date, so `trunc_iso_year` of it is the model's
       have hj' := hj (by simpa [DATE_MAX_YEAR] using hy)
       simp (disch := omega) only [tr_eq, Date.trunc]
       first | done | (with_reducible_and_instances rfl) | tr_auto)

@[tr_eq] theorem Timestamp.trunc_iso_year_eq (ts : Int) (h0 : -210866803200000000 ≤ ts) (h1 : ts ≤ 9223372036854775807) :
    Tr.Timestamp.trunc_iso_year ts = Timestamp.trunc .isoYear ts := by
  unfold Tr.Timestamp.trunc_iso_year
  first
  | (with_reducible_and_instances rfl)
  | (have hd := SqlDt.Timestamp.date_eq ts
     simp (disch := omega) only [tr_eq]
     simp only [Timestamp.trunc, bind, Except.bind, pure, Except.pure]
     first | done | (with_reducible_and_instances rfl) | tr_auto)

@[tr_eq] theorem Timestamp.round_iso_year_eq (ts : Int) (hts : isValidTimestamp ts) :
    Tr.Timestamp.round_iso_year ts = Timestamp.round .isoYear ts := by
  unfold Tr.Timestamp.round_iso_year
  first
  | (with_reducible_and_instances rfl)
  | (have hr := valid_ts_range' ts hts
     have hd := valid_ts_date' ts hts
     simp (disch := first | assumption | omega) only [tr_eq]
     simp only [Timestamp.round, bind, Except.bind, pure, Except.pure]
     first | done | (with_reducible_and_instances rfl) | tr_auto)

@[tr_eq] theorem OracleDate.trunc_iso_year_eq (od : Int) (h0 : -210866803200000000 ≤ od) (h1 : od ≤ 9223372036854775807) :
    Tr.OracleDate.trunc_iso_year od = OracleDate.trunc .isoYear od := by
  unfold Tr.OracleDate.trunc_iso_year
  first
  | (with_reducible_and_instances rfl)
  | (simp (disch := omega) only [tr_eq]
     simp only [OracleDate.trunc, bind, Except.bind, pure, Except.pure]
     first | done | (with_reducible_and_instances rfl) | tr_auto)

@[tr_eq] theorem OracleDate.round_iso_year_eq (od : Int) (hod : isValidTimestamp od) :
    Tr.OracleDate.round_iso_year od = OracleDate.round .isoYear od := by
  unfold Tr.OracleDate.round_iso_year
  first
  | (with_reducible_and_instances rfl)
  | (simp (disch := first | assumption | omega) only [tr_eq]
     simp only [OracleDate.round, bind, Except.bind, pure, Except.pure]
     first | done | (with_reducible_and_instances rfl) | tr_auto)
end SqlDt.TrEq
