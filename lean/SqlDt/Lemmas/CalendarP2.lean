/-
  Lemmas/CalendarP2: kernel evaluation of the round-trip checker `CalCheck.chk` on the days [36864, 55296)
  counted from 0001-01-01: one of 8 chunks covering the 400-year period of 146097 days (the last chunk
  overshoots, harmlessly).  Generated text; 18 blocks of 1024 days, each a single `decide +kernel`.
  Used by Lemmas/Calendar.
-/
import SqlDt.Lemmas.CalendarCheck
namespace SqlDt.Lemmas.CalCheck

theorem chunk2_0 : allRange chk 10 36864 = true := by decide +kernel
theorem chunk2_1 : allRange chk 10 37888 = true := by decide +kernel
theorem chunk2_2 : allRange chk 10 38912 = true := by decide +kernel
theorem chunk2_3 : allRange chk 10 39936 = true := by decide +kernel
theorem chunk2_4 : allRange chk 10 40960 = true := by decide +kernel
theorem chunk2_5 : allRange chk 10 41984 = true := by decide +kernel
theorem chunk2_6 : allRange chk 10 43008 = true := by decide +kernel
theorem chunk2_7 : allRange chk 10 44032 = true := by decide +kernel
theorem chunk2_8 : allRange chk 10 45056 = true := by decide +kernel
theorem chunk2_9 : allRange chk 10 46080 = true := by decide +kernel
theorem chunk2_10 : allRange chk 10 47104 = true := by decide +kernel
theorem chunk2_11 : allRange chk 10 48128 = true := by decide +kernel
theorem chunk2_12 : allRange chk 10 49152 = true := by decide +kernel
theorem chunk2_13 : allRange chk 10 50176 = true := by decide +kernel
theorem chunk2_14 : allRange chk 10 51200 = true := by decide +kernel
theorem chunk2_15 : allRange chk 10 52224 = true := by decide +kernel
theorem chunk2_16 : allRange chk 10 53248 = true := by decide +kernel
theorem chunk2_17 : allRange chk 10 54272 = true := by decide +kernel

theorem chunk2 (n : Nat) (h1 : 36864 ≤ n) (h2 : n < 55296) : chk n = true := by
  have s := allRange_sound chk 10
  by_cases c0 : n < 37888
  · exact s _ chunk2_0 n (by omega) (by omega)
  by_cases c1 : n < 38912
  · exact s _ chunk2_1 n (by omega) (by omega)
  by_cases c2 : n < 39936
  · exact s _ chunk2_2 n (by omega) (by omega)
  by_cases c3 : n < 40960
  · exact s _ chunk2_3 n (by omega) (by omega)
  by_cases c4 : n < 41984
  · exact s _ chunk2_4 n (by omega) (by omega)
  by_cases c5 : n < 43008
  · exact s _ chunk2_5 n (by omega) (by omega)
  by_cases c6 : n < 44032
  · exact s _ chunk2_6 n (by omega) (by omega)
  by_cases c7 : n < 45056
  · exact s _ chunk2_7 n (by omega) (by omega)
  by_cases c8 : n < 46080
  · exact s _ chunk2_8 n (by omega) (by omega)
  by_cases c9 : n < 47104
  · exact s _ chunk2_9 n (by omega) (by omega)
  by_cases c10 : n < 48128
  · exact s _ chunk2_10 n (by omega) (by omega)
  by_cases c11 : n < 49152
  · exact s _ chunk2_11 n (by omega) (by omega)
  by_cases c12 : n < 50176
  · exact s _ chunk2_12 n (by omega) (by omega)
  by_cases c13 : n < 51200
  · exact s _ chunk2_13 n (by omega) (by omega)
  by_cases c14 : n < 52224
  · exact s _ chunk2_14 n (by omega) (by omega)
  by_cases c15 : n < 53248
  · exact s _ chunk2_15 n (by omega) (by omega)
  by_cases c16 : n < 54272
  · exact s _ chunk2_16 n (by omega) (by omega)
  exact s _ chunk2_17 n (by omega) (by omega)

end SqlDt.Lemmas.CalCheck
