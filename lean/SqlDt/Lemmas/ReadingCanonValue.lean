/-
  Lemmas/ReadingCanonValue: the components recorded from the canonical reading of a lossless picture assemble to the
  value they came from — the calendar date (also through the day of the year, with consistent extra weekday / month / day
  tokens), the time of day (24-hour clock or 12-hour clock with meridian), and the two intervals.
-/
import SqlDt.Lemmas.ReadingCanonStep
namespace SqlDt.Lemmas
open SqlDt Gen Spec Parser

/-! ### ordinal day ↔ (month, day), both kinds of year: a finite table -/

def dimL (leap : Bool) (m : Int) : Int :=
  if m = 2 then (if leap then 29 else 28)
  else if m = 4 ∨ m = 6 ∨ m = 9 ∨ m = 11 then 30 else 31

theorem dim_eq_L (y m : Int) : dim y m = dimL (isLeap y) m := rfl

theorem ordinal_table : ∀ leap : Bool, ∀ m : Nat, m < 12 → ∀ d : Nat, d < 31 →
    (Int.ofNat d + 1 ≤ dimL leap (Int.ofNat m + 1)) →
    (monthOfOrdinalL leap (dbmL leap (Int.ofNat m + 1) + (Int.ofNat d + 1)) = Int.ofNat m + 1 ∧
      dbmL leap (Int.ofNat m + 1) + (Int.ofNat d + 1) ≤ (if leap then 366 else 365)) := by
  decide +kernel

theorem ordinal_spec (y m d : Int) (h : IsDate y m d) :
    monthOfOrdinal y (daysBeforeMonth y m + d) = m ∧
    daysBeforeMonth y m + d ≤ (if isLeap y then 366 else 365) := by
  obtain ⟨m1, m12, d1, dd⟩ := h
  have d31 := dim_le31 y m d dd
  obtain ⟨m', rfl⟩ : ∃ m' : Nat, m = Int.ofNat m' + 1 := ⟨(m - 1).toNat, by simp; omega⟩
  obtain ⟨d', rfl⟩ : ∃ d' : Nat, d = Int.ofNat d' + 1 := ⟨(d - 1).toNat, by simp; omega⟩
  rw [dim_eq_L] at dd
  have := ordinal_table (isLeap y) m' (by simp at m12; omega) d' (by simp at d31; omega) dd
  rw [monthOfOrdinal_eq_L, dbm_eq_L]
  exact this

/-! ### the date -/

theorem dateOf_canon (ty : Ty) (c : Comps) (p : Parts) (now : Clock) (y m d : Int) (hv : ValidYMD y m d)
    (hcy : c.year = y) (hcm : c.month = m) (hcd : c.day = d) (hcw : c.dow0 = weekday (dayNumber y m d))
    (hco : c.doy = daysBeforeMonth y m + d) (hag : Agree ty c p) (hY : p.year.isSome = true)
    (hmd : (p.month.isSome = true ∧ p.day.isSome = true) ∨ p.doy.isSome = true) :
    dateOf p now = some (y, m, d) := by
  obtain ⟨y1, y9, hisd⟩ := hv
  obtain ⟨hord, hlen⟩ := ordinal_spec y m d hisd
  have hdr := doy_range y m d hisd
  have hyear : p.year.getD now.year = y := by
    cases hy : p.year with
    | none => simp [hy] at hY
    | some y' => simp [hag.year y' hy, hcy]
  have hmdof : monthDayOf p now y = some (m, d) := by
    unfold monthDayOf
    cases hn : p.doy with
    | none =>
      simp only [hn, Option.isSome_none, Bool.false_eq_true, or_false] at hmd
      cases hpm : p.month with
      | none => simp [hpm] at hmd
      | some mm =>
        cases hpd : p.day with
        | none => simp [hpd] at hmd
        | some dd =>
          have e1 := hag.month mm hpm
          have e2 := hag.day dd hpd
          simp only [Option.map_some, Option.getD_some, Int.ofNat_eq_natCast, e1, e2, hcm, hcd]
    | some n =>
      have en := hag.doy n hn
      rw [hco] at en
      have hrange : 1 ≤ n ∧ n ≤ (if isLeap y = true then 366 else 365) := by
        constructor
        · omega
        · have := hlen; split at this <;> split <;> simp_all <;> omega
      simp only [hrange, and_self, not_true_eq_false, ↓reduceIte, en, hord]
      have hd' : daysBeforeMonth y m + d - daysBeforeMonth y m = d := by omega
      rw [hd']
      have hmall : p.month.all (fun (x : Nat) => decide ((x : Int) = m)) = true := by
        cases hpm : p.month with
        | none => rfl
        | some mm => simp [hag.month mm hpm, hcm]
      have hdall : p.day.all (fun (x : Nat) => decide ((x : Int) = d)) = true := by
        cases hpd : p.day with
        | none => rfl
        | some dd' => simp [hag.day dd' hpd, hcd]
      simp only [hmall, hdall, and_self, ↓reduceIte]
  have hdow : p.dow.all (fun (w : Nat) => decide (weekday (dayNumber y m d) + 1 = (w : Int))) = true := by
    cases hw : p.dow with
    | none => rfl
    | some w => simp [hag.dow w hw, hcw]
  unfold dateOf
  simp only [hyear, y1, y9, and_self, not_true_eq_false, ↓reduceIte, hmdof, hisd, hdow]

/-! ### the time of day -/

theorem hourOf_canon (ty : Ty) (c : Comps) (p : Parts) (hag : Agree ty c p) (hh : 0 ≤ c.hour ∧ c.hour ≤ 23)
    (hcomp : (flagsOf p).hour24 = true ∨ ((flagsOf p).hour12 = true ∧ (flagsOf p).meridian = true)) :
    ((hourOf p : Nat) : Int) = c.hour := by
  have hmer := hag.meridian
  simp only [flagsOf] at hcomp
  cases hph : p.hour with
  | none => simp [hph] at hcomp
  | some v =>
    obtain ⟨is24, h⟩ := v
    cases is24 with
    | true =>
      have := hag.hour24 h hph
      simp [hourOf, hph, this]
    | false =>
      have e := hag.hour12 h hph
      simp only [hph, Option.any_some, Bool.false_eq_true, Bool.not_false, true_and, false_or] at hcomp
      rw [hcomp] at hmer
      simp only [↓reduceIte] at hmer
      unfold hour12Of at e
      simp only [hourOf, hph, hmer]
      by_cases h12 : 12 ≤ c.hour
      · simp only [h12, decide_true, ↓reduceIte]
        split <;> push_cast <;> omega
      · simp only [h12, decide_false, Bool.false_eq_true, ↓reduceIte]
        split <;> push_cast <;> omega

theorem timeOf_canon (ty : Ty) (c : Comps) (p : Parts) (hag : Agree ty c p) (hb : Bounds ty c)
    (hcomp : (flagsOf p).hour24 = true ∨ ((flagsOf p).hour12 = true ∧ (flagsOf p).meridian = true))
    (hmin : p.minute.isSome = true) (hsec : p.second.isSome = true) (hus : p.usec.isSome = true ∨ c.usec = 0) :
    ∃ t : Nat, timeOf p = some t ∧
      (t : Int) = c.hour * 3600000000 + c.minute * 60000000 + c.sec * 1000000 + c.usec := by
  have hh := hourOf_canon ty c p hag hb.hour hcomp
  have hm : ((p.minute.getD 0 : Nat) : Int) = c.minute := by
    cases h : p.minute with
    | none => simp [h] at hmin
    | some v => simp [hag.minute v h]
  have hs : ((p.second.getD 0 : Nat) : Int) = c.sec := by
    cases h : p.second with
    | none => simp [h] at hsec
    | some v => simp [hag.second v h]
  have hu : ((p.usec.getD 0 : Nat) : Int) = c.usec := by
    cases h : p.usec with
    | none =>
      rcases hus with hus | hus
      · simp [h] at hus
      · simp [hus]
    | some v => simp [hag.usec v h]
  have b1 := hb.hour; have b2 := hb.minute; have b3 := hb.sec
  refine ⟨hourOf p * 3600000000 + p.minute.getD 0 * 60000000 + p.second.getD 0 * 1000000 + p.usec.getD 0, ?_, ?_⟩
  · unfold timeOf
    have c1 : hourOf p < 24 := by omega
    have c2 : p.minute.getD 0 < 60 := by omega
    have c3 : p.second.getD 0 < 60 := by omega
    simp only [c1, c2, c3, and_self, ↓reduceIte]
  · push_cast; rw [hh, hm, hs, hu]

end SqlDt.Lemmas
