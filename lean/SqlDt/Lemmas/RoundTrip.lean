/-
  Lemmas/RoundTrip: parsing the text that `format` produced, with the same picture, returns the value.
  Part 1: the six fixed pictures of the serde human-readable form (C15).
  Part 2 (stretch): a decidable class of "lossless" pictures (C06).

  Helper files: RoundTripValid (range of whatever `parse` returns), RoundTripLeaf (digit runs, `parse_number`),
  RoundTripFields (one picture token at a time), RoundTripCap (bounded sink), RoundTripSer (the six serialised texts),
  RoundTripParse (the six texts parsed back).
-/
import SqlDt.Lemmas.RenderAll
import SqlDt.Lemmas.WellFormed
import SqlDt.Lemmas.NoPanic
import SqlDt.Lemmas.UnitsModel
import SqlDt.Props.C13
import SqlDt.Model.Serde
import SqlDt.Lemmas.RoundTripValid
import SqlDt.Lemmas.RoundTripParse
namespace SqlDt.Lemmas
open SqlDt Gen Spec Parser

/-! ### Part 1: serde pictures -/

/-! ### every valid value is built from components in range -/

theorem decomp_D (v : Int) (hv : isValidDate v) : ∃ y m d, ValidYMD y m d ∧ v = dayNumber y m d := by
  obtain ⟨h1, h2⟩ := C01.extract_roundtrip v hv
  refine ⟨_, _, _, h1, ?_⟩
  have h3 := (C01.tryFromYmd_roundtrip _ _ _ h1).1
  rw [h2] at h3; exact (Except.ok.inj h3)

theorem decomp_T (t : Int) (ht : 0 ≤ t ∧ t < 86400000000) :
    ∃ h mi s us, (0 ≤ h ∧ h < 24) ∧ (0 ≤ mi ∧ mi < 60) ∧ (0 ≤ s ∧ s < 60) ∧ (0 ≤ us ∧ us < 1000000) ∧
      t = Time.fromHmsUnchecked h mi s us ∧ us = t % 1000000 := by
  refine ⟨t / 3600000000, t % 3600000000 / 60000000, t % 60000000 / 1000000, t % 1000000, ?_, ?_, ?_, ?_, ?_, rfl⟩ <;>
    (try unfold Time.fromHmsUnchecked USECONDS_PER_HOUR USECONDS_PER_MINUTE USECONDS_PER_SECOND) <;> omega

theorem decomp_TS (v : Int) (hv : isValidTimestamp v) :
    ∃ y m d h mi s us, ValidYMD y m d ∧ (0 ≤ h ∧ h < 24) ∧ (0 ≤ mi ∧ mi < 60) ∧ (0 ≤ s ∧ s < 60) ∧
      (0 ≤ us ∧ us < 1000000) ∧ v = tsOf y m d h mi s us ∧ us = v % 1000000 := by
  rw [isValidTimestamp_iff] at hv
  have hd : isValidDate (v / 86400000000) := by rw [isValidDate_iff]; omega
  obtain ⟨y, m, d, hymd, e1⟩ := decomp_D _ hd
  obtain ⟨h, mi, s, us, hh, hm, hs, hu, e2, e3⟩ := decomp_T (v % 86400000000) (by omega)
  refine ⟨y, m, d, h, mi, s, us, hymd, hh, hm, hs, hu, ?_, ?_⟩
  · unfold tsOf; rw [← e1, ← e2]; omega
  · omega

theorem decomp_YM (v : Int) (hv : IntervalYM.isValidMonths v) :
    ∃ neg y mo, (0 ≤ y ∧ y ≤ 178000000) ∧ (0 ≤ mo ∧ mo < 12) ∧ (neg = true → y * 12 + mo ≠ 0) ∧
      y * 12 + mo ≤ 2136000000 ∧ v = ymOf neg y mo := by
  unfold IntervalYM.isValidMonths INTERVAL_MAX_MONTH at hv
  by_cases hn : v < 0
  · refine ⟨true, (-v) / 12, (-v) % 12, ?_, ?_, ?_, ?_, ?_⟩ <;> (try unfold ymOf) <;> (try simp only [↓reduceIte]) <;> omega
  · refine ⟨false, v / 12, v % 12, ?_, ?_, ?_, ?_, ?_⟩ <;> (try unfold ymOf) <;> (try simp) <;> omega

theorem decomp_DT (v : Int) (hv : IntervalDT.isValidUsecs v) :
    ∃ neg d h mi s us, (0 ≤ d ∧ d ≤ 100000000) ∧ (0 ≤ h ∧ h < 24) ∧ (0 ≤ mi ∧ mi < 60) ∧ (0 ≤ s ∧ s < 60) ∧
      (0 ≤ us ∧ us < 1000000) ∧ (neg = true → dtMag d h mi s us ≠ 0) ∧ dtMag d h mi s us ≤ 8640000000000000000 ∧
      v = dtOf neg d h mi s us := by
  unfold IntervalDT.isValidUsecs INTERVAL_MAX_USECONDS at hv
  have key : ∀ a : Int, 0 ≤ a → a ≤ 8640000000000000000 →
      ∃ d h mi s us, (0 ≤ d ∧ d ≤ 100000000) ∧ (0 ≤ h ∧ h < 24) ∧ (0 ≤ mi ∧ mi < 60) ∧ (0 ≤ s ∧ s < 60) ∧
        (0 ≤ us ∧ us < 1000000) ∧ dtMag d h mi s us = a := by
    intro a h0 h1
    refine ⟨a / 86400000000, a % 86400000000 / 3600000000, a % 3600000000 / 60000000, a % 60000000 / 1000000,
      a % 1000000, ?_, ?_, ?_, ?_, ?_, ?_⟩ <;> (try unfold dtMag) <;> omega
  by_cases hn : v < 0
  · obtain ⟨d, h, mi, s, us, a1, a2, a3, a4, a5, e⟩ := key (-v) (by omega) (by omega)
    refine ⟨true, d, h, mi, s, us, a1, a2, a3, a4, a5, ?_, ?_, ?_⟩
    · intro _; omega
    · omega
    · unfold dtOf; simp only [↓reduceIte]; omega
  · obtain ⟨d, h, mi, s, us, a1, a2, a3, a4, a5, e⟩ := key v (by omega) (by omega)
    refine ⟨false, d, h, mi, s, us, a1, a2, a3, a4, a5, ?_, ?_, ?_⟩
    · intro hx; cases hx
    · omega
    · unfold dtOf; simp only [Bool.false_eq_true, ↓reduceIte]; omega


/-- Per type: the serialised text, its length bound and its round trip, in one statement. -/
theorem serde_roundtrip (ty : Ty) (v : Int) (hv : ty.Valid v) :
    ∃ text, Serde.serStr ty v = .ok text ∧ text.length ≤ 32 ∧ ∀ now, Serde.deStr ty text now = .ok v := by
  cases ty <;> simp only [Ty.Valid] at hv
  · -- D
    obtain ⟨y, m, d, hymd, rfl⟩ := decomp_D v hv
    obtain ⟨a, b⟩ := serStr_D y m d hymd
    exact ⟨_, a, b, fun now => deStr_D y m d hymd now⟩
  · -- T
    obtain ⟨h, mi, s, us, hh, hm, hs, hu, rfl, _⟩ := decomp_T v ((isValidTime_iff v).1 hv)
    obtain ⟨a, b⟩ := serStr_T h mi s us hh hm hs hu
    exact ⟨_, a, b, fun now => deStr_T h mi s us hh hm hs hu now⟩
  · -- TS
    obtain ⟨y, m, d, h, mi, s, us, hymd, hh, hm, hs, hu, rfl, _⟩ := decomp_TS v hv
    obtain ⟨a, b⟩ := serStr_TS y m d h mi s us hymd hh hm hs hu
    exact ⟨_, a, b, fun now => deStr_TS y m d h mi s us hymd hh hm hs hu now⟩
  · -- YM
    obtain ⟨neg, y, mo, hy, hm, hz, hval, rfl⟩ := decomp_YM v hv
    obtain ⟨a, b⟩ := serStr_YM neg y mo hy hm hz
    exact ⟨_, a, b, fun now => deStr_YM neg y mo hy.1 hm hval now⟩
  · -- DT
    obtain ⟨neg, d, h, mi, s, us, hd, hh, hm, hs, hu, hz, hval, rfl⟩ := decomp_DT v hv
    obtain ⟨a, b⟩ := serStr_DT neg d h mi s us hd hh hm hs hu hz
    exact ⟨_, a, b, fun now => deStr_DT neg d h mi s us hd.1 hh hm hs hu hval now⟩
  · -- OD
    obtain ⟨lo, hi, hsec⟩ := (C16.isValidDate_iff v).1 hv
    have hts : isValidTimestamp v := (isValidTimestamp_iff v).2 ⟨lo, hi⟩
    obtain ⟨y, m, d, h, mi, s, us, hymd, hh, hm, hs, hu, e, eus⟩ := decomp_TS v hts
    have hus : us = 0 := by omega
    subst hus
    subst e
    obtain ⟨a, b⟩ := serStr_OD y m d h mi s hymd hh hm hs
    exact ⟨_, a, b, fun now => deStr_OD y m d h mi s hymd hh hm hs now⟩


/-- Human-readable serialisation never fails for a valid value: the text fits the 32-byte stack buffer. -/
theorem serStr_ok (ty : Ty) (v : Int) (hv : ty.Valid v) : ∃ text, Serde.serStr ty v = .ok text ∧ text.length ≤ 32 := by
  obtain ⟨t, a, b, _⟩ := serde_roundtrip ty v hv
  exact ⟨t, a, b⟩

/-- Human-readable round trip: for EVERY valid value of EVERY type, deserialising the serialised text returns the value
    (under any clock – the fixed pictures never consult it). -/
theorem deStr_serStr (ty : Ty) (v : Int) (hv : ty.Valid v) (now : Clock) (text : Bytes)
    (h : Serde.serStr ty v = .ok text) : Serde.deStr ty text now = .ok v := by
  obtain ⟨t, a, _, c⟩ := serde_roundtrip ty v hv
  rw [a] at h
  cases h
  exact c now

/-- Whatever `parse` returns – for ANY picture, text and clock – lies inside the type's documented range. -/
theorem parse_valid (ty : Ty) (fields : List Field) (input : Bytes) (now : Clock) (v : Int) (r : Nat)
    (h : Parser.parse ty fields input now = .ok (v, r)) : ty.Valid v := by
  exact parse_valid' ty fields input now v r h

/-- Whatever human-readable text is accepted, the decoded value is inside the type's documented range
    (whole seconds for the Oracle-style date). -/
theorem deStr_valid (ty : Ty) (text : Bytes) (now : Clock) (v : Int) (h : Serde.deStr ty text now = .ok v) : ty.Valid v := by
  exact deStr_valid' ty text now v h

end SqlDt.Lemmas
