/-
  Lemmas/RoundTrip: parsing the text that `format` produced, with the same picture, returns the value.
  Part 1: the six fixed pictures of the serde human-readable form (C15).
  Part 2 (stretch): a decidable class of "lossless" pictures (C06).
-/
import SqlDt.Lemmas.RenderAll
import SqlDt.Lemmas.WellFormed
import SqlDt.Lemmas.NoPanic
import SqlDt.Lemmas.UnitsModel
import SqlDt.Props.C13
import SqlDt.Model.Serde
namespace SqlDt.Lemmas
open SqlDt Gen Spec Parser

/-! ### Part 1: serde pictures -/

/-- Human-readable serialisation never fails for a valid value: the text fits the 32-byte stack buffer. -/
theorem serStr_ok (ty : Ty) (v : Int) (hv : ty.Valid v) : ∃ text, Serde.serStr ty v = .ok text ∧ text.length ≤ 32 := by
  sorry

/-- Human-readable round trip: for EVERY valid value of EVERY type, deserialising the serialised text returns the value
    (under any clock – the fixed pictures never consult it). -/
theorem deStr_serStr (ty : Ty) (v : Int) (hv : ty.Valid v) (now : Clock) (text : Bytes)
    (h : Serde.serStr ty v = .ok text) : Serde.deStr ty text now = .ok v := by
  sorry

/-- Whatever `parse` returns – for ANY picture, text and clock – lies inside the type's documented range. -/
theorem parse_valid (ty : Ty) (fields : List Field) (input : Bytes) (now : Clock) (v : Int) (r : Nat)
    (h : Parser.parse ty fields input now = .ok (v, r)) : ty.Valid v := by
  sorry

/-- Whatever human-readable text is accepted, the decoded value is inside the type's documented range
    (whole seconds for the Oracle-style date). -/
theorem deStr_valid (ty : Ty) (text : Bytes) (now : Clock) (v : Int) (h : Serde.deStr ty text now = .ok v) : ty.Valid v := by
  sorry

end SqlDt.Lemmas
