/-
  Lemmas/AccuracyC08: `Timestamp::add_days(f64)` (property C08) and `oracle::Date::add_days(f64)` (property C16),
  end to end over ℚ: ONE rounding (the product `days · 86400e6`; the constant converts exactly), then `f64::round`
  (nearest integer, ties away from zero, exact on doubles), the saturating cast, and the range gate.
-/
import SqlDt.Lemmas.AccuracyC14
import SqlDt.Lemmas.Consts

namespace SqlDt

/-- Nearest whole second of a microsecond count, ties away from zero. -/
def roundSecQ (t : Int) : Int := 1000000 * roundHalfAwayQ ((t : ℚ) / 1000000)

namespace Lemmas
open SqlDt Gen

/-! ### `f64::round` -/

theorem floor_half_up (m d : Nat) (hd : 0 < d) :
    ⌊(m : ℚ) / d + 1 / 2⌋ = ((if 2 * (m % d) ≥ d then m / d + 1 else m / d : Nat) : Int) := by
  have h1 := Nat.div_add_mod m d
  have h2 := Nat.mod_lt m hd
  generalize m / d = a at *
  generalize m % d = r at *
  have hD : (0 : ℚ) < d := by exact_mod_cast hd
  have hm : (m : ℚ) = d * a + r := by exact_mod_cast h1.symm
  have hq : (m : ℚ) / d = a + r / d := by rw [hm]; field_simp
  have hr0 : (0 : ℚ) ≤ (r : ℚ) / d := by positivity
  have hr1 : (r : ℚ) / d < 1 := by rw [div_lt_one hD]; exact_mod_cast h2
  rw [Int.floor_eq_iff, hq]
  split
  · rename_i h
    have : (1 : ℚ) / 2 ≤ (r : ℚ) / d := by
      rw [le_div_iff₀ hD]
      have : (d : ℚ) ≤ 2 * r := by exact_mod_cast h
      linarith
    push_cast
    constructor <;> linarith
  · rename_i h
    have : (r : ℚ) / d < 1 / 2 := by
      rw [div_lt_iff₀ hD]
      have : (2 : ℚ) * r < d := by exact_mod_cast (by omega : 2 * r < d)
      linarith
    push_cast
    constructor <;> linarith

theorem rha_sgn_nat (s : Bool) (N : Nat) :
    ((roundHalfAwayQ (F64.sgn s * (N : ℚ)) : Int) : ℚ) = F64.sgn s * (N : ℚ) := by
  have h : roundHalfAwayQ (N : ℚ) = (N : Int) := by
    have := roundHalfAwayQ_intCast (N : Int)
    rwa [Int.cast_natCast] at this
  rw [roundHalfAwayQ_sgn, h]
  cases s <;> simp [F64.sgn]

theorem round_nat_exact (s : Bool) (N : Nat) (hN : N ≤ 2 ^ 53) :
    ∃ (m : Nat) (e : Int), F64.round s N 1 = .fin s m e ∧ (m : ℚ) * 2 ^ e = (N : ℚ) := by
  by_cases h0 : N = 0
  · subst h0
    exact ⟨0, F64.EMIN, by unfold F64.round; simp [F64.zero], by simp⟩
  · obtain ⟨m, e, hc, _, hr⟩ := exists_rep_nat N (by omega) hN
    refine ⟨m, e, round_exact s N 1 m e (by decide) hc hr, ?_⟩
    rw [rep_val hr (by decide)]; simp

/-- `f64::round` of a finite canonical double is finite and is the nearest integer, ties away from zero. -/
theorem roundHalfAway_val (s : Bool) (m : Nat) (e : Int) (hm : m < 2 ^ 53) :
    ∃ (m'' : Nat) (e'' : Int), F64.roundHalfAway (.fin s m e) = .fin s m'' e'' ∧
      F64.val (.fin s m'' e'') = ((roundHalfAwayQ (F64.val (.fin s m e)) : Int) : ℚ) := by
  by_cases he : e ≥ 0
  · refine ⟨m, e, by unfold F64.roundHalfAway; simp only [he, ↓reduceIte], ?_⟩
    simp only [F64.val]
    have h0 : (-e).toNat = 0 := by omega
    have : (m : ℚ) * 2 ^ e = ((m * 2 ^ e.toNat : Nat) : ℚ) := by
      rw [zpow_split, h0, pow_zero, div_one]; push_cast; ring
    rw [this, rha_sgn_nat]
  · rw [roundHalfAway_fin_neg' s m e (by omega)]
    have hfl := floor_half_up m (2 ^ (-e).toNat) (by positivity)
    have hdiv : m / 2 ^ (-e).toNat ≤ m := Nat.div_le_self _ _
    generalize hq' : (if 2 * (m % 2 ^ (-e).toNat) ≥ 2 ^ (-e).toNat then m / 2 ^ (-e).toNat + 1
      else m / 2 ^ (-e).toNat) = q' at *
    have hq53 : q' ≤ 2 ^ 53 := by rw [← hq']; split <;> omega
    obtain ⟨m'', e'', hr, hv⟩ := round_nat_exact s q' hq53
    refine ⟨m'', e'', hr, ?_⟩
    simp only [F64.val]
    rw [hv]
    have h0 : e.toNat = 0 := by omega
    have hX : (m : ℚ) * 2 ^ e = (m : ℚ) / ((2 ^ (-e).toNat : Nat) : ℚ) := by
      rw [zpow_split, h0, pow_zero]; push_cast; ring
    have hnn : (0 : ℚ) ≤ (m : ℚ) / ((2 ^ (-e).toNat : Nat) : ℚ) := by positivity
    have hr' : roundHalfAwayQ ((m : ℚ) / ((2 ^ (-e).toNat : Nat) : ℚ)) = (q' : Int) := by
      unfold roundHalfAwayQ; rw [if_pos hnn]; exact hfl
    rw [hX, roundHalfAwayQ_sgn, hr']
    cases s <;> simp [F64.sgn]

/-! ### the range gate of `Timestamp::add_days` -/

theorem ts_gate' (ts c : Int) :
    (match checkedI64 (ts + c) with
      | some r => Timestamp.tryFromUsecs r
      | none => .error .DateOutOfRange) =
    if isValidTimestamp (ts + c) then .ok (ts + c) else .error .DateOutOfRange := by
  unfold checkedI64
  by_cases hf : fitsI64 (ts + c)
  · rw [if_pos hf]; rfl
  · rw [if_neg hf]
    have : ¬ isValidTimestamp (ts + c) := by
      rw [isValidTimestamp_iff]; unfold fitsI64 I64_MIN I64_MAX at hf; omega
    rw [if_neg this]

theorem ts_gate (ts n : Int) (hts : isValidTimestamp ts) :
    (match checkedI64 (ts + clamp I64_MIN I64_MAX n) with
      | some r => Timestamp.tryFromUsecs r
      | none => .error .DateOutOfRange) =
    if isValidTimestamp (ts + n) then .ok (ts + n) else .error .DateOutOfRange := by
  rw [ts_gate']
  rw [isValidTimestamp_iff] at hts
  unfold clamp I64_MIN I64_MAX
  by_cases h1 : n < -9223372036854775808
  · rw [if_pos h1, if_neg (by rw [isValidTimestamp_iff]; omega), if_neg (by rw [isValidTimestamp_iff]; omega)]
  · rw [if_neg h1]
    by_cases h2 : n > 9223372036854775807
    · rw [if_pos h2, if_neg (by rw [isValidTimestamp_iff]; omega), if_neg (by rw [isValidTimestamp_iff]; omega)]
    · rw [if_neg h2]

/-! ### C08 -/

/-- the constant `86400e6` converts exactly -/
theorem ofInt_day : ∃ (m2 : Nat) (e2 : Int), F64.ofInt USECONDS_PER_DAY = .fin false m2 e2 ∧
    (m2 : ℚ) * 2 ^ e2 = 86400000000 := by
  obtain ⟨m, e, h1, h2⟩ := ofInt_fin_val 86400000000 (by decide) (by decide)
  exact ⟨m, e, h1, by rw [h2]; norm_num⟩

/-- **C08 core.** `Timestamp::add_days(ts, x)` for a finite `x = ±m·2^e`: with `y = fl(x · 86400e6)` the computed
    product (one rounding), the call overflows iff `y = ±∞`, and otherwise returns `ts + round(y)` through the exact
    range gate, where `round(y) = roundHalfAwayQ (val y)`. -/
theorem addDays_core (ts : Int) (hts : isValidTimestamp ts) (s : Bool) (m : Nat) (e : Int) :
    (F64.mul (.fin s m e) (F64.ofInt USECONDS_PER_DAY) = .inf s ∧
      Timestamp.addDays ts (.fin s m e) = .error .NumericOverflow ∧
      (2 : ℚ) ^ (1023 : Int) ≤ |F64.val (.fin s m e) * 86400000000|) ∨
    ∃ (m' : Nat) (e' : Int), F64.mul (.fin s m e) (F64.ofInt USECONDS_PER_DAY) = .fin s m' e' ∧
      Timestamp.addDays ts (.fin s m e) =
        (if isValidTimestamp (ts + roundHalfAwayQ (F64.val (.fin s m' e')))
          then .ok (ts + roundHalfAwayQ (F64.val (.fin s m' e'))) else .error .DateOutOfRange) ∧
      ((2 : ℚ) ^ (-1022 : Int) ≤ |F64.val (.fin s m e) * 86400000000| →
        |F64.val (.fin s m' e') - F64.val (.fin s m e) * 86400000000| ≤
          F64.u' * |F64.val (.fin s m e) * 86400000000|) ∧
      (|F64.val (.fin s m e) * 86400000000| < (2 : ℚ) ^ (-1022 : Int) →
        |F64.val (.fin s m' e')| < 2 ^ (-1021 : Int)) := by
  obtain ⟨m2, e2, hD, hDv⟩ := ofInt_day
  have R := mul_rounds s false m m2 e e2
  rw [← hD, hDv, Bool.bne_false] at R
  have hX : (0 : ℚ) ≤ (m : ℚ) * 2 ^ e := by have := two_zpow_pos e; positivity
  have hp : |F64.val (.fin s m e) * 86400000000| = (m : ℚ) * 2 ^ e * 86400000000 := by
    rw [abs_mul, val_fin_abs]; norm_num
  rw [hp]
  unfold Timestamp.addDays
  dsimp only
  generalize F64.mul (.fin s m e) (F64.ofInt USECONDS_PER_DAY) = y at *
  rcases R with ⟨hinf, hbig⟩ | ⟨m', e', hfin, hm', _, _, _, hrel, htiny⟩
  · left
    subst hinf
    exact ⟨rfl, rfl, hbig⟩
  · right
    subst hfin
    refine ⟨m', e', rfl, ?_, ?_, ?_⟩
    · obtain ⟨m'', e'', hr, hv⟩ := roundHalfAway_val s m' e' (by exact hm')
      rw [hr]
      simp only [F64.isInfinite, F64.isNan, Bool.false_eq_true, if_false]
      rw [toI64_fin, hv, truncQ_intCast]
      exact ts_gate ts _ hts
    · intro hn
      have := hrel hn
      have hd : F64.val (.fin s m' e') - F64.val (.fin s m e) * 86400000000 =
          F64.sgn s * ((m' : ℚ) * 2 ^ e' - (m : ℚ) * 2 ^ e * 86400000000) := by
        simp only [F64.val]; ring
      rw [hd, abs_sgn_mul]; exact this
    · intro ht
      rw [val_fin_abs]; exact htiny ht

/-! ### C16: rounding to the second -/

theorem roundToSecond_neg (u : Int) : OracleDate.roundToSecond (-u) = -OracleDate.roundToSecond u := by
  unfold OracleDate.roundToSecond rdiv rrem USECONDS_PER_SECOND
  dsimp only
  split_ifs <;> omega

theorem roundSecQ_neg (u : Int) : roundSecQ (-u) = -roundSecQ u := by
  unfold roundSecQ
  rw [show (((-u : Int)) : ℚ) / 1000000 = -((u : ℚ) / 1000000) by push_cast; ring, roundHalfAwayQ_neg]; ring

theorem roundToSecond_nat (n : Nat) : OracleDate.roundToSecond (n : Int) = roundSecQ (n : Int) := by
  have hfl := floor_half_up n 1000000 (by decide)
  have hnn : (0 : ℚ) ≤ ((n : Int) : ℚ) / 1000000 := by positivity
  unfold roundSecQ roundHalfAwayQ
  rw [if_pos hnn, Int.cast_natCast]
  push_cast at hfl
  rw [hfl]
  unfold OracleDate.roundToSecond rdiv rrem USECONDS_PER_SECOND
  dsimp only
  split_ifs <;> omega

/-- `round_to_second` is the nearest multiple of one second, ties away from zero. -/
theorem roundToSecond_eq (u : Int) : OracleDate.roundToSecond u = roundSecQ u := by
  rcases le_total 0 u with h | h
  · obtain ⟨n, rfl⟩ := Int.eq_ofNat_of_zero_le h
    exact roundToSecond_nat n
  · obtain ⟨n, hn⟩ := Int.eq_ofNat_of_zero_le (by omega : 0 ≤ -u)
    have : u = -(n : Int) := by omega
    rw [this, roundToSecond_neg, roundSecQ_neg, roundToSecond_nat]

/-- `oracle::Date::add_days` in terms of `Timestamp::add_days`. -/
theorem od_addDays_eq (od : Int) (x : F64) :
    OracleDate.addDays od x =
      match Timestamp.addDays od x with
      | .ok t => if isValidTimestamp (roundSecQ t) then .ok (roundSecQ t) else .error .DateOutOfRange
      | .error err => .error err := by
  unfold OracleDate.addDays
  cases Timestamp.addDays od x with
  | error err => rfl
  | ok t => simp only [← roundToSecond_eq]; rfl

end Lemmas
end SqlDt
