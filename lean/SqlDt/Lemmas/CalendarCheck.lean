/-
  Lemmas/CalendarCheck: a Bool-valued checker (kernel-evaluable, Nat arithmetic only) for one day of the
  julian2date / date2julian round trip, and a balanced range iterator.  Core Lean only.
  The defining equations use raw `Nat.add`, `Nat.div`, … so that kernel evaluation does not have to unfold
  type-class instances.
-/
namespace SqlDt.Lemmas.CalCheck

def allRange (p : Nat → Bool) (d : Nat) : Nat → Bool :=
  Nat.rec (motive := fun _ => Nat → Bool) (fun lo => p lo) (fun k ih lo => ih lo && ih (lo + 2^k)) d

theorem allRange_sound (p : Nat → Bool) (d : Nat) : ∀ lo, allRange p d lo = true →
    ∀ n, lo ≤ n → n < lo + 2^d → p n = true := by
  induction d with
  | zero => intro lo h n h1 h2; have : n = lo := by omega
            subst this; exact h
  | succ k ih =>
    intro lo h n h1 h2
    have h' : (allRange p k lo && allRange p k (lo + 2^k)) = true := h
    rw [Bool.and_eq_true] at h'
    have : 2^(k+1) = 2^k + 2^k := by rw [Nat.pow_succ]; omega
    by_cases hn : n < lo + 2^k
    · exact ih lo h'.1 n h1 hn
    · exact ih (lo + 2^k) h'.2 n (by omega) (by omega)

def leapN (Y : Nat) : Bool :=
  and (Nat.beq (Nat.mod Y 4) 0) (or (not (Nat.beq (Nat.mod Y 100) 0)) (Nat.beq (Nat.mod Y 400) 0))
def dimN (Y m : Nat) : Nat :=
  cond (m.beq 2) (cond (leapN Y) 29 28) (cond (or (or (or (m.beq 4) (m.beq 6)) (m.beq 9)) (m.beq 11)) 30 31)
def d2jN' (y m d : Nat) : Nat :=
  Nat.sub (Nat.add (Nat.add (Nat.mul y 365) (Nat.add (Nat.div y 4) (Nat.div (Nat.div y 100) 4))) (Nat.add (Nat.div (Nat.mul 7834 m) 256) d))
     (Nat.add 32167 (Nat.div y 100))
def d2jN (Y m d : Nat) : Nat :=
  cond (Nat.ble m 2) (d2jN' (Nat.sub Y 1) (Nat.add m 13) d) (d2jN' Y (Nat.add m 1) d)

def fin (J Y m d : Nat) : Bool :=
  and (Nat.ble 4801 Y) (and (Nat.ble 1 m) (and (Nat.ble m 12) (and (Nat.ble 1 d) (and (Nat.ble d (dimN Y m)) (Nat.beq (d2jN Y m d) J)))))

def s5 (J Y julian quad : Nat) : Bool :=
  fin J Y (Nat.add (Nat.mod (Nat.add quad 10) 12) 1) (Nat.sub julian (Nat.div (Nat.mul 7834 quad) 256))
def s4 (J Y julian : Nat) : Bool := s5 J Y julian (Nat.div (Nat.mul julian 2141) 65536)
def s3 (J quad julian y : Nat) : Bool :=
  s4 J (Nat.add y (Nat.mul quad 4))
    (cond (y.beq 0) (Nat.add (Nat.mod (Nat.add julian 306) 366) 123) (Nat.add (Nat.mod (Nat.add julian 305) 365) 123))
def s2 (J julian : Nat) : Bool :=
  s3 J (Nat.div julian 1461) (Nat.mod julian 1461) (Nat.div (Nat.mul (Nat.mod julian 1461) 4) 1461)
def s1 (J julian : Nat) : Bool :=
  s2 J (Nat.add julian (Nat.add (Nat.add 60 (Nat.mul (Nat.div julian 146097) 3)) (Nat.div (Nat.add (Nat.mul (Nat.mod julian 146097) 4) 3) 146097)))
def chk' (J : Nat) : Bool := s1 J (Nat.add J 32044)
def chk (n : Nat) : Bool := chk' (Nat.add 1721426 n)

end SqlDt.Lemmas.CalCheck
