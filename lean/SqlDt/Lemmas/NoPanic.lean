import SqlDt.Lemmas.WellFormed
import SqlDt.Lemmas.ClockFree
namespace SqlDt.Lemmas
open SqlDt Gen Parser

/-- "not a panic" -/
def NoPanic {α} (r : Chk α) : Prop := r ≠ .error .Panic

theorem takeWhile_length_le {α} (p : α → Bool) : ∀ (l : List α), (l.takeWhile p).length ≤ l.length
  | [] => by simp
  | a :: l => by
    simp only [List.takeWhile_cons]
    split
    · simp; exact takeWhile_length_le p l
    · simp

theorem parseNumber_np (s : Bytes) (k : Nat) : NoPanic (parseNumber s k) := by
  unfold NoPanic parseNumber perr
  split
  · simp
  · simp only []
    (repeat' split) <;> simp

theorem eatDigits_len (s : Bytes) (k : Nat) : (eatDigits s k).1.length ≤ k := by
  unfold eatDigits
  simp only [List.length_take]
  have h1 := takeWhile_length_le isDigitB (s.take k)
  have h2 : (s.take k).length ≤ k := by simp [List.length_take]; omega
  omega

theorem idx_ok_of_lt {α} (xs : List α) (i : Int) (h0 : 0 ≤ i) (h : i.toNat < xs.length) : ∃ v, idx xs i = .ok v := by
  unfold idx
  have : ¬ i < 0 := by omega
  simp only [this, ↓reduceIte]
  rw [List.getElem?_eq_getElem h]
  exact ⟨_, rfl⟩

theorem bind_np {α β} (x : Chk α) (f : α → Chk β) (hx : NoPanic x) (hf : ∀ a, NoPanic (f a)) : NoPanic (x >>= f) := by
  unfold NoPanic at *
  cases x with
  | error e => simp [bind, Except.bind]; intro h; subst h; exact hx rfl
  | ok a => simp [bind, Except.bind]; exact hf a

theorem parseYear_np (s : Bytes) (n : Nat) (c : Clock) : NoPanic (parseYear s n c) := by
  unfold parseYear
  split
  · apply bind_np _ _ (parseNumber_np s 4)
    intro a; obtain ⟨x, y, z⟩ := a
    simp only []
    unfold NoPanic; (repeat' split) <;> simp [pure, Except.pure]
  · split
    · rename_i h13
      apply bind_np _ _ (parseNumber_np s n)
      intro a; obtain ⟨x, y, z⟩ := a
      simp only []
      obtain ⟨m, hm⟩ := idx_ok_of_lt YEAR_MODIFIER (Int.ofNat n - 1) (by rcases h13 with rfl | rfl <;> decide)
        (by rcases h13 with rfl | rfl <;> decide)
      unfold NoPanic
      simp only [Int.ofNat_eq_natCast] at hm
      simp [hm, bind, Except.bind, pure, Except.pure]
    · apply bind_np _ _ (parseNumber_np s n)
      intro a; obtain ⟨x, y, z⟩ := a
      unfold NoPanic; simp [pure, Except.pure]

theorem parseFraction_np (s : Bytes) (k : Nat) (hk : k ≤ 9) : NoPanic (parseFraction s k) := by
  unfold NoPanic parseFraction perr
  have hl := eatDigits_len s k
  obtain ⟨b, hb⟩ := idx_ok_of_lt FRACTION_FACTOR_BITS (Int.ofNat (eatDigits s k).1.length) (by simp)
    (by simp [FRACTION_FACTOR_BITS]; omega)
  simp only [Int.ofNat_eq_natCast] at hb
  cases s with
  | nil => simp
  | cons ch rest =>
    simp only []
    split
    · simp
    · simp [hb, bind, Except.bind, pure, Except.pure]

theorem leaf_np (s : Bytes) :
    (∀ st, NoPanic (parseAmPm s st)) ∧ NoPanic (parseMonthName s) ∧ (∀ st, NoPanic (parseWeekDayName s st)) ∧
    NoPanic (parseWeekDayNumber s) := by
  refine ⟨?_, ?_, ?_, ?_⟩
  · intro st; unfold NoPanic parseAmPm perr; (repeat' split) <;> simp
  · unfold NoPanic parseMonthName perr; (repeat' split) <;> simp
  · intro st; unfold NoPanic parseWeekDayName perr; simp only []; (repeat' split) <;> simp
  · unfold NoPanic parseWeekDayNumber perr
    cases s with
    | nil => simp
    | cons ch rest => simp only []; split <;> simp

theorem expect_np (st : St) (k : Nat) (d : Int) (ch : Nat) (t : Bool) :
    NoPanic (expectNumber st k) ∧ NoPanic (expectNumberTol st k d) ∧ NoPanic (expectChar st ch t) := by
  have h1 : NoPanic (expectNumber st k) := by
    unfold expectNumber
    apply bind_np _ _ (parseNumber_np _ _)
    intro a; obtain ⟨x, y, z⟩ := a; unfold NoPanic; simp [pure, Except.pure]
  refine ⟨h1, ?_, ?_⟩
  · unfold expectNumberTol; split
    · unfold NoPanic; simp
    · exact h1
  · unfold NoPanic expectChar perr; (repeat' split) <;> simp

/-- No field of a compiled picture makes the parser panic, for every type, clock, state and input text. -/
theorem parseField_np (ty : Ty) (c : Clock) (st : St) (f : Field) (hf : Field.WellFormed f) :
    NoPanic (parseField ty c st f) := by
  cases f <;> simp only [parseField, perr]
  all_goals
    first
    | (simp [Field.WellFormed] at hf; done)
    | exact (expect_np _ 0 0 _ _).2.2
    | (unfold NoPanic; simp; done)
    | skip
  all_goals
    (unfold NoPanic
     intro h
     repeat' (split at h)
     all_goals
       first
       | (cases h; done)
       | (simp [bind, Except.bind, pure, Except.pure] at h; done)
       | (refine bind_np _ _ ?_ ?_ h
          · first
            | exact parseYear_np _ _ _
            | exact (leaf_np _).2.1
            | exact (leaf_np _).2.2.2
            | exact (leaf_np _).1 _
            | exact (leaf_np _).2.2.1 _
            | exact (expect_np _ _ 0 0 true).1
            | exact (expect_np _ _ _ 0 true).2.1
            | (apply parseFraction_np; cases ‹Option Nat› <;> simp_all [Field.WellFormed] <;> omega)
          · intro a; unfold NoPanic; (repeat' split) <;> simp [pure, Except.pure])
       | skip)

theorem parseFields_np (ty : Ty) (c : Clock) : ∀ (fields : List Field) (st : St),
    (∀ f ∈ fields, Field.WellFormed f) → NoPanic (parseFields ty c st fields) := by
  intro fields
  induction fields with
  | nil => intro st _; unfold NoPanic parseFields; simp
  | cons f fs ih =>
    intro st h
    unfold parseFields
    exact bind_np _ _ (parseField_np ty c st f (h f (by simp))) (fun st' => ih st' (fun g hg => h g (by simp [hg])))

theorem basic_np (a b c d e : Int) :
    NoPanic (Time.validateHms a b c) ∧ NoPanic (Date.validateYmd a b c) ∧ NoPanic (Date.tryFromYmd a b c) ∧
    NoPanic (Time.tryFromUsecs a) ∧ NoPanic (Timestamp.tryFromUsecs a) ∧ NoPanic (IntervalYM.tryFromYm a b) ∧
    NoPanic (IntervalDT.tryFromDhms a b c d e) ∧ NoPanic (IntervalDT.tryFromUsecs a) := by
  refine ⟨?_, ?_, ?_, ?_, ?_, ?_, ?_, ?_⟩ <;>
    (unfold NoPanic
     simp only [Time.validateHms, Date.validateYmd, Date.tryFromYmd, Time.tryFromUsecs, Timestamp.tryFromUsecs,
       IntervalYM.tryFromYm, IntervalDT.tryFromDhms, IntervalDT.tryFromUsecs]
     (repeat' split) <;> simp)

theorem tryFromNDT_np (ty : Ty) (dt : NDT) : NoPanic (tryFromNDT ty dt) := by
  cases ty <;> simp only [tryFromNDT]
  · exact (basic_np _ _ _ 0 0).2.2.1
  · exact bind_np _ _ (basic_np _ _ _ 0 0).1 (fun _ => (basic_np _ 0 0 0 0).2.2.2.1)
  · exact bind_np _ _ (basic_np _ _ _ 0 0).2.1 (fun _ =>
      bind_np _ _ (basic_np _ _ _ 0 0).1 (fun _ => (basic_np _ 0 0 0 0).2.2.2.2.1))
  · split
    · exact bind_np _ _ (basic_np _ _ 0 0 0).2.2.2.2.2.1 (fun _ => by unfold NoPanic; simp [pure, Except.pure])
    · exact (basic_np _ _ 0 0 0).2.2.2.2.2.1
  · exact bind_np _ _ (basic_np _ _ _ _ _).2.2.2.2.2.2.1 (fun _ =>
      bind_np _ _ (basic_np _ 0 0 0 0).2.2.2.2.2.2.2 (fun _ => by unfold NoPanic; simp [pure, Except.pure]))
  · exact bind_np _ _ (basic_np _ _ _ 0 0).2.1 (fun _ =>
      bind_np _ _ (basic_np _ _ _ 0 0).1 (fun _ =>
        bind_np _ _ (basic_np _ 0 0 0 0).2.2.2.2.1 (fun _ => by unfold NoPanic; simp [pure, Except.pure])))

/-- Decoding a day of year in range never indexes outside the cumulative table. -/
theorem theMonthDayOfDays_np : ∀ leap : Bool, ∀ n < 367, 1 ≤ n → NoPanic (theMonthDayOfDays (Int.ofNat n) leap) := by
  unfold NoPanic; decide +kernel

theorem theMonthDayOfDays_np' (d : Int) (leap : Bool) (h1 : 1 ≤ d) (h2 : d ≤ 366) : NoPanic (theMonthDayOfDays d leap) := by
  have := theMonthDayOfDays_np leap d.toNat (by omega) (by omega)
  have e : Int.ofNat d.toNat = d := by simp; omega
  rwa [e] at this

theorem foldl_digits_nonneg : ∀ (ds : Bytes) (acc : Int), 0 ≤ acc → (∀ d ∈ ds, isDigitB d = true) →
    0 ≤ ds.foldl (fun acc d => acc * 10 + (Int.ofNat d - 48)) acc := by
  intro ds
  induction ds with
  | nil => intro acc h _; simpa using h
  | cons d ds ih =>
    intro acc h hd
    simp only [List.foldl_cons]
    apply ih
    · have := hd d (by simp)
      simp [isDigitB] at this
      have : (0:Int) ≤ Int.ofNat d - 48 := by simp; omega
      have h10 : 0 ≤ acc * 10 := by omega
      omega
    · intro x hx; exact hd x (by simp [hx])

theorem eatDigits_all (s : Bytes) (k : Nat) : ∀ d ∈ (eatDigits s k).1, isDigitB d = true := by
  unfold eatDigits
  simp only []
  intro d hd
  have h1 : d ∈ (s.take k).takeWhile isDigitB := by
    have : s.take ((List.takeWhile isDigitB (List.take k s)).length) = (s.take k).takeWhile isDigitB := by
      have hp := List.takeWhile_prefix (p := isDigitB) (l := s.take k)
      have hp2 : (s.take k).takeWhile isDigitB <+: s := List.IsPrefix.trans hp (List.take_prefix k s)
      exact (List.prefix_iff_eq_take.1 hp2).symm
    rw [this] at hd; exact hd
  have hall := List.all_takeWhile (p := isDigitB) (l := s.take k)
  exact List.all_eq_true.1 hall d h1

theorem parseNumber_nonneg (s : Bytes) (k : Nat) (n : Int) (rest : Bytes)
    (h : parseNumber s k = .ok (false, n, rest)) : 0 ≤ n := by
  unfold parseNumber perr at h
  cases s with
  | nil => cases h
  | cons ch rest0 =>
    simp only [] at h
    have key : ∀ (sgn : Bool) (t : Bytes),
        (if (eatDigits t k).1.isEmpty = true then (Except.error Err.ParseError : Chk (Bool × Int × Bytes))
         else Except.ok (sgn, (if sgn = true then -foldDigits (eatDigits t k).1 else foldDigits (eatDigits t k).1),
           (eatDigits t k).2)) = Except.ok (false, n, rest) → 0 ≤ n := by
      intro sgn t ht
      split at ht
      · cases ht
      · simp only [Except.ok.injEq, Prod.mk.injEq] at ht
        obtain ⟨hneg, hn, _⟩ := ht
        subst hneg
        simp only [Bool.false_eq_true, ↓reduceIte] at hn
        rw [← hn]
        unfold foldDigits
        exact foldl_digits_nonneg _ 0 (by omega) (eatDigits_all _ _)
    by_cases h1 : ch = B '+'
    · simp only [h1, ↓reduceIte] at h; exact key _ _ h
    · by_cases h2 : ch = B '-'
      · simp only [h1, h2, ↓reduceIte] at h; exact key _ _ h
      · simp only [h1, h2, ↓reduceIte] at h; exact key _ _ h

def DoyOK (st : St) : Prop := ∀ d, st.doy = some d → 0 ≤ d

theorem expectNumber_doy (st : St) (k : Nat) (v : Int × Bool × St) (h : expectNumber st k = .ok v) :
    v.2.2.doy = st.doy ∧ (v.2.1 = false → 0 ≤ v.1) := by
  unfold expectNumber at h
  cases hp : parseNumber st.s k with
  | error e => simp [hp, bind, Except.bind] at h
  | ok w =>
    obtain ⟨a, b, c⟩ := w
    simp [hp, bind, Except.bind, pure, Except.pure] at h
    subst h
    refine ⟨rfl, ?_⟩
    intro ha; simp only at ha; subst ha
    exact parseNumber_nonneg _ _ _ _ hp

theorem expectNumberTol_doy (st : St) (k : Nat) (d : Int) (v : Int × Bool × St) (h : expectNumberTol st k d = .ok v) :
    v.2.2.doy = st.doy := by
  unfold expectNumberTol at h
  split at h
  · cases h; rfl
  · exact (expectNumber_doy st k v h).1

theorem expectChar_doy (st st' : St) (ch : Nat) (t : Bool) (h : expectChar st ch t = .ok st') : st'.doy = st.doy := by
  unfold expectChar at h
  split at h
  · split at h
    · cases h; rfl
    · cases h
  · split at h
    · cases h; rfl
    · cases h

theorem parseField_doyOK (ty : Ty) (c : Clock) (st st' : St) (f : Field) (h : parseField ty c st f = .ok st')
    (hd : DoyOK st) : DoyOK st' := by
  unfold DoyOK at *
  cases f <;> simp only [parseField, perr, bind, Except.bind, pure, Except.pure] at h
  all_goals
    first
    | (have := expectChar_doy _ _ _ _ h; simp_all; done)
    | (cases h; simpa using hd)
    | (repeat' (split at h)
       all_goals
         first
         | (cases h; done)
         | (have := expectNumber_doy _ _ _ (by assumption); cases h; simp_all; done)
         | (have := expectNumberTol_doy _ _ _ _ (by assumption); cases h; simp_all; done)
         | (cases h; simp_all; done))

theorem parseFields_doyOK (ty : Ty) (c : Clock) : ∀ (fields : List Field) (st st' : St),
    parseFields ty c st fields = .ok st' → DoyOK st → DoyOK st' := by
  intro fields
  induction fields with
  | nil => intro st st' h hd; simp only [parseFields] at h; cases h; exact hd
  | cons f fs ih =>
    intro st st' h hd
    unfold parseFields at h
    cases hf : parseField ty c st f with
    | error e => simp [hf, bind, Except.bind] at h
    | ok st1 =>
      simp only [hf, bind, Except.bind] at h
      exact ih st1 st' h (parseField_doyOK ty c st st1 f hf hd)


theorem resolveDoy_np (st : St) (dt : NDT) (hdoy : DoyOK st) : NoPanic (resolveDoy st dt) := by
  unfold resolveDoy
  split
  · unfold NoPanic; simp [pure, Except.pure]
  · rename_i d hsome
    have hd0 : 0 ≤ d := hdoy d hsome
    simp only []
    split
    · unfold NoPanic perr; simp
    · rename_i hr
      have hd : 1 ≤ d ∧ d ≤ 366 := by
        by_cases hl : isLeapYear dt.year = true <;> simp [hl] at hr <;> omega
      refine bind_np _ _ (theMonthDayOfDays_np' d _ hd.1 hd.2) ?_
      intro a; obtain ⟨mm, dd⟩ := a
      unfold NoPanic perr
      (repeat' split) <;> simp [pure, Except.pure]

theorem finish_np (ty : Ty) (st : St) (dt : NDT) (reads : Nat) : NoPanic (finish ty st dt reads) := by
  unfold finish
  split
  · refine bind_np _ _ (basic_np _ _ _ 0 0).2.2.1 ?_
    intro date
    split
    · unfold NoPanic perr; simp
    · refine bind_np _ _ (tryFromNDT_np ty dt) ?_
      intro v; unfold NoPanic; simp [pure, Except.pure]
  · refine bind_np _ _ (tryFromNDT_np ty dt) ?_
    intro v; unfold NoPanic; simp [pure, Except.pure]

/-- `Formatter::parse` never panics: every type, every compiled picture, every input text, every clock. -/
theorem parse_np (ty : Ty) (fields : List Field) (input : Bytes) (now : Clock)
    (hwf : ∀ f ∈ fields, Field.WellFormed f) : NoPanic (parse ty fields input now) := by
  unfold parse
  unfold NoPanic
  cases hp : parseFields ty now (initSt ty input) fields with
  | error e =>
    simp only [bind, Except.bind]
    intro h; cases h
    exact parseFields_np ty now fields _ hwf hp
  | ok st =>
    simp only [bind, Except.bind]
    have hdoy : DoyOK st := parseFields_doyOK ty now fields _ st hp (by intro d hd; cases hd)
    split
    · unfold perr; simp
    · exact bind_np _ _ (resolveDoy_np st _ hdoy) (fun dt => finish_np ty st dt _)

theorem tryNewAux_np : ∀ (fuel : Nat) (input : Bytes) (acc : List Field), NoPanic (Lexer.tryNewAux fuel input acc) := by
  intro fuel
  induction fuel with
  | zero => intro input acc h; simp [Lexer.tryNewAux] at h
  | succ n ih =>
    intro input acc
    unfold NoPanic Lexer.tryNewAux
    cases hn : Lexer.next input with
    | none => simp
    | some p =>
      obtain ⟨field, rest⟩ := p
      simp only
      split
      · simp
      · split
        · simp
        · exact ih rest _

/-- `T::parse(text, picture)` never panics, for every type, every picture and text (any byte strings), every clock. -/
theorem parseValue_np (ty : Ty) (text pic : Bytes) (now : Clock) : NoPanic (parseValue ty text pic now) := by
  unfold parseValue
  cases ht : Lexer.tryNew pic with
  | error e =>
    unfold NoPanic; simp only [bind, Except.bind]
    intro h; cases h
    exact tryNewAux_np _ _ _ ht
  | ok fields =>
    simp only [bind, Except.bind]
    exact parse_np ty fields text now (tryNew_wf pic fields ht)

end SqlDt.Lemmas
