/-
  Lemmas/RoundTripFields: one iteration of the parser's field loop on a text that starts with the rendering of that
  field (a run of digits, optionally signed; a literal separator; the six-digit fraction).
-/
import SqlDt.Lemmas.RoundTripLeaf
import SqlDt.Lemmas.Float
namespace SqlDt.Lemmas
open SqlDt Gen Spec Parser

/-- `ds` is a non-empty run of at most `k` ASCII digits with value `n`. -/
structure Run (ds : Bytes) (k : Nat) (n : Int) : Prop where
  ne : ds ≠ []
  digs : Digs ds
  len : ds.length ≤ k
  val : foldDigits ds = n
  nonneg : 0 ≤ n

theorem run_pad (w k : Nat) (x : Int) (h0 : 0 ≤ x) (hwk : w ≤ k) (hk : 1 ≤ k) (hk11 : k ≤ 11) (hx : x < (10 ^ k : Nat)) :
    Run (pad w x.toNat) k x := by
  have hxn : x.toNat < 10 ^ k := by omega
  have h11 : (10:Nat) ^ k ≤ 10 ^ 11 := Nat.pow_le_pow_right (by decide) hk11
  have h20 : x.toNat < 10 ^ 20 := by
    have : (10:Nat) ^ 11 ≤ 10 ^ 20 := by decide
    omega
  refine ⟨pad_ne_nil _ _ h20, pad_digs _ _ h20, pad_length_le w k _ hwk hk hxn h20, ?_, h0⟩
  rw [foldDigits_pad _ _ (by have : (10:Nat)^11 = 100000000000 := by decide
                             omega)]
  omega

theorem parseNumber_run {ds : Bytes} {k : Nat} {n : Int} (h : Run ds k n) (rest : Bytes) (hr : NoDigitHead rest) :
    parseNumber (ds ++ rest) k = .ok (false, n, rest) := by
  rw [parseNumber_digs ds rest k h.ne h.digs h.len hr, h.val]

theorem parseNumber_signed {ds : Bytes} {k : Nat} {n : Int} (h : Run ds k n) (neg : Bool) (rest : Bytes) (hr : NoDigitHead rest) :
    parseNumber ((if neg then 45 else 43) :: (ds ++ rest)) k = .ok (neg, (if neg then -n else n), rest) := by
  cases neg with
  | false => simp only [Bool.false_eq_true, ↓reduceIte]; rw [parseNumber_plus ds rest k h.ne h.digs h.len hr, h.val]
  | true => simp only [↓reduceIte]; rw [parseNumber_minus ds rest k h.ne h.digs h.len hr, h.val]

theorem eatWs_run {ds : Bytes} {k : Nat} {n : Int} (h : Run ds k n) (rest : Bytes) :
    eatWhitespaces (ds ++ rest) = ds ++ rest := eatWs_digs ds rest h.ne h.digs

theorem eatWs_sign (neg : Bool) (s : Bytes) : eatWhitespaces ((if neg then 45 else 43) :: s) = (if neg then 45 else 43) :: s := by
  cases neg <;> exact eatWs_nonws _ _ (by decide)

theorem run_nonempty {ds : Bytes} {k : Nat} {n : Int} (h : Run ds k n) (rest : Bytes) : (ds ++ rest).isEmpty = false := by
  have := h.ne
  cases ds with
  | nil => exact absurd rfl this
  | cons c r => rfl

theorem parseFraction_pad6 (us : Nat) (rest : Bytes) (hus : us < 10 ^ 6) (hr : NoDigitHead rest) :
    parseFraction (pad 6 us ++ rest) 6 = .ok ((us : Int), rest) := by
  have h20 : us < 10 ^ 20 := by omega
  have hd := pad_digs 6 us h20
  have hlen := pad_length 6 us (by decide) hus h20
  have he := eatDigits_digs (pad 6 us) rest 6 hd (by omega) hr
  have hf := foldDigits_pad 6 us (by omega)
  have hv := parseFraction_value us 6 (by decide) hus
  have hne := pad_ne_nil 6 us h20
  cases hp : pad 6 us with
  | nil => exact absurd hp hne
  | cons c r =>
    rw [hp] at hd he hf hlen
    obtain ⟨_, h2, _⟩ := digs_head_ne (c :: r) c r hd
    simp only [List.cons_append] at he
    simp only [parseFraction, List.cons_append, h2, ↓reduceIte, he, hf, hlen, bind, Except.bind, pure, Except.pure]
    have hi : idx FRACTION_FACTOR_BITS ((6 : Nat) : Int) = .ok 4607182418800017408 := by decide
    rw [hi]
    simp only []
    have h6 : FRACTION_FACTOR_BITS[6]? = some 4607182418800017408 := by decide
    rw [h6] at hv
    simp at hv
    rw [hv]

/-! ### single fields -/

theorem pf_hyphen (ty : Ty) (now : Clock) (st0 : St) (rest : Bytes) (hs : st0.s = 45 :: rest) :
    parseField ty now st0 .Hyphen = .ok { st0 with s := rest } := by
  simp only [parseField, hs, eatWs_nonws 45 rest (by decide), expectChar]
  have : (45 : Nat) = B '-' := rfl
  simp [this]

theorem pf_colon (ty : Ty) (now : Clock) (st0 : St) (rest : Bytes) (hs : st0.s = 58 :: rest) :
    parseField ty now st0 .Colon = .ok { st0 with s := rest } := by
  simp only [parseField, hs, eatWs_nonws 58 rest (by decide), expectChar]
  have : (58 : Nat) = B ':' := rfl
  simp [this]

theorem pf_dot (ty : Ty) (now : Clock) (st0 : St) (rest : Bytes) (hs : st0.s = 46 :: rest) :
    parseField ty now st0 .Dot = .ok { st0 with s := rest } := by
  simp only [parseField, hs, eatWs_nonws 46 rest (by decide), expectChar]
  have : (46 : Nat) = B '.' := rfl
  simp [this]

/-- the rendered blank is skipped -/
theorem pf_blank (ty : Ty) (now : Clock) (st0 : St) (n : Nat) (ds rest : Bytes) {k : Nat} {v : Int} (hrun : Run ds k v)
    (hs : st0.s = 32 :: (ds ++ rest)) :
    parseField ty now st0 (.Blank n) = .ok { st0 with s := ds ++ rest } := by
  simp only [parseField, hs, eatWs_blank, eatWs_run hrun]

theorem pf_year_date (ty : Ty) (now : Clock) (st0 : St) (ds rest : Bytes) (y : Int)
    (hty : ty.info.HAS_DATE = true) (hym : ty.info.IS_INTERVAL_YM = false) (hset : st0.isYearSet = false)
    (hrun : Run ds 4 y) (hr : NoDigitHead rest) (hs : st0.s = ds ++ rest) :
    parseField ty now st0 (.Year 4) =
      .ok { st0 with dt := { st0.dt with negative := false, year := y }, s := rest, isYearSet := true } := by
  simp only [parseField, hs, eatWs_run hrun, hty, hym, hset, parseYear, parseNumber_run hrun rest hr, bind, Except.bind,
    pure, Except.pure]
  simp [parseNumber_run hrun rest hr]


theorem pf_year_ym (now : Clock) (st0 : St) (neg : Bool) (ds rest : Bytes) (y : Int)
    (hset : st0.isYearSet = false) (hrun : Run ds 9 y) (hr : NoDigitHead rest)
    (hs : st0.s = (if neg then 45 else 43) :: (ds ++ rest)) :
    parseField .YM now st0 (.Year 4) =
      .ok { st0 with dt := { st0.dt with negative := neg, year := (if neg then -y else y) }, s := rest, isYearSet := true } := by
  have h1 : (Ty.YM).info.HAS_DATE = false := rfl
  have h2 : (Ty.YM).info.IS_INTERVAL_YM = true := rfl
  have h3 : (Ty.YM).info.YEAR_MAX_LENGTH = 9 := rfl
  simp only [parseField, hs, eatWs_sign, h1, h2, h3, hset, parseYear, bind, Except.bind, pure, Except.pure]
  simp [parseNumber_signed hrun neg rest hr]

theorem pf_month (ty : Ty) (now : Clock) (st0 : St) (ds rest : Bytes) (m : Int)
    (hty : (ty.info.HAS_DATE || ty.info.IS_INTERVAL_YM) = true) (hlen : ty.info.MONTH_MAX_LENGTH = 2)
    (hset : st0.isMonthSet = false) (hrun : Run ds 2 m) (hr : NoDigitHead rest) (hs : st0.s = ds ++ rest) :
    parseField ty now st0 .Month =
      .ok { st0 with s := rest, dt := { st0.dt with month := m }, isMonthSet := true } := by
  simp only [parseField, hs, eatWs_run hrun, hty, hlen, hset, bind, Except.bind, pure, Except.pure]
  simp [parseNumber_run hrun rest hr]

theorem pf_day_date (ty : Ty) (now : Clock) (st0 : St) (ds rest : Bytes) (d : Int)
    (hty : ty.info.HAS_DATE = true) (hlen : ty.info.DAY_MAX_LENGTH = 2)
    (hset : st0.isDaySet = false) (hrun : Run ds 2 d) (hr : NoDigitHead rest) (hs : st0.s = ds ++ rest) :
    parseField ty now st0 .Day =
      .ok { st0 with s := rest, dt := { st0.dt with day := d, negative := false }, isDaySet := true } := by
  have := hrun.nonneg
  have hd : ¬ d < 0 := by omega
  simp only [parseField, hs, eatWs_run hrun, hty, hlen, hset, expectNumber, bind, Except.bind, pure, Except.pure]
  simp [parseNumber_run hrun rest hr, hd]

theorem pf_day_dt (now : Clock) (st0 : St) (neg : Bool) (ds rest : Bytes) (d : Int)
    (hset : st0.isDaySet = false) (hrun : Run ds 9 d) (hr : NoDigitHead rest)
    (hs : st0.s = (if neg then 45 else 43) :: (ds ++ rest)) :
    parseField .DT now st0 .Day =
      .ok { st0 with s := rest, dt := { st0.dt with day := d, negative := neg }, isDaySet := true } := by
  have h1 : (Ty.DT).info.HAS_DATE = false := rfl
  have h2 : (Ty.DT).info.IS_INTERVAL_DT = true := rfl
  have h3 : (Ty.DT).info.DAY_MAX_LENGTH = 9 := rfl
  have := hrun.nonneg
  simp only [parseField, hs, eatWs_sign, h1, h2, h3, hset, expectNumber, bind, Except.bind, pure, Except.pure]
  rw [parseNumber_signed hrun neg rest hr]
  cases neg with
  | false =>
    have hd : ¬ d < 0 := by omega
    simp [hd]
  | true =>
    by_cases hz : d = 0
    · subst hz; simp
    · simp
      intro h; omega

theorem expectNumberTol_run (st : St) (dflt : Int) {ds : Bytes} {k : Nat} {n : Int} (hrun : Run ds k n) (rest : Bytes)
    (hr : NoDigitHead rest) (hs : st.s = ds ++ rest) :
    expectNumberTol st k dflt = .ok (n, false, { st with s := rest }) ∧
    expectNumber st k = .ok (n, false, { st with s := rest }) := by
  have he : expectNumber st k = .ok (n, false, { st with s := rest }) := by
    simp [expectNumber, hs, parseNumber_run hrun rest hr, bind, Except.bind, pure, Except.pure]
  refine ⟨?_, he⟩
  simp only [expectNumberTol, hs, run_nonempty hrun rest]
  simpa [hs] using he

theorem pf_hour (ty : Ty) (now : Clock) (st0 : St) (ds rest : Bytes) (h : Int)
    (hty : ty.info.HAS_TIME = true) (hlen : ty.info.HOUR_MAX_LENGTH = 2)
    (hset : st0.isHour24Set = none) (hampm : st0.isAmPmSet = false) (hrun : Run ds 2 h) (hr : NoDigitHead rest)
    (hs : st0.s = ds ++ rest) :
    parseField ty now st0 .Hour24 =
      .ok { st0 with s := rest, dt := { st0.dt with hour := h }, isHour24Set := some true } := by
  obtain ⟨e1, e2⟩ := expectNumberTol_run { st0 with s := ds ++ rest } 0 hrun rest hr rfl
  simp only [hset, hampm] at e1 e2
  simp only [parseField, hs, eatWs_run hrun, hty, hlen, hset, hampm, bind, Except.bind, pure, Except.pure]
  cases ty.info.IS_INTERVAL_DT <;> simp [e1, e2, hampm]

theorem pf_minute (ty : Ty) (now : Clock) (st0 : St) (ds rest : Bytes) (mi : Int)
    (hty : ty.info.HAS_TIME = true) (hlen : ty.info.MINUTE_MAX_LENGTH = 2)
    (hset : st0.isMinSet = false) (hrun : Run ds 2 mi) (hr : NoDigitHead rest)
    (hs : st0.s = ds ++ rest) :
    parseField ty now st0 .Minute =
      .ok { st0 with s := rest, dt := { st0.dt with minute := mi }, isMinSet := true } := by
  obtain ⟨e1, e2⟩ := expectNumberTol_run { st0 with s := ds ++ rest } 0 hrun rest hr rfl
  simp only [hset] at e1 e2
  simp only [parseField, hs, eatWs_run hrun, hty, hlen, hset, bind, Except.bind, pure, Except.pure]
  cases ty.info.IS_INTERVAL_DT <;> simp [e1, e2]

theorem pf_second (ty : Ty) (now : Clock) (st0 : St) (ds rest : Bytes) (sec : Int)
    (hty : ty.info.HAS_TIME = true) (hlen : ty.info.SECOND_MAX_LENGTH = 2)
    (hset : st0.isSecSet = false) (hrun : Run ds 2 sec) (hr : NoDigitHead rest)
    (hs : st0.s = ds ++ rest) :
    parseField ty now st0 .Second =
      .ok { st0 with s := rest, dt := { st0.dt with sec := sec }, isSecSet := true } := by
  obtain ⟨e1, e2⟩ := expectNumberTol_run { st0 with s := ds ++ rest } 0 hrun rest hr rfl
  simp only [hset] at e1 e2
  simp only [parseField, hs, eatWs_run hrun, hty, hlen, hset, bind, Except.bind, pure, Except.pure]
  cases ty.info.IS_INTERVAL_DT <;> simp [e1, e2]

theorem pf_fraction (ty : Ty) (now : Clock) (st0 : St) (us : Int) (rest : Bytes)
    (hty : ty.info.HAS_FRACTION = true) (hset : st0.isFractionSet = false) (h0 : 0 ≤ us) (h1 : us < 1000000)
    (hr : NoDigitHead rest) (hs : st0.s = pad 6 us.toNat ++ rest) :
    parseField ty now st0 (.Fraction (some 6)) =
      .ok { st0 with s := rest, dt := { st0.dt with usec := us }, isFractionSet := true } := by
  have hrun : Run (pad 6 us.toNat) 6 us := run_pad 6 6 us h0 (by decide) (by decide) (by decide) (by simp; omega)
  have hp := parseFraction_pad6 us.toNat rest (by omega) hr
  have e : ((us.toNat : Nat) : Int) = us := by omega
  rw [e] at hp
  simp only [parseField, hs, eatWs_run hrun, hty, hset, bind, Except.bind, pure, Except.pure]
  simp [hp]

end SqlDt.Lemmas
