/-
  Lemmas/Float: facts about the soft-float (Model/F64) that the property theorems need: sign symmetry,
  the half-ulp property of round-to-nearest-even, exactness on small integers, and the two places where the
  crate converts microseconds through `f64` (`NaiveDateTime::fraction` when formatting, `parse_fraction`).
-/
import SqlDt.Model.Parse
import SqlDt.Spec.Render
namespace SqlDt.Lemmas
open SqlDt Gen

/-! ### 1. sign symmetry (structural) -/

theorem F64.round_neg (s : Bool) (num den : Nat) : F64.round (!s) num den = F64.neg (F64.round s num den) := by
  sorry

theorem F64.mul_neg_left (a b : F64) : F64.mul (F64.neg a) b = F64.neg (F64.mul a b) := by
  sorry

theorem F64.mul_neg_right (a b : F64) : F64.mul a (F64.neg b) = F64.neg (F64.mul a b) := by
  sorry

theorem F64.div_neg_left (a b : F64) : F64.div (F64.neg a) b = F64.neg (F64.div a b) := by
  sorry

theorem F64.div_neg_right (a b : F64) : F64.div a (F64.neg b) = F64.neg (F64.div a b) := by
  sorry

/-- `(-n) as f64 = -(n as f64)` for `n ≠ 0` (for 0 the left side is +0, the right side −0). -/
theorem F64.ofInt_neg (n : Int) (h : n ≠ 0) : F64.ofInt (-n) = F64.neg (F64.ofInt n) := by
  sorry

/-- Truncating casts are odd functions up to the asymmetry of the integer range. -/
theorem F64.toIntSat_neg (lo hi : Int) (x : F64) :
    F64.toIntSat lo hi (F64.neg x) = -(F64.toIntSat (-hi) (-lo) x) := by
  sorry

/-! ### 2. round-to-nearest-even: result is canonical and within half a unit in the last place -/

/-- For a positive rational `num/den`, the rounded `(m, e)` is canonical and
    `|m·2^e − num/den| ≤ 2^e / 2`, stated without division:
    with `P := 2^(max e 0)`, `Q := 2^(max (−e) 0)`: `2 · |m·P·den − num·Q| ≤ P·den`. -/
theorem F64.roundPos_spec (num den m : Nat) (e : Int) (hn : 0 < num) (hd : 0 < den)
    (h : F64.roundPos num den = some (m, e)) :
    m < F64.P53 ∧ F64.EMIN ≤ e ∧ e ≤ F64.EMAX ∧ (F64.P52 ≤ m ∨ e = F64.EMIN) ∧
    2 * ((m * F64.pow2 e.toNat * den : Nat) - (num * F64.pow2 (-e).toNat : Nat) : Int).natAbs
      ≤ F64.pow2 e.toNat * den := by
  sorry

/-! ### 3. exactness on small integers -/

/-- Every integer of magnitude ≤ 2^53 converts exactly: casting back gives the same integer. -/
theorem F64.toI64_ofInt (n : Int) (h : n.natAbs ≤ 9007199254740992) : F64.toI64 (F64.ofInt n) = n := by
  sorry

/-- Products of integers that stay within 2^53 are exact. -/
theorem F64.mul_ofInt_exact (a b : Int) (ha : a.natAbs ≤ 9007199254740992) (hb : b.natAbs ≤ 9007199254740992)
    (hab : (a * b).natAbs ≤ 9007199254740992) (hne : a * b ≠ 0) :
    F64.mul (F64.ofInt a) (F64.ofInt b) = F64.ofInt (a * b) := by
  sorry

/-! ### 4. the fraction of a second when formatting: truncation, never rounding -/

/-- `NaiveDateTime::fraction(p)` for every microsecond value and every precision 0..9:
    `⌊usec / 10^(6−p)⌋` for p ≤ 6 and `usec · 10^(p−6)` for p > 6 (the constants 0.1, 0.01, 0.001 are not exact
    doubles, yet the quotient rounds to the exact integer). -/
theorem fraction_eq (dt : NDT) (p : Nat) (hu : 0 ≤ dt.usec ∧ dt.usec ≤ 999999) (hp : p ≤ 9) :
    dt.fraction p = .ok (Spec.fractionOf dt.usec p) := by
  sorry

/-! ### 5. the fraction of a second when parsing: half-up rounding to microseconds -/

/-- `parse_fraction` on `len` digits with value `int` (`int < 10^len`, `len ≤ 9`):
    `int · 10^(6−len)` for len ≤ 6, and `⌊(int · 10^6 + 10^len / 2) / 10^len⌋` (half-up) for len > 6. -/
theorem parseFraction_value (int : Nat) (len : Nat) (hl : len ≤ 9) (hi : int < 10 ^ len) :
    (FRACTION_FACTOR_BITS[len]?).map (fun bits =>
      F64.toU32 (F64.roundHalfAway (F64.mul (F64.ofInt int) (F64.ofBits bits)))) =
    some (if len ≤ 6 then (int * 10 ^ (6 - len) : Nat) else ((int * 1000000 + 10 ^ len / 2) / 10 ^ len : Nat)) := by
  sorry

end SqlDt.Lemmas
