/-
  Lemmas/Float: facts about the soft-float (Model/F64) that the property theorems need: sign symmetry,
  the half-ulp property of round-to-nearest-even, exactness on small integers, and the two places where the
  crate converts microseconds through `f64` (`NaiveDateTime::fraction` when formatting, `parse_fraction`).
-/
import SqlDt.Model.Parse
import SqlDt.Spec.Render
import SqlDt.Lemmas.FloatFrac
namespace SqlDt.Lemmas
open SqlDt Gen

/-! ### 1. sign symmetry (structural) -/

theorem F64.round_neg (s : Bool) (num den : Nat) : F64.round (!s) num den = F64.neg (F64.round s num den) := by
  unfold F64.round
  split
  · rfl
  · split <;> rfl

theorem bne_not_left (s t : Bool) : ((!s) != t) = !(s != t) := by cases s <;> cases t <;> rfl
theorem bne_not_right (s t : Bool) : (s != (!t)) = !(s != t) := by cases s <;> cases t <;> rfl

theorem F64.mul_neg_left (a b : F64) : F64.mul (F64.neg a) b = F64.neg (F64.mul a b) := by
  cases a <;> cases b <;> simp only [F64.mul, F64.neg, bne_not_left, F64.round_neg] <;> split <;> rfl

theorem F64.mul_neg_right (a b : F64) : F64.mul a (F64.neg b) = F64.neg (F64.mul a b) := by
  cases a <;> cases b <;> simp only [F64.mul, F64.neg, bne_not_right, F64.round_neg] <;> split <;> rfl

theorem F64.div_neg_left (a b : F64) : F64.div (F64.neg a) b = F64.neg (F64.div a b) := by
  cases a <;> cases b <;>
    (simp only [F64.div, F64.neg, bne_not_left, F64.round_neg, F64.zero]
     try first | rfl | (split <;> first | rfl | (split <;> rfl)))

theorem F64.div_neg_right (a b : F64) : F64.div a (F64.neg b) = F64.neg (F64.div a b) := by
  cases a <;> cases b <;>
    (simp only [F64.div, F64.neg, bne_not_right, F64.round_neg, F64.zero]
     try first | rfl | (split <;> first | rfl | (split <;> rfl)))

/-- `(-n) as f64 = -(n as f64)` for `n ≠ 0` (for 0 the left side is +0, the right side −0). -/
theorem F64.ofInt_neg (n : Int) (h : n ≠ 0) : F64.ofInt (-n) = F64.neg (F64.ofInt n) := by
  unfold F64.ofInt
  rw [← F64.round_neg, Int.natAbs_neg]
  congr 1
  by_cases h1 : n < 0
  · have : ¬ (-n < 0) := by omega
    simp only [h1, this, decide_true, decide_false, Bool.not_true]
  · have : (-n < 0) := by omega
    simp only [h1, this, decide_true, decide_false, Bool.not_false]

theorem F64.truncInt_not (s : Bool) (m : Nat) (e : Int) : F64.truncInt (!s) m e = -F64.truncInt s m e := by
  unfold F64.truncInt
  cases s <;> simp

/-- Truncating casts are odd functions up to the asymmetry of the integer range
    (needs `lo ≤ hi`: for `hi + 1 < lo` the two sides test the bounds in opposite order). -/
theorem F64.toIntSat_neg (lo hi : Int) (x : F64) (h : lo ≤ hi) :
    F64.toIntSat lo hi (F64.neg x) = -(F64.toIntSat (-hi) (-lo) x) := by
  cases x with
  | nan => simp [F64.toIntSat, F64.neg]
  | inf s => cases s <;> simp [F64.toIntSat, F64.neg]
  | fin s m e =>
    simp only [F64.toIntSat, F64.neg, F64.truncInt_not]
    generalize F64.truncInt s m e = t
    repeat' split
    all_goals omega

/-! ### 2. round-to-nearest-even: result is canonical and within half a unit in the last place -/

/-- For a positive rational `num/den`, the rounded `(m, e)` is canonical and
    `|m·2^e − num/den| ≤ 2^e / 2`, stated without division:
    with `P := 2^(max e 0)`, `Q := 2^(max (−e) 0)`: `2 · |m·P·den − num·Q| ≤ P·den`. -/
theorem F64.roundPos_spec (num den m : Nat) (e : Int) (hn : 0 < num) (hd : 0 < den)
    (h : F64.roundPos num den = some (m, e)) :
    m < F64.P53 ∧ F64.EMIN ≤ e ∧ e ≤ F64.EMAX ∧ (F64.P52 ≤ m ∨ e = F64.EMIN) ∧
    2 * ((m * F64.pow2 e.toNat * den : Nat) - (num * F64.pow2 (-e).toNat : Nat) : Int).natAbs
      ≤ F64.pow2 e.toNat * den := by
  have := roundPos_spec' num den m e hn hd h
  simp only [pow2_eq, P52_eq, P53_eq]
  exact this

/-! ### 3. exactness on small integers -/

/-- Every integer of magnitude ≤ 2^53 converts exactly: casting back gives the same integer. -/
theorem F64.toI64_ofInt (n : Int) (h : n.natAbs ≤ 9007199254740992) : F64.toI64 (F64.ofInt n) = n := by
  by_cases h0 : n = 0
  · subst h0; decide
  · obtain ⟨m, e, h1, _, _, h2⟩ := ofInt_fin n h0 h
    rw [h1]
    unfold F64.toI64 F64.toIntSat
    simp only [truncInt_rep _ h2]
    unfold I64_MIN I64_MAX
    by_cases hs : n < 0
    · rw [decide_eq_true hs]
      simp only [↓reduceIte]
      rw [if_neg (by omega), if_neg (by omega)]; omega
    · rw [decide_eq_false hs]
      simp only [Bool.false_eq_true, ↓reduceIte]
      rw [if_neg (by omega), if_neg (by omega)]; omega

/-- Products of integers that stay within 2^53 are exact. -/
theorem F64.mul_ofInt_exact (a b : Int) (ha : a.natAbs ≤ 9007199254740992) (hb : b.natAbs ≤ 9007199254740992)
    (hab : (a * b).natAbs ≤ 9007199254740992) (hne : a * b ≠ 0) :
    F64.mul (F64.ofInt a) (F64.ofInt b) = F64.ofInt (a * b) := by
  have _ := hab   -- not needed: the product of two exact conversions is rounded once, like `ofInt (a * b)`
  have ha0 : a ≠ 0 := fun h => hne (by rw [h, Int.zero_mul])
  have hb0 : b ≠ 0 := fun h => hne (by rw [h, Int.mul_zero])
  obtain ⟨m1, e1, h1, _, _, r1⟩ := ofInt_fin a ha0 ha
  obtain ⟨m2, e2, h2, _, _, r2⟩ := ofInt_fin b hb0 hb
  rw [h1, h2, mul_fin _ _ (by decide) (by decide) r1 r2]
  unfold F64.ofInt
  rw [Int.natAbs_mul, sign_mul a b ha0 hb0]

/-! ### 4. the fraction of a second when formatting: truncation, never rounding -/

theorem factor_tbl :
    FRACTION_FACTOR_BITS.map F64.ofBits =
      [F64.ofInt ((10 ^ 6 : Nat) : Int), F64.ofInt ((10 ^ 5 : Nat) : Int), F64.ofInt ((10 ^ 4 : Nat) : Int),
       F64.ofInt ((10 ^ 3 : Nat) : Int), F64.ofInt ((10 ^ 2 : Nat) : Int), F64.ofInt ((10 ^ 1 : Nat) : Int),
       F64.ofInt ((10 ^ 0 : Nat) : Int),
       F64.fin false 7205759403792794 (-56), F64.fin false 5764607523034235 (-59),
       F64.fin false 4611686018427388 (-62)] := by decide +kernel

theorem fracB1 (u : Nat) (hu : u ≤ 999999) :
    F64.toU32 (F64.div (F64.ofInt (u : Int)) (F64.fin false 7205759403792794 (-56))) = ((u * 10 : Nat) : Int) := by
  apply fracB u _ 10 _ hu (by decide) (by decide) (by decide) (by decide)
  · intro w; omega
  · intro w h1 h2
    have : (2:Nat) ^ (-(-56 : Int)).toNat = 72057594037927936 := by decide
    rw [this]; omega

theorem fracB2 (u : Nat) (hu : u ≤ 999999) :
    F64.toU32 (F64.div (F64.ofInt (u : Int)) (F64.fin false 5764607523034235 (-59))) = ((u * 100 : Nat) : Int) := by
  apply fracB u _ 100 _ hu (by decide) (by decide) (by decide) (by decide)
  · intro w; omega
  · intro w h1 h2
    have : (2:Nat) ^ (-(-59 : Int)).toNat = 576460752303423488 := by decide
    rw [this]; omega

theorem fracB3 (u : Nat) (hu : u ≤ 999999) :
    F64.toU32 (F64.div (F64.ofInt (u : Int)) (F64.fin false 4611686018427388 (-62))) = ((u * 1000 : Nat) : Int) := by
  apply fracB u _ 1000 _ hu (by decide) (by decide) (by decide) (by decide)
  · intro w; omega
  · intro w h1 h2
    have : (2:Nat) ^ (-(-62 : Int)).toNat = 4611686018427387904 := by decide
    rw [this]; omega


theorem factor_get (p : Nat) (hp : p ≤ 9) :
    ∃ bits, idx FRACTION_FACTOR_BITS (p : Int) = .ok bits ∧
      (FRACTION_FACTOR_BITS.map F64.ofBits)[p]? = some (F64.ofBits bits) := by
  have : p = 0 ∨ p = 1 ∨ p = 2 ∨ p = 3 ∨ p = 4 ∨ p = 5 ∨ p = 6 ∨ p = 7 ∨ p = 8 ∨ p = 9 := by omega
  rcases this with h | h | h | h | h | h | h | h | h | h <;> subst h <;> exact ⟨_, rfl, rfl⟩

/-- `NaiveDateTime::fraction(p)` for every microsecond value and every precision 0..9:
    `⌊usec / 10^(6−p)⌋` for p ≤ 6 and `usec · 10^(p−6)` for p > 6 (the constants 0.1, 0.01, 0.001 are not exact
    doubles, yet the quotient rounds to the exact integer). -/
theorem fraction_eq (dt : NDT) (p : Nat) (hu : 0 ≤ dt.usec ∧ dt.usec ≤ 999999) (hp : p ≤ 9) :
    dt.fraction p = .ok (Spec.fractionOf dt.usec p) := by
  obtain ⟨bits, hb1, hb2⟩ := factor_get p hp
  unfold NDT.fraction
  rw [hb1]
  show Except.ok _ = _
  congr 1
  obtain ⟨u, hu'⟩ : ∃ u : Nat, dt.usec = (u : Int) := ⟨dt.usec.toNat, by omega⟩
  rw [hu'] at hu ⊢
  have hu2 : u ≤ 999999 := by omega
  rw [factor_tbl] at hb2
  unfold Spec.fractionOf
  have : p = 0 ∨ p = 1 ∨ p = 2 ∨ p = 3 ∨ p = 4 ∨ p = 5 ∨ p = 6 ∨ p = 7 ∨ p = 8 ∨ p = 9 := by omega
  rcases this with h | h | h | h | h | h | h | h | h | h <;> subst h <;>
    simp only [List.getElem?_cons_zero, List.getElem?_cons_succ, Option.some.injEq] at hb2 <;> rw [← hb2]
  · rw [fracA u 6 hu2 (by decide)]; simp
  · rw [fracA u 5 hu2 (by decide)]; simp
  · rw [fracA u 4 hu2 (by decide)]; simp
  · rw [fracA u 3 hu2 (by decide)]; simp
  · rw [fracA u 2 hu2 (by decide)]; simp
  · rw [fracA u 1 hu2 (by decide)]; simp
  · rw [fracA u 0 hu2 (by decide)]; simp
  · rw [fracB1 u hu2]; simp
  · rw [fracB2 u hu2]; simp
  · rw [fracB3 u hu2]; simp

/-! ### 5. the fraction of a second when parsing: half-up rounding to microseconds -/

theorem parseB1 (int : Nat) (h : int < 10 ^ 7) :
    F64.toU32 (F64.roundHalfAway (F64.mul (F64.ofInt (int : Int)) (F64.fin false 7205759403792794 (-56)))) =
      (((int * 1000000 + 10 ^ 7 / 2) / 10 ^ 7 : Nat) : Int) := by
  by_cases h0 : int = 0
  · subst h0; decide +kernel
  · have hp : (10 : Nat) ^ 7 = 10000000 := by decide
    rw [hp] at h ⊢
    generalize hH : (int * 1000000 + 10000000 / 2) / 10000000 = H
    have hB : (72057594037927936 : Nat) = 2 ^ (-(-56 : Int)).toNat := by decide
    apply parseB int _ 72057594037927936 H _ (by decide) hB (by decide) (by decide) (by omega) (by omega) (by omega)
      (by omega) (by omega) (by omega)

theorem parseB2 (int : Nat) (h : int < 10 ^ 8) :
    F64.toU32 (F64.roundHalfAway (F64.mul (F64.ofInt (int : Int)) (F64.fin false 5764607523034235 (-59)))) =
      (((int * 1000000 + 10 ^ 8 / 2) / 10 ^ 8 : Nat) : Int) := by
  by_cases h0 : int = 0
  · subst h0; decide +kernel
  · have hp : (10 : Nat) ^ 8 = 100000000 := by decide
    rw [hp] at h ⊢
    generalize hH : (int * 1000000 + 100000000 / 2) / 100000000 = H
    have hB : (576460752303423488 : Nat) = 2 ^ (-(-59 : Int)).toNat := by decide
    apply parseB int _ 576460752303423488 H _ (by decide) hB (by decide) (by decide) (by omega) (by omega) (by omega)
      (by omega) (by omega) (by omega)

theorem parseB3 (int : Nat) (h : int < 10 ^ 9) :
    F64.toU32 (F64.roundHalfAway (F64.mul (F64.ofInt (int : Int)) (F64.fin false 4611686018427388 (-62)))) =
      (((int * 1000000 + 10 ^ 9 / 2) / 10 ^ 9 : Nat) : Int) := by
  by_cases h0 : int = 0
  · subst h0; decide +kernel
  · have hp : (10 : Nat) ^ 9 = 1000000000 := by decide
    rw [hp] at h ⊢
    generalize hH : (int * 1000000 + 1000000000 / 2) / 1000000000 = H
    have hB : (4611686018427387904 : Nat) = 2 ^ (-(-62 : Int)).toNat := by decide
    apply parseB int _ 4611686018427387904 H _ (by decide) hB (by decide) (by decide) (by omega) (by omega) (by omega)
      (by omega) (by omega) (by omega)

theorem parseA' (int len : Nat) (hl : len ≤ 6) (hi : int < 10 ^ len) :
    F64.toU32 (F64.roundHalfAway (F64.mul (F64.ofInt (int : Int)) (F64.ofInt ((10 ^ (6 - len) : Nat) : Int)))) =
      ((int * 10 ^ (6 - len) : Nat) : Int) := by
  have h1 : int * 10 ^ (6 - len) < 10 ^ len * 10 ^ (6 - len) := Nat.mul_lt_mul_of_pos_right hi (by positivity)
  rw [← Nat.pow_add, show len + (6 - len) = 6 by omega] at h1
  have h2 : 10 ^ (6 - len) ≤ 10 ^ 6 := Nat.pow_le_pow_right (by decide) (by omega)
  have h3 : 10 ^ len ≤ 10 ^ 6 := Nat.pow_le_pow_right (by decide) hl
  apply parseA <;> omega


/-- `parse_fraction` on `len` digits with value `int` (`int < 10^len`, `len ≤ 9`):
    `int · 10^(6−len)` for len ≤ 6, and `⌊(int · 10^6 + 10^len / 2) / 10^len⌋` (half-up) for len > 6. -/
theorem parseFraction_value (int : Nat) (len : Nat) (hl : len ≤ 9) (hi : int < 10 ^ len) :
    (FRACTION_FACTOR_BITS[len]?).map (fun bits =>
      F64.toU32 (F64.roundHalfAway (F64.mul (F64.ofInt int) (F64.ofBits bits)))) =
    some (if len ≤ 6 then (int * 10 ^ (6 - len) : Nat) else ((int * 1000000 + 10 ^ len / 2) / 10 ^ len : Nat)) := by
  have hmap : (FRACTION_FACTOR_BITS[len]?).map (fun bits =>
      F64.toU32 (F64.roundHalfAway (F64.mul (F64.ofInt int) (F64.ofBits bits)))) =
      ((FRACTION_FACTOR_BITS.map F64.ofBits)[len]?).map (fun c =>
        F64.toU32 (F64.roundHalfAway (F64.mul (F64.ofInt int) c))) := by
    rw [List.getElem?_map, Option.map_map]; rfl
  rw [hmap, factor_tbl]
  have : len = 0 ∨ len = 1 ∨ len = 2 ∨ len = 3 ∨ len = 4 ∨ len = 5 ∨ len = 6 ∨ len = 7 ∨ len = 8 ∨ len = 9 := by
    omega
  rcases this with h | h | h | h | h | h | h | h | h | h <;> subst h <;>
    simp only [List.getElem?_cons_zero, List.getElem?_cons_succ, Option.map_some, Option.pure_def,
      Option.bind_eq_bind, Option.bind_some, Option.some.injEq, Nat.reduceLeDiff, ↓reduceIte]
  · exact parseA' int 0 (by decide) hi
  · exact parseA' int 1 (by decide) hi
  · exact parseA' int 2 (by decide) hi
  · exact parseA' int 3 (by decide) hi
  · exact parseA' int 4 (by decide) hi
  · exact parseA' int 5 (by decide) hi
  · exact parseA' int 6 (by decide) hi
  · exact parseB1 int hi
  · exact parseB2 int hi
  · exact parseB3 int hi

end SqlDt.Lemmas
